(* Line-oriented driver around the engine model extracted from Coq (engine.ml).
   One case per line:
     <hex stream or -> <bufsize> <chunks> <eof|err> <reads>
   or the same five fields twice (Reader reused through Reset, see handle below)
   chunks / reads: comma separated sizes, "AxB" = size A repeated B times ("-" = none).
   The chunk sizes cut the stream from the left; what is left over is one last chunk.
   Answer, one line:
     <consumed> <kind>:<hex> <kind>:<hex> ...      (one item per Read call)
   kind = ok | eof | ueof | corrupt@<roffset> | src | noprogress | bufferfull | panic | stuck *)
open Engine

let rec pos_of_int (n : int) : positive =
  if n = 1 then XH else if n land 1 = 1 then XI (pos_of_int (n lsr 1)) else XO (pos_of_int (n lsr 1))
let n_of_int (n : int) : n = if n = 0 then N0 else Npos (pos_of_int n)
let rec int_of_pos = function XH -> 1 | XO p -> 2 * int_of_pos p | XI p -> 2 * int_of_pos p + 1
let int_of_n = function N0 -> 0 | Npos p -> int_of_pos p
let int_of_z = function Z0 -> 0 | Zpos p -> int_of_pos p | Zneg p -> - (int_of_pos p)

let hexval c = match c with
  | '0'..'9' -> Char.code c - 48 | 'a'..'f' -> Char.code c - 87 | 'A'..'F' -> Char.code c - 55
  | _ -> failwith "hex"
let bytes_of_hex (s : string) : int list =
  if s = "-" then [] else begin
    let n = String.length s / 2 in
    let rec go i acc = if i < 0 then acc
      else go (i - 1) ((hexval s.[2*i] * 16 + hexval s.[2*i+1]) :: acc) in
    go (n - 1) [] end
let byte_tab = Array.init 256 n_of_int

let sizes (s : string) : int list =
  if s = "-" || s = "" then [] else
  let rec rep v k acc = if k = 0 then acc else rep v (k - 1) (v :: acc) in
  List.rev (List.fold_left (fun acc it ->
    match String.split_on_char 'x' it with
    | [a] -> int_of_string a :: acc
    | [a; b] -> rep (int_of_string a) (int_of_string b) acc
    | _ -> failwith "size") [] (String.split_on_char ',' s))

let split_chunks (data : int list) (szs : int list) : n list list =
  let rec take k l acc = if k = 0 then (List.rev acc, l) else
    match l with [] -> (List.rev acc, []) | x :: r -> take (k - 1) r (byte_tab.(x) :: acc) in
  let rec go data szs acc =
    match szs with
    | [] -> List.rev (if data = [] then acc else List.rev (List.rev_map (fun b -> byte_tab.(b)) data) :: acc)
    | k :: rest -> let (c, l) = take k data [] in go l rest (c :: acc) in
  go data szs []

let kind_s = function
  | ROk -> "ok" | REOF -> "eof" | RUnexpectedEOF -> "ueof"
  | RCorrupt off -> "corrupt@" ^ string_of_int (int_of_z off)
  | RSrcErr -> "src" | RNoProgress -> "noprogress" | RBufferFull -> "bufferfull"
  | RPanic -> "panic" | RStuck -> "stuck"

let add_items (b : Buffer.t) l =
  List.iter (fun (bytes, r) ->
    Buffer.add_char b ' ';
    Buffer.add_string b (kind_s r);
    Buffer.add_char b ':';
    if bytes = [] then Buffer.add_char b '-'
    else List.iter (fun x -> Buffer.add_string b (Printf.sprintf "%02x" (int_of_n x))) bytes) l

let source hex bufsize chunks term =
  (n_of_int (int_of_string bufsize), split_chunks (bytes_of_hex hex) (sizes chunks),
   (if term = "eof" then TEOF else TErr))
let read_list reads = List.rev (List.rev_map n_of_int (sizes reads))

(* 5 fields: one Reader (erun_ext).  10 fields: two sources, Reset in between (erun2); every
   Read of the first list is issued (sticky error), the second list stops at the first error.
   Answer for 10 fields:  <consumed of source 2> <items of phase 1> | <items of phase 2> *)
let handle (line : string) : string =
  match List.filter (fun s -> s <> "") (String.split_on_char ' ' line) with
  | [hex; bufsize; chunks; term; reads] ->
    let (bs, cs, t) = source hex bufsize chunks term in
    let (l, consumed) = erun_ext bs cs t (read_list reads) in
    let b = Buffer.create 4096 in
    Buffer.add_string b (string_of_int (int_of_n consumed));
    add_items b l;
    Buffer.contents b
  | [hex1; bufsize1; chunks1; term1; reads1; hex2; bufsize2; chunks2; term2; reads2] ->
    let (bs1, cs1, t1) = source hex1 bufsize1 chunks1 term1 in
    let (bs2, cs2, t2) = source hex2 bufsize2 chunks2 term2 in
    let ((l1, l2), consumed) = erun2 bs1 cs1 t1 (read_list reads1) bs2 cs2 t2 (read_list reads2) in
    let b = Buffer.create 4096 in
    Buffer.add_string b (string_of_int (int_of_n consumed));
    add_items b l1;
    Buffer.add_string b " |";
    add_items b l2;
    Buffer.contents b
  | _ -> "ERR bad request"

let () =
  try
    while true do
      let line = input_line stdin in
      print_string (handle line); print_newline ()
    done
  with End_of_file -> ()
