(* Line-oriented driver around the code extracted from Coq (model.ml).
   It only parses hex, converts machine integers to and from Coq's binary numbers, calls the
   extracted functions and prints their results.  One request per line, one answer per line. *)
open Model

let rec pos_of_int (n : int) : positive =
  if n = 1 then XH else if n land 1 = 1 then XI (pos_of_int (n lsr 1)) else XO (pos_of_int (n lsr 1))
let n_of_int (n : int) : n = if n = 0 then N0 else Npos (pos_of_int n)
let rec int_of_pos = function XH -> 1 | XO p -> 2 * int_of_pos p | XI p -> 2 * int_of_pos p + 1
let int_of_n = function N0 -> 0 | Npos p -> int_of_pos p
let rec nat_of_int n = if n = 0 then O else S (nat_of_int (n - 1))
let rec int_of_nat = function O -> 0 | S n -> 1 + int_of_nat n

let hexval c = match c with
  | '0'..'9' -> Char.code c - 48 | 'a'..'f' -> Char.code c - 87 | 'A'..'F' -> Char.code c - 55
  | _ -> failwith "hex"
let bytes_of_hex (s : string) : n list =
  if s = "-" then [] else begin
    let n = String.length s / 2 in
    let rec go i acc = if i < 0 then acc
      else go (i - 1) (n_of_int (hexval s.[2*i] * 16 + hexval s.[2*i+1]) :: acc) in
    go (n - 1) [] end
let hex_of_bytes (l : n list) : string =
  if l = [] then "-" else begin
    let b = Buffer.create 1024 in
    List.iter (fun x -> Buffer.add_string b (Printf.sprintf "%02x" (int_of_n x))) l;
    Buffer.contents b end

let status_s = function Done -> "done" | NeedInput -> "need" | Corrupt -> "corrupt" | Fuel -> "fuel"

let cerr_s = function CEOF -> "EOF" | CUnexpectedEOF -> "UEOF" | CHeader -> "HEADER" | CChecksum -> "CHECKSUM"
  | CCorrupt -> "CORRUPT" | CDictionary -> "DICT"

let handle (line : string) : string =
  match String.split_on_char ' ' line with
  | ["I"; dict; data] ->
    let r = inflate (bytes_of_hex dict) (bytes_of_hex data) in
    let sy = String.concat "," (List.map (fun (a, b) ->
      Printf.sprintf "%d:%d" (int_of_n a) (int_of_n b)) r.syncs) in
    Printf.sprintf "I %s %d %d %s %s" (status_s r.status) (int_of_n r.bitpos)
      (int_of_n r.maxdist) (hex_of_bytes r.out) (if sy = "" then "-" else sy)
  | "W" :: sync :: level :: win :: fail :: ops ->
    (* writer model: W <0|1 sync> <level> <0|1 win4k> <failAt or 0> ops...  (w<hex> | f | c | r) *)
    let lv = int_of_string level in
    let z = if lv = 0 then Z0 else if lv > 0 then Zpos (pos_of_int lv) else Zneg (pos_of_int (-lv)) in
    let fa = int_of_string fail in
    let ops = List.filter (fun o -> o <> "") ops in
    let ops = List.map (fun o ->
      match o.[0] with
      | 'w' -> OWrite (bytes_of_hex (let t = String.sub o 1 (String.length o - 1) in if t = "" then "-" else t))
      | 'f' -> OFlush | 'c' -> OClose | 'r' -> OReset
      | _ -> failwith "op") ops in
    let ((r, evok), nev) = wrun_checked (sync = "1") z (win = "1") (if fa = 0 then None else Some (n_of_int fa)) ops in
    let res = String.concat "," (List.map (fun (n, e) -> Printf.sprintf "%d:%d" (int_of_n n) (if e then 1 else 0)) r.wres) in
    let dests = String.concat "|" (List.map (fun chunks ->
      if chunks = [] then "." else String.concat "," (List.map hex_of_bytes chunks)) r.wdests) in
    Printf.sprintf "W %d %s %s %d %d" (if r.woob then 1 else 0) (if res = "" then "-" else res) dests (if evok then 1 else 0) (int_of_n nev)
  | ["R"; dict; data; term] ->
    (* reader model on one delivery of all the bytes (the result does not depend on the chunking:
       theorem schedule_independent), then the terminal behaviour of the source *)
    let t = if term = "eof" then TEOF else TErr (n_of_int (int_of_string (String.sub term 1 (String.length term - 1)))) in
    let o = rrun (bytes_of_hex dict) [bytes_of_hex data] t in
    let e = match o.rerror with REOF -> "EOF" | RUnexpectedEOF -> "UEOF" | RCorrupt -> "CORRUPT" | RSrc n -> "SRC" ^ string_of_int (int_of_n n) in
    Printf.sprintf "R %s %s %d" e (hex_of_bytes o.rbytes) (int_of_n o.rconsumed)
  | ["G"; multi; data] ->
    (* gzip reader model: G <0|1 multistream> <hex> *)
    let r = gz_read (multi = "1") (bytes_of_hex data) in
    Printf.sprintf "G %s %s %d %d %d" (cerr_s r.g_err) (hex_of_bytes r.g_payload) (List.length r.g_left)
      (List.length r.g_hdrs) (if r.g_at_ctor then 1 else 0)
  | ["Z"; dict; data] ->
    (* zlib reader model: Z <dict hex or -, or N for no dictionary> <hex> *)
    let d = if dict = "N" then None else Some (bytes_of_hex dict) in
    let r = zl_read d (bytes_of_hex data) in
    Printf.sprintf "G %s %s %d %d %d" (cerr_s r.g_err) (hex_of_bytes r.g_payload) (List.length r.g_left)
      0 (if r.g_at_ctor then 1 else 0)
  | "O" :: sync :: level :: win :: calls :: ops ->
    (* oracle run: O <sync> <level> <win4k> <calls> ops...   calls = ';'-separated
       flush:len:proc:off:ntok0:noff:ntok:tokens   tokens = ','-separated  l<byte> | m<len>.<dist>   ("-" = none) *)
    let lv = int_of_string level in
    let z = if lv = 0 then Z0 else if lv > 0 then Zpos (pos_of_int lv) else Zneg (pos_of_int (-lv)) in
    let parse_tok t =
      if t.[0] = 'l' then TLit (n_of_int (int_of_string (String.sub t 1 (String.length t - 1))))
      else match String.split_on_char '.' (String.sub t 1 (String.length t - 1)) with
        | [a; b] -> TMatch (n_of_int (int_of_string a), n_of_int (int_of_string b))
        | _ -> failwith "tok" in
    let parse_call c =
      match String.split_on_char ':' c with
      | [fl; len; proc; off; nt0; noff; nt; toks] ->
        let ts = if toks = "-" then [] else List.map parse_tok (String.split_on_char ',' toks) in
        { k_flush = (fl = "1"); k_len = n_of_int (int_of_string len); k_proc = n_of_int (int_of_string proc);
          k_off = n_of_int (int_of_string off); k_ntok0 = n_of_int (int_of_string nt0);
          k_noff = n_of_int (int_of_string noff); k_new = ts; k_ntok = n_of_int (int_of_string nt) }
      | _ -> failwith "call" in
    let answers = if calls = "-" then [] else List.map parse_call (String.split_on_char ';' calls) in
    let ops = List.filter (fun o -> o <> "") ops in
    let ops = List.map (fun o ->
      match o.[0] with
      | 'w' -> OWrite (bytes_of_hex (let t = String.sub o 1 (String.length o - 1) in if t = "" then "-" else t))
      | 'f' -> OFlush | 'c' -> OClose | 'r' -> OReset
      | _ -> failwith "op") ops in
    let r = orun (sync = "1") z (win = "1") answers ops in
    let res = String.concat "," (List.map (fun (n, e) -> Printf.sprintf "%d:%d" (int_of_n n) (if e then 1 else 0)) r.o_res) in
    let dests = String.concat "|" (List.map hex_of_bytes r.o_dests) in
    Printf.sprintf "O %d %d %d %d %d %s %s" (if r.o_mis then 1 else 0) (if r.o_con then 1 else 0) (int_of_n r.o_ncalls)
      (int_of_n r.o_left) (if r.o_events_ok then 1 else 0) (if res = "" then "-" else res) dests
  | "C" :: kind :: sync :: level :: fail :: hdr :: ops ->
    (* container writer model: C <g|z> <sync> <level> <failAt> <extra|N>:<name>:<comment>:<mtime>:<os> ops... *)
    let lv = int_of_string level in
    let z = if lv = 0 then Z0 else if lv > 0 then Zpos (pos_of_int lv) else Zneg (pos_of_int (-lv)) in
    let fa = int_of_string fail in
    let k = if kind = "z" then KZlib else
      (match String.split_on_char ':' hdr with
       | [ex; nm; cm; mt; os] ->
         KGzip { gw_extra = (if ex = "N" then None else Some (bytes_of_hex ex)); gw_name = bytes_of_hex nm;
                 gw_comment = bytes_of_hex cm; gw_mtime = n_of_int (int_of_string mt); gw_os = n_of_int (int_of_string os) }
       | _ -> failwith "hdr") in
    let ops = List.filter (fun o -> o <> "") ops in
    let ops = List.map (fun o ->
      match o.[0] with
      | 'w' -> OWrite (bytes_of_hex (let t = String.sub o 1 (String.length o - 1) in if t = "" then "-" else t))
      | 'f' -> OFlush | 'c' -> OClose | 'r' -> OReset
      | _ -> failwith "op") ops in
    let r = cwrun k (sync = "1") z (if fa = 0 then None else Some (n_of_int fa)) ops in
    let res = String.concat "," (List.map (fun (n, e) -> Printf.sprintf "%d:%d" (int_of_n n) (if e then 1 else 0)) r.wres) in
    let dests = String.concat "|" (List.map (fun chunks ->
      if chunks = [] then "." else String.concat "," (List.map hex_of_bytes chunks)) r.wdests) in
    Printf.sprintf "W %d %s %s 1 0" (if r.woob then 1 else 0) (if res = "" then "-" else res) dests
  | ["E"; bufsize; chunks; term; reads; data] ->
    (* engine model: E <bufio size> <chunk sizes, comma separated, or -> <eof|err> <read sizes> <hex> *)
    let ints s = if s = "-" then [] else List.map int_of_string (String.split_on_char ',' s) in
    let bytes = bytes_of_hex data in
    let rec cut l = function
      | [] -> []
      | k :: r -> let rec take n l acc = if n = 0 then (List.rev acc, l) else (match l with [] -> (List.rev acc, []) | x :: t -> take (n - 1) t (x :: acc)) in
                  let (c, rest) = take k l [] in c :: cut rest r in
    let (obs, consumed) = erun_obs (n_of_int (int_of_string bufsize)) (cut bytes (ints chunks)) (term = "err")
                            (List.map n_of_int (ints reads)) in
    let rs = String.concat "," (List.map (fun (b, c) -> Printf.sprintf "%d:%d" (List.length b) (int_of_n c)) obs) in
    let all = List.concat (List.map fst obs) in
    Printf.sprintf "E %d %s %s" (int_of_n consumed) (if rs = "" then "-" else rs) (hex_of_bytes all)
  | _ -> "ERR bad request"

let () =
  try
    while true do
      let line = input_line stdin in
      let ans = try handle line with e -> "ERR " ^ Printexc.to_string e in
      print_string ans; print_newline ()
    done
  with End_of_file -> ()
