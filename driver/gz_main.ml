(* Line-oriented driver around the gzip/zlib reader model extracted from Coq (gzengine.ml).
   One case per line; a source is four fields
       <hex stream or -> <bufsize> <chunks> <eof|err>
   chunks: comma separated sizes, "AxB" = size A repeated B times ("-" = none); the sizes cut the
   stream from the left, what is left over is one last chunk.

   G <source> <ops> [<source>]*          gzip: new(Reader); Reset(bufio.NewReaderSize(src,bufsize)); ops
       ops, comma separated:  r<N> | r<N>x<K>   Read with len(p)=N (K times)
                              R                 Reset(br), br the bufio.Reader in use
                              W                 Reset(src), the raw source under it (new 4096 bufio)
                              N                 Reset onto the next <source> of the line
                              M0 | M1           Multistream(false|true)
                              C                 Close
                              -                 nothing
   g <source> <0|1> <reads>              gzip: NewReader; Multistream(flag); Reads   (gzrun_obs)
   Z <dicts> <k> <source> <ops> [<source>]*   zlib: Reset(src, dict k) on a zero reader; ops
       dicts: "-" or hex strings separated by "/" ("e" = the empty dictionary); index 0 = nil
       ops: r<N>[x<K>] | R<k> (Reset(br, dict k)) | N<k> (next source, dict k) | C | -
   z <nil|e|hex> <source> <reads>        zlib: NewReader / NewReaderDict; Reads       (zlrun_obs)

   Answer, one line:  <consumed> <item> <item> ...
       reset:<kind>[:<mtime>:<os>:<extra>:<name>:<comment>]   (extra: nil | - | hex; strings: - | hex)
       read:<kind>:<hex or ->      close:<kind>      src:<consumed from the source being left>
   kind = ok | eof | ueof | corrupt@<off> | src | noprogress | bufferfull | panic | stuck
        | gzhdr | gzsum | zlhdr | zlsum | zldict *)
open Gzengine

let rec pos_of_int (n : int) : positive =
  if n = 1 then XH else if n land 1 = 1 then XI (pos_of_int (n lsr 1)) else XO (pos_of_int (n lsr 1))
let n_of_int (n : int) : n = if n = 0 then N0 else Npos (pos_of_int n)
let rec int_of_pos = function XH -> 1 | XO p -> 2 * int_of_pos p | XI p -> 2 * int_of_pos p + 1
let int_of_n = function N0 -> 0 | Npos p -> int_of_pos p
let int_of_z = function Z0 -> 0 | Zpos p -> int_of_pos p | Zneg p -> - (int_of_pos p)

let hexval c = match c with
  | '0'..'9' -> Char.code c - 48 | 'a'..'f' -> Char.code c - 87 | 'A'..'F' -> Char.code c - 55
  | _ -> failwith "hex"
let bytes_of_hex (s : string) : int list =
  if s = "-" || s = "e" then [] else begin
    let n = String.length s / 2 in
    let rec go i acc = if i < 0 then acc
      else go (i - 1) ((hexval s.[2*i] * 16 + hexval s.[2*i+1]) :: acc) in
    go (n - 1) [] end
let byte_tab = Array.init 256 n_of_int
let nbytes_of_hex s = List.rev (List.rev_map (fun b -> byte_tab.(b)) (bytes_of_hex s))

let rep_item (it : string) : int * int =
  match String.split_on_char 'x' it with
  | [a] -> (int_of_string a, 1)
  | [a; b] -> (int_of_string a, int_of_string b)
  | _ -> failwith "size"

let sizes (s : string) : int list =
  if s = "-" || s = "" then [] else
  let rec rep v k acc = if k = 0 then acc else rep v (k - 1) (v :: acc) in
  List.rev (List.fold_left (fun acc it -> let (a, b) = rep_item it in rep a b acc) []
              (String.split_on_char ',' s))

let split_chunks (data : int list) (szs : int list) : n list list =
  let rec take k l acc = if k = 0 then (List.rev acc, l) else
    match l with [] -> (List.rev acc, []) | x :: r -> take (k - 1) r (byte_tab.(x) :: acc) in
  let rec go data szs acc =
    match szs with
    | [] -> List.rev (if data = [] then acc else List.rev (List.rev_map (fun b -> byte_tab.(b)) data) :: acc)
    | k :: rest -> let (c, l) = take k data [] in go l rest (c :: acc) in
  go data szs []

let rres_s = function
  | ROk -> "ok" | REOF -> "eof" | RUnexpectedEOF -> "ueof"
  | RCorrupt off -> "corrupt@" ^ string_of_int (int_of_z off)
  | RSrcErr -> "src" | RNoProgress -> "noprogress" | RBufferFull -> "bufferfull"
  | RPanic -> "panic" | RStuck -> "stuck"
let kind_s = function
  | GR r -> rres_s r
  | GzErrHeader -> "gzhdr" | GzErrChecksum -> "gzsum"
  | ZlErrHeader -> "zlhdr" | ZlErrChecksum -> "zlsum" | ZlErrDictionary -> "zldict"
let code_s (c : n) : string =
  match int_of_n c with
  | 0 -> "ok" | 1 -> "eof" | 2 -> "ueof" | 3 -> "corrupt" | 4 -> "src" | 5 -> "noprogress"
  | 6 -> "bufferfull" | 7 -> "panic" | 8 -> "stuck" | 9 -> "gzhdr" | 10 -> "gzsum"
  | 11 -> "zlhdr" | 12 -> "zlsum" | 13 -> "zldict" | _ -> "?"

let add_hex (b : Buffer.t) (bytes : n list) =
  if bytes = [] then Buffer.add_char b '-'
  else List.iter (fun x -> Buffer.add_string b (Printf.sprintf "%02x" (int_of_n x))) bytes

let add_hdr (b : Buffer.t) (h : gzheader) =
  Buffer.add_string b (Printf.sprintf ":%d:%d:" (int_of_n h.h_modtime) (int_of_n h.h_os));
  (match h.h_extra with None -> Buffer.add_string b "nil" | Some l -> add_hex b l);
  Buffer.add_char b ':'; add_hex b h.h_name;
  Buffer.add_char b ':'; add_hex b h.h_comment

let add_read (b : Buffer.t) (k : string) (bytes : n list) =
  Buffer.add_string b " read:"; Buffer.add_string b k; Buffer.add_char b ':'; add_hex b bytes

let source hex bufsize chunks term =
  (n_of_int (int_of_string bufsize), split_chunks (bytes_of_hex hex) (sizes chunks), term = "err")

let rec sources = function
  | [] -> []
  | hex :: bufsize :: chunks :: term :: rest -> source hex bufsize chunks term :: sources rest
  | _ -> failwith "source fields"

let rec repeat x k acc = if k = 0 then acc else repeat x (k - 1) (x :: acc)

(* ops of a G line *)
let gz_ops_of (s : string) (srcs : (n * n list list * bool) list) : gzop list =
  let srcs = ref srcs in
  let toks = if s = "-" then [] else String.split_on_char ',' s in
  List.rev (List.fold_left (fun acc t ->
    match t.[0] with
    | 'r' -> let (a, k) = rep_item (String.sub t 1 (String.length t - 1)) in
             repeat (GoRead (n_of_int a)) k acc
    | 'R' -> GoReset :: acc
    | 'W' -> GoResetRaw :: acc
    | 'N' -> (match !srcs with
              | (bs, cs, te) :: rest -> srcs := rest; GoResetSrc (bs, cs, te) :: acc
              | [] -> failwith "no source left")
    | 'M' -> GoMulti (t = "M1") :: acc
    | 'C' -> GoClose :: acc
    | _ -> failwith "op") [] toks)

let dict_list (s : string) : n list array =
  if s = "-" then [| [] |]
  else Array.of_list ([] :: List.map nbytes_of_hex (String.split_on_char '/' s))

let zl_ops_of (s : string) (dicts : n list array) (srcs : (n * n list list * bool) list) : zlop list =
  let srcs = ref srcs in
  let toks = if s = "-" then [] else String.split_on_char ',' s in
  let arg t = int_of_string (String.sub t 1 (String.length t - 1)) in
  List.rev (List.fold_left (fun acc t ->
    match t.[0] with
    | 'r' -> let (a, k) = rep_item (String.sub t 1 (String.length t - 1)) in
             repeat (ZoRead (n_of_int a)) k acc
    | 'R' -> ZoReset dicts.(arg t) :: acc
    | 'N' -> (match !srcs with
              | (bs, cs, te) :: rest -> srcs := rest; ZoResetSrc (bs, cs, te, dicts.(arg t)) :: acc
              | [] -> failwith "no source left")
    | 'C' -> ZoClose :: acc
    | _ -> failwith "op") [] toks)

let handle (line : string) : string =
  let b = Buffer.create 4096 in
  match List.filter (fun s -> s <> "") (String.split_on_char ' ' line) with
  | "G" :: hex :: bufsize :: chunks :: term :: ops :: more ->
    let (bs, cs, te) = source hex bufsize chunks term in
    let (l, consumed) = gzrun_ops bs cs te (gz_ops_of ops (sources more)) in
    Buffer.add_string b (string_of_int (int_of_n consumed));
    List.iter (function
      | ObRead (bytes, e) -> add_read b (kind_s e) bytes
      | ObReset (e, h) -> Buffer.add_string b " reset:"; Buffer.add_string b (kind_s e); add_hdr b h
      | ObClose e -> Buffer.add_string b " close:"; Buffer.add_string b (kind_s e)
      | ObSrc c -> Buffer.add_string b " src:"; Buffer.add_string b (string_of_int (int_of_n c))) l;
    Buffer.contents b
  | ["g"; hex; bufsize; chunks; term; multi; reads] ->
    let (bs, cs, te) = source hex bufsize chunks term in
    let (((code, h), l), consumed) =
      gzrun_obs bs cs te (multi = "1") (List.map n_of_int (sizes reads)) in
    Buffer.add_string b (string_of_int (int_of_n consumed));
    Buffer.add_string b " reset:"; Buffer.add_string b (code_s code); add_hdr b h;
    List.iter (fun (bytes, c) -> add_read b (code_s c) bytes) l;
    Buffer.contents b
  | "Z" :: dicts :: k :: hex :: bufsize :: chunks :: term :: ops :: more ->
    let (bs, cs, te) = source hex bufsize chunks term in
    let ds = dict_list dicts in
    let (l, consumed) = zlrun_ops bs cs te ds.(int_of_string k) (zl_ops_of ops ds (sources more)) in
    Buffer.add_string b (string_of_int (int_of_n consumed));
    List.iter (function
      | ZbRead (bytes, e) -> add_read b (kind_s e) bytes
      | ZbReset e -> Buffer.add_string b " reset:"; Buffer.add_string b (kind_s e)
      | ZbClose e -> Buffer.add_string b " close:"; Buffer.add_string b (kind_s e)
      | ZbSrc c -> Buffer.add_string b " src:"; Buffer.add_string b (string_of_int (int_of_n c))) l;
    Buffer.contents b
  | ["z"; dict; hex; bufsize; chunks; term; reads] ->
    let (bs, cs, te) = source hex bufsize chunks term in
    let d = if dict = "nil" then None else Some (nbytes_of_hex dict) in
    let ((code, l), consumed) = zlrun_obs bs cs te d (List.map n_of_int (sizes reads)) in
    Buffer.add_string b (string_of_int (int_of_n consumed));
    Buffer.add_string b " reset:"; Buffer.add_string b (code_s code);
    List.iter (fun (bytes, c) -> add_read b (code_s c) bytes) l;
    Buffer.contents b
  | _ -> "ERR bad request"

let () =
  try
    while true do
      let line = input_line stdin in
      (try print_string (handle line) with e -> print_string ("ERR " ^ Printexc.to_string e));
      print_newline ()
    done
  with End_of_file -> ()
