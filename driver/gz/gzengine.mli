
val negb : bool -> bool

type nat =
| O
| S of nat

type ('a, 'b) sum =
| Inl of 'a
| Inr of 'b

val fst : ('a1 * 'a2) -> 'a1

val snd : ('a1 * 'a2) -> 'a2

val length : 'a1 list -> nat

val app : 'a1 list -> 'a1 list -> 'a1 list

type comparison =
| Eq
| Lt
| Gt

val compOpp : comparison -> comparison

val add : nat -> nat -> nat

val sub : nat -> nat -> nat

module Nat :
 sig
  val eqb : nat -> nat -> bool

  val leb : nat -> nat -> bool

  val ltb : nat -> nat -> bool

  val eq_dec : nat -> nat -> bool
 end

val hd_error : 'a1 list -> 'a1 option

val nth : nat -> 'a1 list -> 'a1 -> 'a1

val nth_error : 'a1 list -> nat -> 'a1 option

val count_occ : ('a1 -> 'a1 -> bool) -> 'a1 list -> 'a1 -> nat

val rev_append : 'a1 list -> 'a1 list -> 'a1 list

val concat : 'a1 list list -> 'a1 list

val map : ('a1 -> 'a2) -> 'a1 list -> 'a2 list

val flat_map : ('a1 -> 'a2 list) -> 'a1 list -> 'a2 list

val fold_left : ('a1 -> 'a2 -> 'a1) -> 'a2 list -> 'a1 -> 'a1

val fold_right : ('a2 -> 'a1 -> 'a1) -> 'a1 -> 'a2 list -> 'a1

val firstn : nat -> 'a1 list -> 'a1 list

val skipn : nat -> 'a1 list -> 'a1 list

val seq : nat -> nat -> nat list

val repeat : 'a1 -> nat -> 'a1 list

type positive =
| XI of positive
| XO of positive
| XH

type n =
| N0
| Npos of positive

type z =
| Z0
| Zpos of positive
| Zneg of positive

module Pos :
 sig
  type mask =
  | IsNul
  | IsPos of positive
  | IsNeg
 end

module Coq_Pos :
 sig
  val succ : positive -> positive

  val add : positive -> positive -> positive

  val add_carry : positive -> positive -> positive

  val pred_double : positive -> positive

  val pred_N : positive -> n

  type mask = Pos.mask =
  | IsNul
  | IsPos of positive
  | IsNeg

  val succ_double_mask : mask -> mask

  val double_mask : mask -> mask

  val double_pred_mask : positive -> mask

  val sub_mask : positive -> positive -> mask

  val sub_mask_carry : positive -> positive -> mask

  val mul : positive -> positive -> positive

  val iter : ('a1 -> 'a1) -> 'a1 -> positive -> 'a1

  val pow : positive -> positive -> positive

  val size : positive -> positive

  val compare_cont : comparison -> positive -> positive -> comparison

  val compare : positive -> positive -> comparison

  val eqb : positive -> positive -> bool

  val coq_Nsucc_double : n -> n

  val coq_Ndouble : n -> n

  val coq_lor : positive -> positive -> positive

  val coq_land : positive -> positive -> n

  val coq_lxor : positive -> positive -> n

  val shiftl : positive -> n -> positive

  val testbit : positive -> n -> bool

  val iter_op : ('a1 -> 'a1 -> 'a1) -> positive -> 'a1 -> 'a1

  val to_nat : positive -> nat

  val of_succ_nat : nat -> positive
 end

module N :
 sig
  val succ_double : n -> n

  val double : n -> n

  val pred : n -> n

  val succ_pos : n -> positive

  val add : n -> n -> n

  val sub : n -> n -> n

  val mul : n -> n -> n

  val compare : n -> n -> comparison

  val eqb : n -> n -> bool

  val leb : n -> n -> bool

  val ltb : n -> n -> bool

  val min : n -> n -> n

  val max : n -> n -> n

  val div2 : n -> n

  val even : n -> bool

  val odd : n -> bool

  val pow : n -> n -> n

  val size : n -> n

  val pos_div_eucl : positive -> n -> n * n

  val div_eucl : n -> n -> n * n

  val div : n -> n -> n

  val modulo : n -> n -> n

  val coq_lor : n -> n -> n

  val coq_land : n -> n -> n

  val coq_lxor : n -> n -> n

  val shiftl : n -> n -> n

  val shiftr : n -> n -> n

  val testbit : n -> n -> bool

  val to_nat : n -> nat

  val of_nat : nat -> n

  val ones : n -> n
 end

module Z :
 sig
  val double : z -> z

  val succ_double : z -> z

  val pred_double : z -> z

  val pos_sub : positive -> positive -> z

  val add : z -> z -> z

  val opp : z -> z

  val sub : z -> z -> z

  val mul : z -> z -> z

  val compare : z -> z -> comparison

  val leb : z -> z -> bool

  val ltb : z -> z -> bool

  val eqb : z -> z -> bool

  val to_nat : z -> nat

  val to_N : z -> n

  val of_N : n -> z

  val quotrem : z -> z -> z * z

  val quot : z -> z -> z
 end

val frev : 'a1 list -> 'a1 list

type byte = n

val bits_of_N : nat -> n -> bool list

val bits_of_bytes : byte list -> bool list

type bs = { bl : bool list; bp : n }

val bs_of_bytes : byte list -> bs

val take1 : bs -> (bool * bs) option

val take : nat -> bs -> (n * bs) option

val align : bs -> bs

type lens = nat list

val count_len : lens -> nat -> n

val kraft : nat -> lens -> n

val oversubscribed : nat -> lens -> bool

val first_code : lens -> nat -> n

val upd : nat -> 'a1 -> 'a1 list -> 'a1 list

val assign : lens -> nat -> n list -> ((nat * nat) * n) list

val canon : lens -> ((nat * nat) * n) list

val code_bits : nat -> n -> bool list

type trie =
| TEmpty
| TLeaf of nat
| TNode of trie * trie

val tinsert : trie -> bool list -> nat -> trie option

val build : ((nat * nat) * n) list -> trie -> trie option

val mktrie : nat -> lens -> trie option

type 'a dres =
| DOk of 'a * bs
| DNeed
| DBad

val decode_sym : trie -> bs -> nat dres

type istatus =
| Done
| NeedInput
| Corrupt
| Fuel

type ostate = { rout : byte list; olen : n; oavail : n; omax : n;
                osyncs : (n * n) list }

type ires = { out : byte list; status : istatus; bitpos : n; maxdist : 
              n; syncs : (n * n) list }

val len_table : (n * n) list

val dist_table : (n * n) list

val push : byte -> ostate -> ostate

val copy_cyc : byte list -> byte list -> nat -> ostate -> ostate

val copy_match : n -> n -> ostate -> ostate

type bres =
| BEnd of ostate * bs
| BStop of ostate * bs * istatus

val symbols : nat -> trie -> trie -> ostate -> bs -> bres

val fixed_lit_lens : lens

val fixed_dist_lens : lens

val clen_order : nat list

type 'a hres =
| HOk of 'a * bs
| HStop of istatus

val read_clens : nat -> bs -> nat list hres

val scatter : nat list -> nat list -> nat list -> nat list

val read_lens : nat -> trie -> nat -> nat list -> bs -> nat list hres

val dyn_header : bs -> (trie * trie) hres

val stored : nat -> ostate -> bs -> (ostate * bs) * bool

val fixed_tries : (trie * trie) option

val finish : ostate -> bs -> istatus -> ires

val blocks : nat -> ostate -> bs -> ires

val inflate : byte list -> byte list -> ires

val crc_poly : n

val mask32 : n

val crc_bits : nat -> n -> n

val crc_byte : n -> n -> n

val crc32_update : n -> byte list -> n

val crc32 : byte list -> n

val adler_step : (n * n) -> byte -> n * n

val adler32 : byte list -> n

val of_le : byte list -> n

val of_be : byte list -> n

module PositiveMap :
 sig
  type key = positive

  type 'a tree =
  | Leaf
  | Node of 'a tree * 'a option * 'a tree

  type 'a t = 'a tree

  val empty : 'a1 t

  val find : key -> 'a1 t -> 'a1 option

  val add : key -> 'a1 -> 'a1 t -> 'a1 t
 end

type arr = n PositiveMap.t

val aempty : arr

val aget : arr -> n -> n

val aset : arr -> n -> n -> arr

val arr_fill : n list -> n -> arr -> arr

val arr_of_list : n list -> arr

val nthN : n list -> n -> n

val lenN : 'a1 list -> n

val static_lit_short_l : n list

val static_lit_long_l : n list

val static_dist_short_l : n list

val static_dist_long_l : n list

val rfc_dist_extra_l : n list

val rfc_dist_start_l : n list

val rfc_len_extra_l : n list

val mask64 : n

val mask0 : n

val mask16 : n

val u64 : n -> n

val u32 : n -> n

val u16 : n -> n

val u8 : n -> n

val shl64 : n -> n -> n

val shl32 : n -> n -> n

val shl16 : n -> n -> n

val subw : n -> n -> n -> n

val sub32 : n -> n -> n

val sub16 : n -> n -> n

val ones32 : n -> n

val ones64 : n -> n

val big_fuel : nat

val small_fuel : nat

val iterN : nat -> n -> (n -> 'a1 -> 'a1) -> 'a1 -> 'a1

val forN : n -> n -> (n -> 'a1 -> 'a1) -> 'a1 -> 'a1

val ainc : arr -> n -> arr

val rfc_dist_extra : arr

val rfc_dist_start : arr

val rfc_len_extra : arr

val static_lit_short : arr

val static_lit_long : arr

val static_dist_short : arr

val static_dist_long : arr

val phaseNewBlock : n

val phaseDecodingHeader : n

val phaseLitBlock : n

val phaseHeaderDecoded : n

val phaseStreamEnd : n

val phaseFinish : n

val litLenElems : n

val maxLitLenCount : n

val singleSymFlag : n

val doubleSymFlag : n

val defaultSymFlag : n

val distLen : n

val litLen : n

val litTableSize : n

val litSymbolsSize : n

val maxHdrSize : n

val maxLitLenSym : n

val historySize : n

val outLen : n

val invalidSymbolValue : n

val invalidCodeValue : n

val largeFlagBit : n

val largeShortSymMask : n

val smallFlagBit : n

type ierr =
| ENone
| EEndInput
| EOutputOverflow
| EInvalidBlock
| EInvalidSymbol
| EInvalidLookBack
| EPanic
| EFuel

val ierr_eqb : ierr -> ierr -> bool

val isError : ierr -> bool

type bitrd = { r_bits : n; r_len : z; r_in : n list; r_inlen : n }

type ovf = { writeOverflowLits : n; writeOverflowLen : n;
             copyOverflowLength : n; copyOverflowDistance : n }

type tabs = { litShort : arr; litLong : arr; distShort : arr; distLong : arr }

type dynHdr = { litAndDistHuff : arr; clcShort : arr; clcLong : arr;
                codeList : arr; litCount : arr; distCount : arr;
                litExpandCount : arr; nextCode : arr; lenHuffCodes : 
                arr }

type inflate0 = { rd : bitrd; inputNil : bool; ov : ovf; tb : tabs;
                  phase : n; bfinal : n; litBlockLength : n;
                  headerBuffered : n; headerBuffer : n list; dyn : dynHdr;
                  roffset : z }

val set_rd : inflate0 -> bitrd -> inflate0

val set_inputNil : inflate0 -> bool -> inflate0

val set_ov : inflate0 -> ovf -> inflate0

val set_tb : inflate0 -> tabs -> inflate0

val set_phase : inflate0 -> n -> inflate0

val set_bfinal : inflate0 -> n -> inflate0

val set_litBlockLength : inflate0 -> n -> inflate0

val set_header : inflate0 -> n -> n list -> inflate0

val set_dyn : inflate0 -> dynHdr -> inflate0

val set_roffset : inflate0 -> z -> inflate0

val br0 : bitrd

val ov0 : ovf

val dyn0 : dynHdr

val inflate1 : inflate0

val inflate_reset : inflate0 -> inflate0

val br_set_bits : bitrd -> n -> bitrd

val br_set_len : bitrd -> z -> bitrd

val br_set_in : bitrd -> n list -> n -> bitrd

val br_drop : bitrd -> n -> bitrd

val next_bits : bitrd -> n -> n * bitrd

val le64 : n -> n -> n -> n -> n -> n -> n -> n -> n

val load_bytes : nat -> bitrd -> bitrd

val load_raw : bitrd -> bitrd option

val load_lt57 : bitrd -> bitrd option

val load_le15 : bitrd -> bitrd option

val hc_len : n -> n

val hc_code : n -> n

val hc_set : n -> n -> n

val hc_setcode : n -> n -> n

val rev_bits : nat -> n -> n -> n

val bitReverse2 : n -> n -> n

val setCodes : arr -> n -> n -> arr -> arr * bool

val long_fill :
  nat -> n -> n -> arr -> n -> n -> n -> n -> n -> bool -> arr * bool

val gen_small :
  bool -> arr -> arr -> arr -> n -> arr -> n -> ((arr * arr) * arr) * ierr

val setupStaticHeader : inflate0 -> inflate0

val codeLengthOrder : arr

val loadBits : inflate0 -> inflate0 option

val readBits : inflate0 -> n -> (n * inflate0) option

val clc_read3 : n -> ((bitrd * arr) * arr) -> (bitrd * arr) * arr

val codeLenCodes : inflate0 -> n -> inflate0 * ierr

val clc_decode : arr -> arr -> bitrd -> (n * bitrd) option

type rlst = { rl_b : bitrd; rl_h : arr; rl_lc : arr; rl_dc : arr;
              rl_ex : arr; rl_curr : z; rl_prev : z; rl_inDist : bool }

val rl_count_inc : rlst -> bool -> n -> arr * arr

val expand_adjust : arr -> n -> z -> arr

val rl_put : rlst -> z -> z -> n -> rlst option

val rl_rep : nat -> rlst -> z -> z -> n -> rlst option

val rl_set_b : rlst -> bitrd -> rlst

val rl_loop : nat -> arr -> arr -> z -> z -> rlst -> rlst * ierr

val set_dyn_counts : dynHdr -> arr -> arr -> arr -> arr -> dynHdr

val readLitDistLens : inflate0 -> n -> n -> inflate0 * ierr

val indexToSym : n -> n

val calcCodeForLit :
  arr -> arr -> arr -> arr -> (((arr * arr) * arr) * arr) * bool

val expandLenCodes :
  arr -> arr -> arr -> arr -> arr -> (((arr * arr) * arr) * arr) * bool

val setAndExpandLitLenHuffCode : dynHdr -> dynHdr * ierr

val encodeSingles : arr -> dynHdr -> n -> arr * bool

val pairs_loop : nat -> arr -> dynHdr -> n -> n -> n -> arr * ierr

val encodePairs : arr -> dynHdr -> n -> n -> arr * ierr

val triples_loop2 :
  nat -> arr -> dynHdr -> n -> n -> n -> n -> n -> n -> arr * ierr

val triples_loop1 : nat -> arr -> dynHdr -> n -> n -> n -> n -> arr * ierr

val encodeTriples : arr -> dynHdr -> n -> n -> arr * ierr

val encodeLongCodes : arr -> arr -> dynHdr -> n -> ((arr * arr) * arr) * bool

val set_dyn_huff : dynHdr -> arr -> dynHdr

val genForLitLen : arr -> arr -> dynHdr -> n -> ((arr * arr) * dynHdr) * ierr

val setupDynamicHeader : inflate0 -> inflate0 * ierr

val prepareForLitBlock : inflate0 -> inflate0 * ierr

val tryDecodeHeader : inflate0 -> inflate0 * ierr

val rOffset : inflate0 -> z -> z -> inflate0

val readHeader : inflate0 -> inflate0 * ierr

val byteCopy_nat : nat -> arr -> n -> n -> arr

val byteCopy : arr -> n -> n -> n -> arr

val lit_drain :
  nat -> bitrd -> arr -> n -> n -> n -> ((((bitrd * arr) * n) * n) * bool)
  option

val copy_list : n list -> nat -> arr -> n -> arr * n list

val decodeLiteralBlock : inflate0 -> arr -> n -> ((inflate0 * arr) * n) * ierr

val set_wov : inflate0 -> n -> n -> inflate0

val set_cov : inflate0 -> n -> n -> inflate0

val end_of_block : inflate0 -> inflate0

type hres0 =
| HCont of inflate0 * bitrd * arr * n
| HFin of inflate0 * bitrd * arr * n * ierr

val dist_decode : tabs -> bitrd -> (n * bitrd) option

val huff_inner :
  nat -> inflate0 -> bitrd -> arr -> n -> n -> n -> bitrd -> n -> hres0

val litlen_decode : tabs -> bitrd -> ((bitrd * n) * n) option

val huff_outer :
  nat -> inflate0 -> bitrd -> arr -> n ->
  (((inflate0 * bitrd) * arr) * n) * ierr

val decodeHuffman : inflate0 -> arr -> n -> ((inflate0 * arr) * n) * ierr

type terminal =
| TEOF
| TErr

type berror =
| BEOF
| BSrc
| BNoProgress
| BBufferFull

type bufrd = { bsize : n; bbuf : n list; blen : n; berr : berror option;
               chunks : n list list; term : terminal; consumed : n }

val take_upto : n list -> n -> n list -> n -> (n list * n) * n list

val src_read :
  n list list -> terminal -> n -> ((n list * n) * berror option) * n list list

val fill_loop : nat -> bufrd -> bufrd

val bfill : bufrd -> bufrd option

val bBuffered : bufrd -> n

val peek_loop : nat -> bufrd -> n -> bufrd option

val bPeek : bufrd -> n -> (((n list * n) * berror option) * bufrd) option

val discard_loop : nat -> bufrd -> n -> (berror option * bufrd) option

val bDiscard : bufrd -> n -> (berror option * bufrd) option

type rres =
| ROk
| REOF
| RUnexpectedEOF
| RCorrupt of z
| RSrcErr
| RNoProgress
| RBufferFull
| RPanic
| RStuck

type decompressor = { state : inflate0; writePos : n; readPos : n;
                      hist : arr; rBuf : bufrd; derr : rres option;
                      peekSize : n; eof : bool; haveBits : bool }

val rres_of_berror : berror -> rres

val set_state : decompressor -> inflate0 -> decompressor

val decomp_loop : nat -> inflate0 -> arr -> n -> ((inflate0 * arr) * n) * ierr

val decomperss : decompressor -> decompressor * ierr

val step_discard : decompressor -> (berror option * decompressor) option

val step_discard_at :
  z -> decompressor -> (berror option * decompressor) option

val held_nonneg : decompressor -> z

val step : decompressor -> decompressor * rres option

val hist_slice : nat -> arr -> n -> n list

val set_err : decompressor -> rres option -> decompressor

val read_loop : nat -> decompressor -> n -> (decompressor * n list) * rres

val dRead : decompressor -> n -> (decompressor * n list) * rres

val rres_code : rres -> n

val mkbufrd : n -> n list list -> terminal -> bufrd

val dReset : decompressor -> bufrd -> decompressor

val term_of : bool -> terminal

val b_clear_err : bufrd -> bufrd

val bRead : bufrd -> n -> (n list * berror option) * bufrd

val readbyte_loop :
  nat -> bufrd -> ((n option * berror option) * bufrd) option

val bReadByte : bufrd -> ((n option * berror option) * bufrd) option

val readfull_loop :
  nat -> bufrd -> n -> n list -> ((n list * berror option) * bufrd) option

val ioReadFull : bufrd -> n -> (n list * rres) * bufrd

type gres =
| GR of rres
| GzErrHeader
| GzErrChecksum
| ZlErrHeader
| ZlErrChecksum
| ZlErrDictionary

val gnil : gres -> bool

val gisEOF : gres -> bool

val noEOF : gres -> gres

val gres_code : gres -> n

val set_rBuf : decompressor -> bufrd -> decompressor

val newReader_on : bufrd -> decompressor

type gzheader = { h_comment : n list; h_extra : n list option; h_modtime : 
                  n; h_name : n list; h_os : n }

val hdr0 : gzheader

type gzreader = { z_hdr : gzheader; z_r : bufrd; z_dec : decompressor option;
                  z_digest : n; z_size : n; z_err : gres; z_multistream : 
                  bool }

val gz_set_r : gzreader -> bufrd -> gzreader

val gz_set_dec : gzreader -> decompressor option -> gzreader

val gz_set_digest : gzreader -> n -> gzreader

val gz_set_size : gzreader -> n -> gzreader

val gz_set_err : gzreader -> gres -> gzreader

val gz_set_hdr : gzreader -> gzheader -> gzreader

val gzMultistream : gzreader -> bool -> gzreader

val latin1_to_utf8 : n list -> n list

val readString_loop :
  nat -> bufrd -> n list -> bool -> (bufrd * (n list * bool) option) * gres

val gzReadString : gzreader -> (gzreader * n list) * gres

val flagHdrCrc : n

val flagExtra : n

val flagName : n

val flagComment : n

val h_set_extra : gzheader -> n list -> gzheader

val h_set_name : gzheader -> n list -> gzheader

val h_set_comment : gzheader -> n list -> gzheader

type rh_res = (gzreader * gzheader) * gres

val rh_extra : n -> gzreader -> gzheader -> rh_res

val rh_name : n -> gzreader -> gzheader -> rh_res

val rh_comment : n -> gzreader -> gzheader -> rh_res

val rh_hcrc : n -> gzreader -> gzheader -> rh_res

val rh_finish : gzreader -> gzheader -> rh_res

val rh_bind : rh_res -> (gzreader -> gzheader -> rh_res) -> rh_res

val gzReadHeader : gzreader -> rh_res

val gzReset : gzreader -> bufrd -> gzreader * gres

val gzZero : bufrd -> gzreader

val gzNewReader : bufrd -> gzreader * gres

val gzRead_loop : nat -> gzreader -> n -> (gzreader * n list) * gres

val gzRead : gzreader -> n -> (gzreader * n list) * gres

val gzClose : gzreader -> gres

val adler0 : n * n

val adler_update : (n * n) -> n list -> n * n

val adler_sum : (n * n) -> n

type stdinfl = { sd_dict : n list; sd_started : bool; sd_cur : n list;
                 sd_more : n list list; sd_final : gres; sd_ferr : gres }

val std_new : n list -> stdinfl

val std_reset : stdinfl -> n list -> stdinfl

val std_window : nat

val std_segs : nat -> nat -> n list -> n list list

val std_advance : nat -> bufrd -> bufrd * gres option

val std_drain : nat -> bufrd -> bufrd * gres

val b_all : bufrd -> n list

val std_start : stdinfl -> bufrd -> stdinfl * bufrd

val std_read_loop : nat -> stdinfl -> n -> (stdinfl * n list) * gres

val std_read : stdinfl -> bufrd -> n -> ((stdinfl * bufrd) * n list) * gres

val std_close : stdinfl -> gres

type zdec =
| ZNone
| ZFast of decompressor
| ZStd of stdinfl

type zlreader = { zl_r : bufrd; zl_dec : zdec; zl_digest : (n * n);
                  zl_err : gres }

val zl_set_r : zlreader -> bufrd -> zlreader

val zl_set_err : zlreader -> gres -> zlreader

val zlReset : zlreader -> bufrd -> n list -> zlreader * gres

val zlZero : bufrd -> zlreader

val zlNewReaderDict : bufrd -> n list -> zlreader * gres

val zl_decRead : zlreader -> n -> (zlreader * n list) * gres

val zlRead : zlreader -> n -> (zlreader * n list) * gres

val zlClose : zlreader -> zlreader * gres

val mkbuf_obs : n -> n list list -> bool -> bufrd

val rewrap : bufrd -> bufrd

type gzop =
| GoRead of n
| GoReset
| GoResetRaw
| GoResetSrc of n * n list list * bool
| GoMulti of bool
| GoClose

type gzob =
| ObRead of n list * gres
| ObReset of gres * gzheader
| ObClose of gres
| ObSrc of n

val gz_ops : gzreader -> gzop list -> gzob list -> gzob list * gzreader

val gzrun_ops : n -> n list list -> bool -> gzop list -> gzob list * n

val gz_reads :
  gzreader -> n list -> (n list * n) list -> (n list * n) list * gzreader

val gzrun_obs :
  n -> n list list -> bool -> bool -> n list -> ((n * gzheader) * (n
  list * n) list) * n

type zlop =
| ZoRead of n
| ZoReset of n list
| ZoResetSrc of n * n list list * bool * n list
| ZoClose

type zlob =
| ZbRead of n list * gres
| ZbReset of gres
| ZbClose of gres
| ZbSrc of n

val zl_ops : zlreader -> zlop list -> zlob list -> zlob list * zlreader

val zlrun_ops :
  n -> n list list -> bool -> n list -> zlop list -> zlob list * n

val zl_reads :
  zlreader -> n list -> (n list * n) list -> (n list * n) list * zlreader

val zlrun_obs :
  n -> n list list -> bool -> n list option -> n list -> (n * (n list * n)
  list) * n
