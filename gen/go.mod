module verifgen

go 1.21
