// gen — translator from /repo's Go source to Coq facts (run on every check).
//
//   Generated/Consts.v   every constant, table and size the Coq models depend on, read from the
//                        source with go/parser + go/types (values as computed by the Go type checker)
//   Generated/Globals.v  every package-level variable of the non-test, default-build Go files and every
//                        syntactic use of it inside a function body, classified
//                        (read / write / elemwrite / fieldwrite / addr / call / arg), with the enclosing
//                        function.  proofs/GlobalsProofs.v computes from it that no package-level
//                        variable is written outside package initialisation (C17).
//
// Usage: gen <repo dir> <out dir>
package main

import (
	"fmt"
	"go/ast"
	"go/build"
	"go/constant"
	"go/importer"
	"go/parser"
	"go/token"
	"go/types"
	"os"
	"path/filepath"
	"sort"
	"strings"
)

type pkgInfo struct {
	path  string
	files []*ast.File
	info  *types.Info
	pkg   *types.Package
}

var fset = token.NewFileSet()

func load(repo, rel string, imp types.Importer) *pkgInfo {
	dir := filepath.Join(repo, rel)
	ctx := build.Default
	ctx.GOARCH = "amd64"
	ctx.GOOS = "linux"
	bp, err := ctx.ImportDir(dir, 0)
	if err != nil {
		fmt.Fprintln(os.Stderr, "gen: cannot list", dir, err)
		os.Exit(1)
	}
	p := &pkgInfo{path: rel}
	for _, f := range bp.GoFiles {
		af, err := parser.ParseFile(fset, filepath.Join(dir, f), nil, parser.ParseComments)
		if err != nil {
			fmt.Fprintln(os.Stderr, "gen:", err)
			os.Exit(1)
		}
		p.files = append(p.files, af)
	}
	p.info = &types.Info{Defs: map[*ast.Ident]types.Object{}, Uses: map[*ast.Ident]types.Object{}, Types: map[ast.Expr]types.TypeAndValue{}, Selections: map[*ast.SelectorExpr]*types.Selection{}}
	conf := types.Config{Importer: imp, FakeImportC: true, Error: func(err error) {}}
	p.pkg, _ = conf.Check("github.com/intel/fastgo/"+rel, fset, p.files, p.info)
	return p
}

// ---- importer that resolves the module's own packages from the repo and the rest from source ----
type repoImporter struct {
	repo string
	std  types.Importer
	memo map[string]*types.Package
}

func (r *repoImporter) Import(path string) (*types.Package, error) {
	const mod = "github.com/intel/fastgo/"
	if strings.HasPrefix(path, mod) {
		if p, ok := r.memo[path]; ok {
			return p, nil
		}
		pi := load(r.repo, strings.TrimPrefix(path, mod), r)
		r.memo[path] = pi.pkg
		return pi.pkg, nil
	}
	return r.std.Import(path)
}

func constN(p *pkgInfo, name string) (string, bool) {
	obj := p.pkg.Scope().Lookup(name)
	c, ok := obj.(*types.Const)
	if !ok {
		return "", false
	}
	v := constant.ToInt(c.Val())
	if v.Kind() != constant.Int {
		return "", false
	}
	return v.ExactString(), true
}

// integer elements of a package-level composite literal `var name = []T{...}`
func tableN(p *pkgInfo, name string) ([]string, bool) {
	for _, f := range p.files {
		for _, d := range f.Decls {
			gd, ok := d.(*ast.GenDecl)
			if !ok || gd.Tok != token.VAR {
				continue
			}
			for _, s := range gd.Specs {
				vs := s.(*ast.ValueSpec)
				for i, n := range vs.Names {
					if n.Name != name || i >= len(vs.Values) {
						continue
					}
					cl, ok := vs.Values[i].(*ast.CompositeLit)
					if !ok {
						return nil, false
					}
					var out []string
					for _, e := range cl.Elts {
						tv, ok := p.info.Types[e]
						if !ok || tv.Value == nil {
							return nil, false
						}
						out = append(out, constant.ToInt(tv.Value).ExactString())
					}
					return out, true
				}
			}
		}
	}
	return nil, false
}

// value of a constant expression found as the n-th argument of a call to fn inside function `in`
// (used for sizes that appear only as make([]byte, 8*1024) and the like)
func callArgs(p *pkgInfo, in string) map[string][]string {
	out := map[string][]string{}
	for _, f := range p.files {
		for _, d := range f.Decls {
			fd, ok := d.(*ast.FuncDecl)
			if !ok || fd.Name.Name != in || fd.Body == nil {
				continue
			}
			ast.Inspect(fd.Body, func(n ast.Node) bool {
				ce, ok := n.(*ast.CallExpr)
				if !ok {
					return true
				}
				name := ""
				switch fn := ce.Fun.(type) {
				case *ast.Ident:
					name = fn.Name
				case *ast.SelectorExpr:
					name = fn.Sel.Name
				}
				for _, a := range ce.Args {
					if tv, ok := p.info.Types[a]; ok && tv.Value != nil && tv.Value.Kind() == constant.Int {
						out[name] = append(out[name], constant.ToInt(tv.Value).ExactString())
					}
				}
				return true
			})
		}
	}
	return out
}

type use struct{ pkg, v, upkg, fn, kind string }

func globalsOf(p *pkgInfo) (vars []string, uses []use) {
	// package-level variables of this module (of this package, or of another one reached through a
	// qualified identifier such as cpu.ArchLevel)
	isGlobal := func(o types.Object) bool {
		v, ok := o.(*types.Var)
		if !ok || v.IsField() || v.Pkg() == nil || v.Parent() != v.Pkg().Scope() {
			return false
		}
		return strings.HasPrefix(v.Pkg().Path(), "github.com/intel/fastgo/")
	}
	names := p.pkg.Scope().Names()
	for _, n := range names {
		if isGlobal(p.pkg.Scope().Lookup(n)) {
			vars = append(vars, n)
		}
	}
	for _, f := range p.files {
		for _, d := range f.Decls {
			fd, ok := d.(*ast.FuncDecl)
			if !ok || fd.Body == nil {
				continue
			}
			fn := fd.Name.Name
			if fd.Recv != nil && len(fd.Recv.List) > 0 {
				fn = types.ExprString(fd.Recv.List[0].Type) + "." + fn
			}
			// root identifier of an lvalue-ish expression: g, g[i], g.f, *g, (g)
			var root func(e ast.Expr) (*ast.Ident, string)
			root = func(e ast.Expr) (*ast.Ident, string) {
				switch x := e.(type) {
				case *ast.Ident:
					return x, "write"
				case *ast.IndexExpr:
					id, _ := root(x.X)
					return id, "elemwrite"
				case *ast.SelectorExpr:
					if xi := identOf(x.X); xi != nil {
						if _, isPkg := p.info.Uses[xi].(*types.PkgName); isPkg {
							return x.Sel, "write" // pkg.Var
						}
					}
					id, _ := root(x.X)
					return id, "fieldwrite"
				case *ast.StarExpr:
					id, _ := root(x.X)
					return id, "elemwrite"
				case *ast.ParenExpr:
					return root(x.X)
				case *ast.SliceExpr:
					id, _ := root(x.X)
					return id, "elemwrite"
				}
				return nil, ""
			}
			marked := map[*ast.Ident]string{}
			mark := func(e ast.Expr, forced string) {
				id, k := root(e)
				if id == nil {
					return
				}
				if forced != "" && k == "write" {
					k = forced
				}
				if o := p.info.Uses[id]; o != nil && isGlobal(o) {
					marked[id] = k
				}
			}
			ast.Inspect(fd.Body, func(n ast.Node) bool {
				switch x := n.(type) {
				case *ast.AssignStmt:
					for _, l := range x.Lhs {
						mark(l, "")
					}
					// a reference-typed global copied into another variable aliases its contents
					for _, rh := range x.Rhs {
						if id := identOf(rh); id != nil {
							if o := p.info.Uses[id]; o != nil && isGlobal(o) {
								switch o.Type().Underlying().(type) {
								case *types.Slice, *types.Map, *types.Pointer, *types.Chan:
									marked[id] = "alias"
								}
							}
						}
					}
				case *ast.IncDecStmt:
					mark(x.X, "")
				case *ast.RangeStmt:
					if x.Tok == token.ASSIGN {
						if x.Key != nil {
							mark(x.Key, "")
						}
						if x.Value != nil {
							mark(x.Value, "")
						}
					}
				case *ast.SliceExpr:
					// slicing a package-level array yields a slice that aliases it
					if id := identOf(x.X); id != nil {
						if o := p.info.Uses[id]; o != nil && isGlobal(o) {
							if _, isArr := o.Type().Underlying().(*types.Array); isArr {
								marked[id] = "alias"
							}
						}
					}
				case *ast.UnaryExpr:
					if x.Op == token.AND {
						mark(x.X, "addr")
						if id, _ := root(x.X); id != nil {
							if _, ok := marked[id]; ok {
								marked[id] = "addr"
							}
						}
					}
				case *ast.CallExpr:
					// method call on a global: g.M(...)
					if se, ok := x.Fun.(*ast.SelectorExpr); ok {
						if id := identOf(se.X); id != nil {
							if o := p.info.Uses[id]; o != nil && isGlobal(o) {
								if sel := p.info.Selections[se]; sel != nil && sel.Kind() == types.MethodVal {
									// a method with a pointer receiver (or on a reference type) may mutate the variable
									k := "callvalue"
									if fn, ok := sel.Obj().(*types.Func); ok {
										if sig, ok := fn.Type().(*types.Signature); ok && sig.Recv() != nil {
											if _, ptr := sig.Recv().Type().(*types.Pointer); ptr {
												k = "call"
											}
										}
									}
									switch o.Type().Underlying().(type) {
									case *types.Pointer, *types.Map, *types.Slice, *types.Chan, *types.Interface:
										k = "call"
									}
									marked[id] = k
								}
							}
						}
					}
					// global of reference type passed to a function other than the read-only builtins
					fname := ""
					if id := identOf(x.Fun); id != nil {
						fname = id.Name
					}
					for ai, a := range x.Args {
						id := identOf(a)
						if id == nil {
							if sl, ok := a.(*ast.SliceExpr); ok {
								id = identOf(sl.X)
							}
						}
						if id == nil {
							continue
						}
						o := p.info.Uses[id]
						if o == nil || !isGlobal(o) {
							continue
						}
						switch o.Type().Underlying().(type) {
						case *types.Slice, *types.Map, *types.Pointer, *types.Chan:
							ro := fname == "len" || fname == "cap" || (fname == "copy" && ai == 1) || fname == "append" && ai > 0
							if !ro {
								if _, done := marked[id]; !done {
									marked[id] = "arg"
								}
							}
						}
					}
				}
				return true
			})
			ast.Inspect(fd.Body, func(n ast.Node) bool {
				id, ok := n.(*ast.Ident)
				if !ok {
					return true
				}
				o := p.info.Uses[id]
				if o == nil || !isGlobal(o) {
					return true
				}
				k, ok := marked[id]
				if !ok {
					k = "read"
				}
				vp := strings.TrimPrefix(o.Pkg().Path(), "github.com/intel/fastgo/")
				uses = append(uses, use{vp, id.Name, p.path, fn, k})
				return true
			})
		}
	}
	return
}

func identOf(e ast.Expr) *ast.Ident {
	switch x := e.(type) {
	case *ast.Ident:
		return x
	case *ast.ParenExpr:
		return identOf(x.X)
	}
	return nil
}

func coqList(xs []string) string { return "[" + strings.Join(xs, "; ") + "]" }

func main() {
	if len(os.Args) < 3 {
		fmt.Fprintln(os.Stderr, "usage: gen <repo> <outdir>")
		os.Exit(2)
	}
	repo, out := os.Args[1], os.Args[2]
	imp := &repoImporter{repo: repo, std: importer.ForCompiler(fset, "source", nil), memo: map[string]*types.Package{}}
	pkgs := map[string]*pkgInfo{}
	for _, rel := range []string{"internal/cpu", "compress/flate/internal/huffman", "compress/flate/internal/deflate", "compress/flate", "compress/gzip", "compress/zlib"} {
		pkgs[rel] = load(repo, rel, imp)
	}
	df := pkgs["compress/flate/internal/deflate"]
	fl := pkgs["compress/flate"]

	var b strings.Builder
	b.WriteString("(* GENERATED by /verif/gen from /repo's source on every check — do not edit. *)\nFrom Coq Require Import List NArith.\nImport ListNotations.\nOpen Scope N_scope.\n\n")
	missing := []string{}
	cst := func(p *pkgInfo, coq, name string) {
		if v, ok := constN(p, name); ok {
			fmt.Fprintf(&b, "Definition %s : N := %s.\n", coq, v)
		} else {
			missing = append(missing, name)
			fmt.Fprintf(&b, "(* constant %s not found in the source *)\n", name)
		}
	}
	tbl := func(p *pkgInfo, coq, name string) {
		if v, ok := tableN(p, name); ok {
			fmt.Fprintf(&b, "Definition %s : list N := %s.\n", coq, coqList(v))
		} else {
			missing = append(missing, name)
			fmt.Fprintf(&b, "(* table %s not found in the source *)\n", name)
		}
	}
	b.WriteString("(* compress/flate/internal/deflate *)\n")
	cst(df, "g_tokensCap", "tokensCap")
	cst(df, "g_maxTokenSize", "maxTokenSize")
	cst(df, "g_minMatchLength", "minMatchLength")
	cst(df, "g_maxMatchLength", "maxMatchLength")
	cst(df, "g_minMatch", "minMatch")
	cst(df, "g_InvalidDist", "InvalidDist")
	cst(df, "g_numRepeat3_6", "numRepeat3_6")
	cst(df, "g_zeroRepeat3_10", "zeroRepeat3_10")
	cst(df, "g_zeroRepeat11_138", "zeroRepeat11_138")
	tbl(df, "g_hclenOrder", "hclenOrder")
	tbl(df, "g_disttable", "disttable")
	// the hash multiplier is a function-local constant of hash4
	for _, f := range df.files {
		for _, d := range f.Decls {
			if fd, ok := d.(*ast.FuncDecl); ok && fd.Name.Name == "hash4" {
				ast.Inspect(fd, func(n ast.Node) bool {
					if vs, ok := n.(*ast.ValueSpec); ok && len(vs.Names) == 1 && vs.Names[0].Name == "prime" {
						if tv, ok := df.info.Types[vs.Values[0]]; ok && tv.Value != nil {
							fmt.Fprintf(&b, "Definition g_hash_prime : N := %s.\n", constant.ToInt(tv.Value).ExactString())
						}
					}
					return true
				})
			}
		}
	}
	emitArgs := func(coq string, p *pkgInfo, fn string) {
		a := callArgs(p, fn)
		keys := make([]string, 0, len(a))
		for k := range a {
			keys = append(keys, k)
		}
		sort.Strings(keys)
		var all []string
		for _, k := range keys {
			all = append(all, a[k]...)
		}
		fmt.Fprintf(&b, "Definition %s : list N := %s.   (* integer constants passed to calls inside %s, by callee name *)\n", coq, coqList(all), fn)
	}
	emitArgs("g_NewDynCompressor_args", df, "NewDynCompressor")
	emitArgs("g_NewHuffmanOnly_args", df, "NewHuffmanOnly")
	emitArgs("g_NewWriter_args", df, "NewWriter")
	emitArgs("g_NewWriter4K_args", df, "NewWriterwWith4KWindow")
	b.WriteString("\n(* compress/flate (reader) *)\n")
	for _, c := range []string{"historySize", "lookAhead", "maxHdrSize", "maxMatch", "minMatch", "litLen", "distLen", "litTableSize", "maxCodeLen", "singleSymThresh", "doubleSymThresh", "maxLitLenSym"} {
		cst(fl, "g_r_"+c, c)
	}
	fmt.Fprintf(&b, "\nDefinition g_missing : nat := %d.\n", len(missing))
	os.MkdirAll(out, 0o755)
	writeIfChanged(filepath.Join(out, "Consts.v"), b.String())

	// ---- globals ----
	var g strings.Builder
	g.WriteString("(* GENERATED by /verif/gen from /repo's source on every check — do not edit. *)\nFrom Coq Require Import List String.\nImport ListNotations.\nOpen Scope string_scope.\n\n")
	g.WriteString("(* package-level variables: (package, name) *)\nDefinition global_vars : list (string * string) := [\n")
	var allUses []use
	first := true
	rels := make([]string, 0, len(pkgs))
	for r := range pkgs {
		rels = append(rels, r)
	}
	sort.Strings(rels)
	for _, r := range rels {
		vars, uses := globalsOf(pkgs[r])
		for _, v := range vars {
			if !first {
				g.WriteString(";\n")
			}
			first = false
			fmt.Fprintf(&g, "  (%q, %q)", r, v)
		}
		allUses = append(allUses, uses...)
	}
	g.WriteString("].\n\n(* every use inside a function body: (package of the variable, variable, using package, function, kind) *)\nDefinition global_uses : list (string * string * string * string * string) := [\n")
	sort.Slice(allUses, func(i, j int) bool {
		a, c := allUses[i], allUses[j]
		return a.pkg+a.v+a.upkg+a.fn+a.kind < c.pkg+c.v+c.upkg+c.fn+c.kind
	})
	var dedup []use
	for i, u := range allUses {
		if i == 0 || u != allUses[i-1] {
			dedup = append(dedup, u)
		}
	}
	for i, u := range dedup {
		if i > 0 {
			g.WriteString(";\n")
		}
		fmt.Fprintf(&g, "  (%q, %q, %q, %q, %q)", u.pkg, u.v, u.upkg, u.fn, u.kind)
	}
	g.WriteString("].\n")
	writeIfChanged(filepath.Join(out, "Globals.v"), g.String())
	fmt.Printf("gen: %d constants missing, %d global uses\n", len(missing), len(dedup))
}

func writeIfChanged(path, content string) {
	old, err := os.ReadFile(path)
	if err == nil && string(old) == content {
		return
	}
	os.WriteFile(path, []byte(content), 0o644)
}
