(* ContainerWSpec.v — end-to-end statements for the gzip/zlib Writer models (ContainerW.v): what
   they emit is read back by the container reader model (RModel/Containers.v) as the same header
   and payload (C06 for fastgo's writers; with C01 for the DEFLATE body).  Proofs in
   proofs/ContainerWProofs.v. *)
From Coq Require Import ZArith.
From Verif Require Export ContainerW ContainersSpec FinalSpec.
Open Scope N_scope.

(* run a history on a container writer; None only if Writer.Write's loop bound were exceeded *)
Definition cw_step (w : cwriter) (o : hop) : option (cwriter * bool) :=
  match o with
  | HWrite d =>
    match (match cw_kind w with KGzip _ => gzw_write | KZlib => zlw_write end) (S (length d)) w d with
    | None => None | Some (w1, _, e) => Some (w1, e)
    end
  | HFlush => Some ((match cw_kind w with KGzip _ => gzw_flush | KZlib => zlw_flush end) w)
  | HClose => Some ((match cw_kind w with KGzip _ => gzw_close | KZlib => zlw_close end) w)
  end.
Fixpoint cw_hrun_from (w : cwriter) (h : list hop) : option (cwriter * list bool) :=
  match h with
  | [] => Some (w, [])
  | o :: r =>
    match cw_step w o with
    | None => None
    | Some (w1, e) => match cw_hrun_from w1 r with None => None | Some (w2, es) => Some (w2, e :: es) end
    end
  end.
Definition cw_hrun (k : ckind) (sync : bool) (level : Z) (h : list hop) : option (cwriter * list bool) :=
  cw_hrun_from (cw_new k sync level None) h.

Definition cw_bytes (w : cwriter) : list N := concat (rev (dchunks (cw_dest w))).

Definition accel_level (level : Z) : Prop := (level = 1 \/ level = 2 \/ level = -1 \/ level = -2)%Z.

(* header fields a gzip.Writer accepts and that the Reader returns unchanged *)
Definition gzw_hdr_ok (h : gzw_hdr) : Prop :=
  gw_mtime h < 4294967296 /\ gw_os h < 256 /\
  (match gw_extra h with Some e => (length e < 65536)%nat /\ bytes_lt256 e | None => True end) /\
  bytes_lt256 (gw_name h) /\ bytes_lt256 (gw_comment h) /\
  ~ In 0 (gw_name h) /\ ~ In 0 (gw_comment h) /\
  (length (gw_name h) < 512)%nat /\ (length (gw_comment h) < 512)%nat.

(* the header the Reader reports for what the Writer was given (an empty non-nil Extra is written
   as a zero-length field and read back as no data) *)
Definition ghdr_of (h : gzw_hdr) (level : Z) : ghdr :=
  mkgh (gw_mtime h) (gz_xfl level) (gw_os h)
       (match gw_extra h with Some e => e | None => [] end) (gw_name h) (gw_comment h) false.

(* C06 (gzip, fastgo writer -> reader model): Writes and Flushes, then Close: every call returns
   nil and the bytes at the destination are one gzip member read back with the same header and
   exactly the data written, followed by io.EOF *)
Definition gzw_roundtrip_statement : Prop :=
  forall hdr sync level h, accel_level level -> gzw_hdr_ok hdr -> no_close h -> bytes_ok (hist_data h) ->
    exists w flags,
      cw_hrun (KGzip hdr) sync level (h ++ [HClose]) = Some (w, flags) /\
      Forall (fun e => e = false) flags /\
      g_payload (gz_read true (cw_bytes w)) = hist_data h /\
      g_err (gz_read true (cw_bytes w)) = CEOF /\
      g_left (gz_read true (cw_bytes w)) = [] /\
      g_hdrs (gz_read true (cw_bytes w)) = [ghdr_of hdr level].

Definition zlw_roundtrip_statement : Prop :=
  forall sync level h, accel_level level -> no_close h -> bytes_ok (hist_data h) ->
    exists w flags,
      cw_hrun KZlib sync level (h ++ [HClose]) = Some (w, flags) /\
      Forall (fun e => e = false) flags /\
      zl_read None (cw_bytes w) = mkgres (hist_data h) CEOF [] [] false.

(* C16 for the containers: a second Close returns nil and emits nothing *)
Definition cw_close_idempotent_statement : Prop :=
  forall k sync level h w flags, accel_level level -> no_close h -> bytes_ok (hist_data h) ->
    cw_hrun k sync level (h ++ [HClose]) = Some (w, flags) ->
    cw_step w HClose = Some (w, false).
