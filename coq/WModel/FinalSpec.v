(* FinalSpec.v — the end-to-end statements about histories of the writer model, composed from
   the layers of CodecSpec.v (proofs/WriterTheorems.v).  The premise `forallb event_ok_b ...`
   (the generated code lengths of every block are a valid prefix code covering the used
   symbols) is the one fact about the code-length generator (Moffat–Katajainen + limiter) that
   is not proved here; it is a decidable property of the history, evaluated by the extracted
   checker on every block of every history the correspondence run executes (Checked.v). *)
From Verif Require Export WriterSpec.
Open Scope N_scope.

(* after Close nothing is left in the bit accumulator *)
Definition close_acc_empty_statement : Prop :=
  forall sync level win4k h w flags, no_close h -> bytes_ok (hist_data h) ->
    hrun sync level win4k (h ++ [HClose]) = Some (w, flags) -> run_acc w = [].

(* C01: Writes and Flushes in any order, then Close: every call returns nil, and the bytes the
   destination has received are one complete DEFLATE stream that the reference inflater decodes
   to exactly the data written, ending exactly at the last byte *)
Definition C01_statement : Prop :=
  forall sync level win4k h, no_close h -> bytes_ok (hist_data h) ->
    exists w flags,
      hrun sync level win4k (h ++ [HClose]) = Some (w, flags) /\
      Forall (fun e => e = false) flags /\
      comp_oob (wc comp w) = false /\
      (forallb event_ok_b (run_trace w) = true ->
         let r := inflate [] (run_bytes w) in
         status r = Done /\ out r = hist_data h /\ (bitpos r + 7) / 8 = lenN (run_bytes w)).

(* C10: ... then Flush: the bytes received so far are whole bytes that decode to all the data
   written so far, after which the inflater asks for more input (no corruption) *)
Definition C10_statement : Prop :=
  forall sync level win4k h, no_close h -> bytes_ok (hist_data h) ->
    exists w flags,
      hrun sync level win4k (h ++ [HFlush]) = Some (w, flags) /\
      Forall (fun e => e = false) flags /\ run_acc w = [] /\
      (forallb event_ok_b (run_trace w) = true ->
         let r := inflate [] (run_bytes w) in
         status r = NeedInput /\ out r = hist_data h).

(* C19: every token of every block of the history refers back at most `window` bytes (4096 for
   the 4 KiB constructor, 32768 otherwise) and never before the start of the data *)
Definition C19_statement : Prop :=
  forall sync level win4k h, no_close h -> bytes_ok (hist_data h) ->
    exists w flags,
      hrun sync level win4k (h ++ [HClose]) = Some (w, flags) /\
      trace_toks_ok (window_of level win4k) (run_trace w) 0 /\
      trace_data (run_trace w) = hist_data h.

(* C09 over whole histories: two histories with the same normal form (adjacent Writes merged,
   empty Writes dropped; Flush and Close positions fixed) reach the same writer state, hence
   the same destination bytes, chunk by chunk *)
Fixpoint hnorm (h : list hop) : list hop :=
  match h with
  | [] => []
  | HWrite a :: r =>
    match hnorm r with
    | HWrite b :: r' => HWrite (a ++ b) :: r'
    | r' => match a with [] => r' | _ => HWrite a :: r' end
    end
  | o :: r => o :: hnorm r
  end.

Definition C09_statement : Prop :=
  forall sync level win4k h1 h2, hnorm h1 = hnorm h2 ->
    match hrun sync level win4k h1, hrun sync level win4k h2 with
    | Some (w1, _), Some (w2, _) => w1 = w2
    | _, _ => False
    end.

(* ---------- the code-length generator ---------- *)
(* LenLimitedCode.Generate (Codes.generate: Moffat–Katajainen lengths + the length limiter) always
   yields a valid length vector: as long as the alphabet has at most 2^limit used symbols (286 <=
   2^15, 30 <= 2^15, 19 <= 2^7), whatever the counts.  With it the premise event_ok_b of C01/C10
   is discharged for every block the compressors can emit. *)
Definition used_symbols (hist : list N) : nat := length (filter (fun v => negb (v =? 0)) hist).

Definition generate_valid_statement : Prop :=
  forall (limit : nat) (hist : list N), (1 <= limit <= 15)%nat ->
    (N.of_nat (used_symbols hist) <= 2 ^ N.of_nat limit) -> (length hist < 65536)%nat ->
    lens_valid limit hist (generate limit hist).

(* consequently every block of tokens / bytes is encodable *)
Definition block_always_ok_statement : Prop :=
  (forall ts, Forall (fun t => match t with TLit b => b < 256
                                         | TMatch len dist => 3 <= len <= 258 /\ 1 <= dist <= 32768 end) ts ->
              block_ok ts) /\
  (forall data, Forall (fun x => x < 256) data -> hblock_ok data).
