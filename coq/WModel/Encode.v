(* Encode.v — executable model of bitbuf.go, deflate/header.go (dynamic block header),
   huffcodes.go expandCodes, encode_amd64.go encodeTokens and huffmanonly_amd64.go encodeBytes.

   BitBuf.  The Go accumulator is (output[:idx], bits uint64, bitLen).  The model keeps the
   same three things with the 64-bit word represented by the list of its bitLen valid bits
   (least significant first):
       bb_out : bytes stored so far in this round, newest first  (idx = length)
       bb_acc : the bits held in `bits`                            (bitLen = length <= 64)
   WriteBit(code,count): append the count low bits of code; if more than 64 bits are then
   held, store the first 64 as 8 bytes (`bitLen > 64` test of the Go code, at most one store per
   call because count <= 20).  The 64-bit mechanics themselves (shift by bitLen, Go's
   shift-by-64 = 0) are below the level of this model; they are exercised by the byte-exact
   correspondence. *)
From Verif Require Export Codes.
Open Scope N_scope.

Record bitbuf := mkbb { bb_out : list N; bb_acc : list bool }.
Definition bb_empty : bitbuf := mkbb [] [].
Definition bb_idx (b : bitbuf) : N := lenN (bb_out b).

(* pack whole bytes of l (length a multiple of 8 expected; a short last group is zero-padded)
   and push them on out (newest first) *)
Fixpoint push_bytes (fuel : nat) (l : list bool) (out : list N) : list N :=
  match fuel with
  | O => out
  | S f => match l with
           | [] => out
           | _ => push_bytes f (skipn 8 l) (N_of_bits (firstn 8 l) :: out)
           end
  end.

Definition write_bits (b : bitbuf) (bits : list bool) : bitbuf :=
  let acc := bb_acc b ++ bits in
  if (64 <? length acc)%nat
  then mkbb (push_bytes 8 (firstn 64 acc) (bb_out b)) (skipn 64 acc)
  else mkbb (bb_out b) acc.

Definition write_num (b : bitbuf) (code : N) (count : N) : bitbuf :=
  write_bits b (bits_of_N (N.to_nat count) code).

(* Sync: store the whole bytes held, keep bitLen % 8 bits *)
Definition bb_sync (b : bitbuf) : bitbuf :=
  let nb := (length (bb_acc b) / 8)%nat in
  mkbb (push_bytes nb (firstn (8 * nb) (bb_acc b)) (bb_out b)) (skipn (8 * nb) (bb_acc b)).

(* flushLastByte: store everything, the last byte zero-padded *)
Definition bb_flush_last (b : bitbuf) : bitbuf :=
  mkbb (push_bytes 9 (bb_acc b) (bb_out b)) [].

(* writeEmptyBlock / writeFinalEmptyBlock *)
Definition bb_empty_block (final : bool) (b : bitbuf) : bitbuf :=
  let b1 := bb_flush_last (write_num b (if final then 1 else 0) 3) in
  mkbb (255 :: 255 :: 0 :: 0 :: bb_out b1) [].

(* the bytes of this round, oldest first; the accumulator stays *)
Definition bb_take (b : bitbuf) : list N * bitbuf := (frev (bb_out b), mkbb [] (bb_acc b)).

(* ---- header.go ---- *)
Definition hclen_order : list N := [16;17;18;0;8;7;9;6;10;5;11;4;12;3;13;2;14;1;15].

(* index of the last non-zero entry + 1 *)
Definition used_count (l : list N) : N :=
  lenN l - lenN (fold_left (fun acc x => if x =? 0 then x :: acc else []) l []).

(* numRepeat / zeroRepeat: items are (symbol, extra value); extra bits follow from the symbol *)
Fixpoint num_repeat (fuel : nat) (num repeated : N) : list (N * N) :=
  match fuel with
  | O => []
  | S f =>
    if repeated =? 0 then []
    else if repeated <=? 3 then repeat (num, 0) (N.to_nat repeated)
    else if repeated <=? 7 then [(num, 0); (16, repeated - 4)]
    else (num, 0) :: (16, 3) :: num_repeat f num (repeated - 7)
  end.
Fixpoint zero_repeat (fuel : nat) (repeated : N) : list (N * N) :=
  match fuel with
  | O => []
  | S f =>
    if repeated =? 0 then []
    else if repeated <? 3 then repeat (0, 0) (N.to_nat repeated)
    else if repeated <? 11 then [(17, repeated - 3)]
    else if repeated <? 139 then [(18, repeated - 11)]
    else (18, 127) :: zero_repeat f (repeated - 138)
  end.

(* alphabet(): run-length code one alphabet (runs never cross into the next alphabet) *)
Fixpoint rle_runs (l : list N) (prev : N) (run : N) : list (N * N) :=
  match l with
  | [] => if prev =? 0 then zero_repeat 64 run else num_repeat 64 prev run
  | x :: r =>
    if x =? prev then rle_runs r prev (run + 1)
    else (if prev =? 0 then zero_repeat 64 run else num_repeat 64 prev run) ++ rle_runs r x 1
  end.
Definition alphabet (l : list N) : list (N * N) :=
  match l with [] => [] | x :: r => rle_runs r x 1 end.

Definition cl_extra_bits (sym : N) : N :=
  if sym =? 16 then 2 else if sym =? 17 then 3 else if sym =? 18 then 7 else 0.

Definition code_word (c : N * N) : list bool := code_bits (N.to_nat (fst c)) (snd c).

(* dynamicHeader.writeTo given the literal/length lengths (286) and distance lengths (30) *)
Definition write_header (litlens distlens : list N) (final : bool) (b : bitbuf) : bitbuf :=
  let lit_num := used_count litlens in
  let dist_num0 := used_count distlens in
  let dist_num := if dist_num0 =? 0 then 1 else dist_num0 in
  let dl := if dist_num0 =? 0 then [1] else firstn (N.to_nat dist_num) distlens in
  let data := alphabet (firstn (N.to_nat lit_num) litlens) ++ alphabet dl in
  let clhist := fold_left (fun h it => incN h (fst it) 1) data (repeat 0 19) in
  let cllens := generate 7 clhist in
  let clcodes := gen_codes cllens in
  let code_size :=
    19 - lenN (fold_left (fun acc s => if nthN cllens s =? 0 then s :: acc else []) hclen_order []) in
  let code_size := if code_size <? 4 then 4 else code_size in
  let b1 := write_num b (if final then 5 else 4) 3 in
  let b2 := write_num b1 (lit_num - 257) 5 in
  let b3 := write_num b2 (dist_num - 1) 5 in
  let b4 := write_num b3 (code_size - 4) 4 in
  let b5 := fold_left (fun bb s => write_num bb (nthN cllens s) 3) (firstn (N.to_nat code_size) hclen_order) b4 in
  fold_left (fun bb it =>
               let sym := fst it in
               let bb1 := write_bits bb (code_word (nth (N.to_nat sym) clcodes (0, 0))) in
               if 16 <=? sym then write_num bb1 (snd it) (cl_extra_bits sym) else bb1)
            data b5.

(* ---- expandCodes + token/byte packing ---- *)

(* length 3..258 -> (symbol, extra bit count, extra value) following reduceCounts/expandCodes *)
Definition len_symbol (len : N) : N * N * N :=
  if len <=? 10 then (254 + len, 0, 0)
  else if len =? 258 then (285, 0, 0)
  else
    let o := len - 11 in
    if o <? 8 then (265 + o / 2, 1, o mod 2)
    else if o <? 24 then (269 + (o - 8) / 4, 2, (o - 8) mod 4)
    else if o <? 56 then (273 + (o - 24) / 8, 3, (o - 24) mod 8)
    else if o <? 120 then (277 + (o - 56) / 16, 4, (o - 56) mod 16)
    else (281 + (o - 120) / 32, 5, (o - 120) mod 32).

Definition sym_word (codes : list (N * N)) (sym : N) : list bool :=
  code_word (nth (N.to_nat sym) codes (0, 0)).

(* one token: literal/length code (+ its extra bits in the same store), distance code, extra *)
Definition write_token (lcodes dcodes : list (N * N)) (b : bitbuf) (t : tok) : bitbuf :=
  match t with
  | TLit x => write_bits b (sym_word lcodes x)
  | TMatch len dist =>
    let '(ls, lb, lv) := len_symbol len in
    let b1 := write_bits b (sym_word lcodes ls ++ bits_of_N (N.to_nat lb) lv) in
    let '(ds, dv) := dist_symbol dist in
    let b2 := write_bits b1 (sym_word dcodes ds) in
    write_num b2 dv (dist_extra_bits ds)
  end.

(* encodeTokens: pack tokens until the output index reaches `limit` (len(output)-8 of the
   shortened slice = 8176); returns the tokens left *)
Fixpoint encode_tokens (lcodes dcodes : list (N * N)) (limit : N) (ts : list tok) (b : bitbuf)
  : list tok * bitbuf :=
  match ts with
  | [] => ([], b)
  | t :: r =>
    let b1 := write_token lcodes dcodes b t in
    if limit <=? bb_idx b1 then (r, b1) else encode_tokens lcodes dcodes limit r b1
  end.

Definition out_limit : N := 8176.      (* 8192 - 8 - 8 *)

(* the rounds of dynCompressor.encodeBlock: each round is Sync (amd64 build: encode_amd64.go
   optimizedEncodeTokens; the noasmtest/other build, encode_other.go, does not Sync: sync = false)
   + encodeTokens + one destination write; result: chunks handed to the destination (oldest first) and the accumulator left *)
Fixpoint encode_rounds (fuel : nat) (sync : bool) (lcodes dcodes : list (N * N)) (last : bool) (ts : list tok)
         (b : bitbuf) (chunks : list (list N)) : list (list N) * bitbuf :=
  match fuel with
  | O => (chunks, b)
  | S f =>
    match ts with
    | [] => (chunks, b)
    | _ =>
      let '(rest, b1) := encode_tokens lcodes dcodes out_limit ts (if sync then bb_sync b else b) in
      let b2 := match rest with [] => if last then bb_flush_last b1 else b1 | _ => b1 end in
      let '(chunk, b3) := bb_take b2 in
      encode_rounds f sync lcodes dcodes last rest b3 (chunks ++ [chunk])
    end
  end.

(* dynCompressor.encodeBlock for tokens ts (oldest first, without the end-of-block token) *)
Definition encode_block (sync : bool) (ts : list tok) (last : bool) (b : bitbuf) : list (list N) * bitbuf :=
  let '(lc, dc) := tok_counts ts in
  let distlens := generate 15 dc in
  let litlens := generate 15 (reduce_counts lc) in
  let lcodes := gen_codes litlens in
  let dcodes := gen_codes distlens in
  let b1 := write_header litlens distlens last (mkbb [] (bb_acc b)) in
  (* end of block = literal/length symbol 256 *)
  encode_rounds (S (length ts)) sync lcodes dcodes last (ts ++ [TLit 256]) b1 [].

(* ---- huffmanonly_amd64.go encodeBytes ---- *)
Definition hlimit : N := 8176.         (* len(output) - 16 *)

(* three literals per iteration: the codes are or-ed into the word, one 8-byte store writes
   the whole bytes, idx advances by bitLen/8 *)
Fixpoint encode_bytes (lcodes : list (N * N)) (data : list N) (b : bitbuf) : list N * bitbuf :=
  match data with
  | x :: y :: z :: ((_ :: _) as r) =>
    let acc := bb_acc b ++ sym_word lcodes x ++ sym_word lcodes y ++ sym_word lcodes z in
    let b1 := bb_sync (mkbb (bb_out b) acc) in
    if hlimit <=? bb_idx b1 then (r, b1) else encode_bytes lcodes r b1
  | _ =>
    let acc := fold_left (fun a x => a ++ sym_word lcodes x) data (bb_acc b) in
    let b1 := bb_sync (mkbb (bb_out b) acc) in
    ([], mkbb (bb_out b1) (bb_acc b1 ++ sym_word lcodes 256))
  end.

Fixpoint hencode_rounds (fuel : nat) (lcodes : list (N * N)) (final : bool) (data : list N)
         (b : bitbuf) (chunks : list (list N)) : list (list N) * bitbuf :=
  match fuel with
  | O => (chunks, b)
  | S f =>
    match data with
    | [] => (chunks, b)
    | _ =>
      let '(rest, b1) := encode_bytes lcodes data (bb_sync b) in
      let b2 := match rest with [] => if final then bb_flush_last b1 else b1 | _ => b1 end in
      let '(chunk, b3) := bb_take b2 in
      hencode_rounds f lcodes final rest b3 (chunks ++ [chunk])
    end
  end.

(* huffmanOnly.encodeBlock for a non-empty buffer *)
Definition hencode_block (data : list N) (final : bool) (b : bitbuf) : list (list N) * bitbuf :=
  let lc := fold_left (fun h x => incN h x 1) data (repeat 0 513) in
  let litlens := generate 15 (reduce_counts lc) in
  let lcodes := gen_codes litlens in
  let b1 := write_header litlens (repeat 0 30) final b in
  hencode_rounds (S (length data)) lcodes final data b1 [].
