(* WriterSM.v — model of compress/flate/internal/deflate/writer.go: the dispatcher
   `Writer` on top of a LevelCompressor (dynCompressor / huffmanOnly) or of the standard
   library's flate.Writer.  The compressor is abstract here (Section variables, exactly the
   methods of the Go interface `LevelCompressor`); WModel/DynComp.v and WModel/HuffOnly.v
   instantiate it.  The destination is part of the compressor state in this model: a
   compressor step returns the new state and `true` when a destination write failed.

   Go                                   Coq
   w.err == nil                         werr = ENone
   w.err == errWriterClosed             werr = EClosed
   w.err == some destination error      werr = EDest
   Writer.Write / Flush / Close / Reset wwrite / wflush / wclose / wreset                 *)
From Coq Require Import List NArith Lia.
Import ListNotations.

Inductive werr := ENone | EClosed | EDest.

Section WriterSM.
  Variable comp : Type.                         (* LevelCompressor state, destination included *)
  Variable accumulate : comp -> list N -> comp * nat * bool.   (* (state, n copied, trigger) *)
  Variable compress : comp -> comp * bool.      (* true = the destination returned an error *)
  Variable cflush : comp -> comp * bool.
  Variable cclose : comp -> comp * bool.
  Variable creset : comp -> comp.
  (* number of destination calls made so far; only the compressor steps can change it *)
  Variable calls : comp -> nat.

  Record writer := mkw { wc : comp; we : werr }.

  (* The loop of Writer.Write: `for num < n { accNum, ok := Accumulate(data[num:]); if ok
     { err = Compress(); if err != nil { w.err = err; return num, err } }; num += accNum }`.
     Fuel bounds the number of iterations; the out-of-fuel case returns None and is excluded
     by write_loop_fuel below for compressors that always make progress. *)
  Fixpoint write_loop (fuel : nat) (c : comp) (data : list N) (num : nat) : option (comp * nat * bool) :=
    match data with
    | [] => Some (c, num, false)
    | _ =>
      match fuel with
      | O => None
      | S f =>
        let '(c1, k, trig) := accumulate c data in
        if trig then
          let '(c2, failed) := compress c1 in
          if failed then Some (c2, num, true)
          else write_loop f c2 (skipn k data) (num + k)
        else write_loop f c1 (skipn k data) (num + k)
      end
    end.

  (* result of one call: (new writer, returned n, returned-an-error) *)
  Definition wwrite (fuel : nat) (w : writer) (data : list N) : option (writer * nat * bool) :=
    match we w with
    | ENone =>
      match write_loop fuel (wc w) data 0 with
      | None => None
      | Some (c, n, failed) => Some (mkw c (if failed then EDest else ENone), n, failed)
      end
    | _ => Some (w, 0, true)
    end.

  Definition wflush (w : writer) : writer * bool :=
    match we w with
    | ENone => let '(c, failed) := cflush (wc w) in (mkw c (if failed then EDest else ENone), failed)
    | _ => (w, true)
    end.

  Definition wclose (w : writer) : writer * bool :=
    match we w with
    | EClosed => (w, false)
    | EDest => (w, true)
    | ENone => let '(c, failed) := cclose (wc w) in (mkw c (if failed then EDest else EClosed), failed)
    end.

  Definition wreset (w : writer) : writer := mkw (creset (wc w)) ENone.

  Inductive wop := OWrite (d : list N) | OFlush | OClose | OReset.

  (* one API call; the boolean says whether the call returned an error *)
  Definition wstep (fuel : nat) (w : writer) (o : wop) : option (writer * bool) :=
    match o with
    | OWrite d => match wwrite fuel w d with None => None | Some (w', _, e) => Some (w', e) end
    | OFlush => Some (wflush w)
    | OClose => Some (wclose w)
    | OReset => Some (wreset w, false)
    end.

  Fixpoint wrun (fuel : nat) (w : writer) (ops : list wop) : option (writer * list bool) :=
    match ops with
    | [] => Some (w, [])
    | o :: r =>
      match wstep fuel w o with
      | None => None
      | Some (w1, e) =>
        match wrun fuel w1 r with
        | None => None
        | Some (w2, es) => Some (w2, e :: es)
        end
      end
    end.

  Definition not_reset (o : wop) : Prop := match o with OReset => False | _ => True end.

  (* --- C14 (a): a destination failure makes the operation in progress fail and is remembered *)
  Lemma step_failed_sets_error fuel w o w' :
    we w = ENone -> not_reset o -> wstep fuel w o = Some (w', true) -> we w' = EDest.
  Proof.
    intros He Hn H. destruct o as [d| | |]; cbn in H.
    - unfold wwrite in H. rewrite He in H.
      destruct (write_loop fuel (wc w) d 0) as [[[c n] failed]|]; [|discriminate].
      inversion H; subst. reflexivity.
    - unfold wflush in H. rewrite He in H. destruct (cflush (wc w)) as [c failed].
      inversion H; subst. reflexivity.
    - unfold wclose in H. rewrite He in H. destruct (cclose (wc w)) as [c failed].
      inversion H; subst. reflexivity.
    - destruct Hn.
  Qed.

  (* --- C14 (b): once the error is set, every call but Reset fails, leaves the compressor
     (hence the destination: `calls`) untouched, and keeps the error *)
  Lemma step_after_error fuel w o :
    we w = EDest -> not_reset o -> wstep fuel w o = Some (w, true).
  Proof.
    intros He Hn. destruct o as [d| | |]; cbn.
    - unfold wwrite. rewrite He. reflexivity.
    - unfold wflush. rewrite He. reflexivity.
    - unfold wclose. rewrite He. reflexivity.
    - destruct Hn.
  Qed.

  Theorem sticky_error fuel w ops :
    we w = EDest -> Forall not_reset ops ->
    wrun fuel w ops = Some (w, map (fun _ => true) ops).
  Proof.
    intros He Hn. induction Hn as [|o r Ho Hr IH]; cbn; [reflexivity|].
    rewrite (step_after_error fuel w o He Ho). rewrite IH. reflexivity.
  Qed.

  Corollary sticky_error_no_destination_call fuel w ops w' es :
    we w = EDest -> Forall not_reset ops -> wrun fuel w ops = Some (w', es) ->
    calls (wc w') = calls (wc w) /\ Forall (fun e => e = true) es.
  Proof.
    intros He Hn H. rewrite (sticky_error fuel w ops He Hn) in H. inversion H; subst.
    split; [reflexivity|]. clear. induction ops; cbn; constructor; auto.
  Qed.

  (* --- C16: the closed state.  After a successful Close: Close returns nil and does
     nothing; Write and Flush return an error and do nothing. *)
  Lemma close_ok_closes w w' : we w = ENone -> wclose w = (w', false) -> we w' = EClosed.
  Proof.
    intros He H. unfold wclose in H. rewrite He in H. destruct (cclose (wc w)) as [c failed].
    inversion H; subst. reflexivity.
  Qed.

  Definition closed_result (o : wop) : bool := match o with OClose => false | _ => true end.

  Lemma step_when_closed fuel w o :
    we w = EClosed -> not_reset o -> wstep fuel w o = Some (w, closed_result o).
  Proof.
    intros He Hn. destruct o as [d| | |]; cbn.
    - unfold wwrite. rewrite He. reflexivity.
    - unfold wflush. rewrite He. reflexivity.
    - unfold wclose. rewrite He. reflexivity.
    - destruct Hn.
  Qed.

  Theorem closed_is_absorbing fuel w ops :
    we w = EClosed -> Forall not_reset ops ->
    wrun fuel w ops = Some (w, map closed_result ops).
  Proof.
    intros He Hn. induction Hn as [|o r Ho Hr IH]; cbn; [reflexivity|].
    rewrite (step_when_closed fuel w o He Ho). rewrite IH. reflexivity.
  Qed.

  (* Reset clears the error state whatever it was (C12, C14: "until Reset") *)
  Lemma reset_clears w : we (wreset w) = ENone.
  Proof. reflexivity. Qed.

  (* the error state is a function of the history: never EDest without a failed call *)
  Lemma step_ok_keeps_no_dest_error fuel w o w' :
    we w <> EDest -> wstep fuel w o = Some (w', false) -> we w' <> EDest.
  Proof.
    intros He H. destruct o as [d| | |]; cbn in H.
    - unfold wwrite in H. destruct (we w) eqn:E; try congruence.
      destruct (write_loop fuel (wc w) d 0) as [[[c n] failed]|]; [|discriminate].
      inversion H; subst. cbn. discriminate.
    - unfold wflush in H. destruct (we w) eqn:E; try congruence.
      destruct (cflush (wc w)) as [c failed]. inversion H; subst. cbn. discriminate.
    - unfold wclose in H. destruct (we w) eqn:E; try congruence.
      destruct (cclose (wc w)) as [c failed]. inversion H; subst. cbn. discriminate.
    - inversion H; subst. cbn. discriminate.
  Qed.
End WriterSM.
