(* OracleSpec.v — statements about the compressor model run with a match-finder oracle
   (Oracle.v): what the accelerated levels inherit from the model once the recorded calls pass
   the contract check.  Proofs in proofs/OracleProofs.v. *)
From Coq Require Import ZArith.
From Verif Require Export Oracle FinalSpec.
Open Scope N_scope.

Definition o_new (sync : bool) (level : Z) (win4k : bool) (answers : list lzcall) : writer odyn :=
  let W := if win4k then 4096 else 32768 in
  let mask := if (level =? 1)%Z then 4095 else 32767 in
  mkw odyn (mkodyn (dyn_new W mask sync (dest_new None)) answers false true 0) ENone.

Definition ohrun (sync : bool) (level : Z) (win4k : bool) (answers : list lzcall) (h : list hop)
  : option (writer odyn * list bool) :=
  WriterSM.wrun odyn o_accumulate o_compress odyn_flush o_close o_reset
                (S (length (hist_data h))) (o_new sync level win4k answers) (map hop_op h).

Definition o_dest (w : writer odyn) : dest := ddest (od (wc odyn w)).
Definition o_run_bytes (w : writer odyn) : list N := concat (rev (dchunks (o_dest w))).
Definition o_run_trace (w : writer odyn) : list event := rev (dtrace (o_dest w)).
Definition o_good (w : writer odyn) : Prop :=
  o_mismatch (wc odyn w) = false /\ o_contract (wc odyn w) = true.

(* C01 with any match finder: whatever answers the oracle gives, if the run made exactly the
   recorded calls and every answer passed the contract check, then no call failed and the bytes at
   the destination are one complete stream that the reference inflater decodes to the data written,
   with every back-reference within the window *)
Definition oracle_C01_statement : Prop :=
  forall sync level win4k answers h w flags, no_close h -> bytes_ok (hist_data h) ->
    ohrun sync level win4k answers (h ++ [HClose]) = Some (w, flags) -> o_good w ->
    Forall (fun e => e = false) flags /\
    trace_toks_ok (if win4k then 4096 else 32768) (o_run_trace w) 0 /\
    trace_data (o_run_trace w) = hist_data h /\
    let r := inflate [] (o_run_bytes w) in
    status r = Done /\ out r = hist_data h /\ (bitpos r + 7) / 8 = lenN (o_run_bytes w).

(* C10 likewise *)
Definition oracle_C10_statement : Prop :=
  forall sync level win4k answers h w flags, no_close h -> bytes_ok (hist_data h) ->
    ohrun sync level win4k answers (h ++ [HFlush]) = Some (w, flags) -> o_good w ->
    Forall (fun e => e = false) flags /\
    let r := inflate [] (o_run_bytes w) in
    status r = NeedInput /\ out r = hist_data h.

(* with the model's own match finder as the oracle the run is the model's run (sanity of the
   generalisation): stated on the destination bytes *)
Definition oracle_refines_statement : Prop :=
  forall sync level win4k h w flags,
    (level = 1 \/ level = 2 \/ level = -1)%Z -> bytes_ok (hist_data h) ->
    hrun sync level win4k h = Some (w, flags) ->
    exists answers w' flags',
      ohrun sync level win4k answers h = Some (w', flags') /\ o_good w' /\
      o_run_bytes w' = run_bytes w /\ flags' = flags.

(* unconditional versions of C01/C10 for the model's own match finder, using generate_valid *)
Definition C01_unconditional_statement : Prop :=
  forall sync level win4k h, no_close h -> bytes_ok (hist_data h) ->
    exists w flags,
      hrun sync level win4k (h ++ [HClose]) = Some (w, flags) /\
      Forall (fun e => e = false) flags /\
      let r := inflate [] (run_bytes w) in
      status r = Done /\ out r = hist_data h /\ (bitpos r + 7) / 8 = lenN (run_bytes w).

Definition C10_unconditional_statement : Prop :=
  forall sync level win4k h, no_close h -> bytes_ok (hist_data h) ->
    exists w flags,
      hrun sync level win4k (h ++ [HFlush]) = Some (w, flags) /\
      Forall (fun e => e = false) flags /\
      let r := inflate [] (run_bytes w) in
      status r = NeedInput /\ out r = hist_data h.
