(* WriterSpec.v — statements about histories of the writer model that do not depend on the
   codec: partition independence (C09), Reset (C12), call sequences against the standard
   library's 3-state machine (C16), destination faults (C14), no out-of-bounds (C14c).
   Statements only; proofs in proofs/WriterStateProofs.v. *)
From Coq Require Import Lia.
From Verif Require Export CodecSpec.
Open Scope N_scope.

(* abbreviations: the writer API of the model on the concrete compressors *)
Definition W_write (fuel : nat) (w : writer comp) (d : list N) := wwrite comp c_accumulate c_compress fuel w d.
Definition W_flush (w : writer comp) := wflush comp c_flush w.
Definition W_close (w : writer comp) := wclose comp c_close w.
Definition W_reset (fail : option N) (w : writer comp) := wreset comp (c_reset_to fail) w.
Definition W_run (fuel : nat) (w : writer comp) (ops : list wop) :=
  WriterSM.wrun comp c_accumulate c_compress c_flush c_close (c_reset_to None) fuel w ops.
Definition W_new (sync : bool) (level : Z) (win4k : bool) (fail : option N) : writer comp :=
  mkw comp (comp_new sync level win4k fail) ENone.

(* ---------- C12: Reset gives exactly the state of a new writer ---------- *)
(* reachable states: any operations from a new writer, with any destination fault, any Resets *)
Inductive reachable (sync : bool) (level : Z) (win4k : bool) : writer comp -> Prop :=
| R_new fail : reachable sync level win4k (W_new sync level win4k fail)
| R_write w fuel d w' n e : reachable sync level win4k w -> W_write fuel w d = Some (w', n, e) -> reachable sync level win4k w'
| R_flush w : reachable sync level win4k w -> reachable sync level win4k (fst (W_flush w))
| R_close w : reachable sync level win4k w -> reachable sync level win4k (fst (W_close w))
| R_reset w fail : reachable sync level win4k w -> reachable sync level win4k (W_reset fail w).

(* ---------- C09: Write (a ++ b) = Write a; Write b, and Write [] does nothing ---------- *)
(* with enough fuel for the loop of Writer.Write (one iteration per buffer fill; S (length d)
   always suffices, see write_fuel_statement) the final writer is the same, the byte counts add
   up and an error is returned by the one call iff it is returned by one of the two *)
(* (both statements hold for the states a history can reach; for arbitrary records they were
   refuted in Coq — e.g. a Huffman-only buffer already longer than its capacity makes the loop of
   Writer.Write spin — see the comment at the top of proofs/WriterStateProofs.v) *)
Definition write_fuel_statement : Prop :=
  forall sync level win4k (w : writer comp) d fuel, reachable sync level win4k w ->
    (length d < fuel)%nat -> W_write fuel w d <> None.

Definition write_split_statement : Prop :=
  forall sync level win4k (w : writer comp) a b fuel, reachable sync level win4k w ->
    (length a + length b < fuel)%nat ->
    match W_write fuel w (a ++ b), W_write fuel w a with
    | Some (w12, n12, e12), Some (w1, n1, e1) =>
      match W_write fuel w1 b with
      | Some (w2, n2, e2) =>
        w12 = w2 /\ e12 = (e1 || e2) /\ (e12 = false -> n12 = (n1 + n2)%nat)
      | None => False
      end
    | _, _ => False
    end.

Definition write_empty_statement : Prop :=
  forall (w : writer comp) fuel, we comp w = ENone -> W_write fuel w [] = Some (w, 0%nat, false).

Definition reset_is_new_statement : Prop :=
  forall sync level win4k w fail, reachable sync level win4k w ->
    W_reset fail w = W_new sync level win4k fail.

(* ---------- C14 (c): the model never reads out of bounds, whatever the history ---------- *)
Definition no_oob_statement : Prop :=
  forall sync level win4k w, reachable sync level win4k w -> comp_oob (wc comp w) = false.

(* ---------- C14 (a,b) on the concrete compressors: a failed destination call fails the
   operation, and nothing is written afterwards ---------- *)
Definition dest_calls (w : writer comp) : N := dcalls (c_dest (wc comp w)).
Definition dest_chunks (w : writer comp) : list (list N) := dchunks (c_dest (wc comp w)).

Definition fault_sticky_statement : Prop :=
  forall fuel (w : writer comp) ops, we comp w = EDest -> Forall not_reset ops ->
    exists flags, W_run fuel w ops = Some (w, flags) /\ Forall (fun e => e = true) flags.

(* the destination's failure is what sets the error: an operation fails iff the destination
   refused a call during it (healthy destination => no operation ever fails while open) *)
Definition healthy_no_error_statement : Prop :=
  forall sync level win4k fuel ops w flags,
    W_run fuel (W_new sync level win4k None) ops = Some (w, flags) ->
    dfail (c_dest (wc comp w)) = None /\ we comp w <> EDest.

(* ---------- C16: error flags equal those of the standard library's writer ---------- *)
(* compress/flate.Writer as a 3-state machine over a healthy destination *)
Inductive sstate := SOpen | SClosed.
Definition std_step (s : sstate) (o : wop) : sstate * bool :=
  match s, o with
  | _, OReset => (SOpen, false)
  | SOpen, OClose => (SClosed, false)
  | SOpen, _ => (SOpen, false)
  | SClosed, OClose => (SClosed, false)
  | SClosed, _ => (SClosed, true)
  end.
Fixpoint std_run (s : sstate) (ops : list wop) : list bool :=
  match ops with [] => [] | o :: r => let '(s1, e) := std_step s o in e :: std_run s1 r end.

Definition sum_writes (ops : list wop) : nat :=
  fold_right (fun o acc => match o with OWrite d => (length d + acc)%nat | _ => acc end) 0%nat ops.

Definition call_sequences_statement : Prop :=
  forall sync level win4k ops,
    exists w flags,
      W_run (S (sum_writes ops)) (W_new sync level win4k None) ops = Some (w, flags) /\
      flags = std_run SOpen ops.

(* after a successful Close nothing more reaches the destination until Reset *)
Definition closed_emits_nothing_statement : Prop :=
  forall fuel (w : writer comp) ops, we comp w = EClosed -> Forall not_reset ops ->
    exists flags, W_run fuel w ops = Some (w, flags).
