(* LZ77Spec.v — what the match finder must guarantee (the contract `lz_ok` of DESIGN.md 4.3),
   stated over the executable model of lz77.go in LZ77.v.  Statements only; the proofs are
   in proofs/LZ77Proofs.v.  The same predicate, as a boolean, is evaluated on the tokens the
   assembly match finders return (harness, every runnable acceleration level). *)
From Verif Require Export LZ77.
From Coq Require Import Lia.
Open Scope N_scope.

(* token validity at a position: `before` bytes precede the token *)
Definition tok_ok (W : N) (before : N) (t : tok) : Prop :=
  match t with
  | TLit b => True
  | TMatch len dist => 3 <= len /\ len <= 258 /\ 1 <= dist /\ dist <= W /\ dist <= before
  end.

Definition tok_len (t : tok) : N := match t with TLit _ => 1 | TMatch len _ => len end.

(* every token of ts (oldest first) is valid where it stands, starting after `before` bytes *)
Fixpoint toks_ok (W : N) (before : N) (ts : list tok) : Prop :=
  match ts with
  | [] => True
  | t :: r => tok_ok W before t /\ toks_ok W (before + tok_len t) r
  end.

(* The contract of one match-finder call.  `toks` are the tokens pending on entry (newest
   first), `r` the result. *)
Definition lz_ok (W : N) (input : list N) (offset : N) (toks : list tok) (ntok maxToken : N)
           (flush : bool) (r : lz_res) : Prop :=
  exists new_rev : list tok,
    lz_toks r = new_rev ++ toks /\
    lz_ntok r = ntok + lenN new_rev /\
    offset <= lz_off r /\ lz_off r <= lenN input /\
    (* the new tokens decode, given the bytes before offset, to exactly input[offset, lz_off) *)
    expand_rev (rev new_rev) (rev (firstn (N.to_nat offset) input))
      = rev (firstn (N.to_nat (lz_off r)) input) /\
    toks_ok W offset (rev new_rev) /\
    (* with flush the whole input is consumed unless the token limit stopped the call *)
    (flush = true -> lz_ntok r <= maxToken -> lz_off r = lenN input).

(* Main statement: for every table content, every input and every entry state, whenever the
   model does not flag an out-of-bounds read. *)
Definition lz77_ok_statement : Prop :=
  forall (flush : bool) (mask W : N) (input : list N) (processed offset : N) (table : arr)
         (toks : list tok) (ntok maxToken : N),
    offset <= lenN input ->
    let r := lz77 flush mask W input processed offset table toks ntok maxToken in
    lz_oob r = false ->
    lz_ok W input offset toks ntok maxToken flush r.

(* Out-of-bounds freedom.  The table holds 16-bit images of positions.  A candidate can lead
   before the start of the input only if the test `1 <= dist <= W` passes with dist > offset.
   That is impossible once offset >= W (always the case after the first slide of the
   compressor's buffer).  Before that, processed = offset (relative = 0), positions below W are
   their own 16-bit images, and it is impossible when every table entry is at most the current
   position + 2 (update3 writes two positions ahead): an entry e <= q gives dist = q - e <= q,
   an entry q < e <= q + 2 gives dist >= 65534 > W. *)
Definition table_below (table : arr) (bound : N) : Prop := forall h, aget table h <= bound.

Definition lz77_no_oob_statement : Prop :=
  forall (flush : bool) (mask W : N) (input : list N) (processed offset : N) (table : arr)
         (toks : list tok) (ntok maxToken : N),
    offset <= lenN input -> 0 < W -> W <= 32768 ->
    (W <= offset \/ (processed = offset /\ table_below table (offset + 2))) ->
    let r := lz77 flush mask W input processed offset table toks ntok maxToken in
    lz_oob r = false /\
    (W <= lz_off r \/ table_below (lz_table r) (lz_off r + 2)).
