(* Codes.v — executable model of the code-length generator and code assignment:
     huffman/moffat.go  (codeLens: Moffat–Katajainen in-place minimum-redundancy lengths)
     huffman/len_limited.go (Generate, enforceMaxLen)
     huffman/sort.go    (descending sort of (count,lit) pairs viewed as uint32 keys; the keys of
                         one call are pairwise distinct, so any correct descending sort gives
                         the same array: modelled by insertion into a sorted list)
     huffman/code.go    (GenerateCode / GenerateCode2: canonical codes, bit-reversed)
     deflate/huffcodes.go (histogram layout, reduceCounts; expandCodes is modelled in Encode.v)
   Arrays are lists of N indexed with nthN/updN (at most 513 entries). *)
From Verif Require Export LZ77.
Open Scope N_scope.

(* ---- sort.go: keys count*65536+lit, descending ---- *)
Fixpoint insert_desc (k : N) (l : list N) : list N :=
  match l with
  | [] => [k]
  | x :: r => if x <? k then k :: l else x :: insert_desc k r
  end.
Definition sort_desc (l : list N) : list N := fold_right insert_desc [] l.

(* ---- moffat.go: codeLens on w (descending weights), returns the updated array ---- *)

(* phase 1, one "find child" step: returns (w, root, leaf) after taking a child into w[next];
   first = true overwrites w[next], false adds to it *)
Definition take_child (w : list N) (next root leaf : N) (leaf_neg : bool) (first : bool)
  : list N * N * N * bool :=
  (* leaf_neg: leaf < 0 in Go (leaf is an int that goes to -1) *)
  if leaf_neg || ((next <? root) && (nthN w root <? nthN w leaf)) then
    let v := nthN w root in
    let w1 := updN w next (if first then v else nthN w next + v) in
    (updN w1 root next, root - 1, leaf, leaf_neg)
  else
    let v := nthN w leaf in
    let w1 := updN w next (if first then v else nthN w next + v) in
    if leaf =? 0 then (w1, root, 0, true) else (w1, root, leaf - 1, false).

(* for next := n-1; next >= 1; next-- *)
Fixpoint phase1 (k : nat) (w : list N) (root leaf : N) (leaf_neg : bool) : list N :=
  match k with
  | O => w
  | S k' =>
    let next := N.of_nat k in
    let '(w1, root1, leaf1, ln1) := take_child w next root leaf leaf_neg true in
    let '(w2, root2, leaf2, ln2) := take_child w1 next root1 leaf1 ln1 false in
    phase1 k' w2 root2 leaf2 ln2
  end.

(* phase 2: w[1] = 0; for next := 2..n-1: w[next] = w[w[next]] + 1 *)
Fixpoint phase2 (todo : list N) (w : list N) : list N :=
  match todo with
  | [] => w
  | next :: r => phase2 r (updN w next (nthN w (nthN w next) + 1))
  end.

(* phase 3 *)
Fixpoint count_internal (fuel : nat) (w : list N) (n root depth used : N) : N * N :=
  match fuel with
  | O => (root, used)
  | S f => if (root <? n) && (nthN w root =? depth) then count_internal f w n (root + 1) depth (used + 1)
           else (root, used)
  end.
Fixpoint assign_leaves (fuel : nat) (w : list N) (next avail used depth : N) : list N * N :=
  match fuel with
  | O => (w, next)
  | S f => if used <? avail then assign_leaves f (updN w next depth) (next + 1) (avail - 1) used depth
           else (w, next)
  end.
Fixpoint phase3 (fuel : nat) (w : list N) (n avail depth root next : N) : list N :=
  match fuel with
  | O => w
  | S f =>
    if 0 <? avail then
      let '(root1, used) := count_internal (length w) w n root depth 0 in
      let '(w1, next1) := assign_leaves (S (length w)) w next avail used depth in
      phase3 f w1 n (2 * used) (depth + 1) root1 next1
    else w
  end.

Definition code_lens (w : list N) : list N :=
  let n := lenN w in
  match w with
  | [] => []
  | [_] => [1]
  | _ =>
    let w1 := phase1 (length w - 1) w (n - 1) (n - 1) false in
    let w2 := phase2 (seqN 2 (length w - 2)) (updN w1 1 0) in
    phase3 (S (length w)) w2 n 1 0 1 0
  end.

(* ---- len_limited.go ---- *)

(* the inner `for i := maxLen-1; i > 0; i--` of enforceMaxLen *)
Fixpoint move_one (i : nat) (lc : list N) : list N :=
  match i with
  | O => lc
  | S i' => if negb (nthN lc (N.of_nat i) =? 0)
            then incN (updN lc (N.of_nat i) (nthN lc (N.of_nat i) - 1)) (N.of_nat i + 1) 2
            else move_one i' lc
  end.

Fixpoint kraft_fix (fuel : nat) (maxLen : nat) (lc : list N) : list N :=
  match fuel with
  | O => lc
  | S f =>
    let lc1 := updN lc (N.of_nat maxLen) (nthN lc (N.of_nat maxLen) - 1) in
    kraft_fix f maxLen (move_one (maxLen - 1) lc1)
  end.

Definition kraft_total (maxLen : nat) (lc : list N) : N :=
  sumN (map (fun i => nthN lc (N.of_nat i) * 2 ^ N.of_nat (maxLen - i)) (seq 1 maxLen)).

(* lenCounts -> lenCounts with every length <= maxLen and Kraft total exactly 2^maxLen *)
Definition enforce_max_len (maxLen : nat) (lc : list N) : list N :=
  let over := sumN (skipn (S maxLen) lc) in
  let lc1 := firstn (S maxLen) (updN lc (N.of_nat maxLen) (nthN lc (N.of_nat maxLen) + over)) in
  let total := kraft_total maxLen lc1 in
  kraft_fix (N.to_nat (total - 2 ^ N.of_nat maxLen)) maxLen lc1.

(* lengths 1..limit in order, lenCounts[length] times each *)
Definition spread_lengths (maxLen : nat) (lc : list N) : list N :=
  flat_map (fun i => repeat (N.of_nat i) (N.to_nat (nthN lc (N.of_nat i)))) (seq 1 maxLen).

Fixpoint count_into (ws : list N) (lc : list N) : list N :=
  match ws with [] => lc | v :: r => count_into r (incN lc v 1) end.

Fixpoint scatter_lens (lits lens : list N) (acc : list N) : list N :=
  match lits, lens with
  | s :: ls, v :: vs => scatter_lens ls vs (updN acc s v)
  | _, _ => acc
  end.

(* LenLimitedCode.Generate(limitedLen, histogram, codeLens): histogram -> code lengths *)
Definition generate (limit : nat) (hist : list N) : list N :=
  let keys := sort_desc
      (flat_map (fun '(i, v) => if v =? 0 then [] else [(v mod two16) * two16 + i])
                (combine (seqN 0 (length hist)) hist)) in
  let lits := map (fun k => k mod two16) keys in
  let w := code_lens (map (fun k => k / two16) keys) in
  let maxLen := last w 0 in
  let zero := repeat 0 (length hist) in
  if maxLen <=? N.of_nat limit then scatter_lens lits w zero
  else
    let lc := count_into w (repeat 0 (S (N.to_nat maxLen))) in
    let lc' := enforce_max_len limit lc in
    scatter_lens lits (spread_lengths limit lc') (scatter_lens lits w zero).

(* ---- code.go: canonical codes.  Result per symbol: (length, code value MSB-first as a
   number).  GenerateCode/GenerateCode2 store the code bit-reversed so that writing it LSB-first
   puts the most significant code bit first in the stream; Encode.v writes code_bits. ---- *)
Fixpoint assign_all (l : list N) (nc : list N) : list (N * N) :=
  match l with
  | [] => []
  | x :: r =>
    if x =? 0 then (0, 0) :: assign_all r nc
    else let c := nthN nc x in (x, c) :: assign_all r (updN nc x (c + 1))
  end.

Definition gen_codes (lens : list N) : list (N * N) :=
  let nl := map N.to_nat lens in
  assign_all lens (map (first_code nl) (seq 0 17)).

(* ---- huffcodes.go: reduceCounts on the 513-entry literal/length histogram ---- *)
Definition group_sums (h : list N) : list N :=
  (* for bits = 1..5, four groups of 2^bits consecutive entries starting at index 265 *)
  let grp (start : nat) (size : nat) := sumN (firstn size (skipn start h)) in
  [ grp 265 2; grp 267 2; grp 269 2; grp 271 2;
    grp 273 4; grp 277 4; grp 281 4; grp 285 4;
    grp 289 8; grp 297 8; grp 305 8; grp 313 8;
    grp 321 16; grp 337 16; grp 353 16; grp 369 16;
    grp 385 32; grp 417 32; grp 449 32; grp 481 32 ]%nat.

(* literalCodes[:286] after reduceCounts and literalCodes[256] = 1 *)
Definition reduce_counts (h : list N) : list N :=
  updN (firstn 265 h ++ group_sums h ++ [nthN h 512]) 256 1.

(* histogram of a token list: (513 literal/length counts, 30 distance counts) *)
Definition tok_counts (ts : list tok) : list N * list N :=
  fold_left (fun '(lc, dc) t =>
               match t with
               | TLit b => (incN lc b 1, dc)
               | TMatch len dist => (incN lc (len + 254) 1, incN dc (fst (dist_symbol dist)) 1)
               end) ts (repeat 0 513, repeat 0 30).
