(* Conc.v — instances that only READ shared state cannot interfere (C17).
   An instance (a Writer or a Reader value) is a state of some type; one call on it is
   `istep g i o`: it may read the package-level variables g (lookup tables, the acceleration level,
   error values) and returns the instance's new state and the call's observable result; it cannot
   return new globals.  That typing is the model's version of "no package-level variable is written
   after initialisation", which is not assumed about the code: it is the computed fact
   `globals_only_written_in_init` over the uses listed by the translator (Generated/Globals.v). *)
From Coq Require Import List Arith.
Import ListNotations.

Section Conc.
  Variables G inst op out : Type.
  Variable istep : G -> inst -> op -> inst * out.

  (* a system of instances indexed by nat; a schedule interleaves calls on them in any order *)
  Definition sys := nat -> inst.
  Definition upd (s : sys) (i : nat) (v : inst) : sys := fun j => if Nat.eqb j i then v else s j.

  Fixpoint run (g : G) (s : sys) (sched : list (nat * op)) : sys * list (nat * out) :=
    match sched with
    | [] => (s, [])
    | (i, o) :: r =>
      let '(v, x) := istep g (s i) o in
      let '(s', xs) := run g (upd s i v) r in (s', (i, x) :: xs)
    end.

  Fixpoint solo (g : G) (v : inst) (ops : list op) : inst * list out :=
    match ops with
    | [] => (v, [])
    | o :: r => let '(v1, x) := istep g v o in let '(v2, xs) := solo g v1 r in (v2, x :: xs)
    end.

  Definition proj {A} (i : nat) (l : list (nat * A)) : list A :=
    map snd (filter (fun p => Nat.eqb (fst p) i) l).

  (* every instance ends in the state, and produces the results, of its solo run *)
  Theorem schedule_independent : forall g sched s i,
    fst (run g s sched) i = fst (solo g (s i) (proj i sched)) /\
    proj i (snd (run g s sched)) = snd (solo g (s i) (proj i sched)).
  Proof.
    intros g sched. induction sched as [|[j o] r IH]; intros s i.
    - split; reflexivity.
    - cbn [run]. destruct (istep g (s j) o) as [v x] eqn:E.
      destruct (run g (upd s j v) r) as [s' xs] eqn:R.
      specialize (IH (upd s j v) i). rewrite R in IH. cbn [fst snd] in IH.
      unfold proj in *. cbn [filter map fst snd].
      destruct (Nat.eqb j i) eqn:J.
      + apply Nat.eqb_eq in J. subst j. cbn [map snd solo]. rewrite E.
        assert (U : upd s i v i = v) by (unfold upd; now rewrite Nat.eqb_refl).
        rewrite U in IH.
        destruct (solo g v (map snd (filter (fun p => Nat.eqb (fst p) i) r))) as [v2 ys].
        cbn [fst snd] in *. destruct IH as [A B]. split; [exact A|]. now rewrite B.
      + assert (U : upd s j v i = s i) by (unfold upd; rewrite Nat.eqb_sym in J; now rewrite J).
        rewrite U in IH. exact IH.
  Qed.
End Conc.
