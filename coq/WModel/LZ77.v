(* LZ77.v — executable model of compress/flate/internal/deflate/lz77.go (the pure-Go match
   finder used at acceleration level 0 and by the noasmtest build) and of token.go.

   Go                                   Coq
   token (packed uint32)                tok  (TLit b | TMatch len dist)
   table []uint16                       arr  (index -> 16-bit position, 0 when never written)
   input []byte                         list N, plus the same bytes as arr for random access
   hist *histogram                      not threaded: the histogram of a block is recomputed from
                                        its tokens (Hist.v); the code keeps it incrementally
   loadU32/loadU64 + xor/compare        cpl: length of the common prefix, capped exactly as the
                                        8-byte compare loop caps it
   uint16(relative+offset)              (relative + offset) mod 2^16, written out

   The function is structurally recursive over the remaining input (no fuel): a match of
   length L processes one position and skips L-1.  `oob` is set if the code would index the
   input before its start (prev < 0); LZ77Proofs shows it is never set under the buffer
   invariant of the compressor. *)
From Verif Require Export Base.
Open Scope N_scope.

Inductive tok := TLit (b : N) | TMatch (len dist : N).

Definition prime : N := 0xB2D06057.
Definition two16 : N := 65536.
Definition two32 : N := 4294967296.
Definition two64 : N := 18446744073709551616.

(* hash4: uint64 arithmetic, two multiply/shift rounds, truncated to uint32 *)
Definition hash4 (d : N) : N :=
  let h1 := (d * prime) mod two64 in
  let h2 := h1 / two16 in
  let h3 := (h2 * prime) mod two64 in
  (h3 / two16) mod two32.

Definition load32 (a : arr) (o : N) : N :=
  aget a o + 256 * aget a (o + 1) + 65536 * aget a (o + 2) + 16777216 * aget a (o + 3).

(* number of leading positions i < cap with a[p+i] = l[i] *)
Fixpoint cpl (a : arr) (p : N) (l : list N) (cap : N) (acc : N) : N :=
  match l with
  | [] => acc
  | x :: r => if (0 <? cap) && (aget a p =? x) then cpl a (p + 1) r (cap - 1) (acc + 1) else acc
  end.

(* matchLength as computed by the xor of two 8-byte loads followed by compare():
   l is the input from offset on; e = len(input) - 8 *)
Definition match_length (a : arr) (prev offset e : N) (l : list N) : N :=
  let f := cpl a prev l 8 0 in
  if f <? 8 then f
  else if e <? offset + 16 then 8                       (* compare(): maxLength < 8 returns 0 *)
  else 8 + cpl a (prev + 8) (skipn 8 l) (e - offset - 8) 0.

(* getDistSymbol *)
Definition dist_symbol (dist : N) : N * N :=
  if dist <=? 2 then (dist - 1, 0)
  else
    let d := dist - 1 in
    let nb := N.size d - 2 in
    (N.shiftr d nb + 2 * nb, N.land d (N.ones nb)).

Definition dist_extra_bits (sym : N) : N := if sym <? 4 then 0 else sym / 2 - 1.

(* "only update next 3 hash" *)
Definition update3 (a : arr) (mask relative offset : N) (table : arr) : arr :=
  let t0 := aset table (N.land (hash4 (load32 a offset)) mask) ((relative + offset) mod two16) in
  let t1 := aset t0 (N.land (hash4 (load32 a (offset + 1))) mask) ((relative + offset + 1) mod two16) in
  aset t1 (N.land (hash4 (load32 a (offset + 2))) mask) ((relative + offset + 2) mod two16).

(* result of processing one position: tokens emitted (newest first), positions consumed,
   new table, whether the token limit was reached (the Go function returns), out-of-bounds *)
Record step_res := mksr { sr_toks : list tok; sr_adv : N; sr_table : arr; sr_stop : bool; sr_oob : bool }.

(* the `for matchLength > 258` loop: returns (tokens, advance, remaining length, ntok, stopped) *)
Fixpoint emit258 (fuel : nat) (dist ml adv ntok maxToken : N) (acc : list tok)
  : list tok * N * N * N * bool :=
  match fuel with
  | O => (acc, adv, ml, ntok, false)
  | S f =>
    if 258 <? ml then
      let acc' := TMatch 258 dist :: acc in
      let ntok' := ntok + 1 in
      if maxToken <? ntok' then (acc', adv + 258, ml, ntok', true)
      else emit258 f dist (ml - 258) (adv + 258) ntok' maxToken acc'
    else (acc, adv, ml, ntok, false)
  end.

Definition lz_step (a : arr) (e mask W relative offset : N) (l : list N) (table : arr)
           (ntok maxToken : N) : step_res :=
  let four := load32 a offset in
  let h := N.land (hash4 four) mask in
  let lookup := aget table h in
  let pos16 := (relative + offset) mod two16 in
  let dist := (pos16 + two16 - lookup) mod two16 in
  let table1 := aset table h pos16 in
  let literal (off adv : N) (acc : list tok) (nt : N) (tb : arr) (oob : bool) :=
    mksr (TLit (aget a off) :: acc) (adv + 1) tb (maxToken <? nt + 1) oob in
  if (1 <=? dist) && (dist <=? W) then
    if offset <? dist then mksr [] 0 table1 true true      (* prev < 0: out of bounds *)
    else
      let prev := offset - dist in
      let ml := match_length a prev offset e l in
      if 258 <? ml then
        let table2 := update3 a mask relative offset table1 in
        let '(acc, adv, ml', nt, stopped) :=
          emit258 (S (N.to_nat (ml / 258))) dist ml 0 ntok maxToken [] in
        if stopped then mksr acc adv table2 true false
        else if 4 <=? ml' then
          let table3 := update3 a mask relative (offset + adv) table2 in
          mksr (TMatch ml' dist :: acc) (adv + ml') table3 (maxToken <? nt + 1) false
        else literal (offset + adv) adv acc nt table2 false
      else if 4 <=? ml then
        let table2 := update3 a mask relative offset table1 in
        mksr [TMatch ml dist] ml table2 (maxToken <? ntok + 1) false
      else literal offset 0 [] ntok table1 false
  else literal offset 0 [] ntok table1 false.

Record lz_res := mklz { lz_off : N; lz_table : arr; lz_toks : list tok (* newest first *);
                        lz_ntok : N; lz_oob : bool }.

(* l = input from position offset on.  skip = positions already covered by the last match. *)
Fixpoint lz_loop (flush : bool) (a : arr) (len e mask W relative : N) (maxToken : N)
         (l : list N) (offset : N) (skip : nat) (table : arr) (toks : list tok) (ntok : N)
         (oob : bool) : lz_res :=
  match l with
  | [] => mklz offset table toks ntok oob
  | b :: l' =>
    match skip with
    | S k => lz_loop flush a len e mask W relative maxToken l' (offset + 1) k table toks ntok oob
    | O =>
      if offset <? e then
        let r := lz_step a e mask W relative offset l table ntok maxToken in
        let toks' := sr_toks r ++ toks in
        let ntok' := ntok + lenN (sr_toks r) in
        if sr_stop r then mklz (offset + sr_adv r) (sr_table r) toks' ntok' (oob || sr_oob r)
        else lz_loop flush a len e mask W relative maxToken l' (offset + 1)
                     (N.to_nat (sr_adv r) - 1) (sr_table r) toks' ntok' (oob || sr_oob r)
      else if flush then
        let toks' := TLit b :: toks in
        let ntok' := ntok + 1 in
        if maxToken <? ntok' then mklz (offset + 1) table toks' ntok' oob
        else lz_loop flush a len e mask W relative maxToken l' (offset + 1) 0 table toks' ntok' oob
      else mklz offset table toks ntok oob
    end
  end.

(* lz77(flush, table, mask, historySize, hist, input, processed, offset, tokens, maxToken) *)
Definition lz77 (flush : bool) (mask W : N) (input : list N) (processed offset : N)
           (table : arr) (toks : list tok) (ntok maxToken : N) : lz_res :=
  let a := arr_of_list input in
  let len := lenN input in
  let e := len - 8 in
  let relative := processed - offset in
  lz_loop flush a len e mask W relative maxToken (skipn (N.to_nat offset) input) offset 0
          table toks ntok false.

(* the bytes a token sequence (oldest first) stands for, given the bytes before it *)
Fixpoint copy_from (hist_rev : list N) (dist : N) (len : nat) : list N :=
  match len with
  | O => hist_rev
  | S k => copy_from (nth (N.to_nat dist - 1) hist_rev 0 :: hist_rev) dist k
  end.

Fixpoint expand_rev (ts : list tok) (hist_rev : list N) : list N :=
  match ts with
  | [] => hist_rev
  | TLit b :: r => expand_rev r (b :: hist_rev)
  | TMatch len dist :: r => expand_rev r (copy_from hist_rev dist (N.to_nat len))
  end.
