(* ContainerW.v — executable model of the gzip and zlib Writers (compress/gzip/gzip.go,
   compress/zlib/writer.go, the standard library's files re-pointed at fastgo's flate) on top of
   the writer model: lazy header (one destination call per piece, as in the Go code), CRC-32 /
   Adler-32 and length bookkeeping, trailer at Close, closed and error state, Reset.
   Only the accelerated levels (1, 2, -1, -2: fastgo's own compressors) are modelled; the
   other levels delegate to compress/flate and are compared with the standard library's writers
   directly (delegation transparency, DESIGN.md 4.4). *)
From Coq Require Import ZArith.
From Verif Require Export Compressor Containers.
Open Scope N_scope.

(* write one chunk to the destination the compressor writes to *)
Definition comp_dest_write (c : comp) (chunk : list N) : comp * bool :=
  match c with
  | CDyn d =>
    let '(d1, f) := dest_write (ddest d) chunk in
    (CDyn (mkdyn (dW d) (dmask d) (dsync d) (dbuf d) (didx d) (dproc d) (dtable d) (dtoks d) (dntok d) (dbb d) d1 (doob d)), f)
  | CHuf h => let '(d1, f) := dest_write (hdest h) chunk in (CHuf (mkhuf (hbuf h) (hbb h) d1), f)
  end.

Fixpoint comp_dest_write_all (c : comp) (chunks : list (list N)) : comp * bool :=
  match chunks with
  | [] => (c, false)
  | x :: r => let '(c1, f) := comp_dest_write c x in if f then (c1, true) else comp_dest_write_all c1 r
  end.

(* gzip header fields as the Writer sees them: Extra (None = nil), Name, Comment ("" = absent),
   ModTime as seconds (0 = not set), OS *)
Record gzw_hdr := mkgwh { gw_extra : option (list N); gw_name : list N; gw_comment : list N; gw_mtime : N; gw_os : N }.

Inductive ckind := KGzip (h : gzw_hdr) | KZlib.

Record cwriter := mkcw {
  cw_kind : ckind; cw_level : Z;
  cw_inner : writer comp;          (* the flate Writer; its compressor holds the destination *)
  cw_wrote : bool; cw_closed : bool; cw_err : bool;
  cw_payload : list N              (* everything passed to Write so far, newest first *)
}.

Definition gz_xfl (level : Z) : N := if (level =? 9)%Z then 2 else if (level =? 1)%Z then 4 else 0.
Definition gz_header_pieces (h : gzw_hdr) (level : Z) : list (list N) :=
  let flg := (match gw_extra h with Some _ => 4 | None => 0 end) +
             (match gw_name h with [] => 0 | _ => 8 end) + (match gw_comment h with [] => 0 | _ => 16 end) in
  [[31; 139; 8; flg] ++ le32 (gw_mtime h) ++ [gz_xfl level; gw_os h]] ++
  (match gw_extra h with Some e => [le16 (N.of_nat (length e)); e] | None => [] end) ++
  (match gw_name h with [] => [] | s => [s; [0]] end) ++
  (match gw_comment h with [] => [] | s => [s; [0]] end).

Definition zl_level_bits (level : Z) : N :=
  if ((level =? -2) || (level =? 0) || (level =? 1))%Z then 0
  else if ((2 <=? level) && (level <=? 5))%Z then 1
  else if ((level =? 6) || (level =? -1))%Z then 2 else 3.

Definition header_pieces (k : ckind) (level : Z) : list (list N) :=
  match k with
  | KGzip h => gz_header_pieces h level
  | KZlib => [zl_header (zl_level_bits level) None]
  end.

Definition with_inner (w : cwriter) (i : writer comp) : cwriter :=
  mkcw (cw_kind w) (cw_level w) i (cw_wrote w) (cw_closed w) (cw_err w) (cw_payload w).

(* write the header if it has not been written: (writer, failed) *)
Definition cw_ensure_header (w : cwriter) : cwriter * bool :=
  if cw_wrote w then (w, false)
  else
    let '(c1, f) := comp_dest_write_all (wc comp (cw_inner w)) (header_pieces (cw_kind w) (cw_level w)) in
    (mkcw (cw_kind w) (cw_level w) (mkw comp c1 (we comp (cw_inner w))) true (cw_closed w) (cw_err w || f) (cw_payload w), f).

Definition inner_write (fuel : nat) (w : cwriter) (p : list N) : option (cwriter * nat * bool) :=
  match wwrite comp c_accumulate c_compress fuel (cw_inner w) p with
  | None => None
  | Some (i, n, e) =>
    Some (mkcw (cw_kind w) (cw_level w) i (cw_wrote w) (cw_closed w) (cw_err w || e) (cw_payload w), n, e)
  end.

(* ---- gzip ---- *)
Definition gzw_write (fuel : nat) (w : cwriter) (p : list N) : option (cwriter * nat * bool) :=
  if cw_err w then Some (w, 0%nat, true)
  else
    let '(w1, f) := cw_ensure_header w in
    if f then Some (w1, 0%nat, true)
    else
      let w2 := mkcw (cw_kind w1) (cw_level w1) (cw_inner w1) (cw_wrote w1) (cw_closed w1) (cw_err w1) (rev_append p (cw_payload w1)) in
      inner_write fuel w2 p.

Definition gzw_flush (w : cwriter) : cwriter * bool :=
  if cw_err w then (w, true)
  else if cw_closed w then (w, false)
  else
    let '(w1, f) := cw_ensure_header w in
    if f then (w1, true)
    else
      (* Write(nil) on the compressor happens only when the header was just written *)
      let w1' := if cw_wrote w then Some (w1, false)
                 else match inner_write 1 w1 [] with Some (x, _, e) => Some (x, e) | None => None end in
      match w1' with
      | None => (w1, true)
      | Some (w2, e) =>
        if e then (w2, true)
        else let '(i, e2) := wflush comp c_flush (cw_inner w2) in
             (mkcw (cw_kind w2) (cw_level w2) i (cw_wrote w2) (cw_closed w2) (cw_err w2 || e2) (cw_payload w2), e2)
      end.

Definition gzw_close (w : cwriter) : cwriter * bool :=
  if cw_err w then (w, true)
  else if cw_closed w then (w, false)
  else
    let w0 := mkcw (cw_kind w) (cw_level w) (cw_inner w) (cw_wrote w) true (cw_err w) (cw_payload w) in
    let '(w1, f) := cw_ensure_header w0 in
    if f then (w1, true)
    else
      let w1' := if cw_wrote w then Some (w1, false)
                 else match inner_write 1 w1 [] with Some (x, _, e) => Some (x, e) | None => None end in
      match w1' with
      | None => (w1, true)
      | Some (w2, e) =>
        if e then (w2, true)
        else
          let '(i, e2) := wclose comp c_close (cw_inner w2) in
          if e2 then (mkcw (cw_kind w2) (cw_level w2) i (cw_wrote w2) (cw_closed w2) true (cw_payload w2), true)
          else
            let payload := rev (cw_payload w2) in
            let '(c1, f3) := comp_dest_write (wc comp i) (gz_trailer payload) in
            (mkcw (cw_kind w2) (cw_level w2) (mkw comp c1 (we comp i)) (cw_wrote w2) (cw_closed w2) f3 (cw_payload w2), f3)
      end.

(* ---- zlib ---- *)
Definition zlw_write (fuel : nat) (w : cwriter) (p : list N) : option (cwriter * nat * bool) :=
  let '(w1, _) := cw_ensure_header w in
  if cw_err w1 then Some (w1, 0%nat, true)
  else match p with
       | [] => Some (w1, 0%nat, false)
       | _ =>
         match inner_write fuel w1 p with
         | None => None
         | Some (w2, n, e) =>
           if e then Some (w2, n, true)
           else Some (mkcw (cw_kind w2) (cw_level w2) (cw_inner w2) (cw_wrote w2) (cw_closed w2) (cw_err w2) (rev_append p (cw_payload w2)), n, false)
         end
       end.

Definition zlw_flush (w : cwriter) : cwriter * bool :=
  let '(w1, _) := cw_ensure_header w in
  if cw_err w1 then (w1, true)
  else let '(i, e) := wflush comp c_flush (cw_inner w1) in
       (mkcw (cw_kind w1) (cw_level w1) i (cw_wrote w1) (cw_closed w1) e (cw_payload w1), e).

Definition zlw_close (w : cwriter) : cwriter * bool :=
  let '(w1, _) := cw_ensure_header w in
  if cw_err w1 then (w1, true)
  else if cw_closed w1 then (w1, false)
  else
    let '(i, e) := wclose comp c_close (cw_inner w1) in
    if e then (mkcw (cw_kind w1) (cw_level w1) i (cw_wrote w1) false true (cw_payload w1), true)
    else
      let '(c1, f) := comp_dest_write (wc comp i) (be32 (adler32 (rev (cw_payload w1)))) in
      (mkcw (cw_kind w1) (cw_level w1) (mkw comp c1 (we comp i)) (cw_wrote w1) (negb f) f (cw_payload w1), f).

(* ---- both ---- *)
Definition cw_new (k : ckind) (sync : bool) (level : Z) (fail : option N) : cwriter :=
  let lv := if (level =? -1)%Z then 2%Z else level in
  mkcw k level (mkw comp (comp_new sync lv false fail) ENone) false false false [].

Definition cw_reset (w : cwriter) (fail : option N) : cwriter :=
  mkcw (cw_kind w) (cw_level w) (wreset comp (c_reset_to fail) (cw_inner w)) false false false [].

Definition cw_dest (w : cwriter) : dest := c_dest (wc comp (cw_inner w)).

Fixpoint cw_run (w : cwriter) (ops : list wop) (res : list (N * bool)) (dests : list (list (list N))) : wobs :=
  match ops with
  | [] => mkwobs (frev res) (frev (frev (dchunks (cw_dest w)) :: dests)) (comp_oob (wc comp (cw_inner w)))
  | o :: r =>
    match o with
    | OWrite d =>
      match (match cw_kind w with KGzip _ => gzw_write | KZlib => zlw_write end) (S (length d)) w d with
      | None => mkwobs (frev res) [] true
      | Some (w1, n, e) => cw_run w1 r ((N.of_nat n, e) :: res) dests
      end
    | OFlush => let '(w1, e) := (match cw_kind w with KGzip _ => gzw_flush | KZlib => zlw_flush end) w in
                cw_run w1 r ((0, e) :: res) dests
    | OClose => let '(w1, e) := (match cw_kind w with KGzip _ => gzw_close | KZlib => zlw_close end) w in
                cw_run w1 r ((0, e) :: res) dests
    | OReset => cw_run (cw_reset w None) r ((0, false) :: res) (frev (dchunks (cw_dest w)) :: dests)
    end
  end.

Definition cwrun (k : ckind) (sync : bool) (level : Z) (fail : option N) (ops : list wop) : wobs :=
  cw_run (cw_new k sync level fail) ops [] [].
