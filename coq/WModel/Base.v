(* Base.v — small executable helpers shared by the writer model: persistent arrays (the Go
   slices that are indexed at random: input buffer, hash table), list indexing on N. *)
From Coq Require Export List NArith Bool FMapPositive.
From Verif Require Export Bits Huffman.
Export ListNotations.
Open Scope N_scope.

Definition arr := PositiveMap.t N.
Definition aempty : arr := PositiveMap.empty N.
Definition aget (a : arr) (i : N) : N :=
  match PositiveMap.find (N.succ_pos i) a with Some v => v | None => 0 end.
Definition aset (a : arr) (i v : N) : arr := PositiveMap.add (N.succ_pos i) v a.

Fixpoint arr_fill (l : list N) (i : N) (a : arr) : arr :=
  match l with
  | [] => a
  | x :: r => arr_fill r (i + 1) (aset a i x)
  end.
Definition arr_of_list (l : list N) : arr := arr_fill l 0 aempty.

(* list indexing by N (small lists only: histograms, code tables) *)
Definition nthN (l : list N) (i : N) : N := nth (N.to_nat i) l 0.
Definition updN (l : list N) (i v : N) : list N := upd (N.to_nat i) v l.
Definition incN (l : list N) (i : N) (d : N) : list N := updN l i (nthN l i + d).
Definition lenN {A} (l : list A) : N := N.of_nat (length l).

Fixpoint sumN (l : list N) : N := match l with [] => 0 | x :: r => x + sumN r end.

(* [a; a+1; ...] of length n *)
Fixpoint seqN (a : N) (n : nat) : list N :=
  match n with O => [] | S k => a :: seqN (a + 1) k end.
