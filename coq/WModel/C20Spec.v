(* C20Spec.v — what is proved about output size (proofs/C20Proofs.v).  The byte bounds of C20
   themselves (n + n/32 + 256; n/32 + 1200 for periodic inputs) need a bound on the redundancy of
   the generated Huffman codes, which is not proved: they are measured on every run.  Proved:
   exact cost accounting, a bound on the header, and that the periodic bound is FALSE for the
   pure-Go match finder on inputs whose 4-grams collide in the hash (finding F-C20). *)
From Coq Require Import ZArith.
From Verif Require Export FinalSpec.
Open Scope N_scope.

(* cost accounting: after Close the destination holds exactly the bits of the trace, i.e. the
   output length in bytes is the trace's bit length / 8 (every final element pads to a byte) *)
Definition cost_identity_statement : Prop :=
  forall sync level win4k h w flags, no_close h -> bytes_ok (hist_data h) ->
    hrun sync level win4k (h ++ [HClose]) = Some (w, flags) ->
    bits_of_bytes (run_bytes w) = trace_bits (run_trace w) [] /\
    (8 * length (run_bytes w) = length (trace_bits (run_trace w) []))%nat.

(* the bits of one dynamic block: header + the code words of its tokens + end of block *)
Definition tok_cost (lcodes dcodes : list (N * N)) (t : tok) : nat :=
  length (token_bits lcodes dcodes t).
Definition block_cost_statement : Prop :=
  forall ts last,
    let '(litlens, distlens) := block_lens ts in
    length (block_bits ts last)
      = (length (header_bits litlens distlens last)
         + fold_right (fun t acc => tok_cost (gen_codes litlens) (gen_codes distlens) t + acc) 0 ts
         + length (sym_word (gen_codes litlens) 256))%nat.

(* a dynamic header never exceeds 17 + 19*3 + 316*14 bits *)
Definition header_bound_statement : Prop :=
  forall litlens distlens final,
    length litlens = 286%nat -> length distlens = 30%nat ->
    Forall (fun x => x <= 15) litlens -> Forall (fun x => x <= 15) distlens ->
    lens_valid 7 (cl_hist litlens distlens) (generate 7 (cl_hist litlens distlens)) ->
    (length (header_bits litlens distlens final) <= 4498)%nat.

(* the periodic bound is false at acceleration level 0: a period-4 input whose 4-grams collide
   pairwise in the 12-bit hash of level 1 is coded without a single match *)
Fixpoint repeat_list (n : nat) (p : list N) : list N :=
  match n with O => [] | S k => p ++ repeat_list k p end.
Definition colliding_period : list N := [112; 4; 89; 197].

Definition periodic_refuted_statement : Prop :=
  let data := repeat_list 16384 colliding_period in
  exists w flags,
    hrun true 1%Z false [HWrite data; HClose] = Some (w, flags) /\
    lenN data = 65536 /\
    lenN data / 32 + 1200 < lenN (run_bytes w).
