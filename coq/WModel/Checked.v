(* Checked.v — the executable entry point used by the correspondence run: the writer model
   together with the run-time evaluation of the validity predicate `event_ok_b` on every event
   of every destination's ghost trace.  The codec theorems assume `event_ok` for the blocks of a
   history (the generated code lengths are not over-subscribed, within the limit, and cover
   every used symbol); this is where that assumption is evaluated, on the very blocks whose
   bytes are compared with the implementation.  One pass computes both the observations
   (same as Compressor.run_ops: lemma run_ops_checked_obs in proofs/) and the check. *)
From Coq Require Import ZArith.
From Verif Require Export CodecSpec.
Open Scope N_scope.

Fixpoint run_ops_checked (w : writer comp) (ops : list wop) (res : list (N * bool))
         (dests : list (list (list N))) (oob : bool) (ok : bool) (nev : N) : wobs * bool * N :=
  let here := dtrace (c_dest (wc comp w)) in
  match ops with
  | [] => (mkwobs (frev res) (frev (frev (dchunks (c_dest (wc comp w))) :: dests)) (oob || comp_oob (wc comp w)),
           ok && forallb event_ok_b here, nev + lenN here)
  | o :: r =>
    match o with
    | OWrite d =>
      match wwrite comp c_accumulate c_compress (S (length d)) w d with
      | None => (mkwobs (frev res) [] true, false, nev)
      | Some (w1, n, e) => run_ops_checked w1 r ((N.of_nat n, e) :: res) dests oob ok nev
      end
    | OFlush => let '(w1, e) := wflush comp c_flush w in run_ops_checked w1 r ((0, e) :: res) dests oob ok nev
    | OClose => let '(w1, e) := wclose comp c_close w in run_ops_checked w1 r ((0, e) :: res) dests oob ok nev
    | OReset =>
      run_ops_checked (wreset comp (c_reset_to None) w) r ((0, false) :: res)
                      (frev (dchunks (c_dest (wc comp w))) :: dests) (oob || comp_oob (wc comp w))
                      (ok && forallb event_ok_b here) (nev + lenN here)
    end
  end.

(* (observations, all events valid, number of events) *)
Definition wrun_checked (sync : bool) (level : Z) (win4k : bool) (fail : option N) (ops : list wop)
  : wobs * bool * N :=
  run_ops_checked (mkw comp (comp_new sync level win4k fail) ENone) ops [] [] false true 0.

(* the observations are those of Compressor.wrun *)
Lemma run_ops_checked_obs : forall ops w res dests oob ok nev,
  fst (fst (run_ops_checked w ops res dests oob ok nev)) = run_ops w ops res dests oob.
Proof.
  induction ops as [|o r IH]; intros w res dests oob ok nev; cbn [run_ops_checked run_ops].
  - reflexivity.
  - destruct o as [d| | |].
    + destruct (wwrite comp c_accumulate c_compress (S (length d)) w d) as [[[w1 n] e]|]; [apply IH|reflexivity].
    + destruct (wflush comp c_flush w) as [w1 e]. apply IH.
    + destruct (wclose comp c_close w) as [w1 e]. apply IH.
    + apply IH.
Qed.
Theorem wrun_checked_obs sync level win4k fail ops :
  fst (fst (wrun_checked sync level win4k fail ops)) = wrun sync level win4k fail ops.
Proof. apply run_ops_checked_obs. Qed.
