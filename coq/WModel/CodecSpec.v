(* CodecSpec.v — statements tying the writer model's encoder (Encode.v, Compressor.v) to the
   reference inflater (Spec/Inflate.v).  Statements only; proofs under proofs/.

   Layers:   A  bit buffer        : the bitbuf operations append bits (bb_bits)
             B  block rendering   : encode_block / hencode_block emit exactly block_bits
             C  header round trip : Spec.dyn_header parses header_bits back to the code lengths
             D  symbols round trip: Spec.symbols decodes token bits to the tokens' expansion
             G  trace decoding    : Spec.inflate on the bits of a complete trace = its data
             F1 stream rendering  : bytes received by the destination = bits of the ghost trace
             F2 trace content     : the trace of a history is complete, valid, and stands for the
                                    data written                                              *)
From Coq Require Import Lia.
From Verif Require Export Compressor LZ77Spec Inflate.
Open Scope N_scope.

(* ---------- validity of generated code lengths (evaluated at run time on every block) ---------- *)

(* lens: lengths produced for the histogram `counts`: every length <= maxl, not over-subscribed,
   and every symbol that occurs has a code *)
Definition lens_valid (maxl : nat) (counts lens : list N) : Prop :=
  length lens = length counts /\
  Forall (fun x => x <= N.of_nat maxl) lens /\
  oversubscribed maxl (map N.to_nat lens) = false /\
  (forall i, nthN counts i <> 0 -> nthN lens i <> 0).

Definition lens_valid_b (maxl : nat) (counts lens : list N) : bool :=
  Nat.eqb (length lens) (length counts) &&
  forallb (fun x => x <=? N.of_nat maxl) lens &&
  negb (oversubscribed maxl (map N.to_nat lens)) &&
  forallb (fun '(c, l) => (c =? 0) || negb (l =? 0)) (combine counts lens).

(* the code-length alphabet of a header, as write_header computes it *)
Definition cl_data (litlens distlens : list N) : list (N * N) :=
  let lit_num := used_count litlens in
  let dist_num0 := used_count distlens in
  let dl := if dist_num0 =? 0 then [1] else firstn (N.to_nat dist_num0) distlens in
  alphabet (firstn (N.to_nat lit_num) litlens) ++ alphabet dl.
Definition cl_hist (litlens distlens : list N) : list N :=
  fold_left (fun h it => incN h (fst it) 1) (cl_data litlens distlens) (repeat 0 19).

(* everything a dynamic block needs to be decodable *)
Definition block_ok (ts : list tok) : Prop :=
  let '(lc, dc) := tok_counts ts in
  let '(litlens, distlens) := block_lens ts in
  lens_valid 15 (reduce_counts lc) litlens /\ lens_valid 15 dc distlens /\
  lens_valid 7 (cl_hist litlens distlens) (generate 7 (cl_hist litlens distlens)).
Definition block_ok_b (ts : list tok) : bool :=
  let '(lc, dc) := tok_counts ts in
  let '(litlens, distlens) := block_lens ts in
  lens_valid_b 15 (reduce_counts lc) litlens && lens_valid_b 15 dc distlens &&
  lens_valid_b 7 (cl_hist litlens distlens) (generate 7 (cl_hist litlens distlens)).

Definition hblock_ok (data : list N) : Prop :=
  let lc := reduce_counts (fold_left (fun h x => incN h x 1) data (repeat 0 513)) in
  let litlens := hblock_lens data in
  lens_valid 15 lc litlens /\
  lens_valid 7 (cl_hist litlens (repeat 0 30)) (generate 7 (cl_hist litlens (repeat 0 30))).
Definition hblock_ok_b (data : list N) : bool :=
  let lc := reduce_counts (fold_left (fun h x => incN h x 1) data (repeat 0 513)) in
  let litlens := hblock_lens data in
  lens_valid_b 15 lc litlens &&
  lens_valid_b 7 (cl_hist litlens (repeat 0 30)) (generate 7 (cl_hist litlens (repeat 0 30))).

Definition event_ok (e : event) : Prop :=
  match e with EBlock ts _ => block_ok ts | EHBlock d _ => hblock_ok d /\ Forall (fun x => x < 256) d | _ => True end.
Definition event_ok_b (e : event) : bool :=
  match e with EBlock ts _ => block_ok_b ts | EHBlock d _ => hblock_ok_b d && forallb (fun x => x <? 256) d | _ => true end.

Definition lens_valid_b_sound_statement : Prop :=
  forall maxl counts lens, lens_valid_b maxl counts lens = true -> lens_valid maxl counts lens.
Definition event_ok_b_sound_statement : Prop :=
  forall e, event_ok_b e = true -> event_ok e.

(* ---------- A: bit buffer ---------- *)
Definition bb_inv (b : bitbuf) : Prop :=
  (length (bb_acc b) <= 64)%nat /\ Forall (fun x => x < 256) (bb_out b).

Definition bitbuf_statement : Prop :=
  (forall b l, bb_inv b -> (length l <= 64)%nat ->
     bb_inv (write_bits b l) /\ bb_bits (write_bits b l) = bb_bits b ++ l) /\
  (forall b, bb_inv b ->
     bb_inv (bb_sync b) /\ bb_bits (bb_sync b) = bb_bits b /\ (length (bb_acc (bb_sync b)) < 8)%nat) /\
  (forall b, bb_inv b ->
     bb_inv (bb_flush_last b) /\ bb_bits (bb_flush_last b) = pad8 (bb_bits b) /\ bb_acc (bb_flush_last b) = []) /\
  (forall b, bb_inv b ->
     bits_of_bytes (fst (bb_take b)) ++ bb_acc b = bb_bits b /\
     bb_out (snd (bb_take b)) = [] /\ bb_acc (snd (bb_take b)) = bb_acc b /\
     Forall (fun x => x < 256) (fst (bb_take b))) /\
  (forall final b, bb_inv b ->
     let b1 := bb_empty_block final b in
     bb_inv b1 /\ bb_acc b1 = [] /\
     bb_bits b1 = pad8 (bb_bits b ++ [final; false; false]) ++ marker_bytes).

(* ---------- B: block rendering ---------- *)
(* the chunks handed to the destination for one block, followed by what stays in the
   accumulator, are the bits carried in plus the bits of the block (padded when last) *)
(* a match distance has at most 64 extra bits (any distance <= 2^64; in particular every token
   valid for a DEFLATE window): without it a single write would exceed the 64-bit accumulator *)
Definition tok_fits (t : tok) : Prop :=
  match t with
  | TLit _ => True
  | TMatch _ dist => dist_extra_bits (fst (dist_symbol dist)) <= 64
  end.
Definition event_fits (e : event) : Prop :=
  match e with EBlock ts _ => Forall tok_fits ts | _ => True end.

Definition encode_block_statement : Prop :=
  forall sync ts last b, (length (bb_acc b) <= 64)%nat -> block_ok ts -> Forall tok_fits ts ->
    let '(chunks, b') := encode_block sync ts last b in
    bits_of_bytes (concat chunks) ++ bb_acc b'
      = (if last then pad8 (bb_acc b ++ block_bits ts last) else bb_acc b ++ block_bits ts last) /\
    bb_out b' = [] /\ (length (bb_acc b') <= 64)%nat /\ (last = true -> bb_acc b' = []) /\
    Forall (Forall (fun x => x < 256)) chunks.

Definition hencode_block_statement : Prop :=
  forall data final b, (length (bb_acc b) <= 64)%nat -> bb_out b = [] -> data <> [] ->
    hblock_ok data -> Forall (fun x => x < 256) data ->
    let '(chunks, b') := hencode_block data final b in
    bits_of_bytes (concat chunks) ++ bb_acc b'
      = (if final then pad8 (bb_acc b ++ hblock_bits data final) else bb_acc b ++ hblock_bits data final) /\
    bb_out b' = [] /\ (length (bb_acc b') <= 64)%nat /\ (final = true -> bb_acc b' = []) /\
    Forall (Forall (fun x => x < 256)) chunks.

(* ---------- C: header round trip ---------- *)
Definition trim (l : list N) : list N := firstn (N.to_nat (used_count l)) l.
Definition dist_lens_sent (distlens : list N) : list N :=
  if used_count distlens =? 0 then [1] else trim distlens.

Definition header_statement : Prop :=
  forall litlens distlens final rest p,
    length litlens = 286%nat -> length distlens = 30%nat ->
    Forall (fun x => x <= 15) litlens -> Forall (fun x => x <= 15) distlens ->
    oversubscribed 15 (map N.to_nat litlens) = false ->
    oversubscribed 15 (map N.to_nat distlens) = false ->
    nthN litlens 256 <> 0 ->
    lens_valid 7 (cl_hist litlens distlens) (generate 7 (cl_hist litlens distlens)) ->
    exists body lt dt,
      header_bits litlens distlens final = [final; false; true] ++ body /\
      mktrie 15 (map N.to_nat (trim litlens)) = Some lt /\
      mktrie 15 (map N.to_nat (dist_lens_sent distlens)) = Some dt /\
      dyn_header (mkbs (body ++ rest) p) = HOk (lt, dt) (mkbs rest (p + N.of_nat (length body))).

(* ---------- D: symbols round trip ---------- *)
(* (the premises `oavail st <= length (rout st)` and `olen st <= oavail st` below were added after the
   first versions of these statements were refuted in Coq: see the comments at the top of
   proofs/SymbolsProofs.v and proofs/RenderProofs.v) *)
(* what decoding a token does to the reference inflater's output state *)
Definition apply_tok (st : ostate) (t : tok) : ostate :=
  match t with TLit b => push b st | TMatch len dist => copy_match len dist st end.
Definition apply_toks (ts : list tok) (st : ostate) : ostate := fold_left apply_tok ts st.

(* every symbol the tokens use has a code in the length vectors *)
Definition tok_coded (litlens distlens : list N) (t : tok) : Prop :=
  match t with
  | TLit b => b < 256 /\ nthN litlens b <> 0
  | TMatch len dist =>
    nthN litlens (fst (fst (len_symbol len))) <> 0 /\ nthN distlens (fst (dist_symbol dist)) <> 0
  end.

Definition symbols_statement : Prop :=
  forall litlens distlens lt dt ts st rest p fuel,
    length litlens = 286%nat -> length distlens = 30%nat ->
    mktrie 15 (map N.to_nat (trim litlens)) = Some lt ->
    mktrie 15 (map N.to_nat (dist_lens_sent distlens)) = Some dt ->
    nthN litlens 256 <> 0 ->
    Forall (tok_coded litlens distlens) ts ->
    toks_ok 32768 (oavail st) ts ->
    oavail st <= N.of_nat (length (rout st)) ->
    (length ts < fuel)%nat ->
    let lcodes := gen_codes litlens in
    let dcodes := gen_codes distlens in
    let bits := flat_map (token_bits lcodes dcodes) ts ++ sym_word lcodes 256 in
    symbols fuel lt dt st (mkbs (bits ++ rest) p)
      = BEnd (apply_toks ts st) (mkbs rest (p + N.of_nat (length bits))).

(* apply_toks agrees with the writer-side expansion *)
Definition apply_toks_expand_statement : Prop :=
  forall ts st, toks_ok 32768 (oavail st) ts -> oavail st = N.of_nat (length (rout st)) ->
    olen st <= oavail st ->
    rout (apply_toks ts st) = expand_rev ts (rout st) /\
    oavail (apply_toks ts st) = N.of_nat (length (rout (apply_toks ts st))) /\
    olen (apply_toks ts st) + (oavail st - olen st) = oavail (apply_toks ts st) /\
    osyncs (apply_toks ts st) = osyncs st.

(* ---------- G: decoding a whole trace ---------- *)
(* tokens of every block valid where they stand (distance within what precedes), literals bytes *)
Fixpoint trace_toks_ok (W : N) (evs : list event) (before : N) : Prop :=
  match evs with
  | [] => True
  | EBlock ts _ :: r =>
    toks_ok W before ts /\ Forall (fun t => match t with TLit b => b < 256 | _ => True end) ts /\
    trace_toks_ok W r (before + sumN (map tok_len ts))
  | EHBlock d _ :: r => trace_toks_ok W r (before + lenN d)
  | _ :: r => trace_toks_ok W r before
  end.

Definition trace_decode_statement : Prop :=
  forall evs, trace_complete evs = true -> Forall event_ok evs -> trace_toks_ok 32768 evs 0 ->
    let stream := bytes_of_bits (trace_bits evs []) in
    let r := inflate [] stream in
    status r = Done /\ out r = trace_data evs /\ (bitpos r + 7) / 8 = N.of_nat (length stream).

(* a trace that ends with a sync marker: everything so far, then "need more input" *)
Definition trace_flush_statement : Prop :=
  forall evs, Forall (fun e => ev_final e = false) evs -> Forall event_ok evs ->
    trace_toks_ok 32768 (evs ++ [ESync]) 0 ->
    let stream := bytes_of_bits (trace_bits (evs ++ [ESync]) []) in
    let r := inflate [] stream in
    status r = NeedInput /\ out r = trace_data evs /\
    length (trace_bits (evs ++ [ESync]) []) = (8 * length stream)%nat.

(* ---------- F: histories ---------- *)
(* the operations of a history without Reset on a destination that never fails *)
Inductive hop := HWrite (d : list N) | HFlush | HClose.
Definition hop_op (h : hop) : wop := match h with HWrite d => OWrite d | HFlush => OFlush | HClose => OClose end.

Definition hist_data (h : list hop) : list N :=
  flat_map (fun o => match o with HWrite d => d | _ => [] end) h.

(* run a history from a fresh writer; None only if Writer.Write's loop bound were exceeded *)
Definition hrun (sync : bool) (level : Z) (win4k : bool) (h : list hop) : option (writer comp * list bool) :=
  WriterSM.wrun comp c_accumulate c_compress c_flush c_close (c_reset_to None)
                (S (length (hist_data h))) (mkw comp (comp_new sync level win4k None) ENone) (map hop_op h).

Definition run_bytes (w : writer comp) : list N := concat (rev (dchunks (c_dest (wc comp w)))).
Definition run_trace (w : writer comp) : list event := rev (dtrace (c_dest (wc comp w))).
Definition run_acc (w : writer comp) : list bool :=
  match wc comp w with CDyn d => bb_acc (dbb d) | CHuf h => bb_acc (hbb h) end.

Definition bytes_ok (l : list N) : Prop := Forall (fun x => x < 256) l.

(* F1: whatever the history, the bytes the destination has received followed by the bits still
   in the accumulator are the bits of the ghost trace; nothing failed *)
Definition stream_render_statement : Prop :=
  forall sync level win4k h w flags,
    bytes_ok (hist_data h) ->
    hrun sync level win4k h = Some (w, flags) ->
    Forall event_ok (run_trace w) -> Forall event_fits (run_trace w) ->
    bits_of_bytes (run_bytes w) ++ run_acc w = trace_bits (run_trace w) [] /\
    bytes_ok (run_bytes w).

(* F2: the trace of Writes and Flushes followed by one Close is complete, its tokens are valid
   with distances within the window, it stands for exactly the data written, no call failed, and
   the model never read out of bounds *)
Definition no_close (h : list hop) : Prop := Forall (fun o => o <> HClose) h.
Definition window_of (level : Z) (win4k : bool) : N := if win4k then 4096 else 32768.

Definition trace_content_statement : Prop :=
  forall sync level win4k h, no_close h -> bytes_ok (hist_data h) ->
    exists w flags,
      hrun sync level win4k (h ++ [HClose]) = Some (w, flags) /\
      Forall (fun e => e = false) flags /\ we comp w = EClosed /\
      comp_oob (wc comp w) = false /\
      trace_complete (run_trace w) = true /\
      trace_toks_ok (window_of level win4k) (run_trace w) 0 /\
      trace_data (run_trace w) = hist_data h.

(* F2': the same up to a Flush: all events non-final, ending with a sync marker *)
Definition trace_flush_content_statement : Prop :=
  forall sync level win4k h, no_close h -> bytes_ok (hist_data h) ->
    exists w flags evs,
      hrun sync level win4k (h ++ [HFlush]) = Some (w, flags) /\
      Forall (fun e => e = false) flags /\ we comp w = ENone /\
      run_trace w = evs ++ [ESync] /\ Forall (fun e => ev_final e = false) evs /\
      trace_toks_ok (window_of level win4k) (run_trace w) 0 /\
      trace_data (run_trace w) = hist_data h /\ run_acc w = [].
