(* Compressor.v — executable model of dynamic.go (dynCompressor), huffmanonly.go (huffmanOnly)
   and of the destination io.Writer, instantiating the abstract compressor of WriterSM.v.

   Destination: records every chunk it accepts; `dfail = Some k` makes the k-th call (counted
   from 1 over the life of this destination) and all later calls fail.

   dynCompressor state                         Coq
   buffer[:end]                                dbuf   (end = length)
   idx, processed                              didx, dproc
   lz77 table                                  dtable
   tokens                                      dtoks (newest first), dntok
   buf (BitBuf)                                dbb
   w                                           ddest                                        *)
From Coq Require Import ZArith.
From Verif Require Export Encode Trace WriterSM.
Open Scope N_scope.

Record dest := mkdest { dchunks : list (list N) (* newest first *); dcalls : N; dfail : option N;
                        dtrace : list event (* ghost: what the compressor meant to emit, newest first *) }.
Definition dest_new (fail : option N) : dest := mkdest [] 0 fail [].
Definition dest_event (d : dest) (e : event) : dest := mkdest (dchunks d) (dcalls d) (dfail d) (e :: dtrace d).

(* one io.Writer.Write call: (new destination, failed) *)
Definition dest_write (d : dest) (chunk : list N) : dest * bool :=
  let n := dcalls d + 1 in
  match dfail d with
  | Some k => if k <=? n then (mkdest (dchunks d) n (dfail d) (dtrace d), true)
              else (mkdest (chunk :: dchunks d) n (dfail d) (dtrace d), false)
  | None => (mkdest (chunk :: dchunks d) n (dfail d) (dtrace d), false)
  end.

(* write chunks in order, stopping at the first failure *)
Fixpoint dest_write_all (d : dest) (chunks : list (list N)) : dest * bool :=
  match chunks with
  | [] => (d, false)
  | c :: r => let '(d1, failed) := dest_write d c in
              if failed then (d1, true) else dest_write_all d1 r
  end.

Record dyn := mkdyn {
  dW : N; dmask : N; dsync : bool;
  dbuf : list N; didx : N; dproc : N;
  dtable : arr; dtoks : list tok; dntok : N;
  dbb : bitbuf; ddest : dest; doob : bool
}.

Definition max_token : N := 32767.

Definition dyn_new (W mask : N) (sync : bool) (d : dest) : dyn :=
  mkdyn W mask sync [] 0 0 aempty [] 0 bb_empty d false.

Definition dyn_cap (c : dyn) : N := 2 * dW c + 258.

(* Accumulate *)
Definition dyn_accumulate (c : dyn) (data : list N) : dyn * nat * bool :=
  let c1 :=
    if 2 * dW c <=? didx c then
      let off := didx c - dW c in
      mkdyn (dW c) (dmask c) (dsync c) (skipn (N.to_nat off) (dbuf c)) (didx c - off) (dproc c)
            (dtable c) (dtoks c) (dntok c) (dbb c) (ddest c) (doob c)
    else c in
  let room := N.to_nat (dyn_cap c1 - lenN (dbuf c1)) in
  let chunk := firstn room data in
  let c2 := mkdyn (dW c1) (dmask c1) (dsync c1) (dbuf c1 ++ chunk) (didx c1) (dproc c1)
                  (dtable c1) (dtoks c1) (dntok c1) (dbb c1) (ddest c1) (doob c1) in
  (c2, length chunk, negb (lenN (dbuf c2) <? dyn_cap c2)).

(* encodeBlock(last): emit the pending tokens as one dynamic block; clears them *)
Definition dyn_encode_block (c : dyn) (last : bool) : dyn * bool :=
  let '(chunks, bb) := encode_block (dsync c) (frev (dtoks c)) last (dbb c) in
  let '(d1, failed) := dest_write_all (dest_event (ddest c) (EBlock (frev (dtoks c)) last)) chunks in
  if failed
  then (mkdyn (dW c) (dmask c) (dsync c) (dbuf c) (didx c) (dproc c) (dtable c) (dtoks c) (dntok c) bb d1 (doob c), true)
  else (mkdyn (dW c) (dmask c) (dsync c) (dbuf c) (didx c) (dproc c) (dtable c) [] 0 bb d1 (doob c), false).

(* compressBlock(flush, final) after the `final && end == 0` shortcut *)
Fixpoint dyn_compress_loop (fuel : nat) (c : dyn) (flush final : bool) : dyn * bool :=
  match fuel with
  | O => (c, false)
  | S f =>
    let r := lz77 flush (dmask c) (dW c) (dbuf c) (dproc c) (didx c) (dtable c) (dtoks c) (dntok c) max_token in
    let c1 := mkdyn (dW c) (dmask c) (dsync c) (dbuf c) (lz_off r) (dproc c + (lz_off r - didx c))
                    (lz_table r) (lz_toks r) (lz_ntok r) (dbb c) (ddest c) (doob c || lz_oob r) in
    if (lz_ntok r <? max_token) && negb flush then (c1, false)
    else
      let at_end := didx c1 =? lenN (dbuf c1) in
      let '(c2, failed) := dyn_encode_block c1 (final && at_end) in
      if failed then (c2, true)
      else if at_end then (c2, false)
      else dyn_compress_loop f c2 flush final
  end.

Definition dyn_compress_block (c : dyn) (flush final : bool) : dyn * bool :=
  if final && (lenN (dbuf c) =? 0) then
    let '(chunk, bb) := bb_take (bb_empty_block true (dbb c)) in
    let '(d1, failed) := dest_write (dest_event (ddest c) EFinalEmpty) chunk in
    (mkdyn (dW c) (dmask c) (dsync c) (dbuf c) (didx c) (dproc c) (dtable c) (dtoks c) (dntok c) bb d1 (doob c), failed)
  else dyn_compress_loop (S (S (length (dbuf c)))) c flush final.

Definition dyn_flush (c : dyn) : dyn * bool :=
  let '(c1, failed) := dyn_compress_block c true false in
  if failed then (c1, true)
  else
    let '(chunk, bb) := bb_take (bb_empty_block false (dbb c1)) in
    let '(d1, failed1) := dest_write (dest_event (ddest c1) ESync) chunk in
    (mkdyn (dW c1) (dmask c1) (dsync c1) (dbuf c1) (didx c1) (dproc c1) (dtable c1) (dtoks c1) (dntok c1) bb d1 (doob c1), failed1).

Definition dyn_reset (c : dyn) (d : dest) : dyn := dyn_new (dW c) (dmask c) (dsync c) d.

(* ---- huffmanOnly ---- *)
Record huf := mkhuf { hbuf : list N; hbb : bitbuf; hdest : dest }.
Definition huf_new (d : dest) : huf := mkhuf [] bb_empty d.
Definition huf_max : N := 65536.

Definition huf_accumulate (h : huf) (data : list N) : huf * nat * bool :=
  let room := N.to_nat (huf_max - lenN (hbuf h)) in
  let chunk := firstn room data in
  let h1 := mkhuf (hbuf h ++ chunk) (hbb h) (hdest h) in
  (h1, length chunk, lenN (hbuf h1) =? huf_max).

Definition huf_encode_block (h : huf) (final : bool) : huf * bool :=
  match hbuf h with
  | [] =>
    if final then
      let '(chunk, bb) := bb_take (bb_empty_block true (hbb h)) in
      let '(d1, failed) := dest_write (dest_event (hdest h) EFinalEmpty) chunk in
      (mkhuf [] bb d1, failed)
    else (h, false)
  | _ =>
    let '(chunks, bb) := hencode_block (hbuf h) final (hbb h) in
    let '(d1, failed) := dest_write_all (dest_event (hdest h) (EHBlock (hbuf h) final)) chunks in
    if failed then (mkhuf (hbuf h) bb d1, true) else (mkhuf [] bb d1, false)
  end.

Definition huf_flush (h : huf) : huf * bool :=
  let '(h1, failed) := huf_encode_block h false in
  if failed then (h1, true)
  else
    let '(chunk, bb) := bb_take (bb_empty_block false (hbb h1)) in
    let '(d1, failed1) := dest_write (dest_event (hdest h1) ESync) chunk in
    (mkhuf (hbuf h1) bb d1, failed1).

(* ---- the two LevelCompressors as one type, plugged into writer.go's state machine ---- *)
Inductive comp := CDyn (c : dyn) | CHuf (h : huf).

Definition c_accumulate (c : comp) (data : list N) : comp * nat * bool :=
  match c with
  | CDyn d => let '(d1, n, t) := dyn_accumulate d data in (CDyn d1, n, t)
  | CHuf h => let '(h1, n, t) := huf_accumulate h data in (CHuf h1, n, t)
  end.
Definition c_compress (c : comp) : comp * bool :=
  match c with
  | CDyn d => let '(d1, f) := dyn_compress_block d false false in (CDyn d1, f)
  | CHuf h => let '(h1, f) := huf_encode_block h false in (CHuf h1, f)
  end.
Definition c_flush (c : comp) : comp * bool :=
  match c with
  | CDyn d => let '(d1, f) := dyn_flush d in (CDyn d1, f)
  | CHuf h => let '(h1, f) := huf_flush h in (CHuf h1, f)
  end.
Definition c_close (c : comp) : comp * bool :=
  match c with
  | CDyn d => let '(d1, f) := dyn_compress_block d true true in (CDyn d1, f)
  | CHuf h => let '(h1, f) := huf_encode_block h true in (CHuf h1, f)
  end.
Definition c_dest (c : comp) : dest := match c with CDyn d => ddest d | CHuf h => hdest h end.
Definition c_calls (c : comp) : nat := N.to_nat (dcalls (c_dest c)).

(* Reset(under): the new destination is healthy (fail = None) unless the caller says otherwise *)
Definition c_reset_to (fail : option N) (c : comp) : comp :=
  match c with
  | CDyn d => CDyn (dyn_reset d (dest_new fail))
  | CHuf h => CHuf (huf_new (dest_new fail))
  end.

(* settings: level in {1, 2, -1 (=2), -2 (Huffman only)}, window 4 KiB or 32 KiB.
   NewWriterwWith4KWindow sends every other level (3..9) to the level-2 match finder too. *)
Definition comp_new (sync : bool) (level : Z) (win4k : bool) (fail : option N) : comp :=
  if (level =? (-2))%Z then CHuf (huf_new (dest_new fail))
  else
    let W := if win4k then 4096 else 32768 in
    let mask := if (level =? 1)%Z then 4095 else 32767 in
    CDyn (dyn_new W mask sync (dest_new fail)).

(* ---- whole histories ---- *)

Record wobs := mkwobs { wres : list (N * bool) (* per op: n, error? *);
                        wdests : list (list (list N)) (* per destination: chunks, oldest first *);
                        woob : bool }.

Definition comp_oob (c : comp) : bool := match c with CDyn d => doob d | CHuf _ => false end.

Fixpoint run_ops (w : writer comp) (ops : list wop) (res : list (N * bool)) (dests : list (list (list N)))
         (oob : bool) : wobs :=
  match ops with
  | [] => mkwobs (frev res) (frev (frev (dchunks (c_dest (wc comp w))) :: dests)) (oob || comp_oob (wc comp w))
  | o :: r =>
    match o with
    | OWrite d =>
      match wwrite comp c_accumulate c_compress (S (length d)) w d with
      | None => mkwobs (frev res) [] true
      | Some (w1, n, e) => run_ops w1 r ((N.of_nat n, e) :: res) dests oob
      end
    | OFlush => let '(w1, e) := wflush comp c_flush w in run_ops w1 r ((0, e) :: res) dests oob
    | OClose => let '(w1, e) := wclose comp c_close w in run_ops w1 r ((0, e) :: res) dests oob
    | OReset =>
      let w1 := wreset comp (c_reset_to None) w in
      run_ops w1 r ((0, false) :: res) (frev (dchunks (c_dest (wc comp w))) :: dests)
              (oob || comp_oob (wc comp w))
    end
  end.

(* sync = true: the amd64 build (encode_amd64.go); false: the noasmtest / non-amd64 build *)
Definition wrun (sync : bool) (level : Z) (win4k : bool) (fail : option N) (ops : list wop) : wobs :=
  run_ops (mkw comp (comp_new sync level win4k fail) ENone) ops [] [] false.
