(* Trace.v — the abstract content of what a compressor emits: a sequence of events.  The
   compressors of Compressor.v record it as ghost state (it influences nothing); the theorems
   relate (i) the bytes handed to the destination to the bits of the trace and (ii) the trace
   to the data written. *)
From Verif Require Export Encode.
Open Scope N_scope.

Inductive event :=
| EBlock (ts : list tok) (last : bool)        (* dynCompressor.encodeBlock: tokens oldest first, without EOB *)
| EHBlock (data : list N) (final : bool)      (* huffmanOnly.encodeBlock on a non-empty buffer *)
| ESync                                       (* writeEmptyBlock: 000, pad, 00 00 ff ff *)
| EFinalEmpty.                                (* writeFinalEmptyBlock: 100, pad, 00 00 ff ff *)

(* all bits a bitbuf has taken in this round *)
Definition bb_bits (b : bitbuf) : list bool := bits_of_bytes (rev (bb_out b)) ++ bb_acc b.

Definition pad8 (l : list bool) : list bool :=
  l ++ repeat false ((8 - length l mod 8) mod 8)%nat.

(* code lengths and codes of a dynamic block, as encode_block computes them *)
Definition block_lens (ts : list tok) : list N * list N :=
  let '(lc, dc) := tok_counts ts in (generate 15 (reduce_counts lc), generate 15 dc).

Definition header_bits (litlens distlens : list N) (final : bool) : list bool :=
  bb_bits (write_header litlens distlens final bb_empty).

Definition token_bits (lcodes dcodes : list (N * N)) (t : tok) : list bool :=
  match t with
  | TLit x => sym_word lcodes x
  | TMatch len dist =>
    let '(ls, lb, lv) := len_symbol len in
    let '(ds, dv) := dist_symbol dist in
    sym_word lcodes ls ++ bits_of_N (N.to_nat lb) lv ++
    sym_word dcodes ds ++ bits_of_N (N.to_nat (dist_extra_bits ds)) dv
  end.

Definition block_bits (ts : list tok) (last : bool) : list bool :=
  let '(litlens, distlens) := block_lens ts in
  let lcodes := gen_codes litlens in
  let dcodes := gen_codes distlens in
  header_bits litlens distlens last ++ flat_map (token_bits lcodes dcodes) ts ++ sym_word lcodes 256.

Definition hblock_lens (data : list N) : list N :=
  generate 15 (reduce_counts (fold_left (fun h x => incN h x 1) data (repeat 0 513))).

Definition hblock_bits (data : list N) (final : bool) : list bool :=
  let litlens := hblock_lens data in
  let lcodes := gen_codes litlens in
  header_bits litlens (repeat 0 30) final ++ flat_map (sym_word lcodes) data ++ sym_word lcodes 256.

Definition marker_bytes : list bool := bits_of_bytes [0; 0; 255; 255].

(* the bit stream of a trace, given the bits before it; final blocks and markers pad to a byte *)
Fixpoint trace_bits (evs : list event) (sofar : list bool) : list bool :=
  match evs with
  | [] => sofar
  | EBlock ts last :: r =>
    let b := sofar ++ block_bits ts last in trace_bits r (if last then pad8 b else b)
  | EHBlock data final :: r =>
    let b := sofar ++ hblock_bits data final in trace_bits r (if final then pad8 b else b)
  | ESync :: r => trace_bits r (pad8 (sofar ++ [false; false; false]) ++ marker_bytes)
  | EFinalEmpty :: r => trace_bits r (pad8 (sofar ++ [true; false; false]) ++ marker_bytes)
  end.

(* the data a trace stands for: blocks expand on top of what came before *)
Fixpoint trace_data_rev (evs : list event) (hist_rev : list N) : list N :=
  match evs with
  | [] => hist_rev
  | EBlock ts _ :: r => trace_data_rev r (expand_rev ts hist_rev)
  | EHBlock data _ :: r => trace_data_rev r (rev_append data hist_rev)
  | _ :: r => trace_data_rev r hist_rev
  end.
Definition trace_data (evs : list event) : list N := rev (trace_data_rev evs []).

(* well-formed complete stream: exactly one final element, at the end *)
Definition ev_final (e : event) : bool :=
  match e with EBlock _ l => l | EHBlock _ f => f | ESync => false | EFinalEmpty => true end.
Fixpoint trace_complete (evs : list event) : bool :=
  match evs with
  | [] => false
  | [e] => ev_final e
  | e :: r => negb (ev_final e) && trace_complete r
  end.
