(* Oracle.v — the dynCompressor model with the match finder replaced by an oracle: at the
   accelerated levels (cpu.ArchLevel 1..4) the match finder is assembly
   (lz77Asm{4k,32k}L{12,15}V1 followed by a pure-Go tail) which is not modelled.  Through the
   `verif` hook the harness records every call of `lz77compressor.generate` (its arguments, the
   offset it returns, the tokens it adds).  Here the compressor of Compressor.v is re-run with
   those answers in place of calls to the model's lz77:

     - the model must make exactly the recorded calls, with the recorded arguments
       (flush, len(input), processed, offset, pending token count): any difference is `o_mismatch`;
     - every recorded answer is checked against the match-finder contract (`call_ok_b`: tokens
       valid where they stand, distance within the window, decoding on top of the buffer prefix
       to exactly input[offset, nOffset), offsets in range): any failure clears `o_contract`;
     - everything else (Accumulate, sliding, block cutting at 32767 pending tokens, code lengths,
       header, packing, framing) is the model of Compressor.v/Encode.v, so the bytes of the
       implementation must equal the bytes of this run.

   The pending-token count is the number of *packed* tokens (the assembly packs two literals
   into one token), recorded separately from the expanded token list. *)
From Coq Require Import ZArith.
From Verif Require Export CodecSpec.
Open Scope N_scope.

Record lzcall := mkcall {
  k_flush : bool; k_len : N; k_proc : N; k_off : N; k_ntok0 : N;     (* recorded arguments *)
  k_noff : N; k_new : list tok (* oldest first, pairs expanded *); k_ntok : N   (* recorded results *)
}.

(* ---- the contract of one call, as a boolean (sound: proofs/OracleProofs.v) ---- *)
Definition tok_ok_b (W before : N) (t : tok) : bool :=
  match t with
  | TLit b => b <? 256
  | TMatch len dist => (3 <=? len) && (len <=? 258) && (1 <=? dist) && (dist <=? W) && (dist <=? before)
  end.
Fixpoint toks_ok_b (W before : N) (ts : list tok) : bool :=
  match ts with
  | [] => true
  | t :: r => tok_ok_b W before t && toks_ok_b W (before + tok_len t) r
  end.
(* the bytes a[p, p+n) and a[q, q+n) agree *)
Fixpoint range_eqb (a : arr) (p q : N) (n : nat) : bool :=
  match n with
  | O => true
  | S k => (aget a p =? aget a q) && range_eqb a (p + 1) (q + 1) k
  end.

(* the tokens (oldest first) are valid where they stand and cover the input from pos on: a literal
   equals the byte at its position, a match repeats the bytes `dist` back (overlap allowed);
   result: the position after the last token.  Equivalent to decoding them on top of the prefix
   (expand_rev): proofs/OracleProofs.v *)
Fixpoint toks_cover_b (a : arr) (W : N) (pos : N) (ts : list tok) : option N :=
  match ts with
  | [] => Some pos
  | TLit b :: r => if (b <? 256) && (aget a pos =? b) then toks_cover_b a W (pos + 1) r else None
  | TMatch len dist :: r =>
    if (3 <=? len) && (len <=? 258) && (1 <=? dist) && (dist <=? W) && (dist <=? pos)
       && range_eqb a (pos - dist) pos (N.to_nat len)
    then toks_cover_b a W (pos + len) r else None
  end.

Definition call_ok_b (W : N) (input : list N) (k : lzcall) : bool :=
  (k_off k <=? k_noff k) && (k_noff k <=? lenN input) &&
  match toks_cover_b (arr_of_list input) W (k_off k) (k_new k) with
  | Some e => e =? k_noff k
  | None => false
  end &&
  (k_ntok0 k <=? k_ntok k) && (k_ntok k <=? k_ntok0 k + lenN (k_new k)).

(* what the boolean stands for *)
Definition call_ok (W : N) (input : list N) (k : lzcall) : Prop :=
  k_off k <= k_noff k /\ k_noff k <= lenN input /\
  toks_ok W (k_off k) (k_new k) /\
  Forall (fun t => match t with TLit b => b < 256 | _ => True end) (k_new k) /\
  expand_rev (k_new k) (rev (firstn (N.to_nat (k_off k)) input)) = rev (firstn (N.to_nat (k_noff k)) input).
Definition call_ok_b_sound_statement : Prop :=
  forall W input k, call_ok_b W input k = true -> call_ok W input k.

Record odyn := mkodyn { od : dyn; o_ans : list lzcall; o_mismatch : bool; o_contract : bool; o_calls : N }.

Definition olift (o : odyn) (c : dyn) : odyn := mkodyn c (o_ans o) (o_mismatch o) (o_contract o) (o_calls o).

Fixpoint odyn_compress_loop (fuel : nat) (o : odyn) (flush final : bool) : odyn * bool :=
  match fuel with
  | O => (mkodyn (od o) (o_ans o) true (o_contract o) (o_calls o), false)
  | S f =>
    let c := od o in
    match o_ans o with
    | [] => (mkodyn c [] true (o_contract o) (o_calls o), false)          (* the code made no such call *)
    | k :: rest =>
      let args_ok := Bool.eqb flush (k_flush k) && (k_len k =? lenN (dbuf c)) && (k_proc k =? dproc c)
                     && (k_off k =? didx c) && (k_ntok0 k =? dntok c) in
      let good := call_ok_b (dW c) (dbuf c) k in
      let c1 := mkdyn (dW c) (dmask c) (dsync c) (dbuf c) (k_noff k) (dproc c + (k_noff k - didx c))
                      (dtable c) (rev (k_new k) ++ dtoks c) (k_ntok k) (dbb c) (ddest c) (doob c) in
      let o1 := mkodyn c1 rest (o_mismatch o || negb args_ok) (o_contract o && good) (o_calls o + 1) in
      if (k_ntok k <? max_token) && negb flush then (o1, false)
      else
        let at_end := didx c1 =? lenN (dbuf c1) in
        let '(c2, failed) := dyn_encode_block c1 (final && at_end) in
        let o2 := olift o1 c2 in
        if failed then (o2, true)
        else if at_end then (o2, false)
        else odyn_compress_loop f o2 flush final
    end
  end.

Definition odyn_compress_block (o : odyn) (flush final : bool) : odyn * bool :=
  let c := od o in
  if final && (lenN (dbuf c) =? 0) then
    let '(c1, failed) := dyn_compress_block c flush final in (olift o c1, failed)
  else odyn_compress_loop (S (S (length (dbuf c)))) o flush final.

Definition odyn_flush (o : odyn) : odyn * bool :=
  let '(o1, failed) := odyn_compress_block o true false in
  if failed then (o1, true)
  else
    let c1 := od o1 in
    let '(chunk, bb) := bb_take (bb_empty_block false (dbb c1)) in
    let '(d1, failed1) := dest_write (dest_event (ddest c1) ESync) chunk in
    (olift o1 (mkdyn (dW c1) (dmask c1) (dsync c1) (dbuf c1) (didx c1) (dproc c1) (dtable c1) (dtoks c1) (dntok c1) bb d1 (doob c1)), failed1).

(* plugged into writer.go's state machine *)
Definition o_accumulate (o : odyn) (data : list N) : odyn * nat * bool :=
  let '(c1, n, t) := dyn_accumulate (od o) data in (olift o c1, n, t).
Definition o_compress (o : odyn) : odyn * bool := odyn_compress_block o false false.
Definition o_close (o : odyn) : odyn * bool := odyn_compress_block o true true.
Definition o_reset (o : odyn) : odyn := olift o (dyn_reset (od o) (dest_new None)).

Record oobs := mkoobs { o_res : list (N * bool); o_dests : list (list N) (* bytes per destination *);
                        o_mis : bool; o_con : bool; o_ncalls : N; o_left : N; o_events_ok : bool }.

Fixpoint orun_ops (w : writer odyn) (ops : list wop) (res : list (N * bool)) (dests : list (list N)) (evok : bool) : oobs :=
  let c := od (wc odyn w) in
  let here := concat (frev (dchunks (ddest c))) in
  let hok := forallb event_ok_b (dtrace (ddest c)) in
  match ops with
  | [] => mkoobs (frev res) (frev (here :: dests)) (o_mismatch (wc odyn w)) (o_contract (wc odyn w))
                 (o_calls (wc odyn w)) (lenN (o_ans (wc odyn w))) (evok && hok)
  | o :: r =>
    match o with
    | OWrite d =>
      match wwrite odyn o_accumulate o_compress (S (length d)) w d with
      | None => mkoobs (frev res) [] true false 0 0 false
      | Some (w1, n, e) => orun_ops w1 r ((N.of_nat n, e) :: res) dests evok
      end
    | OFlush => let '(w1, e) := wflush odyn odyn_flush w in orun_ops w1 r ((0, e) :: res) dests evok
    | OClose => let '(w1, e) := wclose odyn o_close w in orun_ops w1 r ((0, e) :: res) dests evok
    | OReset => orun_ops (wreset odyn o_reset w) r ((0, false) :: res) (here :: dests) (evok && hok)
    end
  end.

(* level in {1, 2, -1} (dynCompressor settings only); answers = the recorded calls in order *)
Definition orun (sync : bool) (level : Z) (win4k : bool) (answers : list lzcall) (ops : list wop) : oobs :=
  let W := if win4k then 4096 else 32768 in
  let mask := if (level =? 1)%Z then 4095 else 32767 in
  orun_ops (mkw odyn (mkodyn (dyn_new W mask sync (dest_new None)) answers false true 0) ENone) ops [] [] true.
