(* C16 — property theorems.  Model: WModel/{LZ77,Codes,Encode,Compressor,WriterSM}.v — the pure-Go writer (acceleration level 0), compared byte for byte with the implementation on every run; the assembly levels are tied to it by the run-time contract checks (DESIGN.md 4.3).  Panics are run-time observations.
   Only statements, each closed by `exact`, followed by Print Assumptions. *)
From Verif Require Import FinalSpec WriterTheorems WriterStateProofs TraceContent ContainerWSpec ContainerWProofs.
Open Scope N_scope.

(* every finite sequence of Write, Flush, Close, Reset on a healthy destination runs to the end and
   each call returns an error exactly when compress/flate's Writer (std_run: open/closed) does *)
Theorem C16_call_sequences : call_sequences_statement.
Proof. exact WriterStateProofs.call_sequences. Qed.
Print Assumptions C16_call_sequences.

(* after a successful Close the writer state, destination included, never changes until Reset *)
Theorem C16_closed_emits_nothing : closed_emits_nothing_statement.
Proof. exact WriterStateProofs.closed_emits_nothing. Qed.
Print Assumptions C16_closed_emits_nothing.
(* the bytes up to the first successful Close form a complete stream of the data: C01 *)

(* gzip and zlib Writers: a repeated Close returns nil and changes nothing *)
Theorem C16_container_close_idempotent : cw_close_idempotent_statement.
Proof. exact cw_close_idempotent. Qed.
Print Assumptions C16_container_close_idempotent.
