(* C16 — property theorems (bootstrap stage; see DESIGN.md section 6). *)
From Verif Require Import WriterSM.
Definition C16_closed_is_absorbing := @closed_is_absorbing.
Print Assumptions C16_closed_is_absorbing.
Definition C16_close_ok_closes := @close_ok_closes.
Print Assumptions C16_close_ok_closes.
