(* C15 — property theorems.  Model: RModel/Reader.v.
   Only statements, each closed by `exact`, followed by Print Assumptions. *)
From Verif Require Import Reader ReaderProofs InflateMono.
Open Scope N_scope.

(* the source fails before the stream is complete: exactly that error, after a prefix of the data *)
Theorem C15_source_error_reported : forall dict chunks e,
  status (inflate dict (concat chunks)) = NeedInput ->
  rerror (rrun dict chunks (TErr e)) = RSrc e /\
  is_prefix (rbytes (rrun dict chunks (TErr e))) (out (inflate dict (concat chunks))).
Proof. exact (source_error_reported inflate_mono inflate_never_fuel). Qed.
Print Assumptions C15_source_error_reported.

Theorem C15_prefix_of_full_output : forall dict chunks term more,
  is_prefix (rbytes (rrun dict chunks term)) (out (inflate dict (concat chunks ++ more))).
Proof. exact (bytes_are_reference_prefix inflate_mono inflate_never_fuel). Qed.
Print Assumptions C15_prefix_of_full_output.
