(* C15 — property theorems.  Model: RModel/Reader.v.
   Only statements, each closed by `exact`, followed by Print Assumptions. *)
From Verif Require Import Reader ReaderProofs InflateMono.
Open Scope N_scope.

(* the source fails before the stream is complete: exactly that error, after a prefix of the data *)
Theorem C15_source_error_reported : forall dict chunks e,
  status (inflate dict (concat chunks)) = NeedInput ->
  rerror (rrun dict chunks (TErr e)) = RSrc e /\
  is_prefix (rbytes (rrun dict chunks (TErr e))) (out (inflate dict (concat chunks))).
Proof. exact (source_error_reported inflate_mono inflate_never_fuel). Qed.
Print Assumptions C15_source_error_reported.

Theorem C15_prefix_of_full_output : forall dict chunks term more,
  is_prefix (rbytes (rrun dict chunks term)) (out (inflate dict (concat chunks ++ more))).
Proof. exact (bytes_are_reference_prefix inflate_mono inflate_never_fuel). Qed.
Print Assumptions C15_prefix_of_full_output.

(* ---- on the faithful engine model (RModel/Engine.v), by erun_sound: whatever the source does after
   its bytes (t = TErr: it fails), the bytes handed out are a prefix of the reference output of the
   delivered bytes and of any continuation of them, and no io.EOF is reported unless the delivered
   bytes already hold a complete stream. *)
From Verif Require Import Engine EngineRefineSpecTop EngineRefineFinal EngineCorollaries.
Theorem C15_engine_prefix_of_full_output : forall data more cs bufsize reads,
  bytes_ok data -> cut_of cs data ->
  is_prefix (results_bytes (fst (erun_ext bufsize cs Engine.TErr reads))) (out (Inflate.inflate [] (data ++ more))).
Proof. intros data more cs bufsize reads Hb Hc. exact (engine_bytes_are_prefix_of_any_extension data more cs bufsize Engine.TErr reads Hb Hc). Qed.
Print Assumptions C15_engine_prefix_of_full_output.
Theorem C15_engine_no_false_eof : forall data cs bufsize reads,
  bytes_ok data -> cut_of cs data -> status (Inflate.inflate [] data) <> Done ->
  ~ In REOF (map snd (fst (erun_ext bufsize cs Engine.TErr reads))).
Proof. intros data cs bufsize reads Hb Hc Hs. exact (engine_no_eof_on_truncated_or_corrupt data cs bufsize Engine.TErr reads Hb Hc Hs). Qed.
Print Assumptions C15_engine_no_false_eof.
