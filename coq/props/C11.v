(* C11 — property theorems.  Model: RModel/Reader.v.  Real blocking is observed with gated sources (DESIGN.md 6).
   Only statements, each closed by `exact`, followed by Print Assumptions. *)
From Verif Require Import Reader ReaderProofs InflateMono.
Open Scope N_scope.

(* once everything up to the end of the stream has been delivered the run ends without another
   source delivery, whatever the source would do next *)
Theorem C11_no_further_input_needed : forall dict chunks term k,
  status (inflate dict (concat (firstn k chunks))) = Done ->
  (rused (rrun dict chunks term) <= k)%nat /\
  rconsumed (rrun dict chunks term) = (bitpos (inflate dict (concat (firstn k chunks))) + 7) / 8.
Proof. exact (complete_stream_needs_no_more_input inflate_mono inflate_never_fuel). Qed.
Print Assumptions C11_no_further_input_needed.

Theorem C11_terminal_irrelevant : forall dict chunks t1 t2,
  status (inflate dict (concat chunks)) <> NeedInput ->
  rbytes (rrun dict chunks t1) = rbytes (rrun dict chunks t2) /\
  rerror (rrun dict chunks t1) = rerror (rrun dict chunks t2).
Proof. exact (terminal_irrelevant_when_decided inflate_mono inflate_never_fuel). Qed.
Print Assumptions C11_terminal_irrelevant.

(* what is decodable from the first k deliveries (in particular all data before a sync point
   they contain) is a prefix of the final output: it never depends on later deliveries *)
Theorem C11_delivered_prefix_is_decoded : forall dict chunks k,
  is_prefix (out (inflate dict (concat (firstn k chunks)))) (out (inflate dict (concat chunks))).
Proof. exact (delivered_prefix_is_decoded inflate_mono inflate_never_fuel). Qed.
Print Assumptions C11_delivered_prefix_is_decoded.
