(* C11 — property theorems.  Model: RModel/Reader.v.  Real blocking is observed with gated sources (DESIGN.md 6).
   Only statements, each closed by `exact`, followed by Print Assumptions. *)
From Verif Require Import Reader ReaderProofs InflateMono.
Open Scope N_scope.

(* once everything up to the end of the stream has been delivered the run ends without another
   source delivery, whatever the source would do next *)
Theorem C11_no_further_input_needed : forall dict chunks term k,
  status (inflate dict (concat (firstn k chunks))) = Done ->
  (rused (rrun dict chunks term) <= k)%nat /\
  rconsumed (rrun dict chunks term) = (bitpos (inflate dict (concat (firstn k chunks))) + 7) / 8.
Proof. exact (complete_stream_needs_no_more_input inflate_mono inflate_never_fuel). Qed.
Print Assumptions C11_no_further_input_needed.

Theorem C11_terminal_irrelevant : forall dict chunks t1 t2,
  status (inflate dict (concat chunks)) <> NeedInput ->
  rbytes (rrun dict chunks t1) = rbytes (rrun dict chunks t2) /\
  rerror (rrun dict chunks t1) = rerror (rrun dict chunks t2).
Proof. exact (terminal_irrelevant_when_decided inflate_mono inflate_never_fuel). Qed.
Print Assumptions C11_terminal_irrelevant.

(* what is decodable from the first k deliveries (in particular all data before a sync point
   they contain) is a prefix of the final output: it never depends on later deliveries *)
Theorem C11_delivered_prefix_is_decoded : forall dict chunks k,
  is_prefix (out (inflate dict (concat (firstn k chunks)))) (out (inflate dict (concat chunks))).
Proof. exact (delivered_prefix_is_decoded inflate_mono inflate_never_fuel). Qed.
Print Assumptions C11_delivered_prefix_is_decoded.

(* ---- on the engine model (proofs/EngineTop.v, from erun_kinds3): when the source has delivered `data`
   and then ends or fails, the Reads have handed out everything the reference inflater decodes from
   `data` except at most its last 2 bytes before the Read that reports the source's state -- and a
   complete stream ends in io.EOF whatever the source does afterwards (t is arbitrary in
   C02_engine_valid_stream_decoded).  The 2 bytes are real: the literals at the front of one
   multi-symbol table entry whose last symbol is incomplete are rolled back (known finding F-C04);
   at a sync-flush point the entry is complete and nothing is withheld, which the run-time check
   establishes on the implementation.  So the property's "all the data encoded before that point" is a
   theorem up to 2 bytes for arbitrary cut points (partial), and the exact statement at flush points
   rests on the correspondence. *)
From Verif Require Import Engine EngineRefineSpecTop EngineCorollaries EngineSafetyBuf EngineCompleteSpecC EngineTop.
Theorem C11_engine_progress_partial : forall data cs bufsize t reads,
  bytes_ok data -> cut_of cs data -> in_model_bounds bufsize cs -> enough_reads data reads ->
  let l := fst (erun_ext bufsize cs t reads) in
  (snd (last l ([], ROk)) = RUnexpectedEOF \/ snd (last l ([], ROk)) = RSrcErr) ->
  exists z, out (Inflate.inflate [] data) = results_bytes l ++ z /\ (length z <= 2)%nat.
Proof. exact engine_progress. Qed.
Print Assumptions C11_engine_progress_partial.
