(* C14 — property theorems.  Model: WModel/{LZ77,Codes,Encode,Compressor,WriterSM}.v — the pure-Go writer (acceleration level 0), compared byte for byte with the implementation on every run; the assembly levels are tied to it by the run-time contract checks (DESIGN.md 4.3).  Stores by assembly outside the buffers are observed at run time (crash detection), not proved.
   Only statements, each closed by `exact`, followed by Print Assumptions. *)
From Verif Require Import FinalSpec WriterTheorems WriterStateProofs TraceContent.
Open Scope N_scope.

(* (a) a destination failure makes the operation in progress fail and sets the error *)
Theorem C14_failed_call_sets_error : forall fuel (w : writer comp) o w',
  we comp w = ENone -> not_reset o ->
  wstep comp c_accumulate c_compress c_flush c_close (c_reset_to None) fuel w o = Some (w', true) ->
  we comp w' = EDest.
Proof. exact (step_failed_sets_error comp c_accumulate c_compress c_flush c_close (c_reset_to None)). Qed.
Print Assumptions C14_failed_call_sets_error.

(* (b) until Reset every later call fails and the writer -- destination included -- is untouched *)
Theorem C14_fault_sticky : fault_sticky_statement.
Proof. exact WriterStateProofs.fault_sticky. Qed.
Print Assumptions C14_fault_sticky.

(* (c) the model never indexes its input out of bounds, in any reachable state *)
Theorem C14_no_out_of_bounds : no_oob_statement.
Proof. exact TraceContent.no_oob. Qed.
Print Assumptions C14_no_out_of_bounds.

(* (d) a healthy destination never makes an operation fail; then C01 gives the complete stream *)
Theorem C14_healthy_no_error : healthy_no_error_statement.
Proof. exact WriterStateProofs.healthy_no_error. Qed.
Print Assumptions C14_healthy_no_error.
