(* C14 — property theorems (bootstrap stage; see DESIGN.md section 6). *)
From Verif Require Import WriterSM.
Definition C14_sticky_error := @sticky_error.
Print Assumptions C14_sticky_error.
Definition C14_no_destination_call_after_error := @sticky_error_no_destination_call.
Print Assumptions C14_no_destination_call_after_error.
Definition C14_failed_call_sets_error := @step_failed_sets_error.
Print Assumptions C14_failed_call_sets_error.
