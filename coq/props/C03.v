(* C03 — property theorems.  Model: RModel/Reader.v.  Panics and hangs of the real code are run-time observations (DESIGN.md 6).
   Only statements, each closed by `exact`, followed by Print Assumptions. *)
From Verif Require Import Reader ReaderProofs InflateMono.
Open Scope N_scope.

(* io.EOF only if the input really begins with a complete stream, and then the bytes are its output *)
Theorem C03_eof_only_if_complete : forall dict chunks term,
  rerror (rrun dict chunks term) = REOF ->
  status (inflate dict (concat chunks)) = Done /\ rbytes (rrun dict chunks term) = out (inflate dict (concat chunks)).
Proof. exact (eof_only_if_complete inflate_mono inflate_never_fuel). Qed.
Print Assumptions C03_eof_only_if_complete.

(* nothing fabricated: whatever was handed out before any error is a prefix of what the reference
   inflater produces from the same input, and from any extension of it *)
Theorem C03_bytes_are_reference_prefix : forall dict chunks term more,
  is_prefix (rbytes (rrun dict chunks term)) (out (inflate dict (concat chunks ++ more))).
Proof. exact (bytes_are_reference_prefix inflate_mono inflate_never_fuel). Qed.
Print Assumptions C03_bytes_are_reference_prefix.

(* a valid stream cut short ends in io.ErrUnexpectedEOF *)
Theorem C03_truncated_is_unexpected_eof : forall dict s rest chunks,
  status (inflate dict (s ++ rest)) = Done -> status (inflate dict s) = NeedInput ->
  concat chunks = s -> rerror (rrun dict chunks TEOF) = RUnexpectedEOF.
Proof. exact (truncated_is_unexpected_eof inflate_mono inflate_never_fuel). Qed.
Print Assumptions C03_truncated_is_unexpected_eof.

(* the verdict is a total function of the input: the reference inflater never runs out of fuel,
   and a corrupt prefix stays corrupt whatever follows *)
Theorem C03_total : forall dict s, status (inflate dict s) <> Fuel.
Proof. exact inflate_never_fuel. Qed.
Print Assumptions C03_total.
Theorem C03_corrupt_is_final : forall dict s t, status (inflate dict s) = Corrupt ->
  status (inflate dict (s ++ t)) = Corrupt /\ out (inflate dict (s ++ t)) = out (inflate dict s)
  /\ bitpos (inflate dict (s ++ t)) = bitpos (inflate dict s).
Proof. exact (corrupt_stable inflate_mono). Qed.
Print Assumptions C03_corrupt_is_final.

(* ---- the same on the faithful engine model (RModel/Engine.v: the Go decoder, bufio, Read/step as
   written), by refinement to the reference inflater (proofs/EngineRefine*.v, erun_sound).  For every
   byte list, every cut into non-empty deliveries, every bufio size, either terminal and every list
   of Read sizes: what the Reads hand out is a prefix of the reference output (nothing fabricated);
   io.EOF is reported only if the reference says Done, and then everything has been handed out;
   on a truncated or corrupt input no Read ever reports io.EOF. *)
From Verif Require Import Engine EngineRefineSpecTop EngineRefineFinal EngineCorollaries.
Theorem C03_engine_sound : forall data cs bufsize t reads,
    Forall (fun x => x < 256) data -> concat cs = data -> Forall (fun c => c <> []) cs ->
    let '(l, ncons) := erun_ext bufsize cs t reads in
    is_prefix (results_bytes l) (out (Inflate.inflate [] data)) /\
    (In REOF (map snd l) ->
       status (Inflate.inflate [] data) = Done /\
       results_bytes l = out (Inflate.inflate [] data) /\
       ncons = (bitpos (Inflate.inflate [] data) + 7) / 8) /\
    (status (Inflate.inflate [] data) <> Done -> ~ In REOF (map snd l)).
Proof. exact erun_sound. Qed.
Print Assumptions C03_engine_sound.
Theorem C03_engine_bytes_are_prefix_of_any_extension : forall data more cs bufsize t reads,
  bytes_ok data -> cut_of cs data ->
  is_prefix (results_bytes (fst (erun_ext bufsize cs t reads))) (out (Inflate.inflate [] (data ++ more))).
Proof. exact engine_bytes_are_prefix_of_any_extension. Qed.
Print Assumptions C03_engine_bytes_are_prefix_of_any_extension.
Theorem C03_engine_no_eof_on_truncated_or_corrupt : forall data cs bufsize t reads,
  bytes_ok data -> cut_of cs data -> status (Inflate.inflate [] data) <> Done ->
  ~ In REOF (map snd (fst (erun_ext bufsize cs t reads))).
Proof. exact engine_no_eof_on_truncated_or_corrupt. Qed.
Print Assumptions C03_engine_no_eof_on_truncated_or_corrupt.
(* the stream that the implementation reported as a clean io.EOF before fix b29ee69 (found when this
   proof could not be closed) *)
Theorem C03_engine_trunc_regression : EngineRefineSpecFinal.trunc_stream_regression_statement.
Proof. exact trunc_stream_regression. Qed.
Print Assumptions C03_engine_trunc_regression.

(* ---- the engine never panics and never gets stuck (proofs/EngineSafety*.v, erun_safe): every
   data-dependent Go bounds check, slice expression and shift of inflate.go, header.go, huffcode.go,
   decode.go, reader.go and bufio is an explicit RPanic in the model, every loop carries fuel (RStuck);
   for every input of bytes, every schedule, terminal and list of Read sizes neither is ever returned
   (within the bounds under which the model's fuel is adequate). *)
From Verif Require Import EngineSafetyBuf EngineSafetyFinal EngineCompleteSpecB EngineCompleteSpecC EngineTop.
Theorem C03_engine_no_panic : forall bufsize chunks term reads,
    bufsize <= 90000 -> src_total chunks <= 262141 ->
    Forall (Forall (fun b => b < 256)) chunks ->
    Forall (fun br => snd br <> RPanic /\ snd br <> RStuck) (erun bufsize chunks term reads).
Proof. exact erun_safe. Qed.
Print Assumptions C03_engine_no_panic.
(* the verdict: with enough Reads the run ends in exactly one of io.EOF / io.ErrUnexpectedEOF / the
   source's error / CorruptInputError; io.EOF iff the reference says Done (on strict streams); a stream
   the reference calls corrupt ends in CorruptInputError; unexpected EOF and the source's error are
   reported only for input the reference calls incomplete, according to how the source ended *)
Theorem C03_engine_verdict : forall data cs bufsize t reads,
  bytes_ok data -> cut_of cs data -> in_model_bounds bufsize cs -> enough_reads data reads ->
  let l := fst (erun_ext bufsize cs t reads) in
  exists bytes r, last l ([], ROk) = (bytes, r) /\ l <> [] /\
    (r = REOF \/ r = RUnexpectedEOF \/ r = RSrcErr \/ exists o, r = RCorrupt o) /\
    (status (Inflate.inflate [] data) = Done -> strict data -> r = REOF) /\
    (r = REOF -> status (Inflate.inflate [] data) = Done) /\
    (status (Inflate.inflate [] data) = Corrupt -> exists o, r = RCorrupt o) /\
    (r = RUnexpectedEOF -> t = TEOF /\ status (Inflate.inflate [] data) = NeedInput) /\
    (r = RSrcErr -> t = TErr /\ status (Inflate.inflate [] data) = NeedInput) /\
    (r = RUnexpectedEOF \/ r = RSrcErr ->
       exists z, out (Inflate.inflate [] data) = results_bytes l ++ z /\ (length z <= 2)%nat).
Proof. exact engine_verdict. Qed.
Print Assumptions C03_engine_verdict.

(* ---- the gzip and zlib Readers on top of the engine (RModel/GzEngine.v) never panic or stall either:
   header parsing, trailer reads and the shared buffer included (proofs/GzEngineTop3.v) *)
From Verif Require Import GzEngine GzEngineSpec GzEngineSpec3 GzEngineTop3.
Theorem C03_gz_reader_no_panic : gz_safe_statement.
Proof. exact gz_safe. Qed.
Print Assumptions C03_gz_reader_no_panic.
Theorem C03_zl_reader_no_panic : zl_safe_statement.
Proof. exact zl_safe. Qed.
Print Assumptions C03_zl_reader_no_panic.
