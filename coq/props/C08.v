(* C08 — property theorems.  Model: RModel/Containers.v (RFC 1952 / RFC 1950 framing with Go's rules, CRC-32 and Adler-32 written out) over the reference inflater; compared with fastgo's gzip/zlib Readers and with the standard library's on every run.
   Only statements, each closed by `exact`, followed by Print Assumptions. *)
From Verif Require Import ContainersSpec ContainersProofs InflateMono.
Open Scope N_scope.

(* any non-empty list of members written back to back: the concatenation of the payloads, all the
   headers in order, then io.EOF *)
Theorem C08_gz_concat : forall ms, ms <> [] -> Forall member_ok ms ->
  gz_read true (members_bytes ms)
    = mkgres (concat (map (fun m => snd m) ms)) CEOF [] (map (fun m => fst (fst m)) ms) false.
Proof. exact (gz_concat inflate_mono). Qed.
Print Assumptions C08_gz_concat.

(* Multistream(false): one member, and the source is left exactly after its trailer whatever
   follows (the next member, or data that is not gzip) *)
Theorem C08_gz_member_by_member : forall m rest, member_ok m ->
  gz_read false (member_bytes m ++ rest) = mkgres (snd m) CEOF rest [fst (fst m)] false.
Proof. exact (gz_member_by_member inflate_mono). Qed.
Print Assumptions C08_gz_member_by_member.

(* ---- on the faithful model of the gzip reader (RModel/GzEngine.v): in the default mode the Reads hand
   out the concatenated payloads of all members (C06_gz_reader_sound with multi = true: the payload
   of Containers.gz_read true); member by member -- Multistream(false), Reads to io.EOF, Reset onto the
   SAME bufio.Reader, Multistream(false) -- the second phase reads exactly the member that follows,
   and the buffer is left at the first byte after it; no byte beyond a trailer is consumed. *)
From Verif Require Import Engine EngineCorollaries GzEngine GzEngineSpec GzEngineSpec2 GzEngineTop.
Theorem C08_gz_reader_walk : gz_walk_statement.
Proof. exact gz_walk. Qed.
Print Assumptions C08_gz_reader_walk.
Theorem C08_gz_reader_consumed : gz_consumed_statement.
Proof. exact gz_consumed. Qed.
Print Assumptions C08_gz_reader_consumed.
