(* C12 — property theorems (bootstrap stage; see DESIGN.md section 6). *)
From Verif Require Import WriterSM.
Definition C12_reset_clears_error := @reset_clears.
Print Assumptions C12_reset_clears_error.
