(* C12 — property theorems.  Model: WModel/{LZ77,Codes,Encode,Compressor,WriterSM}.v — the pure-Go writer (acceleration level 0), compared byte for byte with the implementation on every run; the assembly levels are tied to it by the run-time contract checks (DESIGN.md 4.3).
   Only statements, each closed by `exact`, followed by Print Assumptions. *)
From Verif Require Import FinalSpec WriterTheorems WriterStateProofs TraceContent.
Open Scope N_scope.

(* whatever happened before (any operations, any destination fault, earlier Resets), Reset yields
   exactly the state of a new writer with the same setting on the new destination: every later
   observation is therefore that of a fresh writer *)
Theorem C12_reset_is_new : reset_is_new_statement.
Proof. exact WriterStateProofs.reset_is_new. Qed.
Print Assumptions C12_reset_is_new.
