(* C07 — property theorems (bootstrap stage; see DESIGN.md section 6). *)
From Verif Require Import Inflate.
Theorem C07_spec_inflater_runs : status (inflate [] [3;0]) = Done /\ out (inflate [] [3;0]) = [].
Proof. vm_compute. split; reflexivity. Qed.
Print Assumptions C07_spec_inflater_runs.
