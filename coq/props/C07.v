(* C07 — property theorems.  Model: RModel/Containers.v (RFC 1952 / RFC 1950 framing with Go's rules, CRC-32 and Adler-32 written out) over the reference inflater; compared with fastgo's gzip/zlib Readers and with the standard library's on every run.
   Only statements, each closed by `exact`, followed by Print Assumptions. *)
From Verif Require Import ContainersSpec ContainersProofs InflateMono.
Open Scope N_scope.

(* io.EOF only if every member read has a trailer equal to (CRC-32, length) of the bytes handed out *)
Theorem C07_gz_eof_checked : gz_eof_checked_statement.
Proof. exact gz_eof_checked. Qed.
Print Assumptions C07_gz_eof_checked.

Theorem C07_zl_eof_checked : zl_eof_checked_statement.
Proof. exact zl_eof_checked. Qed.
Print Assumptions C07_zl_eof_checked.

(* a member cut short: nothing but a prefix of the payload, then io.ErrUnexpectedEOF (the empty
   input is io.EOF: a shorter valid file) *)
Theorem C07_gz_truncated : forall h body payload k, ghdr_ok h -> body_for body payload ->
  let whole := gz_member h body payload in
  (k < length whole)%nat ->
  let r := gz_read true (firstn k whole) in
  is_prefix (g_payload r) payload /\ (g_err r = CUnexpectedEOF \/ (k = 0%nat /\ g_err r = CEOF)).
Proof. exact (gz_payload_prefix inflate_mono inflate_never_fuel). Qed.
Print Assumptions C07_gz_truncated.
