(* C07 — property theorems.  Model: RModel/Containers.v (RFC 1952 / RFC 1950 framing with Go's rules, CRC-32 and Adler-32 written out) over the reference inflater; compared with fastgo's gzip/zlib Readers and with the standard library's on every run.
   Only statements, each closed by `exact`, followed by Print Assumptions. *)
From Verif Require Import ContainersSpec ContainersProofs InflateMono.
Open Scope N_scope.

(* io.EOF only if every member read has a trailer equal to (CRC-32, length) of the bytes handed out *)
Theorem C07_gz_eof_checked : gz_eof_checked_statement.
Proof. exact gz_eof_checked. Qed.
Print Assumptions C07_gz_eof_checked.

Theorem C07_zl_eof_checked : zl_eof_checked_statement.
Proof. exact zl_eof_checked. Qed.
Print Assumptions C07_zl_eof_checked.

(* a member cut short: nothing but a prefix of the payload, then io.ErrUnexpectedEOF (the empty
   input is io.EOF: a shorter valid file) *)
Theorem C07_gz_truncated : forall h body payload k, ghdr_ok h -> body_for body payload ->
  let whole := gz_member h body payload in
  (k < length whole)%nat ->
  let r := gz_read true (firstn k whole) in
  is_prefix (g_payload r) payload /\ (g_err r = CUnexpectedEOF \/ (k = 0%nat /\ g_err r = CEOF)).
Proof. exact (gz_payload_prefix inflate_mono inflate_never_fuel). Qed.
Print Assumptions C07_gz_truncated.

(* ---- on the faithful model of the gzip/zlib readers (RModel/GzEngine.v): io.EOF implies that every
   member's CRC-32 and ISIZE match what was handed out (Containers.gz_stream); a proper prefix of a
   valid member never ends in io.EOF, in either Multistream mode, and what it hands out is a prefix of
   the payload; after any error every further Read returns that error and no bytes. *)
From Verif Require Import Engine EngineCorollaries GzEngine GzEngineSpec GzEngineBuf GzEngineTop.
Theorem C07_gz_reader_eof_checked : gz_eof_checked_eng_statement.
Proof. exact gz_eof_checked_eng. Qed.
Print Assumptions C07_gz_reader_eof_checked.
Theorem C07_gz_reader_truncated : gz_truncated_eng_statement.
Proof. exact gz_truncated_eng. Qed.
Print Assumptions C07_gz_reader_truncated.
Theorem C07_gz_reader_truncated_single : gz_truncated_eng_single_statement.
Proof. exact gz_truncated_eng_single. Qed.
Print Assumptions C07_gz_reader_truncated_single.
Theorem C07_gz_reader_sticky : gz_sticky_statement.
Proof. exact gz_sticky. Qed.
Print Assumptions C07_gz_reader_sticky.
Theorem C07_zl_reader_sticky : zl_sticky_statement.
Proof. exact zl_sticky. Qed.
Print Assumptions C07_zl_reader_sticky.
