(* C04 — property theorems.  Model: RModel/Reader.v.  For truncated streams the implementation may hold back a tail the model delivers (finding F-C04); the error kind is exact.
   Only statements, each closed by `exact`, followed by Print Assumptions. *)
From Verif Require Import Reader ReaderProofs InflateMono.
Open Scope N_scope.

(* valid, truncated or malformed: bytes and final error depend only on the concatenated source
   content, not on how it is cut into deliveries *)
Theorem C04_schedule_independent : forall dict chunks1 chunks2 term,
  concat chunks1 = concat chunks2 ->
  rbytes (rrun dict chunks1 term) = rbytes (rrun dict chunks2 term) /\
  rerror (rrun dict chunks1 term) = rerror (rrun dict chunks2 term).
Proof. exact (schedule_independent inflate_mono inflate_never_fuel). Qed.
Print Assumptions C04_schedule_independent.

Theorem C04_run_is_function_of_content : forall dict chunks term,
  (rbytes (rrun dict chunks term), rerror (rrun dict chunks term)) = final_obs dict (concat chunks) term.
Proof. exact (rrun_spec inflate_mono inflate_never_fuel). Qed.
Print Assumptions C04_run_is_function_of_content.

Theorem C04_read_sizes_irrelevant : forall sizes l, concat (split_reads l sizes) = l.
Proof. exact split_reads_concat. Qed.
Print Assumptions C04_read_sizes_irrelevant.

(* ---- on the faithful engine model (RModel/Engine.v), by erun_sound: two runs over the same content
   with any two delivery schedules, buffer sizes, terminals and Read-size sequences hand out
   comparable bytes (one a prefix of the other); when both reach io.EOF they handed out the same bytes
   and took the same number of bytes from the source.  (Partial: that both runs reach io.EOF, or stop
   with the same error, is proved for the specification-level reader above, not yet for the engine.) *)
From Verif Require Import Engine EngineRefineSpecTop EngineRefineFinal EngineCorollaries.
Theorem C04_engine_schedule_independent_partial : forall data cs1 cs2 b1 b2 t1 t2 reads1 reads2,
  bytes_ok data -> cut_of cs1 data -> cut_of cs2 data ->
  let r1 := erun_ext b1 cs1 t1 reads1 in
  let r2 := erun_ext b2 cs2 t2 reads2 in
  (is_prefix (results_bytes (fst r1)) (results_bytes (fst r2)) \/
   is_prefix (results_bytes (fst r2)) (results_bytes (fst r1))) /\
  (In REOF (map snd (fst r1)) -> In REOF (map snd (fst r2)) ->
   results_bytes (fst r1) = results_bytes (fst r2) /\ snd r1 = snd r2).
Proof. exact engine_schedule_independent. Qed.
Print Assumptions C04_engine_schedule_independent_partial.

(* ---- full statement on the engine model for complete standard streams (proofs/EngineTop.v): any two
   schedules, buffer sizes, terminals and sufficient Read-size lists give the same bytes, io.EOF in
   both runs and the same consumption. *)
From Verif Require Import EngineSafetyBuf EngineCompleteSpecC EngineCompleteSpecG EngineTop.
Theorem C04_engine_schedule_independent : forall data cs1 cs2 b1 b2 t1 t2 reads1 reads2,
  bytes_ok data -> cut_of cs1 data -> cut_of cs2 data ->
  in_model_bounds b1 cs1 -> in_model_bounds b2 cs2 ->
  status (Inflate.inflate [] data) = Done -> std_stream data ->
  enough_reads data reads1 -> enough_reads data reads2 ->
  results_bytes (fst (erun_ext b1 cs1 t1 reads1)) = results_bytes (fst (erun_ext b2 cs2 t2 reads2)) /\
  snd (erun_ext b1 cs1 t1 reads1) = snd (erun_ext b2 cs2 t2 reads2) /\
  In REOF (map snd (fst (erun_ext b1 cs1 t1 reads1))) /\ In REOF (map snd (fst (erun_ext b2 cs2 t2 reads2))).
Proof. exact engine_schedule_independent_full. Qed.
Print Assumptions C04_engine_schedule_independent.
