(* C04 — property theorems.  Model: RModel/Reader.v.  For truncated streams the implementation may hold back a tail the model delivers (finding F-C04); the error kind is exact.
   Only statements, each closed by `exact`, followed by Print Assumptions. *)
From Verif Require Import Reader ReaderProofs InflateMono.
Open Scope N_scope.

(* valid, truncated or malformed: bytes and final error depend only on the concatenated source
   content, not on how it is cut into deliveries *)
Theorem C04_schedule_independent : forall dict chunks1 chunks2 term,
  concat chunks1 = concat chunks2 ->
  rbytes (rrun dict chunks1 term) = rbytes (rrun dict chunks2 term) /\
  rerror (rrun dict chunks1 term) = rerror (rrun dict chunks2 term).
Proof. exact (schedule_independent inflate_mono inflate_never_fuel). Qed.
Print Assumptions C04_schedule_independent.

Theorem C04_run_is_function_of_content : forall dict chunks term,
  (rbytes (rrun dict chunks term), rerror (rrun dict chunks term)) = final_obs dict (concat chunks) term.
Proof. exact (rrun_spec inflate_mono inflate_never_fuel). Qed.
Print Assumptions C04_run_is_function_of_content.

Theorem C04_read_sizes_irrelevant : forall sizes l, concat (split_reads l sizes) = l.
Proof. exact split_reads_concat. Qed.
Print Assumptions C04_read_sizes_irrelevant.
