(* C17 — property theorems.  Model: WModel/Conc.v (instances as values; a call may read the
   package-level state and cannot return a new one) + the computed fact, regenerated from /repo's
   source on every run, that no package-level variable is written outside package initialisation.
   Data races through assembly, unsafe stores and the Go memory model are outside any Gallina model:
   they are observed by the stress runs (with and without the race detector).
   Only statements, each closed by `exact`, followed by Print Assumptions. *)
From Coq Require Import List Arith.
From Verif Require Import Conc GeneratedFacts.

(* whatever the interleaving of calls on distinct instances, each instance ends in the state and
   returns the results of its solo run *)
Theorem C17_schedule_independent : forall (G inst op out : Type) (istep : G -> inst -> op -> inst * out)
    (g : G) (sched : list (nat * op)) (s : sys inst) (i : nat),
  fst (run G inst op out istep g s sched) i = fst (solo G inst op out istep g (s i) (proj i sched)) /\
  proj i (snd (run G inst op out istep g s sched)) = snd (solo G inst op out istep g (s i) (proj i sched)).
Proof. exact schedule_independent. Qed.
Print Assumptions C17_schedule_independent.

(* the hypothesis of that model, as a fact about the source *)
Theorem C17_globals_only_written_in_init : forallb use_ok Globals.global_uses = true.
Proof. exact globals_only_written_in_init. Qed.
Print Assumptions C17_globals_only_written_in_init.
