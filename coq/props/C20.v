(* C20 — property theorems.  PARTIAL by design: the byte bounds of C20 (n + n/32 + 256 for every
   input; n/32 + 1200 for inputs of period <= 64 and n >= 64 KiB) need a bound on the redundancy of the
   generated Huffman codes, which is not proved; they are measured on every run (also on reused
   writers).  Proved on the faithful writer model: exact cost accounting, a bound on the dynamic
   header, and that the periodic bound is FALSE at acceleration level 0 for a period whose 4-grams
   collide in the 12-bit hash (known finding F-C20; the assembly match finders use a different hash).
   Only statements, each closed by `exact`, followed by Print Assumptions. *)
From Coq Require Import ZArith.
From Verif Require Import C20Spec C20Proofs.
Open Scope N_scope.

(* the full statements of C20, kept visible: not proved *)
Definition C20_expansion_statement : Prop :=
  forall sync level win4k data w flags, bytes_ok data ->
    hrun sync level win4k [HWrite data; HClose] = Some (w, flags) ->
    lenN (run_bytes w) <= lenN data + lenN data / 32 + 256.
Definition C20_periodic_statement : Prop :=
  forall sync level win4k period k w flags, (level = 1 \/ level = 2 \/ level = (-1))%Z ->
    bytes_ok period -> (0 < length period <= 64)%nat -> 65536 <= lenN (repeat_list k period) ->
    hrun sync level win4k [HWrite (repeat_list k period); HClose] = Some (w, flags) ->
    lenN (run_bytes w) <= lenN (repeat_list k period) / 32 + 1200.

(* the output is exactly the bits of the blocks emitted: 8 * bytes = bits of the trace *)
Theorem C20_cost_identity : cost_identity_statement.
Proof. exact cost_identity. Qed.
Print Assumptions C20_cost_identity.

(* a block costs its header + the code words of its tokens + the end-of-block code *)
Theorem C20_block_cost : block_cost_statement.
Proof. exact block_cost. Qed.
Print Assumptions C20_block_cost.

(* a dynamic header never exceeds 4498 bits *)
Theorem C20_header_bound : header_bound_statement.
Proof. exact header_bound. Qed.
Print Assumptions C20_header_bound.

(* the periodic bound is refuted on the model of the pure-Go match finder: 65536 bytes of period
   [112; 4; 89; 197] at level 1 become 18465 bytes > 65536/32 + 1200 = 3248 *)
Theorem C20_periodic_refuted : periodic_refuted_statement.
Proof. exact periodic_refuted. Qed.
Print Assumptions C20_periodic_refuted.

Corollary C20_periodic_statement_false : ~ C20_periodic_statement.
Proof.
  intros H. destruct periodic_refuted as (w & flags & Hrun & Hlen & Hbig).
  specialize (H true 1%Z false colliding_period 16384%nat w flags (or_introl eq_refl)).
  assert (Hb : bytes_ok colliding_period) by (repeat constructor).
  assert (Hp : (0 < length colliding_period <= 64)%nat) by (cbn; split; repeat constructor).
  assert (H64 : 65536 <= lenN (repeat_list 16384 colliding_period)) by (rewrite Hlen; apply N.le_refl).
  specialize (H Hb Hp H64 Hrun). apply N.lt_nge in Hbig. exact (Hbig H).
Qed.
Print Assumptions C20_periodic_statement_false.
