(* C13 — property theorems.  Model: RModel/Reader.v: the Reader's state and Reset.
   Only statements, each closed by `exact`, followed by Print Assumptions. *)
From Verif Require Import Reader ReaderProofs InflateMono.
Open Scope N_scope.

Theorem C13_reset_is_new : forall s : rstate, rs_reset s = rs_init.
Proof. exact reset_is_new. Qed.
Print Assumptions C13_reset_is_new.
(* consequently a run after Reset is the run of a new Reader: it is a function of the new source only *)
Theorem C13_run_after_reset : forall dict chunks term,
  (rbytes (rrun dict chunks term), rerror (rrun dict chunks term)) = final_obs dict (concat chunks) term.
Proof. exact (rrun_spec inflate_mono inflate_never_fuel). Qed.
Print Assumptions C13_run_after_reset.
