(* C13 — property theorems.  Model: RModel/Reader.v: the Reader's state and Reset.
   Only statements, each closed by `exact`, followed by Print Assumptions. *)
From Verif Require Import Reader ReaderProofs InflateMono.
Open Scope N_scope.

Theorem C13_reset_is_new : forall s : rstate, rs_reset s = rs_init.
Proof. exact reset_is_new. Qed.
Print Assumptions C13_reset_is_new.
(* consequently a run after Reset is the run of a new Reader: it is a function of the new source only *)
Theorem C13_run_after_reset : forall dict chunks term,
  (rbytes (rrun dict chunks term), rerror (rrun dict chunks term)) = final_obs dict (concat chunks) term.
Proof. exact (rrun_spec inflate_mono inflate_never_fuel). Qed.
Print Assumptions C13_run_after_reset.

(* ---- the same property on the faithful engine model (RModel/Engine.v + EngineReset.v: the Go
   decoder's state with every table, the 64 KiB+ window, bufio, Read/step, and Reset as reader.go
   writes it -- which clears only part of that state).  Whatever happened before Reset (stream
   valid, truncated, corrupt or abandoned anywhere; any buffer size, delivery schedule and Read
   sizes), the observations of every Read after Reset and the number of bytes taken from the new
   source are those of a new Reader on that source. *)
From Verif Require Import Engine EngineReset EngineResetSpec EngineResetProofs.
Theorem C13_engine_reset_equiv :
  forall (bufsize1 : N) (chunks1 : list (list N)) (term1 : terminal) (reads1 : list N)
         (bufsize2 : N) (chunks2 : list (list N)) (term2 : terminal) (reads2 : list N),
    let '(_, l2, n2) := erun2 bufsize1 chunks1 term1 reads1 bufsize2 chunks2 term2 reads2 in
    (l2, n2) = erun_ext bufsize2 chunks2 term2 reads2.
Proof. exact reset_equiv. Qed.
Print Assumptions C13_engine_reset_equiv.
(* the line-protocol entry points the correspondence run evaluates *)
Theorem C13_engine_reset_equiv_obs :
  forall (bufsize1 : N) (chunks1 : list (list N)) (term1 : bool) (reads1 : list N)
         (bufsize2 : N) (chunks2 : list (list N)) (term2 : bool) (reads2 : list N),
    let '(_, l2, n2) := erun2_obs bufsize1 chunks1 term1 reads1 bufsize2 chunks2 term2 reads2 in
    (l2, n2) = erun_obs bufsize2 chunks2 term2 reads2.
Proof. exact reset_equiv_obs. Qed.
Print Assumptions C13_engine_reset_equiv_obs.
