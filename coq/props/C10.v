(* C10 — property theorems.  Model: WModel/{LZ77,Codes,Encode,Compressor,WriterSM}.v — the pure-Go writer (acceleration level 0), compared byte for byte with the implementation on every run; the assembly levels are tied to it by the run-time contract checks (DESIGN.md 4.3).
   Only statements, each closed by `exact`, followed by Print Assumptions. *)
From Verif Require Import OracleSpec WriterTheorems WriterStateProofs TraceContent Unconditional OracleProofs.
Open Scope N_scope.

(* after any Writes and Flushes, a Flush returns nil and leaves whole bytes at the destination (nothing
   stays in the bit accumulator) which the reference inflater decodes to all the data written so far,
   then asks for more input (no corruption); premise as in C01 *)
Theorem C10_flush : C10_statement.
Proof. exact WriterTheorems.C10_flush. Qed.
Print Assumptions C10_flush.
(* "writing more and closing later keeps the stream valid" is C01 for the longer history *)

Theorem C10_unconditional : C10_unconditional_statement.
Proof. exact Unconditional.C10_unconditional. Qed.
Print Assumptions C10_unconditional.

Theorem C10_any_match_finder : oracle_C10_statement.
Proof. exact OracleProofs.oracle_C10. Qed.
Print Assumptions C10_any_match_finder.
