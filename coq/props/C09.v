(* C09 — property theorems.  Model: WModel/{LZ77,Codes,Encode,Compressor,WriterSM}.v — the pure-Go writer (acceleration level 0), compared byte for byte with the implementation on every run; the assembly levels are tied to it by the run-time contract checks (DESIGN.md 4.3).
   Only statements, each closed by `exact`, followed by Print Assumptions. *)
From Verif Require Import FinalSpec WriterTheorems WriterStateProofs TraceContent.
Open Scope N_scope.

(* two histories with the same normal form (adjacent Writes merged, empty Writes dropped; Flush and
   Close positions fixed) end in the same writer state -- in particular the destination has received
   the same bytes in the same chunks *)
Theorem C09_partition : C09_statement.
Proof. exact WriterTheorems.C09_partition. Qed.
Print Assumptions C09_partition.

Theorem C09_write_split : write_split_statement.
Proof. exact WriterStateProofs.write_split. Qed.
Print Assumptions C09_write_split.

Theorem C09_write_empty : write_empty_statement.
Proof. exact WriterStateProofs.write_empty. Qed.
Print Assumptions C09_write_empty.
