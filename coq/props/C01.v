(* C01 — property theorems.  Model: WModel/{LZ77,Codes,Encode,Compressor,WriterSM}.v — the pure-Go writer (acceleration level 0), compared byte for byte with the implementation on every run; the assembly levels are tied to it by the run-time contract checks (DESIGN.md 4.3).
   Only statements, each closed by `exact`, followed by Print Assumptions. *)
From Coq Require Import ZArith.
From Verif Require Import OracleSpec WriterTheorems WriterStateProofs TraceContent Unconditional OracleProofs GenerateProofs.
Open Scope N_scope.

(* Writes and Flushes in any order and any partition, then Close, at any accelerated setting (level
   1, 2, -1, -2, either window; `sync` selects the amd64 or the portable packer): every call returns
   nil, the model never reads out of bounds, and -- given that the generated code lengths of every
   block form a valid prefix code (event_ok_b, a decidable fact evaluated on every block of every
   run: Checked.v) -- the bytes received by the destination are one complete DEFLATE stream which the
   reference inflater decodes to exactly the data written, ending at the last byte. *)
Theorem C01_roundtrip : C01_statement.
Proof. exact WriterTheorems.C01_roundtrip. Qed.
Print Assumptions C01_roundtrip.

(* The premise is in fact always true: the code-length generator (Moffat-Katajainen lengths + the
   length limiter, Codes.generate) yields a valid prefix code for every histogram ... *)
Theorem C01_generator_valid : generate_valid_statement.
Proof. exact GenerateProofs.generate_valid. Qed.
Print Assumptions C01_generator_valid.

(* ... so the round trip holds with no premise at all on the model of the pure-Go writer *)
Theorem C01_unconditional : C01_unconditional_statement.
Proof. exact Unconditional.C01_unconditional. Qed.
Print Assumptions C01_unconditional.

(* and for ANY match finder (the assembly ones in particular): if the run made exactly the
   recorded match-finder calls and each answer passed the contract check call_ok_b -- both evaluated
   by the correspondence run at every accelerated level -- the same conclusion holds *)
Theorem C01_any_match_finder : oracle_C01_statement.
Proof. exact OracleProofs.oracle_C01. Qed.
Print Assumptions C01_any_match_finder.

(* the decidable premise is sound for the Prop it stands for *)
Theorem C01_event_ok_b_sound : event_ok_b_sound_statement.
Proof. exact RenderProofs.event_ok_b_sound. Qed.
Print Assumptions C01_event_ok_b_sound.

(* non-vacuity: a concrete history satisfies the premise and the conclusion *)
Example C01_example :
  match hrun true 1%Z false [HWrite [104;101;108;108;111;32;104;101;108;108;111;32;104;101;108;108;111]; HFlush; HWrite [33]; HClose] with
  | Some (w, flags) => forallb event_ok_b (run_trace w) = true /\ status (inflate [] (run_bytes w)) = Done
  | None => False
  end.
Proof. vm_compute. split; reflexivity. Qed.
