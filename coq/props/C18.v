(* C18 — property theorems.  The accelerated levels replace three routines by assembly: the match
   finder (levels >= 1), the token/byte packers (levels 3, 4) and the decode loop (levels 3, 4).  The
   writer theorems are proved for ANY match finder whose answers pass the contract check
   (Oracle.v); the run-time correspondence evaluates that check on every recorded call, re-runs the
   model with the recorded answers and compares the bytes with the implementation's (which also
   covers the assembly packers).  The decode loop is compared with the reader model and across
   levels case by case.  Assembly itself is not modelled (DESIGN.md 9).
   Only statements, each closed by `exact`, followed by Print Assumptions. *)
From Verif Require Import OracleSpec OracleProofs.
Open Scope N_scope.

Theorem C18_contract_check_sound : call_ok_b_sound_statement.
Proof. exact OracleProofs.call_ok_b_sound. Qed.
Print Assumptions C18_contract_check_sound.

Theorem C18_roundtrip_any_match_finder : oracle_C01_statement.
Proof. exact OracleProofs.oracle_C01. Qed.
Print Assumptions C18_roundtrip_any_match_finder.

Theorem C18_flush_any_match_finder : oracle_C10_statement.
Proof. exact OracleProofs.oracle_C10. Qed.
Print Assumptions C18_flush_any_match_finder.

(* the generalisation is conservative: with the model's own match finder as the oracle the run is
   the model's run *)
Theorem C18_oracle_refines : oracle_refines_statement.
Proof. exact OracleProofs.oracle_refines. Qed.
Print Assumptions C18_oracle_refines.
