(* C19 — property theorems.  Model: WModel/LZ77.v (the Go match finder).  The assembly match finders are checked against the same contract at run time.
   Only statements, each closed by `exact`, followed by Print Assumptions. *)
From Verif Require Import LZ77Spec LZ77Proofs.
Open Scope N_scope.

(* every call of the match finder, for every table content and input: the new tokens are valid
   where they stand, with distance <= W (4096 or 32768) and <= the bytes before them, and decode
   to exactly the input they cover *)
Theorem C19_match_finder_contract : lz77_ok_statement.
Proof. exact lz77_ok. Qed.
Print Assumptions C19_match_finder_contract.

Theorem C19_no_out_of_bounds : lz77_no_oob_statement.
Proof. exact lz77_no_oob. Qed.
Print Assumptions C19_no_out_of_bounds.

(* the window bound read off the contract *)
Lemma toks_ok_dist W : forall ts before, toks_ok W before ts ->
  Forall (fun t => match t with TMatch _ d => d <= W | TLit _ => True end) ts.
Proof.
  induction ts as [|t r IH]; intros before H; [constructor|].
  destruct H as [Ht Hr]. constructor; [|exact (IH _ Hr)].
  destruct t as [b|len d]; [exact I|]. cbn in Ht. tauto.
Qed.
Theorem C19_window : forall flush mask W input processed offset table toks ntok maxToken,
  offset <= lenN input ->
  let r := lz77 flush mask W input processed offset table toks ntok maxToken in
  lz_oob r = false ->
  exists new_rev, lz_toks r = new_rev ++ toks /\
    Forall (fun t => match t with TMatch _ d => d <= W | TLit _ => True end) (rev new_rev).
Proof.
  intros flush mask W input processed offset table toks ntok maxToken Ho r Hb.
  destruct (lz77_ok flush mask W input processed offset table toks ntok maxToken Ho Hb)
    as (new_rev & H1 & _ & _ & _ & _ & Hok & _).
  exists new_rev. split; [exact H1|]. exact (toks_ok_dist W _ _ Hok).
Qed.
Print Assumptions C19_window.

(* over whole histories: every token of every block refers back at most `window` bytes and never
   before the start of the data, and the blocks stand for exactly the data written *)
From Verif Require Import FinalSpec WriterTheorems.
Theorem C19_history : C19_statement.
Proof. exact WriterTheorems.C19_history. Qed.
Print Assumptions C19_history.
