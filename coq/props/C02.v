(* C02 — property theorems.  Model: RModel/Reader.v (specification-level reader over the reference inflater).
   Only statements, each closed by `exact`, followed by Print Assumptions. *)
From Verif Require Import Reader ReaderProofs InflateMono.
Open Scope N_scope.

(* Every stream the reference inflater accepts as complete (a superset of what compress/flate
   accepts), followed by any bytes, delivered in any chunks, with any terminal behaviour of the
   source: the reader hands out exactly the reference output and then io.EOF. *)
Theorem C02_valid_stream_decoded : forall dict s suffix chunks term,
  status (inflate dict s) = Done -> concat chunks = s ++ suffix ->
  rbytes (rrun dict chunks term) = out (inflate dict s) /\ rerror (rrun dict chunks term) = REOF.
Proof. exact (valid_stream_decoded inflate_mono inflate_never_fuel). Qed.
Print Assumptions C02_valid_stream_decoded.

(* whatever sizes of buffer the caller passes to Read, the pieces concatenate to the same bytes *)
Theorem C02_read_sizes_irrelevant : forall sizes l, concat (split_reads l sizes) = l.
Proof. exact split_reads_concat. Qed.
Print Assumptions C02_read_sizes_irrelevant.

(* non-vacuity: a fixed-Huffman stream for "amd" is Done *)
Example C02_example : status (inflate [] [75;204;77;1;0]) = Done /\ out (inflate [] [75;204;77;1;0]) = [97;109;100].
Proof. vm_compute. split; reflexivity. Qed.

(* ---- on the faithful engine model (RModel/Engine.v), by erun_sound: the soundness half.  Whenever
   the Reads of the engine end in io.EOF the bytes handed out are exactly the reference output,
   whatever the Read sizes, the buffer size and the delivery schedule.  (The completeness half -- on a
   strict stream some Read does return io.EOF -- is not yet a theorem of the engine model; it is a
   theorem of the specification-level reader above and is what the per-Read correspondence run
   exercises.) *)
From Verif Require Import Engine EngineRefineSpecTop EngineRefineFinal EngineCorollaries.
Theorem C02_engine_eof_means_whole_output_partial : forall data cs bufsize t reads,
  bytes_ok data -> cut_of cs data ->
  In REOF (map snd (fst (erun_ext bufsize cs t reads))) ->
  status (Inflate.inflate [] data) = Done /\
  results_bytes (fst (erun_ext bufsize cs t reads)) = out (Inflate.inflate [] data).
Proof. exact engine_eof_only_if_complete. Qed.
Print Assumptions C02_engine_eof_means_whole_output_partial.
Theorem C02_engine_read_sizes_irrelevant_at_eof : forall data cs bufsize t reads1 reads2,
  bytes_ok data -> cut_of cs data ->
  In REOF (map snd (fst (erun_ext bufsize cs t reads1))) ->
  In REOF (map snd (fst (erun_ext bufsize cs t reads2))) ->
  results_bytes (fst (erun_ext bufsize cs t reads1)) = results_bytes (fst (erun_ext bufsize cs t reads2)).
Proof. exact engine_read_sizes_irrelevant_at_eof. Qed.
Print Assumptions C02_engine_read_sizes_irrelevant_at_eof.

(* ---- both halves on the engine model (soundness + safety + completeness, proofs/EngineTop.v): a
   complete stream whose dynamic blocks carry distance codes that are complete or have no code word
   longer than 10 bits (std_stream: every stream a conforming compressor writes; the single place
   where the engine is stricter than the permissive reference is an incomplete distance code needing
   more than 80 long-code table entries), read with enough positive-size Reads under any schedule:
   some Read reports io.EOF, the bytes are exactly the reference output, the consumption is exact. *)
From Verif Require Import EngineSafetyBuf EngineCompleteSpecC EngineCompleteSpecG EngineTop.
Theorem C02_engine_valid_stream_decoded : forall data cs bufsize t reads,
  bytes_ok data -> cut_of cs data -> in_model_bounds bufsize cs ->
  status (Inflate.inflate [] data) = Done -> std_stream data -> enough_reads data reads ->
  In REOF (map snd (fst (erun_ext bufsize cs t reads))) /\
  results_bytes (fst (erun_ext bufsize cs t reads)) = out (Inflate.inflate [] data) /\
  snd (erun_ext bufsize cs t reads) = (bitpos (Inflate.inflate [] data) + 7) / 8.
Proof. exact engine_valid_stream_decoded. Qed.
Print Assumptions C02_engine_valid_stream_decoded.
