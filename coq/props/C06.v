(* C06 — property theorems.  Model: RModel/Containers.v (RFC 1952 / RFC 1950 framing with Go's rules, CRC-32 and Adler-32 written out) over the reference inflater; compared with fastgo's gzip/zlib Readers and with the standard library's on every run.
   Only statements, each closed by `exact`, followed by Print Assumptions. *)
From Verif Require Import ContainersSpec ContainersProofs InflateMono ContainerWSpec ContainerWProofs.
Open Scope N_scope.

(* every representable header is read back exactly *)
Theorem C06_gz_header_roundtrip : gz_header_roundtrip_statement.
Proof. exact gz_header_roundtrip. Qed.
Print Assumptions C06_gz_header_roundtrip.

(* a member = header, a complete DEFLATE stream for the payload, trailer (CRC-32, length mod 2^32):
   it is read back as that header and payload, then io.EOF, leaving what follows untouched *)
Theorem C06_gz_member_roundtrip : forall h body payload rest, ghdr_ok h -> body_for body payload ->
  gz_read false (gz_member h body payload ++ rest) = mkgres payload CEOF rest [h] false.
Proof. exact (gz_member_roundtrip inflate_mono). Qed.
Print Assumptions C06_gz_member_roundtrip.

(* zlib: CMF/FLG, optional DICTID, stream, Adler-32 big-endian *)
Theorem C06_zl_roundtrip : forall lv dict body payload rest, lv < 4 ->
  status (inflate (match dict with Some d => d | None => [] end) body) = Done ->
  out (inflate (match dict with Some d => d | None => [] end) body) = payload ->
  (bitpos (inflate (match dict with Some d => d | None => [] end) body) + 7) / 8 = N.of_nat (length body) ->
  zl_read dict (zl_stream lv dict body payload ++ rest) = mkgres payload CEOF rest [] false.
Proof. exact (zl_roundtrip inflate_mono). Qed.
Print Assumptions C06_zl_roundtrip.

Theorem C06_checksum_width : checksum_width_statement.
Proof. exact checksum_width. Qed.
Print Assumptions C06_checksum_width.
(* the DEFLATE body written by fastgo's writers is a complete stream for the payload: C01 *)

(* fastgo's own gzip / zlib Writers (models byte-exact against the implementation): Writes and
   Flushes in any order, then Close: every call returns nil and what the destination holds is read
   back by the container reader model as the same header and exactly the data written, then io.EOF *)
Theorem C06_gzw_roundtrip : gzw_roundtrip_statement.
Proof. exact gzw_roundtrip. Qed.
Print Assumptions C06_gzw_roundtrip.

Theorem C06_zlw_roundtrip : zlw_roundtrip_statement.
Proof. exact zlw_roundtrip. Qed.
Print Assumptions C06_zlw_roundtrip.

(* ---- on the faithful model of the gzip/zlib READERS (RModel/GzEngine.v: ungzip.go and zlib/reader.go
   transcribed function by function on top of the engine model, one bufio buffer shared with the
   decompressor): what the Reads hand out is a prefix of the payload the container specification
   (Containers.gz_read / zl_read) assigns to the input; io.EOF only when the specification accepts
   the container, and then exactly its payload; the Header fields are those of the first member. *)
From Verif Require Import Engine EngineCorollaries GzEngine GzEngineSpec GzEngineTop.
Theorem C06_gz_reader_sound : gz_sound_statement.
Proof. exact gz_sound. Qed.
Print Assumptions C06_gz_reader_sound.
Theorem C06_gz_reader_header_fields : gz_header_fields_statement.
Proof. exact gz_header_fields. Qed.
Print Assumptions C06_gz_reader_header_fields.
Theorem C06_zl_reader_sound : zl_sound_statement.
Proof. exact zl_sound. Qed.
Print Assumptions C06_zl_reader_sound.

(* ---- both halves for the readers (proofs/GzEngineTop3.v): a container the specification accepts,
   whose members' deflate streams are standard, read with sufficient positive-size Reads under any
   chunking and buffer size (within the model's fuel bounds): NewReader succeeds, some Read returns
   io.EOF and exactly the payload has been handed out.  (Multistream(true) needs a source that ends
   with io.EOF: after the last member the Reader has to look for another one.) *)
From Verif Require Import GzEngineSpec3 GzEngineSpec4 GzEngineTop3.
Theorem C06_gz_reader_complete : gz_complete_bounded_statement.
Proof. exact gz_complete_bounded. Qed.
Print Assumptions C06_gz_reader_complete.
Theorem C06_zl_reader_complete : zl_complete_bounded_statement.
Proof. exact zl_complete_bounded. Qed.
Print Assumptions C06_zl_reader_complete.
