(* C05 — property theorems.  Model: RModel/Reader.v.  Known finding F-C05b: sources that are io.ByteReaders but not *bufio.Reader.
   Only statements, each closed by `exact`, followed by Print Assumptions. *)
From Verif Require Import Reader ReaderProofs InflateMono.
Open Scope N_scope.

(* once the deliveries contain a complete stream the run ends having consumed exactly
   ceil(bitpos/8) source bytes: the stream and nothing of what follows it *)
Theorem C05_exact_consumption : forall dict chunks term k,
  status (inflate dict (concat (firstn k chunks))) = Done ->
  (rused (rrun dict chunks term) <= k)%nat /\
  rconsumed (rrun dict chunks term) = (bitpos (inflate dict (concat (firstn k chunks))) + 7) / 8.
Proof. exact (complete_stream_needs_no_more_input inflate_mono inflate_never_fuel). Qed.
Print Assumptions C05_exact_consumption.

(* ... and that count is the length of the stream: cutting the input there changes nothing, and
   a shorter input is not complete *)
Theorem C05_stream_ends_at_bitpos : forall dict s, status (inflate dict s) = Done ->
  inflate dict (firstn (N.to_nat ((bitpos (inflate dict s) + 7) / 8)) s) = inflate dict s.
Proof. exact inflate_done_exact. Qed.
Print Assumptions C05_stream_ends_at_bitpos.
Theorem C05_no_shorter_stream : forall dict s t,
  status (inflate dict s) = NeedInput -> status (inflate dict (s ++ t)) = Done ->
  8 * N.of_nat (length s) < bitpos (inflate dict (s ++ t)).
Proof. exact inflate_need. Qed.
Print Assumptions C05_no_shorter_stream.

(* ---- on the faithful engine model (RModel/Engine.v with its bufio model: Peek/Discard arithmetic as
   reader.go writes it), by erun_sound: when a Read reports io.EOF the number of bytes discarded from
   the bufio.Reader -- what the caller's source has lost -- is exactly the length of the stream,
   (bitpos + 7) / 8, for every schedule, buffer size and Read sizes. *)
From Verif Require Import Engine EngineRefineSpecTop EngineRefineFinal EngineCorollaries.
Theorem C05_engine_exact_consumption : forall data cs bufsize t reads,
  bytes_ok data -> cut_of cs data ->
  In REOF (map snd (fst (erun_ext bufsize cs t reads))) ->
  snd (erun_ext bufsize cs t reads) = (bitpos (Inflate.inflate [] data) + 7) / 8.
Proof. exact engine_exact_consumption. Qed.
Print Assumptions C05_engine_exact_consumption.

(* ---- gzip and zlib readers (RModel/GzEngine.v): at io.EOF the bytes consumed from the source plus
   the bytes the container specification leaves over add up to the input: no over-read past the trailer. *)
From Verif Require Import GzEngine GzEngineSpec GzEngineSpec2 GzEngineTop.
Theorem C05_gz_reader_consumed : gz_consumed_statement.
Proof. exact gz_consumed. Qed.
Print Assumptions C05_gz_reader_consumed.
Theorem C05_zl_reader_consumed : zl_consumed_statement.
Proof. exact zl_consumed. Qed.
Print Assumptions C05_zl_reader_consumed.
