(* ContainersProofs.v — proofs of the nine statements of RModel/ContainersSpec.v.

   History: `byte` is N here, and the first version of three statements quantified over lists
   whose elements need not be < 256.  They were refuted / found unprovable as written and have
   since been corrected in ContainersSpec.v by the premise bytes_lt256 l:
   - checksum_width: Eval vm_compute in crc32 [1099511627776] (the element is 2^40) gives
     7818375053 >= 4294967296 (the adler32 half holds for every list).
   - gz_eof_checked: for
       l = [31;139;8;0;0;0;0;0;0;0; 1;1;0;254;255;0; 397;238;2;210;1;0;0;0]
     (member with a stored block for payload [0]; the first two trailer elements are 141+256 and
     239-1, so of_le of the four CRC elements is still crc32 [0]) gz_read false l ends with CEOF,
     payload [0], but the eight elements after the DEFLATE stream are not gz_trailer [0].
   - zl_eof_checked: not refuted (its witnesses d, rest are not tied to l), but the natural
     witnesses fail for the same reason on [120;1; 1;1;0;254;255;0; 0;0;256;1]; without the byte
     premise it follows from inflate_mono and inflate_done_exact
     (zl_eof_checked_exact_partial below). *)
From Verif Require Import ContainersSpec.
From Coq Require Import ZArith Lia ZifyBool ZifyNat ZifyN.
Open Scope N_scope.

(* ---------------------------------------------------------------- *)
(* generic list facts                                               *)
(* ---------------------------------------------------------------- *)

Lemma firstn_len_app : forall (A : Type) (a b : list A), firstn (length a) (a ++ b) = a.
Proof.
  intros A a b. induction a as [|x a IH]; cbn [length firstn app].
  - destruct b; reflexivity.
  - now rewrite IH.
Qed.

Lemma skipn_len_app : forall (A : Type) (a b : list A), skipn (length a) (a ++ b) = b.
Proof.
  intros A a b. induction a as [|x a IH]; cbn [length skipn app]; auto.
Qed.

Lemma firstn_app_le : forall (A : Type) n (a b : list A), (n <= length a)%nat ->
  firstn n (a ++ b) = firstn n a.
Proof.
  intros A n a b H. rewrite firstn_app.
  replace (n - length a)%nat with 0%nat by lia. cbn [firstn]. now rewrite app_nil_r.
Qed.

Lemma firstn_app_ge : forall (A : Type) n (a b : list A), (length a <= n)%nat ->
  firstn n (a ++ b) = a ++ firstn (n - length a) b.
Proof.
  intros A n a b H. rewrite firstn_app. now rewrite (firstn_all2 a) by lia.
Qed.

Lemma Forall_firstn' : forall (A : Type) (P : A -> Prop) n l, Forall P l -> Forall P (firstn n l).
Proof.
  intros A P n. induction n as [|n IH]; intros l H; cbn [firstn]; [constructor|].
  destruct l as [|x l]; [constructor|]. inversion H; subst. constructor; auto.
Qed.

Lemma Forall_skipn' : forall (A : Type) (P : A -> Prop) n l, Forall P l -> Forall P (skipn n l).
Proof.
  intros A P n. induction n as [|n IH]; intros l H; cbn [skipn]; auto.
  destruct l as [|x l]; [constructor|]. inversion H; subst. auto.
Qed.

Lemma Forall_frev : forall (A : Type) (P : A -> Prop) l, Forall P l -> Forall P (frev l).
Proof.
  intros A P l H. unfold frev. rewrite <- rev_alt. now apply Forall_rev.
Qed.

Lemma skipn_skipn' : forall (A : Type) a b (l : list A), skipn a (skipn b l) = skipn (b + a) l.
Proof.
  intros A a b. induction b as [|b IH]; intros l; cbn [skipn Nat.add]; auto.
  destruct l as [|x l]; [now rewrite skipn_nil|]. apply IH.
Qed.

(* ---------------------------------------------------------------- *)
(* byte-order encodings                                             *)
(* ---------------------------------------------------------------- *)

Ltac Zify.zify_post_hook ::= Z.div_mod_to_equations.

Lemma of_le_le32 : forall v, v < 4294967296 -> of_le (le32 v) = v.
Proof. intros v H. unfold of_le, le32. cbn [fold_right]. lia. Qed.

Lemma of_le_le16 : forall v, v < 65536 -> of_le (le16 v) = v.
Proof. intros v H. unfold of_le, le16. cbn [fold_right]. lia. Qed.

Lemma of_be_be32 : forall v, v < 4294967296 -> of_be (be32 v) = v.
Proof. intros v H. unfold of_be, be32. cbn [fold_left]. lia. Qed.

Lemma of_le4_inv : forall a b c d v, a < 256 -> b < 256 -> c < 256 -> d < 256 ->
  of_le [a; b; c; d] = v -> [a; b; c; d] = le32 v.
Proof.
  intros a b c d v Ha Hb Hc Hd H. unfold of_le in H. cbn [fold_right] in H. unfold le32.
  repeat f_equal; lia.
Qed.

Lemma of_be4_inv : forall a b c d v, a < 256 -> b < 256 -> c < 256 -> d < 256 ->
  of_be [a; b; c; d] = v -> [a; b; c; d] = be32 v.
Proof.
  intros a b c d v Ha Hb Hc Hd H. unfold of_be in H. cbn [fold_left] in H. unfold be32.
  repeat f_equal; lia.
Qed.

(* ---------------------------------------------------------------- *)
(* checksums                                                        *)
(* ---------------------------------------------------------------- *)

Lemma lxor_lt_pow2 : forall n a b, a < 2 ^ n -> b < 2 ^ n -> N.lxor a b < 2 ^ n.
Proof.
  intros n a b Ha Hb.
  destruct (N.eq_dec (N.lxor a b) 0) as [E|E]; [rewrite E; lia|].
  apply N.log2_lt_pow2; [lia|].
  eapply N.le_lt_trans; [apply N.log2_lxor|].
  assert (Hn : 0 < n).
  { destruct (N.eq_dec n 0) as [En|En]; [|lia]. subst n. change (2 ^ 0) with 1 in *.
    assert (a = 0) by lia. assert (b = 0) by lia. subst. now cbn in E. }
  apply N.max_lub_lt.
  - destruct (N.eq_dec a 0) as [Ea|Ea]; [subst a; now cbn|]. apply N.log2_lt_pow2; lia.
  - destruct (N.eq_dec b 0) as [Eb|Eb]; [subst b; now cbn|]. apply N.log2_lt_pow2; lia.
Qed.

Lemma shiftr1_le : forall c, N.shiftr c 1 <= c.
Proof. intros c. rewrite N.shiftr_div_pow2. change (2 ^ 1) with 2. lia. Qed.

Lemma crc_bits_lt : forall n c, c < 2 ^ 32 -> crc_bits n c < 2 ^ 32.
Proof.
  induction n as [|n IH]; intros c H; cbn [crc_bits]; auto.
  apply IH. pose proof (shiftr1_le c) as Hs.
  destruct (N.odd c).
  - apply lxor_lt_pow2; [lia|]. unfold crc_poly. reflexivity.
  - lia.
Qed.

Lemma crc_fold_lt : forall l c, Forall (fun x => x < 2 ^ 32) l -> c < 2 ^ 32 ->
  fold_left crc_byte l c < 2 ^ 32.
Proof.
  induction l as [|x l IH]; intros c Hl Hc; cbn [fold_left]; auto.
  inversion Hl as [|? ? Hx Hl']; subst. apply IH; auto.
  unfold crc_byte. apply crc_bits_lt. apply lxor_lt_pow2; auto.
Qed.

Lemma crc32_lt_gen : forall l, Forall (fun x => x < 2 ^ 32) l -> crc32 l < 4294967296.
Proof.
  intros l H. change 4294967296 with (2 ^ 32). unfold crc32, crc32_update.
  apply lxor_lt_pow2; [|reflexivity].
  apply crc_fold_lt; auto. reflexivity.
Qed.

Lemma crc32_lt : forall l, bytes_lt256 l -> crc32 l < 4294967296.
Proof.
  intros l H. apply crc32_lt_gen. eapply Forall_impl; [|exact H].
  cbn beta. intros a Ha. change (2 ^ 32) with 4294967296. lia.
Qed.

Lemma adler_fold_inv : forall l s, fst s < 65521 -> snd s < 65521 ->
  fst (fold_left adler_step l s) < 65521 /\ snd (fold_left adler_step l s) < 65521.
Proof.
  induction l as [|x l IH]; intros s H1 H2; cbn [fold_left]; auto.
  apply IH; unfold adler_step; cbn [fst snd]; apply N.mod_lt; lia.
Qed.

Lemma adler32_lt : forall l, adler32 l < 4294967296.
Proof.
  intros l. unfold adler32.
  destruct (adler_fold_inv l (1, 0)) as [H1 H2]; cbn [fst snd]; try lia.
Qed.

Theorem checksum_width : checksum_width_statement.
Proof. intros l H. split; [now apply crc32_lt | apply adler32_lt]. Qed.

(* ---------------------------------------------------------------- *)
(* gzip header: staged view of gz_parse_header                      *)
(* ---------------------------------------------------------------- *)

Definition p_extra (b : bool) (r0 : list byte) : (list byte * list byte) + cerr :=
  if b then
    if (length r0 <? 2)%nat then inr CUnexpectedEOF else
    let n := N.to_nat (of_le (firstn 2 r0)) in
    let r1 := skipn 2 r0 in
    if (length r1 <? n)%nat then inr CUnexpectedEOF else inl (firstn n r1, skipn n r1)
  else inl ([], r0).

Definition p_str (b : bool) (r : list byte) : (list byte * list byte) + cerr :=
  if b then
    match read_cstring 512 r [] with
    | None => inr CUnexpectedEOF | Some None => inr CHeader | Some (Some (s, r')) => inl (s, r')
    end
  else inl ([], r).

Definition p_crc (b : bool) (l : list byte) (mtime xfl os : N) (extra name comment r3 : list byte) : hparse :=
  if b then
    if (length r3 <? 2)%nat then HP_err CUnexpectedEOF else
    let consumed := firstn (length l - length r3) l in
    if of_le (firstn 2 r3) =? crc32 consumed mod 65536
    then HP_ok (mkgh mtime xfl os extra name comment true) (skipn 2 r3)
    else HP_err CHeader
  else HP_ok (mkgh mtime xfl os extra name comment false) r3.

Definition parse_tail (l : list byte) (flg mtime xfl os : N) (r0 : list byte) : hparse :=
  match p_extra (N.testbit flg 2) r0 with
  | inr e => HP_err e
  | inl (extra, r1) =>
    match p_str (N.testbit flg 3) r1 with
    | inr e => HP_err e
    | inl (name, r2) =>
      match p_str (N.testbit flg 4) r2 with
      | inr e => HP_err e
      | inl (comment, r3) => p_crc (N.testbit flg 1) l mtime xfl os extra name comment r3
      end
    end
  end.

Lemma parse_staged : forall l,
  gz_parse_header l =
  match l with
  | [] => HP_err CEOF
  | _ =>
    if (length l <? 10)%nat then HP_err CUnexpectedEOF else
    let fixed := firstn 10 l in
    if negb ((nth 0 fixed 0 =? 31) && (nth 1 fixed 0 =? 139) && (nth 2 fixed 0 =? 8)) then HP_err CHeader else
    parse_tail l (nth 3 fixed 0) (of_le (firstn 4 (skipn 4 fixed))) (nth 8 fixed 0) (nth 9 fixed 0) (skipn 10 l)
  end.
Proof. intros l. destruct l; reflexivity. Qed.

Lemma parse_fixed : forall l flg m0 m1 m2 m3 xfl os tail,
  l = 31 :: 139 :: 8 :: flg :: m0 :: m1 :: m2 :: m3 :: xfl :: os :: tail ->
  gz_parse_header l = parse_tail l flg (of_le [m0; m1; m2; m3]) xfl os tail.
Proof. intros l flg m0 m1 m2 m3 xfl os tail E. rewrite parse_staged. subst l. reflexivity. Qed.

Definition nilb (l : list byte) : bool := match l with [] => true | _ => false end.
Definition enc_extra (e : list byte) : list byte :=
  match e with [] => [] | x :: r => le16 (N.of_nat (length (x :: r))) ++ x :: r end.
Definition enc_str (s : list byte) : list byte :=
  match s with [] => [] | x :: r => (x :: r) ++ [0] end.

Lemma p_extra_gen : forall a b e Y, N.to_nat (of_le [a; b]) = length e ->
  p_extra true (a :: b :: e ++ Y) = inl (e, Y).
Proof.
  intros a b e Y H. unfold p_extra. cbn [length firstn skipn].
  change (S (S (length (e ++ Y))) <? 2)%nat with false. cbn iota. cbv zeta.
  rewrite H. rewrite firstn_len_app, skipn_len_app.
  destruct (Nat.ltb_spec (length (e ++ Y)) (length e)) as [H1|H1]; [|reflexivity].
  rewrite app_length in H1. lia.
Qed.

Lemma p_extra_gen_trunc : forall a b e j, N.to_nat (of_le [a; b]) = length e ->
  (j < 2 + length e)%nat ->
  p_extra true (firstn j (a :: b :: e)) = inr CUnexpectedEOF.
Proof.
  intros a b e j H Hj. destruct j as [|[|j]]; try reflexivity.
  unfold p_extra. cbn [length firstn skipn].
  change (S (S (length (firstn j e))) <? 2)%nat with false. cbn iota. cbv zeta.
  rewrite H. rewrite firstn_length.
  destruct (Nat.ltb_spec (Nat.min j (length e)) (length e)) as [H1|H1]; [reflexivity|]. lia.
Qed.

Lemma lt65536 : forall n, (n < 65536)%nat -> N.of_nat n < 65536.
Proof.
  intros n. unfold Nat.of_num_uint, Nat.of_uint. cbn [Nat.of_uint_acc].
  rewrite !Nat.tail_mul_spec. lia.
Qed.

Lemma le16_len : forall e : list byte, (length e < 65536)%nat ->
  N.to_nat (of_le [N.of_nat (length e) mod 256; (N.of_nat (length e) / 256) mod 256]) = length e.
Proof.
  intros e He. apply lt65536 in He.
  fold (le16 (N.of_nat (length e))). rewrite of_le_le16 by lia. apply Nat2N.id.
Qed.

Lemma p_extra_ok : forall e Y, (length e < 65536)%nat ->
  p_extra (negb (nilb e)) (enc_extra e ++ Y) = inl (e, Y).
Proof.
  intros e Y He. destruct e as [|x e]; [reflexivity|].
  change (enc_extra (x :: e)) with (le16 (N.of_nat (length (x :: e))) ++ x :: e).
  change (negb (nilb (x :: e))) with true.
  unfold le16. cbn [app]. apply (p_extra_gen _ _ (x :: e)). now apply le16_len.
Qed.

Lemma p_extra_trunc : forall e j, (length e < 65536)%nat -> (j < length (enc_extra e))%nat ->
  p_extra (negb (nilb e)) (firstn j (enc_extra e)) = inr CUnexpectedEOF.
Proof.
  intros e j He Hj. destruct e as [|x e]; [cbn [enc_extra length] in Hj; lia|].
  change (enc_extra (x :: e)) with (le16 (N.of_nat (length (x :: e))) ++ x :: e) in *.
  change (negb (nilb (x :: e))) with true.
  unfold le16 in *. cbn [app] in *.
  apply (p_extra_gen_trunc _ _ (x :: e)); [now apply le16_len | cbn [length] in *; lia].
Qed.

Lemma read_cstring_ok : forall s fuel acc Y, ~ In 0 s -> (length s < fuel)%nat ->
  read_cstring fuel (s ++ 0 :: Y) acc = Some (Some (rev acc ++ s, Y)).
Proof.
  induction s as [|x s IH]; intros fuel acc Y Hz Hl; (destruct fuel as [|f]; [cbn [length] in Hl; lia|]);
    cbn [app read_cstring].
  - change (0 =? 0) with true. cbn iota. now rewrite app_nil_r.
  - assert (Hx : x <> 0) by (intros ->; apply Hz; now left).
    destruct (N.eqb_spec x 0) as [E|E]; [contradiction|].
    rewrite IH; [| intros Hin; apply Hz; now right | cbn [length] in Hl; lia].
    cbn [rev]. now rewrite <- app_assoc.
Qed.

Lemma read_cstring_trunc : forall s fuel acc, ~ In 0 s -> (length s < fuel)%nat ->
  read_cstring fuel s acc = None.
Proof.
  induction s as [|x s IH]; intros fuel acc Hz Hl; (destruct fuel as [|f]; [cbn [length] in Hl; lia|]);
    cbn [read_cstring]; [reflexivity|].
  assert (Hx : x <> 0) by (intros ->; apply Hz; now left).
  destruct (N.eqb_spec x 0) as [E|E]; [contradiction|].
  apply IH; [intros Hin; apply Hz; now right | cbn [length] in Hl; lia].
Qed.

Lemma p_str_ok : forall s Y, ~ In 0 s -> (length s < 512)%nat ->
  p_str (negb (nilb s)) (enc_str s ++ Y) = inl (s, Y).
Proof.
  intros s Y Hz Hl. destruct s as [|x s]; [reflexivity|].
  change (enc_str (x :: s)) with ((x :: s) ++ [0]).
  change (negb (nilb (x :: s))) with true.
  unfold p_str. rewrite <- app_assoc. cbn [app].
  change (x :: s ++ 0 :: Y) with ((x :: s) ++ 0 :: Y).
  rewrite read_cstring_ok by assumption. reflexivity.
Qed.

Lemma not_in_firstn : forall (s : list byte) j, ~ In 0 s -> ~ In 0 (firstn j s).
Proof.
  intros s j H Hin. apply H. rewrite <- (firstn_skipn j s). apply in_or_app. now left.
Qed.

Lemma p_str_trunc : forall s j, ~ In 0 s -> (length s < 512)%nat -> (j < length (enc_str s))%nat ->
  p_str (negb (nilb s)) (firstn j (enc_str s)) = inr CUnexpectedEOF.
Proof.
  intros s j Hz Hl Hj. destruct s as [|x s]; [cbn [enc_str length] in Hj; lia|].
  change (enc_str (x :: s)) with ((x :: s) ++ [0]) in *.
  change (negb (nilb (x :: s))) with true.
  rewrite app_length in Hj. cbn [length] in Hj.
  rewrite firstn_app_le by (cbn [length]; lia).
  unfold p_str. rewrite read_cstring_trunc; [reflexivity | now apply not_in_firstn |].
  rewrite firstn_length. lia.
Qed.

Lemma gz_flags_bits : forall h,
  N.testbit (gz_flags h) 1 = g_hcrc h /\
  N.testbit (gz_flags h) 2 = negb (nilb (g_extra h)) /\
  N.testbit (gz_flags h) 3 = negb (nilb (g_name h)) /\
  N.testbit (gz_flags h) 4 = negb (nilb (g_comment h)).
Proof.
  intros h. destruct h as [mt xfl os e n c hc]. unfold gz_flags.
  cbn [g_hcrc g_extra g_name g_comment].
  destruct hc, e, n, c; repeat split; reflexivity.
Qed.

Definition crc_part (hc : bool) (pre : list byte) : list byte :=
  if hc then le16 (crc32 pre mod 65536) else [].

Lemma crc_part_len : forall hc pre, length (crc_part hc pre) = if hc then 2%nat else 0%nat.
Proof. intros hc pre. destruct hc; reflexivity. Qed.

Lemma p_crc_true : forall pre a b rest mt xfl os e nm cm,
  of_le [a; b] = crc32 pre mod 65536 ->
  p_crc true (pre ++ a :: b :: rest) mt xfl os e nm cm (a :: b :: rest)
    = HP_ok (mkgh mt xfl os e nm cm true) rest.
Proof.
  intros pre a b rest mt xfl os e nm cm H. unfold p_crc. cbn [length firstn skipn].
  change (S (S (length rest)) <? 2)%nat with false. cbn iota. cbv zeta.
  rewrite app_length. cbn [length].
  replace (length pre + S (S (length rest)) - S (S (length rest)))%nat with (length pre) by lia.
  rewrite firstn_len_app. rewrite H, N.eqb_refl. reflexivity.
Qed.

Lemma parse_tail_ok : forall l flg mt xfl os e nm cm hc pre rest,
  N.testbit flg 1 = hc -> N.testbit flg 2 = negb (nilb e) ->
  N.testbit flg 3 = negb (nilb nm) -> N.testbit flg 4 = negb (nilb cm) ->
  (length e < 65536)%nat -> ~ In 0 nm -> (length nm < 512)%nat ->
  ~ In 0 cm -> (length cm < 512)%nat ->
  l = pre ++ crc_part hc pre ++ rest ->
  parse_tail l flg mt xfl os (enc_extra e ++ enc_str nm ++ enc_str cm ++ crc_part hc pre ++ rest)
    = HP_ok (mkgh mt xfl os e nm cm hc) rest.
Proof.
  intros l flg mt xfl os e nm cm hc pre rest F1 F2 F3 F4 He Hn1 Hn2 Hc1 Hc2 El.
  unfold parse_tail. rewrite F1, F2, F3, F4.
  rewrite p_extra_ok by assumption. rewrite p_str_ok by assumption. rewrite p_str_ok by assumption.
  unfold p_crc. destruct hc; [|reflexivity].
  subst l. unfold crc_part. set (c := crc32 pre mod 65536).
  assert (Hc : c < 65536) by (apply N.mod_lt; discriminate).
  pose proof (of_le_le16 c Hc) as Hle. unfold le16 in *. cbn [app].
  now apply p_crc_true.
Qed.

Lemma parse_tail_trunc : forall l flg mt xfl os e nm cm hc cp j,
  N.testbit flg 1 = hc -> N.testbit flg 2 = negb (nilb e) ->
  N.testbit flg 3 = negb (nilb nm) -> N.testbit flg 4 = negb (nilb cm) ->
  (length e < 65536)%nat -> ~ In 0 nm -> (length nm < 512)%nat ->
  ~ In 0 cm -> (length cm < 512)%nat ->
  length cp = (if hc then 2%nat else 0%nat) ->
  (j < length (enc_extra e ++ enc_str nm ++ enc_str cm ++ cp))%nat ->
  parse_tail l flg mt xfl os (firstn j (enc_extra e ++ enc_str nm ++ enc_str cm ++ cp))
    = HP_err CUnexpectedEOF.
Proof.
  intros l flg mt xfl os e nm cm hc cp j F1 F2 F3 F4 He Hn1 Hn2 Hc1 Hc2 Hcp Hj.
  rewrite !app_length in Hj.
  unfold parse_tail. rewrite F1, F2, F3, F4.
  destruct (lt_dec j (length (enc_extra e))) as [L1|L1].
  { rewrite firstn_app_le by lia. rewrite p_extra_trunc by assumption. reflexivity. }
  rewrite firstn_app_ge by lia.
  rewrite p_extra_ok by assumption.
  set (j1 := (j - length (enc_extra e))%nat).
  destruct (lt_dec j1 (length (enc_str nm))) as [L2|L2].
  { rewrite firstn_app_le by lia. rewrite p_str_trunc by assumption. reflexivity. }
  rewrite firstn_app_ge by lia.
  rewrite p_str_ok by assumption.
  set (j2 := (j1 - length (enc_str nm))%nat).
  destruct (lt_dec j2 (length (enc_str cm))) as [L3|L3].
  { rewrite firstn_app_le by lia. rewrite p_str_trunc by assumption. reflexivity. }
  rewrite firstn_app_ge by lia.
  rewrite <- (app_nil_r (enc_str cm)) at 1. rewrite <- app_assoc.
  rewrite p_str_ok by assumption. cbn [app].
  unfold p_crc. destruct hc; [|lia].
  rewrite firstn_length.
  destruct (Nat.ltb_spec (Nat.min (j2 - length (enc_str cm)) (length cp)) 2) as [H|H]; [reflexivity|lia].
Qed.

Lemma gz_header_shape : forall h,
  gz_header h = gz_header_nocrc h ++ crc_part (g_hcrc h) (gz_header_nocrc h).
Proof.
  intros h. unfold gz_header, crc_part. destruct (g_hcrc h); [reflexivity|].
  now rewrite app_nil_r.
Qed.

Definition hdr_tail (h : ghdr) : list byte :=
  enc_extra (g_extra h) ++ enc_str (g_name h) ++ enc_str (g_comment h).

Lemma nocrc_shape : forall h,
  gz_header_nocrc h =
  31 :: 139 :: 8 :: gz_flags h ::
  g_mtime h mod 256 :: (g_mtime h / 256) mod 256 :: (g_mtime h / 65536) mod 256 ::
  (g_mtime h / 16777216) mod 256 :: g_xfl h :: g_os h :: hdr_tail h.
Proof. intros h. reflexivity. Qed.

Lemma gz_header_cons : forall h Y,
  gz_header h ++ Y =
  31 :: 139 :: 8 :: gz_flags h ::
  g_mtime h mod 256 :: (g_mtime h / 256) mod 256 :: (g_mtime h / 65536) mod 256 ::
  (g_mtime h / 16777216) mod 256 :: g_xfl h :: g_os h ::
  (enc_extra (g_extra h) ++ enc_str (g_name h) ++ enc_str (g_comment h) ++
   crc_part (g_hcrc h) (gz_header_nocrc h) ++ Y).
Proof.
  intros h Y. rewrite gz_header_shape. rewrite nocrc_shape at 1. unfold hdr_tail.
  cbn [app]. now rewrite <- !app_assoc.
Qed.

Theorem gz_header_roundtrip : gz_header_roundtrip_statement.
Proof.
  intros h rest (Hmt & Hxfl & Hos & He & _ & _ & _ & Hn1 & Hc1 & Hn2 & Hc2).
  pose proof (gz_flags_bits h) as (F1 & F2 & F3 & F4).
  rewrite (parse_fixed _ _ _ _ _ _ _ _ _ (gz_header_cons h rest)).
  fold (le32 (g_mtime h)). rewrite of_le_le32 by assumption.
  rewrite (parse_tail_ok _ _ _ _ _ _ _ _ (g_hcrc h) (gz_header_nocrc h) rest); auto.
  - destruct h; reflexivity.
  - rewrite gz_header_shape. now rewrite <- app_assoc.
Qed.

(* ---------------------------------------------------------------- *)
(* the reference inflater only produces bytes                       *)
(* ---------------------------------------------------------------- *)

Lemma take_lt : forall n s v s', take n s = Some (v, s') -> v < 2 ^ N.of_nat n.
Proof.
  induction n as [|n IH]; intros s v s' H; cbn [take] in H.
  - inversion H; subst. reflexivity.
  - destruct (take1 s) as [[b s1]|] eqn:E1; [|discriminate].
    destruct (take n s1) as [[v1 s2]|] eqn:E2; [|discriminate].
    inversion H; subst. apply IH in E2.
    rewrite Nat2N.inj_succ, N.pow_succ_r'. set (p := 2 ^ N.of_nat n) in *. clearbody p.
    destruct b, v1; lia.
Qed.

Lemma take8_lt : forall s v s', take 8 s = Some (v, s') -> v < 256.
Proof. intros s v s' H. apply take_lt in H. exact H. Qed.

Lemma push_ok : forall b st, b < 256 -> bytes_lt256 (rout st) -> bytes_lt256 (rout (push b st)).
Proof. intros b st Hb H. unfold push. cbn [rout]. now constructor. Qed.

Lemma copy_cyc_ok : forall len seg cur st, bytes_lt256 seg -> bytes_lt256 cur ->
  bytes_lt256 (rout st) -> bytes_lt256 (rout (copy_cyc seg cur len st)).
Proof.
  induction len as [|len IH]; intros seg cur st Hs Hc Hst; cbn [copy_cyc]; auto.
  destruct cur as [|b cur'].
  - destruct seg as [|b s']; auto.
    inversion Hs as [|? ? Hb Hs']; subst. apply IH; auto. now apply push_ok.
  - inversion Hc as [|? ? Hb Hc']; subst. apply IH; auto. now apply push_ok.
Qed.

Lemma copy_match_ok : forall len d st, bytes_lt256 (rout st) ->
  bytes_lt256 (rout (copy_match len d st)).
Proof.
  intros len d st H. unfold copy_match. cbn [rout].
  assert (Hseg : bytes_lt256 (frev (firstn (N.to_nat d) (rout st)))).
  { apply Forall_frev. now apply Forall_firstn'. }
  now apply copy_cyc_ok.
Qed.

Definition bres_ok (r : bres) : Prop :=
  match r with BEnd st _ => bytes_lt256 (rout st) | BStop st _ _ => bytes_lt256 (rout st) end.

Lemma symbols_ok : forall fuel lt dt st s, bytes_lt256 (rout st) ->
  bres_ok (symbols fuel lt dt st s).
Proof.
  induction fuel as [|f IH]; intros lt dt st s H; cbn [symbols]; [exact H|].
  destruct (decode_sym lt s) as [sym s1| |] eqn:E1; try exact H.
  destruct (Nat.ltb_spec sym 256) as [L|L].
  { apply IH. apply push_ok; auto. lia. }
  destruct (sym =? 256)%nat; [exact H|].
  destruct (nth_error len_table (sym - 257)) as [[lbase lextra]|]; [|exact H].
  destruct (take (N.to_nat lextra) s1) as [[le s2]|]; [|exact H].
  destruct (decode_sym dt s2) as [dsym s3| |]; try exact H.
  destruct (nth_error dist_table dsym) as [[dbase dextra]|]; [|exact H].
  destruct (take (N.to_nat dextra) s3) as [[de s4]|]; [|exact H].
  cbv zeta. destruct (oavail st <? dbase + de); [exact H|].
  apply IH. now apply copy_match_ok.
Qed.

Lemma stored_ok : forall n st s, bytes_lt256 (rout st) ->
  bytes_lt256 (rout (fst (fst (stored n st s)))).
Proof.
  induction n as [|n IH]; intros st s H; cbn [stored]; [exact H|].
  destruct (take 8 s) as [[b s1]|] eqn:E; [|exact H].
  apply IH. apply push_ok; auto. eapply take8_lt; eauto.
Qed.

Lemma finish_ok : forall st s e, bytes_lt256 (rout st) -> bytes_lt256 (out (finish st s e)).
Proof.
  intros st s e H. unfold finish. cbn [out]. apply Forall_skipn'. now apply Forall_frev.
Qed.

Lemma blocks_ok : forall fuel st s, bytes_lt256 (rout st) -> bytes_lt256 (out (blocks fuel st s)).
Proof.
  induction fuel as [|f IH]; intros st s H; cbn [blocks]; [now apply finish_ok|].
  destruct (take 1 s) as [[bfinal s1]|]; [|now apply finish_ok].
  destruct (take 2 s1) as [[btype s2]|]; [|now apply finish_ok].
  assert (Hafter : forall r, bres_ok r ->
    bytes_lt256 (out match r with
      | BStop st' s' e => finish st' s' e
      | BEnd st' s' => if bfinal =? 1 then finish st' s' Done else blocks f st' s'
      end)).
  { intros r Hr. destruct r as [st' s'|st' s' e]; cbn [bres_ok] in Hr.
    - destruct (bfinal =? 1); [now apply finish_ok | now apply IH].
    - now apply finish_ok. }
  cbv zeta.
  destruct (btype =? 0).
  { destruct (take 16 (align s2)) as [[len s4]|]; [|now apply finish_ok].
    destruct (take 16 s4) as [[nlen s5]|]; [|now apply finish_ok].
    destruct (negb (len + nlen =? 65535)); [now apply finish_ok|].
    pose proof (stored_ok (N.to_nat len) st s5 H) as Hst.
    destruct (stored (N.to_nat len) st s5) as [[st' s6] full]. cbn [fst] in Hst.
    destruct (negb full); [now apply finish_ok|].
    destruct ((len =? 0) && (bfinal =? 0)).
    - destruct (bfinal =? 1); [apply finish_ok | apply IH]; exact Hst.
    - destruct (bfinal =? 1); [apply finish_ok | apply IH]; exact Hst. }
  destruct (btype =? 1).
  { destruct fixed_tries as [[lt dt]|]; [|now apply finish_ok].
    apply Hafter. now apply symbols_ok. }
  destruct (btype =? 2); [|now apply finish_ok].
  destruct (dyn_header s2) as [[lt dt] s3|e].
  - apply Hafter. now apply symbols_ok.
  - destruct e; now apply finish_ok.
Qed.

Lemma inflate_out_bytes : forall dict s, bytes_lt256 dict -> bytes_lt256 (out (inflate dict s)).
Proof.
  intros dict s H. unfold inflate. cbv zeta. apply blocks_ok. cbn [rout]. now apply Forall_frev.
Qed.

Lemma nil_bytes : bytes_lt256 [].
Proof. constructor. Qed.

(* ---------------------------------------------------------------- *)
(* consequences of prefix monotonicity                              *)
(* ---------------------------------------------------------------- *)

Lemma mono_done : inflate_mono_statement -> forall d s t,
  status (inflate d s) = Done -> inflate d (s ++ t) = inflate d s.
Proof.
  intros M d s t H. pose proof (M d s t) as Hm. cbv zeta in Hm. rewrite H in Hm. exact Hm.
Qed.

Lemma mono_corrupt : inflate_mono_statement -> forall d s t,
  status (inflate d s) = Corrupt -> status (inflate d (s ++ t)) = Corrupt.
Proof.
  intros M d s t H. pose proof (M d s t) as Hm. cbv zeta in Hm. rewrite H in Hm. tauto.
Qed.

Lemma mono_need : inflate_mono_statement -> forall d s t,
  status (inflate d s) = NeedInput -> is_prefix (out (inflate d s)) (out (inflate d (s ++ t))).
Proof.
  intros M d s t H. pose proof (M d s t) as Hm. cbv zeta in Hm. rewrite H in Hm. tauto.
Qed.

Lemma mono_nofuel : inflate_mono_statement -> forall d s, status (inflate d s) <> Fuel.
Proof.
  intros M d s H. pose proof (M d s []) as Hm. cbv zeta in Hm. rewrite H in Hm. exact Hm.
Qed.

(* ---------------------------------------------------------------- *)
(* one member                                                       *)
(* ---------------------------------------------------------------- *)

Lemma trailer_len : forall p, length (gz_trailer p) = 8%nat.
Proof. intros p. reflexivity. Qed.

Lemma read_body_ok : inflate_mono_statement -> forall body payload rest,
  body_for body payload ->
  gz_read_body (body ++ gz_trailer payload ++ rest) = (payload, None, rest).
Proof.
  intros M body payload rest (Hd & Ho & Hn).
  assert (Hb : bytes_lt256 payload).
  { rewrite <- Ho. apply inflate_out_bytes. constructor. }
  pose proof (crc32_lt payload Hb) as Hcrc.
  unfold gz_read_body. cbv zeta.
  rewrite (mono_done M [] body _ Hd). rewrite Hd, Ho, Hn.
  rewrite Nat2N.id. rewrite skipn_len_app.
  pose proof (of_le_le32 (crc32 payload) Hcrc) as E1.
  assert (E2 : of_le (le32 (N.of_nat (length payload) mod 4294967296))
               = N.of_nat (length payload) mod 4294967296).
  { apply of_le_le32. apply N.mod_lt. discriminate. }
  unfold gz_trailer, le32 in *. cbn [app length firstn skipn].
  change (S (S (S (S (S (S (S (S (length rest)))))))) <? 8)%nat with false. cbn iota.
  match goal with |- (if (?a =? ?b) && (?c =? ?d) then _ else _) = _ =>
    replace (a =? b) with true by (symmetry; apply N.eqb_eq; exact E1);
    replace (c =? d) with true by (symmetry; apply N.eqb_eq; exact E2) end.
  reflexivity.
Qed.

Lemma gz_member_assoc : forall h body payload rest,
  gz_member h body payload ++ rest = gz_header h ++ (body ++ gz_trailer payload ++ rest).
Proof. intros. unfold gz_member. now rewrite <- !app_assoc. Qed.

Theorem gz_member_roundtrip : gz_member_roundtrip_statement.
Proof.
  intros M h body payload rest Hh Hb.
  unfold gz_read. rewrite gz_member_assoc. rewrite (gz_header_roundtrip h _ Hh).
  cbn [gz_members]. rewrite (read_body_ok M _ _ _ Hb). cbn [negb app rev]. reflexivity.
Qed.

Theorem gz_member_by_member : gz_member_by_member_statement.
Proof.
  intros M [[h body] payload] rest [Hh Hb]. cbn [member_bytes fst snd].
  now apply gz_member_roundtrip.
Qed.

Lemma members_bytes_cons : forall h b p ms,
  members_bytes ((h, b, p) :: ms) = gz_header h ++ (b ++ gz_trailer p ++ members_bytes ms).
Proof.
  intros. unfold members_bytes. cbn [map concat member_bytes]. apply gz_member_assoc.
Qed.

Lemma members_concat : inflate_mono_statement -> forall ms, Forall member_ok ms ->
  forall fuel body payload acc hs, body_for body payload -> (length ms < fuel)%nat ->
  gz_members fuel true (body ++ gz_trailer payload ++ members_bytes ms) acc hs
  = mkgres (acc ++ payload ++ concat (map (fun m => snd m) ms)) CEOF []
           (rev hs ++ map (fun m => fst (fst m)) ms) false.
Proof.
  intros M ms. induction ms as [|[[h' b'] p'] ms IH]; intros Hms fuel body payload acc hs Hb Hf;
    (destruct fuel as [|f]; [cbn [length] in Hf; lia|]); cbn [gz_members].
  - rewrite (read_body_ok M _ _ _ Hb). cbn [negb].
    change (members_bytes []) with (@nil byte). rewrite parse_staged.
    cbn [map concat]. now rewrite !app_nil_r.
  - inversion Hms as [|? ? Hm Hms']; subst. unfold member_ok in Hm. destruct Hm as [Hh' Hb'].
    rewrite (read_body_ok M _ _ _ Hb). cbn [negb].
    rewrite members_bytes_cons. rewrite (gz_header_roundtrip h' _ Hh').
    rewrite IH; auto; [|cbn [length] in Hf; lia].
    cbn [map concat rev fst snd]. now rewrite <- !app_assoc.
Qed.

Lemma gz_header_len : forall h, (10 <= length (gz_header h))%nat.
Proof.
  intros h. rewrite <- (app_nil_r (gz_header h)). rewrite gz_header_cons. cbn [length]. lia.
Qed.

Lemma members_bytes_len : forall ms, (length ms <= length (members_bytes ms))%nat.
Proof.
  induction ms as [|[[h b] p] ms IH]; [cbn; lia|].
  rewrite members_bytes_cons. rewrite !app_length. pose proof (gz_header_len h). cbn [length]. lia.
Qed.

Theorem gz_concat : gz_concat_statement.
Proof.
  intros M ms Hne Hms. destruct ms as [|[[h b] p] ms]; [congruence|].
  inversion Hms as [|? ? Hm Hms']; subst. unfold member_ok in Hm. destruct Hm as [Hh Hb].
  unfold gz_read. rewrite members_bytes_cons at 1. rewrite (gz_header_roundtrip h _ Hh).
  rewrite (members_concat M ms Hms' _ _ _ _ _ Hb).
  - reflexivity.
  - pose proof (members_bytes_len ((h, b, p) :: ms)) as Hl. cbn [length] in Hl. exact (le_S _ _ Hl).
Qed.

(* ---------------------------------------------------------------- *)
(* zlib                                                             *)
(* ---------------------------------------------------------------- *)

Definition zl_body (d r1 : list byte) : gres :=
  let r := inflate d r1 in
  match status r with
  | Done =>
    let rest := skipn (N.to_nat ((bitpos r + 7) / 8)) r1 in
    if (length rest <? 4)%nat then mkgres (out r) CUnexpectedEOF [] [] false
    else if of_be (firstn 4 rest) =? adler32 (out r)
         then mkgres (out r) CEOF (skipn 4 rest) [] false
         else mkgres (out r) CChecksum (skipn 4 rest) [] false
  | NeedInput => mkgres (out r) CUnexpectedEOF [] [] false
  | _ => mkgres (out r) CCorrupt [] [] false
  end.

Definition dict_or_nil (dict : option (list byte)) : list byte :=
  match dict with Some d => d | None => [] end.

Lemma of_be_be32_cons : forall v X, v < 4294967296 ->
  of_be (firstn 4 (be32 v ++ X)) = v /\ skipn 4 (be32 v ++ X) = X /\
  (length (be32 v ++ X) <? 4)%nat = false.
Proof.
  intros v X H. pose proof (of_be_be32 v H) as E. unfold be32 in *.
  cbn [app firstn skipn length]. repeat split; auto.
Qed.

Lemma zl_read_gen : forall dict flg X,
  (120 * 256 + flg) mod 31 = 0 ->
  N.testbit flg 5 = (match dict with Some _ => true | None => false end) ->
  zl_read dict (120 :: flg :: (match dict with Some d => be32 (adler32 d) | None => [] end) ++ X)
  = zl_body (dict_or_nil dict) X.
Proof.
  intros dict flg X Hm Hb.
  set (T := (match dict with Some d => be32 (adler32 d) | None => [] end) ++ X).
  unfold zl_read. change (skipn 2 (120 :: flg :: T)) with T. cbn [length nth].
  change (S (S (length T)) <? 2)%nat with false. subst T.
  cbn iota. change (120 mod 16 =? 8) with true. change (120 / 16 <=? 7) with true.
  rewrite Hm. change (0 =? 0) with true. cbn [andb negb]. rewrite Hb.
  destruct dict as [d|]; [|reflexivity].
  destruct (of_be_be32_cons (adler32 d) X (adler32_lt d)) as (E1 & E2 & E3).
  rewrite E3, E1, E2, N.eqb_refl. reflexivity.
Qed.

Lemma zl_header_flags : forall lv dict, lv < 4 ->
  exists flg, zl_header lv dict = 120 :: flg :: (match dict with Some d => be32 (adler32 d) | None => [] end) /\
    (120 * 256 + flg) mod 31 = 0 /\
    N.testbit flg 5 = (match dict with Some _ => true | None => false end).
Proof.
  intros lv dict H.
  assert (Hc : lv = 0 \/ lv = 1 \/ lv = 2 \/ lv = 3) by lia.
  unfold zl_header. cbv zeta. cbn [app].
  destruct dict as [d|]; destruct Hc as [-> | [-> | [-> | ->]]];
    eexists; (split; [reflexivity|]); split; reflexivity.
Qed.

Theorem zl_roundtrip : zl_roundtrip_statement.
Proof.
  intros M lv dict body payload rest Hlv Hd Ho Hn.
  fold (dict_or_nil dict) in Hd, Ho, Hn.
  destruct (zl_header_flags lv dict Hlv) as (flg & Eh & Hm & Hb).
  unfold zl_stream. rewrite Eh. cbn [app]. rewrite <- !app_assoc.
  rewrite (zl_read_gen dict flg _ Hm Hb).
  unfold zl_body. cbv zeta.
  rewrite (mono_done M _ body _ Hd). rewrite Hd, Ho, Hn.
  rewrite Nat2N.id, skipn_len_app.
  destruct (of_be_be32_cons (adler32 payload) rest (adler32_lt payload)) as (E1 & E2 & E3).
  rewrite E3, E1, E2, N.eqb_refl. reflexivity.
Qed.

(* ---------------------------------------------------------------- *)
(* io.EOF only with matching checksums                              *)
(* ---------------------------------------------------------------- *)

Definition suffix (s l : list byte) : Prop := exists pre, l = pre ++ s.

Lemma suffix_refl : forall l, suffix l l.
Proof. intros l. now exists []. Qed.

Lemma suffix_trans : forall a b c, suffix a b -> suffix b c -> suffix a c.
Proof. intros a b c [p1 ->] [p2 ->]. exists (p2 ++ p1). now rewrite app_assoc. Qed.

Lemma suffix_skipn : forall n l, suffix (skipn n l) l.
Proof. intros n l. exists (firstn n l). now rewrite firstn_skipn. Qed.

Lemma suffix_bytes : forall s l, suffix s l -> bytes_lt256 l -> bytes_lt256 s.
Proof. intros s l [pre ->] H. apply Forall_app in H. tauto. Qed.

Lemma read_cstring_suffix : forall fuel l acc s r,
  read_cstring fuel l acc = Some (Some (s, r)) -> suffix r l.
Proof.
  induction fuel as [|f IH]; intros l acc s r H; cbn [read_cstring] in H; [discriminate|].
  destruct l as [|x l']; [discriminate|].
  destruct (x =? 0).
  - inversion H; subst. now exists [x].
  - apply IH in H. eapply suffix_trans; [exact H|]. now exists [x].
Qed.

Lemma p_extra_inl : forall b r0 e r1, p_extra b r0 = inl (e, r1) -> suffix r1 r0.
Proof.
  intros b r0 e r1 H. unfold p_extra in H. destruct b.
  - destruct (length r0 <? 2)%nat; [discriminate|]. cbv zeta in H.
    destruct (length (skipn 2 r0) <? _)%nat; [discriminate|].
    injection H as <- <-.
    eapply suffix_trans; [apply suffix_skipn | exact (suffix_skipn 2 r0)].
  - inversion H; subst. apply suffix_refl.
Qed.

Lemma p_extra_inr : forall b r0 e, p_extra b r0 = inr e -> e = CUnexpectedEOF.
Proof.
  intros b r0 e H. unfold p_extra in H. destruct b; [|discriminate].
  destruct (length r0 <? 2)%nat; [now inversion H|]. cbv zeta in H.
  destruct (length (skipn 2 r0) <? _)%nat; [now inversion H|discriminate].
Qed.

Lemma p_str_inl : forall b r s r', p_str b r = inl (s, r') -> suffix r' r.
Proof.
  intros b r s r' H. unfold p_str in H. destruct b.
  - destruct (read_cstring 512 r []) as [[[s0 r0]|]|] eqn:E; try discriminate.
    inversion H; subst. eapply read_cstring_suffix; eauto.
  - inversion H; subst. apply suffix_refl.
Qed.

Lemma p_str_inr : forall b r e, p_str b r = inr e -> e <> CEOF.
Proof.
  intros b r e H. unfold p_str in H. destruct b; [|discriminate].
  destruct (read_cstring 512 r []) as [[[s0 r0]|]|]; inversion H; discriminate.
Qed.

Lemma p_crc_ok : forall b l mt xfl os e nm cm r3 h rest,
  p_crc b l mt xfl os e nm cm r3 = HP_ok h rest -> suffix rest r3.
Proof.
  intros b l mt xfl os e nm cm r3 h rest H. unfold p_crc in H. destruct b.
  - destruct (length r3 <? 2)%nat; [discriminate|]. cbv zeta in H.
    destruct (_ =? _); [|discriminate]. injection H as <- <-. exact (suffix_skipn 2 r3).
  - inversion H; subst. apply suffix_refl.
Qed.

Lemma p_crc_err : forall b l mt xfl os e nm cm r3,
  p_crc b l mt xfl os e nm cm r3 <> HP_err CEOF.
Proof.
  intros b l mt xfl os e nm cm r3 H. unfold p_crc in H. destruct b; [|discriminate].
  destruct (length r3 <? 2)%nat; [discriminate|]. cbv zeta in H.
  destruct (_ =? _); discriminate.
Qed.

Lemma parse_tail_suffix : forall l flg mt xfl os r0 h rest,
  parse_tail l flg mt xfl os r0 = HP_ok h rest -> suffix rest r0.
Proof.
  intros l flg mt xfl os r0 h rest H. unfold parse_tail in H.
  destruct (p_extra _ r0) as [[e r1]|e1] eqn:E1; [|discriminate].
  destruct (p_str _ r1) as [[nm r2]|e2] eqn:E2; [|discriminate].
  destruct (p_str _ r2) as [[cm r3]|e3] eqn:E3; [|discriminate].
  apply p_crc_ok in H. apply p_extra_inl in E1. apply p_str_inl in E2. apply p_str_inl in E3.
  eapply suffix_trans; [exact H|]. eapply suffix_trans; [exact E3|].
  eapply suffix_trans; [exact E2|exact E1].
Qed.

Lemma parse_tail_not_eof : forall l flg mt xfl os r0,
  parse_tail l flg mt xfl os r0 <> HP_err CEOF.
Proof.
  intros l flg mt xfl os r0 H. unfold parse_tail in H.
  destruct (p_extra _ r0) as [[e r1]|e1] eqn:E1.
  2:{ apply p_extra_inr in E1. subst. discriminate. }
  destruct (p_str _ r1) as [[nm r2]|e2] eqn:E2.
  2:{ apply p_str_inr in E2. inversion H; subst. contradiction. }
  destruct (p_str _ r2) as [[cm r3]|e3] eqn:E3.
  2:{ apply p_str_inr in E3. inversion H; subst. contradiction. }
  eapply p_crc_err; eauto.
Qed.

Lemma parse_ok_suffix : forall l h rest, gz_parse_header l = HP_ok h rest -> suffix rest l.
Proof.
  intros l h rest H. rewrite parse_staged in H. destruct l as [|x l']; [discriminate|].
  set (l := x :: l') in *.
  destruct (length l <? 10)%nat; [discriminate|]. cbv zeta in H.
  destruct (negb _); [discriminate|].
  apply parse_tail_suffix in H. eapply suffix_trans; [exact H|exact (suffix_skipn 10 l)].
Qed.

Lemma parse_eof_nil : forall l, gz_parse_header l = HP_err CEOF -> l = [].
Proof.
  intros l H. rewrite parse_staged in H. destruct l as [|x l']; [reflexivity|].
  set (l := x :: l') in *.
  destruct (length l <? 10)%nat; [discriminate|]. cbv zeta in H.
  destruct (negb _); [discriminate|].
  now apply parse_tail_not_eof in H.
Qed.

Lemma firstn8_trailer : forall X : list byte, bytes_lt256 X -> (8 <= length X)%nat ->
  firstn 8 X = le32 (of_le (firstn 4 X)) ++ le32 (of_le (firstn 4 (skipn 4 X))).
Proof.
  intros X Hb Hl.
  do 8 (destruct X as [|? X]; [cbn [length] in Hl; lia|]).
  cbn [firstn skipn].
  unfold bytes_lt256 in Hb.
  repeat match goal with H : Forall _ (_ :: _) |- _ =>
    let H1 := fresh "Hx" in let H2 := fresh "Hr" in inversion H as [|? ? H1 H2]; subst; clear H end.
  rewrite <- (of_le4_inv b b0 b1 b2 _) by auto.
  rewrite <- (of_le4_inv b3 b4 b5 b6 _) by auto.
  reflexivity.
Qed.

Lemma read_body_none : forall l p rest', bytes_lt256 l -> gz_read_body l = (p, None, rest') ->
  status (inflate [] l) = Done /\ p = out (inflate [] l) /\
  firstn 8 (skipn (N.to_nat ((bitpos (inflate [] l) + 7) / 8)) l) = gz_trailer (out (inflate [] l)) /\
  rest' = skipn (N.to_nat ((bitpos (inflate [] l) + 7) / 8) + 8) l.
Proof.
  intros l p rest' Hb H. unfold gz_read_body in H. cbv zeta in H.
  set (r := inflate [] l) in *. set (n := N.to_nat ((bitpos r + 7) / 8)) in *.
  destruct (status r); try discriminate.
  set (X := skipn n l) in *.
  destruct (Nat.ltb_spec (length X) 8) as [L|L]; [discriminate|].
  destruct ((of_le (firstn 4 X) =? crc32 (out r)) &&
            (of_le (firstn 4 (skipn 4 X)) =? N.of_nat (length (out r)) mod 4294967296)) eqn:E;
    [|discriminate].
  apply andb_prop in E. destruct E as [E1 E2]. apply N.eqb_eq in E1, E2.
  injection H as <- <-. repeat split.
  - rewrite (firstn8_trailer X); [| apply Forall_skipn'; exact Hb | exact L].
    unfold gz_trailer. now rewrite E1, E2.
  - unfold X. exact (skipn_skipn' _ 8%nat n l).
Qed.

Lemma read_body_some : forall l p e rest', gz_read_body l = (p, Some e, rest') -> e <> CEOF.
Proof.
  intros l p e rest' H. unfold gz_read_body in H. cbv zeta in H.
  destruct (status (inflate [] l)); try (injection H as <- <- <-; discriminate).
  destruct (_ <? _)%nat; [injection H as <- <- <-; discriminate|].
  destruct (_ && _); [discriminate|]. injection H as <- <- <-; discriminate.
Qed.

Lemma members_eof : forall fuel multi l h rest acc hs, bytes_lt256 l ->
  gz_parse_header l = HP_ok h rest ->
  g_err (gz_members fuel multi rest acc hs) = CEOF ->
  exists p, g_payload (gz_members fuel multi rest acc hs) = acc ++ p /\
            gz_stream multi l p (g_left (gz_members fuel multi rest acc hs)).
Proof.
  induction fuel as [|f IH]; intros multi l h rest acc hs Hb Hp He; cbn [gz_members] in *;
    [cbn [g_err] in He; discriminate|].
  assert (Hbr : bytes_lt256 rest) by (eapply suffix_bytes; [eapply parse_ok_suffix; eauto|exact Hb]).
  destruct (gz_read_body rest) as [[payload e] rest'] eqn:Eb.
  destruct e as [err|].
  { cbn [g_err] in He. subst err. now apply read_body_some in Eb. }
  destruct (read_body_none _ _ _ Hbr Eb) as (Hd & Hpay & Htr & Hrest).
  set (n := N.to_nat ((bitpos (inflate [] rest) + 7) / 8)) in *.
  destruct multi; cbn [negb] in *.
  - destruct (gz_parse_header rest') as [h' rest''|e'] eqn:Ep.
    + assert (Hbr' : bytes_lt256 rest').
      { subst rest'. now apply Forall_skipn'. }
      destruct (IH true rest' h' rest'' (acc ++ payload) (h' :: hs) Hbr' Ep He) as (p' & Hp' & Hs').
      exists (payload ++ p'). split; [now rewrite Hp', app_assoc|].
      rewrite Hpay. apply (GS_more l h rest n p' _ Hp Hd eq_refl Htr).
      rewrite <- Hrest. rewrite <- Hpay. exact Hs'.
    + assert (e' = CEOF) by (destruct e'; cbn [g_err] in He; congruence). subst e'.
      apply parse_eof_nil in Ep.
      exists payload. split; [reflexivity|]. cbn [g_left].
      assert (G : gz_stream true l (out (inflate [] rest)) (skipn (n + 8) rest)).
      { apply (GS_last true l h rest n Hp Hd eq_refl Htr). right. rewrite <- Hrest. exact Ep. }
      rewrite <- Hrest in G. rewrite Ep in G. rewrite Hpay. exact G.
  - exists payload. split; [reflexivity|]. cbn [g_left]. rewrite Hpay, Hrest.
    apply (GS_last false l h rest n Hp Hd eq_refl Htr). now left.
Qed.

Theorem gz_eof_checked : gz_eof_checked_statement.
Proof.
  intros multi l Hb He Hc. unfold gz_read in *.
  destruct (gz_parse_header l) as [h rest|e] eqn:Ep; [|cbn [g_at_ctor] in Hc; discriminate].
  destruct (members_eof _ _ _ _ _ [] [h] Hb Ep He) as (p & Hp & Hs).
  rewrite Hp. exact Hs.
Qed.

Lemma zl_read_eof : forall dict l, g_err (zl_read dict l) = CEOF ->
  exists d r1, suffix r1 l /\ zl_read dict l = zl_body d r1.
Proof.
  intros dict l H. unfold zl_read in *.
  destruct (length l <? 2)%nat; [discriminate|].
  destruct (negb _); [discriminate|]. cbv zeta in *.
  destruct (N.testbit (nth 1 l 0) 5).
  - destruct (length (skipn 2 l) <? 4)%nat; [discriminate|].
    destruct dict as [d|]; [|discriminate].
    destruct (_ =? _); [|discriminate].
    exists d, (skipn 4 (skipn 2 l)). split; [|reflexivity].
    eapply suffix_trans; [exact (suffix_skipn 4 (skipn 2 l)) | exact (suffix_skipn 2 l)].
  - exists [], (skipn 2 l). split; [exact (suffix_skipn 2 l)|reflexivity].
Qed.

Lemma zl_body_eof : forall d r1, g_err (zl_body d r1) = CEOF ->
  let r := inflate d r1 in
  let X := skipn (N.to_nat ((bitpos r + 7) / 8)) r1 in
  status r = Done /\ g_payload (zl_body d r1) = out r /\ (4 <= length X)%nat /\
  of_be (firstn 4 X) = adler32 (out r).
Proof.
  intros d r1 H. unfold zl_body in *. cbv zeta in *.
  destruct (status (inflate d r1)); try discriminate.
  destruct (Nat.ltb_spec (length (skipn (N.to_nat ((bitpos (inflate d r1) + 7) / 8)) r1)) 4) as [L|L];
    [discriminate|].
  destruct (N.eqb_spec (of_be (firstn 4 (skipn (N.to_nat ((bitpos (inflate d r1) + 7) / 8)) r1)))
                       (adler32 (out (inflate d r1)))) as [E|E]; [|discriminate].
  repeat split; auto.
Qed.

Lemma firstn4_be : forall X : list byte, bytes_lt256 X -> (4 <= length X)%nat ->
  firstn 4 X = be32 (of_be (firstn 4 X)).
Proof.
  intros X Hb Hl.
  do 4 (destruct X as [|? X]; [cbn [length] in Hl; lia|]).
  cbn [firstn]. unfold bytes_lt256 in Hb.
  repeat match goal with H : Forall _ (_ :: _) |- _ =>
    let H1 := fresh "Hx" in let H2 := fresh "Hr" in inversion H as [|? ? H1 H2]; subst; clear H end.
  apply of_be4_inv; auto.
Qed.

Theorem zl_eof_checked : zl_eof_checked_statement.
Proof.
  intros dict l Hb H.
  destruct (zl_read_eof dict l H) as (d & r1 & Hs & E). rewrite E in *.
  destruct (zl_body_eof d r1 H) as (Hd & Hp & Hl & Ha).
  exists d, r1, (inflate d r1). repeat split; auto.
  rewrite <- Ha. apply firstn4_be; auto.
  apply Forall_skipn'. eapply suffix_bytes; eauto.
Qed.

(* the same conclusion without the byte premise, from two facts about the inflater *)
Theorem zl_eof_checked_exact_partial :
  inflate_mono_statement -> inflate_done_exact_statement ->
  forall dict l, g_err (zl_read dict l) = CEOF ->
    exists d rest r, r = inflate d rest /\ status r = Done /\ g_payload (zl_read dict l) = out r /\
      firstn 4 (skipn (N.to_nat ((bitpos r + 7) / 8)) rest) = be32 (adler32 (out r)).
Proof.
  intros M Ex dict l H.
  destruct (zl_read_eof dict l H) as (d & r1 & Hs & E). rewrite E in *.
  destruct (zl_body_eof d r1 H) as (Hd & Hp & Hl & Ha).
  set (r := inflate d r1) in *. set (n := N.to_nat ((bitpos r + 7) / 8)) in *.
  pose proof (Ex d r1 Hd) as Hex. cbv zeta in Hex. fold r in Hex. fold n in Hex.
  assert (Hn : length (firstn n r1) = n).
  { rewrite firstn_length. rewrite skipn_length in Hl. lia. }
  assert (Hr : inflate d (firstn n r1 ++ be32 (adler32 (out r))) = r).
  { rewrite (mono_done M d (firstn n r1)); [exact Hex|]. rewrite Hex. exact Hd. }
  exists d, (firstn n r1 ++ be32 (adler32 (out r))), r.
  split; [now rewrite Hr|]. split; [exact Hd|]. split; [exact Hp|].
  fold n. rewrite <- Hn at 1. rewrite skipn_len_app. reflexivity.
Qed.

(* ---------------------------------------------------------------- *)
(* truncated members                                                *)
(* ---------------------------------------------------------------- *)

Lemma gz_header_cons' : forall h,
  gz_header h =
  31 :: 139 :: 8 :: gz_flags h ::
  g_mtime h mod 256 :: (g_mtime h / 256) mod 256 :: (g_mtime h / 65536) mod 256 ::
  (g_mtime h / 16777216) mod 256 :: g_xfl h :: g_os h ::
  (enc_extra (g_extra h) ++ enc_str (g_name h) ++ enc_str (g_comment h) ++
   crc_part (g_hcrc h) (gz_header_nocrc h)).
Proof.
  intros h. rewrite <- (app_nil_r (gz_header h)) at 1. rewrite gz_header_cons.
  now rewrite app_nil_r.
Qed.

Lemma parse_header_trunc : forall h k, ghdr_ok h -> (k < length (gz_header h))%nat ->
  gz_parse_header (firstn k (gz_header h))
    = HP_err (match k with O => CEOF | S _ => CUnexpectedEOF end).
Proof.
  intros h k (Hmt & Hxfl & Hos & He & _ & _ & _ & Hn1 & Hc1 & Hn2 & Hc2) Hk.
  pose proof (gz_flags_bits h) as (F1 & F2 & F3 & F4).
  rewrite gz_header_cons' in *.
  do 10 (destruct k as [|k]; [reflexivity|]).
  cbn [firstn]. cbn [length] in Hk.
  erewrite parse_fixed by reflexivity.
  eapply parse_tail_trunc; eauto; [apply crc_part_len | lia].
Qed.

Lemma read_body_trunc : inflate_mono_statement -> forall body payload j,
  body_for body payload -> (j < length body + 8)%nat ->
  exists p rest', gz_read_body (firstn j (body ++ gz_trailer payload)) = (p, Some CUnexpectedEOF, rest')
    /\ is_prefix p payload.
Proof.
  intros M body payload j (Hd & Ho & Hn) Hj.
  destruct (lt_dec j (length body)) as [L|L].
  - rewrite firstn_app_le by lia.
    set (s := firstn j body). set (t := skipn j body).
    assert (Eb : body = s ++ t) by (unfold s, t; now rewrite firstn_skipn).
    assert (Hs : length s = j) by (unfold s; rewrite firstn_length; lia).
    unfold gz_read_body. cbv zeta.
    destruct (status (inflate [] s)) eqn:Es.
    + pose proof (mono_done M [] s t Es) as Em. rewrite <- Eb in Em.
      rewrite <- Em. rewrite Hn, Nat2N.id, Ho.
      rewrite skipn_all2 by lia. cbn [length]. change (0 <? 8)%nat with true. cbn iota.
      exists payload, []. split; [reflexivity|]. exists []. now rewrite app_nil_r.
    + exists (out (inflate [] s)), []. split; [reflexivity|].
      pose proof (mono_need M [] s t Es) as Hp. rewrite <- Eb, Ho in Hp. exact Hp.
    + pose proof (mono_corrupt M [] s t Es) as Hc. rewrite <- Eb in Hc. congruence.
    + exfalso. eapply mono_nofuel; eauto.
  - rewrite firstn_app_ge by lia.
    unfold gz_read_body. cbv zeta.
    rewrite (mono_done M [] body _ Hd). rewrite Hd, Hn, Nat2N.id, Ho.
    rewrite skipn_len_app. rewrite firstn_length. rewrite trailer_len.
    destruct (Nat.ltb_spec (Nat.min (j - length body) 8) 8) as [H8|H8]; [|lia].
    exists payload, []. split; [reflexivity|]. exists []. now rewrite app_nil_r.
Qed.

Theorem gz_payload_prefix : gz_payload_prefix_statement.
Proof.
  intros M _ h body payload k Hh Hb whole Hk r. subst r whole.
  unfold gz_member in *. rewrite app_length in Hk.
  destruct (lt_dec k (length (gz_header h))) as [L|L].
  - rewrite firstn_app_le by lia. unfold gz_read.
    rewrite (parse_header_trunc h k Hh L). cbn [g_payload g_err].
    split; [now exists payload|]. destruct k; auto.
  - rewrite firstn_app_ge by lia. unfold gz_read.
    rewrite (gz_header_roundtrip h _ Hh). cbn [gz_members].
    rewrite app_length, trailer_len in Hk.
    destruct (read_body_trunc M body payload (k - length (gz_header h)) Hb) as (p & rest' & E & Hp);
      [lia|].
    rewrite E. cbn [app g_payload g_err]. split; [exact Hp|now left].
Qed.

Print Assumptions checksum_width.
Print Assumptions gz_header_roundtrip.
Print Assumptions gz_member_roundtrip.
Print Assumptions gz_member_by_member.
Print Assumptions gz_concat.
Print Assumptions zl_roundtrip.
Print Assumptions gz_eof_checked.
Print Assumptions zl_eof_checked.
Print Assumptions gz_payload_prefix.
Print Assumptions zl_eof_checked_exact_partial.
Print Assumptions inflate_out_bytes.
