(* ContainersProofs.v — proofs of the statements of RModel/ContainersSpec.v. *)
From Verif Require Import ContainersSpec.
From Coq Require Import ZArith Lia ZifyBool ZifyNat ZifyN.
Open Scope N_scope.

(* ---------------------------------------------------------------- *)
(* generic list facts                                               *)
(* ---------------------------------------------------------------- *)

Lemma firstn_len_app : forall (A : Type) (a b : list A), firstn (length a) (a ++ b) = a.
Proof.
  intros A a b. induction a as [|x a IH]; cbn [length firstn app].
  - destruct b; reflexivity.
  - now rewrite IH.
Qed.

Lemma skipn_len_app : forall (A : Type) (a b : list A), skipn (length a) (a ++ b) = b.
Proof.
  intros A a b. induction a as [|x a IH]; cbn [length skipn app]; auto.
Qed.

Lemma firstn_app_le : forall (A : Type) n (a b : list A), (n <= length a)%nat ->
  firstn n (a ++ b) = firstn n a.
Proof.
  intros A n a b H. rewrite firstn_app.
  replace (n - length a)%nat with 0%nat by lia. cbn [firstn]. now rewrite app_nil_r.
Qed.

Lemma firstn_app_ge : forall (A : Type) n (a b : list A), (length a <= n)%nat ->
  firstn n (a ++ b) = a ++ firstn (n - length a) b.
Proof.
  intros A n a b H. rewrite firstn_app. now rewrite (firstn_all2 a) by lia.
Qed.

Lemma Forall_firstn' : forall (A : Type) (P : A -> Prop) n l, Forall P l -> Forall P (firstn n l).
Proof.
  intros A P n. induction n as [|n IH]; intros l H; cbn [firstn]; [constructor|].
  destruct l as [|x l]; [constructor|]. inversion H; subst. constructor; auto.
Qed.

Lemma Forall_skipn' : forall (A : Type) (P : A -> Prop) n l, Forall P l -> Forall P (skipn n l).
Proof.
  intros A P n. induction n as [|n IH]; intros l H; cbn [skipn]; auto.
  destruct l as [|x l]; [constructor|]. inversion H; subst. auto.
Qed.

Lemma Forall_frev : forall (A : Type) (P : A -> Prop) l, Forall P l -> Forall P (frev l).
Proof.
  intros A P l H. unfold frev. rewrite <- rev_alt. now apply Forall_rev.
Qed.

Lemma skipn_skipn' : forall (A : Type) a b (l : list A), skipn a (skipn b l) = skipn (b + a) l.
Proof.
  intros A a b. induction b as [|b IH]; intros l; cbn [skipn Nat.add]; auto.
  destruct l as [|x l]; [now rewrite skipn_nil|]. apply IH.
Qed.

(* ---------------------------------------------------------------- *)
(* byte-order encodings                                             *)
(* ---------------------------------------------------------------- *)

Ltac Zify.zify_post_hook ::= Z.div_mod_to_equations.

Lemma of_le_le32 : forall v, v < 4294967296 -> of_le (le32 v) = v.
Proof. intros v H. unfold of_le, le32. cbn [fold_right]. lia. Qed.

Lemma of_le_le16 : forall v, v < 65536 -> of_le (le16 v) = v.
Proof. intros v H. unfold of_le, le16. cbn [fold_right]. lia. Qed.

Lemma of_be_be32 : forall v, v < 4294967296 -> of_be (be32 v) = v.
Proof. intros v H. unfold of_be, be32. cbn [fold_left]. lia. Qed.

Lemma of_le4_inv : forall a b c d v, a < 256 -> b < 256 -> c < 256 -> d < 256 ->
  of_le [a; b; c; d] = v -> [a; b; c; d] = le32 v.
Proof.
  intros a b c d v Ha Hb Hc Hd H. unfold of_le in H. cbn [fold_right] in H. unfold le32.
  repeat f_equal; lia.
Qed.

Lemma of_be4_inv : forall a b c d v, a < 256 -> b < 256 -> c < 256 -> d < 256 ->
  of_be [a; b; c; d] = v -> [a; b; c; d] = be32 v.
Proof.
  intros a b c d v Ha Hb Hc Hd H. unfold of_be in H. cbn [fold_left] in H. unfold be32.
  repeat f_equal; lia.
Qed.

(* ---------------------------------------------------------------- *)
(* checksums                                                        *)
(* ---------------------------------------------------------------- *)

Lemma lxor_lt_pow2 : forall n a b, a < 2 ^ n -> b < 2 ^ n -> N.lxor a b < 2 ^ n.
Proof.
  intros n a b Ha Hb.
  destruct (N.eq_dec (N.lxor a b) 0) as [E|E]; [rewrite E; lia|].
  apply N.log2_lt_pow2; [lia|].
  eapply N.le_lt_trans; [apply N.log2_lxor|].
  assert (Hn : 0 < n).
  { destruct (N.eq_dec n 0) as [En|En]; [|lia]. subst n. change (2 ^ 0) with 1 in *.
    assert (a = 0) by lia. assert (b = 0) by lia. subst. now cbn in E. }
  apply N.max_lub_lt.
  - destruct (N.eq_dec a 0) as [Ea|Ea]; [subst a; now cbn|]. apply N.log2_lt_pow2; lia.
  - destruct (N.eq_dec b 0) as [Eb|Eb]; [subst b; now cbn|]. apply N.log2_lt_pow2; lia.
Qed.

Lemma shiftr1_le : forall c, N.shiftr c 1 <= c.
Proof. intros c. rewrite N.shiftr_div_pow2. change (2 ^ 1) with 2. lia. Qed.

Lemma crc_bits_lt : forall n c, c < 2 ^ 32 -> crc_bits n c < 2 ^ 32.
Proof.
  induction n as [|n IH]; intros c H; cbn [crc_bits]; auto.
  apply IH. pose proof (shiftr1_le c) as Hs.
  destruct (N.odd c).
  - apply lxor_lt_pow2; [lia|]. unfold crc_poly. reflexivity.
  - lia.
Qed.

Lemma crc_fold_lt : forall l c, Forall (fun x => x < 2 ^ 32) l -> c < 2 ^ 32 ->
  fold_left crc_byte l c < 2 ^ 32.
Proof.
  induction l as [|x l IH]; intros c Hl Hc; cbn [fold_left]; auto.
  inversion Hl as [|? ? Hx Hl']; subst. apply IH; auto.
  unfold crc_byte. apply crc_bits_lt. apply lxor_lt_pow2; auto.
Qed.

Lemma crc32_lt_gen : forall l, Forall (fun x => x < 2 ^ 32) l -> crc32 l < 4294967296.
Proof.
  intros l H. change 4294967296 with (2 ^ 32). unfold crc32, crc32_update.
  apply lxor_lt_pow2; [|reflexivity].
  apply crc_fold_lt; auto. reflexivity.
Qed.

Lemma crc32_lt : forall l, bytes_lt256 l -> crc32 l < 4294967296.
Proof.
  intros l H. apply crc32_lt_gen. eapply Forall_impl; [|exact H].
  cbn beta. intros a Ha. change (2 ^ 32) with 4294967296. lia.
Qed.

Lemma adler_fold_inv : forall l s, fst s < 65521 -> snd s < 65521 ->
  fst (fold_left adler_step l s) < 65521 /\ snd (fold_left adler_step l s) < 65521.
Proof.
  induction l as [|x l IH]; intros s H1 H2; cbn [fold_left]; auto.
  apply IH; unfold adler_step; cbn [fst snd]; apply N.mod_lt; lia.
Qed.

Lemma adler32_lt : forall l, adler32 l < 4294967296.
Proof.
  intros l. unfold adler32.
  destruct (adler_fold_inv l (1, 0)) as [H1 H2]; cbn [fst snd]; try lia.
Qed.

(* checksum_width_statement is false as stated (see the counterexample below): the CRC of a
   list with an element >= 2^40 is not below 2^32.  It holds for lists of bytes. *)
Lemma checksum_width_counterexample : ~ checksum_width_statement.
Proof.
  intros H. destruct (H [1099511627776]) as [H1 _]. vm_compute in H1. discriminate.
Qed.

Theorem checksum_width_partial : forall l, bytes_lt256 l ->
  crc32 l < 4294967296 /\ adler32 l < 4294967296.
Proof. intros l H. split; [now apply crc32_lt | apply adler32_lt]. Qed.

(* ---------------------------------------------------------------- *)
(* gzip header: staged view of gz_parse_header                      *)
(* ---------------------------------------------------------------- *)

Definition p_extra (b : bool) (r0 : list byte) : (list byte * list byte) + cerr :=
  if b then
    if (length r0 <? 2)%nat then inr CUnexpectedEOF else
    let n := N.to_nat (of_le (firstn 2 r0)) in
    let r1 := skipn 2 r0 in
    if (length r1 <? n)%nat then inr CUnexpectedEOF else inl (firstn n r1, skipn n r1)
  else inl ([], r0).

Definition p_str (b : bool) (r : list byte) : (list byte * list byte) + cerr :=
  if b then
    match read_cstring 512 r [] with
    | None => inr CUnexpectedEOF | Some None => inr CHeader | Some (Some (s, r')) => inl (s, r')
    end
  else inl ([], r).

Definition p_crc (b : bool) (l : list byte) (mtime xfl os : N) (extra name comment r3 : list byte) : hparse :=
  if b then
    if (length r3 <? 2)%nat then HP_err CUnexpectedEOF else
    let consumed := firstn (length l - length r3) l in
    if of_le (firstn 2 r3) =? crc32 consumed mod 65536
    then HP_ok (mkgh mtime xfl os extra name comment true) (skipn 2 r3)
    else HP_err CHeader
  else HP_ok (mkgh mtime xfl os extra name comment false) r3.

Definition parse_tail (l : list byte) (flg mtime xfl os : N) (r0 : list byte) : hparse :=
  match p_extra (N.testbit flg 2) r0 with
  | inr e => HP_err e
  | inl (extra, r1) =>
    match p_str (N.testbit flg 3) r1 with
    | inr e => HP_err e
    | inl (name, r2) =>
      match p_str (N.testbit flg 4) r2 with
      | inr e => HP_err e
      | inl (comment, r3) => p_crc (N.testbit flg 1) l mtime xfl os extra name comment r3
      end
    end
  end.

Lemma parse_staged : forall l,
  gz_parse_header l =
  match l with
  | [] => HP_err CEOF
  | _ =>
    if (length l <? 10)%nat then HP_err CUnexpectedEOF else
    let fixed := firstn 10 l in
    if negb ((nth 0 fixed 0 =? 31) && (nth 1 fixed 0 =? 139) && (nth 2 fixed 0 =? 8)) then HP_err CHeader else
    parse_tail l (nth 3 fixed 0) (of_le (firstn 4 (skipn 4 fixed))) (nth 8 fixed 0) (nth 9 fixed 0) (skipn 10 l)
  end.
Proof. intros l. destruct l; reflexivity. Qed.

Lemma parse_fixed : forall l flg m0 m1 m2 m3 xfl os tail,
  l = 31 :: 139 :: 8 :: flg :: m0 :: m1 :: m2 :: m3 :: xfl :: os :: tail ->
  gz_parse_header l = parse_tail l flg (of_le [m0; m1; m2; m3]) xfl os tail.
Proof. intros l flg m0 m1 m2 m3 xfl os tail E. rewrite parse_staged. subst l. reflexivity. Qed.

Definition nilb (l : list byte) : bool := match l with [] => true | _ => false end.
Definition enc_extra (e : list byte) : list byte :=
  match e with [] => [] | e' => le16 (N.of_nat (length e')) ++ e' end.
Definition enc_str (s : list byte) : list byte :=
  match s with [] => [] | s' => s' ++ [0] end.

Lemma p_extra_gen : forall a b e Y, N.to_nat (of_le [a; b]) = length e ->
  p_extra true (a :: b :: e ++ Y) = inl (e, Y).
Proof.
  intros a b e Y H. unfold p_extra. cbn [length firstn skipn].
  change (S (S (length (e ++ Y))) <? 2)%nat with false. cbn iota. cbv zeta.
  rewrite H. rewrite firstn_len_app, skipn_len_app.
  destruct (Nat.ltb_spec (length (e ++ Y)) (length e)) as [H1|H1]; [|reflexivity].
  rewrite app_length in H1. lia.
Qed.

Lemma p_extra_gen_trunc : forall a b e j, N.to_nat (of_le [a; b]) = length e ->
  (j < 2 + length e)%nat ->
  p_extra true (firstn j (a :: b :: e)) = inr CUnexpectedEOF.
Proof.
  intros a b e j H Hj. destruct j as [|[|j]]; try reflexivity.
  unfold p_extra. cbn [length firstn skipn].
  change (S (S (length (firstn j e))) <? 2)%nat with false. cbn iota. cbv zeta.
  rewrite H. rewrite firstn_length.
  destruct (Nat.ltb_spec (Nat.min j (length e)) (length e)) as [H1|H1]; [reflexivity|]. lia.
Qed.

Lemma lt65536 : forall n, (n < 65536)%nat -> N.of_nat n < 65536.
Proof.
  intros n. unfold Nat.of_num_uint, Nat.of_uint. cbn [Nat.of_uint_acc].
  rewrite !Nat.tail_mul_spec. lia.
Qed.

Lemma le16_len : forall e : list byte, (length e < 65536)%nat ->
  N.to_nat (of_le [N.of_nat (length e) mod 256; (N.of_nat (length e) / 256) mod 256]) = length e.
Proof.
  intros e He. apply lt65536 in He.
  fold (le16 (N.of_nat (length e))). rewrite of_le_le16 by lia. apply Nat2N.id.
Qed.

Lemma p_extra_ok : forall e Y, (length e < 65536)%nat ->
  p_extra (negb (nilb e)) (enc_extra e ++ Y) = inl (e, Y).
Proof.
  intros e Y He. destruct e as [|x e]; [reflexivity|].
  set (e' := x :: e) in *. unfold enc_extra, nilb. fold e'.
  change (match e' with [] => [] | _ :: _ => le16 (N.of_nat (length e')) ++ e' end)
    with (le16 (N.of_nat (length e')) ++ e').
  change (negb match e' with [] => true | _ :: _ => false end) with true.
  unfold le16. cbn [app]. apply p_extra_gen. now apply le16_len.
Qed.

Lemma p_extra_trunc : forall e j, (length e < 65536)%nat -> (j < length (enc_extra e))%nat ->
  p_extra (negb (nilb e)) (firstn j (enc_extra e)) = inr CUnexpectedEOF.
Proof.
  intros e j He Hj. destruct e as [|x e]; [cbn [enc_extra length] in Hj; lia|].
  set (e' := x :: e) in *. unfold enc_extra, nilb in *. fold e' in Hj |- *.
  change (match e' with [] => [] | _ :: _ => le16 (N.of_nat (length e')) ++ e' end)
    with (le16 (N.of_nat (length e')) ++ e') in *.
  change (negb match e' with [] => true | _ :: _ => false end) with true.
  unfold le16 in *. cbn [app length] in *. apply p_extra_gen_trunc; [now apply le16_len | lia].
Qed.

Lemma read_cstring_ok : forall s fuel acc Y, ~ In 0 s -> (length s < fuel)%nat ->
  read_cstring fuel (s ++ 0 :: Y) acc = Some (Some (rev acc ++ s, Y)).
Proof.
  induction s as [|x s IH]; intros fuel acc Y Hz Hl; (destruct fuel as [|f]; [cbn [length] in Hl; lia|]);
    cbn [app read_cstring].
  - change (0 =? 0) with true. cbn iota. now rewrite app_nil_r.
  - assert (Hx : x <> 0) by (intros ->; apply Hz; now left).
    destruct (N.eqb_spec x 0) as [E|E]; [contradiction|].
    rewrite IH; [| intros Hin; apply Hz; now right | cbn [length] in Hl; lia].
    cbn [rev]. now rewrite <- app_assoc.
Qed.

Lemma read_cstring_trunc : forall s fuel acc, ~ In 0 s -> (length s < fuel)%nat ->
  read_cstring fuel s acc = None.
Proof.
  induction s as [|x s IH]; intros fuel acc Hz Hl; (destruct fuel as [|f]; [cbn [length] in Hl; lia|]);
    cbn [read_cstring]; [reflexivity|].
  assert (Hx : x <> 0) by (intros ->; apply Hz; now left).
  destruct (N.eqb_spec x 0) as [E|E]; [contradiction|].
  apply IH; [intros Hin; apply Hz; now right | cbn [length] in Hl; lia].
Qed.

Lemma p_str_ok : forall s Y, ~ In 0 s -> (length s < 512)%nat ->
  p_str (negb (nilb s)) (enc_str s ++ Y) = inl (s, Y).
Proof.
  intros s Y Hz Hl. destruct s as [|x s]; [reflexivity|].
  change (enc_str (x :: s)) with ((x :: s) ++ [0]).
  change (negb (nilb (x :: s))) with true.
  unfold p_str. rewrite <- app_assoc. cbn [app].
  change (x :: s ++ 0 :: Y) with ((x :: s) ++ 0 :: Y).
  rewrite read_cstring_ok by assumption. reflexivity.
Qed.

Lemma not_in_firstn : forall (s : list byte) j, ~ In 0 s -> ~ In 0 (firstn j s).
Proof.
  intros s j H Hin. apply H. rewrite <- (firstn_skipn j s). apply in_or_app. now left.
Qed.

Lemma p_str_trunc : forall s j, ~ In 0 s -> (length s < 512)%nat -> (j < length (enc_str s))%nat ->
  p_str (negb (nilb s)) (firstn j (enc_str s)) = inr CUnexpectedEOF.
Proof.
  intros s j Hz Hl Hj. destruct s as [|x s]; [cbn [enc_str length] in Hj; lia|].
  change (enc_str (x :: s)) with ((x :: s) ++ [0]) in *.
  change (negb (nilb (x :: s))) with true.
  rewrite app_length in Hj. cbn [length] in Hj.
  rewrite firstn_app_le by (cbn [length]; lia).
  unfold p_str. rewrite read_cstring_trunc; [reflexivity | now apply not_in_firstn |].
  rewrite firstn_length. lia.
Qed.

Lemma gz_flags_bits : forall h,
  N.testbit (gz_flags h) 1 = g_hcrc h /\
  N.testbit (gz_flags h) 2 = negb (nilb (g_extra h)) /\
  N.testbit (gz_flags h) 3 = negb (nilb (g_name h)) /\
  N.testbit (gz_flags h) 4 = negb (nilb (g_comment h)).
Proof.
  intros h. destruct h as [mt xfl os e n c hc]. unfold gz_flags.
  cbn [g_hcrc g_extra g_name g_comment].
  destruct hc, e, n, c; repeat split; reflexivity.
Qed.

Definition crc_part (hc : bool) (pre : list byte) : list byte :=
  if hc then le16 (crc32 pre mod 65536) else [].

Lemma crc_part_len : forall hc pre, length (crc_part hc pre) = if hc then 2%nat else 0%nat.
Proof. intros hc pre. destruct hc; reflexivity. Qed.

Lemma p_crc_true : forall pre a b rest mt xfl os e nm cm,
  of_le [a; b] = crc32 pre mod 65536 ->
  p_crc true (pre ++ a :: b :: rest) mt xfl os e nm cm (a :: b :: rest)
    = HP_ok (mkgh mt xfl os e nm cm true) rest.
Proof.
  intros pre a b rest mt xfl os e nm cm H. unfold p_crc. cbn [length firstn skipn].
  change (S (S (length rest)) <? 2)%nat with false. cbn iota. cbv zeta.
  rewrite app_length. cbn [length].
  replace (length pre + S (S (length rest)) - S (S (length rest)))%nat with (length pre) by lia.
  rewrite firstn_len_app. rewrite H, N.eqb_refl. reflexivity.
Qed.

Lemma parse_tail_ok : forall l flg mt xfl os e nm cm hc pre rest,
  N.testbit flg 1 = hc -> N.testbit flg 2 = negb (nilb e) ->
  N.testbit flg 3 = negb (nilb nm) -> N.testbit flg 4 = negb (nilb cm) ->
  (length e < 65536)%nat -> ~ In 0 nm -> (length nm < 512)%nat ->
  ~ In 0 cm -> (length cm < 512)%nat ->
  l = pre ++ crc_part hc pre ++ rest ->
  parse_tail l flg mt xfl os (enc_extra e ++ enc_str nm ++ enc_str cm ++ crc_part hc pre ++ rest)
    = HP_ok (mkgh mt xfl os e nm cm hc) rest.
Proof.
  intros l flg mt xfl os e nm cm hc pre rest F1 F2 F3 F4 He Hn1 Hn2 Hc1 Hc2 El.
  unfold parse_tail. rewrite F1, F2, F3, F4.
  rewrite p_extra_ok by assumption. rewrite p_str_ok by assumption. rewrite p_str_ok by assumption.
  unfold p_crc. destruct hc; [|reflexivity].
  subst l. unfold crc_part. set (c := crc32 pre mod 65536).
  assert (Hc : c < 65536) by (unfold c; apply N.mod_lt; lia).
  pose proof (of_le_le16 c Hc) as Hle. unfold le16 in *. cbn [app].
  now apply p_crc_true.
Qed.

Lemma parse_tail_trunc : forall l flg mt xfl os e nm cm hc cp j,
  N.testbit flg 1 = hc -> N.testbit flg 2 = negb (nilb e) ->
  N.testbit flg 3 = negb (nilb nm) -> N.testbit flg 4 = negb (nilb cm) ->
  (length e < 65536)%nat -> ~ In 0 nm -> (length nm < 512)%nat ->
  ~ In 0 cm -> (length cm < 512)%nat ->
  length cp = (if hc then 2%nat else 0%nat) ->
  (j < length (enc_extra e ++ enc_str nm ++ enc_str cm ++ cp))%nat ->
  parse_tail l flg mt xfl os (firstn j (enc_extra e ++ enc_str nm ++ enc_str cm ++ cp))
    = HP_err CUnexpectedEOF.
Proof.
  intros l flg mt xfl os e nm cm hc cp j F1 F2 F3 F4 He Hn1 Hn2 Hc1 Hc2 Hcp Hj.
  rewrite !app_length in Hj.
  unfold parse_tail. rewrite F1, F2, F3, F4.
  destruct (lt_dec j (length (enc_extra e))) as [L1|L1].
  { rewrite firstn_app_le by lia. rewrite p_extra_trunc by assumption. reflexivity. }
  rewrite firstn_app_ge by lia.
  rewrite p_extra_ok by assumption.
  set (j1 := (j - length (enc_extra e))%nat).
  destruct (lt_dec j1 (length (enc_str nm))) as [L2|L2].
  { rewrite firstn_app_le by lia. rewrite p_str_trunc by assumption. reflexivity. }
  rewrite firstn_app_ge by lia.
  rewrite p_str_ok by assumption.
  set (j2 := (j1 - length (enc_str nm))%nat).
  destruct (lt_dec j2 (length (enc_str cm))) as [L3|L3].
  { rewrite firstn_app_le by lia. rewrite p_str_trunc by assumption. reflexivity. }
  rewrite firstn_app_ge by lia.
  rewrite <- (app_nil_r (enc_str cm)) at 1. rewrite <- app_assoc.
  rewrite p_str_ok by assumption. cbn [app].
  unfold p_crc. destruct hc; [|lia].
  rewrite firstn_length.
  destruct (Nat.ltb_spec (Nat.min (j2 - length (enc_str cm)) (length cp)) 2) as [H|H]; [reflexivity|lia].
Qed.

Lemma gz_header_shape : forall h,
  gz_header h = gz_header_nocrc h ++ crc_part (g_hcrc h) (gz_header_nocrc h).
Proof.
  intros h. unfold gz_header, crc_part. destruct (g_hcrc h); [reflexivity|].
  now rewrite app_nil_r.
Qed.

Definition hdr_tail (h : ghdr) : list byte :=
  enc_extra (g_extra h) ++ enc_str (g_name h) ++ enc_str (g_comment h).

Lemma nocrc_shape : forall h,
  gz_header_nocrc h =
  31 :: 139 :: 8 :: gz_flags h ::
  g_mtime h mod 256 :: (g_mtime h / 256) mod 256 :: (g_mtime h / 65536) mod 256 ::
  (g_mtime h / 16777216) mod 256 :: g_xfl h :: g_os h :: hdr_tail h.
Proof. intros h. unfold gz_header_nocrc, hdr_tail, le32, enc_extra, enc_str. cbn [app].
reflexivity. Qed.

Lemma gz_header_cons : forall h Y,
  gz_header h ++ Y =
  31 :: 139 :: 8 :: gz_flags h ::
  g_mtime h mod 256 :: (g_mtime h / 256) mod 256 :: (g_mtime h / 65536) mod 256 ::
  (g_mtime h / 16777216) mod 256 :: g_xfl h :: g_os h ::
  (enc_extra (g_extra h) ++ enc_str (g_name h) ++ enc_str (g_comment h) ++
   crc_part (g_hcrc h) (gz_header_nocrc h) ++ Y).
Proof.
  intros h Y. rewrite gz_header_shape. rewrite nocrc_shape at 1. unfold hdr_tail.
  cbn [app]. now rewrite <- !app_assoc.
Qed.

Theorem gz_header_roundtrip : gz_header_roundtrip_statement.
Proof.
  intros h rest (Hmt & Hxfl & Hos & He & _ & _ & _ & Hn1 & Hc1 & Hn2 & Hc2).
  pose proof (gz_flags_bits h) as (F1 & F2 & F3 & F4).
  rewrite (parse_fixed _ _ _ _ _ _ _ _ _ (gz_header_cons h rest)).
  fold (le32 (g_mtime h)). rewrite of_le_le32 by assumption.
  rewrite (parse_tail_ok _ _ _ _ _ _ _ _ (g_hcrc h) (gz_header_nocrc h) rest); auto.
  - destruct h; reflexivity.
  - rewrite gz_header_shape. now rewrite <- app_assoc.
Qed.
