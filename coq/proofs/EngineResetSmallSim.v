(* EngineResetSmallSim.v -- gen_small (GenerateForHeader / genForDists) run on two different stale
   (short, long) table pairs: same codes, same error, and -- when it succeeds -- tables whose lookups
   (clc_decode / dist_decode) cannot tell the difference.

   Delivered: gen_small_sim (= gen_small_sim_statement of EngineResetDefs.v, unchanged),
              small_rel_clc, small_rel_dist. *)
From Verif Require Import Base Engine EngineTables EngineSafetyBase EngineSafetyBits EngineSafetyInv EngineResetDepSmall EngineResetDefs.
From Coq Require Import List NArith ZArith Bool Lia ZifyBool ZifyNat ZifyN.
Import ListNotations.
Open Scope N_scope.

(* ---------------------------------------------------------------- two runs in lockstep *)
Lemma iterN_ind2 : forall (St : Type) (P : N -> St -> St -> Prop) (f : N -> St -> St) n i s1 s2,
  P i s1 s2 ->
  (forall j x y, i <= j < i + N.of_nat n -> P j x y -> P (j + 1) (f j x) (f j y)) ->
  P (i + N.of_nat n) (iterN n i f s1) (iterN n i f s2).
Proof.
  intros St P f n. induction n as [|k IH]; intros i s1 s2 H0 Hstep.
  - cbn [iterN]. replace (i + N.of_nat 0) with i by lia. exact H0.
  - cbn [iterN]. replace (i + N.of_nat (S k)) with ((i + 1) + N.of_nat k) by lia.
    apply IH.
    + apply Hstep; [lia|exact H0].
    + intros j x y Hj Hx. apply Hstep; [lia|exact Hx].
Qed.

Lemma forN_ind2 : forall (St : Type) (P : N -> St -> St -> Prop) (f : N -> St -> St) lo hi s1 s2,
  lo <= hi ->
  P lo s1 s2 ->
  (forall j x y, lo <= j < hi -> P j x y -> P (j + 1) (f j x) (f j y)) ->
  P hi (forN lo hi f s1) (forN lo hi f s2).
Proof.
  intros St P f lo hi s1 s2 Hle H0 Hstep. unfold forN.
  replace hi with (lo + N.of_nat (N.to_nat (hi - lo))) at 1 by lia.
  apply iterN_ind2; [exact H0|].
  intros j x y Hj Hx. apply Hstep; [lia|exact Hx].
Qed.

Lemma forN_inv2 : forall (St : Type) (P : St -> St -> Prop) (f : N -> St -> St) lo hi s1 s2,
  P s1 s2 ->
  (forall j x y, lo <= j < hi -> P x y -> P (f j x) (f j y)) ->
  P (forN lo hi f s1) (forN lo hi f s2).
Proof.
  intros St P f lo hi s1 s2 H0 Hstep.
  destruct (N.le_gt_cases lo hi) as [Hle|Hgt].
  - apply (forN_ind2 St (fun _ x y => P x y)); auto.
  - rewrite !forN_empty by lia. exact H0.
Qed.

(* ---------------------------------------------------------------- small bit facts *)
Lemma shiftr_lt_gen : forall x a m, x < 2 ^ m -> N.shiftr x a < 2 ^ (m - a).
Proof.
  intros x a m H. apply shiftr_lt. apply N.lt_le_trans with (2 ^ m); [exact H|].
  apply N.pow_le_mono_r; lia.
Qed.

Lemma shiftr_le_mono : forall a b n, a <= b -> N.shiftr a n <= N.shiftr b n.
Proof.
  intros a b n H. rewrite !N.shiftr_div_pow2. apply N.div_le_mono; [|exact H].
  apply N.pow_nonzero. lia.
Qed.

Lemma u16_le : forall x, u16 x <= x.
Proof. intros x. unfold u16. apply land_le_l. Qed.

Lemma flag_ge : forall e, N.land e 1024 <> 0 -> 1024 <= e.
Proof.
  intros e H. destruct (N.le_gt_cases 1024 e) as [Hle|Hlt]; [exact Hle|].
  exfalso. apply H. change 1024 with (2 ^ 10). apply land_pow2_testbit.
  apply (testbit_small e 10 10); [exact Hlt|lia].
Qed.

(* the index computed from a long-code pointer stays inside the pointer's group *)
Lemma long_idx_lt : forall e x, e < 65536 ->
  N.shiftr (e - 1024) 11 < 32 /\
  u16 (N.land e 511 + N.shiftr (u16 (N.land x (N.ones (N.shiftr (e - 1024) 11)))) 10)
    < N.land e 511 + 2 ^ (N.shiftr (e - 1024) 11 - 10).
Proof.
  intros e x He. set (k := N.shiftr (e - 1024) 11).
  assert (Hk : k < 32).
  { unfold k. change 32 with (2 ^ 5). apply shiftr_lt. change (2 ^ (11 + 5)) with 65536. lia. }
  split; [exact Hk|].
  assert (H1 : u16 (N.land x (N.ones k)) < 2 ^ k).
  { apply N.le_lt_trans with (N.land x (N.ones k)); [apply u16_le|apply land_ones_lt]. }
  pose proof (shiftr_lt_gen _ 10 k H1) as H2.
  apply N.le_lt_trans with (N.land e 511 + N.shiftr (u16 (N.land x (N.ones k))) 10);
    [apply u16_le|lia].
Qed.

(* ---------------------------------------------------------------- the lookups *)
Theorem small_rel_clc : forall s1 l1 s2 l2, small_rel s1 l1 s2 l2 -> clc_eq s1 l1 s2 l2.
Proof.
  intros s1 l1 s2 l2 [Ha Hf] b. unfold clc_decode. cbv zeta. unfold smallFlagBit in *.
  assert (Hnb : N.land (r_bits b) 1023 < 1024) by (pose proof (land_le_r (r_bits b) 1023); lia).
  rewrite <- (Ha _ Hnb).
  pose proof (Hf _ Hnb) as Hf1.
  set (e := aget s1 (N.land (r_bits b) 1023)) in *.
  destruct (N.land e 1024 =? 0) eqn:Ef; [reflexivity|].
  destruct (Hf1 ltac:(lia)) as [He Hag].
  rewrite (u32_small (e - 1024)) by lia.
  destruct (long_idx_lt e (u32 (r_bits b)) He) as [Hk Hidx].
  unfold ones32. destruct (32 <=? N.shiftr (e - 1024) 11) eqn:E32; [lia|].
  rewrite (Hag _ Hidx). reflexivity.
Qed.

Theorem small_rel_dist : forall s1 l1 s2 l2 a1 b1 a2 b2,
  small_rel s1 l1 s2 l2 -> dist_eq (mkTB a1 b1 s1 l1) (mkTB a2 b2 s2 l2).
Proof.
  intros s1 l1 s2 l2 a1 b1 a2 b2 [Ha Hf] b. unfold dist_decode. cbv zeta.
  cbn [distShort distLong]. unfold smallFlagBit in *.
  assert (Hnb : N.land (r_bits b) 1023 < 1024) by (pose proof (land_le_r (r_bits b) 1023); lia).
  rewrite <- (Ha _ Hnb).
  pose proof (Hf _ Hnb) as Hf1.
  set (e := aget s1 (N.land (r_bits b) 1023)) in *.
  destruct (N.land e 1024 =? 0) eqn:Ef; [reflexivity|].
  destruct (Hf1 ltac:(lia)) as [He Hag].
  pose proof (flag_ge e ltac:(lia)) as Hge.
  assert (Es : sub32 e 1024 = e - 1024).
  { unfold sub32, subw. destruct (1024 <=? e) eqn:El; [reflexivity|lia]. }
  rewrite Es.
  destruct (long_idx_lt e (r_bits b) He) as [Hk Hidx].
  unfold ones32. destruct (32 <=? N.shiftr (e - 1024) 11) eqn:E32; [lia|].
  rewrite (Hag _ Hidx). reflexivity.
Qed.

(* ---------------------------------------------------------------- short table: clearing, doubling *)
(* no long-code pointer below n *)
Definition nf (n : N) (t : arr) : Prop := forall i, i < n -> N.land (aget t i) 1024 = 0.

Lemma nf_aset : forall n t i v, nf n t -> N.land v 1024 = 0 -> nf n (aset t i v).
Proof.
  intros n t i v Ht Hv j Hj. rewrite aget_aset. destruct (j =? i); [exact Hv|apply Ht; exact Hj].
Qed.

Lemma zero_fill_agree : forall lo hi a b, lo <= hi -> agree lo a b ->
  agree hi (forN lo hi (fun i t => aset t i 0) a) (forN lo hi (fun i t => aset t i 0) b).
Proof.
  intros lo hi a b Hle H.
  apply (forN_ind2 arr (fun j x y => agree j x y)); [exact Hle|exact H|].
  intros j x y _ Hxy. apply agree_aset_next. exact Hxy.
Qed.

Lemma zero_fill_nf : forall hi a, nf hi (forN 0 hi (fun i t => aset t i 0) a).
Proof.
  intros hi a. apply (forN_ind arr (fun j x => nf j x)); [lia| |].
  - intros i Hi. lia.
  - intros j x _ Hx i Hi. rewrite aget_aset.
    destruct (N.eqb_spec i j) as [_|Hne]; [reflexivity|]. apply Hx. lia.
Qed.

Lemma double_sim : forall cs t1 t2, agree cs t1 t2 -> nf cs t1 ->
  agree (cs + cs) (forN 0 cs (fun i t => aset t (cs + i) (aget t i)) t1)
                  (forN 0 cs (fun i t => aset t (cs + i) (aget t i)) t2) /\
  nf (cs + cs) (forN 0 cs (fun i t => aset t (cs + i) (aget t i)) t1).
Proof.
  intros cs t1 t2 Ha Hn.
  apply (forN_ind2 arr (fun j x y => agree (cs + j) x y /\ nf (cs + j) x)); [lia| |].
  - rewrite N.add_0_r. split; assumption.
  - intros j x y Hj [A B]. rewrite N.add_assoc.
    rewrite <- (A j) by lia.
    split.
    + apply agree_aset_next. exact A.
    + intros i Hi. rewrite aget_aset.
      destruct (N.eqb_spec i (cs + j)) as [_|Hne]; apply B; lia.
Qed.

(* ---------------------------------------------------------------- short table: the stores *)
Definition wr_okb (idx len : N) : bool :=
  (N.land (u16 len) 1024 =? 0) &&
  (N.land (u16 (N.lor idx (N.shiftl len 11))) 1024 =? 0) &&
  (N.land (u16 (N.lor (N.lor idx (N.shiftl (aget rfc_dist_extra idx) 5)) (N.shiftl len 11))) 1024 =? 0).

Lemma wr_ok : forall idx len, idx < 1024 -> len <= 15 -> wr_okb idx len = true.
Proof.
  intros idx len Hi Hl.
  apply (allb2_spec 1024 16 wr_okb); [vm_compute; reflexivity| |].
  - change (N.of_nat 1024) with 1024. exact Hi.
  - change (N.of_nat 16) with 16. lia.
Qed.

Lemma gs_wr_sim : forall hdr codes cl maxSymbol k n t1 t2,
  aget cl k < 1024 -> hc_len (aget codes (aget cl k)) <= 15 ->
  agree n t1 t2 -> nf n t1 ->
  agree n (gs_wr hdr codes cl maxSymbol k t1) (gs_wr hdr codes cl maxSymbol k t2) /\
  nf n (gs_wr hdr codes cl maxSymbol k t1).
Proof.
  intros hdr codes cl maxSymbol k n t1 t2 Hi Hl Ha Hn.
  pose proof (wr_ok _ _ Hi Hl) as Hw. unfold wr_okb in Hw.
  apply andb_prop in Hw. destruct Hw as [Hw W3]. apply andb_prop in Hw. destruct Hw as [W1 W2].
  unfold gs_wr. cbv zeta.
  destruct (maxSymbol <=? aget cl k); destruct hdr.
  - split; assumption.
  - split; [apply agree_aset; exact Ha|apply nf_aset; [exact Hn|lia]].
  - split; [apply agree_aset; exact Ha|apply nf_aset; [exact Hn|lia]].
  - split; [apply agree_aset; exact Ha|apply nf_aset; [exact Hn|lia]].
Qed.

Lemma gs_short_sim : forall hdr codes cl ct count ncodes maxSymbol lastLength t1 t2,
  (forall i, hc_len (aget codes i) <= 15) ->
  (forall k, k <= 16 -> aget ct k = ctv count k) ->
  cl_ok codes count cl ncodes -> ncodes <= 1024 ->
  1 <= lastLength <= 11 ->
  agree (2 ^ (lastLength - 1)) t1 t2 -> nf (2 ^ (lastLength - 1)) t1 ->
  agree 1024 (fst (gs_short hdr t1 codes cl ct maxSymbol lastLength (2 ^ (lastLength - 1))))
             (fst (gs_short hdr t2 codes cl ct maxSymbol lastLength (2 ^ (lastLength - 1)))) /\
  nf 1024 (fst (gs_short hdr t1 codes cl ct maxSymbol lastLength (2 ^ (lastLength - 1)))).
Proof.
  intros hdr codes cl ct count ncodes maxSymbol lastLength t1 t2 P1 Hct Hcl Hnc HLL Ha Hn.
  unfold gs_short.
  match goal with |- agree 1024 (fst (forN _ _ ?f ?a1)) (fst (forN _ _ _ ?a2)) /\ _ =>
    pose proof (forN_ind2 (arr * N) (fun ll (st1 st2 : arr * N) =>
      snd st1 = 2 ^ (ll - 1) /\ snd st2 = 2 ^ (ll - 1) /\
      agree (2 ^ (ll - 1)) (fst st1) (fst st2) /\ nf (2 ^ (ll - 1)) (fst st1))
      f lastLength 11 a1 a2) as HI
  end.
  cbv beta in HI.
  destruct HI as (_ & _ & A & B).
  - lia.
  - cbn [fst snd]. split; [reflexivity|]. split; [reflexivity|]. split; assumption.
  - intros ll [x cx] [y cy] Hll (C1 & C2 & A & B). cbn [fst snd] in C1, C2, A, B. subst cx cy.
    cbv beta iota zeta. cbn [fst snd].
    set (cs := 2 ^ (ll - 1)) in *.
    assert (E2 : 2 ^ (ll + 1 - 1) = cs + cs).
    { replace (ll + 1 - 1) with (N.succ (ll - 1)) by lia. rewrite N.pow_succ_r'. fold cs. lia. }
    assert (Hcs : cs <= 512).
    { unfold cs. change 512 with (2 ^ 9). apply N.pow_le_mono_r; lia. }
    rewrite E2.
    replace (N.min cs (1024 - cs)) with cs by lia.
    destruct (double_sim cs x y A B) as [A2 B2].
    split; [lia|]. split; [lia|].
    apply (forN_inv2 arr (fun a b => agree (cs + cs) a b /\ nf (cs + cs) a)); [split; assumption|].
    intros k a b Hk [A3 B3]. rewrite !Hct in Hk by lia.
    destruct (Hcl ll k ltac:(lia) Hk) as [Q1 Q2].
    apply gs_wr_sim; [lia|apply P1|exact A3|exact B3].
  - exact (conj A B).
Qed.

(* ---------------------------------------------------------------- long table: the fills *)
Lemma long_fill_sim : forall n bound wrap base lim minInc entry fuel l1 l2 longBits pan,
  agree n l1 l2 ->
  agree n (fst (long_fill fuel bound wrap l1 base longBits lim minInc entry pan))
          (fst (long_fill fuel bound wrap l2 base longBits lim minInc entry pan)) /\
  snd (long_fill fuel bound wrap l1 base longBits lim minInc entry pan) =
  snd (long_fill fuel bound wrap l2 base longBits lim minInc entry pan).
Proof.
  intros n bound wrap base lim minInc entry. induction fuel as [|f IH];
    intros l1 l2 longBits pan Ha; cbn [long_fill].
  - cbn [fst snd]. split; [exact Ha|reflexivity].
  - destruct (longBits <? lim).
    + destruct (bound <=? base + longBits).
      * cbn [fst snd]. split; [exact Ha|reflexivity].
      * apply IH. apply agree_aset. exact Ha.
    + cbn [fst snd]. split; [exact Ha|reflexivity].
Qed.

Definition R3 (n : N) (a1 a2 : arr * arr * bool) : Prop :=
  agree n (fst (fst a1)) (fst (fst a2)) /\ snd (fst a1) = snd (fst a2) /\ snd a1 = snd a2.

Lemma gs_fill_sim : forall n fuel hdr maxSymbol lcl grp a1 a2 sym,
  R3 n a1 a2 ->
  R3 n (gs_fill fuel hdr maxSymbol lcl grp a1 sym) (gs_fill fuel hdr maxSymbol lcl grp a2 sym).
Proof.
  intros n fuel hdr maxSymbol lcl grp [[l1 c1] p1] [[l2 c2] p2] sym (A & B & C).
  cbn [fst snd] in A, B, C. subst c2 p2.
  unfold gs_fill. cbv zeta.
  match goal with |- R3 n (let '(_, _) := long_fill ?fu ?bo ?wr l1 ?ba ?lb ?li ?mi ?en ?pa in _) _ =>
    pose proof (long_fill_sim n bo wr ba li mi en fu l1 l2 lb pa A) as [A2 B2];
    destruct (long_fill fu bo wr l1 ba lb li mi en pa) as [x1 q1];
    destruct (long_fill fu bo wr l2 ba lb li mi en pa) as [x2 q2]
  end.
  cbn [fst snd] in A2, B2. subst q2.
  unfold R3. cbn [fst snd]. split; [exact A2|]. split; reflexivity.
Qed.

Lemma gs_fill_fold_sim : forall n fuel hdr maxSymbol lcl grp temp a1 a2,
  R3 n a1 a2 ->
  R3 n (fold_left (gs_fill fuel hdr maxSymbol lcl grp) temp a1)
       (fold_left (gs_fill fuel hdr maxSymbol lcl grp) temp a2).
Proof.
  intros n fuel hdr maxSymbol lcl grp temp. induction temp as [|sym r IH]; intros a1 a2 H;
    cbn [fold_left]; [exact H|].
  apply IH. apply gs_fill_sim. exact H.
Qed.

(* ---------------------------------------------------------------- long-code pointers *)
(* every long-code pointer in the short table addresses a group below n *)
Definition ptr_ok (n : N) (sh : arr) : Prop :=
  forall i, i < 1024 -> N.land (aget sh i) 1024 <> 0 ->
    aget sh i < 65536 /\
    N.land (aget sh i) 511 + 2 ^ (N.shiftr (aget sh i - 1024) 11 - 10) <= n.

Lemma ptr_new : forall lcl ml, lcl <= 80 ->
  u16 (N.lor (N.lor lcl (N.shiftl ml 11)) smallFlagBit) < 65536 /\
  N.land (u16 (N.lor (N.lor lcl (N.shiftl ml 11)) smallFlagBit)) 511 +
    2 ^ (N.shiftr (u16 (N.lor (N.lor lcl (N.shiftl ml 11)) smallFlagBit) - 1024) 11 - 10)
  <= lcl + N.shiftl 1 (ml - 10).
Proof.
  intros lcl ml Hl. split; [apply u16_lt|].
  set (X := N.lor (N.lor lcl (N.shiftl ml 11)) smallFlagBit).
  assert (E1 : N.land (u16 X) 511 = lcl).
  { apply N.bits_inj. intro n. change 511 with (N.ones 9). rewrite N.land_spec.
    destruct (N.lt_ge_cases n 9) as [Hlt|Hge].
    - rewrite N.ones_spec_low by exact Hlt. rewrite andb_true_r.
      rewrite u16_testbit by lia. unfold X. rewrite !N.lor_spec.
      rewrite N.shiftl_spec_low by lia.
      change smallFlagBit with (2 ^ 10). rewrite N.pow2_bits_false by lia.
      rewrite !orb_false_r. reflexivity.
    - rewrite N.ones_spec_high by exact Hge. rewrite andb_false_r.
      symmetry. apply (testbit_small lcl 7 n); [change (2 ^ 7) with 128; lia|lia]. }
  assert (E2 : N.shiftr (u16 X - 1024) 11 <= ml).
  { apply N.le_trans with (N.shiftr X 11).
    - apply shiftr_le_mono. pose proof (u16_le X). lia.
    - unfold X. rewrite !N.shiftr_lor.
      rewrite N.shiftr_shiftl_l by lia. change (11 - 11) with 0. rewrite N.shiftl_0_r.
      change (N.shiftr smallFlagBit 11) with 0. rewrite N.lor_0_r.
      assert (E0 : N.shiftr lcl 11 = 0).
      { rewrite N.shiftr_div_pow2. apply N.div_small. change (2 ^ 11) with 2048. lia. }
      rewrite E0, N.lor_0_l. lia. }
  rewrite E1, N.shiftl_1_l.
  assert (2 ^ (N.shiftr (u16 X - 1024) 11 - 10) <= 2 ^ (ml - 10)) by (apply N.pow_le_mono_r; lia).
  lia.
Qed.

Lemma ptr_ok_aset : forall lcl grp ml sh fb, lcl <= 80 -> grp = N.shiftl 1 (ml - 10) ->
  ptr_ok lcl sh ->
  ptr_ok (lcl + grp) (aset sh fb (u16 (N.lor (N.lor lcl (N.shiftl ml 11)) smallFlagBit))).
Proof.
  intros lcl grp ml sh fb Hl Hg Hp i Hi. rewrite aget_aset.
  destruct (i =? fb).
  - intros _. subst grp. apply ptr_new. exact Hl.
  - intros Hf. destruct (Hp i Hi Hf) as [A B]. split; [exact A|lia].
Qed.

Lemma nf_ptr_ok : forall t, nf 1024 t -> ptr_ok 0 t.
Proof. intros t H i Hi Hf. exfalso. apply Hf. apply H. exact Hi. Qed.

(* ---------------------------------------------------------------- the long-code loop *)
Definition J (st1 st2 : arr * arr * arr * N * ierr) : Prop :=
  let '(sh1, lg1, c1, n1, p1) := st1 in
  let '(sh2, lg2, c2, n2, p2) := st2 in
  c1 = c2 /\ n1 = n2 /\ p1 = p2 /\ n1 <= 80 /\
  agree 1024 sh1 sh2 /\ agree n1 lg1 lg2 /\ ptr_ok n1 sh1.

Lemma J_intro : forall sh1 lg1 sh2 lg2 c n p,
  n <= 80 -> agree 1024 sh1 sh2 -> agree n lg1 lg2 -> ptr_ok n sh1 ->
  J (sh1, lg1, c, n, p) (sh2, lg2, c, n, p).
Proof.
  intros sh1 lg1 sh2 lg2 c n p H1 H2 H3 H4. unfold J.
  split; [reflexivity|]. split; [reflexivity|]. split; [reflexivity|].
  split; [exact H1|]. split; [exact H2|]. split; [exact H3|exact H4].
Qed.

Lemma gs_long_step_sim : forall fuel hdr cl maxSymbol lcs n i st1 st2,
  J st1 st2 ->
  J (gs_long_step fuel hdr cl maxSymbol lcs n i st1) (gs_long_step fuel hdr cl maxSymbol lcs n i st2).
Proof.
  intros fuel hdr cl maxSymbol lcs n i [[[[sh1 lg1] c1] n1] p1] [[[[sh2 lg2] c2] n2] p2]
         (E1 & E2 & E3 & Hn & As & Al & Hp).
  subst c2 n2 p2.
  assert (Hkeep : forall p, J (sh1, lg1, c1, n1, p) (sh2, lg2, c1, n1, p)).
  { intros p. apply J_intro; assumption. }
  unfold gs_long_step.
  destruct (negb (ierr_eqb p1 ENone)); [apply Hkeep|].
  destruct (32 <=? lcs + i); [apply Hkeep|].
  set (li := aget cl (lcs + i)).
  destruct (hc_code (aget c1 li) =? 65535); [apply Hkeep|].
  destruct (gs_group hdr cl c1 lcs n i (N.land (hc_code (aget c1 li)) 1023)
              (hc_len (aget c1 li), [li])) as [ml tempRev].
  cbv zeta.
  set (grp := N.shiftl 1 (ml - 10)).
  destruct (negb hdr && (80 <? n1 + grp)) eqn:E80a; [apply Hkeep|].
  set (clrEnd := n1 + (if hdr then 2 * grp else grp)).
  destruct (80 <? clrEnd) eqn:E80; [apply Hkeep|].
  assert (Hce : n1 + grp <= clrEnd) by (unfold clrEnd; destruct hdr; lia).
  set (Z1 := forN n1 clrEnd (fun x t => aset t x 0) lg1).
  set (Z2 := forN n1 clrEnd (fun x t => aset t x 0) lg2).
  assert (HR0 : R3 clrEnd (Z1, c1, false) (Z2, c1, false)).
  { unfold R3. cbn [fst snd]. split; [|split; reflexivity].
    apply zero_fill_agree; [lia|exact Al]. }
  pose proof (gs_fill_fold_sim clrEnd fuel hdr maxSymbol n1 grp (frev tempRev) _ _ HR0) as HR.
  destruct (fold_left (gs_fill fuel hdr maxSymbol n1 grp) (frev tempRev) (Z1, c1, false))
    as [[la ca] pa].
  destruct (fold_left (gs_fill fuel hdr maxSymbol n1 grp) (frev tempRev) (Z2, c1, false))
    as [[lb cb] pb].
  unfold R3 in HR. cbn [fst snd] in HR. destruct HR as (A' & B' & C'). subst cb pb.
  apply J_intro.
  - lia.
  - apply agree_aset. exact As.
  - apply agree_le with clrEnd; [exact Hce|exact A'].
  - apply ptr_ok_aset; [exact Hn|reflexivity|exact Hp].
Qed.

(* ---------------------------------------------------------------- the code-list segments *)
Lemma ctv_seg_all : forall count k, k < ctv count 16 ->
  exists l, 1 <= l <= 15 /\ ctv count l <= k < ctv count (l + 1).
Proof.
  intros count k Hk.
  assert (H : forall n : nat, k < ctv count (1 + N.of_nat n) ->
     exists l, 1 <= l <= N.of_nat n /\ ctv count l <= k < ctv count (l + 1)).
  { induction n as [|m IH]; intros Hn.
    - change (1 + N.of_nat 0) with 1 in Hn. rewrite ctv_1 in Hn. lia.
    - destruct (N.lt_ge_cases k (ctv count (1 + N.of_nat m))) as [Hlt|Hge].
      + destruct (IH Hlt) as (l & Hl & Hs). exists l. split; [lia|exact Hs].
      + exists (N.of_nat (S m)). split; [lia|].
        replace (N.of_nat (S m) + 1) with (1 + N.of_nat (S m)) by lia.
        replace (N.of_nat (S m)) with (1 + N.of_nat m) at 1 by lia. lia. }
  destruct (H 15%nat Hk) as (l & Hl & Hs).
  exists l. split; [|exact Hs]. change (N.of_nat 15) with 15 in Hl. exact Hl.
Qed.

(* ---------------------------------------------------------------- gen_small *)
Theorem gen_small_sim : gen_small_sim_statement.
Proof.
  unfold gen_small_sim_statement.
  intros hdr sh1 lg1 sh2 lg2 codes ncodes count maxSymbol s1 l1 c1 e1 s2 l2 c2 e2 Hpre Hnc H1 H2.
  rewrite gen_small_eq in H1, H2.
  pose proof Hpre as (P1 & P2 & P3 & P4).
  pose proof (gs_ct_spec count P4) as Hct.
  set (ct := gs_ct count) in *. cbv zeta in H1, H2.
  destruct (aget ct 16 =? 0) eqn:E16.
  { inversion H1; inversion H2; subst. split; [reflexivity|]. split; [reflexivity|]. intros _.
    split; [apply agree_refl|]. intros i Hi Hf. rewrite aget_empty in Hf.
    exfalso. apply Hf. reflexivity. }
  destruct (gs_sort_spec codes count ncodes ct Hpre Hct) as (cl & ctt & Es & Hcl).
  rewrite Es in H1, H2. cbv beta iota in H1, H2.
  (* the first code length *)
  assert (HL0 : 1 <= hc_len (aget codes (aget cl 0)) <= 15).
  { rewrite (Hct 16) in E16 by lia.
    destruct (ctv_seg_all count 0 ltac:(lia)) as (l & Hl & Hs).
    destruct (Hcl l 0 Hl Hs) as [_ Q]. rewrite Q. exact Hl. }
  set (LL0 := hc_len (aget codes (aget cl 0))) in *.
  set (LL := if 10 <? LL0 then 11 else LL0) in *.
  assert (HLL : 1 <= LL <= 11) by (unfold LL; destruct (10 <? LL0) eqn:E10; lia).
  assert (ELL : (LL =? 0) = false) by lia.
  rewrite ELL in H1, H2. rewrite N.shiftl_1_l in H1, H2.
  set (z1 := forN 0 (2 ^ (LL - 1)) (fun i t => aset t i 0) sh1) in *.
  set (z2 := forN 0 (2 ^ (LL - 1)) (fun i t => aset t i 0) sh2) in *.
  pose proof (gs_short_sim hdr codes cl ct count ncodes maxSymbol LL z1 z2 P1 Hct Hcl Hnc HLL
                (zero_fill_agree 0 _ sh1 sh2 ltac:(lia) (agree_0 _ _)) (zero_fill_nf _ sh1)) as Hs.
  revert H1 H2 Hs.
  destruct (gs_short hdr z1 codes cl ct maxSymbol LL (2 ^ (LL - 1))) as [t1 x1].
  destruct (gs_short hdr z2 codes cl ct maxSymbol LL (2 ^ (LL - 1))) as [t2 x2].
  cbn [fst]. intros H1 H2 [At Nt].
  unfold gs_long in H1, H2.
  set (lcs := aget ct 11) in *. set (n := sub32 (aget ct 16) lcs) in *.
  pose proof (forN_inv2 _ J (gs_long_step small_fuel hdr cl maxSymbol lcs n) 0 n
                (t1, lg1, codes, 0, ENone) (t2, lg2, codes, 0, ENone)) as HJ.
  revert H1 H2 HJ.
  destruct (forN 0 n (gs_long_step small_fuel hdr cl maxSymbol lcs n) (t1, lg1, codes, 0, ENone))
    as [[[[a1 b1] d1] m1] p1].
  destruct (forN 0 n (gs_long_step small_fuel hdr cl maxSymbol lcs n) (t2, lg2, codes, 0, ENone))
    as [[[[a2 b2] d2] m2] p2].
  intros H1 H2 HJ.
  inversion H1; inversion H2; subst.
  destruct HJ as (J1 & J2 & J3 & J4 & J5 & J6 & J7).
  - apply J_intro; [lia|exact At|apply agree_0|apply nf_ptr_ok; exact Nt].
  - intros j x y _ Hxy. apply gs_long_step_sim. exact Hxy.
  - split; [exact J1|]. split; [exact J3|]. intros _.
    split; [exact J5|]. intros i Hi Hf.
    destruct (J7 i Hi Hf) as [Q1 Q2]. split; [exact Q1|].
    subst m2. apply agree_le with m1; [exact Q2|exact J6].
Qed.

Print Assumptions gen_small_sim.
Print Assumptions small_rel_clc.
Print Assumptions small_rel_dist.
