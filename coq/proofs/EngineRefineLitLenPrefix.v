(* EngineRefineLitLenPrefix.v -- piece A2a of the proof of gen_litlen_statement:
   the two prefix-sum loops at the start of setAndExpandLitLenHuffCode (ps_loop1, ps_loop2 of
   EngineRefineLitLenDefs.v) and the over-subscription test.

   Main result: ps_loops_spec. *)
From Coq Require Import List NArith ZArith Bool Lia ZifyBool ZifyNat ZifyN.
From Verif Require Import Bits Huffman Inflate.
From Verif Require Import Base EngineTables Engine EngineRefineSpec.
From Verif Require Import EngineRefineLitLenBase EngineRefineLitLenDefs EngineRefineLitLenCode.
From Verif Require HuffmanProofs.
Import ListNotations.
Open Scope N_scope.

(* ---------------------------------------------------------------- small arithmetic *)
Lemma mod_add_congr : forall a a' b b' m, m <> 0 ->
  a mod m = a' mod m -> b mod m = b' mod m -> (a + b) mod m = (a' + b') mod m.
Proof.
  intros a a' b b' m Hm Ha Hb.
  rewrite (N.add_mod a b m), (N.add_mod a' b' m) by exact Hm. rewrite Ha, Hb. reflexivity.
Qed.

(* ---------------------------------------------------------------- bsum *)
Lemma bsum_ext : forall f g n, (forall i, (i < n)%nat -> f i = g i) -> bsum f n = bsum g n.
Proof.
  intros f g n. induction n as [|k IH]; intros H; [reflexivity|].
  cbn [bsum]. rewrite IH by (intros i Hi; apply H; lia). rewrite (H k) by lia. reflexivity.
Qed.

Lemma bsum_add : forall f g n, bsum (fun i => f i + g i) n = bsum f n + bsum g n.
Proof.
  intros f g n. induction n as [|k IH]; [reflexivity|]. cbn [bsum]. rewrite IH. lia.
Qed.

Lemma bsum_zero : forall f n, (forall i, (i < n)%nat -> f i = 0) -> bsum f n = 0.
Proof.
  intros f n. induction n as [|k IH]; intros H; [reflexivity|].
  cbn [bsum]. rewrite IH by (intros i Hi; apply H; lia). rewrite (H k) by lia. reflexivity.
Qed.

Lemma bsum_shift : forall f n, bsum f (S n) = f 0%nat + bsum (fun i => f (S i)) n.
Proof.
  intros f n. induction n as [|k IH].
  - cbn [bsum]. lia.
  - cbn [bsum] in *. lia.
Qed.

Lemma bsum_split : forall f a b,
  bsum f (a + b) = bsum f a + bsum (fun k => f (a + k)%nat) b.
Proof.
  intros f a b. induction b as [|k IH].
  - rewrite Nat.add_0_r. cbn [bsum]. lia.
  - rewrite Nat.add_succ_r. cbn [bsum]. rewrite IH. lia.
Qed.

Lemma bsum_le : forall f g n, (forall i, (i < n)%nat -> f i <= g i) -> bsum f n <= bsum g n.
Proof.
  intros f g n. induction n as [|k IH]; intros H; [cbn [bsum]; lia|].
  cbn [bsum]. specialize (IH ltac:(intros i Hi; apply H; lia)). specialize (H k ltac:(lia)). lia.
Qed.

Lemma bsum_mono : forall f n m, (n <= m)%nat -> bsum f n <= bsum f m.
Proof.
  intros f n m H. induction H as [|m H IH]; [lia|]. cbn [bsum]. lia.
Qed.

Lemma bsum_single : forall f t n, (forall j, j <> t -> f j = 0) ->
  bsum f n = if (t <? n)%nat then f t else 0.
Proof.
  intros f t n H. induction n as [|k IH].
  - cbn [bsum]. destruct (Nat.ltb_spec t 0); [lia|reflexivity].
  - cbn [bsum]. rewrite IH.
    destruct (Nat.eq_dec k t) as [Heq|Hne].
    + subst k. destruct (Nat.ltb_spec t t); [lia|].
      destruct (Nat.ltb_spec t (S t)); lia.
    + rewrite (H k Hne).
      destruct (Nat.ltb_spec t k); destruct (Nat.ltb_spec t (S k)); lia.
Qed.

Lemma bsum_single_le : forall f t w n, (forall j, j <> t -> f j = 0) -> f t <= w -> bsum f n <= w.
Proof.
  intros f t w n H Hw. rewrite (bsum_single f t n H). destruct (t <? n)%nat; lia.
Qed.

(* exchanging two sums, as a bound *)
Lemma bsum_bsum_le : forall (f : nat -> nat -> N) w n m,
  (forall i, (i < n)%nat -> bsum (fun L => f L i) m <= w i) ->
  bsum (fun L => bsum (f L) n) m <= bsum w n.
Proof.
  intros f w n m. induction n as [|k IH]; intros H.
  - rewrite bsum_zero by (intros; reflexivity). cbn [bsum]. lia.
  - rewrite (bsum_ext (fun L => bsum (f L) (S k)) (fun L => bsum (f L) k + f L k))
      by (intros; reflexivity).
    rewrite bsum_add. cbn [bsum].
    specialize (IH ltac:(intros i Hi; apply H; lia)). specialize (H k ltac:(lia)). lia.
Qed.

(* ---------------------------------------------------------------- sums in Z *)
Fixpoint zsum (f : nat -> Z) (n : nat) : Z :=
  match n with O => 0%Z | S k => (zsum f k + f k)%Z end.

Lemma zsum_ext : forall f g n, (forall i, (i < n)%nat -> f i = g i) -> zsum f n = zsum g n.
Proof.
  intros f g n. induction n as [|k IH]; intros H; [reflexivity|].
  cbn [zsum]. rewrite IH by (intros i Hi; apply H; lia). rewrite (H k) by lia. reflexivity.
Qed.

Lemma zsum_add : forall f g n, zsum (fun i => (f i + g i)%Z) n = (zsum f n + zsum g n)%Z.
Proof.
  intros f g n. induction n as [|k IH]; [reflexivity|]. cbn [zsum]. rewrite IH. lia.
Qed.

Lemma zsum_shift : forall f n, zsum f (S n) = (f 0%nat + zsum (fun i => f (S i)) n)%Z.
Proof.
  intros f n. induction n as [|k IH].
  - cbn [zsum]. lia.
  - cbn [zsum] in *. lia.
Qed.

Lemma zsum_split : forall f a b,
  zsum f (a + b) = (zsum f a + zsum (fun k => f (a + k)%nat) b)%Z.
Proof.
  intros f a b. induction b as [|k IH].
  - rewrite Nat.add_0_r. cbn [zsum]. lia.
  - rewrite Nat.add_succ_r. cbn [zsum]. rewrite IH. lia.
Qed.

Lemma zsum_of_bsum : forall f n, Z.of_N (bsum f n) = zsum (fun k => Z.of_N (f k)) n.
Proof.
  intros f n. induction n as [|k IH]; [reflexivity|].
  cbn [bsum zsum]. rewrite N2Z.inj_add, IH. reflexivity.
Qed.

Lemma fold_seqN_zsum : forall (g : N -> Z) n a,
  fold_right (fun s acc => (g s + acc)%Z) 0%Z (seqN a n) = zsum (fun k => g (a + N.of_nat k)) n.
Proof.
  intros g n. induction n as [|n IH]; intros a; [reflexivity|].
  cbn [seqN fold_right]. rewrite IH. rewrite zsum_shift. f_equal.
  - f_equal. lia.
  - apply zsum_ext. intros k Hk. f_equal. lia.
Qed.

(* ---------------------------------------------------------------- the counting identity *)
Lemma litem_nil : forall L i, litem [] L i = 0.
Proof.
  intros L i. unfold litem.
  replace (nth i (@nil nat) 0%nat) with 0%nat by (destruct i; reflexivity).
  destruct (N.eqb_spec L 0) as [H0|H0]; cbn [negb andb]; [reflexivity|].
  destruct (N.eqb_spec (N.of_nat 0) L) as [H1|H1]; [lia|reflexivity].
Qed.

Lemma count_len_bsum : forall ll L n, 1 <= L -> (length ll <= n)%nat ->
  count_len ll (N.to_nat L) = bsum (litem ll L) n.
Proof.
  induction ll as [|x r IH]; intros L n HL Hn.
  - rewrite bsum_zero by (intros; apply litem_nil). reflexivity.
  - destruct n as [|n]; cbn [length] in Hn; [lia|].
    rewrite bsum_shift.
    rewrite (bsum_ext (fun i => litem (x :: r) L (S i)) (litem r L)) by (intros; reflexivity).
    rewrite <- (IH L n HL) by lia.
    unfold count_len. cbn [count_occ]. unfold litem. cbn [nth].
    destruct (Nat.eq_dec x (N.to_nat L)) as [He|He];
      destruct (N.eqb_spec L 0) as [H0|H0]; cbn [negb andb];
      destruct (N.eqb_spec (N.of_nat x) L) as [H1|H1]; lia.
Qed.

Lemma count_len_big : forall ll x, Forall (fun y => (y <= 15)%nat) ll -> (16 <= x)%nat ->
  count_len ll x = 0.
Proof.
  intros ll x HF Hx. unfold count_len.
  induction HF as [|y r Hy HF IH]; [reflexivity|].
  cbn [count_occ]. destruct (Nat.eq_dec y x) as [He|He]; [lia|exact IH].
Qed.

(* the summand of exp_delta *)
Definition gdelta (ll : lens) (L : N) (s : N) : Z :=
  let len := N.of_nat (nth (N.to_nat s) ll 0%nat) in
  let extra := aget rfc_len_extra (s - 257) in
  if len =? 0 then 0%Z
  else Z.sub (if len + extra =? L then Z.of_N (2 ^ extra) else 0%Z)
             (if len =? L then 1%Z else 0%Z).

Lemma exp_delta_eq : forall ll L,
  exp_delta ll L = zsum (fun k => gdelta ll L (264 + N.of_nat k)) 22.
Proof.
  intros ll L. exact (fold_seqN_zsum (gdelta ll L) 22 264).
Qed.

Lemma len_extra_low : forall k, (k < 7)%nat -> aget rfc_len_extra (N.of_nat k) = 0.
Proof.
  intros k Hk. do 7 (destruct k as [|k]; [vm_compute; reflexivity|]). lia.
Qed.

Lemma xitem_low : forall ll L k, 1 <= L -> (k < 7)%nat ->
  xitem ll L k = litem ll L (257 + k).
Proof.
  intros ll L k HL Hk. unfold xitem, litem, xw. cbv zeta.
  rewrite (len_extra_low k Hk). rewrite N.add_0_r. change (2 ^ 0) with 1.
  set (li := N.of_nat (nth (257 + k) ll 0%nat)).
  destruct (N.eqb_spec li 0) as [H0|H0]; destruct (N.eqb_spec li L) as [H1|H1];
    destruct (N.eqb_spec L 0) as [H2|H2]; cbn [negb andb]; lia.
Qed.

Lemma xitem_high : forall ll L k, 1 <= L -> (k < 22)%nat ->
  (Z.of_N (xitem ll L (7 + k)) - Z.of_N (litem ll L (257 + (7 + k))))%Z
  = gdelta ll L (264 + N.of_nat k).
Proof.
  intros ll L k HL Hk. unfold xitem, litem, gdelta, xw. cbv zeta.
  replace (N.to_nat (264 + N.of_nat k)) with (257 + (7 + k))%nat by lia.
  replace (264 + N.of_nat k - 257) with (N.of_nat (7 + k)) by lia.
  set (li := N.of_nat (nth (257 + (7 + k)) ll 0%nat)).
  set (ex := aget rfc_len_extra (N.of_nat (7 + k))).
  destruct (N.eqb_spec li 0) as [H0|H0]; destruct (N.eqb_spec (li + ex) L) as [H1|H1];
    destruct (N.eqb_spec li L) as [H2|H2]; destruct (N.eqb_spec L 0) as [H3|H3];
    cbn [negb andb]; lia.
Qed.

Lemma Ecount_delta : forall ll L, 1 <= L -> (length ll <= 286)%nat ->
  Z.of_N (Ecount ll L) = (Z.of_N (count_len ll (N.to_nat L)) + exp_delta ll L)%Z.
Proof.
  intros ll L HL Hlen.
  rewrite (count_len_bsum ll L 286 HL Hlen).
  pose proof (bsum_split (litem ll L) 257 29) as Hs.
  change (257 + 29)%nat with 286%nat in Hs. rewrite Hs. clear Hs.
  unfold Ecount. rewrite !N2Z.inj_add.
  enough (Hx : Z.of_N (bsum (xitem ll L) 29) =
               (Z.of_N (bsum (fun k => litem ll L (257 + k)) 29) + exp_delta ll L)%Z) by lia.
  rewrite !zsum_of_bsum, exp_delta_eq.
  pose proof (zsum_split (fun k => Z.of_N (xitem ll L k)) 7 22) as H1.
  pose proof (zsum_split (fun k => Z.of_N (litem ll L (257 + k))) 7 22) as H2.
  change (7 + 22)%nat with 29%nat in H1, H2. rewrite H1, H2. clear H1 H2.
  rewrite (zsum_ext (fun k => Z.of_N (xitem ll L k)) (fun k => Z.of_N (litem ll L (257 + k))) 7)
    by (intros i Hi; f_equal; apply xitem_low; assumption).
  enough (Hy : zsum (fun k => Z.of_N (xitem ll L (7 + k))) 22 =
               (zsum (fun k => Z.of_N (litem ll L (257 + (7 + k)))) 22 +
                zsum (fun k => gdelta ll L (264 + N.of_nat k)) 22)%Z) by lia.
  rewrite <- zsum_add. apply zsum_ext. intros k Hk.
  pose proof (xitem_high ll L k HL Hk) as Hh. lia.
Qed.

(* litCount + litExpandCount = number of extended codes, mod 2^16 *)
Lemma Ecount_congr : forall ll L e, 1 <= L -> (length ll <= 286)%nat ->
  e = Z.to_N (exp_delta ll L mod 65536) ->
  (count_len ll (N.to_nat L) + e) mod 65536 = Ecount ll L mod 65536.
Proof.
  intros ll L e HL Hlen He. pose proof (Ecount_delta ll L HL Hlen) as HD.
  apply N2Z.inj. rewrite !N2Z.inj_mod, N2Z.inj_add. rewrite HD, He.
  change (Z.of_N 65536) with 65536%Z.
  rewrite Z2N.id by (apply Z.mod_pos_bound; lia).
  rewrite Zplus_mod_idemp_r. reflexivity.
Qed.

(* ---------------------------------------------------------------- Ecount, Soff *)
Lemma Ecount_0 : forall ll, Ecount ll 0 = 0.
Proof.
  intros ll. unfold Ecount. rewrite !bsum_zero; [reflexivity| |].
  - intros k Hk. unfold xitem. cbv zeta.
    set (li := N.of_nat (nth (257 + k) ll 0%nat)).
    set (ex := aget rfc_len_extra (N.of_nat k)).
    destruct (N.eqb_spec li 0) as [H0|H0]; cbn [negb andb]; [reflexivity|].
    destruct (N.eqb_spec (li + ex) 0) as [H1|H1]; [lia|reflexivity].
  - intros i Hi. reflexivity.
Qed.

Lemma Soff_0 : forall ll, Soff ll 0 = 0.
Proof. intros ll. reflexivity. Qed.

Lemma Soff_succ : forall ll L, Soff ll (L + 1) = Soff ll L + Ecount ll L.
Proof.
  intros ll L. unfold Soff. replace (N.to_nat (L + 1)) with (S (N.to_nat L)) by lia.
  cbn [bsum]. rewrite N2Nat.id. reflexivity.
Qed.

Lemma Soff_1 : forall ll, Soff ll 1 = 0.
Proof.
  intros ll. change 1 with (0 + 1). rewrite Soff_succ, Soff_0, Ecount_0. reflexivity.
Qed.

Lemma Soff_mono : forall ll L L', L <= L' -> Soff ll L <= Soff ll L'.
Proof. intros ll L L' H. unfold Soff. apply bsum_mono. lia. Qed.

Lemma litem_sum_le : forall ll i m, bsum (fun L => litem ll (N.of_nat L) i) m <= 1.
Proof.
  intros ll i m. apply (bsum_single_le _ (nth i ll 0%nat)).
  - intros j Hj. unfold litem.
    destruct (N.eqb_spec (N.of_nat (nth i ll 0%nat)) (N.of_nat j)) as [He|He]; [lia|].
    rewrite andb_false_r. reflexivity.
  - unfold litem. destruct (negb _ && _); lia.
Qed.

Lemma xitem_sum_le : forall ll k m, bsum (fun L => xitem ll (N.of_nat L) k) m <= xw k.
Proof.
  intros ll k m.
  apply (bsum_single_le _
    (N.to_nat (N.of_nat (nth (257 + k) ll 0%nat) + aget rfc_len_extra (N.of_nat k)))).
  - intros j Hj. unfold xitem. cbv zeta.
    destruct (N.eqb_spec (N.of_nat (nth (257 + k) ll 0%nat) + aget rfc_len_extra (N.of_nat k))
                         (N.of_nat j)) as [He|He]; [lia|].
    rewrite andb_false_r. reflexivity.
  - unfold xitem. cbv zeta. destruct (negb _ && _); lia.
Qed.

Lemma xw_sum : bsum xw 29 = 257.
Proof. vm_compute. reflexivity. Qed.

Lemma ones_sum : forall n, bsum (fun _ => 1) n = N.of_nat n.
Proof. induction n as [|k IH]; [reflexivity|]. cbn [bsum]. rewrite IH. lia. Qed.

Lemma Soff_22 : forall ll, Soff ll 22 <= 514.
Proof.
  intros ll. unfold Soff. change (N.to_nat 22) with 22%nat. unfold Ecount.
  rewrite bsum_add.
  pose proof (bsum_bsum_le (fun L => litem ll (N.of_nat L)) (fun _ => 1) 257 22
                (fun i _ => litem_sum_le ll i 22)) as H1.
  pose proof (bsum_bsum_le (fun L => xitem ll (N.of_nat L)) xw 29 22
                (fun k _ => xitem_sum_le ll k 22)) as H2.
  rewrite ones_sum in H1. rewrite xw_sum in H2. cbv beta in H1, H2. lia.
Qed.

Lemma Soff_small : forall ll j, j <= 22 -> Soff ll j mod 65536 = Soff ll j.
Proof.
  intros ll j Hj. apply N.mod_small.
  pose proof (Soff_mono ll j 22 Hj). pose proof (Soff_22 ll). lia.
Qed.

(* ---------------------------------------------------------------- first_code, kraft *)
Lemma kraft_le : forall ll, kraft 15 ll <= N.of_nat (length ll) * 16384.
Proof.
  induction ll as [|x r IH].
  - cbn [kraft length]. lia.
  - cbn [kraft length]. destruct (Nat.eqb_spec x 0) as [Hx|Hx]; [lia|].
    assert (Hp : 2 ^ N.of_nat (15 - x) <= 2 ^ 14) by (apply N.pow_le_mono_r; lia).
    change (2 ^ 14) with 16384 in Hp. lia.
Qed.

Lemma fc_cnt_small : forall ll b, (b <= 15)%nat -> (length ll <= 286)%nat ->
  first_code ll b + HuffmanProofs.cnt ll b < 8388608.
Proof.
  intros ll b Hb Hlen.
  pose proof (HuffmanProofs.kraft_bound 15 ll b Hb) as HK.
  rewrite <- HuffmanProofs.first_code_psum in HK.
  pose proof (kraft_le ll) as HL.
  pose proof (HuffmanProofs.pow2_pos (15 - b)) as HP.
  remember (2 ^ N.of_nat (15 - b)) as P.
  remember (first_code ll b + HuffmanProofs.cnt ll b) as X.
  assert (HX : X <= X * P) by nia.
  lia.
Qed.

Lemma cnt_count_len : forall ll b, b <> 0%nat -> HuffmanProofs.cnt ll b = count_len ll b.
Proof.
  intros ll b Hb. unfold HuffmanProofs.cnt. destruct (Nat.eqb_spec b 0); [contradiction|reflexivity].
Qed.

Lemma term_15 : forall x, (x <= 15)%nat ->
  HuffmanProofs.w1 x 15 + HuffmanProofs.ind x 15 = HuffmanProofs.kterm 15 x.
Proof.
  intros x Hx. do 16 (destruct x as [|x]; [vm_compute; reflexivity|]). lia.
Qed.

Lemma psum_cnt_kraft : forall ll, Forall (fun y => (y <= 15)%nat) ll ->
  HuffmanProofs.psum ll 15 + HuffmanProofs.cnt ll 15 = kraft 15 ll.
Proof.
  intros ll HF. induction HF as [|x r Hx HF IH].
  - reflexivity.
  - cbn [HuffmanProofs.psum kraft]. rewrite HuffmanProofs.cnt_cons.
    pose proof (term_15 x Hx) as HT. unfold HuffmanProofs.kterm in HT. lia.
Qed.

(* ---------------------------------------------------------------- the loops *)
Definition ps1_inv (ll : lens) (ex0 : arr) (i : N) (st : arr * arr * N * N) : Prop :=
  let '(ex, nc, ct, ctmp) := st in
  ct mod 65536 = Soff ll i mod 65536 /\
  ctmp = aget ex0 i /\
  (forall j, j <= i -> aget ex j = Soff ll j) /\
  (forall j, i < j -> aget ex j = aget ex0 j) /\
  (forall b, 1 <= b <= i -> aget nc b = first_code ll (N.to_nat b)).

Lemma ps_loop1_spec : forall ll lc ex0 nc0,
  (length ll <= 286)%nat ->
  (forall x, 1 <= x <= 15 -> aget lc x = count_len ll (N.to_nat x)) ->
  (forall L, 1 <= L <= 15 -> (aget lc L + aget ex0 L) mod 65536 = Ecount ll L mod 65536) ->
  ps1_inv ll ex0 15
    (ps_loop1 lc (aset (aset ex0 0 0) 1 0) (aset (aset nc0 0 0) 1 0) (aget ex0 1)).
Proof.
  intros ll lc ex0 nc0 Hlen Hlc HE. unfold ps_loop1. apply (forN_ind _ (ps1_inv ll ex0)).
  - lia.
  - unfold ps1_inv. split; [rewrite Soff_1; reflexivity|]. split; [reflexivity|].
    split; [|split].
    + intros j Hj. rewrite !aget_aset.
      destruct (N.eqb_spec j 1) as [->|H1]; [rewrite Soff_1; reflexivity|].
      destruct (N.eqb_spec j 0) as [->|H0]; [reflexivity|lia].
    + intros j Hj. rewrite !aget_aset_other by lia. reflexivity.
    + intros b Hb. assert (b = 1) by lia. subst b. rewrite aget_aset_same. reflexivity.
  - intros i st Hi Hst. destruct st as [[[ex nc] ct] ctmp].
    unfold ps1_inv in Hst. destruct Hst as (Hct & Hctmp & Hlo & Hhi & Hnc). subst ctmp.
    cbv beta iota zeta. unfold ps1_inv.
    assert (Hnew : u32 (aget lc i + aget ex0 i + ct) mod 65536 = Soff ll (i + 1) mod 65536).
    { rewrite mod16_u32, (Soff_succ ll i).
      rewrite (N.add_comm (Soff ll i)). apply mod_add_congr; [lia| |exact Hct].
      apply HE. lia. }
    split; [exact Hnew|]. split; [apply Hhi; lia|]. split; [|split].
    + intros j Hj. rewrite aget_aset. destruct (N.eqb_spec j (i + 1)) as [->|Hne].
      * rewrite u16_mod, Hnew. apply Soff_small. lia.
      * apply Hlo. lia.
    + intros j Hj. rewrite aget_aset_other by lia. apply Hhi. lia.
    + intros b Hb. rewrite aget_aset. destruct (N.eqb_spec b (i + 1)) as [->|Hne].
      * rewrite (Hnc i) by lia. rewrite (Hlc i) by lia.
        replace (N.to_nat (i + 1)) with (S (N.to_nat i)) by lia.
        rewrite HuffmanProofs.first_code_S.
        rewrite (cnt_count_len ll (N.to_nat i)) by lia.
        pose proof (fc_cnt_small ll (N.to_nat i) ltac:(lia) Hlen) as Hs.
        rewrite (cnt_count_len ll (N.to_nat i)) in Hs by lia.
        rewrite u32_small by lia.
        rewrite (shl32_small _ 1 23) by (change (2 ^ 23) with 8388608; lia).
        rewrite N.shiftl_mul_pow2. change (2 ^ 1) with 2. lia.
      * apply Hnc. lia.
Qed.

Definition ps2_inv (ll : lens) (ex0 : arr) (i : N) (st : arr * N * N) : Prop :=
  let '(ex, ct, ctmp) := st in
  ct mod 65536 = Soff ll i mod 65536 /\
  ctmp mod 65536 = Ecount ll i mod 65536 /\
  (forall j, j <= i -> aget ex j = Soff ll j) /\
  (forall j, i < j -> aget ex j = aget ex0 j).

Lemma ps_loop2_spec : forall ll ex0 ex ct ctmp,
  (forall L, 16 <= L -> aget ex0 L mod 65536 = Ecount ll L mod 65536) ->
  ps2_inv ll ex0 15 (ex, ct, ctmp) ->
  ps2_inv ll ex0 22 (ps_loop2 ex ct ctmp).
Proof.
  intros ll ex0 ex ct ctmp HE H0. unfold ps_loop2. apply (forN_ind _ (ps2_inv ll ex0)).
  - lia.
  - exact H0.
  - intros i st Hi Hst. destruct st as [[ex' ct'] ctmp'].
    unfold ps2_inv in Hst. destruct Hst as (Hct & Hctmp & Hlo & Hhi).
    cbv beta iota zeta. unfold ps2_inv.
    assert (Hnew : u32 (ctmp' + ct') mod 65536 = Soff ll (i + 1) mod 65536).
    { rewrite mod16_u32, (Soff_succ ll i).
      rewrite (N.add_comm (Soff ll i)). apply mod_add_congr; [lia|exact Hctmp|exact Hct]. }
    split; [exact Hnew|]. split; [|split].
    + rewrite Hhi by lia. apply HE. lia.
    + intros j Hj. rewrite aget_aset. destruct (N.eqb_spec j (i + 1)) as [->|Hne].
      * rewrite u16_mod, Hnew. apply Soff_small. lia.
      * apply Hlo. lia.
    + intros j Hj. rewrite aget_aset_other by lia. apply Hhi. lia.
Qed.

(* ---------------------------------------------------------------- assembly *)
Theorem ps_loops_spec : forall ll d, lit_lens_in ll d ->
  let '(ex1, nc1, ct, ctmp) :=
    ps_loop1 (litCount d) (aset (aset (litExpandCount d) 0 0) 1 0)
             (aset (aset (nextCode d) 0 0) 1 0) (aget (litExpandCount d) 1) in
  let '(ex2, _, _) := ps_loop2 ex1 ct (u32 (aget (litCount d) 15 + ctmp)) in
  ps_post ll ex2 nc1 /\
  (32768 <? u32 (aget nc1 15 + aget (litCount d) 15)) = oversubscribed 15 ll.
Proof.
  intros ll d [[Hlen0 [HF [_ Hlc]]] [Hex00 Hex0]].
  assert (Hlen : (length ll <= 286)%nat) by lia.
  remember (litCount d) as lc eqn:Elc.
  remember (litExpandCount d) as ex0 eqn:Eex0.
  assert (Hlow : forall L, 1 <= L <= 15 ->
            (aget lc L + aget ex0 L) mod 65536 = Ecount ll L mod 65536).
  { intros L HL. rewrite (Hlc L HL). apply Ecount_congr; [lia|exact Hlen|].
    apply Hex0. lia. }
  assert (Hhigh : forall L, 16 <= L -> aget ex0 L mod 65536 = Ecount ll L mod 65536).
  { intros L HL.
    rewrite <- (Ecount_congr ll L (aget ex0 L) ltac:(lia) Hlen (Hex0 L ltac:(lia))).
    rewrite (count_len_big ll (N.to_nat L) HF) by lia. reflexivity. }
  pose proof (ps_loop1_spec ll lc ex0 (nextCode d) Hlen Hlc Hlow) as H1.
  destruct (ps_loop1 lc (aset (aset ex0 0 0) 1 0) (aset (aset (nextCode d) 0 0) 1 0)
                     (aget ex0 1)) as [[[ex1 nc1] ct1] ctmp1].
  unfold ps1_inv in H1. destruct H1 as (Hct1 & Hctmp1 & Hlo1 & Hhi1 & Hnc1).
  assert (H15 : ps2_inv ll ex0 15 (ex1, ct1, u32 (aget lc 15 + ctmp1))).
  { unfold ps2_inv. split; [exact Hct1|]. split; [|split; assumption].
    rewrite mod16_u32, Hctmp1. apply Hlow. lia. }
  pose proof (ps_loop2_spec ll ex0 ex1 ct1 (u32 (aget lc 15 + ctmp1)) Hhigh H15) as H2.
  destruct (ps_loop2 ex1 ct1 (u32 (aget lc 15 + ctmp1))) as [[ex2 ct2] ctmp2].
  unfold ps2_inv in H2. destruct H2 as (_ & _ & Hlo2 & _).
  split.
  - split.
    + exact Hlo2.
    + intros b Hb. rewrite (Hnc1 (N.of_nat b)) by lia. rewrite Nat2N.id. reflexivity.
  - rewrite (Hnc1 15) by lia. rewrite (Hlc 15) by lia.
    change (N.to_nat 15) with 15%nat.
    pose proof (psum_cnt_kraft ll HF) as HK.
    rewrite <- HuffmanProofs.first_code_psum in HK.
    rewrite (cnt_count_len ll 15) in HK by lia.
    pose proof (kraft_le ll) as HL.
    rewrite u32_small by lia. rewrite HK.
    unfold oversubscribed. reflexivity.
Qed.

Print Assumptions ps_loops_spec.
