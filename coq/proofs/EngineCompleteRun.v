(* EngineCompleteRun.v -- Read and erun over the stronger invariant: what the final result of a
   run means (erun_kinds_statement) and completeness (erun_complete_statement), from
   step_complete. *)
From Coq Require Import List NArith ZArith Bool Lia ZifyBool ZifyNat ZifyN Relations.
From Verif Require Import Bits Huffman Inflate InflateSpec InflateMono.
From Verif Require Import Base EngineTables Engine EngineRefineSpec EngineRefineSpecBlock
     EngineRefineSpecHdr EngineRefineSpecReach EngineRefineSpecBuf EngineRefineSpecNeed
     EngineRefineSpecBlock2 EngineRefineSpecBlock3 EngineRefineSpecTop EngineRefineSpecFinal
     EngineCompleteSpecA EngineCompleteSpecB EngineCompleteSpecReach EngineCompleteSpecC
     EngineCompleteSpecD EngineCompleteSpecE
     EngineRefineBits EngineRefineTopBase EngineRefineTop EngineRefineRun EngineCompleteTop.
Import ListNotations.
Open Scope N_scope.

Definition step_body2 : Prop :=
  forall data delivered f,
    Forall (fun x => x < 256) data ->
    dec_inv2 data delivered f -> readPos f = writePos f -> derr f = None ->
    let '(f', r) := step f in step_post2 data delivered f f' r.

(* ---------------------------------------------------------------- the terminal of the source
   never changes *)
Lemma fill_loop_term : forall i b, term (fill_loop i b) = term b.
Proof.
  induction i as [|k IH]; intros b; cbn [fill_loop]; [reflexivity|].
  destruct (src_read (chunks b) (term b) (bsize b - blen b)) as [[[got n] err] cs].
  destruct err; [reflexivity|]. destruct (0 <? n); [reflexivity|]. rewrite IH. reflexivity.
Qed.

Lemma some_inj_gen : forall (A : Type) (x y : A), Some x = Some y -> x = y.
Proof. intros A x y H. inversion H. reflexivity. Qed.

Lemma bfill_term : forall b b', bfill b = Some b' -> term b' = term b.
Proof.
  intros b b' H. unfold bfill in H. destruct (bsize b <=? blen b); [discriminate|].
  apply some_inj_gen in H. rewrite <- H. apply fill_loop_term.
Qed.

Lemma peek_loop_term : forall fuel b n b', peek_loop fuel b n = Some b' -> term b' = term b.
Proof.
  induction fuel as [|k IH]; intros b n b' H; cbn [peek_loop] in H; [discriminate|].
  destruct ((blen b <? n) && (blen b <? bsize b) && match berr b with None => true | _ => false end).
  - destruct (bfill b) as [b1|] eqn:E; [|discriminate].
    rewrite (IH _ _ _ H). apply (bfill_term _ _ E).
  - injection H as <-. reflexivity.
Qed.

Lemma bPeek_term_goal : forall b n,
  match bPeek b n with Some (_, _, _, b') => term b' = term b | None => True end.
Proof.
  intros b n. unfold bPeek. generalize big_fuel. intros fuel.
  destruct (peek_loop fuel b n) as [b1|] eqn:E; [|exact I].
  pose proof (peek_loop_term _ _ _ _ E) as T.
  destruct (bsize b1 <? n); [exact T|].
  destruct (blen b1 <? n); exact T.
Qed.

Lemma bPeek_term : forall b n bytes cnt err b', bPeek b n = Some (bytes, cnt, err, b') -> term b' = term b.
Proof.
  intros b n bytes cnt err b' H. pose proof (bPeek_term_goal b n) as G. rewrite H in G. exact G.
Qed.

Lemma discard_loop_term : forall fuel b n o b', discard_loop fuel b n = Some (o, b') -> term b' = term b.
Proof.
  induction fuel as [|k IH]; intros b n o b' H; cbn [discard_loop] in H; [discriminate|].
  destruct (blen b =? 0) eqn:E0.
  - destruct (bfill b) as [b1|] eqn:E; [|discriminate].
    pose proof (bfill_term _ _ E) as T.
    destruct (n - N.min (blen b1) n =? 0); [injection H as _ <-; exact T|].
    destruct (berr b1); [injection H as _ <-; exact T|].
    rewrite (IH _ _ _ _ H). exact T.
  - destruct (n - N.min (blen b) n =? 0); [injection H as _ <-; reflexivity|].
    destruct (berr b); [injection H as _ <-; reflexivity|].
    rewrite (IH _ _ _ _ H). reflexivity.
Qed.

Lemma bDiscard_term_goal : forall b n,
  match bDiscard b n with Some (_, b') => term b' = term b | None => True end.
Proof.
  intros b n. unfold bDiscard. destruct (n =? 0); [reflexivity|].
  generalize big_fuel. intros fuel.
  destruct (discard_loop fuel b n) as [[o b']|] eqn:E; [|exact I].
  apply (discard_loop_term _ _ _ _ _ E).
Qed.

Lemma bDiscard_term : forall b n o b', bDiscard b n = Some (o, b') -> term b' = term b.
Proof.
  intros b n o b' H. pose proof (bDiscard_term_goal b n) as G. rewrite H in G. exact G.
Qed.

Lemma step_discard_term : forall f o f', step_discard f = Some (o, f') -> term (rBuf f') = term (rBuf f).
Proof.
  intros f o f' H. unfold step_discard in H. destruct (0 <? _)%Z.
  - destruct (bDiscard _ _) as [[[be|] rb]|] eqn:E; [| |discriminate];
      injection H as _ <-; cbn [rBuf set_state]; apply (bDiscard_term _ _ _ _ E).
  - injection H as _ <-. reflexivity.
Qed.

Lemma step_discard_at_term : forall h f o f', step_discard_at h f = Some (o, f') -> term (rBuf f') = term (rBuf f).
Proof.
  intros h f o f' H. unfold step_discard_at in H. destruct (0 <? _)%Z.
  - destruct (bDiscard _ _) as [[[be|] rb]|] eqn:E; [| |discriminate];
      injection H as _ <-; cbn [rBuf set_state]; apply (bDiscard_term _ _ _ _ E).
  - injection H as _ <-. reflexivity.
Qed.

Lemma step_attach_term : forall f, term (rBuf (fst (step_attach f))) = term (rBuf f).
Proof.
  intros f. unfold step_attach. destruct (r_len (rd (state f)) <? 0)%Z; [reflexivity|].
  match goal with |- context[if ?C then _ else (_, None)] => destruct C end.
  - cbn [rBuf]. destruct (bPeek (rBuf f) _) as [[[[by1 c1] e1] rb1]|] eqn:E1; [|reflexivity].
    pose proof (bPeek_term _ _ _ _ _ _ E1) as T1.
    destruct e1 as [[| | |]|]; cbn [fst rBuf]; try exact T1;
      (destruct (bPeek rb1 (bBuffered rb1)) as [[[[by2 c2] e2] rb2]|] eqn:E2; [|exact T1];
       destruct (c2 <? _); cbn [fst rBuf]; [exact T1|];
       rewrite (bPeek_term _ _ _ _ _ _ E2); exact T1).
  - cbn [rBuf]. destruct (bPeek (rBuf f) (bBuffered (rBuf f))) as [[[[by2 c2] e2] rb2]|] eqn:E2; [|reflexivity].
    destruct (c2 <? _); cbn [fst rBuf]; [reflexivity|]. apply (bPeek_term _ _ _ _ _ _ E2).
Qed.

Lemma decomperss_rbuf : forall f, rBuf (fst (decomperss f)) = rBuf f.
Proof.
  intros f. unfold decomperss. generalize big_fuel. intros fuel.
  destruct (decomp_loop fuel (state f) (hist f) (writePos f)) as [[[s h] idx] err].
  destruct (negb (writeOverflowLen (ov s) =? 0));
    match goal with |- context[if ?C then _ else _] => destruct C end; reflexivity.
Qed.

Lemma step_term : forall f, term (rBuf (fst (step f))) = term (rBuf f).
Proof.
  intros f. rewrite step_eq. destruct (phase (state f) =? phaseFinish); [reflexivity|].
  assert (Hd : forall f0, term (rBuf (fst (let '(f1, e) := step_decode (step_slide f0) in step_tail f1 e)))
                          = term (rBuf f0)).
  { intros f0. unfold step_decode.
    destruct (decomperss (step_slide f0)) as [f2 e] eqn:Ed.
    assert (Hr : rBuf f2 = rBuf f0).
    { pose proof (decomperss_rbuf (step_slide f0)) as Hq. rewrite Ed in Hq. cbn [fst] in Hq.
      rewrite Hq. unfold step_slide. destruct (historySize * 2 <=? writePos f0); reflexivity. }
    cbn [set_state state writePos readPos hist rBuf derr peekSize eof haveBits].
    set (f3 := mkD _ _ _ _ (rBuf f2) _ _ _ _).
    assert (H3 : term (rBuf f3) = term (rBuf f0)) by (unfold f3; cbn [rBuf]; rewrite Hr; reflexivity).
    unfold step_tail. destruct e; try exact H3;
      (destruct (isError _ || _);
       [ destruct (step_discard_at _ f3) as [[[be|] f4]|] eqn:E4; cbn [fst]; try exact H3;
         try (destruct (ierr_eqb _ _); cbn [fst]); rewrite (step_discard_at_term _ _ _ _ E4); exact H3
       | destruct (phase (state f3) =? phaseStreamEnd);
         match goal with |- context[if ?C then _ else _] => destruct C end; cbn [fst]; try exact H3;
         match goal with |- context[step_discard ?g] =>
           destruct (step_discard g) as [[[be|] f4]|] eqn:E4; cbn [fst]; try exact H3;
           rewrite (step_discard_term _ _ _ E4); exact H3 end ]). }
  destruct (inputNil (state f)).
  - pose proof (step_attach_term f) as Ta. destruct (step_attach f) as [f1 [e1|]]; cbn [fst] in *; [exact Ta|].
    rewrite Hd. exact Ta.
  - apply Hd.
Qed.

(* ---------------------------------------------------------------- Read *)
Definition good_err (data : list N) (t : terminal) (e : rres) : Prop :=
  (e = REOF \/ e = RUnexpectedEOF \/ e = RSrcErr \/ (exists o, e = RCorrupt o) \/ e = RPanic \/
   e = RStuck) /\
  (e = RUnexpectedEOF -> t = TEOF /\ status (Inflate.inflate [] data) <> Done) /\
  (e = RSrcErr -> t = TErr /\ status (Inflate.inflate [] data) <> Done) /\
  ((exists o, e = RCorrupt o) -> strict data -> status (Inflate.inflate [] data) <> Done).

Definition run_inv2 (data : list N) (t : terminal) (delivered : list N) (f : decompressor) : Prop :=
  (exists c, reach data c /\
             delivered ++ pending_out f = frev (rout (cfg_st c)) /\
             readPos f <= writePos f /\
             (derr f = Some REOF ->
                exists st S0, c = CDone st S0 /\ consumed (rBuf f) = (bp S0 + 7) / 8)) /\
  (derr f = None -> dec_inv2 data delivered f) /\
  term (rBuf f) = t /\
  (forall e, derr f = Some e -> good_err data t e).

Lemma dec_inv2_deliver : forall data delivered f num,
  dec_inv2 data delivered f -> num <= writePos f - readPos f ->
  dec_inv2 data (delivered ++ hist_slice (N.to_nat num) (hist f) (readPos f))
           (mkD (state f) (writePos f) (readPos f + num) (hist f) (rBuf f) (derr f) (peekSize f)
                (eof f) (haveBits f)).
Proof.
  intros data delivered f num [(Hbuf & HD & Hrp & Hwp & Hph & c & u & Hreach & Hsim & Hwin & Hdel & Hu) Hfl] Hnum.
  split; [|exact Hfl].
  unfold dec_invS. cbn [rBuf state writePos readPos hist peekSize].
  split; [exact Hbuf|]. split; [exact HD|]. split; [lia|]. split; [exact Hwp|]. split; [exact Hph|].
  exists c, u. split; [exact Hreach|]. split; [exact Hsim|]. split; [exact Hwin|].
  split; [|exact Hu].
  rewrite <- Hdel, <- app_assoc. f_equal. symmetry. apply pending_deliver. exact Hnum.
Qed.

Lemma read_loop_ok2 : step_body2 -> forall data t, Forall (fun x => x < 256) data ->
  forall fuel f plen delivered,
    run_inv2 data t delivered f ->
    let '(f', bytes, r) := read_loop fuel f plen in
    run_inv2 data t (delivered ++ bytes) f' /\
    (r = REOF -> derr f' = Some REOF /\ readPos f' = writePos f') /\
    (r <> ROk -> r = RStuck \/ derr f' = Some r) /\
    (r = ROk -> 0 < plen -> bytes <> []).
Proof.
  intros Hstep data t Hdata. induction fuel as [|k IH]; intros f plen delivered Hinv.
  - cbn [read_loop]. cbv iota beta. rewrite app_nil_r. split; [exact Hinv|].
    split; [discriminate|]. split; [intros _; left; reflexivity|discriminate].
  - cbn [read_loop].
    destruct Hinv as ((c & R1 & R2 & R3 & R4) & Hd & Ht & Hg).
    destruct (readPos f <? writePos f) eqn:Elt.
    + apply N.ltb_lt in Elt.
      set (num := N.min plen (writePos f - readPos f)).
      assert (Hnum : num <= writePos f - readPos f) by (unfold num; lia).
      set (f' := mkD (state f) (writePos f) (readPos f + num) (hist f) (rBuf f) (derr f) (peekSize f)
                     (eof f) (haveBits f)).
      assert (Hinv' : run_inv2 data t (delivered ++ hist_slice (N.to_nat num) (hist f) (readPos f)) f').
      { split; [|split; [|split; [exact Ht|exact Hg]]].
        - exists c. split; [exact R1|]. split.
          + rewrite <- R2, <- app_assoc. f_equal. symmetry. apply pending_deliver. exact Hnum.
          + split; [unfold f'; cbn [readPos writePos]; lia|]. exact R4.
        - intros Hn. apply dec_inv2_deliver; [apply Hd; exact Hn|exact Hnum]. }
      assert (Hne : 0 < plen -> hist_slice (N.to_nat num) (hist f) (readPos f) <> []).
      { intros Hp Hc. apply (f_equal (@length N)) in Hc. rewrite hist_slice_length in Hc.
        cbn [length] in Hc. unfold num in Hc. lia. }
      destruct (writePos f' =? readPos f') eqn:Eall; unfold f' in Eall; cbn [writePos readPos] in Eall.
      * cbv iota beta. split; [exact Hinv'|]. apply N.eqb_eq in Eall.
        change (derr f') with (derr f) in *.
        destruct (derr f) as [e|] eqn:Ede.
        -- split; [intros ->; split; [reflexivity|unfold f'; cbn [readPos writePos]; lia]|].
           split; [intros _; right; reflexivity|]. intros _. exact Hne.
        -- split; [discriminate|]. split; [intros K; contradiction|]. intros _. exact Hne.
      * cbv iota beta. split; [exact Hinv'|]. split; [discriminate|].
        split; [intros K; contradiction|]. intros _. exact Hne.
    + apply N.ltb_ge in Elt.
      destruct (derr f) as [e|] eqn:Ede.
      * cbv iota beta. rewrite app_nil_r. split.
        { unfold run_inv2. rewrite Ede.
          split; [exists c; split; [exact R1|]; split; [exact R2|]; split; [exact R3|exact R4]|].
          split; [exact Hd|]. split; [exact Ht|exact Hg]. }
        split; [intros ->; split; [exact Ede|lia]|].
        split; [intros _; right; exact Ede|].
        intros -> _. destruct (Hg ROk eq_refl) as ([K|[K|[K|[(o & K)|[K|K]]]]] & _); discriminate.
      * specialize (Hd eq_refl).
        pose proof (Hstep data delivered f Hdata Hd ltac:(lia) Ede) as HS.
        pose proof (step_term f) as HT.
        destruct (step f) as [f1 r1]. cbn [fst] in HT.
        destruct HS as ((c1 & S1 & S2 & S3 & S4) & S5 & S6 & K1 & K2 & K3 & K4).
        assert (Hinv1 : run_inv2 data t delivered (set_err f1 r1)).
        { split; [|split; [|split]].
          - exists c1. split; [exact S1|]. split; [exact S2|]. split; [exact S3|].
            intros He. cbn [derr set_err] in He. exact (S4 He).
          - intros He. cbn [derr set_err] in He. specialize (S6 He).
            destruct S6 as [(Q1 & Q2 & Q3 & Q4 & Q5 & Q6) Q7]. split; [|exact Q7].
            unfold dec_invS.
            split; [exact Q1|]. split; [exact Q2|]. split; [exact Q3|]. split; [exact Q4|]. split; [exact Q5|exact Q6].
          - cbn [rBuf set_err]. congruence.
          - intros e He. cbn [derr set_err] in He. subst r1.
            split.
            { destruct K1 as [K|[K|[K|[K|[(o & K)|[K|K]]]]]]; try discriminate; injection K as ->; auto 8.
              right; right; right; left. eexists; reflexivity. }
            split.
            { intros ->. destruct (K2 eq_refl) as [T1 T2]. split; [congruence|exact T2]. }
            split.
            { intros ->. destruct (K3 eq_refl) as [T1 T2]. split; [congruence|exact T2]. }
            intros (o & ->). apply K4. eexists; reflexivity. }
        destruct r1 as [e'|].
        -- cbn [writePos readPos set_err].
           destruct (writePos f1 <=? readPos f1) eqn:Ele.
           ++ cbv iota beta. rewrite app_nil_r. split; [exact Hinv1|].
              apply N.leb_le in Ele.
              split; [intros ->; split; [reflexivity|cbn [readPos writePos set_err]; lia]|].
              split; [intros _; right; reflexivity|].
              intros -> _. exfalso.
              destruct K1 as [K|[K|[K|[K|[(o & K)|[K|K]]]]]]; discriminate.
           ++ apply IH. exact Hinv1.
        -- apply IH. exact Hinv1.
Qed.

(* ---------------------------------------------------------------- erun_loop *)
Definition all_ok (l : list (list N * rres)) : Prop :=
  Forall (fun x : list N * rres => snd x = ROk /\ fst x <> []) l.

Lemma results_bytes_length_ge : forall l, all_ok l -> (length l <= length (results_bytes l))%nat.
Proof.
  induction l as [|[b r] l IH]; intros H; [cbn; lia|].
  inversion H as [|x y [_ Hb] Hl]; subst. cbn [snd fst] in *.
  unfold results_bytes in *. cbn [map concat fst length]. rewrite app_length.
  specialize (IH Hl). destruct b; [contradiction|]. cbn [length]. lia.
Qed.

Lemma all_ok_frev_snoc : forall acc b, all_ok acc -> b <> [] -> all_ok ((b, ROk) :: acc).
Proof. intros acc b H Hb. constructor; [split; [reflexivity|exact Hb]|exact H]. Qed.

Lemma erun_loop_ok2 : step_body2 -> forall data t, Forall (fun x => x < 256) data ->
  forall reads f acc,
    Forall (fun p => 0 < p) reads ->
    run_inv2 data t (results_bytes (frev acc)) f -> all_ok acc ->
    let '(l, f') := erun_loop f reads acc in
    run_inv2 data t (results_bytes l) f' /\
    ((all_ok (rev l) /\ length l = (length acc + length reads)%nat) \/
     (exists pre bytes r, l = pre ++ [(bytes, r)] /\ r <> ROk /\
                          (r = RStuck \/ derr f' = Some r) /\
                          (r = REOF -> readPos f' = writePos f'))).
Proof.
  intros Hstep data t Hdata. induction reads as [|p rest IH]; intros f acc Hpos Hinv Hacc.
  - cbn [erun_loop]. split; [exact Hinv|]. left. rewrite frev_rev, rev_involutive, rev_length.
    split; [exact Hacc|cbn [length]; lia].
  - cbn [erun_loop]. unfold dRead.
    inversion Hpos as [|x y Hp Hrest]; subst.
    pose proof (read_loop_ok2 Hstep data t Hdata big_fuel f p (results_bytes (frev acc)) Hinv) as HR.
    destruct (read_loop big_fuel f p) as [[f1 bytes] r].
    destruct HR as (R1 & R2 & R3 & R4).
    rewrite <- results_bytes_snoc with (r := r) in R1.
    assert (Hstop : r <> ROk ->
              run_inv2 data t (results_bytes (frev ((bytes, r) :: acc))) f1 /\
              ((all_ok (rev (frev ((bytes, r) :: acc))) /\
                length (frev ((bytes, r) :: acc)) = (length acc + length (p :: rest))%nat) \/
               (exists pre b0 r0, frev ((bytes, r) :: acc) = pre ++ [(b0, r0)] /\ r0 <> ROk /\
                                  (r0 = RStuck \/ derr f1 = Some r0) /\
                                  (r0 = REOF -> readPos f1 = writePos f1)))).
    { intros Hr. split; [exact R1|]. right. exists (rev acc), bytes, r.
      split; [rewrite frev_rev; reflexivity|]. split; [exact Hr|]. split; [exact (R3 Hr)|].
      intros He. exact (proj2 (R2 He)). }
    destruct r; try (apply Hstop; discriminate).
    specialize (IH f1 ((bytes, ROk) :: acc) Hrest R1 (all_ok_frev_snoc acc bytes Hacc (R4 eq_refl Hp))).
    destruct (erun_loop f1 rest ((bytes, ROk) :: acc)) as [l f'].
    destruct IH as (I1 & I2). split; [exact I1|].
    destruct I2 as [[I2 I3]|I2]; [left|right; exact I2].
    split; [exact I2|]. cbn [length] in *. lia.
Qed.

(* ---------------------------------------------------------------- the initial decompressor *)
Lemma newReader_inv2 : newbuf_ok_statement -> forall data cs bufsize t,
  concat cs = data -> Forall (fun c => c <> []) cs ->
  run_inv2 data t [] (newReader bufsize cs t).
Proof.
  intros Hnb data cs bufsize t Hcs Hne.
  destruct (Hnb bufsize cs t Hne) as (B1 & B2 & B3).
  assert (Hdec : dec_invS data [] (newReader bufsize cs t)).
  { unfold dec_invS, newReader. cbn [rBuf state writePos readPos hist peekSize].
    split; [exact B1|].
    split; [exists []; cbn [app length]; split; [rewrite B2; symmetry; exact Hcs|exact B3]|].
    split; [lia|]. split; [cbv; discriminate|]. split; [cbv; discriminate|].
    exists (rinit data), data.
    split; [apply rt_refl|].
    split.
    { unfold st_sim2, rinit. split; [reflexivity|].
      split; [left; reflexivity|].
      split.
      { unfold hdr_ok, lrd, inflate0, br0.
        cbn [rd r_bits r_len r_in r_inlen headerBuffer headerBuffered phase app].
        split.
        - unfold br_wf, br_bits. cbn [r_bits r_len r_in r_inlen length bits_of_bytes flat_map Z.to_nat bits_of_N app].
          split; [reflexivity|]. split; [lia|]. split; [intros; reflexivity|]. split; [constructor|].
          intros i Hi. rewrite N.bits_0 in Hi. discriminate.
        - split; [lia|]. split; [reflexivity|]. split; [cbv; discriminate|].
          split; [left; reflexivity|intros; reflexivity]. }
      split; [intros Hp; discriminate Hp|].
      split; [intros Hp; discriminate Hp|].
      reflexivity. }
    split.
    { unfold win_rel, rinit, st0. cbn [cfg_st oavail olen rout length].
      split; [reflexivity|]. split; [reflexivity|]. split; [lia|]. split; [left; reflexivity|].
      intros i Hi. lia. }
    split; [reflexivity|].
    cbn [inputNil inflate0 rd br0 r_in r_inlen r_len].
    split; [reflexivity|]. split; [reflexivity|].
    rewrite B2. cbn. symmetry. exact Hcs. }
  split; [|split; [|split]].
  - exists (rinit data). split; [apply rt_refl|]. split; [reflexivity|].
    split; [cbn; lia|]. intros H; discriminate H.
  - intros _. split; [exact Hdec|].
    unfold flags_inv, newReader. cbn [eof haveBits state rBuf inputNil inflate0 rd br0 r_len].
    split; [intros Hc; discriminate Hc|].
    intros _ _ Hs. rewrite B2, Hcs in Hs. cbn in Hs. rewrite Hs.
    vm_compute. discriminate.
  - reflexivity.
  - intros e He. discriminate He.
Qed.

(* ---------------------------------------------------------------- the two theorems, from step *)
Lemma last_app_single : forall (A : Type) (l : list A) (x d : A), last (l ++ [x]) d = x.
Proof. intros A l x d. induction l as [|a l IH]; [reflexivity|]. cbn [app]. destruct (l ++ [x]) eqn:E; [destruct l; discriminate|]. exact IH. Qed.

Theorem erun_kinds_from_step :
  step_body2 -> newbuf_ok_statement -> reach_out_prefix_statement -> reach_done_statement ->
  erun_kinds_statement.
Proof.
  intros Hstep Hnb Hpre Hdone data cs bufsize t reads Hdata Hcs Hne [Hpos Hlen].
  rewrite erun_ext_loop.
  pose proof (erun_loop_ok2 Hstep data t Hdata reads (newReader bufsize cs t) [] Hpos
                (newReader_inv2 Hnb data cs bufsize t Hcs Hne) (Forall_nil _)) as HR.
  destruct (erun_loop (newReader bufsize cs t) reads []) as [l f].
  destruct HR as (((c & R1 & R2 & R3 & R4) & Hd & Ht & Hg) & HE).
  intros Hnf.
  assert (Hp : is_prefix (results_bytes l) (out (Inflate.inflate [] data))).
  { apply is_prefix_trans with (b := frev (rout (cfg_st c))).
    - exists (pending_out f). symmetry. exact R2.
    - apply Hpre. exact R1. }
  destruct HE as [[Hok Hl]|(pre & bytes & r & El & Hr & Hrd & Hre)].
  - (* every read returned nil: impossible, more reads than output bytes *)
    exfalso. pose proof (results_bytes_length_ge (rev l) Hok) as Hge.
    assert (Hlr : length (results_bytes (rev l)) = length (results_bytes l)).
    { unfold results_bytes. rewrite map_rev. clear. induction (map fst l) as [|a m IH]; [reflexivity|].
      cbn [rev concat]. rewrite concat_app, !app_length, IH. cbn [concat length]. rewrite app_nil_r. lia. }
    destruct Hp as [z Hz]. apply (f_equal (@length N)) in Hz. rewrite app_length in Hz.
    rewrite rev_length in Hge. cbn [length] in Hl. unfold byte in *. lia.
  - exists bytes, r. subst l.
    split; [apply last_app_single|]. split; [destruct pre; discriminate|].
    assert (Hnr : r <> RPanic /\ r <> RStuck).
    { unfold no_fatal in Hnf. apply Forall_app in Hnf. destruct Hnf as [_ Hnf].
      inversion Hnf as [|x y Hx _]; subst. exact Hx. }
    destruct Hrd as [Hrd|Hrd]; [destruct Hnr; contradiction|].
    destruct (Hg r Hrd) as (G1 & G2 & G3 & G4).
    assert (Hkind : r = REOF \/ r = RUnexpectedEOF \/ r = RSrcErr \/ exists o, r = RCorrupt o).
    { destruct G1 as [K|[K|[K|[K|[K|K]]]]]; auto; destruct Hnr; contradiction. }
    assert (Heof : r = REOF -> status (Inflate.inflate [] data) = Done).
    { intros ->. destruct (R4 Hrd) as (st & S0 & Hc & _). subst c.
      exact (proj1 (Hdone data st S0 R1)). }
    split; [exact Hkind|]. split; [exact Heof|].
    split.
    { intros Hs Hst. destruct Hkind as [K|[K|[K|K]]]; [exact K| | |]; exfalso.
      - exact (proj2 (G2 K) Hs).
      - exact (proj2 (G3 K) Hs).
      - exact (G4 K Hst Hs). }
    split; [exact G2|]. split; [exact G3|exact G4].
Qed.

Theorem erun_complete_from_kinds :
  erun_kinds_statement -> erun_sound_statement -> erun_complete_statement.
Proof.
  intros Hk Hs data cs bufsize t reads Hdata Hcs Hne Hdn Hst Her.
  pose proof (Hk data cs bufsize t reads Hdata Hcs Hne Her) as K.
  pose proof (Hs data cs bufsize t reads Hdata Hcs Hne) as S.
  destruct (erun_ext bufsize cs t reads) as [l ncons].
  intros Hnf. destruct (K Hnf) as (bytes & r & Hl & Hne' & _ & _ & K3 & _).
  destruct S as (_ & S2 & _).
  assert (Hin : In REOF (map snd l)).
  { specialize (K3 Hdn Hst). subst r.
    destruct (exists_last Hne') as (pre & x & ->). rewrite last_app_single in Hl. subst x.
    rewrite map_app. apply in_or_app. right. left. reflexivity. }
  split; [exact Hin|]. destruct (S2 Hin) as (_ & S3 & S4). split; assumption.
Qed.
