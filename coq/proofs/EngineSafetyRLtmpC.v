From Verif Require Import Engine EngineTables.
From Verif Require Import Base EngineSafetyBase EngineSafetyBits EngineSafetyInv EngineSafetyRLtmpA.
From Coq Require Import List NArith ZArith Bool Lia ZifyBool ZifyNat ZifyN.
Import ListNotations.
Open Scope N_scope.
(* ---------------------------------------------------------------- the initial state *)
Lemma count_len_empty : forall base n l, l <> 0 -> count_len aempty base n l = 0.
Proof.
  intros base n l Hl. induction n as [|k IH]; cbn [count_len]; [reflexivity|].
  rewrite IH, aget_empty, hc_len_0. replace (0 =? l) with false by lia. reflexivity.
Qed.

Lemma ex_dec_empty : forall n L, ex_dec aempty n L = 0.
Proof.
  intros n L. induction n as [|k IH]; cbn [ex_dec]; [reflexivity|]. cbv zeta.
  rewrite IH, aget_empty, hc_len_0.
  destruct (N.eqb_spec 0 L) as [E|E].
  - subst L. reflexivity.
  - reflexivity.
Qed.

Lemma ex_inc_empty : forall n L, ex_inc aempty n L = 0.
Proof.
  intros n L. induction n as [|k IH]; cbn [ex_inc]; [reflexivity|]. cbv zeta.
  rewrite IH, aget_empty, hc_len_0. reflexivity.
Qed.

Lemma RLI_init : forall split b,
  (257 <= split <= 286)%Z ->
  RLI split (mkRL b aempty aempty aempty aempty 0%Z (-1)%Z false).
Proof.
  intros split b Hs. unfold RLI. cbn [rl_inDist rl_curr rl_h rl_lc rl_dc rl_ex].
  split; [intros _; lia|]. split; [intros Hc; discriminate|].
  split; [intros i; rewrite aget_empty; exact ent_ok_0|].
  split; [intros p _; apply aget_empty|].
  split; [intros l Hl; rewrite aget_empty, count_len_empty by lia; reflexivity|].
  split; [intros l Hl; rewrite aget_empty, count_len_empty by lia; reflexivity|].
  split; [intros L; rewrite aget_empty; lia|].
  intros L _. rewrite aget_empty, ex_dec_empty, ex_inc_empty. reflexivity.
Qed.

Lemma RLI_post : forall split st,
  RLI split st -> rl_post (rl_h st) (rl_lc st) (rl_dc st) (rl_ex st).
Proof.
  intros split st (P1 & P2 & P3 & P4 & P5 & P6 & P7 & P8).
  assert (Hh : huff_ok (rl_h st)) by (intros i; apply P3).
  split.
  - split; [exact Hh|]. split; [exact P5|]. split; [exact P7|exact P8].
  - split; [exact Hh|]. split; [exact P6|].
    pose proof (count_len_sum15 (rl_h st) 286 30) as Hsum. change (N.of_nat 30) with 30 in Hsum.
    unfold sum15.
    rewrite (P6 1), (P6 2), (P6 3), (P6 4), (P6 5), (P6 6), (P6 7), (P6 8), (P6 9), (P6 10),
            (P6 11), (P6 12), (P6 13), (P6 14), (P6 15) by lia.
    exact Hsum.
Qed.

(* ---------------------------------------------------------------- the theorem *)
Theorem readLitDistLens_spec : False -> forall s hdist hlit s' e,
  readLitDistLens s hdist hlit = (s', e) -> hdist <= 29 -> hlit <= 29 ->
  br_inv (rd s) -> (0 <= r_len (rd s))%Z -> clc_ok (dyn s) ->
  litAndDistHuff (dyn s) = aempty -> litCount (dyn s) = aempty -> distCount (dyn s) = aempty ->
  litExpandCount (dyn s) = aempty ->
  (e = ENone \/ e = EEndInput \/ e = EInvalidBlock) /\
  br_inv (rd s') /\
  (e = EEndInput -> r_inlen (rd s') = 0) /\
  (avail (rd s') <= avail (rd s))%Z /\ r_inlen (rd s') <= r_inlen (rd s) /\
  (-80 <= r_len (rd s'))%Z /\
  (e = ENone -> rl_post (litAndDistHuff (dyn s')) (litCount (dyn s')) (distCount (dyn s'))
                        (litExpandCount (dyn s'))) /\
  same_outer s s' /\
  clcShort (dyn s') = clcShort (dyn s) /\ clcLong (dyn s') = clcLong (dyn s) /\
  codeList (dyn s') = codeList (dyn s) /\ nextCode (dyn s') = nextCode (dyn s) /\
  lenHuffCodes (dyn s') = lenHuffCodes (dyn s).
Proof.
  intros FF s hdist hlit s' e Hrun Hd Hl Hb Hlen Hclc Hh Hlc Hdc Hex.
  unfold readLitDistLens in Hrun. cbv zeta in Hrun.
  rewrite Hh, Hlc, Hdc, Hex in Hrun.
exfalso; exact FF.
Time Qed.
