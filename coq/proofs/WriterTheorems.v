(* WriterTheorems.v — the end-to-end statements of WModel/FinalSpec.v, composed from the
   layer theorems (TraceContent, StreamRender, RenderProofs, HeaderProofs, SymbolsProofs,
   TraceDecode, WriterStateProofs).

     close_acc_empty : close_acc_empty_statement
     C19_history     : C19_statement
     C01_roundtrip   : C01_statement
     C10_flush       : C10_statement
     C09_partition   : C09_statement                                                   *)
From Verif Require Import FinalSpec HuffmanProofs RenderProofs HeaderProofs SymbolsProofs TraceDecode
     StreamRender WriterStateProofs TraceContent.
From Coq Require Import ZArith Lia ZifyBool ZifyNat ZifyN.
Open Scope N_scope.

(* RenderProofs also defines a constant named `writer` *)
Local Notation writer := WriterSM.writer.

(* ------------------------------------------------------------------ *)
(* C19                                                                  *)

Theorem C19_history : C19_statement.
Proof.
  unfold C19_statement. intros sync level win4k h Hnc Hb.
  destruct (trace_content sync level win4k h Hnc Hb)
    as (w & flags & E & _ & _ & _ & _ & Hok & Hdata).
  exists w, flags. split; [exact E|]. split; [exact Hok|exact Hdata].
Qed.

(* ------------------------------------------------------------------ *)
(* the accumulator after a last block                                   *)

Lemma encode_tokens_shorter : forall lc dc lim ts b,
  (length (fst (encode_tokens lc dc lim ts b)) <= pred (length ts))%nat.
Proof.
  intros lc dc lim. induction ts as [|t r IH]; intros b; [cbn; lia|].
  cbn [encode_tokens]. destruct (lim <=? bb_idx (write_token lc dc b t)).
  - cbn [fst length]. lia.
  - specialize (IH (write_token lc dc b t)). cbn [length]. lia.
Qed.

Lemma bb_take_acc : forall b, bb_acc (snd (bb_take b)) = bb_acc b.
Proof. reflexivity. Qed.

Lemma encode_rounds_last_acc : forall fuel sync lc dc ts b chunks,
  ts <> [] -> (length ts <= fuel)%nat ->
  bb_acc (snd (encode_rounds fuel sync lc dc true ts b chunks)) = [].
Proof.
  induction fuel as [|f IH]; intros sync lc dc ts b chunks Hne Hlen.
  - destruct ts; [congruence|cbn [length] in Hlen; lia].
  - destruct ts as [|t r]; [congruence|]. cbn [encode_rounds].
    pose proof (encode_tokens_shorter lc dc out_limit (t :: r) (if sync then bb_sync b else b)) as Hs.
    destruct (encode_tokens lc dc out_limit (t :: r) (if sync then bb_sync b else b)) as [rest b1].
    cbn [fst] in Hs. destruct rest as [|x rest].
    + cbn [bb_take bb_flush_last bb_acc bb_out]. destruct f; reflexivity.
    + cbn [bb_take]. apply IH; [discriminate|]. cbn [length] in *. lia.
Qed.

Lemma encode_block_last_acc : forall sync ts b, bb_acc (snd (encode_block sync ts true b)) = [].
Proof.
  intros sync ts b. unfold encode_block. destruct (tok_counts ts) as [lc dc].
  apply encode_rounds_last_acc.
  - destruct ts; discriminate.
  - rewrite app_length. cbn [length]. lia.
Qed.

Lemma encode_bytes_4 : forall lc x y z u r b,
  encode_bytes lc (x :: y :: z :: u :: r) b =
  let b1 := bb_sync (mkbb (bb_out b) (bb_acc b ++ sym_word lc x ++ sym_word lc y ++ sym_word lc z)) in
  if hlimit <=? bb_idx b1 then (u :: r, b1) else encode_bytes lc (u :: r) b1.
Proof. reflexivity. Qed.

Lemma encode_bytes_shorter : forall lc n data b, (length data <= n)%nat ->
  (length (fst (encode_bytes lc data b)) <= pred (length data))%nat.
Proof.
  intros lc. induction n as [|n IH]; intros data b Hn.
  - destruct data; [cbn; lia|cbn [length] in Hn; lia].
  - destruct data as [|x [|y [|z [|u r]]]]; try (cbn [encode_bytes fst length]; lia).
    rewrite encode_bytes_4. cbv zeta.
    set (b1 := bb_sync _).
    destruct (hlimit <=? bb_idx b1).
    + cbn [fst length]. lia.
    + specialize (IH (u :: r) b1). cbn [length] in *. lia.
Qed.

Lemma hencode_rounds_last_acc : forall fuel lc data b chunks,
  data <> [] -> (length data <= fuel)%nat ->
  bb_acc (snd (hencode_rounds fuel lc true data b chunks)) = [].
Proof.
  induction fuel as [|f IH]; intros lc data b chunks Hne Hlen.
  - destruct data; [congruence|cbn [length] in Hlen; lia].
  - destruct data as [|t r]; [congruence|]. cbn [hencode_rounds].
    pose proof (encode_bytes_shorter lc _ (t :: r) (bb_sync b) (le_n _)) as Hs.
    destruct (encode_bytes lc (t :: r) (bb_sync b)) as [rest b1].
    cbn [fst] in Hs. destruct rest as [|x rest].
    + cbn [bb_take bb_flush_last bb_acc bb_out]. destruct f; reflexivity.
    + cbn [bb_take]. apply IH; [discriminate|]. cbn [length] in *. lia.
Qed.

Lemma hencode_block_last_acc : forall data b, data <> [] ->
  bb_acc (snd (hencode_block data true b)) = [].
Proof.
  intros data b Hne. unfold hencode_block. apply hencode_rounds_last_acc; [exact Hne|lia].
Qed.

(* one encodeBlock that did not fail: the new bit buffer and the new trace *)
Lemma dyn_encode_block_res : forall c last c', dyn_encode_block c last = (c', false) ->
  dbb c' = snd (encode_block (dsync c) (frev (dtoks c)) last (dbb c)) /\
  dtrace (ddest c') = EBlock (frev (dtoks c)) last :: dtrace (ddest c).
Proof.
  intros c last c' H. unfold dyn_encode_block in H.
  destruct (encode_block (dsync c) (frev (dtoks c)) last (dbb c)) as [chunks bb].
  pose proof (dest_write_all_trace chunks (dest_event (ddest c) (EBlock (frev (dtoks c)) last))) as T.
  destruct (dest_write_all (dest_event (ddest c) (EBlock (frev (dtoks c)) last)) chunks) as [d1 failed].
  cbn [fst dest_event dtrace] in T.
  destruct failed; inversion H; subst c'. cbn [dbb ddest snd]. split; [reflexivity|exact T].
Qed.

(* the loop of Close: if it ends with a final block on the trace, the accumulator is empty *)
Lemma close_loop_acc : forall fuel c c', dyn_compress_loop fuel c true true = (c', false) ->
  nonfinal (dtrace (ddest c)) ->
  (exists ts t, dtrace (ddest c') = EBlock ts true :: t /\ nonfinal t) ->
  bb_acc (dbb c') = [].
Proof.
  induction fuel as [|f IH]; intros c c' H Hnf (ts & t & Ht & Hnt).
  - cbn [dyn_compress_loop] in H. inversion H; subst c'. rewrite Ht in Hnf.
    inversion Hnf as [|e l He Hl]; subst. cbn [ev_final] in He. discriminate He.
  - rewrite loop_unfold in H. cbv zeta in H.
    set (r := lzcall c true) in *. set (c1 := after_lz c r) in *.
    rewrite andb_false_r in H. cbn [andb] in H.
    destruct (didx c1 =? lenN (dbuf c1)) eqn:EE.
    + destruct (dyn_encode_block c1 true) as [c2 failed] eqn:E2.
      destruct failed; [inversion H|]. inversion H; subst c'.
      destruct (dyn_encode_block_res _ _ _ E2) as (Hbb & _). rewrite Hbb.
      apply encode_block_last_acc.
    + destruct (dyn_encode_block c1 false) as [c2 failed] eqn:E2.
      destruct failed; [inversion H|].
      destruct (dyn_encode_block_res _ _ _ E2) as (_ & Htr).
      apply (IH c2 c' H).
      * rewrite Htr. constructor; [reflexivity|exact Hnf].
      * exists ts, t. split; assumption.
Qed.

Lemma close_dyn_acc : forall W D c c', dinv W D c -> nonfinal (dtrace (ddest c)) ->
  dyn_compress_block c true true = (c', false) -> bb_acc (dbb c') = [].
Proof.
  intros W D c c' Hd Hnf H. unfold dyn_compress_block in H. cbn [andb] in H.
  destruct (lenN (dbuf c) =? 0) eqn:E0.
  - pose proof (bb_take_empty_acc true (dbb c)) as Hacc.
    destruct (bb_take (bb_empty_block true (dbb c))) as [chunk bb]. cbn [snd] in Hacc.
    destruct (dest_write (dest_event (ddest c) EFinalEmpty) chunk) as [d1 failed].
    inversion H; subst c'. exact Hacc.
  - destruct (loop_dinv W D true true _ c Hd Hnf (fuel_block c)) as (c1 & R1 & _ & _ & _ & R5 & _).
    rewrite R1 in H. inversion H; subst c1.
    destruct (R5 eq_refl) as (_ & _ & Htr).
    eapply close_loop_acc; [exact R1|exact Hnf|exact Htr].
Qed.

Lemma close_huf_acc : forall h h', huf_encode_block h true = (h', false) -> bb_acc (hbb h') = [].
Proof.
  intros h h' H. unfold huf_encode_block in H. destruct (hbuf h) as [|x l] eqn:Eb.
  - pose proof (bb_take_empty_acc true (hbb h)) as Hacc.
    destruct (bb_take (bb_empty_block true (hbb h))) as [chunk bb]. cbn [snd] in Hacc.
    destruct (dest_write (dest_event (hdest h) EFinalEmpty) chunk) as [d1 failed].
    inversion H; subst h'. exact Hacc.
  - pose proof (hencode_block_last_acc (x :: l) (hbb h) ltac:(discriminate)) as Hacc.
    destruct (hencode_block (x :: l) true (hbb h)) as [chunks bb]. cbn [snd] in Hacc.
    destruct (dest_write_all (dest_event (hdest h) (EHBlock (x :: l) true)) chunks) as [d1 failed].
    destruct failed; inversion H; subst h'. exact Hacc.
Qed.

Lemma c_close_acc : forall W D c c', cinv W D c -> c_close c = (c', false) -> c_acc c' = [].
Proof.
  intros W D [d|h] c' Hc H; cbn [c_close cinv] in *.
  - destruct Hc as (Hd & Hnf).
    destruct (dyn_compress_block d true true) as [d1 f] eqn:E. inversion H; subst c' f.
    cbn [c_acc]. eapply close_dyn_acc; eassumption.
  - destruct (huf_encode_block h true) as [h1 f] eqn:E. inversion H; subst c' f.
    cbn [c_acc]. eapply close_huf_acc; eassumption.
Qed.

Lemma run_acc_c_acc : forall w, run_acc w = c_acc (wc comp w).
Proof. intros w. unfold run_acc, c_acc. destruct (wc comp w); reflexivity. Qed.

Theorem close_acc_empty : close_acc_empty_statement.
Proof.
  unfold close_acc_empty_statement. intros sync level win4k h w flags Hnc Hb.
  unfold hrun. fold (W_run (S (length (hist_data (h ++ [HClose]))))
                          (mkw comp (comp_new sync level win4k None) ENone) (map hop_op (h ++ [HClose]))).
  rewrite map_app, wrun_app, hist_data_app. cbn [hist_data flat_map]. rewrite app_nil_r.
  destruct (comp_new_cinv sync level win4k) as (Hc0 & Hr0).
  destruct (run_cinv (window_of level win4k) (S (length (hist_data h))) h
              (mkw comp (comp_new sync level win4k None) ENone) [] Hnc Hb ltac:(lia) eq_refl Hc0 Hr0)
    as (w1 & flags1 & E & Hfl & Hwe & Hc1 & _).
  rewrite E. cbn [app] in Hc1.
  destruct (c_close_cinv _ _ _ Hc1) as (c' & Ec & _).
  unfold W_run. cbn [map hop_op WriterSM.wrun wstep]. unfold wclose. rewrite Hwe, Ec.
  intros H. inversion H; subst w flags. rewrite run_acc_c_acc. cbn [wc].
  eapply c_close_acc; eassumption.
Qed.

(* ------------------------------------------------------------------ *)
(* C01, C10                                                             *)

Lemma toks_ok_weaken : forall W W' ts b, W <= W' -> toks_ok W b ts -> toks_ok W' b ts.
Proof.
  intros W W' ts. induction ts as [|t r IH]; intros b HW H; [exact I|].
  cbn [toks_ok] in *. destruct H as (Ht & Hr). split; [|apply IH; assumption].
  destruct t as [x|len dist]; cbn [tok_ok] in *; [exact I|lia].
Qed.

Lemma trace_toks_ok_weaken : forall W W' evs b, W <= W' ->
  trace_toks_ok W evs b -> trace_toks_ok W' evs b.
Proof.
  intros W W' evs. induction evs as [|e r IH]; intros b HW H; [exact I|].
  destruct e as [ts l|d f| |]; cbn [trace_toks_ok] in *.
  - destruct H as (H1 & H2 & H3). split; [eapply toks_ok_weaken; eassumption|].
    split; [exact H2|]. apply IH; assumption.
  - apply IH; assumption.
  - apply IH; assumption.
  - apply IH; assumption.
Qed.

Lemma trace_toks_ok_fits : forall W evs b, W <= 2 ^ 64 ->
  trace_toks_ok W evs b -> Forall event_fits evs.
Proof.
  intros W evs. induction evs as [|e r IH]; intros b HW H; [constructor|].
  destruct e as [ts l|d f| |]; cbn [trace_toks_ok] in H.
  - destruct H as (H1 & H2 & H3). constructor; [|eapply IH; eassumption].
    cbn [event_fits]. eapply toks_ok_fits; eassumption.
  - constructor; [exact I|eapply IH; eassumption].
  - constructor; [exact I|eapply IH; eassumption].
  - constructor; [exact I|eapply IH; eassumption].
Qed.

Lemma window_le : forall level win4k, window_of level win4k <= 32768.
Proof. intros level win4k. unfold window_of. destruct win4k; lia. Qed.

Lemma bits_of_N_8_length : forall x, length (bits_of_N 8 x) = 8%nat.
Proof. intros x. reflexivity. Qed.

Lemma firstn_len_app : forall A n (a b : list A), length a = n -> firstn n (a ++ b) = a.
Proof.
  intros A n a b H. subst n. rewrite firstn_app, Nat.sub_diag, firstn_all, firstn_O. apply app_nil_r.
Qed.

Lemma skipn_len_app : forall A n (a b : list A), length a = n -> skipn n (a ++ b) = b.
Proof.
  intros A n a b H. subst n. rewrite skipn_app, Nat.sub_diag, skipn_all, skipn_O. reflexivity.
Qed.

Lemma bytes_bits_fuel_id : forall l fuel, bytes_ok l -> (length l < fuel)%nat ->
  bytes_of_bits_fuel fuel (bits_of_bytes l) = l.
Proof.
  induction l as [|x l IH]; intros fuel Hb Hf.
  - destruct fuel; reflexivity.
  - destruct fuel as [|f]; [lia|]. inversion Hb as [|x' l' Hx Hl]; subst.
    change (bits_of_bytes (x :: l)) with (bits_of_N 8 x ++ bits_of_bytes l).
    assert (E1 : firstn 8 (bits_of_N 8 x ++ bits_of_bytes l) = bits_of_N 8 x).
    { apply firstn_len_app. apply bits_of_N_8_length. }
    assert (E2 : skipn 8 (bits_of_N 8 x ++ bits_of_bytes l) = bits_of_bytes l).
    { apply skipn_len_app. apply bits_of_N_8_length. }
    destruct (bits_of_N 8 x ++ bits_of_bytes l) as [|b0 rest] eqn:EL.
    { apply (f_equal (@length bool)) in EL. rewrite app_length, bits_of_N_8_length in EL.
      cbn [length] in EL. lia. }
    cbn [bytes_of_bits_fuel]. rewrite E1, E2.
    rewrite N_of_bits_of_N by (change (2 ^ N.of_nat 8) with 256; exact Hx).
    f_equal. apply IH; [exact Hl|cbn [length] in Hf; lia].
Qed.

Lemma bytes_bits_id : forall l, bytes_ok l -> bytes_of_bits (bits_of_bytes l) = l.
Proof.
  intros l Hb. unfold bytes_of_bits. apply bytes_bits_fuel_id; [exact Hb|].
  rewrite length_bits_of_bytes. unfold byte. lia.
Qed.

Lemma events_ok_of_b : forall evs, forallb event_ok_b evs = true -> Forall event_ok evs.
Proof.
  intros evs H. rewrite forallb_forall in H. apply Forall_forall. intros e He.
  apply event_ok_b_sound. apply H. exact He.
Qed.

Definition stream_render_thm : stream_render_statement :=
  stream_render bitbuf_ok encode_block_ok hencode_block_ok.
Definition trace_decode_thm : trace_decode_statement :=
  trace_decode header_ok symbols_ok apply_toks_expand.
Definition trace_flush_thm : trace_flush_statement :=
  trace_flush header_ok symbols_ok apply_toks_expand.

Theorem C01_roundtrip : C01_statement.
Proof.
  unfold C01_statement. intros sync level win4k h Hnc Hb.
  destruct (trace_content sync level win4k h Hnc Hb)
    as (w & flags & E & Hfl & Hcl & Hoob & Hcomp & Hok & Hdata).
  exists w, flags. split; [exact E|]. split; [exact Hfl|]. split; [exact Hoob|].
  intros Hev. apply events_ok_of_b in Hev.
  pose proof (window_le level win4k) as HW.
  assert (Hfits : Forall event_fits (run_trace w)).
  { eapply trace_toks_ok_fits; [|exact Hok]. lia. }
  assert (Hb' : bytes_ok (hist_data (h ++ [HClose]))).
  { rewrite hist_data_app. cbn [hist_data flat_map]. rewrite app_nil_r. exact Hb. }
  destruct (stream_render_thm sync level win4k _ w flags Hb' E Hev Hfits) as (Hbits & Hbytes).
  rewrite (close_acc_empty sync level win4k h w flags Hnc Hb E), app_nil_r in Hbits.
  assert (Hrun : run_bytes w = bytes_of_bits (trace_bits (run_trace w) [])).
  { rewrite <- Hbits. symmetry. apply bytes_bits_id. exact Hbytes. }
  pose proof (trace_decode_thm (run_trace w) Hcomp Hev
                (trace_toks_ok_weaken _ _ _ _ HW Hok)) as HD.
  cbv zeta in HD. rewrite <- Hrun, Hdata in HD. cbv zeta. exact HD.
Qed.

Theorem C10_flush : C10_statement.
Proof.
  unfold C10_statement. intros sync level win4k h Hnc Hb.
  destruct (trace_flush_content sync level win4k h Hnc Hb)
    as (w & flags & evs & E & Hfl & Hwe & Htr & Hnf & Hok & Hdata & Hacc).
  exists w, flags. split; [exact E|]. split; [exact Hfl|]. split; [exact Hacc|].
  intros Hev. apply events_ok_of_b in Hev.
  pose proof (window_le level win4k) as HW.
  assert (Hfits : Forall event_fits (run_trace w)).
  { eapply trace_toks_ok_fits; [|exact Hok]. lia. }
  assert (Hb' : bytes_ok (hist_data (h ++ [HFlush]))).
  { rewrite hist_data_app. cbn [hist_data flat_map]. rewrite app_nil_r. exact Hb. }
  destruct (stream_render_thm sync level win4k _ w flags Hb' E Hev Hfits) as (Hbits & Hbytes).
  rewrite Hacc, app_nil_r in Hbits.
  assert (Hrun : run_bytes w = bytes_of_bits (trace_bits (run_trace w) [])).
  { rewrite <- Hbits. symmetry. apply bytes_bits_id. exact Hbytes. }
  assert (Hev' : Forall event_ok evs).
  { rewrite Htr in Hev. apply Forall_app in Hev. apply Hev. }
  assert (Hok' : trace_toks_ok 32768 (evs ++ [ESync]) 0).
  { rewrite <- Htr. eapply trace_toks_ok_weaken; eassumption. }
  pose proof (trace_flush_thm evs Hnf Hev' Hok') as HD.
  cbv zeta in HD. rewrite <- Htr, <- Hrun in HD. destruct HD as (H1 & H2 & _).
  cbv zeta. split; [exact H1|]. rewrite H2, <- Hdata, Htr.
  unfold trace_data. rewrite TraceContent.trace_data_rev_app. reflexivity.
Qed.

(* ------------------------------------------------------------------ *)
(* C09 over whole histories                                             *)

(* the state component of a run, with a fixed loop bound F for every Write *)
Fixpoint srun (F : nat) (w : writer comp) (h : list hop) : option (writer comp) :=
  match h with
  | [] => Some w
  | HWrite d :: r =>
    match W_write F w d with None => None | Some (w1, _, _) => srun F w1 r end
  | HFlush :: r => srun F (fst (W_flush w)) r
  | HClose :: r => srun F (fst (W_close w)) r
  end.

Lemma wrun_srun : forall h F w,
  match WriterSM.wrun comp c_accumulate c_compress c_flush c_close (c_reset_to None) F w (map hop_op h) with
  | Some (w', _) => srun F w h = Some w'
  | None => srun F w h = None
  end.
Proof.
  induction h as [|o r IH]; intros F w; [reflexivity|].
  cbn [map WriterSM.wrun srun]. destruct o as [d| |]; cbn [hop_op wstep].
  - fold (W_write F w d). destruct (W_write F w d) as [[[w1 n1] e1]|]; [|reflexivity].
    specialize (IH F w1).
    destruct (WriterSM.wrun comp c_accumulate c_compress c_flush c_close (c_reset_to None) F w1 (map hop_op r))
      as [[w2 es]|]; exact IH.
  - fold (W_flush w). destruct (W_flush w) as [w1 e1]. cbn [fst]. specialize (IH F w1).
    destruct (WriterSM.wrun comp c_accumulate c_compress c_flush c_close (c_reset_to None) F w1 (map hop_op r))
      as [[w2 es]|]; exact IH.
  - fold (W_close w). destruct (W_close w) as [w1 e1]. cbn [fst]. specialize (IH F w1).
    destruct (WriterSM.wrun comp c_accumulate c_compress c_flush c_close (c_reset_to None) F w1 (map hop_op r))
      as [[w2 es]|]; exact IH.
Qed.

Lemma hist_data_hnorm : forall h, hist_data (hnorm h) = hist_data h.
Proof.
  induction h as [|o r IH]; [reflexivity|].
  destruct o as [a| |]; cbn [hnorm].
  - change (hist_data (HWrite a :: r)) with (a ++ hist_data r). rewrite <- IH.
    destruct (hnorm r) as [|o' r'] eqn:En; [|destruct o' as [b| |]].
    + destruct a; reflexivity.
    + change (hist_data (HWrite (a ++ b) :: r')) with ((a ++ b) ++ hist_data r').
      change (hist_data (HWrite b :: r')) with (b ++ hist_data r'). apply app_assoc_reverse.
    + destruct a; reflexivity.
    + destruct a; reflexivity.
  - change (hist_data (HFlush :: hnorm r)) with (hist_data (hnorm r)).
    change (hist_data (HFlush :: r)) with (hist_data r). exact IH.
  - change (hist_data (HClose :: hnorm r)) with (hist_data (hnorm r)).
    change (hist_data (HClose :: r)) with (hist_data r). exact IH.
Qed.

Lemma W_write_nil : forall F (w : writer comp), exists e, W_write F w [] = Some (w, 0%nat, e).
Proof.
  intros F [c e]. unfold W_write, wwrite. cbn [we wc]. destruct e.
  - exists false. destruct F; reflexivity.
  - exists true. reflexivity.
  - exists true. reflexivity.
Qed.

Lemma srun_norm : forall sync level win4k h F w, reachable sync level win4k w ->
  (length (hist_data h) < F)%nat ->
  srun F w h <> None /\ srun F w (hnorm h) = srun F w h.
Proof.
  intros sync level win4k. induction h as [|o r IH]; intros F w Hr Hlen.
  - split; [discriminate|reflexivity].
  - destruct o as [a| |].
    + change (hist_data (HWrite a :: r)) with (a ++ hist_data r) in Hlen.
      rewrite app_length in Hlen.
      pose proof (write_fuel sync level win4k w a F Hr ltac:(lia)) as Hne.
      cbn [srun hnorm].
      destruct (W_write F w a) as [[[w1 n1] e1]|] eqn:Ea; [clear Hne|congruence].
      assert (Hr1 : reachable sync level win4k w1) by (eapply R_write; eassumption).
      destruct (IH F w1 Hr1 ltac:(lia)) as (IH1 & IH2).
      split; [exact IH1|]. rewrite <- IH2.
      pose proof (hist_data_hnorm r) as Hhd.
      destruct (hnorm r) as [|o' r'] eqn:En; [|destruct o' as [b| |]].
      2:{ change (hist_data (HWrite b :: r')) with (b ++ hist_data r') in Hhd.
          assert (Hab : (length a + length b < F)%nat).
          { rewrite <- Hhd, app_length in Hlen. lia. }
          pose proof (write_split sync level win4k w a b F Hr Hab) as Hs.
          rewrite Ea in Hs. cbn [srun].
          destruct (W_write F w (a ++ b)) as [[[w12 n12] e12]|]; [|destruct Hs].
          destruct (W_write F w1 b) as [[[w2 n2] e2]|]; [|destruct Hs].
          destruct Hs as (Hs & _). subst w12. reflexivity. }
      all: destruct a as [|x a'];
        [ destruct (W_write_nil F w) as (e0 & E0); rewrite E0 in Ea; inversion Ea; subst; reflexivity
        | cbn [srun]; rewrite Ea; reflexivity ].
    + change (hist_data (HFlush :: r)) with (hist_data r) in Hlen. cbn [srun hnorm].
      apply IH; [apply R_flush; exact Hr|exact Hlen].
    + change (hist_data (HClose :: r)) with (hist_data r) in Hlen. cbn [srun hnorm].
      apply IH; [apply R_close; exact Hr|exact Hlen].
Qed.

Theorem C09_partition : C09_statement.
Proof.
  unfold C09_statement. intros sync level win4k h1 h2 Hn.
  assert (Hd : hist_data h1 = hist_data h2).
  { rewrite <- (hist_data_hnorm h1), <- (hist_data_hnorm h2), Hn. reflexivity. }
  unfold hrun. rewrite <- Hd.
  set (F := S (length (hist_data h1))).
  set (w0 := mkw comp (comp_new sync level win4k None) ENone).
  assert (Hr0 : reachable sync level win4k w0) by apply (R_new sync level win4k None).
  destruct (srun_norm sync level win4k h1 F w0 Hr0 ltac:(unfold F; lia)) as (N1 & E1).
  destruct (srun_norm sync level win4k h2 F w0 Hr0 ltac:(unfold F; rewrite <- Hd; lia)) as (N2 & E2).
  pose proof (wrun_srun h1 F w0) as S1. pose proof (wrun_srun h2 F w0) as S2.
  destruct (WriterSM.wrun comp c_accumulate c_compress c_flush c_close (c_reset_to None) F w0 (map hop_op h1))
    as [[w1 f1]|]; [|congruence].
  destruct (WriterSM.wrun comp c_accumulate c_compress c_flush c_close (c_reset_to None) F w0 (map hop_op h2))
    as [[w2 f2]|]; [|congruence].
  rewrite <- E1, Hn, E2, S2 in S1. inversion S1. reflexivity.
Qed.

Print Assumptions close_acc_empty.
Print Assumptions C19_history.
Print Assumptions C01_roundtrip.
Print Assumptions C10_flush.
Print Assumptions C09_partition.
