(* EngineCompleteReach.v -- proofs of the statements of RModel/EngineCompleteSpecReach.v:
   where a reachable configuration of the small-step reference gets stuck decides the result
   of `inflate [] data`.  Uses the continuation result `cont` of proofs/EngineRefineReach.v
   (reach data c -> cont c = inflate [] data). *)
From Coq Require Import List NArith ZArith Bool Relations Lia ZifyBool ZifyNat ZifyN.
From Verif Require Import Bits Huffman Inflate InflateSpec InflateMono.
From Verif Require Import EngineRefineSpecReach EngineRefineSpecBlock EngineCompleteSpecReach.
From Verif Require Import EngineRefineReach.
Import ListNotations.
Open Scope N_scope.

Lemma reach_step data c c' : reach data c -> rstep c c' -> reach data c'.
Proof.
  intros Hr Hs. unfold reach in *. eapply rt_trans; [exact Hr | apply rt_step; exact Hs].
Qed.

Theorem reach_sym_run : reach_sym_run_statement.
Proof.
  intros data bf lt dt st S st' S' ended Hr Hrun. revert Hr.
  induction Hrun as [st s|st s st1 s1 st2 s2 b E Hrun IH|st s st1 s1 E]; intros Hr.
  - exact Hr.
  - apply IH. eapply reach_step; [exact Hr | apply rs_sym; exact E].
  - eapply reach_step; [exact Hr | apply rs_eob; exact E].
Qed.

(* the result of the run, read off a reachable configuration whose continuation stops *)
Lemma reach_stop data c a b k :
  reach data c -> cont_s c = SStop a b k -> a = cfg_st c ->
  status (inflate [] data) = k /\ out (inflate [] data) = frev (rout (cfg_st c)).
Proof.
  intros Hr Hc Ha.
  pose proof (reach_cont data c Hr) as Hi.
  destruct (reach_Inv data c Hr) as [[Hw _] _].
  rewrite <- Hi. unfold cont. rewrite Hc. subst a. cbn [fin].
  split; [reflexivity | apply out_finish; exact Hw].
Qed.

Theorem reach_sym_stop : reach_sym_stop_statement.
Proof.
  intros data bf lt dt st S a b k Hr E.
  destruct (sym1_len lt dt st S) as [_ [_ [_ H4]]].
  destruct (H4 a b k E) as [Ha [Hb _]]. subst a b.
  apply (reach_stop data (CHuff bf lt dt st S) st S k Hr); [|reflexivity].
  cbn [cont_s]. unfold HL. cbn [loop]. rewrite E. reflexivity.
Qed.

Theorem reach_block_stop : reach_block_stop_statement.
Proof.
  intros data st S k Hr _ E.
  apply (reach_stop data (CBlock st S) st S k Hr); [|reflexivity].
  cbn [cont_s]. rewrite BL_unfold, E. reflexivity.
Qed.

Lemma block_stuck st S : (forall c', ~ rstep (CBlock st S) c') ->
  exists k, (k = NeedInput \/ k = Corrupt) /\ block1 st S = SStop st S k.
Proof.
  intros Hno. unfold block1.
  destruct (take 1 S) as [[bf s1]|] eqn:E1; [|exists NeedInput; split; [left|]; reflexivity].
  destruct (take 2 s1) as [[bt s2]|] eqn:E2; [|exists NeedInput; split; [left|]; reflexivity].
  unfold block_body.
  destruct (bt =? 0) eqn:B0.
  { apply N.eqb_eq in B0; subst bt. unfold stored_block. cbv zeta.
    destruct (take 16 (align s2)) as [[len s4]|] eqn:E3; [|exists NeedInput; split; [left|]; reflexivity].
    destruct (take 16 s4) as [[nlen s5]|] eqn:E4; [|exists NeedInput; split; [left|]; reflexivity].
    destruct (len + nlen =? 65535) eqn:E5; cbn [negb]; [|exists Corrupt; split; [right|]; reflexivity].
    exfalso. apply N.eqb_eq in E5. eapply Hno. eapply rs_stored; eassumption. }
  destruct (bt =? 1) eqn:B1.
  { apply N.eqb_eq in B1; subst bt.
    destruct fixed_tries as [[lt dt]|] eqn:EF; [|exists Corrupt; split; [right|]; reflexivity].
    exfalso. eapply Hno. eapply rs_fixed; eassumption. }
  destruct (bt =? 2) eqn:B2; [|exists Corrupt; split; [right|]; reflexivity].
  apply N.eqb_eq in B2; subst bt.
  pose proof (dyn_header_nd s2) as Hnd. pose proof (dyn_header_nf s2) as Hnf.
  destruct (dyn_header s2) as [[lt dt] s3|x] eqn:ED.
  - exfalso. eapply Hno. eapply rs_dyn; eassumption.
  - exists x. split; [|reflexivity].
    destruct x; [exfalso; apply Hnd; reflexivity | left; reflexivity | right; reflexivity
                | exfalso; apply Hnf; reflexivity].
Qed.

Theorem reach_block_stuck : reach_block_stuck_statement.
Proof.
  intros data st S Hr Hno.
  destruct (block_stuck st S Hno) as [k [Hk E]].
  exists k. split; [exact Hk | split; [exact E|]].
  apply (reach_block_stop data st S k Hr Hno E).
Qed.

Theorem reach_stored_stop : reach_stored_stop_statement.
Proof.
  intros data bf len n st S Hr Hn E8.
  apply (reach_stop data (CStored bf len n st S) st S NeedInput Hr); [|reflexivity].
  cbn [cont_s]. replace (N.to_nat n) with (Datatypes.S (N.to_nat (n - 1))) by lia.
  cbn [stored]. rewrite E8. reflexivity.
Qed.

Print Assumptions reach_sym_run.
Print Assumptions reach_sym_stop.
Print Assumptions reach_block_stop.
Print Assumptions reach_block_stuck.
Print Assumptions reach_stored_stop.
