(* EngineResetProofs.v -- "a reused Reader is indistinguishable from a new one"
   (RModel/EngineResetSpec.v), proved for the model RModel/Engine.v + RModel/EngineReset.v.

   Structure of the proof (all files in proofs/):
     EngineResetDefs.v        agree / core / lookups_eq / small_rel / large_rel, statements of the
                              sub-results
     EngineResetRun1.v, EngineResetRun2.v, EngineResetRun.v
                              the simulation dsim between a reused and a new decompressor is kept by
                              decodeHuffman, decodeLiteralBlock, decomp_loop, decomperss, step, Read
                              and erun_loop, given the two-run statement for readHeader
                              (reset_equiv_cond, reset_equiv_obs_cond)
     EngineResetSmallSim.v    gen_small (GenerateForHeader / genForDists): lookups through the
                              tables it builds do not depend on the stale table contents
     EngineResetLitLenSim.v   the same for genForLitLen (+ it reads codeList only below litCount[22])
     EngineResetHdr1.v .. EngineResetHdr6.v
                              two-run lemmas for rl_loop, codeLenCodes, calcCodeForLit,
                              expandLenCodes, setAndExpandLitLenHuffCode (every codeList slot below
                              litCount[22] is written), setupDynamicHeader, tryDecodeHeader, readHeader
     EngineResetDepSmall.v, EngineResetDepRL.v, EngineResetDepExpand.v
                              frozen snapshots of the single-run counting invariants of the safety
                              proofs (EngineSafetySmall / RL / Expand), truncated before their final
                              theorems (not needed here)
   Nothing is assumed: Print Assumptions reports "Closed under the global context". *)
From Verif Require Import Engine EngineReset EngineResetSpec.
From Verif Require Import EngineResetDefs EngineResetHdr5 EngineResetHdr6 EngineResetRun.

(* readHeader on a reused and on a new state *)
Theorem readHeader_sim : readHeader_sim_statement.
Proof. exact (EngineResetHdr6.readHeader_sim setupDynamicHeader_sim). Qed.

(* main goal: the phase-2 observations and the consumed count of a reused Reader are those of a
   new Reader *)
Theorem reset_equiv : reset_equiv_statement.
Proof. exact (reset_equiv_cond readHeader_sim). Qed.
Print Assumptions reset_equiv.

Theorem reset_equiv_obs : reset_equiv_statement_obs.
Proof. exact (reset_equiv_obs_cond readHeader_sim). Qed.
Print Assumptions reset_equiv_obs.

(* ---------------------------------------------------------------- the optional stepping stones *)
From Coq Require Import List NArith Lia.
From Verif Require Import Base EngineResetRun1 EngineResetRun2.

(* the initial litLong of a new Reader does not matter *)
Lemma dsim_newReaderL : forall L bs cs t, dsim (newReaderL L bs cs t) (newReader bs cs t).
Proof.
  intros L bs cs t. unfold newReaderL, newReader, dsim, ssim, tb_ok.
  cbn [state writePos readPos hist rBuf derr peekSize eof haveBits].
  split.
  { split; [reflexivity|]. split; [intros Hx; discriminate Hx|]. split; reflexivity. }
  split; [reflexivity|]. split; [reflexivity|]. split; [apply agree_0|].
  split; [reflexivity|]. split; [reflexivity|]. split; [reflexivity|]. split; reflexivity.
Qed.

Lemma rinv_newReaderL : forall L bs cs t, rinv (newReaderL L bs cs t).
Proof.
  intros L bs cs t _. unfold newReaderL, newReader, dinv, sinv, inlen_ok, binv. cbn. lia.
Qed.

Theorem litLong_irrelevant_proved : litLong_irrelevant.
Proof.
  unfold litLong_irrelevant. intros L bufsize cs t reads. unfold erunL_ext, erun_ext.
  pose proof (erun_loop_rel readHeader_sim reads (newReaderL L bufsize cs t) (newReader bufsize cs t) nil
                (dsim_newReaderL _ _ _ _) (rinv_newReaderL _ _ _ _)) as (A & B).
  destruct (erun_loop (newReaderL L bufsize cs t) reads nil) as [l g1].
  destruct (erun_loop (newReader bufsize cs t) reads nil) as [l' g2].
  cbn [fst snd] in A, B. subst l'. rewrite B. reflexivity.
Qed.
Print Assumptions litLong_irrelevant_proved.

Theorem reset_equiv_modulo_litLong_proved : reset_equiv_modulo_litLong.
Proof.
  unfold reset_equiv_modulo_litLong.
  intros bufsize1 chunks1 term1 reads1 bufsize2 chunks2 term2 reads2.
  pose proof (reset_equiv bufsize1 chunks1 term1 reads1 bufsize2 chunks2 term2 reads2) as H.
  destruct (erun2 bufsize1 chunks1 term1 reads1 bufsize2 chunks2 term2 reads2) as [[l1 l2] n2].
  rewrite H. symmetry. apply litLong_irrelevant_proved.
Qed.
Print Assumptions reset_equiv_modulo_litLong_proved.
