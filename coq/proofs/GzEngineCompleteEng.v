(* GzEngineCompleteEng.v -- GzEngineSpec4.v, the engine layer re-based: the completeness
   invariant (EngineCompleteRun3.run_inv3) of the decompressor on a shared bufio buffer.
     newReader_on_inv3   the invariant holds for flate.NewReader(br), br partly consumed
     dReset_inv3         the same for decompressor.Reset(br, _) on a used decompressor
     gz_dRead_ok3_from   one Read keeps it; soundness facts, progress and the possible errors
                         (from the shift invariance of dRead, GzEngineSpec section A) *)
From Coq Require Import List NArith ZArith Bool Lia Relations.
From Verif Require Import Bits Huffman Inflate InflateSpec InflateMono.
From Verif Require Import Containers ContainersSpec.
From Verif Require Import Base Engine EngineReset EngineRefineSpec EngineRefineSpecHdr
     EngineRefineSpecNeed EngineRefineSpecBlock EngineRefineSpecBuf EngineRefineSpecReach
     EngineRefineSpecTop EngineRefineSpecFinal
     EngineCompleteSpecB EngineCompleteSpecC EngineCompleteSpecD EngineCompleteSpecF
     EngineCompleteSpecG
     EngineRefineTop EngineRefineRun EngineCompleteTop3 EngineCompleteRun3 GzEngine
     EngineRefineFinal EngineRefineReach EngineRefineBuf EngineRefineDecomp EngineCompleteFinal
     GzEngineSpec GzEngineSpec3 GzEngineSpec4.
Import ListNotations.
Open Scope N_scope.

(* ---------------------------------------------------------------- the initial invariant, for
   any state that is inflate0 up to the tables / dynHdr scratch, and any window contents *)
Lemma fresh_run_inv3 : forall tbl dy h b data,
  buf_ok b -> consumed b = 0 -> bstream b = data ->
  run_inv3 data (term b) []
           (mkD (mkInflate br0 true ov0 tbl 0 0 0 0 [] dy 0%Z) 0 0 h b None 0 false false).
Proof.
  intros tbl dy h b data B1 B3 B2.
  set (f := mkD (mkInflate br0 true ov0 tbl 0 0 0 0 [] dy 0%Z) 0 0 h b None 0 false false).
  assert (Hdec : dec_invT data [] f).
  { unfold dec_invT, f. cbn [rBuf state writePos readPos hist peekSize].
    split; [exact B1|].
    split; [exists []; cbn [app length]; split; [symmetry; exact B2|exact B3]|].
    split; [lia|]. split; [cbv; discriminate|]. split; [cbv; discriminate|].
    exists (rinit data), data.
    split; [apply rt_refl|].
    split.
    { unfold st_sim3, rinit. split; [|intros Hp; discriminate Hp].
      unfold st_sim2. split; [reflexivity|].
      split; [left; reflexivity|].
      split.
      { unfold hdr_ok, lrd, br0.
        cbn [rd r_bits r_len r_in r_inlen headerBuffer headerBuffered phase app].
        split.
        - unfold br_wf, br_bits. cbn [r_bits r_len r_in r_inlen length bits_of_bytes flat_map Z.to_nat bits_of_N app].
          split; [reflexivity|]. split; [lia|]. split; [intros; reflexivity|]. split; [constructor|].
          intros i Hi. rewrite N.bits_0 in Hi. discriminate.
        - split; [lia|]. split; [reflexivity|]. split; [cbv; discriminate|].
          split; [left; reflexivity|intros; reflexivity]. }
      split; [intros Hp; discriminate Hp|].
      split; [intros Hp; discriminate Hp|].
      reflexivity. }
    split.
    { unfold win_rel, rinit, st0. cbn [cfg_st oavail olen rout length].
      split; [reflexivity|]. split; [reflexivity|]. split; [lia|]. split; [left; reflexivity|].
      intros i Hi. lia. }
    split; [reflexivity|].
    cbn [inputNil rd br0 r_in r_inlen r_len].
    split; [reflexivity|]. split; [reflexivity|].
    rewrite B2. reflexivity. }
  split; [|split; [|split]].
  - exists (rinit data). split; [apply rt_refl|]. split; [reflexivity|].
    split; [cbn; lia|]. intros H; discriminate H.
  - intros _. split; [exact Hdec|].
    unfold flags_inv3, f. cbn [eof haveBits state rBuf inputNil rd br0 r_len].
    split; [intros Hc; discriminate Hc|].
    intros _ _ Hs. rewrite B2 in Hs.
    change (data = []) in Hs. rewrite Hs.
    split; [vm_compute; reflexivity|]. exists []. split; [|cbn; lia].
    rewrite pending_out_nil by reflexivity. vm_compute. reflexivity.
  - reflexivity.
  - intros e He. discriminate He.
Qed.

(* b with the counter set back to 0 *)
Definition bzero (b : bufrd) : bufrd :=
  mkBuf (bsize b) (bbuf b) (blen b) (berr b) (chunks b) (term b) 0.

Lemma bshift_bzero : forall b, bshift (consumed b) (bzero b) = b.
Proof. intros b. destruct b. reflexivity. Qed.

Theorem newReader_on_inv3 : newReader_on_inv3_statement.
Proof.
  intros b Hb.
  exists (newReader_on (bzero b)). split.
  - unfold dshift, set_rBuf, newReader_on.
    cbn [state writePos readPos hist rBuf derr peekSize eof haveBits].
    rewrite bshift_bzero. reflexivity.
  - change (term b) with (term (bzero b)). unfold newReader_on, inflate0.
    apply fresh_run_inv3; [exact Hb|reflexivity|reflexivity].
Qed.

Theorem dReset_inv3 : dReset_inv3_statement.
Proof.
  intros d b Hb.
  exists (dReset d (bzero b)). split.
  - unfold dshift, set_rBuf, dReset.
    cbn [state writePos readPos hist rBuf derr peekSize eof haveBits].
    rewrite bshift_bzero. reflexivity.
  - change (term b) with (term (bzero b)). unfold dReset, inflate_reset.
    apply fresh_run_inv3; [exact Hb|reflexivity|reflexivity].
Qed.

(* ---------------------------------------------------------------- one Read *)
Lemma step3 : step_body3.
Proof.
  exact (EngineCompleteTop3.step_complete3 EngineCompleteFinal.decomp3_final
           EngineRefineDecomp.decomperss_flush
           EngineRefineBuf.bPeek_spec EngineRefineBuf.bPeek_buffered EngineRefineBuf.bDiscard_spec
           EngineRefineReach.reach_inv).
Qed.

Theorem gz_dRead_ok3_from : dRead_shift_statement -> gz_dRead_ok3_statement.
Proof.
  intros Hshift base data t delivered f p Hdata (f0 & Hf & Hinv).
  subst f. rewrite Hshift.
  unfold GzEngineSpec.bytes_ok in Hdata.
  pose proof (read_loop_ok3 step3 data t Hdata big_fuel f0 p delivered Hinv) as HR.
  change (dRead f0 p) with (read_loop big_fuel f0 p).
  destruct (read_loop big_fuel f0 p) as [[f1 bytes] r].
  destruct HR as (R0 & RE & RN & RP).
  split; [exists f1; split; [reflexivity|exact R0]|].
  destruct R0 as ((c & R1 & R2 & R3 & R4) & _ & _ & Hg).
  split.
  { apply is_prefix_trans with (b := frev (rout (cfg_st c))).
    + exists (pending_out f1). symmetry. exact R2.
    + apply reach_out_prefix. exact R1. }
  split.
  { intros Hr. destruct (RE Hr) as (E1 & E2).
    destruct (R4 E1) as (st & S0 & Hc & Hcons). subst c.
    destruct (reach_done data st S0 R1) as (D1 & D2 & D3).
    split; [exact D1|]. split.
    + rewrite D2. cbn [cfg_st] in R2. rewrite <- R2.
      rewrite (pending_out_nil f1 E2). symmetry. apply app_nil_r.
    + change (consumed (rBuf (dshift base f1))) with (consumed (rBuf f1) + base).
      rewrite D3, Hcons. apply N.add_comm. }
  split; [exact RP|].
  intros Hr. destruct (RN Hr) as [K|[Hd Hw]]; [right; right; left; exact K|].
  destruct (Hg r Hd) as (G1 & G2 & G3 & G4).
  destruct G1 as [K|[K|[K|[K|[K|K]]]]].
  - left; exact K.
  - right; right; right; left. split; [left; exact K|]. exact (proj1 (proj2 (G2 K))).
  - right; right; right; left. split; [right; exact K|]. exact (proj1 (proj2 (G3 K))).
  - right; right; right; right. split; [exact K|]. exact (G4 K).
  - right; left; exact K.
  - right; right; left; exact K.
Qed.

Print Assumptions newReader_on_inv3.
Print Assumptions dReset_inv3.
Print Assumptions gz_dRead_ok3_from.
