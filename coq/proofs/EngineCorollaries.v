(* EngineCorollaries.v — consequences of erun_sound (proofs/EngineRefineFinal.v) in the shape of
   the reader properties C02-C05 and C15, for the faithful engine model RModel/Engine.v. *)
From Coq Require Import List NArith ZArith Bool.
From Verif Require Import Bits Huffman Inflate InflateSpec InflateMono.
From Verif Require Import Base EngineTables Engine EngineRefineSpecTop EngineRefineFinal.
Import ListNotations.
Open Scope N_scope.

Definition bytes_ok (data : list N) : Prop := Forall (fun x => x < 256) data.
Definition cut_of (cs : list (list N)) (data : list N) : Prop :=
  concat cs = data /\ Forall (fun c => c <> []) cs.

(* C03: a Read reports io.EOF only at the end of a complete stream; everything handed out is
   reference output *)
Lemma engine_eof_only_if_complete : forall data cs bufsize t reads,
  bytes_ok data -> cut_of cs data ->
  In REOF (map snd (fst (erun_ext bufsize cs t reads))) ->
  status (Inflate.inflate [] data) = Done /\
  results_bytes (fst (erun_ext bufsize cs t reads)) = out (Inflate.inflate [] data).
Proof.
  intros data cs bufsize t reads Hb [Hc Hne] Hin.
  pose proof (erun_sound data cs bufsize t reads Hb Hc Hne) as H.
  destruct (erun_ext bufsize cs t reads) as [l n]; cbn [fst] in *.
  destruct H as [_ [H _]]. destruct (H Hin) as [H1 [H2 _]]. split; assumption.
Qed.

Lemma engine_bytes_are_reference_prefix : forall data cs bufsize t reads,
  bytes_ok data -> cut_of cs data ->
  is_prefix (results_bytes (fst (erun_ext bufsize cs t reads))) (out (Inflate.inflate [] data)).
Proof.
  intros data cs bufsize t reads Hb [Hc Hne].
  pose proof (erun_sound data cs bufsize t reads Hb Hc Hne) as H.
  destruct (erun_ext bufsize cs t reads) as [l n]; cbn [fst]. exact (proj1 H).
Qed.

(* and, the reference being prefix-monotone, of the output of any longer input as well *)
Lemma engine_bytes_are_prefix_of_any_extension : forall data more cs bufsize t reads,
  bytes_ok data -> cut_of cs data ->
  is_prefix (results_bytes (fst (erun_ext bufsize cs t reads))) (out (Inflate.inflate [] (data ++ more))).
Proof.
  intros data more cs bufsize t reads Hb Hc.
  destruct (engine_bytes_are_reference_prefix data cs bufsize t reads Hb Hc) as [u Hu].
  assert (Hp : is_prefix (out (Inflate.inflate [] data)) (out (Inflate.inflate [] (data ++ more)))).
  { pose proof (inflate_mono [] data more) as Hm. cbv zeta in Hm.
    destruct (status (Inflate.inflate [] data)) eqn:Est.
    - exists []. rewrite app_nil_r. exact (f_equal out Hm).
    - exact (proj1 Hm).
    - destruct Hm as [_ [Ho _]]. exists []. rewrite app_nil_r. exact Ho.
    - destruct Hm. }
  destruct Hp as [v Hv]. exists (u ++ v). rewrite Hv, Hu, app_assoc. reflexivity.
Qed.

Lemma engine_no_eof_on_truncated_or_corrupt : forall data cs bufsize t reads,
  bytes_ok data -> cut_of cs data ->
  status (Inflate.inflate [] data) <> Done ->
  ~ In REOF (map snd (fst (erun_ext bufsize cs t reads))).
Proof.
  intros data cs bufsize t reads Hb [Hc Hne] Hs.
  pose proof (erun_sound data cs bufsize t reads Hb Hc Hne) as H.
  destruct (erun_ext bufsize cs t reads) as [l n]; cbn [fst]. exact (proj2 (proj2 H) Hs).
Qed.

(* C05: at io.EOF exactly the bytes of the stream have been taken from the source *)
Lemma engine_exact_consumption : forall data cs bufsize t reads,
  bytes_ok data -> cut_of cs data ->
  In REOF (map snd (fst (erun_ext bufsize cs t reads))) ->
  snd (erun_ext bufsize cs t reads) = (bitpos (Inflate.inflate [] data) + 7) / 8.
Proof.
  intros data cs bufsize t reads Hb [Hc Hne] Hin.
  pose proof (erun_sound data cs bufsize t reads Hb Hc Hne) as H.
  destruct (erun_ext bufsize cs t reads) as [l n]; cbn [fst snd] in *.
  destruct H as [_ [H _]]. destruct (H Hin) as [_ [_ H3]]. exact H3.
Qed.

(* C04: two runs over the same content -- any two delivery schedules, buffer sizes, terminals
   and Read-size sequences -- hand out comparable bytes (one is a prefix of the other), and if
   both reach io.EOF they handed out the same bytes and consumed the same number of source bytes *)
Lemma prefix_comparable : forall (A : Type) (a b c : list A),
  is_prefix a c -> is_prefix b c -> is_prefix a b \/ is_prefix b a.
Proof.
  intros A a; induction a as [|x a IH]; intros b c [u Hu] [v Hv].
  - left. exists b. reflexivity.
  - destruct b as [|y b].
    + right. exists (x :: a). reflexivity.
    + subst c. cbn in Hv. injection Hv as Hxy Hr. subst y.
      destruct (IH b (a ++ u)) as [[w Hw]|[w Hw]].
      * exists u. reflexivity.
      * exists v. exact Hr.
      * left. exists w. cbn. rewrite Hw. reflexivity.
      * right. exists w. cbn. rewrite Hw. reflexivity.
Qed.

Lemma engine_schedule_independent : forall data cs1 cs2 b1 b2 t1 t2 reads1 reads2,
  bytes_ok data -> cut_of cs1 data -> cut_of cs2 data ->
  let r1 := erun_ext b1 cs1 t1 reads1 in
  let r2 := erun_ext b2 cs2 t2 reads2 in
  (is_prefix (results_bytes (fst r1)) (results_bytes (fst r2)) \/
   is_prefix (results_bytes (fst r2)) (results_bytes (fst r1))) /\
  (In REOF (map snd (fst r1)) -> In REOF (map snd (fst r2)) ->
   results_bytes (fst r1) = results_bytes (fst r2) /\ snd r1 = snd r2).
Proof.
  intros data cs1 cs2 b1 b2 t1 t2 reads1 reads2 Hb H1 H2 r1 r2. split.
  - eapply prefix_comparable; [exact (engine_bytes_are_reference_prefix data cs1 b1 t1 reads1 Hb H1)
                              | exact (engine_bytes_are_reference_prefix data cs2 b2 t2 reads2 Hb H2)].
  - intros E1 E2. split.
    + destruct (engine_eof_only_if_complete data cs1 b1 t1 reads1 Hb H1 E1) as [_ A].
      destruct (engine_eof_only_if_complete data cs2 b2 t2 reads2 Hb H2 E2) as [_ B].
      unfold r1, r2. rewrite A, B. reflexivity.
    + unfold r1, r2. rewrite (engine_exact_consumption data cs1 b1 t1 reads1 Hb H1 E1),
                             (engine_exact_consumption data cs2 b2 t2 reads2 Hb H2 E2). reflexivity.
Qed.

(* C02 (soundness half): when the Reader says io.EOF on a stream, it has returned the whole
   reference output, whatever the Read sizes were *)
Lemma engine_read_sizes_irrelevant_at_eof : forall data cs bufsize t reads1 reads2,
  bytes_ok data -> cut_of cs data ->
  In REOF (map snd (fst (erun_ext bufsize cs t reads1))) ->
  In REOF (map snd (fst (erun_ext bufsize cs t reads2))) ->
  results_bytes (fst (erun_ext bufsize cs t reads1)) = results_bytes (fst (erun_ext bufsize cs t reads2)).
Proof.
  intros data cs bufsize t reads1 reads2 Hb Hc E1 E2.
  exact (proj1 (proj2 (engine_schedule_independent data cs cs bufsize bufsize t t reads1 reads2 Hb Hc Hc) E1 E2)).
Qed.
