(* EngineCompleteSmall.v -- completeness side of the small tables: the error code of
   genForDists (gen_small false) depends only on the length vector (gen_dist_error), and a
   distance code without codes longer than 10 bits always fits (dist_fits_short). *)
From Coq Require Import List NArith ZArith Bool Lia ZifyBool ZifyNat ZifyN.
From Verif Require Import Bits Huffman Inflate HuffmanProofs.
From Verif Require Import Base EngineTables Engine EngineRefineSpec EngineCompleteSpecB.
From Verif Require Import EngineRefineSmallBase EngineRefineSmallCodes EngineRefineSmallSort
                          EngineRefineSmallShort EngineRefineSmallClc EngineRefineSmallLong
                          EngineRefineSmallDist.
Import ListNotations.
Open Scope N_scope.

(* ---------------------------------------------------------------- forN: extensionality, simulation *)
Lemma iterN_ext : forall (St : Type) (f g : N -> St -> St) n i s,
  (forall j x, i <= j < i + N.of_nat n -> f j x = g j x) -> iterN n i f s = iterN n i g s.
Proof.
  intros St f g n. induction n as [|k IH]; intros i s H.
  - reflexivity.
  - cbn [iterN]. rewrite (H i s) by lia. apply IH. intros j x Hj. apply H. lia.
Qed.

Lemma forN_ext : forall (St : Type) (f g : N -> St -> St) lo hi s,
  (forall j x, lo <= j < hi -> f j x = g j x) -> forN lo hi f s = forN lo hi g s.
Proof.
  intros St f g lo hi s H. unfold forN. apply iterN_ext. intros j x Hj. apply H. lia.
Qed.

Lemma iterN_sim : forall (St : Type) (R : St -> St -> Prop) (f : N -> St -> St) n i s s',
  (forall j x y, R x y -> R (f j x) (f j y)) -> R s s' -> R (iterN n i f s) (iterN n i f s').
Proof.
  intros St R f n. induction n as [|k IH]; intros i s s' Hf HR.
  - exact HR.
  - cbn [iterN]. apply IH; [exact Hf|]. apply Hf. exact HR.
Qed.

Lemma forN_sim : forall (St : Type) (R : St -> St -> Prop) (f : N -> St -> St) lo hi s s',
  (forall j x y, R x y -> R (f j x) (f j y)) -> R s s' -> R (forN lo hi f s) (forN lo hi f s').
Proof. intros. unfold forN. apply iterN_sim; assumption. Qed.

(* ---------------------------------------------------------------- the long-code loop does not
   look at the table contents *)
Lemma long_fill_pan_indep : forall fuel bound wrap long long' base lb lim minInc entry pan,
  snd (long_fill fuel bound wrap long base lb lim minInc entry pan)
  = snd (long_fill fuel bound wrap long' base lb lim minInc entry pan).
Proof.
  induction fuel as [|f IH]; intros bound wrap long long' base lb lim minInc entry pan.
  - reflexivity.
  - cbn [long_fill]. destruct (lb <? lim); [|reflexivity].
    destruct (bound <=? base + lb); [reflexivity|]. apply IH.
Qed.

Definition proj3 (a : arr * arr * bool) : arr * bool := (snd (fst a), snd a).

Lemma gs_fill_indep : forall fuel hdr maxSymbol lcl grp a a' s,
  proj3 a = proj3 a' ->
  proj3 (gs_fill fuel hdr maxSymbol lcl grp a s) = proj3 (gs_fill fuel hdr maxSymbol lcl grp a' s).
Proof.
  intros fuel hdr maxSymbol lcl grp [[long codes] pan] [[long' codes'] pan'] s H.
  unfold proj3 in H. cbn [fst snd] in H. injection H as <- <-.
  unfold gs_fill.
  match goal with |- proj3 (let '(_, _) := long_fill ?f ?b ?w _ ?ba ?lb ?li ?mi ?en ?pa in _) = _ =>
    pose proof (long_fill_pan_indep f b w long long' ba lb li mi en pa) as HP;
    destruct (long_fill f b w long ba lb li mi en pa) as [l1 p1];
    destruct (long_fill f b w long' ba lb li mi en pa) as [l2 p2]
  end.
  cbn [snd] in HP. subst p2. reflexivity.
Qed.

Lemma fold_fill_indep : forall fuel hdr maxSymbol lcl grp temp a a',
  proj3 a = proj3 a' ->
  proj3 (fold_left (gs_fill fuel hdr maxSymbol lcl grp) temp a)
  = proj3 (fold_left (gs_fill fuel hdr maxSymbol lcl grp) temp a').
Proof.
  intros fuel hdr maxSymbol lcl grp temp. induction temp as [|s r IH]; intros a a' H.
  - exact H.
  - cbn [fold_left]. apply IH. apply gs_fill_indep. exact H.
Qed.

Definition proj5 (st : arr * arr * arr * N * ierr) : arr * N * ierr :=
  let '(_, _, cd, lc, pan) := st in (cd, lc, pan).

Lemma gs_long_step_indep : forall fuel hdr cl maxSymbol start len i st st',
  proj5 st = proj5 st' ->
  proj5 (gs_long_step fuel hdr cl maxSymbol start len i st)
  = proj5 (gs_long_step fuel hdr cl maxSymbol start len i st').
Proof.
  intros fuel hdr cl maxSymbol start len i [[[[sh lg] cd] lc] pan] [[[[sh' lg'] cd'] lc'] pan'] H.
  cbv [proj5] in H. injection H as E1 E2 E3. subst cd' lc' pan'.
  unfold gs_long_step.
  destruct (negb (ierr_eqb pan ENone)); [reflexivity|].
  destruct (32 <=? start + i); [reflexivity|].
  destruct (hc_code (aget cd (aget cl (start + i))) =? 65535); [reflexivity|].
  destruct (gs_group hdr cl cd start len i (N.land (hc_code (aget cd (aget cl (start + i)))) 1023)
              (hc_len (aget cd (aget cl (start + i))), [aget cl (start + i)])) as [ml tl].
  destruct (negb hdr && (80 <? lc + N.shiftl 1 (ml - 10))); [reflexivity|].
  destruct (80 <? lc + (if hdr then 2 * N.shiftl 1 (ml - 10) else N.shiftl 1 (ml - 10))); [reflexivity|].
  match goal with
  | |- proj5 (match fold_left ?g ?t (?l1, cd, false) with _ => _ end)
       = proj5 (match fold_left ?g ?t (?l2, cd, false) with _ => _ end) =>
    pose proof (fold_fill_indep fuel hdr maxSymbol lc (N.shiftl 1 (ml - 10)) t (l1, cd, false) (l2, cd, false) eq_refl) as HP;
    destruct (fold_left g t (l1, cd, false)) as [[a1 b1] c1];
    destruct (fold_left g t (l2, cd, false)) as [[a2 b2] c2]
  end.
  unfold proj3 in HP. cbn [fst snd] in HP. injection HP as <- <-. reflexivity.
Qed.

Lemma gs_long_indep : forall fuel hdr sh lg sh' lg' codes cl maxSymbol start len,
  proj5 (gs_long fuel hdr sh lg codes cl maxSymbol start len)
  = proj5 (gs_long fuel hdr sh' lg' codes cl maxSymbol start len).
Proof.
  intros. unfold gs_long.
  apply (forN_sim _ (fun x y => proj5 x = proj5 y)); [|reflexivity].
  intros j x y H. apply gs_long_step_indep. exact H.
Qed.

Definition gerr (r : arr * arr * arr * ierr) : ierr := snd r.

Lemma gen_small_err_indep : forall sh0 lg0 sh0' lg0' codes n count maxSymbol,
  gerr (gen_small false sh0 lg0 codes n count maxSymbol)
  = gerr (gen_small false sh0' lg0' codes n count maxSymbol).
Proof.
  intros. rewrite !gen_small_eq. cbv zeta.
  destruct (aget (gs_ct count) 16 =? 0); [reflexivity|].
  destruct (gs_sort codes n (gs_ct count)) as [[cl ctt] pan0].
  destruct pan0; [reflexivity|].
  match goal with
  | |- gerr (let '(_, _) := ?e1 in _) = gerr (let '(_, _) := ?e2 in _) =>
    destruct e1 as [sh1 cs1]; destruct e2 as [sh2 cs2]
  end.
  match goal with
  | |- gerr (match gs_long ?f ?h sh1 lg0 ?c ?l ?m ?s ?n with _ => _ end) = _ =>
    pose proof (gs_long_indep f h sh1 lg0 sh2 lg0' c l m s n) as HP;
    destruct (gs_long f h sh1 lg0 c l m s n) as [[[[a1 b1] c1] d1] e1];
    destruct (gs_long f h sh2 lg0' c l m s n) as [[[[a2 b2] c2] d2] e2]
  end.
  cbv [proj5] in HP. injection HP as E1 E2 E3. subst. reflexivity.
Qed.

(* ---------------------------------------------------------------- the long-code loop never panics *)
Section NoPanic.
Variables (codes0 : arr) (n : N) (count cl : arr) (fuel : nat).
Hypothesis OK : codes_ok codes0 n count.
Hypothesis SO : sort_ok codes0 n cl.
Hypothesis Hfuel : 32 <= N.of_nat fuel.

Definition okerr (e : ierr) : Prop := e = ENone \/ e = EInvalidBlock.

Lemma long_step_err : forall short1 i sh lg cd lc,
  i < llen codes0 n -> LInv codes0 n cl short1 i sh lg cd lc ->
  okerr (snd (gs_long_step fuel false cl n (lstart codes0 n) (llen codes0 n) i (sh, lg, cd, lc, ENone))).
Proof.
  intros short1 i sh lg cd lc Hi INV.
  pose proof (lstart_len codes0 n n fuel (N.le_refl n) Hfuel) as HLL.
  pose proof (ck_n _ _ _ OK) as Hn30.
  pose proof (ctv_le_n codes0 n 16) as H16n.
  pose proof (li_codes _ _ _ _ _ _ _ _ _ INV) as CS.
  unfold gs_long_step. cbn [ierr_eqb negb]. cbv iota.
  destruct (N.leb_spec 32 (lstart codes0 n + i)) as [H32|_]; [lia|].
  fold (sym codes0 n cl i).
  destruct (N.eqb_spec (hc_code (aget cd (sym codes0 n cl i))) 65535) as [Em|Em].
  { left. reflexivity. }
  pose proof (group_spec codes0 n count cl n fuel OK SO (N.le_refl n) Hfuel cd i
                (N.land (hc_code (aget cd (sym codes0 n cl i))) 1023) CS Hi) as HG.
  destruct (gs_group false cl cd (lstart codes0 n) (llen codes0 n) i
              (N.land (hc_code (aget cd (sym codes0 n cl i))) 1023)
              (hc_len (aget cd (sym codes0 n cl i)), [sym codes0 n cl i])) as [ml tl].
  destruct HG as (ND & HIn & p & Hp & Eml & Hq).
  cbn [negb andb]. rewrite shiftl_1.
  pose proof (sym_islong codes0 n cl n fuel SO (N.le_refl n) Hfuel p ltac:(lia)) as HLp.
  destruct (islong_facts codes0 n count n fuel OK (N.le_refl n) Hfuel _ HLp) as (Fp1 & _).
  destruct HLp as [_ Fp2]. rewrite <- Eml in Fp1, Fp2.
  destruct (N.ltb_spec 80 (lc + 2 ^ (ml - 10))) as [H80|H80]; [right; reflexivity|].
  rewrite frev_rev.
  destruct (fill_fold codes0 n count n fuel OK (N.le_refl n) Hfuel ml lc (rev tl)
              (forN lc (lc + 2 ^ (ml - 10)) (fun x t => aset t x 0) lg)
              cd (fun _ => False) ltac:(lia) H80) as (long2 & codes2 & EFold & _).
  { apply NoDup_rev. exact ND. }
  { intros s Hs. apply in_rev in Hs. destruct (Hq s Hs) as (q & Hq1 & ->).
    split; [apply (sym_islong codes0 n cl n fuel SO (N.le_refl n) Hfuel); lia|].
    split.
    - destruct (CS (sym codes0 n cl q)) as [E|[E _]]; [left; exact E|right; exact E].
    - intros _. rewrite Eml. apply (sym_mono codes0 n count cl n fuel OK SO (N.le_refl n) Hfuel); lia. }
  { intros y Hy. rewrite zero_fill_spec.
    destruct (N.leb_spec lc (lc + y)); [|lia].
    destruct (N.ltb_spec (lc + y) (lc + 2 ^ (ml - 10))); [|lia]. cbn [andb].
    apply tspec_none. intros j []. }
  rewrite EFold. left. reflexivity.
Qed.

Lemma gs_long_err : forall short1 long,
  okerr (snd (gs_long fuel false short1 long codes0 cl n (lstart codes0 n) (llen codes0 n))).
Proof.
  intros short1 long. unfold gs_long.
  assert (HI : let st := forN 0 (llen codes0 n)
                   (gs_long_step fuel false cl n (lstart codes0 n) (llen codes0 n))
                   (short1, long, codes0, 0, ENone) in
               okerr (snd st) /\
               (snd st = ENone ->
                let '(sh, lg, cd, lc, _) := st in LInv codes0 n cl short1 (llen codes0 n) sh lg cd lc)).
  { apply (forN_ind (arr * arr * arr * N * ierr)
       (fun i (st : arr * arr * arr * N * ierr) =>
          okerr (snd st) /\
          (snd st = ENone -> let '(sh, lg, cd, lc, _) := st in LInv codes0 n cl short1 i sh lg cd lc))).
    - lia.
    - cbn [snd]. split; [left; reflexivity|]. intros _.
      apply (LInv_init codes0 n count cl n fuel OK (N.le_refl n) Hfuel).
    - intros i [[[[sh1 lg1] cd1] lc1] pan1] Hi [IH1 IH2]. cbn [snd] in IH1, IH2.
      destruct IH1 as [->| ->].
      + specialize (IH2 eq_refl).
        pose proof (long_step_err short1 i sh1 lg1 cd1 lc1 ltac:(lia) IH2) as HE.
        destruct (gs_long_step fuel false cl n (lstart codes0 n) (llen codes0 n) i (sh1, lg1, cd1, lc1, ENone))
          as [[[[sh2 lg2] cd2] lc2] pan2] eqn:ES.
        cbn [snd] in HE |- *. split; [exact HE|]. intros ->.
        apply (long_step_inv codes0 n count cl n fuel OK SO (N.le_refl n) Hfuel short1 i
                 sh1 lg1 cd1 lc1 sh2 lg2 cd2 lc2 ltac:(lia) IH2 ES).
      + unfold gs_long_step. cbn [ierr_eqb negb]. cbv iota. cbn [snd].
        split; [right; reflexivity|discriminate]. }
  cbv zeta in HI. exact (proj1 HI).
Qed.

End NoPanic.

(* ---------------------------------------------------------------- gen_small false: possible errors *)
Lemma gen_small_dist_err : forall codes n count sh0 lg0,
  codes_ok codes n count -> okerr (gerr (gen_small false sh0 lg0 codes n count n)).
Proof.
  intros codes n count sh0 lg0 OK. rewrite gen_small_eq.
  pose proof (gs_ct_spec codes n count OK) as Hct.
  set (ct := gs_ct count) in *. cbv zeta.
  destruct (N.eqb_spec (aget ct 16) 0) as [E16|E16]; [left; reflexivity|].
  destruct (gs_sort_spec codes n count ct OK Hct) as (cl & ctt & Es & SO).
  rewrite Es. cbv beta iota.
  match goal with |- okerr (gerr (let '(_, _) := ?e in _)) => destruct e as [sh1 cs1] end.
  rewrite (Hct 11), (Hct 16) by lia.
  assert (Hsub : sub32 (ctv codes n 16) (ctv codes n 11) = llen codes n).
  { unfold sub32, subw, llen.
    pose proof (ctv_mono codes n 11 16 ltac:(lia) ltac:(lia)).
    destruct (N.leb_spec (ctv codes n 11) (ctv codes n 16)); [reflexivity|lia]. }
  rewrite Hsub. fold (lstart codes n).
  pose proof (gs_long_err codes n count cl small_fuel OK SO small_fuel_32 sh1 lg0) as HE.
  destruct (gs_long small_fuel false sh1 lg0 codes cl n (lstart codes n) (llen codes n))
    as [[[[sh2 lg2] cd2] lc2] pan2].
  exact HE.
Qed.

Lemma gen_small_short_none : forall codes n count sh0 lg0,
  codes_ok codes n count -> (forall i, i < n -> cL codes i <= 10) ->
  gerr (gen_small false sh0 lg0 codes n count n) = ENone.
Proof.
  intros codes n count sh0 lg0 OK H10. rewrite gen_small_eq.
  pose proof (gs_ct_spec codes n count OK) as Hct.
  set (ct := gs_ct count) in *. cbv zeta.
  destruct (N.eqb_spec (aget ct 16) 0) as [E16|E16]; [reflexivity|].
  destruct (gs_sort_spec codes n count ct OK Hct) as (cl & ctt & Es & SO).
  rewrite Es. cbv beta iota.
  match goal with |- gerr (let '(_, _) := ?e in _) = _ => destruct e as [sh1 cs1] end.
  rewrite (Hct 11), (Hct 16) by lia.
  rewrite (ctv_11_16 codes n H10), sub32_same.
  unfold gs_long. rewrite forN_empty by lia. reflexivity.
Qed.

(* ---------------------------------------------------------------- the canonical array layout *)
Lemma lens_huff_fold : forall base l a k j,
  aget (fst (fold_left (fun (a : arr * N) x =>
               (aset (fst a) (base + snd a) (hc_set 0 (N.of_nat x)), snd a + 1)) l (a, k))) j
  = if (base + k <=? j) && (j <? base + k + N.of_nat (length l))
    then hc_set 0 (N.of_nat (nth (N.to_nat (j - base - k)) l 0%nat)) else aget a j.
Proof.
  intros base l. induction l as [|x r IH]; intros a k j.
  - cbn [fold_left fst length].
    destruct (N.leb_spec (base + k) j); destruct (N.ltb_spec j (base + k + N.of_nat 0)); cbn [andb];
      try reflexivity; lia.
  - cbn [fold_left fst snd length]. rewrite IH. rewrite aget_aset.
    destruct (N.eqb_spec j (base + k)) as [->|Hne].
    + destruct (N.leb_spec (base + (k + 1)) (base + k)); [lia|]. cbn [andb].
      destruct (N.leb_spec (base + k) (base + k)); [|lia].
      destruct (N.ltb_spec (base + k) (base + k + N.of_nat (S (length r)))); [|lia]. cbn [andb].
      replace (N.to_nat (base + k - base - k)) with 0%nat by lia. reflexivity.
    + destruct (N.leb_spec (base + (k + 1)) j); destruct (N.leb_spec (base + k) j); try lia; cbn [andb].
      * destruct (N.ltb_spec j (base + (k + 1) + N.of_nat (length r))) as [H1|H1];
          destruct (N.ltb_spec j (base + k + N.of_nat (S (length r)))) as [H2|H2]; try lia.
        replace (N.to_nat (j - base - k)) with (S (N.to_nat (j - base - (k + 1)))) by lia.
        reflexivity.
      * reflexivity.
Qed.

Lemma lens_count_fold : forall l a x,
  aget (fold_left (fun a y => ainc a (N.of_nat y)) l a) x = aget a x + occ l (N.to_nat x).
Proof.
  induction l as [|y r IH]; intros a x.
  - cbn [fold_left]. rewrite occ_nil. lia.
  - cbn [fold_left]. rewrite IH. unfold ainc. rewrite aget_aset, occ_cons.
    destruct (N.eqb_spec x (N.of_nat y)) as [->|Hne].
    + rewrite Nat2N.id, Nat.eqb_refl. lia.
    + destruct (Nat.eqb_spec y (N.to_nat x)); lia.
Qed.

Lemma lens_in_canonical : forall l base n, (length l <= N.to_nat n)%nat ->
  Forall (fun x => (x <= 15)%nat) l -> lens_in l base n (lens_huff base l) (lens_count l).
Proof.
  intros l base n HL HF. split; [exact HL|]. split; [exact HF|]. split.
  - intros i Hi. unfold lens_huff. rewrite lens_huff_fold.
    destruct (N.leb_spec (base + 0) (base + i)); [|lia]. cbn [andb].
    destruct (N.ltb_spec (base + i) (base + 0 + N.of_nat (length l))) as [Hlt|Hge].
    + replace (base + i - base - 0) with i by lia. reflexivity.
    + rewrite aget_empty. rewrite nth_overflow by lia. reflexivity.
  - intros x Hx. unfold lens_count. rewrite lens_count_fold, aget_empty. reflexivity.
Qed.

(* ---------------------------------------------------------------- gen_dist_error *)
Definition dist_codes (huff' : arr) : arr :=
  forN 0 30 (fun i t => aset t i (aget huff' (286 + i))) aempty.

Lemma dist_codes_ext : forall h1 h2, (forall i, i < 30 -> aget h1 (286 + i) = aget h2 (286 + i)) ->
  dist_codes h1 = dist_codes h2.
Proof.
  intros h1 h2 H. unfold dist_codes. apply forN_ext. intros j x Hj. rewrite (H j) by lia. reflexivity.
Qed.

Lemma gs_ct_ext : forall c1 c2, (forall x, 1 <= x <= 15 -> aget c1 x = aget c2 x) -> gs_ct c1 = gs_ct c2.
Proof.
  intros c1 c2 H. unfold gs_ct. apply forN_ext. intros j x Hj. rewrite (H (j - 1)) by lia. reflexivity.
Qed.

Lemma gen_small_count_ext : forall hdr sh lg codes n c1 c2 m,
  (forall x, 1 <= x <= 15 -> aget c1 x = aget c2 x) ->
  gen_small hdr sh lg codes n c1 m = gen_small hdr sh lg codes n c2 m.
Proof.
  intros hdr sh lg codes n c1 c2 m H. rewrite !gen_small_eq. rewrite (gs_ct_ext c1 c2 H). reflexivity.
Qed.

(* what setCodes leaves in huffs[286:316] for a length vector that is not over-subscribed *)
Lemma dist_setCodes : forall dl huff count,
  lens_in dl 286 30 huff count -> oversubscribed 15 dl = false ->
  snd (setCodes huff 286 30 count) = false /\
  forall i, i < 30 -> aget (fst (setCodes huff 286 30 count)) (286 + i) = code_entry dl (N.to_nat i).
Proof.
  intros dl huff count Hin Ho. pose proof Hin as (HL & HF & Hh & Hc).
  split.
  - rewrite (setCodes_bad dl count huff 286 30 ltac:(lia) HF Hc). exact Ho.
  - apply (setCodes_codes dl huff 286 30 count Hin ltac:(lia) Ho).
Qed.

Lemma dist_fits_eq : forall dl huff count sh0 lg0,
  lens_in dl 286 30 huff count -> oversubscribed 15 dl = false ->
  dist_fits dl = ierr_eqb (gerr (gen_small false sh0 lg0 (dist_codes (fst (setCodes huff 286 30 count))) 30 count 30)) ENone.
Proof.
  intros dl huff count sh0 lg0 Hin Ho. pose proof Hin as (HL & HF & Hh & Hc).
  pose proof (lens_in_canonical dl 286 30 HL HF) as Hin2.
  destruct (dist_setCodes dl huff count Hin Ho) as [_ C1].
  destruct (dist_setCodes dl _ _ Hin2 Ho) as [_ C2].
  unfold dist_fits.
  destruct (setCodes (lens_huff 286 dl) 286 30 (lens_count dl)) as [h2 b2].
  cbn [fst] in C2. fold (dist_codes h2).
  assert (EC : dist_codes h2 = dist_codes (fst (setCodes huff 286 30 count))).
  { apply dist_codes_ext. intros i Hi. rewrite (C1 i Hi), (C2 i Hi). reflexivity. }
  rewrite EC.
  assert (EN : gen_small false aempty aempty (dist_codes (fst (setCodes huff 286 30 count))) 30 (lens_count dl) 30
             = gen_small false aempty aempty (dist_codes (fst (setCodes huff 286 30 count))) 30 count 30).
  { apply gen_small_count_ext. intros x Hx.
    destruct Hin2 as (_ & _ & _ & Hc2). rewrite (Hc x Hx), (Hc2 x Hx). reflexivity. }
  rewrite EN.
  rewrite (gen_small_err_indep sh0 lg0 aempty aempty).
  destruct (gen_small false aempty aempty (dist_codes (fst (setCodes huff 286 30 count))) 30 count 30)
    as [[[a b] c] e].
  reflexivity.
Qed.

Theorem gen_dist_error : gen_dist_error_statement.
Proof.
  unfold gen_dist_error_statement. intros dl huff count sh0 lg0 Hin Ho.
  pose proof Hin as (HL & HF & Hh & Hc).
  pose proof (dist_fits_eq dl huff count sh0 lg0 Hin Ho) as HFit.
  destruct (dist_setCodes dl huff count Hin Ho) as [_ C1].
  destruct (setCodes huff 286 30 count) as [huff' bad]. cbn [fst] in HFit, C1.
  cbv zeta. fold (dist_codes huff').
  assert (Hcd : forall i, i < 30 -> aget (dist_codes huff') i = code_entry dl (N.to_nat i)).
  { intros i Hi. unfold dist_codes. rewrite copy_codes.
    destruct (N.ltb_spec i 30); [|lia]. apply C1. exact Hi. }
  destruct (codes_ok_of_lens dl (dist_codes huff') 30 count HL HF ltac:(lia) Ho Hcd Hc) as (OK & _ & _).
  pose proof (gen_small_dist_err (dist_codes huff') 30 count sh0 lg0 OK) as HE.
  destruct (gen_small false sh0 lg0 (dist_codes huff') 30 count 30) as [[[a b] c] e].
  unfold gerr in *. cbn [snd] in *. split; [exact HE|].
  rewrite HFit. destruct e; cbn [ierr_eqb]; split; intros H; try reflexivity; discriminate H.
Qed.

Theorem dist_fits_short : dist_fits_short_statement.
Proof.
  unfold dist_fits_short_statement. intros dl HL30 H10 Ho.
  assert (HL : (length dl <= N.to_nat 30)%nat) by lia.
  assert (HF : Forall (fun x => (x <= 15)%nat) dl).
  { eapply Forall_impl; [|exact H10]. intros x Hx. cbv beta in *. lia. }
  pose proof (lens_in_canonical dl 286 30 HL HF) as Hin.
  rewrite (dist_fits_eq dl _ _ aempty aempty Hin Ho).
  destruct (dist_setCodes dl _ _ Hin Ho) as [_ C1].
  set (huff' := fst (setCodes (lens_huff 286 dl) 286 30 (lens_count dl))) in *.
  destruct Hin as (_ & _ & _ & Hc).
  assert (Hcd : forall i, i < 30 -> aget (dist_codes huff') i = code_entry dl (N.to_nat i)).
  { intros i Hi. unfold dist_codes. rewrite copy_codes.
    destruct (N.ltb_spec i 30); [|lia]. apply C1. exact Hi. }
  destruct (codes_ok_of_lens dl (dist_codes huff') 30 (lens_count dl) HL HF ltac:(lia) Ho Hcd Hc)
    as (OK & HcL & _).
  rewrite gen_small_short_none; [reflexivity|exact OK|].
  intros i Hi. rewrite (HcL i Hi).
  destruct (Nat.lt_ge_cases (N.to_nat i) (length dl)) as [Hlt|Hge].
  - rewrite Forall_forall in H10. specialize (H10 _ (nth_In dl 0%nat Hlt)). lia.
  - rewrite nth_overflow by exact Hge. lia.
Qed.

Print Assumptions gen_dist_error.
Print Assumptions dist_fits_short.
