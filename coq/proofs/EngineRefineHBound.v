(* EngineRefineHBound.v -- a block header never needs more than 300 bytes:
   when tryDecodeHeader reports "ran out of input" (EEndInput), the input it was given was
   at most 300 bytes (in fact at most 286).

   Argument: avail b = 8 * #input bytes + bitsLen is kept by the loads and decreases by k at
   each drop of k bits.  EEndInput is only reported with the reader exhausted (input empty)
   and bitsLen < 0 (< 14 before the 14 header bits, < 32 for a stored block), so
   avail(initial) < total number of bits dropped + small, and the total is bounded by
   3 + 14 + 3*19 + (7 * 315 + 14) = 2293: each iteration of readLitDistLens's loop that
   advances the (normalised) position by a >= 1 drops at most min (7a) 14 bits. *)
From Coq Require Import List NArith ZArith Bool Lia ZifyBool ZifyNat ZifyN.
From Verif Require Import Bits Huffman HuffmanSpec Inflate InflateSpec InflateMono.
From Verif Require Import Base EngineTables Engine EngineRefineSpec EngineRefineSpecBlock
                          EngineRefineSpecHdr EngineRefineBits EngineRefineBridge.
From Verif Require Import EngineRefineSmall EngineRefineHeaderBase EngineRefineHeaderClc.
Import ListNotations.
Open Scope N_scope.

(* ---------------------------------------------------------------- available bits *)
Definition avail (b : bitrd) : Z := (8 * Z.of_nat (length (r_in b)) + r_len b)%Z.

Lemma avail_drop : forall b k, avail (br_drop b k) = (avail b - Z.of_N k)%Z.
Proof. intros b k. unfold avail, br_drop. cbn [r_in r_len]. lia. Qed.

Lemma avail_neg : forall b, br_wf b -> (r_len b < 0)%Z -> (avail b < 0)%Z.
Proof.
  intros b (_ & _ & W3 & _) Hn. unfold avail. rewrite (W3 Hn). cbn [length]. lia.
Qed.

Lemma avail_exhausted : forall b, r_in b = [] -> avail b = r_len b.
Proof. intros b H. unfold avail. rewrite H. cbn [length]. lia. Qed.

Lemma avail_inlen : forall b, br_wf b -> avail b = (8 * Z.of_N (r_inlen b) + r_len b)%Z.
Proof. intros b (W1 & _). unfold avail. rewrite W1. lia. Qed.

(* the loads keep avail *)
Lemma avail_of_bits : forall b b', br_wf b ->
  br_bits b' = br_bits b -> (r_len b <= r_len b')%Z ->
  ((r_len b < 0)%Z -> b' = b) -> avail b' = avail b.
Proof.
  intros b b' Hwf Hb Hle Hneg.
  destruct (Z.ltb_spec (r_len b) 0) as [Hn|Hn]; [rewrite (Hneg Hn); reflexivity|].
  apply (f_equal (@length bool)) in Hb. rewrite !br_bits_length in Hb.
  unfold avail. lia.
Qed.

Lemma load_raw_av : forall b, br_wf b ->
  exists b', load_raw b = Some b' /\ br_wf b' /\ avail b' = avail b /\ br_loaded 57 b' /\
             (r_len b <= r_len b')%Z.
Proof.
  intros b Hwf. destruct (load_raw_bits b Hwf) as (b' & L1 & L2 & L3 & L4 & L5 & L6).
  exists b'. split; [exact L1|]. split; [exact L2|]. split; [|split; [exact L4|exact L5]].
  apply (avail_of_bits b b' Hwf L3 L5). intros Hn. apply (load_raw_neg b b' Hn L1).
Qed.

Lemma load_lt57_av : forall b, br_wf b ->
  exists b', load_lt57 b = Some b' /\ br_wf b' /\ avail b' = avail b /\ br_loaded 57 b' /\
             (r_len b <= r_len b')%Z.
Proof.
  intros b Hwf. destruct (load_lt57_bits b Hwf) as (b' & L1 & L2 & L3 & L4 & L5).
  exists b'. split; [exact L1|]. split; [exact L2|]. split; [|split; [exact L4|exact L5]].
  apply (avail_of_bits b b' Hwf L3 L5). intros Hn. apply (load_lt57_neg b b' Hn L1).
Qed.

Lemma load_le15_av : forall b, br_wf b ->
  exists b', load_le15 b = Some b' /\ br_wf b' /\ avail b' = avail b /\ br_loaded 16 b' /\
             (r_len b <= r_len b')%Z.
Proof.
  intros b Hwf. destruct (load_le15_bits b Hwf) as (b' & L1 & L2 & L3 & L4 & L5).
  exists b'. split; [exact L1|]. split; [exact L2|]. split; [|split; [exact L4|exact L5]].
  apply (avail_of_bits b b' Hwf L3 L5). intros Hn. apply (load_le15_neg b b' Hn L1).
Qed.

(* readBits *)
Lemma readBits_av : forall s k v s', br_wf (rd s) -> k <= 57 ->
  readBits s k = Some (v, s') ->
  br_wf (rd s') /\ avail (rd s') = (avail (rd s) - Z.of_N k)%Z /\
  br_loaded (57 - Z.of_N k) (rd s').
Proof.
  intros s k v s' Hwf Hk H. unfold readBits, loadBits in H.
  destruct (load_lt57_av (rd s) Hwf) as (b1 & L1 & L2 & L3 & L4 & L5).
  rewrite L1 in H. cbn [rd set_rd] in H. unfold next_bits in H.
  injection H as _ <-. cbn [rd set_rd].
  split; [apply br_drop_wf; [exact L2|apply (br_loaded_mono 57 _ b1); [lia|exact L4]]|].
  split; [rewrite avail_drop, L3; reflexivity|].
  apply br_drop_loaded. exact L4.
Qed.

(* ---------------------------------------------------------------- codeLenCodes *)
Lemma clc_iter_av : forall n i b hf ct,
  let '(b', _, _) := iterN n i clc_read3 (b, hf, ct) in
  avail b' = (avail b - 3 * Z.of_nat n)%Z.
Proof.
  induction n as [|n IH]; intros i b hf ct.
  - cbn [iterN]. lia.
  - cbn [iterN]. unfold clc_read3 at 2. unfold next_bits.
    match goal with |- context[iterN n (i + 1) clc_read3 (?b1, ?h1, ?c1)] =>
      specialize (IH (i + 1) b1 h1 c1);
      destruct (iterN n (i + 1) clc_read3 (b1, h1, c1)) as [[b' hf'] ct'] end.
    rewrite IH, avail_drop. lia.
Qed.

Lemma codeLenCodes_av : forall s hclen s' err,
  br_wf (rd s) -> br_loaded 12 (rd s) -> hclen <= 15 ->
  codeLenCodes s hclen = (s', err) ->
  br_wf (rd s') /\ avail (rd s') = (avail (rd s) - 3 * Z.of_N (hclen + 4))%Z /\
  (err = EEndInput -> (r_len (rd s') < 0)%Z) /\
  (err = ENone -> exists cl, Forall (fun x => (x <= 7)%nat) cl /\
                             clc_tab_ok cl (clcShort (dyn s')) (clcLong (dyn s'))).
Proof.
  intros s hclen s' err Hwf Hl12 Hh H.
  unfold codeLenCodes, forN in H.
  change (N.to_nat (4 - 0)) with 4%nat in H.
  replace (N.to_nat (hclen + 4 - 4)) with (N.to_nat hclen) in H by lia.
  pose proof (clc_iter 4 0 (rd s) aempty aempty [] Hwf Hl12 ltac:(lia) clc_inv_init) as P1.
  pose proof (clc_iter_av 4 0 (rd s) aempty aempty) as Q1.
  change (N.of_nat 0) with 0 in P1.
  destruct (iterN 4 0 clc_read3 (rd s, aempty, aempty)) as [[b1 hf1] ct1].
  destruct P1 as (A1 & A2 & vs1 & A3 & A4 & A5). cbn [app Nat.add] in A4.
  destruct (load_lt57_av b1 A1) as (b2 & L1 & L2 & L3 & L4 & L5).
  rewrite L1 in H.
  assert (L4' : br_loaded (3 * Z.of_nat (N.to_nat hclen)) b2).
  { apply (br_loaded_mono 57 _ b2); [lia|exact L4]. }
  pose proof (clc_iter (N.to_nat hclen) 4 b2 hf1 ct1 vs1 L2 L4' ltac:(lia) A4) as P2.
  pose proof (clc_iter_av (N.to_nat hclen) 4 b2 hf1 ct1) as Q2.
  change (N.of_nat 4) with 4 in P2.
  destruct (iterN (N.to_nat hclen) 4 clc_read3 (b2, hf1, ct1)) as [[b3 hf3] ct3].
  destruct P2 as (B1 & B2 & vs2 & B3 & B4 & B5).
  assert (Hav : avail b3 = (avail (rd s) - 3 * Z.of_N (hclen + 4))%Z) by lia.
  destruct (Z.ltb_spec (r_len b3) 0) as [Hneg|Hpos].
  { injection H as <- <-. cbn [rd set_rd]. split; [exact B1|]. split; [exact Hav|].
    split; [intros _; exact Hneg|intros; discriminate]. }
  destruct (clc_inv_lens_in _ _ _ _ B4) as [Hli HF7].
  pose proof (gen_clc _ hf3 ct3 (clcShort (dyn (set_rd s b3))) (clcLong (dyn (set_rd s b3))) Hli HF7) as G.
  destruct (setCodes hf3 0 19 ct3) as [hf4 bad].
  destruct G as [G1 G2].
  destruct bad.
  { injection H as <- <-. cbn [rd set_rd]. split; [exact B1|]. split; [exact Hav|].
    split; intros; discriminate. }
  specialize (G2 eq_refl).
  destruct (gen_small true _ _ hf4 19 ct3 19) as [[[sh lg] cd] e].
  destruct G2 as [G2 G3].
  injection H as <- <-.
  cbn [rd set_rd set_dyn dyn clcShort clcLong].
  split; [exact B1|]. split; [exact Hav|]. split; [intros He; rewrite G2 in He; discriminate|].
  intros _. eexists. split; [exact HF7|exact G3].
Qed.

(* ---------------------------------------------------------------- one code-length symbol *)
Lemma assign_len_in : forall l sym nc s x c, In (s, x, c) (assign l sym nc) -> In x l.
Proof.
  induction l as [|x0 r IH]; intros sym nc s x c H; [destruct H|].
  cbn [assign] in H. destruct (Nat.eqb x0 0).
  - right. eapply IH; exact H.
  - destruct H as [E|H]; [injection E as _ <- _; left; reflexivity|].
    right. eapply IH; exact H.
Qed.

Lemma canon_len_le : forall cl m s x c, Forall (fun y => (y <= m)%nat) cl ->
  In (s, x, c) (canon cl) -> (x <= m)%nat.
Proof.
  intros cl m s x c HF H. unfold canon in H. apply assign_len_in in H.
  rewrite Forall_forall in HF. apply HF. exact H.
Qed.

Lemma clc_step_av : forall cl clcS clcL b0,
  clc_tab_ok cl clcS clcL -> Forall (fun y => (y <= 7)%nat) cl -> br_wf b0 ->
  exists b1 sym b2,
    load_le15 b0 = Some b1 /\ clc_decode clcS clcL b1 = Some (sym, b2) /\ br_wf b2 /\
    (avail b0 - 7 <= avail b2 <= avail b0)%Z.
Proof.
  intros cl clcS clcL b0 Hok HF Hwf.
  destruct (load_le15_av b0 Hwf) as (b1 & L1 & L2 & L3 & L4 & L5).
  destruct (canon_match_dec (canon cl) (r_bits b1)) as [(d & len & c & Hin & Hm)|Hnone].
  - pose proof (canon_len_le _ _ _ _ _ HF Hin) as Hlen.
    pose proof (proj1 (Hok b1) d len c Hin Hm) as D.
    exists b1, (N.of_nat d), (br_drop b1 (N.of_nat len)).
    split; [exact L1|]. split; [exact D|].
    split; [apply br_drop_wf; [exact L2|apply (br_loaded_mono 16 _ b1); [lia|exact L4]]|].
    rewrite avail_drop. lia.
  - pose proof (proj2 (Hok b1) Hnone) as D.
    exists b1, 511, b1. split; [exact L1|]. split; [exact D|]. split; [exact L2|]. lia.
Qed.

(* load_raw then k extra bits *)
Lemma xbits_av : forall b k, br_wf b -> k <= 57 ->
  exists b1, load_raw b = Some b1 /\ br_wf (snd (next_bits b1 k)) /\
             avail (snd (next_bits b1 k)) = (avail b - Z.of_N k)%Z.
Proof.
  intros b k Hwf Hk. destruct (load_raw_av b Hwf) as (b1 & L1 & L2 & L3 & L4 & L5).
  exists b1. split; [exact L1|]. unfold next_bits. cbn [snd].
  split; [apply br_drop_wf; [exact L2|apply (br_loaded_mono 57 _ b1); [lia|exact L4]]|].
  rewrite avail_drop, L3. reflexivity.
Qed.

(* ---------------------------------------------------------------- the position *)
(* number of code lengths stored so far: the index, with the jump from `split` to 286
   (litLen) over the literal/distance border taken out *)
Definition npos (split : Z) (st : rlst) : Z :=
  if rl_inDist st then (rl_curr st - 286 + split)%Z else rl_curr st.

Lemma some_inj : forall (A : Type) (x y : A), Some x = Some y -> x = y.
Proof. intros A x y H. congruence. Qed.

Lemma rl_put_pos : forall st split endv h st', (split <= 286)%Z ->
  rl_put st split endv h = Some st' ->
  (npos split st + 1 <= npos split st')%Z /\ rl_b st' = rl_b st.
Proof.
  intros st split endv h st' Hs H. unfold rl_put in H.
  destruct (Z.eqb_spec (rl_curr st) split) as [E|E].
  - destruct (endv <=? 286)%Z; [discriminate|].
    destruct (rl_count_inc st true (hc_len h)) as [lc dc].
    apply some_inj in H. subst st'. unfold npos. cbn [rl_inDist rl_curr rl_b].
    split; [|reflexivity]. destruct (rl_inDist st); lia.
  - destruct (endv <=? rl_curr st)%Z; [discriminate|].
    destruct (rl_count_inc st (rl_inDist st) (hc_len h)) as [lc dc].
    apply some_inj in H. subst st'. unfold npos. cbn [rl_inDist rl_curr rl_b].
    split; [|reflexivity]. destruct (rl_inDist st); lia.
Qed.

Lemma rl_rep_pos : forall n st split endv h st', (split <= 286)%Z ->
  rl_rep n st split endv h = Some st' ->
  (npos split st + Z.of_nat n <= npos split st')%Z /\ rl_b st' = rl_b st.
Proof.
  induction n as [|n IH]; intros st split endv h st' Hs H.
  - cbn [rl_rep] in H. injection H as <-. split; [lia|reflexivity].
  - cbn [rl_rep] in H. destruct (rl_put st split endv h) as [st1|] eqn:E; [|discriminate].
    destruct (rl_put_pos _ _ _ _ _ Hs E) as [P1 P2].
    destruct (IH _ _ _ _ _ Hs H) as [Q1 Q2].
    split; [lia|congruence].
Qed.

(* the budget left at position n *)
Definition budget (n : Z) : Z := if (316 <=? n)%Z then 0%Z else (7 * (315 - n) + 14)%Z.

Lemma budget_nonneg : forall n, (0 <= budget n)%Z.
Proof. intros n. unfold budget. destruct (Z.leb_spec 316 n); lia. Qed.

(* an iteration that starts below 316, advances by a >= 1 and drops d <= min (7a) 14 bits *)
Lemma budget_step : forall n n1 a d rest, (n < 316)%Z -> (1 <= a)%Z -> (n + a <= n1)%Z ->
  (d <= 7 * a)%Z -> (d <= 14)%Z -> (rest <= budget n1)%Z -> (d + rest <= budget n)%Z.
Proof.
  intros n n1 a d rest Hn Ha Hn1 Hd Hd14 Hr. unfold budget in *.
  destruct (Z.leb_spec 316 n1); destruct (Z.leb_spec 316 n); lia.
Qed.

Lemma pair_inj : forall (A B : Type) (a c : A) (b d : B), (a, b) = (c, d) -> a = c /\ b = d.
Proof. intros A B a c b d H. split; congruence. Qed.

(* ---------------------------------------------------------------- the loop of readLitDistLens *)
Lemma rl_loop_av : forall cl clcS clcL split endv,
  clc_tab_ok cl clcS clcL -> Forall (fun y => (y <= 7)%nat) cl ->
  (split <= 286)%Z -> (endv <= 316)%Z ->
  forall fuel st st' err,
    br_wf (rl_b st) -> rl_loop fuel clcS clcL split endv st = (st', err) ->
    err = ENone \/ err = EEndInput ->
    br_wf (rl_b st') /\
    (avail (rl_b st) - avail (rl_b st') <= budget (npos split st))%Z /\
    (err = EEndInput -> (r_len (rl_b st') < 0)%Z).
Proof.
  intros cl clcS clcL split endv Hok HF Hs He.
  induction fuel as [|fuel IH]; intros st st' err Hwf H Herr.
  - cbn [rl_loop] in H. apply pair_inj in H. destruct H as [_ <-].
    destruct Herr; discriminate.
  - cbn [rl_loop] in H.
    destruct (Z.ltb_spec (rl_curr st) endv) as [Hc|Hc].
    + assert (Hn : (npos split st < 316)%Z) by (unfold npos; destruct (rl_inDist st); lia).
      (* continuing the loop from a later state *)
      assert (Hcont : forall st2 a,
                br_wf (rl_b st2) -> (1 <= a)%Z -> (npos split st + a <= npos split st2)%Z ->
                (avail (rl_b st) - avail (rl_b st2) <= 7 * a)%Z ->
                (avail (rl_b st) - avail (rl_b st2) <= 14)%Z ->
                rl_loop fuel clcS clcL split endv st2 = (st', err) ->
                br_wf (rl_b st') /\
                (avail (rl_b st) - avail (rl_b st') <= budget (npos split st))%Z /\
                (err = EEndInput -> (r_len (rl_b st') < 0)%Z)).
      { intros st2 a W2 Ha Hp Hd Hd14 HL.
        destruct (IH st2 st' err W2 HL Herr) as (R1 & R2 & R3).
        split; [exact R1|]. split; [|exact R3].
        replace (avail (rl_b st) - avail (rl_b st'))%Z
          with ((avail (rl_b st) - avail (rl_b st2)) + (avail (rl_b st2) - avail (rl_b st')))%Z by lia.
        apply (budget_step (npos split st) (npos split st2) a); assumption. }
      destruct (clc_step_av cl clcS clcL (rl_b st) Hok HF Hwf) as (b1 & sym & b2 & L1 & D & W2 & Av).
      rewrite L1, D in H. cbn zeta in H.
      assert (Hb14 : (14 <= budget (npos split st))%Z).
      { unfold budget. destruct (Z.leb_spec 316 (npos split st)); lia. }
      remember (rl_set_b st b2) as st1 eqn:Est1.
      assert (S1 : rl_b st1 = b2) by (subst st1; reflexivity).
      assert (S2 : npos split st1 = npos split st) by (subst st1; reflexivity).
      assert (S3 : rl_curr st1 = rl_curr st) by (subst st1; reflexivity).
      assert (S4 : rl_inDist st1 = rl_inDist st) by (subst st1; reflexivity).
      destruct (Z.ltb_spec (r_len b2) 0) as [Hneg|Hpos].
      { (* ran out of input *)
        destruct ((256 <? rl_curr st1)%Z && (hc_len (aget (rl_h st1) 256) =? 0));
          apply pair_inj in H; destruct H as [<- <-]; [destruct Herr; discriminate|].
        rewrite S1. split; [exact W2|]. split; [lia|]. intros _. exact Hneg. }
      destruct (sym <? 16) eqn:E16.
      { (* a length *)
        destruct (rl_put st1 split endv (hc_set 0 sym)) as [st2|] eqn:Ep.
        - destruct (rl_put_pos _ _ _ _ _ Hs Ep) as [P1 P2].
          apply (Hcont st2 1%Z); [rewrite P2, S1; exact W2|lia|lia|rewrite P2, S1; lia
                                 |rewrite P2, S1; lia|exact H].
        - apply pair_inj in H. destruct H as [_ <-]. destruct Herr; discriminate. }
      destruct (sym =? 16) eqn:E16'.
      { (* repeat the previous length 3..6 times *)
        destruct (xbits_av b2 2 W2 ltac:(lia)) as (b3 & L3 & W3 & A3).
        rewrite L3 in H. destruct (next_bits b3 2) as [ret b4] eqn:Enb. cbn [snd] in W3, A3.
        match type of H with
        | (if ?c then _ else _) = _ => destruct c
        end.
        { apply pair_inj in H. destruct H as [_ <-]. destruct Herr; discriminate. }
        match type of H with
        | match ?r with Some _ => _ | None => _ end = _ => destruct r as [st2|] eqn:Er
        end.
        - destruct (rl_rep_pos _ _ _ _ _ _ Hs Er) as [P1 P2].
          cbn [rl_b rl_set_b] in P2.
          assert (P3 : npos split (rl_set_b st1 b4) = npos split st) by (rewrite <- S2; reflexivity).
          apply (Hcont st2 3%Z); [rewrite P2; exact W3|lia|lia|rewrite P2; lia
                                 |rewrite P2; lia|exact H].
        - apply pair_inj in H. destruct H as [_ <-]. destruct Herr; discriminate. }
      destruct ((sym =? 17) || (sym =? 18)) eqn:E1718.
      2:{ apply pair_inj in H. destruct H as [_ <-]. destruct Herr; discriminate. }
      (* a run of zeros *)
      assert (Hrun : forall k base, k <= 7 -> (3 <= Z.of_N base)%Z ->
                (Z.of_N k + 7 <= 7 * Z.of_N base)%Z ->
                match load_raw b2 with
                | Some b =>
                  let '(ret, b) := next_bits b k in
                  let i := Z.of_N (base + ret) in
                  let curr := (rl_curr st1 + i)%Z in
                  let prev := (curr - 1)%Z in
                  let '(curr, prev, inDist) :=
                    if negb (rl_inDist st1) && (split <? curr)%Z then
                      let curr := (curr + (286 - split))%Z in
                      (curr, (if (286 <? curr)%Z then (curr - 1)%Z else prev), true)
                    else (curr, prev, rl_inDist st1) in
                  rl_loop fuel clcS clcL split endv
                          (mkRL b (rl_h st1) (rl_lc st1) (rl_dc st1) (rl_ex st1) curr prev inDist)
                | None => (st1, EPanic)
                end = (st', err) ->
                br_wf (rl_b st') /\
                (avail (rl_b st) - avail (rl_b st') <= budget (npos split st))%Z /\
                (err = EEndInput -> (r_len (rl_b st') < 0)%Z)).
      { intros k base Hk Hbase Hkb HL.
        destruct (xbits_av b2 k W2 ltac:(lia)) as (b3 & L3 & W3 & A3).
        rewrite L3 in HL. destruct (next_bits b3 k) as [ret b4] eqn:Enb. cbn [snd] in W3, A3.
        cbn zeta in HL.
        destruct (negb (rl_inDist st1) && (split <? rl_curr st1 + Z.of_N (base + ret))%Z) eqn:Ej.
        - apply (Hcont _ (Z.of_N base)) in HL; [exact HL|exact W3|lia| |cbn [rl_b]; lia|cbn [rl_b]; lia].
          unfold npos at 2. cbn [rl_inDist rl_curr].
          rewrite <- S2. unfold npos. destruct (rl_inDist st1); [discriminate|]. lia.
        - apply (Hcont _ (Z.of_N base)) in HL; [exact HL|exact W3|lia| |cbn [rl_b]; lia|cbn [rl_b]; lia].
          unfold npos at 2. cbn [rl_inDist rl_curr].
          rewrite <- S2. unfold npos. destruct (rl_inDist st1); lia. }
      destruct (sym =? 17) eqn:E17.
      * apply (Hrun 3 3); [lia|lia|lia|exact H].
      * apply (Hrun 7 11); [lia|lia|lia|exact H].
    + (* the loop ends *)
      destruct ((endv <? rl_curr st)%Z || (hc_len (aget (rl_h st) 256) =? 0));
        apply pair_inj in H; destruct H as [<- <-].
      * destruct Herr; discriminate.
      * split; [exact Hwf|]. split; [pose proof (budget_nonneg (npos split st)); lia|].
        intros; discriminate.
Qed.

(* readLitDistLens with its fuel generalised.  Kernel pitfall: never unfold readLitDistLens in
   a hypothesis (at Qed the kernel would compare it with its body by reducing rl_loop on
   small_fuel); unfolding in the goal is harmless, and the instance of this lemma is then
   syntactically the goal. *)
Lemma readLitDistLens_gen : forall fuel s hdist hlit cl,
  br_wf (rd s) -> hlit <= 29 -> hdist <= 29 ->
  clc_tab_ok cl (clcShort (dyn s)) (clcLong (dyn s)) -> Forall (fun y => (y <= 7)%nat) cl ->
  forall s' err,
  (let d := dyn s in
   let endv := Z.of_N (litLen + hdist + 1) in
   let split := Z.of_N (litTableSize + hlit) in
   let st0 := mkRL (rd s) (litAndDistHuff d) (litCount d) (distCount d) (litExpandCount d)
                   0%Z (-1)%Z false in
   let '(st, err) := rl_loop fuel (clcShort d) (clcLong d) split endv st0 in
   (set_rd (set_dyn s (set_dyn_counts d (rl_h st) (rl_lc st) (rl_dc st) (rl_ex st))) (rl_b st), err))
  = (s', err) ->
  err = ENone \/ err = EEndInput ->
  br_wf (rd s') /\ (avail (rd s) - avail (rd s') <= 2219)%Z /\
  (err = EEndInput -> (r_len (rd s') < 0)%Z).
Proof.
  intros fuel s hdist hlit cl Hwf Hl Hd Hok HF s' err H Herr.
  cbn zeta in H.
  match type of H with
  | (let '(st, err) := rl_loop ?f ?cs ?cg ?sp ?en ?st0 in _) = _ =>
    pose proof (rl_loop_av cl cs cg sp en Hok HF ltac:(unfold litTableSize; lia)
                           ltac:(unfold litLen; lia) f st0) as P;
    destruct (rl_loop f cs cg sp en st0) as [st e] eqn:EL
  end.
  apply pair_inj in H. destruct H as [<- <-].
  specialize (P st e Hwf eq_refl Herr). destruct P as (P1 & P2 & P3).
  cbn [rd set_rd]. cbn [rl_b] in P2. unfold npos, budget in P2. cbn [rl_inDist rl_curr] in P2.
  change (316 <=? 0)%Z with false in P2. cbn iota in P2.
  split; [exact P1|]. split; [lia|exact P3].
Qed.

Lemma readLitDistLens_av : forall s hdist hlit cl,
  br_wf (rd s) -> hlit <= 29 -> hdist <= 29 ->
  clc_tab_ok cl (clcShort (dyn s)) (clcLong (dyn s)) -> Forall (fun y => (y <= 7)%nat) cl ->
  forall s' err,
  readLitDistLens s hdist hlit = (s', err) -> err = ENone \/ err = EEndInput ->
  br_wf (rd s') /\ (avail (rd s) - avail (rd s') <= 2219)%Z /\
  (err = EEndInput -> (r_len (rd s') < 0)%Z).
Proof.
  intros s hdist hlit cl Hwf Hl Hd Hok HF.
  unfold readLitDistLens.
  exact (readLitDistLens_gen small_fuel s hdist hlit cl Hwf Hl Hd Hok HF).
Qed.

(* ---------------------------------------------------------------- the table builders never
   report EEndInput (as in EngineRefineGlueNeed.v; copied to keep this file independent) *)
Lemma hb_iterN_inv : forall (S : Type) (P : S -> Prop) (f : N -> S -> S),
  (forall i s, P s -> P (f i s)) -> forall n i s, P s -> P (iterN n i f s).
Proof.
  intros S P f Hf n. induction n as [|n IH]; intros i s Hs; cbn [iterN]; [exact Hs|].
  apply IH. apply Hf. exact Hs.
Qed.

Ltac hb_brk1 :=
  match goal with |- context [match ?x with _ => _ end] => destruct x end.

Lemma hb_gen_small_not_end : forall hdr sh lg codes n count ms,
  snd (gen_small hdr sh lg codes n count ms) <> EEndInput.
Proof.
  intros hdr sh lg codes n count ms. unfold gen_small. cbv zeta.
  hb_brk1; [cbn [snd]; discriminate|].
  hb_brk1. hb_brk1. hb_brk1; [cbn [snd]; discriminate|].
  hb_brk1.
  match goal with |- snd (match forN ?lo ?hi ?F ?init with _ => _ end) <> _ =>
    assert (H : snd (forN lo hi F init) <> EEndInput) end.
  { unfold forN. apply hb_iterN_inv; [|cbn [snd]; discriminate].
    intros i [[[[sh1 lg1] cd1] lcl] pan] Hp. cbn [snd] in Hp.
    repeat hb_brk1; cbn [snd]; first [exact Hp|discriminate]. }
  repeat hb_brk1. cbn [snd] in *. exact H.
Qed.

Lemma hb_setAndExpand_not_end : forall d, snd (setAndExpandLitLenHuffCode d) <> EEndInput.
Proof.
  intros d. unfold setAndExpandLitLenHuffCode. cbv zeta.
  repeat hb_brk1; cbn [snd]; discriminate.
Qed.

Lemma hb_pairs_loop_not_end : forall fuel short d length index1 iend,
  snd (pairs_loop fuel short d length index1 iend) <> EEndInput.
Proof.
  induction fuel as [|f IH]; intros short d length index1 iend; cbn [pairs_loop].
  - cbn [snd]. discriminate.
  - repeat first [apply IH | hb_brk1]; cbn [snd]; discriminate.
Qed.

Lemma hb_encodePairs_not_end : forall short d length minLen,
  snd (encodePairs short d length minLen) <> EEndInput.
Proof. intros. unfold encodePairs. apply hb_pairs_loop_not_end. Qed.

Lemma hb_triples_loop2_not_end : forall fuel short d length sym1 sym1Len sym1Code index2 iend2,
  snd (triples_loop2 fuel short d length sym1 sym1Len sym1Code index2 iend2) <> EEndInput.
Proof.
  induction fuel as [|f IH]; intros short d length sym1 sym1Len sym1Code index2 iend2;
    cbn [triples_loop2].
  - cbn [snd]. discriminate.
  - repeat first [apply IH | hb_brk1]; cbn [snd]; discriminate.
Qed.

Lemma hb_triples_loop1_not_end : forall fuel short d length minLen index1 iend1,
  snd (triples_loop1 fuel short d length minLen index1 iend1) <> EEndInput.
Proof.
  induction fuel as [|f IH]; intros short d length minLen index1 iend1; cbn [triples_loop1].
  - cbn [snd]. discriminate.
  - repeat first
      [ apply IH
      | match goal with
        | |- context [match triples_loop2 ?a ?b ?c ?d ?e ?f ?g ?h ?i with _ => _ end] =>
          pose proof (hb_triples_loop2_not_end a b c d e f g h i);
          destruct (triples_loop2 a b c d e f g h i)
        end
      | hb_brk1 ]; cbn [snd] in *; first [assumption|discriminate].
Qed.

Lemma hb_encodeTriples_not_end : forall short d length minLen,
  snd (encodeTriples short d length minLen) <> EEndInput.
Proof. intros. unfold encodeTriples. apply hb_triples_loop1_not_end. Qed.

Lemma hb_genForLitLen_not_end : forall sh lg d ms, snd (genForLitLen sh lg d ms) <> EEndInput.
Proof.
  intros sh lg d ms. unfold genForLitLen. cbv zeta.
  hb_brk1; [cbn [snd]; discriminate|].
  match goal with |- snd (match forN ?lo ?hi ?F ?init with _ => _ end) <> _ =>
    assert (H : snd (forN lo hi F init) <> EEndInput) end.
  { unfold forN. apply hb_iterN_inv; [|cbn [snd]; discriminate].
    intros i [[t cs] err] Hp. cbn [snd] in Hp.
    repeat match goal with
      | |- context [match encodePairs ?a ?b ?c ?d with _ => _ end] =>
        pose proof (hb_encodePairs_not_end a b c d); destruct (encodePairs a b c d)
      | |- context [match encodeTriples ?a ?b ?c ?d with _ => _ end] =>
        pose proof (hb_encodeTriples_not_end a b c d); destruct (encodeTriples a b c d)
      | |- context [match ?x with _ => _ end] => destruct x
      end; cbn [snd] in *; first [assumption|discriminate]. }
  repeat hb_brk1; cbn [snd] in *; first [assumption|discriminate].
Qed.

(* ---------------------------------------------------------------- setupDynamicHeader *)
Lemma br_wf_nonneg_loaded : forall b k, (k <= r_len b)%Z -> br_loaded k b.
Proof. intros b k H. right. exact H. Qed.

Lemma setupDynamicHeader_av : forall s s',
  br_wf (rd s) -> setupDynamicHeader s = (s', EEndInput) -> (avail (rd s) < 2290)%Z.
Proof.
  intros s s' Hwf H. unfold setupDynamicHeader in H. cbn zeta in H.
  unfold loadBits in H. cbn [rd set_dyn] in H.
  destruct (load_lt57_av (rd s) Hwf) as (b1 & L1 & L2 & L3 & L4 & L5).
  rewrite L1 in H. cbn [rd set_rd] in H.
  destruct (Z.ltb_spec (r_len b1) 14) as [H14|H14].
  { (* not even the 14 bits *)
    destruct L4 as [L4|L4]; [|lia]. rewrite <- L3, (avail_exhausted b1 L4). lia. }
  unfold next_bits in H. cbn [fst snd] in H.
  set (b2 := br_drop b1 5) in *. set (b3 := br_drop b2 5) in *. set (b4 := br_drop b3 4) in *.
  assert (W2 : br_wf b2) by (apply br_drop_wf; [exact L2|right; lia]).
  assert (W3 : br_wf b3).
  { apply br_drop_wf; [exact W2|right; unfold b2; rewrite br_drop_len; lia]. }
  assert (R4 : r_len b4 = (r_len b1 - 14)%Z).
  { unfold b4, b3, b2. rewrite !br_drop_len. lia. }
  assert (W4 : br_wf b4).
  { apply br_drop_wf; [exact W3|right; unfold b3, b2; rewrite !br_drop_len; lia]. }
  assert (A4 : avail b4 = (avail (rd s) - 14)%Z).
  { unfold b4, b3, b2. rewrite !avail_drop. lia. }
  assert (Ld4 : br_loaded 12 b4).
  { destruct L4 as [L4|L4]; [left; exact L4|right; lia]. }
  set (hlit := N.land (r_bits b1) (N.ones 5)) in *.
  set (hdist := N.land (r_bits b2) (N.ones 5)) in *.
  set (hclen := N.land (r_bits b3) (N.ones 4)) in *.
  destruct ((29 <? hlit) || (29 <? hdist) || (15 <? hclen)) eqn:Ebad.
  { apply pair_inj in H. destruct H as [_ H]. discriminate. }
  assert (Hhl : hlit <= 29) by lia. assert (Hhd : hdist <= 29) by lia.
  assert (Hhc : hclen <= 15) by lia.
  match type of H with
  | (let '(s, err) := codeLenCodes ?s0 hclen in _) = _ =>
    pose proof (codeLenCodes_av s0 hclen) as C;
    destruct (codeLenCodes s0 hclen) as [s5 e5] eqn:EC
  end.
  cbn [rd set_rd] in C.
  destruct (C s5 e5 W4 Ld4 Hhc eq_refl) as (C1 & C2 & C3 & C4).
  assert (A5 : (avail (rd s) - avail (rd s5) <= 14 + 57)%Z) by lia.
  destruct e5; try (apply pair_inj in H; destruct H as [_ H]; discriminate).
  2:{ (* codeLenCodes ran out of input *)
      pose proof (avail_neg _ C1 (C3 eq_refl)). lia. }
  destruct (C4 eq_refl) as (cl & HF & Hok).
  destruct (readLitDistLens s5 hdist hlit) as [s6 e6] eqn:ER.
  assert (He6 : e6 = ENone \/ e6 = EEndInput).
  { destruct e6; try (apply pair_inj in H; destruct H as [_ H]; discriminate);
      [left|right]; reflexivity. }
  destruct (readLitDistLens_av s5 hdist hlit cl C1 Hhl Hhd Hok HF s6 e6 ER He6) as (R1 & R2 & R3).
  assert (Hneg : (r_len (rd s6) < 0)%Z).
  { destruct He6 as [-> | ->]; [|apply R3; reflexivity].
    destruct (Z.ltb_spec (r_len (rd s6)) 0) as [Hn|Hn]; [exact Hn|]. exfalso.
    (* the table building never reports EEndInput *)
    clear - H.
    repeat match type of H with
      | context [match gen_small ?a ?b ?c ?d ?e ?f ?g with _ => _ end] =>
        pose proof (hb_gen_small_not_end a b c d e f g); destruct (gen_small a b c d e f g)
      | context [match setAndExpandLitLenHuffCode ?a with _ => _ end] =>
        pose proof (hb_setAndExpand_not_end a); destruct (setAndExpandLitLenHuffCode a)
      | context [match genForLitLen ?a ?b ?c ?d with _ => _ end] =>
        pose proof (hb_genForLitLen_not_end a b c d); destruct (genForLitLen a b c d)
      | context [match ?x with _ => _ end] => destruct x
      end;
      cbn [snd] in *; apply pair_inj in H; destruct H as [_ H];
      first [discriminate | congruence]. }
  pose proof (avail_neg _ R1 Hneg). lia.
Qed.

(* ---------------------------------------------------------------- stored blocks *)
Lemma prepareForLitBlock_av : forall s s',
  br_wf (rd s) -> prepareForLitBlock s = (s', EEndInput) -> (avail (rd s) < 32)%Z.
Proof.
  intros s s' Hwf H. unfold prepareForLitBlock, loadBits in H.
  destruct (load_lt57_av (rd s) Hwf) as (b1 & L1 & L2 & L3 & L4 & L5).
  rewrite L1 in H. cbn [rd set_rd] in H.
  destruct (Z.ltb_spec (r_len b1) 0) as [Hn|Hn].
  { apply pair_inj in H. destruct H as [_ H]. discriminate. }
  cbn zeta in H.
  assert (Hu8 : u8 (Z.to_N (r_len b1) / 8) = Z.to_N (r_len b1) / 8).
  { unfold u8. change 255 with (N.ones 8). rewrite N.land_ones. apply N.mod_small.
    destruct L2 as (_ & W2 & _). change (2 ^ 8) with 256.
    apply N.div_lt_upper_bound; lia. }
  rewrite Hu8 in H.
  destruct (N.ltb_spec (Z.to_N (r_len b1) / 8) 4) as [H4|H4].
  - assert (Hlt : (r_len b1 < 32)%Z).
    { pose proof (N.div_mod (Z.to_N (r_len b1)) 8 ltac:(lia)) as Hdm.
      pose proof (N.mod_lt (Z.to_N (r_len b1)) 8 ltac:(lia)) as Hml. lia. }
    destruct L4 as [L4|L4]; [|lia]. rewrite <- L3, (avail_exhausted b1 L4). exact Hlt.
  - exfalso.
    match type of H with
    | (if ?c then _ else _) = _ => destruct c
    end; [apply pair_inj in H; destruct H as [_ H]; discriminate|].
    match type of H with
    | context [if ?c then _ else _] => destruct c
    end; apply pair_inj in H; destruct H as [_ H]; discriminate.
Qed.

(* ---------------------------------------------------------------- tryDecodeHeader *)
Lemma tryDecodeHeader_av : forall s s',
  br_wf (rd s) -> tryDecodeHeader s = (s', EEndInput) -> (avail (rd s) < 2293)%Z.
Proof.
  intros s s' Hwf H. unfold tryDecodeHeader in H.
  destruct (readBits s 1) as [[bf s1]|] eqn:E1.
  2:{ apply pair_inj in H. destruct H as [_ H]. discriminate. }
  destruct (readBits_av s 1 bf s1 Hwf ltac:(lia) E1) as (W1 & A1 & _).
  cbn zeta in H.
  destruct (readBits (set_bfinal s1 bf) 2) as [[bt s2]|] eqn:E2.
  2:{ apply pair_inj in H. destruct H as [_ H]. discriminate. }
  destruct (readBits_av (set_bfinal s1 bf) 2 bt s2 W1 ltac:(lia) E2) as (W2 & A2 & _).
  cbn [rd set_bfinal] in A2.
  assert (A : avail (rd s) = (avail (rd s2) + 3)%Z) by lia.
  destruct (Z.ltb_spec (r_len (rd s2)) 0) as [Hn|Hn].
  { pose proof (avail_neg _ W2 Hn). lia. }
  destruct (bt =? 0).
  { pose proof (prepareForLitBlock_av s2 s' W2 H). lia. }
  destruct (bt =? 1).
  { apply pair_inj in H. destruct H as [_ H]. discriminate. }
  destruct (bt =? 2).
  { pose proof (setupDynamicHeader_av s2 s' W2 H). lia. }
  apply pair_inj in H. destruct H as [_ H]. discriminate.
Qed.

(* the input was at most 286 bytes *)
Theorem header_bound_286 :
  forall s s', br_wf (rd s) -> (0 <= r_len (rd s))%Z ->
    tryDecodeHeader s = (s', EEndInput) -> r_inlen (rd s) <= 286.
Proof.
  intros s s' Hwf H0 H. pose proof (tryDecodeHeader_av s s' Hwf H) as A.
  rewrite (avail_inlen _ Hwf) in A. lia.
Qed.

Theorem header_bound : header_bound_statement.
Proof.
  intros s s' Hwf H0 H. pose proof (header_bound_286 s s' Hwf H0 H). lia.
Qed.

Print Assumptions header_bound.
Print Assumptions header_bound_286.
