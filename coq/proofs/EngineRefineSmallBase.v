(* EngineRefineSmallBase.v -- shared lemmas for the refinement proofs of the small tables
   (gen_dist / gen_clc of RModel/EngineRefineSpec.v): arrays, forN, machine integers,
   the decomposition of gen_small into its loops, bit reversal. *)
From Coq Require Import List NArith ZArith Bool Lia ZifyBool ZifyNat ZifyN.
From Verif Require Import Bits Huffman Inflate.
From Verif Require Import Base EngineTables Engine EngineRefineSpec.
Import ListNotations.
Open Scope N_scope.

(* ---------------------------------------------------------------- arrays *)
Lemma succ_pos_inj : forall i j, N.succ_pos i = N.succ_pos j -> i = j.
Proof.
  intros i j H. apply N.succ_inj. rewrite <- !N.succ_pos_spec. now rewrite H.
Qed.

Lemma aget_aset : forall a i v j, aget (aset a i v) j = if j =? i then v else aget a j.
Proof.
  intros a i v j. unfold aget, aset. destruct (N.eqb_spec j i) as [Heq|Hne].
  - subst j. now rewrite PositiveMap.gss.
  - rewrite PositiveMap.gso; auto. intro H; apply Hne, succ_pos_inj, H.
Qed.

Lemma aget_aset_same : forall a i v, aget (aset a i v) i = v.
Proof. intros. rewrite aget_aset, N.eqb_refl. reflexivity. Qed.

Lemma aget_aset_other : forall a i v j, j <> i -> aget (aset a i v) j = aget a j.
Proof. intros a i v j H. rewrite aget_aset. destruct (N.eqb_spec j i); [contradiction|reflexivity]. Qed.

Lemma aget_empty : forall j, aget aempty j = 0.
Proof. intros j. unfold aget, aempty. now rewrite PositiveMap.gempty. Qed.

(* ---------------------------------------------------------------- iterN / forN *)
Lemma iterN_ind : forall (St : Type) (P : N -> St -> Prop) (f : N -> St -> St) n i s,
  P i s ->
  (forall j x, i <= j < i + N.of_nat n -> P j x -> P (j + 1) (f j x)) ->
  P (i + N.of_nat n) (iterN n i f s).
Proof.
  intros St P f n. induction n as [|k IH]; intros i s H0 Hstep.
  - cbn [iterN]. replace (i + N.of_nat 0) with i by lia. exact H0.
  - cbn [iterN]. replace (i + N.of_nat (S k)) with ((i + 1) + N.of_nat k) by lia.
    apply IH.
    + apply Hstep; [lia|exact H0].
    + intros j x Hj Hx. apply Hstep; [lia|exact Hx].
Qed.

Lemma forN_ind : forall (St : Type) (P : N -> St -> Prop) (f : N -> St -> St) lo hi s,
  lo <= hi ->
  P lo s ->
  (forall j x, lo <= j < hi -> P j x -> P (j + 1) (f j x)) ->
  P hi (forN lo hi f s).
Proof.
  intros St P f lo hi s Hle H0 Hstep. unfold forN.
  replace hi with (lo + N.of_nat (N.to_nat (hi - lo))) at 1 by lia.
  apply iterN_ind; [exact H0|].
  intros j x Hj Hx. apply Hstep; [lia|exact Hx].
Qed.

Lemma forN_inv : forall (St : Type) (P : St -> Prop) (f : N -> St -> St) lo hi s,
  P s ->
  (forall j x, lo <= j < hi -> P x -> P (f j x)) ->
  P (forN lo hi f s).
Proof.
  intros St P f lo hi s H0 Hstep.
  destruct (N.le_gt_cases lo hi) as [Hle|Hgt].
  - apply (forN_ind St (fun _ x => P x)); auto.
  - unfold forN. replace (hi - lo) with 0 by lia. cbn. exact H0.
Qed.

Lemma forN_empty : forall (St : Type) (f : N -> St -> St) lo hi s, hi <= lo -> forN lo hi f s = s.
Proof. intros St f lo hi s H. unfold forN. replace (hi - lo) with 0 by lia. reflexivity. Qed.

(* zero fill *)
Lemma zero_fill_spec : forall lo hi t x,
  aget (forN lo hi (fun i t => aset t i 0) t) x = if (lo <=? x) && (x <? hi) then 0 else aget t x.
Proof.
  intros lo hi t x.
  destruct (N.le_gt_cases lo hi) as [Hle|Hgt].
  - apply (forN_ind arr (fun j a => aget a x = if (lo <=? x) && (x <? j) then 0 else aget t x)).
    + exact Hle.
    + destruct (lo <=? x) eqn:E1; destruct (x <? lo) eqn:E2; cbn [andb]; try reflexivity. lia.
    + intros j a Hj IH. rewrite aget_aset. destruct (N.eqb_spec x j) as [->|Hne].
      * destruct (lo <=? j) eqn:E1; destruct (j <? j + 1) eqn:E2; cbn [andb]; try reflexivity; lia.
      * rewrite IH.
        destruct (lo <=? x) eqn:E1; cbn [andb]; [|reflexivity].
        destruct (x <? j) eqn:E2; destruct (x <? j + 1) eqn:E3; try reflexivity; lia.
  - rewrite forN_empty by lia.
    destruct (lo <=? x) eqn:E1; destruct (x <? hi) eqn:E2; cbn [andb]; try reflexivity. lia.
Qed.

(* ---------------------------------------------------------------- machine integers *)
Lemma pow2_ne0 : forall k, 2 ^ k <> 0.
Proof. intros k. apply N.pow_nonzero. lia. Qed.

Lemma pow2_gt0 : forall k, 0 < 2 ^ k.
Proof. intros k. pose proof (pow2_ne0 k). lia. Qed.

Lemma pow2_le_mono : forall a b, a <= b -> 2 ^ a <= 2 ^ b.
Proof. intros a b H. apply N.pow_le_mono_r; lia. Qed.

Lemma pow2_lt_mono : forall a b, a < b -> 2 ^ a < 2 ^ b.
Proof. intros a b H. apply N.pow_lt_mono_r; lia. Qed.

Lemma pow2_split : forall a b, a <= b -> 2 ^ b = 2 ^ a * 2 ^ (b - a).
Proof. intros a b H. rewrite <- N.pow_add_r. f_equal. lia. Qed.

Lemma land_ones_lt : forall x k, N.land x (N.ones k) < 2 ^ k.
Proof. intros x k. rewrite N.land_ones. apply N.mod_lt. apply pow2_ne0. Qed.

Lemma u16_small : forall x, x < 65536 -> u16 x = x.
Proof. intros x H. unfold u16. change mask16 with (N.ones 16). rewrite N.land_ones. apply N.mod_small. exact H. Qed.
Lemma u32_small : forall x, x < 4294967296 -> u32 x = x.
Proof. intros x H. unfold u32. change mask32 with (N.ones 32). rewrite N.land_ones. apply N.mod_small. exact H. Qed.
Lemma u8_small : forall x, x < 256 -> u8 x = x.
Proof. intros x H. unfold u8. change 255 with (N.ones 8). rewrite N.land_ones. apply N.mod_small. exact H. Qed.

Lemma shl32_1_small : forall x, x < 2147483648 -> shl32 x 1 = 2 * x.
Proof.
  intros x H. unfold shl32. change (32 <=? 1) with false. cbv iota.
  rewrite N.shiftl_mul_pow2. change (2 ^ 1) with 2. rewrite u32_small by lia. lia.
Qed.

Lemma land_le_r : forall a b, N.land a b <= b.
Proof.
  intros a b. apply N.ldiff_le. apply N.bits_inj. intro n.
  rewrite N.ldiff_spec, N.land_spec, N.bits_0.
  destruct (N.testbit a n), (N.testbit b n); reflexivity.
Qed.

Lemma land_le_l : forall a b, N.land a b <= a.
Proof. intros a b. rewrite N.land_comm. apply land_le_r. Qed.

Lemma lor_lt_pow2 : forall a b k, a < 2 ^ k -> b < 2 ^ k -> N.lor a b < 2 ^ k.
Proof.
  intros a b k Ha Hb.
  destruct (N.eq_dec (N.lor a b) 0) as [H0|H0].
  - rewrite H0. apply pow2_gt0.
  - apply N.log2_lt_pow2; [lia|]. rewrite N.log2_lor.
    assert (Hla : a <> 0 -> N.log2 a < k) by (intro; apply N.log2_lt_pow2; lia).
    assert (Hlb : b <> 0 -> N.log2 b < k) by (intro; apply N.log2_lt_pow2; lia).
    destruct (N.eq_dec a 0) as [Ha0|Ha0]; destruct (N.eq_dec b 0) as [Hb0|Hb0]; subst.
    + rewrite N.lor_0_l in H0. contradiction.
    + change (N.log2 0) with 0. specialize (Hlb Hb0). lia.
    + change (N.log2 0) with 0. specialize (Hla Ha0). lia.
    + specialize (Hla Ha0). specialize (Hlb Hb0). lia.
Qed.

Lemma testbit_small : forall a k n, a < 2 ^ k -> k <= n -> N.testbit a n = false.
Proof.
  intros a k n Ha Hn. destruct (N.eq_dec a 0) as [->|Hz]; [apply N.bits_0|].
  apply N.bits_above_log2. apply N.lt_le_trans with k; [|exact Hn].
  apply N.log2_lt_pow2; lia.
Qed.

Lemma shiftr_lor_shiftl : forall a b k, a < 2 ^ k -> N.shiftr (N.lor a (N.shiftl b k)) k = b.
Proof.
  intros a b k Ha. apply N.bits_inj. intro n.
  rewrite N.shiftr_spec by lia. rewrite N.lor_spec.
  rewrite (testbit_small a k (n + k)) by (auto; lia). cbn [orb].
  rewrite N.shiftl_spec_high by lia. f_equal. lia.
Qed.

Lemma land_ones_lor_shiftl : forall a b k, a < 2 ^ k -> N.land (N.lor a (N.shiftl b k)) (N.ones k) = a.
Proof.
  intros a b k Ha. apply N.bits_inj. intro n.
  rewrite N.land_spec, N.lor_spec.
  destruct (N.lt_ge_cases n k) as [Hlt|Hge].
  - rewrite N.ones_spec_low by exact Hlt. rewrite N.shiftl_spec_low by exact Hlt.
    rewrite orb_false_r, andb_true_r. reflexivity.
  - rewrite N.ones_spec_high by exact Hge. rewrite andb_false_r.
    symmetry. apply (testbit_small a k n); auto.
Qed.

Lemma shiftl_lt_pow2 : forall b k m, b < 2 ^ m -> N.shiftl b k < 2 ^ (m + k).
Proof.
  intros b k m H. rewrite N.shiftl_mul_pow2, N.pow_add_r.
  apply N.mul_lt_mono_pos_r; [|exact H]. apply pow2_gt0.
Qed.

(* ---------------------------------------------------------------- finite checks *)
Fixpoint allb (n : nat) (f : N -> bool) : bool :=
  match n with O => true | S k => f (N.of_nat k) && allb k f end.

Lemma allb_spec : forall n f, allb n f = true -> forall i, i < N.of_nat n -> f i = true.
Proof.
  induction n as [|k IH]; intros f H i Hi.
  - cbn in Hi. lia.
  - cbn [allb] in H. apply andb_prop in H. destruct H as [H1 H2].
    destruct (N.eq_dec i (N.of_nat k)) as [->|Hne]; [exact H1|].
    apply IH; [exact H2|lia].
Qed.

Lemma allb2_spec : forall n m (f : N -> N -> bool),
  allb n (fun a => allb m (fun b => f a b)) = true ->
  forall a b, a < N.of_nat n -> b < N.of_nat m -> f a b = true.
Proof.
  intros n m f H a b Ha Hb.
  pose proof (allb_spec n _ H a Ha) as H1. cbv beta in H1.
  exact (allb_spec m _ H1 b Hb).
Qed.

(* ---------------------------------------------------------------- huffCode fields *)
Lemma hc_set_len : forall code len, code < 16777216 -> len < 256 -> hc_len (hc_set code len) = len.
Proof.
  intros code len Hc Hl. unfold hc_set, hc_len.
  rewrite u32_small.
  - apply shiftr_lor_shiftl. change (2 ^ 24) with 16777216. exact Hc.
  - change 4294967296 with (2 ^ 32). apply lor_lt_pow2.
    + change (2 ^ 32) with 4294967296. lia.
    + change 32 with (8 + 24). apply shiftl_lt_pow2. change (2 ^ 8) with 256. exact Hl.
Qed.

Lemma hc_set_code : forall code len, code < 16777216 -> len < 256 -> hc_code (hc_set code len) = code.
Proof.
  intros code len Hc Hl. unfold hc_set, hc_code.
  rewrite u32_small.
  - change 16777215 with (N.ones 24). apply land_ones_lor_shiftl.
    change (2 ^ 24) with 16777216. exact Hc.
  - change 4294967296 with (2 ^ 32). apply lor_lt_pow2.
    + change (2 ^ 32) with 4294967296. lia.
    + change 32 with (8 + 24). apply shiftl_lt_pow2. change (2 ^ 8) with 256. exact Hl.
Qed.

Lemma hc_set_0_0 : hc_set 0 0 = 0.
Proof. reflexivity. Qed.

Lemma hc_setcode_len : forall h c, h < 4294967296 -> hc_len (hc_setcode h c) = hc_len h.
Proof.
  intros h c Hh. unfold hc_setcode, hc_len. apply N.bits_inj. intro n.
  rewrite !N.shiftr_spec by lia. rewrite N.lor_spec, !N.land_spec.
  change 4278190080 with (N.shiftl (N.ones 8) 24).
  change 16777215 with (N.ones 24).
  rewrite (N.ones_spec_high 24 (n + 24)) by lia. rewrite andb_false_r, orb_false_r.
  rewrite N.shiftl_spec_high by lia.
  replace (n + 24 - 24) with n by lia.
  destruct (N.lt_ge_cases n 8) as [Hlt|Hge].
  - rewrite N.ones_spec_low by exact Hlt. apply andb_true_r.
  - rewrite N.ones_spec_high by exact Hge. rewrite andb_false_r.
    symmetry. apply (testbit_small h 32); [exact Hh|lia].
Qed.

Lemma hc_setcode_code : forall h c, c < 16777216 -> hc_code (hc_setcode h c) = c.
Proof.
  intros h c Hc. unfold hc_setcode, hc_code. apply N.bits_inj. intro n.
  rewrite N.land_spec, N.lor_spec, !N.land_spec.
  change 4278190080 with (N.shiftl (N.ones 8) 24).
  change 16777215 with (N.ones 24).
  destruct (N.lt_ge_cases n 24) as [Hlt|Hge].
  - rewrite N.ones_spec_low by exact Hlt. rewrite N.shiftl_spec_low by exact Hlt.
    rewrite !andb_true_r, andb_false_r. reflexivity.
  - rewrite N.ones_spec_high by exact Hge. rewrite !andb_false_r.
    symmetry. apply (testbit_small c 24); [exact Hc|exact Hge].
Qed.

Lemma hc_setcode_idem : forall h c, hc_setcode (hc_setcode h c) c = hc_setcode h c.
Proof.
  intros h c. unfold hc_setcode. apply N.bits_inj. intro n.
  rewrite !N.lor_spec, !N.land_spec, !N.lor_spec, !N.land_spec.
  change 4278190080 with (N.shiftl (N.ones 8) 24).
  change 16777215 with (N.ones 24).
  destruct (N.lt_ge_cases n 24) as [Hlt|Hge].
  - rewrite N.ones_spec_low by exact Hlt. rewrite N.shiftl_spec_low by exact Hlt.
    rewrite !andb_true_r, !andb_false_r. reflexivity.
  - rewrite (N.ones_spec_high 24) by exact Hge. rewrite !andb_false_r, !orb_false_r.
    destruct (N.testbit h n); destruct (N.testbit (N.shiftl (N.ones 8) 24) n); reflexivity.
Qed.

(* ---------------------------------------------------------------- gen_small, decomposed *)
Definition gs_ct (count : arr) : arr :=
  forN 2 17 (fun i c => aset c i (u32 (aget c (i - 1) + aget count (i - 1)))) aempty.

Definition gs_sort (codes : arr) (ncodes : N) (ct : arr) : arr * arr * bool :=
  forN 0 ncodes (fun i (st : arr * arr * bool) =>
    let '(cl, ctt, pan) := st in
    let codeLength := hc_len (aget codes i) in
    if codeLength =? 0 then st
    else
      let ins := aget ctt codeLength in
      if 32 <=? ins then (cl, ctt, true)
      else (aset cl ins i, aset ctt codeLength (ins + 1), pan))
    (aempty, ct, false).

Definition gs_wr (hdr : bool) (codes cl : arr) (maxSymbol : N) (k : N) (t : arr) : arr :=
  let idx := aget cl k in
  let h := aget codes idx in
  if maxSymbol <=? idx then
    (if hdr then t else aset t (hc_code h) (u16 (hc_len h)))
  else if hdr then
    aset t (hc_code h) (u16 (N.lor idx (N.shiftl (hc_len h) 11)))
  else
    aset t (hc_code h)
         (u16 (N.lor (N.lor idx (N.shiftl (aget rfc_dist_extra idx) 5))
                     (N.shiftl (hc_len h) 11))).

Definition gs_short_step (hdr : bool) (codes cl ct : arr) (maxSymbol : N) (ll : N) (st : arr * N)
  : arr * N :=
  let '(t, cs) := st in
  let t := forN 0 (N.min cs (1024 - cs)) (fun i t => aset t (cs + i) (aget t i)) t in
  let t := forN (aget ct ll) (aget ct (ll + 1)) (gs_wr hdr codes cl maxSymbol) t in
  (t, cs * 2).

Definition gs_short (hdr : bool) (short codes cl ct : arr) (maxSymbol lastLength copySize : N)
  : arr * N :=
  forN lastLength 11 (gs_short_step hdr codes cl ct maxSymbol) (short, copySize).

Definition gs_group (hdr : bool) (cl codes : arr) (longCodeStart longCodeLength i firstBits : N)
           (init : N * list N) : N * list N :=
  forN (i + 1) longCodeLength (fun j (a : N * list N) =>
    let '(ml, tl) := a in
    let lj := aget cl (longCodeStart + j) in
    if N.land (hc_code (aget codes lj)) 1023 =? firstBits then
      let lenj := hc_len (aget codes lj) in
      ((if hdr then (if ml <? lenj then lenj else ml) else lenj), lj :: tl)
    else a) init.

Definition gs_fill (fuel : nat) (hdr : bool) (maxSymbol lcl grp : N) (a : arr * arr * bool) (sym : N)
  : arr * arr * bool :=
  let '(long, codes, pan) := a in
  let codeLength := hc_len (aget codes sym) in
  let longBits := u16 (N.shiftr (hc_code (aget codes sym)) 10) in
  let minInc := shl16 1 (codeLength - 10) in
  let entry :=
    if hdr then u16 (N.lor sym (N.shiftl codeLength 10))
    else if maxSymbol <? sym then u16 codeLength
    else u16 (N.lor (N.lor sym (N.shiftl (aget rfc_dist_extra sym) 5))
                    (N.shiftl codeLength 10)) in
  let '(long, pan) := long_fill fuel 80 mask16 long lcl longBits grp minInc entry pan in
  (long, aset codes sym (hc_setcode (aget codes sym) 0xFFFF), pan).

Definition gs_long_step (fuel : nat) (hdr : bool) (cl : arr) (maxSymbol longCodeStart longCodeLength : N)
           (i : N) (st : arr * arr * arr * N * ierr) : arr * arr * arr * N * ierr :=
  let '(short, long, codes, lcl, pan) := st in
  if negb (ierr_eqb pan ENone) then st
  else if 32 <=? longCodeStart + i then (short, long, codes, lcl, EPanic)
  else
    let li := aget cl (longCodeStart + i) in
    if hc_code (aget codes li) =? 0xFFFF then st
    else
      let maxLength0 := hc_len (aget codes li) in
      let firstBits := N.land (hc_code (aget codes li)) 1023 in
      let '(maxLength, tempRev) :=
        gs_group hdr cl codes longCodeStart longCodeLength i firstBits (maxLength0, [li]) in
      let temp := frev tempRev in
      let grp := N.shiftl 1 (maxLength - 10) in
      let clrEnd := lcl + (if hdr then 2 * grp else grp) in
      if negb hdr && (80 <? lcl + grp) then (short, long, codes, lcl, EInvalidBlock)
      else if 80 <? clrEnd then (short, long, codes, lcl, EPanic)
      else
        let long := forN lcl clrEnd (fun x t => aset t x 0) long in
        let '(long, codes, panb) :=
          fold_left (gs_fill fuel hdr maxSymbol lcl grp) temp (long, codes, false) in
        let short := aset short firstBits
                       (u16 (N.lor (N.lor lcl (N.shiftl maxLength 11)) smallFlagBit)) in
        (short, long, codes, lcl + grp, if panb then EPanic else ENone).

Definition gs_long (fuel : nat) (hdr : bool) (short long codes cl : arr) (maxSymbol longCodeStart longCodeLength : N)
  : arr * arr * arr * N * ierr :=
  forN 0 longCodeLength (gs_long_step fuel hdr cl maxSymbol longCodeStart longCodeLength)
       (short, long, codes, 0, ENone).

Lemma gen_small_eq : forall hdr short long codes ncodes count maxSymbol,
  gen_small hdr short long codes ncodes count maxSymbol =
  let ct := gs_ct count in
  let codeListLen := aget ct 16 in
  if codeListLen =? 0 then (aempty, long, codes, ENone)
  else
    let '(cl, _, pan0) := gs_sort codes ncodes ct in
    if pan0 then (short, long, codes, EPanic)
    else
      let lastLength0 := hc_len (aget codes (aget cl 0)) in
      let lastLength := if 10 <? lastLength0 then 11 else lastLength0 in
      let copySize := if lastLength =? 0 then 0 else N.shiftl 1 (lastLength - 1) in
      let short := forN 0 copySize (fun i t => aset t i 0) short in
      let '(short, _) := gs_short hdr short codes cl ct maxSymbol lastLength copySize in
      let longCodeStart := aget ct 11 in
      let longCodeLength := sub32 codeListLen longCodeStart in
      let '(short, long, codes, _, pan) :=
        gs_long small_fuel hdr short long codes cl maxSymbol longCodeStart longCodeLength in
      (short, long, codes, pan).
Proof.
  intros. cbv beta delta [gen_small gs_ct gs_sort gs_short gs_short_step gs_long gs_long_step gs_group gs_fill gs_wr].
  reflexivity.
Qed.
