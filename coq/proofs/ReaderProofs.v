(* ReaderProofs.v — theorems about the reader model (RModel/Reader.v).  They rest on the
   prefix-monotonicity of the reference inflater (Spec/InflateSpec.v), taken here as an explicit
   premise `inflate_mono_statement`; props/*.v instantiate it with the proved theorem. *)
From Coq Require Import Lia.
From Verif Require Import Reader.
Open Scope N_scope.

Section WithMono.
  Hypothesis mono : inflate_mono_statement.
  Hypothesis nofuel : inflate_never_fuel_statement.

  Lemma done_stable dict s t : status (inflate dict s) = Done -> inflate dict (s ++ t) = inflate dict s.
  Proof. intros H. pose proof (mono dict s t) as M. cbv zeta in M. rewrite H in M. exact M. Qed.

  Lemma corrupt_stable dict s t : status (inflate dict s) = Corrupt ->
    status (inflate dict (s ++ t)) = Corrupt /\ out (inflate dict (s ++ t)) = out (inflate dict s)
    /\ bitpos (inflate dict (s ++ t)) = bitpos (inflate dict s).
  Proof. intros H. pose proof (mono dict s t) as M. cbv zeta in M. rewrite H in M. exact M. Qed.

  Lemma need_prefix dict s t : status (inflate dict s) = NeedInput ->
    is_prefix (out (inflate dict s)) (out (inflate dict (s ++ t))).
  Proof. intros H. pose proof (mono dict s t) as M. cbv zeta in M. rewrite H in M. tauto. Qed.

  (* output only ever grows with more input, whatever the status *)
  Lemma out_monotone dict s t : is_prefix (out (inflate dict s)) (out (inflate dict (s ++ t))).
  Proof.
    destruct (status (inflate dict s)) eqn:E.
    - rewrite (done_stable dict s t E). exists []. now rewrite app_nil_r.
    - now apply need_prefix.
    - destruct (corrupt_stable dict s t E) as (_ & Ho & _). rewrite Ho. exists []. now rewrite app_nil_r.
    - exfalso. exact (nofuel dict s E).
  Qed.

  (* ---- the master lemma: the run is a function of the concatenated source content ---- *)
  Lemma rrun_from_spec dict chunks : forall received term used,
    let o := rrun_from dict received chunks term used in
    (rbytes o, rerror o) = final_obs dict (received ++ concat chunks) term.
  Proof.
    induction chunks as [|c cs IH]; intros received term used; cbn zeta.
    - cbn [concat]. rewrite app_nil_r. cbn [rrun_from]. unfold verdict, final_obs.
      destruct (status (inflate dict received)) eqn:E; reflexivity.
    - cbn [rrun_from concat]. unfold verdict.
      destruct (status (inflate dict received)) eqn:E.
      + cbn [rbytes rerror]. unfold final_obs.
        rewrite (done_stable dict received (c ++ concat cs) E). rewrite E. reflexivity.
      + specialize (IH (received ++ c) term (S used)). cbn zeta in IH.
        rewrite <- app_assoc in IH. exact IH.
      + cbn [rbytes rerror]. unfold final_obs.
        destruct (corrupt_stable dict received (c ++ concat cs) E) as (Hs & Ho & _).
        rewrite Hs, Ho. reflexivity.
      + exfalso. exact (nofuel dict received E).
  Qed.

  Theorem rrun_spec dict chunks term :
    (rbytes (rrun dict chunks term), rerror (rrun dict chunks term)) = final_obs dict (concat chunks) term.
  Proof. unfold rrun. exact (rrun_from_spec dict chunks [] term 0). Qed.

  (* ---- C04: independence from the delivery schedule (valid, truncated or malformed) ---- *)
  Theorem schedule_independent dict chunks1 chunks2 term :
    concat chunks1 = concat chunks2 ->
    rbytes (rrun dict chunks1 term) = rbytes (rrun dict chunks2 term) /\
    rerror (rrun dict chunks1 term) = rerror (rrun dict chunks2 term).
  Proof.
    intros H. pose proof (rrun_spec dict chunks1 term) as A. pose proof (rrun_spec dict chunks2 term) as B.
    rewrite H in A. rewrite <- B in A. injection A as X Y. split; assumption.
  Qed.

  (* Read buffer sizes only cut the same bytes into pieces *)
  Lemma split_reads_concat : forall sizes l, concat (split_reads l sizes) = l.
  Proof.
    induction sizes as [|n r IH]; intros l; cbn [split_reads concat].
    - now rewrite app_nil_r.
    - destruct l as [|x l']; [reflexivity|]. cbn [concat]. rewrite IH. apply firstn_skipn.
  Qed.

  (* ---- C02: a complete stream (followed by anything) is decoded exactly, then EOF ---- *)
  Theorem valid_stream_decoded dict s suffix chunks term :
    status (inflate dict s) = Done -> concat chunks = s ++ suffix ->
    rbytes (rrun dict chunks term) = out (inflate dict s) /\ rerror (rrun dict chunks term) = REOF.
  Proof.
    intros Hd Hc. pose proof (rrun_spec dict chunks term) as A. rewrite Hc in A. unfold final_obs in A.
    rewrite (done_stable dict s suffix Hd) in A. rewrite Hd in A. inversion A. split; reflexivity.
  Qed.

  (* ---- C03: EOF only for a complete stream; bytes are always a prefix of the reference output;
     a cut valid stream gives UnexpectedEOF; corrupt input gives Corrupt ---- *)
  Theorem eof_only_if_complete dict chunks term :
    rerror (rrun dict chunks term) = REOF ->
    status (inflate dict (concat chunks)) = Done /\ rbytes (rrun dict chunks term) = out (inflate dict (concat chunks)).
  Proof.
    intros He. pose proof (rrun_spec dict chunks term) as A. unfold final_obs in A.
    destruct (status (inflate dict (concat chunks))) eqn:E; inversion A as [[Hb Hr]]; rewrite He in Hr; try discriminate.
    - split; reflexivity.
    - destruct term; discriminate.
  Qed.

  Theorem bytes_are_reference_prefix dict chunks term more :
    is_prefix (rbytes (rrun dict chunks term)) (out (inflate dict (concat chunks ++ more))).
  Proof.
    pose proof (rrun_spec dict chunks term) as A. unfold final_obs in A.
    assert (rbytes (rrun dict chunks term) = out (inflate dict (concat chunks))) as ->.
    { destruct (status (inflate dict (concat chunks))); inversion A; reflexivity. }
    apply out_monotone.
  Qed.

  Theorem truncated_is_unexpected_eof dict s rest chunks :
    status (inflate dict (s ++ rest)) = Done -> status (inflate dict s) = NeedInput ->
    concat chunks = s -> rerror (rrun dict chunks TEOF) = RUnexpectedEOF.
  Proof.
    intros _ Hn Hc. pose proof (rrun_spec dict chunks TEOF) as A. rewrite Hc in A. unfold final_obs in A.
    rewrite Hn in A. inversion A. reflexivity.
  Qed.

  (* ---- C15: a source error before the end of the stream is reported as exactly that error ---- *)
  Theorem source_error_reported dict chunks e :
    status (inflate dict (concat chunks)) = NeedInput ->
    rerror (rrun dict chunks (TErr e)) = RSrc e /\
    is_prefix (rbytes (rrun dict chunks (TErr e))) (out (inflate dict (concat chunks))).
  Proof.
    intros Hn. pose proof (rrun_spec dict chunks (TErr e)) as A. unfold final_obs in A. rewrite Hn in A.
    inversion A as [[Hb Hr]]. split; [reflexivity|]. exists []. now rewrite app_nil_r.
  Qed.

  (* the source's terminal behaviour is irrelevant once the stream is complete or corrupt (C11,
     C15: "or to stay error-free afterwards") *)
  Theorem terminal_irrelevant_when_decided dict chunks t1 t2 :
    status (inflate dict (concat chunks)) <> NeedInput ->
    rbytes (rrun dict chunks t1) = rbytes (rrun dict chunks t2) /\
    rerror (rrun dict chunks t1) = rerror (rrun dict chunks t2).
  Proof.
    intros Hn. pose proof (rrun_spec dict chunks t1) as A. pose proof (rrun_spec dict chunks t2) as B.
    unfold final_obs in A, B. destruct (status (inflate dict (concat chunks))); try congruence;
      inversion A; inversion B; split; congruence.
  Qed.

  (* ---- C05 / C11: consumption and the number of deliveries needed ---- *)
  Lemma rrun_from_done dict chunks : forall received term used k,
    status (inflate dict (received ++ concat (firstn k chunks))) = Done ->
    let o := rrun_from dict received chunks term used in
    rconsumed o = (bitpos (inflate dict (received ++ concat chunks)) + 7) / 8 /\
    (rused o <= used + k)%nat.
  Proof.
    induction chunks as [|c cs IH]; intros received term used k Hd; cbn zeta.
    - rewrite firstn_nil in Hd. cbn [concat] in *. rewrite app_nil_r in *. cbn [rrun_from]. unfold verdict.
      rewrite Hd. cbn [rconsumed rused]. split; [reflexivity|lia].
    - cbn [rrun_from]. unfold verdict. destruct (status (inflate dict received)) eqn:E.
      + cbn [rconsumed rused]. rewrite (done_stable dict received _ E). split; [reflexivity|lia].
      + destruct k as [|k'].
        * cbn [firstn concat] in Hd. rewrite app_nil_r in Hd. congruence.
        * cbn [firstn concat] in Hd. rewrite app_assoc in Hd.
          destruct (IH (received ++ c) term (S used) k' Hd) as [A B]. cbn zeta in A, B.
          cbn [concat]. rewrite app_assoc. split; [exact A|lia].
      + exfalso. destruct (corrupt_stable dict received (concat (firstn k (c :: cs))) E) as (Hs & _). congruence.
      + exfalso. exact (nofuel dict received E).
  Qed.

  (* once the deliveries so far contain a complete stream, the run ends without asking the
     source again, having consumed exactly the bytes of the stream *)
  Theorem complete_stream_needs_no_more_input dict chunks term k :
    status (inflate dict (concat (firstn k chunks))) = Done ->
    (rused (rrun dict chunks term) <= k)%nat /\
    rconsumed (rrun dict chunks term) = (bitpos (inflate dict (concat (firstn k chunks))) + 7) / 8.
  Proof.
    intros Hd. destruct (rrun_from_done dict chunks [] term 0%nat k Hd) as [A B]. cbn zeta in A, B.
    unfold rrun. split; [exact B|]. rewrite A. cbn [app].
    rewrite <- (firstn_skipn k chunks) at 1. rewrite concat_app. now rewrite (done_stable dict _ _ Hd).
  Qed.

  (* the bytes available after k deliveries do not depend on later deliveries, and contain
     everything the reference inflater decodes from them *)
  Theorem delivered_prefix_is_decoded dict chunks k :
    is_prefix (out (inflate dict (concat (firstn k chunks)))) (out (inflate dict (concat chunks))).
  Proof.
    rewrite <- (firstn_skipn k chunks) at 2. rewrite concat_app. apply out_monotone.
  Qed.

  (* ---- C13: Reset gives the initial state whatever happened before ---- *)
  Theorem reset_is_new (s : rstate) : rs_reset s = rs_init.
  Proof. reflexivity. Qed.
End WithMono.
