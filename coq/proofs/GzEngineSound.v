(* GzEngineSound.v -- the gzip reader model (RModel/GzEngine.v) against Containers.gz_read:
   gz_sound_statement (GzEngineSpec.v, section (a)) from the intermediate layers, and
   gz_header_fields_statement from the readHeader layer.

   Plan: an invariant GI of the gzreader between Reads (while z.err = nil), preserved by one
   Read (gzRead_loop, any fuel), then the run gz_reads_g with error stickiness, then gzrun. *)
From Coq Require Import List NArith ZArith Bool Lia ZifyBool ZifyNat ZifyN.
From Verif Require Import Bits Huffman Inflate InflateSpec.
From Verif Require Import Containers ContainersSpec.
From Verif Require Import Base Engine EngineReset EngineRefineSpecBuf EngineRefineSpecReach
     EngineRefineSpecTop EngineRefineSpecFinal EngineRefineRun GzEngine GzEngineSpec
     EngineRefineBuf.
Import ListNotations.
Open Scope N_scope.

(* ================================================================ lists, prefixes *)
Lemma gfrev_rev : forall (A : Type) (l : list A), frev l = rev l.
Proof. intros A l. unfold frev. rewrite rev_append_rev. apply app_nil_r. Qed.

Lemma is_prefix_refl : forall (A : Type) (a : list A), is_prefix a a.
Proof. intros A a. exists []. symmetry. apply app_nil_r. Qed.

Lemma is_prefix_app_l : forall (A : Type) (a b c : list A), is_prefix b c -> is_prefix (a ++ b) (a ++ c).
Proof. intros A a b c [u ->]. exists u. apply app_assoc. Qed.

Lemma is_prefix_app_r : forall (A : Type) (a b : list A), is_prefix a (a ++ b).
Proof. intros A a b. exists b. reflexivity. Qed.

Lemma skipn_app_len : forall (A : Type) (D : list A) l k,
  skipn (length D + k) (D ++ l) = skipn k l.
Proof. intros A D l k. induction D as [|x D IH]; [reflexivity|]. cbn [length app Nat.add skipn]. exact IH. Qed.

Lemma len8 : forall (l : list N), length l = 8%nat ->
  exists a b c d e f g h, l = [a; b; c; d; e; f; g; h].
Proof.
  intros l H.
  destruct l as [|a [|b [|c [|d [|e [|f [|g [|h [|i l]]]]]]]]]; try discriminate H.
  exists a, b, c, d, e, f, g, h. reflexivity.
Qed.

Lemma crc32_nil : crc32 [] = 0.
Proof. reflexivity. Qed.

(* ================================================================ the specification side *)
Lemma gz_read_body_out : forall l, fst (fst (gz_read_body l)) = out (Inflate.inflate [] l).
Proof.
  intros l. unfold gz_read_body. cbv zeta.
  destruct (status (Inflate.inflate [] l)); try reflexivity.
  destruct (_ <? _)%nat; [reflexivity|].
  destruct (_ && _); reflexivity.
Qed.

Lemma gz_members_acc_prefix : forall f m l acc hs,
  is_prefix acc (g_payload (gz_members f m l acc hs)).
Proof.
  induction f as [|f IH]; intros m l acc hs.
  - cbn [gz_members g_payload]. apply is_prefix_refl.
  - cbn [gz_members]. destruct (gz_read_body l) as [[pl e] rest].
    destruct e as [err|].
    + cbn [g_payload]. apply is_prefix_app_r.
    + destruct (negb m).
      * cbn [g_payload]. apply is_prefix_app_r.
      * destruct (gz_parse_header rest) as [h rest'|err].
        -- eapply is_prefix_trans; [apply is_prefix_app_r|apply IH].
        -- destruct err; cbn [g_payload]; apply is_prefix_app_r.
Qed.

Lemma gz_members_out_prefix : forall f m l acc hs,
  is_prefix (acc ++ out (Inflate.inflate [] l)) (g_payload (gz_members (S f) m l acc hs)).
Proof.
  intros f m l acc hs. rewrite <- gz_read_body_out. cbn [gz_members].
  destruct (gz_read_body l) as [[pl e] rest]. cbn [fst].
  destruct e as [err|].
  - cbn [g_payload]. apply is_prefix_refl.
  - destruct (negb m).
    + cbn [g_payload]. apply is_prefix_refl.
    + destruct (gz_parse_header rest) as [h rest'|err].
      * apply gz_members_acc_prefix.
      * destruct err; cbn [g_payload]; apply is_prefix_refl.
Qed.

Lemma gz_members_ctor : forall f m l acc hs, g_at_ctor (gz_members f m l acc hs) = false.
Proof.
  induction f as [|f IH]; intros m l acc hs.
  - reflexivity.
  - cbn [gz_members]. destruct (gz_read_body l) as [[pl e] rest].
    destruct e as [err|]; [reflexivity|].
    destruct (negb m); [reflexivity|].
    destruct (gz_parse_header rest) as [h rest'|err]; [apply IH|].
    destruct err; reflexivity.
Qed.

(* the Done branch of gz_read_body with a complete, matching trailer *)
Lemma gz_read_body_done : forall l rest,
  status (Inflate.inflate [] l) = Done ->
  rest = skipn (N.to_nat ((bitpos (Inflate.inflate [] l) + 7) / 8)) l ->
  (length rest <? 8)%nat = false ->
  (of_le (firstn 4 rest) =? crc32 (out (Inflate.inflate [] l))) &&
  (of_le (firstn 4 (skipn 4 rest)) =? N.of_nat (length (out (Inflate.inflate [] l))) mod 4294967296) = true ->
  gz_read_body l = (out (Inflate.inflate [] l), None, skipn 8 rest).
Proof.
  intros l rest Hst Hrest Hlen Hok. unfold gz_read_body. cbv zeta.
  rewrite Hst, <- Hrest, Hlen, Hok. reflexivity.
Qed.

(* ================================================================ the stream invariant *)
Lemma strm_inv_step : forall data b b' used,
  strm_inv data b -> buf_ok b' -> bstream b = used ++ bstream b' ->
  consumed b' = consumed b + lenN used -> strm_inv data b'.
Proof.
  intros data b b' used (_ & D & HD & HC) Hok Hs Hc. split; [exact Hok|].
  exists (D ++ used). split.
  - rewrite HD, Hs. apply app_assoc.
  - rewrite Hc, HC, app_length. unfold lenN. lia.
Qed.

Lemma strm_bytes_ok : forall data b, bytes_ok data -> strm_inv data b -> bytes_ok (bstream b).
Proof.
  intros data b Hd (_ & D & HD & _). unfold bytes_ok in *. rewrite HD in Hd.
  apply Forall_app in Hd. exact (proj2 Hd).
Qed.

Lemma strm_rest : forall data b D0 l n,
  strm_inv data b -> data = D0 ++ l -> consumed b = lenN D0 + n ->
  bstream b = skipn (N.to_nat n) l.
Proof.
  intros data b D0 l n (_ & D & HD & HC) H0 Hc.
  assert (HL : length D = (length D0 + N.to_nat n)%nat) by (unfold lenN in Hc; lia).
  assert (E : skipn (length D) (D ++ bstream b) = bstream b).
  { rewrite skipn_app, skipn_all, Nat.sub_diag. reflexivity. }
  rewrite <- E, <- HD, H0, HL. apply skipn_app_len.
Qed.

(* ================================================================ one Read, restructured *)
(* the Reader after "n, z.err = z.decompressor.Read(p); z.digest = ...; z.size += uint32(n)" *)
Definition gz_upd (z : gzreader) (d : decompressor) (bytes : list N) (r : rres) : gzreader :=
  let z := gz_set_err (gz_set_dec (gz_set_r z (rBuf d)) (Some d)) (GR r) in
  let z := gz_set_digest z (crc32_update (z_digest z) bytes) in
  gz_set_size z (u32 (z_size z + lenN bytes)).

(* what Read does once the decompressor has returned io.EOF; rec = "go round the for loop" *)
Definition gz_eof_tail (rec : gzreader -> gzreader * list N * gres) (z : gzreader) (bytes : list N)
  : gzreader * list N * gres :=
  let '(buf, e, b) := ioReadFull (z_r z) 8 in
  let z := gz_set_r z b in
  match e with
  | ROk =>
    let digest := of_le (firstn 4 buf) in
    let size := of_le (skipn 4 buf) in
    if negb (digest =? z_digest z) || negb (size =? z_size z)
    then (gz_set_err z GzErrChecksum, bytes, GzErrChecksum)
    else
      let z := gz_set_size (gz_set_digest z 0) 0 in
      if negb (z_multistream z) then (z, bytes, GR REOF)
      else
        let z := gz_set_err z (GR ROk) in
        let '(z, _, e) := gzReadHeader z in
        let z := gz_set_err z e in
        if negb (gnil e) then (z, bytes, e)
        else
          match bytes with
          | [] => rec z
          | _ => (z, bytes, GR ROk)
          end
  | _ => let e' := noEOF (GR e) in (gz_set_err z e', bytes, e')
  end.

Lemma gzRead_loop_S : forall k z p,
  gzRead_loop (S k) z p =
  match z_dec z with
  | None => (gz_set_err z (GR RPanic), [], GR RPanic)
  | Some d =>
    let '(d1, bytes, r) := dRead (set_rBuf d (z_r z)) p in
    match r with
    | REOF => gz_eof_tail (fun z1 => gzRead_loop k z1 p) (gz_upd z d1 bytes r) bytes
    | _ => (gz_upd z d1 bytes r, bytes, GR r)
    end
  end.
Proof.
  intros k z p. unfold gz_eof_tail, gz_upd. cbn [gzRead_loop].
  destruct (z_dec z); [|reflexivity].
  destruct (dRead (set_rBuf d (z_r z)) p) as [[d1 bytes] r].
  destruct r; reflexivity.
Qed.

Lemma gz_upd_fields : forall z d bytes r,
  z_r (gz_upd z d bytes r) = rBuf d /\ z_dec (gz_upd z d bytes r) = Some d /\
  z_multistream (gz_upd z d bytes r) = z_multistream z /\
  z_digest (gz_upd z d bytes r) = crc32_update (z_digest z) bytes /\
  z_size (gz_upd z d bytes r) = u32 (z_size z + lenN bytes) /\
  z_err (gz_upd z d bytes r) = GR r.
Proof. intros [hd rb dec dg sz er ms] d bytes r. repeat split; reflexivity. Qed.

Lemma gnil_true : forall e, gnil e = true -> e = GR ROk.
Proof. intros e H. destruct e as [r| | | | |]; try discriminate H. destruct r; try discriminate H. reflexivity. Qed.

(* ================================================================ the invariant and one Read *)
Section Sound.
Variable data : list N.
Variable multi : bool.
Hypothesis Hdata : bytes_ok data.
Hypothesis HRF : ioReadFull_spec_statement.
Hypothesis Hcrc : crc32_update_app_statement.
Hypothesis Hu32 : u32_add_statement.
Hypothesis Hhdr : gzReadHeader_spec_statement.
Hypothesis Hreset : dReset_inv_statement.
Hypothesis HdR : gz_dRead_ok_statement.
Hypothesis Hstrm : dRead_strm_statement.

Local Notation R := (gz_read multi data).

(* z between two Reads, z.err = nil; T = the bytes handed out so far.  l: the source from where
   the current member's deflate stream starts (D0 before it); acc: the payloads of the members
   already finished; dl: what the current member has delivered *)
Definition GI (z : gzreader) (T : list N) : Prop :=
  exists l acc hs fuel dl d D0,
    z_err z = GR ROk /\ strm_inv data (z_r z) /\ z_dec z = Some d /\ z_multistream z = multi /\
    data = D0 ++ l /\
    gz_eng_inv (lenN D0) l dl (set_rBuf d (z_r z)) /\
    is_prefix dl (out (Inflate.inflate [] l)) /\
    T = acc ++ dl /\ z_digest z = crc32 dl /\ z_size z = lenN dl mod 4294967296 /\
    gz_read multi data = gz_members fuel multi l acc hs /\ (length l < fuel)%nat.

Definition rd_post (T : list N) (res : gzreader * list N * gres) : Prop :=
  let '(z', bytes, e) := res in
  is_prefix (T ++ bytes) (g_payload R) /\
  (e = GR ROk -> GI z' (T ++ bytes)) /\
  (e = GR REOF -> g_err R = CEOF /\ T ++ bytes = g_payload R).

Lemma GI_prefix : forall z T, GI z T -> is_prefix T (g_payload R).
Proof.
  intros z T (l & acc & hs & fuel & dl & d & D0 & _ & _ & _ & _ & _ & _ & Hp & HT & _ & _ & HR & Hf).
  destruct fuel as [|f]; [lia|].
  rewrite HR, HT. eapply is_prefix_trans; [|apply gz_members_out_prefix].
  apply is_prefix_app_l. exact Hp.
Qed.

Lemma eof_tail_ok : forall rec z bytes T l acc hs fuel D0 d1,
  (forall z1, GI z1 T -> rd_post T (rec z1)) ->
  strm_inv data (z_r z) -> z_dec z = Some d1 -> z_multistream z = multi ->
  data = D0 ++ l ->
  status (Inflate.inflate [] l) = Done ->
  consumed (z_r z) = lenN D0 + (bitpos (Inflate.inflate [] l) + 7) / 8 ->
  T ++ bytes = acc ++ out (Inflate.inflate [] l) ->
  z_digest z = crc32 (out (Inflate.inflate [] l)) ->
  z_size z = lenN (out (Inflate.inflate [] l)) mod 4294967296 ->
  gz_read multi data = gz_members fuel multi l acc hs -> (length l < fuel)%nat ->
  rd_post T (gz_eof_tail rec z bytes).
Proof.
  intros rec z bytes T l acc hs fuel D0 d1 Hrec Hsi Hdec Hms HD Hst Hcons HT Hdg Hsz HR Hfuel.
  destruct fuel as [|f]; [lia|].
  assert (Hpre : is_prefix (T ++ bytes) (g_payload R)).
  { rewrite HT, HR. apply gz_members_out_prefix. }
  pose proof (strm_rest _ _ _ _ _ Hsi HD Hcons) as Hrest.
  destruct z as [hd rb dec dg sz er ms].
  cbn [z_r z_dec z_multistream z_digest z_size] in Hsi, Hdec, Hms, Hcons, Hdg, Hsz, Hrest.
  subst dec ms dg sz.
  unfold gz_eof_tail. cbn [z_r].
  pose proof (HRF rb 8 (proj1 Hsi) ltac:(lia)) as HF.
  destruct (ioReadFull rb 8) as [[buf e] b].
  destruct HF as (F1 & F2 & F3 & F4 & F5 & F6 & F7 & F8 & _).
  destruct e;
    try (cbv beta iota zeta delta [noEOF rd_post]; split; [exact Hpre|split; intros HH; discriminate HH]).
  (* the trailer was read *)
  specialize (F7 eq_refl).
  assert (Hsib : strm_inv data b) by (exact (strm_inv_step _ _ _ _ Hsi F1 F2 F3)).
  assert (Hl8 : length buf = 8%nat) by (unfold lenN in F7; lia).
  destruct (len8 buf Hl8) as (b0 & b1 & b2 & b3 & b4 & b5 & b6 & b7 & ->).
  set (r := Inflate.inflate [] l) in *.
  set (rest := skipn (N.to_nat ((bitpos r + 7) / 8)) l) in *.
  assert (E1 : firstn 4 rest = firstn 4 [b0; b1; b2; b3; b4; b5; b6; b7]) by (rewrite <- Hrest, F2; reflexivity).
  assert (E2 : firstn 4 (skipn 4 rest) = skipn 4 [b0; b1; b2; b3; b4; b5; b6; b7]) by (rewrite <- Hrest, F2; reflexivity).
  assert (E3 : skipn 8 rest = bstream b) by (rewrite <- Hrest, F2; reflexivity).
  assert (E4 : (length rest <? 8)%nat = false) by (rewrite <- Hrest, F2; reflexivity).
  assert (E5 : (length (bstream b) + 8 <= length l)%nat).
  { assert (length rest = (8 + length (bstream b))%nat) by (rewrite <- Hrest, F2; reflexivity).
    unfold rest in H. rewrite skipn_length in H. lia. }
  unfold gz_set_r, gz_set_err, gz_set_size, gz_set_digest.
  cbn [z_digest z_size z_hdr z_r z_dec z_err z_multistream].
  unfold lenN.
  destruct (of_le (firstn 4 [b0; b1; b2; b3; b4; b5; b6; b7]) =? crc32 (out r)) eqn:EA;
    [|cbv beta iota zeta delta [negb orb rd_post]; split; [exact Hpre|split; intros HH; discriminate HH]].
  destruct (of_le (skipn 4 [b0; b1; b2; b3; b4; b5; b6; b7]) =? N.of_nat (length (out r)) mod 4294967296) eqn:EB;
    [|cbv beta iota zeta delta [negb orb rd_post]; split; [exact Hpre|split; intros HH; discriminate HH]].
  cbn [negb orb].
  assert (Hbody : gz_read_body l = (out r, None, bstream b)).
  { rewrite <- E3. apply gz_read_body_done; [exact Hst|reflexivity|exact E4|].
    change ((of_le (firstn 4 rest) =? crc32 (out r)) &&
            (of_le (firstn 4 (skipn 4 rest)) =? N.of_nat (length (out r)) mod 4294967296) = true).
    rewrite E1, E2, EA, EB. reflexivity. }
  destruct (negb multi) eqn:Em.
  - (* Multistream(false): io.EOF *)
    apply negb_true_iff in Em.
    cbv beta iota zeta delta [rd_post]. split; [exact Hpre|]. split; [intros HH; discriminate HH|].
    intros _. rewrite HR, Em. cbn [gz_members]. rewrite Hbody. cbn [negb g_err g_payload].
    split; [reflexivity|exact HT].
  - apply negb_false_iff in Em.
    set (z5 := mkGZ hd b (Some d1) 0 0 (GR ROk) multi).
    pose proof (Hhdr z5 (proj1 Hsib) (strm_bytes_ok _ _ Hdata Hsib)) as HH. cbv zeta in HH.
    destruct (gzReadHeader z5) as [[z6 hdr'] e].
    destruct HH as (H1 & (used & H2 & H3) & H4 & H5 & H6 & H7 & H8 & H9 & H10 & H11 & H12 & H13).
    unfold z5 in H2, H3, H4, H5, H6, H7, H8, H9, H10, H11, H12.
    cbn [z_r z_dec z_multistream z_err z_hdr z_size] in H2, H3, H4, H5, H6, H7, H8, H9, H10, H11, H12.
    assert (HRm : R = match gz_parse_header (bstream b) with
                      | HP_err CEOF => Containers.mkgres (acc ++ out r) CEOF [] (rev hs) false
                      | HP_err err => Containers.mkgres (acc ++ out r) err [] (rev hs) false
                      | HP_ok h rest' => gz_members f multi rest' (acc ++ out r) (h :: hs)
                      end).
    { rewrite HR. cbn [gz_members]. rewrite Hbody. rewrite Em. cbn [negb]. reflexivity. }
    destruct (gnil e) eqn:Eg; cbn [negb].
    + (* next header parsed *)
      apply gnil_true in Eg. subst e.
      destruct (H10 eq_refl) as (h & rest' & P1 & P2 & P3 & P4 & P5).
      assert (Hsi6 : strm_inv data (z_r z6)) by (exact (strm_inv_step _ _ _ _ Hsib H1 H2 H3)).
      assert (G7 : GI (gz_set_err z6 (GR ROk)) (T ++ bytes)).
      { destruct Hsi6 as (Hok6 & D' & HD' & HC').
        exists rest', (acc ++ out r), (h :: hs), f, [], (dReset d1 (z_r z6)), D'.
        cbn [gz_set_err z_err z_r z_dec z_multistream z_digest z_size].
        split; [reflexivity|].
        split; [split; [exact Hok6|exists D'; split; [exact HD'|exact HC']]|].
        split; [exact P5|]. split; [exact H6|].
        split; [rewrite <- P2; exact HD'|].
        split.
        { change (set_rBuf (dReset d1 (z_r z6)) (z_r z6)) with (dReset d1 (z_r z6)).
          pose proof (Hreset d1 (z_r z6) Hok6) as HI. rewrite P2 in HI.
          unfold lenN. rewrite <- HC'. exact HI. }
        split; [exists (out (Inflate.inflate [] rest')); reflexivity|].
        split; [rewrite app_nil_r; exact HT|].
        split; [rewrite P4; reflexivity|].
        split; [rewrite H9; reflexivity|].
        split; [rewrite HRm, P1; reflexivity|].
        assert (length rest' <= length (bstream b))%nat by (rewrite H2, <- P2, app_length; unfold byte; lia).
        unfold byte in *; lia. }
      destruct bytes as [|x bytes].
      * apply Hrec. rewrite app_nil_r in G7. exact G7.
      * cbv beta iota zeta delta [rd_post]. split; [exact Hpre|].
        split; [intros _; exact G7|intros HH; discriminate HH].
    + (* header error *)
      cbv beta iota zeta delta [rd_post]. split; [exact Hpre|].
      split; [intros ->; discriminate Eg|].
      intros ->. specialize (H12 eq_refl). rewrite HRm, H12. cbn [gz_parse_header g_err g_payload].
      split; [reflexivity|exact HT].
Qed.

Lemma gzRead_loop_ok : forall fuel z T p, GI z T -> rd_post T (gzRead_loop fuel z p).
Proof.
  induction fuel as [|k IH]; intros z T p HG.
  - cbn [gzRead_loop]. cbv beta iota zeta delta [rd_post]. rewrite app_nil_r.
    split; [exact (GI_prefix z T HG)|]. split; intros HH; discriminate HH.
  - rewrite gzRead_loop_S.
    pose proof (GI_prefix z T HG) as HpT.
    destruct HG as (l & acc & hs & fuel & dl & d & D0 & Herr & Hsi & Hdec & Hms & HD & Hinv & Hp & HT & Hdg & Hsz & HR & Hf).
    rewrite Hdec.
    assert (Hbl : bytes_ok l).
    { unfold bytes_ok in *. rewrite HD in Hdata. apply Forall_app in Hdata. exact (proj2 Hdata). }
    pose proof (HdR (lenN D0) l dl (set_rBuf d (z_r z)) p Hbl Hinv) as H1.
    pose proof (Hstrm data (set_rBuf d (z_r z)) p Hsi) as H2.
    destruct (dRead (set_rBuf d (z_r z)) p) as [[d1 bytes] r].
    destruct H1 as (I1 & I2 & I3). destruct H2 as (S1 & _ & _).
    assert (Hd' : crc32_update (z_digest z) bytes = crc32 (dl ++ bytes)).
    { rewrite Hdg. unfold crc32. apply Hcrc. }
    assert (Hs' : u32 (z_size z + lenN bytes) = lenN (dl ++ bytes) mod 4294967296).
    { rewrite Hsz, Hu32. unfold lenN. rewrite app_length, Nat2N.inj_add. reflexivity. }
    assert (HT' : T ++ bytes = acc ++ (dl ++ bytes)) by (rewrite HT; symmetry; apply app_assoc).
    destruct fuel as [|f]; [lia|].
    assert (Hpre : is_prefix (T ++ bytes) (g_payload R)).
    { rewrite HT', HR. eapply is_prefix_trans; [|apply gz_members_out_prefix].
      apply is_prefix_app_l. exact I2. }
    destruct (gz_upd_fields z d1 bytes r) as (U1 & U2 & U3 & U4 & U5 & U6).
    assert (Hnorm : r <> REOF -> rd_post T (gz_upd z d1 bytes r, bytes, GR r)).
    { intros Hne. cbv beta iota zeta delta [rd_post]. split; [exact Hpre|].
      split; [|intros HH; injection HH as HH; contradiction].
      intros HH. injection HH as HH.
      exists l, acc, hs, (S f), (dl ++ bytes), d1, D0.
      rewrite U1, U2, U3, U4, U5, U6.
      split; [rewrite HH; reflexivity|]. split; [exact S1|]. split; [reflexivity|]. split; [exact Hms|].
      split; [exact HD|]. split; [rewrite set_rBuf_same; exact I1|]. split; [exact I2|].
      split; [exact HT'|]. split; [exact Hd'|]. split; [exact Hs'|]. split; [exact HR|exact Hf]. }
    destruct r; try (apply Hnorm; discriminate).
    destruct (I3 eq_refl) as (J1 & J2 & J3).
    apply eof_tail_ok with (l := l) (acc := acc) (hs := hs) (fuel := S f) (D0 := D0) (d1 := d1).
    + intros z1 G1. apply IH. exact G1.
    + rewrite U1. exact S1.
    + exact U2.
    + rewrite U3. exact Hms.
    + exact HD.
    + exact J1.
    + rewrite U1. exact J3.
    + rewrite HT', J2. reflexivity.
    + rewrite U4, Hd', J2. reflexivity.
    + rewrite U5, Hs', J2. reflexivity.
    + exact HR.
    + exact Hf.
Qed.

(* ================================================================ the run of Reads *)
Lemma obs_bytes_app : forall a b, obs_bytes (a ++ b) = obs_bytes a ++ obs_bytes b.
Proof. intros a b. unfold obs_bytes. rewrite map_app, concat_app. reflexivity. Qed.

Lemma obs_bytes_snoc : forall (acc : list (list N * gres)) bytes e,
  obs_bytes (frev ((bytes, e) :: acc)) = obs_bytes (frev acc) ++ bytes.
Proof.
  intros acc bytes e. rewrite !gfrev_rev. cbn [rev]. rewrite obs_bytes_app.
  unfold obs_bytes at 2. cbn [map fst concat]. rewrite app_nil_r. reflexivity.
Qed.

Lemma reads_app : forall reads z acc,
  fst (gz_reads_g z reads acc) = frev acc ++ fst (gz_reads_g z reads []).
Proof.
  induction reads as [|p rest IH]; intros z acc.
  - cbn [gz_reads_g fst]. change (frev (@nil (list N * gres))) with (@nil (list N * gres)).
    rewrite app_nil_r. reflexivity.
  - cbn [gz_reads_g]. destruct (gzRead z p) as [[z1 b] e].
    rewrite IH. rewrite (IH z1 [(b, e)]). rewrite !gfrev_rev. cbn [rev app].
    rewrite <- app_assoc. reflexivity.
Qed.

Lemma sticky_tail : forall (tail : list (list N * gres)) e,
  Forall (fun br => br = ([], e)) tail ->
  obs_bytes tail = [] /\ forall x, In x (map snd tail) -> x = e.
Proof.
  intros tail e H. induction H as [|br tail Hbr _ IH].
  - split; [reflexivity|]. intros x [].
  - destruct IH as (I1 & I2). subst br. split.
    + unfold obs_bytes in *. cbn [map fst concat app]. exact I1.
    + intros x [Hx|Hx]; [symmetry; exact Hx|apply I2; exact Hx].
Qed.

Lemma reads_ok : gz_sticky_statement -> forall reads z T acc,
  GI z T -> obs_bytes (frev acc) = T -> ~ In (GR REOF) (map snd acc) ->
  is_prefix (obs_bytes (fst (gz_reads_g z reads acc))) (g_payload R) /\
  (In (GR REOF) (map snd (fst (gz_reads_g z reads acc))) ->
   g_err R = CEOF /\ obs_bytes (fst (gz_reads_g z reads acc)) = g_payload R).
Proof.
  intros (_ & _ & Hst). induction reads as [|p rest IH]; intros z T acc HG HT Hno.
  - cbn [gz_reads_g fst]. rewrite HT. split; [exact (GI_prefix z T HG)|].
    intros Hin. exfalso. apply Hno. rewrite gfrev_rev, map_rev in Hin. apply in_rev in Hin. exact Hin.
  - cbn [gz_reads_g].
    assert (Herr : z_err z = GR ROk) by (destruct HG as (? & ? & ? & ? & ? & ? & ? & He & _); exact He).
    pose proof (gzRead_loop_ok big_fuel z T p HG) as HP.
    assert (Hrd : gzRead z p = gzRead_loop big_fuel z p).
    { unfold gzRead. rewrite Herr. reflexivity. }
    rewrite Hrd.
    destruct (gzRead_loop big_fuel z p) as [[z1 b] e] eqn:E.
    cbv beta iota zeta delta [rd_post] in HP. destruct HP as (P1 & P2 & P3).
    destruct (gnil e) eqn:Eg.
    + apply gnil_true in Eg. subst e. apply IH with (T := T ++ b).
      * exact (P2 eq_refl).
      * rewrite obs_bytes_snoc, HT. reflexivity.
      * cbn [map snd]. intros [Hx|Hx]; [discriminate Hx|exact (Hno Hx)].
    + pose proof (Hst z p z1 b e rest Hrd Eg) as Htail.
      destruct (sticky_tail _ _ Htail) as (Q1 & Q2).
      rewrite reads_app. rewrite obs_bytes_app, Q1, app_nil_r, obs_bytes_snoc, HT.
      split; [exact P1|].
      intros Hin. rewrite map_app in Hin. apply in_app_or in Hin.
      assert (He : e = GR REOF).
      { destruct Hin as [Hin|Hin].
        - rewrite gfrev_rev, map_rev in Hin. apply in_rev in Hin. cbn [map snd] in Hin.
          destruct Hin as [Hx|Hx]; [exact Hx|contradiction (Hno Hx)].
        - symmetry. apply Q2. exact Hin. }
      exact (P3 He).
Qed.

End Sound.

(* ================================================================ gzrun *)
Lemma gzrun_eq : forall bufsize cs t multi reads,
  gzrun bufsize cs t multi reads =
  let '(z, hdr, e) := gzReadHeader (mkGZ hdr0 (mkbufrd bufsize cs t) None 0 0 (GR ROk) true) in
  if negb (gnil e) then (e, [])
  else (e, fst (gz_reads_g (gzMultistream (gz_set_err (gz_set_hdr z hdr) e) multi) reads [])).
Proof.
  intros bufsize cs t multi reads. unfold gzrun, gzNewReader, gzReset, gzZero. cbn [z_dec].
  destruct (gzReadHeader _) as [[z hdr] e]. reflexivity.
Qed.

Theorem gz_sound_from :
  ioReadFull_spec_statement -> crc32_update_app_statement -> u32_add_statement ->
  gzReadHeader_spec_statement ->
  newReader_on_inv_statement -> dReset_inv_statement -> gz_dRead_ok_statement ->
  dRead_strm_statement -> gz_sticky_statement ->
  gz_sound_statement.
Proof.
  intros HRF Hcrc Hu32 Hhdr Hnew Hreset HdR Hstrm Hsticky.
  intros data cs bufsize t multi reads Hdata Hcs Hne.
  rewrite gzrun_eq.
  destruct (newbuf_ok bufsize cs t Hne) as (B1 & B2 & B3).
  change (mkBuf (N.max bufsize 16) [] 0 None cs t 0) with (mkbufrd bufsize cs t) in B1, B2, B3.
  set (rb := mkbufrd bufsize cs t) in *.
  set (z0 := mkGZ hdr0 rb None 0 0 (GR ROk) true).
  assert (Hs0 : bstream (z_r z0) = data) by (unfold z0; cbn [z_r]; rewrite B2; exact Hcs).
  assert (Hb0 : bytes_ok (bstream (z_r z0))) by (rewrite Hs0; exact Hdata).
  pose proof (Hhdr z0 B1 Hb0) as HH. cbv zeta in HH. rewrite Hs0 in HH.
  destruct (gzReadHeader z0) as [[z1 hdr] e].
  destruct HH as (H1 & (used & H2 & H3) & H4 & H5 & H6 & H7 & H8 & H9 & H10 & H11 & H12 & H13).
  unfold z0 in H3, H4, H5, H6, H7, H8, H9, H10, H11.
  cbn [z_r z_dec z_multistream z_err z_hdr z_size] in H3, H4, H5, H6, H7, H8, H9, H10, H11.
  destruct (gnil e) eqn:Eg; cbn [negb]; cbv zeta.
  - apply gnil_true in Eg. subst e.
    destruct (H10 eq_refl) as (h & rest & P1 & P2 & P3 & P4 & P5).
    assert (HR : gz_read multi data = gz_members (S (length data)) multi rest [] [h]).
    { unfold gz_read. rewrite P1. reflexivity. }
    assert (G : GI data multi (gzMultistream (gz_set_err (gz_set_hdr z1 hdr) (GR ROk)) multi) []).
    { exists rest, [], [h], (S (length data)), [], (newReader_on (z_r z1)), used.
      cbn [gzMultistream gz_set_err gz_set_hdr z_err z_r z_dec z_multistream z_digest z_size].
      split; [reflexivity|].
      split.
      { split; [exact H1|]. exists used. split; [exact H2|].
        rewrite H3, B3. unfold lenN. lia. }
      split; [exact P5|]. split; [reflexivity|].
      split; [rewrite <- P2; exact H2|].
      split.
      { change (set_rBuf (newReader_on (z_r z1)) (z_r z1)) with (newReader_on (z_r z1)).
        pose proof (Hnew (z_r z1) H1) as HI. rewrite P2, H3, B3 in HI. exact HI. }
      split; [exists (out (Inflate.inflate [] rest)); reflexivity|].
      split; [reflexivity|]. split; [rewrite P4; reflexivity|]. split; [rewrite H9; reflexivity|].
      split; [exact HR|].
      assert (length rest <= length data)%nat by (rewrite H2, <- P2, app_length; unfold byte; lia).
      unfold byte in *; lia. }
    pose proof (reads_ok data multi Hdata HRF Hcrc Hu32 Hhdr Hreset HdR Hstrm Hsticky reads _ [] []
                  G eq_refl (fun x => x)) as (Q1 & Q2).
    split; [intros _; rewrite HR; apply gz_members_ctor|].
    split; [intros HH; discriminate HH|].
    split; [exact Q1|]. split; [exact Q2|].
    intros Hne' Hin. apply Hne'. exact (proj1 (Q2 Hin)).
  - split; [intros ->; discriminate Eg|].
    split; [exact H12|].
    split; [exists (g_payload (gz_read multi data)); reflexivity|].
    split; [intros []|]. intros _ [].
Qed.

Theorem gz_header_fields_from : gzReadHeader_spec_statement -> gz_header_fields_statement.
Proof.
  intros Hhdr data cs bufsize t Hdata Hcs Hne.
  unfold gzNewReader, gzReset, gzZero. cbn [z_dec].
  destruct (newbuf_ok bufsize cs t Hne) as (B1 & B2 & B3).
  change (mkBuf (N.max bufsize 16) [] 0 None cs t 0) with (mkbufrd bufsize cs t) in B1, B2, B3.
  set (rb := mkbufrd bufsize cs t) in *.
  set (z0 := mkGZ hdr0 rb None 0 0 (GR ROk) true).
  assert (Hs0 : bstream (z_r z0) = data) by (unfold z0; cbn [z_r]; rewrite B2; exact Hcs).
  assert (Hb0 : bytes_ok (bstream (z_r z0))) by (rewrite Hs0; exact Hdata).
  pose proof (Hhdr z0 B1 Hb0) as HH. cbv zeta in HH. rewrite Hs0 in HH.
  destruct (gzReadHeader z0) as [[z1 hdr] e].
  destruct HH as (H1 & _ & _ & _ & _ & _ & _ & _ & H10 & _).
  intros ->. destruct (H10 eq_refl) as (h & rest & P1 & P2 & P3 & _).
  exists h, rest. cbn [gz_set_err gz_set_hdr z_hdr z_r].
  split; [exact P1|]. split; [exact P3|exact P2].
Qed.

Print Assumptions gz_sound_from.
Print Assumptions gz_header_fields_from.
