(* EngineRefineDecompErr.v -- readHeader never returns EOutputOverflow (that code is produced
   only by the block decoders): plain case analysis of the header code of RModel/Engine.v.
   Needed by EngineRefineDecomp.v: readHeader_refine_body is silent about error codes other
   than ENone / EEndInput, and EOutputOverflow is not "fatal". *)
From Coq Require Import List NArith ZArith Bool.
From Verif Require Import Base EngineTables Engine.
Import ListNotations.
Open Scope N_scope.

Ltac ov_brk1 :=
  match goal with |- context [match ?x with _ => _ end] => destruct x end.
Ltac ov_fin := cbn [snd] in *; first [assumption | discriminate].

Lemma ov_iterN_inv : forall (S : Type) (P : S -> Prop) (f : N -> S -> S),
  (forall i s, P s -> P (f i s)) -> forall n i s, P s -> P (iterN n i f s).
Proof.
  intros S P f Hf n. induction n as [|n IH]; intros i s Hs; cbn [iterN]; [exact Hs|].
  apply IH. apply Hf. exact Hs.
Qed.

Lemma gen_small_noov : forall hdr sh lg codes n count ms,
  snd (gen_small hdr sh lg codes n count ms) <> EOutputOverflow.
Proof.
  intros hdr sh lg codes n count ms. unfold gen_small. cbv zeta.
  ov_brk1; [cbn [snd]; discriminate|].
  ov_brk1. ov_brk1. ov_brk1; [cbn [snd]; discriminate|].
  ov_brk1.
  match goal with |- snd (match forN ?lo ?hi ?F ?init with _ => _ end) <> _ =>
    assert (H : snd (forN lo hi F init) <> EOutputOverflow) end.
  { unfold forN. apply ov_iterN_inv; [|cbn [snd]; discriminate].
    intros i [[[[sh1 lg1] cd1] lcl] pan] Hp. cbn [snd] in Hp.
    repeat ov_brk1; cbn [snd]; first [exact Hp|discriminate]. }
  repeat ov_brk1. cbn [snd] in *. exact H.
Qed.

Lemma setAndExpand_noov : forall d, snd (setAndExpandLitLenHuffCode d) <> EOutputOverflow.
Proof.
  intros d. unfold setAndExpandLitLenHuffCode. cbv zeta.
  repeat ov_brk1; cbn [snd]; discriminate.
Qed.

Lemma pairs_loop_noov : forall fuel short d length index1 iend,
  snd (pairs_loop fuel short d length index1 iend) <> EOutputOverflow.
Proof.
  induction fuel as [|f IH]; intros short d length index1 iend; cbn [pairs_loop].
  - cbn [snd]. discriminate.
  - repeat first [apply IH | ov_brk1]; cbn [snd]; discriminate.
Qed.

Lemma encodePairs_noov : forall short d length minLen,
  snd (encodePairs short d length minLen) <> EOutputOverflow.
Proof. intros. unfold encodePairs. apply pairs_loop_noov. Qed.

Lemma triples_loop2_noov : forall fuel short d length sym1 sym1Len sym1Code index2 iend2,
  snd (triples_loop2 fuel short d length sym1 sym1Len sym1Code index2 iend2) <> EOutputOverflow.
Proof.
  induction fuel as [|f IH]; intros short d length sym1 sym1Len sym1Code index2 iend2;
    cbn [triples_loop2].
  - cbn [snd]. discriminate.
  - repeat first [apply IH | ov_brk1]; cbn [snd]; discriminate.
Qed.

Lemma triples_loop1_noov : forall fuel short d length minLen index1 iend1,
  snd (triples_loop1 fuel short d length minLen index1 iend1) <> EOutputOverflow.
Proof.
  induction fuel as [|f IH]; intros short d length minLen index1 iend1; cbn [triples_loop1].
  - cbn [snd]. discriminate.
  - repeat first
      [ apply IH
      | match goal with
        | |- context [match triples_loop2 ?a ?b ?c ?d ?e ?f ?g ?h ?i with _ => _ end] =>
          pose proof (triples_loop2_noov a b c d e f g h i);
          destruct (triples_loop2 a b c d e f g h i)
        end
      | ov_brk1 ]; cbn [snd] in *; first [assumption|discriminate].
Qed.

Lemma encodeTriples_noov : forall short d length minLen,
  snd (encodeTriples short d length minLen) <> EOutputOverflow.
Proof. intros. unfold encodeTriples. apply triples_loop1_noov. Qed.

Lemma genForLitLen_noov : forall sh lg d ms, snd (genForLitLen sh lg d ms) <> EOutputOverflow.
Proof.
  intros sh lg d ms. unfold genForLitLen. cbv zeta.
  ov_brk1; [cbn [snd]; discriminate|].
  match goal with |- snd (match forN ?lo ?hi ?F ?init with _ => _ end) <> _ =>
    assert (H : snd (forN lo hi F init) <> EOutputOverflow) end.
  { unfold forN. apply ov_iterN_inv; [|cbn [snd]; discriminate].
    intros i [[t cs] err] Hp. cbn [snd] in Hp.
    repeat match goal with
      | |- context [match encodePairs ?a ?b ?c ?d with _ => _ end] =>
        pose proof (encodePairs_noov a b c d); destruct (encodePairs a b c d)
      | |- context [match encodeTriples ?a ?b ?c ?d with _ => _ end] =>
        pose proof (encodeTriples_noov a b c d); destruct (encodeTriples a b c d)
      | |- context [match ?x with _ => _ end] => destruct x
      end; cbn [snd] in *; first [assumption|discriminate]. }
  repeat ov_brk1; cbn [snd] in *; first [assumption|discriminate].
Qed.

Lemma codeLenCodes_noov : forall s hclen, snd (codeLenCodes s hclen) <> EOutputOverflow.
Proof.
  intros s hclen. unfold codeLenCodes. cbv zeta.
  repeat match goal with
    | |- context [match gen_small ?a ?b ?c ?d ?e ?f ?g with _ => _ end] =>
      pose proof (gen_small_noov a b c d e f g); destruct (gen_small a b c d e f g)
    | |- context [match ?x with _ => _ end] => destruct x
    end; ov_fin.
Qed.

Lemma rl_loop_noov : forall fuel clcS clcL split endv st,
  snd (rl_loop fuel clcS clcL split endv st) <> EOutputOverflow.
Proof.
  induction fuel as [|f IH]; intros clcS clcL split endv st; cbn [rl_loop].
  - cbn [snd]. discriminate.
  - repeat first [apply IH | ov_brk1]; cbn [snd]; discriminate.
Qed.

Lemma readLitDistLens_noov : forall s hdist hlit,
  snd (readLitDistLens s hdist hlit) <> EOutputOverflow.
Proof.
  intros s hdist hlit. unfold readLitDistLens. cbv zeta.
  match goal with |- context [match rl_loop ?a ?b ?c ?d ?e ?f with _ => _ end] =>
    pose proof (rl_loop_noov a b c d e f); destruct (rl_loop a b c d e f) end.
  ov_fin.
Qed.

Lemma setupDynamicHeader_noov : forall s, snd (setupDynamicHeader s) <> EOutputOverflow.
Proof.
  intros s. unfold setupDynamicHeader. cbv zeta.
  repeat match goal with
    | |- context [match codeLenCodes ?a ?b with _ => _ end] =>
      pose proof (codeLenCodes_noov a b); destruct (codeLenCodes a b)
    | |- context [match readLitDistLens ?a ?b ?c with _ => _ end] =>
      pose proof (readLitDistLens_noov a b c); destruct (readLitDistLens a b c)
    | |- context [match gen_small ?a ?b ?c ?d ?e ?f ?g with _ => _ end] =>
      pose proof (gen_small_noov a b c d e f g); destruct (gen_small a b c d e f g)
    | |- context [match setAndExpandLitLenHuffCode ?a with _ => _ end] =>
      pose proof (setAndExpand_noov a); destruct (setAndExpandLitLenHuffCode a)
    | |- context [match genForLitLen ?a ?b ?c ?d with _ => _ end] =>
      pose proof (genForLitLen_noov a b c d); destruct (genForLitLen a b c d)
    | |- context [match ?x with _ => _ end] => destruct x
    end; ov_fin.
Qed.

Lemma prepareForLitBlock_noov : forall s, snd (prepareForLitBlock s) <> EOutputOverflow.
Proof.
  intros s. unfold prepareForLitBlock. cbv zeta.
  repeat ov_brk1; cbn [snd]; discriminate.
Qed.

Lemma tryDecodeHeader_noov : forall s, snd (tryDecodeHeader s) <> EOutputOverflow.
Proof.
  intros s. unfold tryDecodeHeader. cbv zeta.
  repeat match goal with
    | |- context [prepareForLitBlock ?a] =>
      pose proof (prepareForLitBlock_noov a); destruct (prepareForLitBlock a)
    | |- context [setupDynamicHeader ?a] =>
      pose proof (setupDynamicHeader_noov a); destruct (setupDynamicHeader a)
    | |- context [match ?x with _ => _ end] => destruct x
    end; ov_fin.
Qed.

Theorem readHeader_no_overflow : forall s, snd (readHeader s) <> EOutputOverflow.
Proof.
  intros s. unfold readHeader. cbv zeta.
  match goal with |- context [tryDecodeHeader ?x] =>
    pose proof (tryDecodeHeader_noov x) as H; destruct (tryDecodeHeader x) as [s2 err] end.
  cbn [snd] in H.
  destruct err; try contradiction; repeat ov_brk1; cbn [snd]; discriminate.
Qed.

Print Assumptions readHeader_no_overflow.
