(* EngineRefineRdHdrB.v -- helper lemmas for readHeader (proofs/EngineRefineRdHdr.v):
   the reference header parsers only consume bits from the front of the stream; byte lists
   and their bit strings; extending the input of a well-formed bit reader. *)
From Coq Require Import List NArith ZArith Bool Lia ZifyBool ZifyNat ZifyN.
From Verif Require Import Bits Huffman HuffmanSpec Inflate InflateSpec InflateMono.
From Verif Require Import Base EngineTables Engine EngineRefineSpec EngineRefineSpecBlock
  EngineRefineSpecHdr EngineRefineBits EngineRefineBridge.
Import ListNotations.
Open Scope N_scope.

(* ---------------------------------------------------------------- lists *)
Lemma skipn_skipn' : forall (A : Type) (x y : nat) (l : list A),
  skipn x (skipn y l) = skipn (y + x) l.
Proof.
  intros A x y. induction y as [|y IH]; intros l; [reflexivity|].
  destruct l as [|a l]; [cbn [skipn Nat.add]; apply skipn_nil|].
  cbn [skipn Nat.add]. apply IH.
Qed.

Lemma skipn_app_le : forall (A : Type) (m : nat) (a b : list A),
  (m <= length a)%nat -> skipn m (a ++ b) = skipn m a ++ b.
Proof.
  intros A m a b H. rewrite skipn_app. replace (m - length a)%nat with 0%nat by lia. reflexivity.
Qed.

Lemma skipn_app_ge : forall (A : Type) (m : nat) (a b : list A),
  (length a <= m)%nat -> skipn m (a ++ b) = skipn (m - length a) b.
Proof.
  intros A m a b H. rewrite skipn_app. rewrite skipn_all2 by exact H. reflexivity.
Qed.

Lemma app_eq_len : forall (A : Type) (a c b d : list A),
  length a = length c -> a ++ b = c ++ d -> a = c /\ b = d.
Proof.
  intros A a. induction a as [|x a IH]; intros c b d Hl H.
  - destruct c as [|y c]; [split; [reflexivity|exact H]|cbn [length] in Hl; lia].
  - destruct c as [|y c]; [cbn [length] in Hl; lia|].
    cbn [app] in H. inversion H as [[Hx Hr]]. cbn [length] in Hl.
    destruct (IH c b d ltac:(lia) Hr) as [E1 E2]. split; [f_equal; exact E1|exact E2].
Qed.

Lemma skipn_firstn_split : forall (A : Type) (r c : nat) (l : list A),
  (r <= c)%nat -> (c <= length l)%nat -> skipn r l = skipn r (firstn c l) ++ skipn c l.
Proof.
  intros A r c l Hr Hc. rewrite <- (firstn_skipn c l) at 1.
  apply skipn_app_le. rewrite firstn_length_le by exact Hc. exact Hr.
Qed.

Lemma Forall_skipn' : forall (A : Type) (P : A -> Prop) (n : nat) (l : list A),
  Forall P l -> Forall P (skipn n l).
Proof.
  intros A P n l H. rewrite <- (firstn_skipn n l) in H. apply Forall_app in H. exact (proj2 H).
Qed.

Lemma Forall_firstn' : forall (A : Type) (P : A -> Prop) (n : nat) (l : list A),
  Forall P l -> Forall P (firstn n l).
Proof.
  intros A P n l H. rewrite <- (firstn_skipn n l) in H. apply Forall_app in H. exact (proj1 H).
Qed.

Lemma nth_true_app : forall (l m : list bool) i, nth i l false = true -> nth i (l ++ m) false = true.
Proof.
  intros l m i H. destruct (Nat.ltb_spec i (length l)) as [Hi|Hi].
  - rewrite app_nth1 by exact Hi. exact H.
  - rewrite nth_overflow in H by exact Hi. discriminate.
Qed.

(* ---------------------------------------------------------------- bytes and bits *)
Lemma skipn_bits_of_bytes : forall j l,
  skipn (8 * j) (bits_of_bytes l) = bits_of_bytes (skipn j l).
Proof.
  induction j as [|j IH]; intros l; [reflexivity|].
  destruct l as [|x l].
  - cbn [skipn]. change (bits_of_bytes []) with (@nil bool). apply skipn_nil.
  - cbn [skipn]. rewrite bits_of_bytes_cons.
    rewrite skipn_app_ge by (rewrite bits_of_N_length; lia).
    rewrite bits_of_N_length. replace (8 * S j - 8)%nat with (8 * j)%nat by lia. apply IH.
Qed.

Lemma bits_of_bytes_inj : forall l1 l2,
  Forall (fun x => x < 256) l1 -> Forall (fun x => x < 256) l2 ->
  bits_of_bytes l1 = bits_of_bytes l2 -> l1 = l2.
Proof.
  induction l1 as [|x l1 IH]; intros l2 F1 F2 H.
  - destruct l2 as [|y l2]; [reflexivity|].
    apply (f_equal (@length bool)) in H. rewrite !bits_of_bytes_length in H. cbn [length] in H. lia.
  - destruct l2 as [|y l2].
    { apply (f_equal (@length bool)) in H. rewrite !bits_of_bytes_length in H. cbn [length] in H. lia. }
    rewrite !bits_of_bytes_cons in H.
    apply app_eq_len in H; [|rewrite !bits_of_N_length; reflexivity].
    destruct H as [Hx Hr].
    inversion F1 as [|? ? Fx F1']; subst. inversion F2 as [|? ? Fy F2']; subst.
    f_equal.
    + apply (f_equal N_of_bits) in Hx.
      rewrite !N_of_bits_of_N in Hx by (change (2 ^ N.of_nat 8) with 256; assumption). exact Hx.
    + apply IH; assumption.
Qed.

(* ---------------------------------------------------------------- the reference consumes from the front *)
Lemma take_sfx : forall n s v r, take n s = Some (v, r) -> bl r = skipn n (bl s).
Proof.
  induction n as [|n IH]; intros s v r H; cbn [take] in H.
  - inversion H; subst. reflexivity.
  - unfold take1 in H. destruct (bl s) as [|b l] eqn:El; [discriminate|].
    destruct (take n (mkbs l (bp s + 1))) as [[v' r']|] eqn:E; [|discriminate].
    inversion H; subst. apply IH in E. cbn [bl] in E. cbn [skipn]. exact E.
Qed.

Lemma dyn_header_sfx : forall s v r, dyn_header s = HOk v r ->
  bl r = skipn (InflateMono.blen s - InflateMono.blen r) (bl s).
Proof.
  intros s v r H.
  pose proof (dyn_header_len s) as L. rewrite H in L. cbn [hlen] in L. destruct L as [L1 _].
  set (k := (InflateMono.blen s - InflateMono.blen r)%nat).
  set (s' := mkbs (firstn k (bl s)) (bp s)).
  assert (Es : s = ext (skipn k (bl s)) s').
  { destruct s as [l q]. unfold ext, s'. cbn [bl bp]. rewrite firstn_skipn. reflexivity. }
  assert (Hs' : InflateMono.blen s' = k).
  { unfold InflateMono.blen, s'. cbn [bl]. rewrite firstn_length_le; [reflexivity|].
    unfold k, InflateMono.blen. lia. }
  pose proof (dyn_header_ext (skipn k (bl s)) s') as X. rewrite <- Es, H in X.
  pose proof (dyn_header_len s') as L'.
  destruct (dyn_header s') as [v' r'|st].
  - cbn [hext] in X. cbn [hlen] in L'. destruct L' as [L1' _].
    inversion X as [[Ev Er]].
    assert (Hr : InflateMono.blen r = (InflateMono.blen r' + (InflateMono.blen s - k))%nat).
    { rewrite Er. unfold InflateMono.blen, ext. cbn [bl]. rewrite app_length, skipn_length. reflexivity. }
    assert (Hz : bl r' = []).
    { apply length_zero_iff_nil. unfold k, InflateMono.blen in *. lia. }
    unfold ext. cbn [bl]. rewrite Hz. reflexivity.
  - destruct st; cbn [hext] in X; try discriminate.
    exfalso. rewrite skipn_length in X. unfold k, InflateMono.blen in *. lia.
Qed.

Lemma hdr_result_sfx : forall s' S e, hdr_result s' S e ->
  exists k, br_bits (rd s') ++ e = skipn k (bl S).
Proof.
  intros s' S e (bf & x1 & bt & x2 & T1 & T2 & _ & Hc).
  apply take_sfx in T1. apply take_sfx in T2. rewrite T1, skipn_skipn' in T2.
  destruct Hc as [(_ & _ & lt & dt & _ & _ & BL)|[(_ & _ & lt & dt & x3 & DH & _ & BL)|
                  (_ & _ & len & x4 & nlen & x5 & A1 & A2 & _ & _ & BL & _)]].
  - rewrite <- BL, T2. eexists; reflexivity.
  - apply dyn_header_sfx in DH. rewrite <- BL, DH, T2, skipn_skipn'. eexists; reflexivity.
  - apply take_sfx in A1. apply take_sfx in A2. unfold align in A1. cbn [bl] in A1.
    rewrite <- BL, A2, A1, T2, !skipn_skipn'. eexists; reflexivity.
Qed.

(* the same result on another state with the same relevant fields and the same stream *)
Lemma hdr_result_transfer : forall s2 s' S e' e,
  br_bits (rd s2) ++ e' = br_bits (rd s') ++ e -> r_len (rd s') = r_len (rd s2) ->
  bfinal s' = bfinal s2 -> phase s' = phase s2 -> tb s' = tb s2 ->
  litBlockLength s' = litBlockLength s2 ->
  hdr_result s2 S e' -> hdr_result s' S e.
Proof.
  intros s2 s' S e' e Eb El Ebf Eph Etb Ell (bf & x1 & bt & x2 & T1 & T2 & Hbf & Hc).
  exists bf, x1, bt, x2. split; [exact T1|]. split; [exact T2|]. split; [rewrite Ebf; exact Hbf|].
  rewrite Eph, Etb, Ell, El, <- Eb.
  exact Hc.
Qed.

(* ---------------------------------------------------------------- more input for a reader *)
Lemma br_wf_app_in : forall b a,
  br_wf b -> (0 <= r_len b)%Z -> Forall (fun x => x < 256) a ->
  let b' := mkBR (r_bits b) (r_len b) (r_in b ++ a) (r_inlen b + N.of_nat (length a)) in
  br_wf b' /\ br_bits b' = br_bits b ++ bits_of_bytes a.
Proof.
  intros b a (W1 & W2 & W3 & W4 & W5) H0 Fa b'.
  assert (Eb : br_bits b' = br_bits b ++ bits_of_bytes a).
  { unfold br_bits, b'. cbn [r_bits r_len r_in]. rewrite bits_of_bytes_app, app_assoc. reflexivity. }
  split; [|exact Eb].
  unfold br_wf. rewrite Eb. unfold b'. cbn [r_bits r_len r_in r_inlen].
  split; [rewrite app_length; lia|]. split; [exact W2|]. split; [intros; lia|].
  split; [apply Forall_app; split; assumption|].
  intros i Hi. apply nth_true_app. apply W5. exact Hi.
Qed.

(* what is left of the staged input: if the stream the reader (v2, len2, r2) holds is what is
   left of the stream of (v0, len0, hbuf ++ fin) after dropping k bits, and r2 is not longer
   than fin, then r2 is the tail of fin *)
Lemma staged_suffix : forall (v0 v2 : N) (len0 len2 : Z) (hbuf fin r2 : list N) (e' : list bool) (k : nat),
  Forall (fun x => x < 256) (hbuf ++ fin) -> Forall (fun x => x < 256) r2 ->
  (0 <= len0)%Z -> (0 <= len2)%Z ->
  (bits_of_N (Z.to_nat len2) v2 ++ bits_of_bytes r2) ++ e'
  = skipn k ((bits_of_N (Z.to_nat len0) v0 ++ bits_of_bytes (hbuf ++ fin)) ++ e') ->
  (length r2 <= length fin)%nat ->
  r2 = skipn (length fin - length r2) fin.
Proof.
  intros v0 v2 len0 len2 hbuf fin r2 e' k F0 F2 H0 H2 H Hle.
  destruct r2 as [|y r2'] eqn:Er2.
  { cbn [length]. rewrite Nat.sub_0_r, skipn_all. reflexivity. }
  rewrite <- Er2 in *. assert (Hpos : (1 <= length r2)%nat) by (rewrite Er2; cbn [length]; lia).
  clear Er2 y r2'.
  set (B0 := bits_of_N (Z.to_nat len0) v0) in *.
  set (B2 := bits_of_N (Z.to_nat len2) v2) in *.
  assert (LB0 : length B0 = Z.to_nat len0) by apply bits_of_N_length.
  assert (LB2 : length B2 = Z.to_nat len2) by apply bits_of_N_length.
  set (X := bits_of_bytes (hbuf ++ fin)) in *.
  assert (LX : length X = (8 * (length hbuf + length fin))%nat).
  { unfold X. rewrite bits_of_bytes_length, app_length. reflexivity. }
  apply (f_equal (skipn (length B2))) in H.
  rewrite <- (app_assoc B2) in H. rewrite (skipn_app_ge _ (length B2) B2) in H by lia.
  rewrite Nat.sub_diag in H. cbn [skipn] in H.
  rewrite skipn_skipn' in H.
  set (m := (k + length B2)%nat) in *.
  pose proof (f_equal (@length bool) H) as HL.
  rewrite skipn_length, !app_length, bits_of_bytes_length, LB0, LX in HL.
  unfold byte in HL.
  rewrite skipn_app_le in H by (rewrite app_length; lia).
  apply app_inv_tail in H.
  rewrite skipn_app_ge in H by lia.
  replace (m - length B0)%nat with (8 * (length hbuf + length fin - length r2))%nat in H by lia.
  unfold X in H. rewrite skipn_bits_of_bytes in H.
  rewrite skipn_app_ge in H by lia.
  replace (length hbuf + length fin - length r2 - length hbuf)%nat with (length fin - length r2)%nat in H by lia.
  apply bits_of_bytes_inj in H; [exact H|exact F2|].
  apply Forall_skipn'. apply Forall_app in F0. exact (proj2 F0).
Qed.
