(* EngineRefineSmallDist.v -- gen_dist: setCodes + genForDists build an exact decoder of the
   canonical distance code (short table and long-code groups). *)
From Coq Require Import List NArith ZArith Bool Lia ZifyBool ZifyNat ZifyN.
From Verif Require Import Bits Huffman Inflate HuffmanProofs.
From Verif Require Import Base EngineTables Engine EngineRefineSpec.
From Verif Require Import EngineRefineSmallBase EngineRefineSmallCodes EngineRefineSmallSort
                          EngineRefineSmallShort EngineRefineSmallClc EngineRefineSmallLong.
Import ListNotations.
Open Scope N_scope.

(* ---------------------------------------------------------------- arithmetic: splitting off 10 bits *)
Lemma div1024_mod : forall v w, (v mod 2 ^ (10 + w)) / 1024 = (v / 1024) mod 2 ^ w.
Proof.
  intros v w. rewrite N.pow_add_r. change (2 ^ 10) with 1024.
  rewrite N.mod_mul_r by (try apply pow2_ne0; lia).
  rewrite (N.mul_comm 1024), N.div_add by lia.
  rewrite N.div_small by (apply N.mod_lt; lia). lia.
Qed.

Lemma mod1024_mod : forall v w, (v mod 2 ^ (10 + w)) mod 1024 = v mod 1024.
Proof. intros v w. change 1024 with (2 ^ 10). apply mod_mod_pow2. lia. Qed.

Lemma split_match : forall v r w,
  v mod 2 ^ (10 + w) = r <-> (v mod 1024 = r mod 1024 /\ (v / 1024) mod 2 ^ w = r / 1024).
Proof.
  intros v r w. split.
  - intros <-. split; [symmetry; apply mod1024_mod|symmetry; apply div1024_mod].
  - intros [A B].
    rewrite (N.div_mod (v mod 2 ^ (10 + w)) 1024) by lia.
    rewrite (N.div_mod r 1024) at 1 by lia.
    rewrite div1024_mod, mod1024_mod, A, B. reflexivity.
Qed.

Lemma bounded_ex_dec : forall (P : N -> Prop), (forall i, P i \/ ~ P i) ->
  forall k : nat, (exists i, i < N.of_nat k /\ P i) \/ (forall i, i < N.of_nat k -> ~ P i).
Proof.
  intros P Hdec. induction k as [|k IH].
  - right. intros i Hi. cbn in Hi. lia.
  - destruct IH as [(i & Hi & Pi)|HN].
    + left. exists i. split; [lia|exact Pi].
    + destruct (Hdec (N.of_nat k)) as [Pk|NPk].
      * left. exists (N.of_nat k). split; [lia|exact Pk].
      * right. intros i Hi. destruct (N.eq_dec i (N.of_nat k)) as [->|Hne]; [exact NPk|].
        apply HN. lia.
Qed.

(* ---------------------------------------------------------------- entry fields, by enumeration *)
Lemma dist_short_fields : forall i len, i < 30 -> len < 16 ->
  let e := u16 (N.lor (N.lor i (N.shiftl (aget rfc_dist_extra i) 5)) (N.shiftl len 11)) in
  N.land e smallFlagBit = 0 /\ N.shiftr e 11 = len /\ N.land e 31 = i.
Proof.
  intros i len Hi Hl.
  pose proof (allb2_spec 30 16 (fun i len =>
     let e := u16 (N.lor (N.lor i (N.shiftl (aget rfc_dist_extra i) 5)) (N.shiftl len 11)) in
     (N.land e smallFlagBit =? 0) && (N.shiftr e 11 =? len) && (N.land e 31 =? i))
     ltac:(vm_compute; reflexivity) i len ltac:(cbn; lia) ltac:(cbn; lia)) as H.
  cbv beta zeta in H. cbv zeta. lia.
Qed.

Lemma dist_long_fields : forall i len, i < 30 -> len < 16 ->
  let e := u16 (N.lor (N.lor i (N.shiftl (aget rfc_dist_extra i) 5)) (N.shiftl len 10)) in
  N.shiftr e 10 = len /\ N.land e 31 = i.
Proof.
  intros i len Hi Hl.
  pose proof (allb2_spec 30 16 (fun i len =>
     let e := u16 (N.lor (N.lor i (N.shiftl (aget rfc_dist_extra i) 5)) (N.shiftl len 10)) in
     (N.shiftr e 10 =? len) && (N.land e 31 =? i))
     ltac:(vm_compute; reflexivity) i len ltac:(cbn; lia) ltac:(cbn; lia)) as H.
  cbv beta zeta in H. cbv zeta. lia.
Qed.

Lemma dist_pointer_fields : forall base ml, base < 81 -> ml < 16 ->
  let e := u16 (N.lor (N.lor base (N.shiftl ml 11)) smallFlagBit) in
  N.land e smallFlagBit <> 0 /\ N.shiftr (sub32 e smallFlagBit) 11 = ml /\ N.land e 511 = base.
Proof.
  intros base ml Hb Hm.
  pose proof (allb2_spec 81 16 (fun base ml =>
     let e := u16 (N.lor (N.lor base (N.shiftl ml 11)) smallFlagBit) in
     negb (N.land e smallFlagBit =? 0) && (N.shiftr (sub32 e smallFlagBit) 11 =? ml)
     && (N.land e 511 =? base))
     ltac:(vm_compute; reflexivity) base ml ltac:(cbn; lia) ltac:(cbn; lia)) as H.
  cbv beta zeta in H. cbv zeta. lia.
Qed.

Lemma br_invalid_same : forall b,
  br_set_len (br_drop b 0) (r_len (br_drop b 0) - Z.of_N 0)%Z = b.
Proof.
  intros [bits len inp inl]. unfold br_set_len, br_drop. cbn [r_bits r_len r_in r_inlen].
  rewrite N.shiftr_0_r. f_equal. lia.
Qed.

(* ---------------------------------------------------------------- the lookup *)
Section DistLookup.
Variables (codes0 : arr) (n : N) (count cl short1 sh lg codes' : arr) (lcl : N).
Hypothesis OK : codes_ok codes0 n count.
Hypothesis SO : sort_ok codes0 n cl.
Hypothesis HS : short_ok false codes0 n short1.
Hypothesis INV : LInv codes0 n cl short1 (llen codes0 n) sh lg codes' lcl.

Lemma f32 : 32 <= N.of_nat 32.
Proof. cbn. lia. Qed.

Lemma all_marked : forall s, islong codes0 n s -> Mk codes0 n codes' s.
Proof.
  intros s HL. destruct (sym_surj codes0 n cl n 32%nat SO (N.le_refl n) f32 s HL) as (p & Hp & <-).
  apply (li_done _ _ _ _ _ _ _ _ _ INV p Hp).
Qed.

Lemma islong_dec : forall x s,
  (islong codes0 n s /\ cR codes0 s mod 1024 = x) \/ ~ (islong codes0 n s /\ cR codes0 s mod 1024 = x).
Proof.
  intros x s. unfold islong.
  destruct (N.lt_ge_cases s n) as [H1|H1]; [|right; intros [[H _] _]; lia].
  destruct (N.le_gt_cases 11 (cL codes0 s)) as [H2|H2]; [|right; intros [[_ H] _]; lia].
  destruct (N.eq_dec (cR codes0 s mod 1024) x) as [H3|H3]; [|right; intros [_ H]; contradiction].
  left. auto.
Qed.

(* a short code and a long code never share the low bits *)
Lemma short_long_clash : forall v i s,
  matches codes0 n v i -> cL codes0 i <= 10 -> islong codes0 n s ->
  cR codes0 s mod 1024 = v mod 1024 -> False.
Proof.
  intros v i s (Hi & Li & Mi) H10 [Hs Ls] E.
  apply (ck_pf _ _ _ OK i s Hi Hs); try lia.
  - intros ->. lia.
  - rewrite <- Mi.
    change 1024 with (2 ^ 10) in E.
    rewrite <- (mod_mod_pow2 (cR codes0 s) (cL codes0 i) 10 H10), E.
    apply mod_mod_pow2. exact H10.
Qed.

Lemma long_match_split : forall v j, islong codes0 n j ->
  (v mod 2 ^ cL codes0 j = cR codes0 j <->
   (v mod 1024 = cR codes0 j mod 1024 /\ (v / 1024) mod 2 ^ gW codes0 j = gV codes0 j)).
Proof.
  intros v j [Hj Lj]. unfold gW, gV.
  replace (cL codes0 j) with (10 + (cL codes0 j - 10)) at 1 by lia.
  apply split_match.
Qed.

Lemma dist_lookup : forall ls ll b,
  (forall i, matches codes0 n (r_bits b) i ->
     dist_decode (mkTB ls ll sh lg) b = Some (i, br_drop b (cL codes0 i))) /\
  ((forall i, ~ matches codes0 n (r_bits b) i) ->
     dist_decode (mkTB ls ll sh lg) b = Some (31, b)).
Proof.
  intros ls ll b. set (v := r_bits b).
  pose proof (ck_n _ _ _ OK) as Hn30.
  assert (Hx1 : v mod 1024 < 1024) by (apply N.mod_lt; lia).
  unfold dist_decode. cbn [distShort distLong]. cbv zeta. fold v. rewrite land_1023.
  destruct (bounded_ex_dec _ (islong_dec (v mod 1024)) (N.to_nat n)) as [(s & Hs & HLs & Exs)|HNL].
  - (* the low bits are those of a long code: pointer entry *)
    pose proof (all_marked s HLs) as MS.
    destruct (li_groups _ _ _ _ _ _ _ _ _ INV s MS) as (base & ml & G1 & G2 & G3 & G4 & G5).
    pose proof (li_lcl _ _ _ _ _ _ _ _ _ INV) as Hl80.
    rewrite Exs in G1, G4, G5. rewrite G1.
    pose proof (pow2_gt0 (ml - 10)) as Hg0.
    destruct (dist_pointer_fields base ml ltac:(lia) ltac:(lia)) as (F1 & F2 & F3).
    cbv zeta in F1, F2, F3.
    destruct (N.eqb_spec (N.land (u16 (N.lor (N.lor base (N.shiftl ml 11)) smallFlagBit)) smallFlagBit) 0)
      as [E0|_]; [contradiction|].
    rewrite F2, F3.
    assert (Ho : ones32 ml = N.ones ml).
    { unfold ones32. destruct (N.leb_spec 32 ml); [lia|reflexivity]. }
    rewrite Ho, N.land_ones.
    assert (Hvm : v mod 2 ^ ml < 65536).
    { apply N.lt_le_trans with (2 ^ ml); [apply N.mod_lt; apply pow2_ne0|].
      change 65536 with (2 ^ 16). apply pow2_le_mono. lia. }
    rewrite (u16_small (v mod 2 ^ ml)) by exact Hvm.
    rewrite N.shiftr_div_pow2. change (2 ^ 10) with 1024.
    assert (Ey : v mod 2 ^ ml / 1024 = (v / 1024) mod 2 ^ (ml - 10)).
    { replace ml with (10 + (ml - 10)) at 1 by lia. apply div1024_mod. }
    set (y := v mod 2 ^ ml / 1024) in *.
    assert (Hy : y < 2 ^ (ml - 10)) by (rewrite Ey; apply N.mod_lt; apply pow2_ne0).
    rewrite (u16_small (base + y)) by lia.
    destruct (N.leb_spec 80 (base + y)) as [H80|_]; [lia|].
    assert (Hyw : forall j, islong codes0 n j -> cR codes0 j mod 1024 = v mod 1024 ->
               y mod 2 ^ gW codes0 j = (v / 1024) mod 2 ^ gW codes0 j).
    { intros j HLj Exj. rewrite Ey. apply mod_mod_pow2.
      specialize (G4 j HLj Exj). unfold gW. lia. }
    destruct (G5 y Hy) as [(j & (HLj & Exj) & Mj & Ej)|(A & Ej)].
    + rewrite Ej. unfold lentry.
      destruct (islong_facts codes0 n count n 32%nat OK (N.le_refl n) f32 j HLj) as (J1 & _ & _ & J4 & _).
      destruct (dist_long_fields j (cL codes0 j) J4 ltac:(lia)) as (F4 & F5).
      cbv zeta in F4, F5. rewrite F4, F5.
      assert (Hm : matches codes0 n v j).
      { destruct HLj as [Hj Lj]. split; [exact Hj|]. split; [lia|].
        apply (long_match_split v j (conj Hj Lj)). split; [symmetry; exact Exj|].
        rewrite <- (Hyw j (conj Hj Lj) Exj). exact Mj. }
      destruct (N.eqb_spec (cL codes0 j) 0) as [E0|_]; [destruct HLj; lia|].
      split.
      * intros i Hi. rewrite (matches_unique codes0 n count v i j OK Hi Hm). reflexivity.
      * intros HN. exfalso. exact (HN j Hm).
    + rewrite Ej. change (N.shiftr 0 10) with 0. change (0 =? 0) with true. cbv iota.
      rewrite br_invalid_same. change (N.land invalidSymbolValue 31) with 31.
      split; [|intros _; reflexivity].
      intros i Hi. exfalso.
      destruct (N.le_gt_cases (cL codes0 i) 10) as [H10|H11].
      * exact (short_long_clash v i s Hi H10 HLs Exs).
      * destruct Hi as (Hi & Li & Mi).
        assert (HLi : islong codes0 n i) by (split; [exact Hi|lia]).
        apply (long_match_split v i HLi) in Mi. destruct Mi as [M1 M2].
        apply (A i (conj HLi (eq_sym M1))).
        rewrite (Hyw i HLi (eq_sym M1)). exact M2.
  - (* no long code has these low bits: plain short entry *)
    assert (Esh : aget sh (v mod 1024) = aget short1 (v mod 1024)).
    { apply (li_short _ _ _ _ _ _ _ _ _ INV). intros s [_ HL] E.
      destruct HL as [Hs Ls]. apply (HNL s ltac:(lia)). split; [split; assumption|exact E]. }
    rewrite Esh.
    destruct (HS (v mod 1024) Hx1) as [(j & (A & B & C) & M & E)|(A & E)].
    + assert (Hm : matches codes0 n v j).
      { split; [exact A|]. split; [exact B|]. rewrite <- M. symmetry.
        change 1024 with (2 ^ 10). apply mod_mod_pow2. exact C. }
      rewrite E. unfold sentry.
      destruct (dist_short_fields j (cL codes0 j) ltac:(lia) ltac:(lia)) as (F1 & F2 & F3).
      cbv zeta in F1, F2, F3. rewrite F1. change (0 =? 0) with true. cbv iota.
      rewrite F2, F3.
      destruct (N.eqb_spec (cL codes0 j) 0) as [E0|_]; [contradiction|].
      split.
      * intros i Hi. rewrite (matches_unique codes0 n count v i j OK Hi Hm). reflexivity.
      * intros HN. exfalso. exact (HN j Hm).
    + rewrite E. change (N.land 0 smallFlagBit =? 0) with true. cbv iota.
      change (N.shiftr 0 11) with 0. change (0 =? 0) with true. cbv iota.
      rewrite br_invalid_same. change (N.land invalidSymbolValue 31) with 31.
      split; [|intros _; reflexivity].
      intros i (Hi & Li & Mi). exfalso.
      destruct (N.le_gt_cases (cL codes0 i) 10) as [H10|H11].
      * apply (A i).
        -- split; [exact Hi|]. split; [exact Li|exact H10].
        -- rewrite <- Mi. change 1024 with (2 ^ 10). apply mod_mod_pow2. exact H10.
      * apply (HNL i ltac:(lia)). split; [split; [exact Hi|lia]|].
        rewrite <- Mi. change 1024 with (2 ^ 10). apply mod_mod_pow2. lia.
Qed.

End DistLookup.

(* ---------------------------------------------------------------- gen_small false *)
Lemma dist_empty : forall ls ll lg b, dist_decode (mkTB ls ll aempty lg) b = Some (31, b).
Proof.
  intros ls ll lg b. unfold dist_decode. cbn [distShort distLong]. cbv zeta. rewrite aget_empty.
  change (N.land 0 smallFlagBit =? 0) with true. cbv iota.
  change (N.shiftr 0 11) with 0. change (0 =? 0) with true. cbv iota.
  rewrite br_invalid_same. reflexivity.
Qed.

Lemma small_fuel_32 : 32 <= N.of_nat small_fuel.
Proof. apply N.leb_le. vm_compute. reflexivity. Qed.

Theorem gen_small_dist : forall codes n count sh0 lg0 sh lg codes',
  codes_ok codes n count ->
  gen_small false sh0 lg0 codes n count n = (sh, lg, codes', ENone) ->
  forall ls ll b,
    (forall i, matches codes n (r_bits b) i ->
       dist_decode (mkTB ls ll sh lg) b = Some (i, br_drop b (cL codes i))) /\
    ((forall i, ~ matches codes n (r_bits b) i) ->
       dist_decode (mkTB ls ll sh lg) b = Some (31, b)).
Proof.
  intros codes n count sh0 lg0 sh lg codes' OK H ls ll b.
  rewrite gen_small_eq in H.
  pose proof (gs_ct_spec codes n count OK) as Hct.
  set (ct := gs_ct count) in *. cbv zeta in H.
  destruct (N.eqb_spec (aget ct 16) 0) as [E16|E16].
  { inversion H; subst sh lg codes'. rewrite Hct in E16 by lia.
    rewrite dist_empty. split; [|intros _; reflexivity].
    intros i Hi. exfalso. exact (no_codes codes n count OK E16 _ _ Hi). }
  destruct (gs_sort_spec codes n count ct OK Hct) as (cl & ctt & Es & SO).
  rewrite Es in H. cbv beta iota in H.
  rewrite Hct in E16 by lia.
  pose proof (short_phase false codes n count cl ct n OK SO ltac:(lia) Hct sh0 E16) as HS.
  cbv zeta in HS.
  match type of HS with short_ok _ _ _ (fst ?e) => destruct e as [sh1 cs1] end.
  cbn [fst] in HS.
  rewrite (Hct 11), (Hct 16) in H by lia.
  assert (Hsub : sub32 (ctv codes n 16) (ctv codes n 11) = llen codes n).
  { unfold sub32, subw, llen.
    pose proof (ctv_mono codes n 11 16 ltac:(lia) ltac:(lia)).
    destruct (N.leb_spec (ctv codes n 11) (ctv codes n 16)); [reflexivity|lia]. }
  rewrite Hsub in H. fold (lstart codes n) in H.
  destruct (gs_long small_fuel false sh1 lg0 codes cl n (lstart codes n) (llen codes n))
    as [[[[sh2 lg2] cd2] lc2] pan2] eqn:EL.
  inversion H; subst sh2 lg2 cd2 pan2. clear H.
  pose proof (gs_long_inv codes n count cl n small_fuel OK SO (N.le_refl n) small_fuel_32
                sh1 lg0 sh lg codes' lc2 EL) as INV.
  exact (dist_lookup codes n count cl sh1 sh lg codes' lc2 OK SO HS INV ls ll b).
Qed.

(* ---------------------------------------------------------------- gen_dist *)
Lemma setCodes_bad_same : forall table off n count,
  snd (setCodes table off n count) = true -> fst (setCodes table off n count) = table.
Proof.
  intros table off n count. rewrite setCodes_eq. cbv zeta.
  destruct (32768 <? u32 (aget (sc_nc count) 15 + aget count 15)); [reflexivity|].
  destruct (forN 0 n (sc_step off) (table, sc_nc count)) as [t nc]. cbn [snd]. discriminate.
Qed.

Lemma copy_codes : forall huff' base k i,
  aget (forN 0 k (fun i t => aset t i (aget huff' (base + i))) aempty) i
  = if i <? k then aget huff' (base + i) else 0.
Proof.
  intros huff' base k i.
  apply (forN_ind arr (fun j t => aget t i = if i <? j then aget huff' (base + i) else 0)).
  - lia.
  - rewrite aget_empty. destruct (N.ltb_spec i 0); [lia|reflexivity].
  - intros j t Hj IH. rewrite aget_aset. destruct (N.eqb_spec i j) as [->|Hne].
    + destruct (N.ltb_spec j (j + 1)); [reflexivity|lia].
    + rewrite IH. destruct (N.ltb_spec i j); destruct (N.ltb_spec i (j + 1)); try reflexivity; lia.
Qed.

Theorem gen_dist : gen_dist_statement.
Proof.
  unfold gen_dist_statement. intros dl huff count sh0 lg0 Hin.
  pose proof Hin as (HL & HF & Hh & Hc).
  assert (HL1000 : (length dl <= 1000)%nat) by lia.
  pose proof (setCodes_bad dl count huff 286 30 HL1000 HF Hc) as Hbad.
  pose proof (setCodes_codes dl huff 286 30 count Hin ltac:(lia)) as Hcodes.
  pose proof (setCodes_bad_same huff 286 30 count) as Hsame.
  destruct (setCodes huff 286 30 count) as [huff' bad].
  cbn [fst snd] in Hbad, Hcodes, Hsame.
  split; [exact Hbad|]. split.
  { intros i Hi. destruct bad.
    - rewrite Hsame by reflexivity. reflexivity.
    - symmetry in Hbad. destruct (Hcodes Hbad) as [Hout _]. apply Hout. left. exact Hi. }
  intros Hb. subst bad. destruct (Hcodes Hb) as [_ Hcd].
  set (codes := forN 0 30 (fun i t => aset t i (aget huff' (286 + i))) aempty).
  assert (Hcd' : forall i, i < 30 -> aget codes i = code_entry dl (N.to_nat i)).
  { intros i Hi. unfold codes. rewrite copy_codes.
    destruct (N.ltb_spec i 30); [|lia]. apply Hcd. exact Hi. }
  destruct (codes_ok_of_lens dl codes 30 count HL HF ltac:(lia) Hb Hcd' Hc) as (OK & HcL & HcR).
  destruct (gen_small false sh0 lg0 codes 30 count 30) as [[[sh lg] cd] e] eqn:EG.
  intros He ls ll. subst e. unfold dist_tab_ok. intros b.
  destruct (gen_small_dist codes 30 count sh0 lg0 sh lg cd OK EG ls ll b) as [D1 D2].
  destruct (decoder_transfer dl codes 30 HL HF HcL HcR count (dist_decode (mkTB ls ll sh lg) b) b 31 OK D1 D2)
    as [T1 T2].
  split; [|exact T2].
  intros d len c HIn HM. destruct (T1 d len c HIn HM) as [E Hd].
  assert (Hd30 : (d <? 30)%nat = true) by (apply Nat.ltb_lt; lia).
  rewrite Hd30. exact E.
Qed.

Print Assumptions gen_dist.
