(* EngineCompleteSmallFit.v -- a complete distance code always fits the 80 entries of the long
   table: dist_fits_complete.  Canonical codes are left packed: in the sorted code list the
   code value, left aligned to 15 bits, is the cumulated measure Mpos of the preceding codes;
   a 10-bit prefix group that follows a group with longest code m tiles a whole 32-block with
   pieces of size <= 2^(15-m), so it has at least 2^(m-10) members. *)
From Coq Require Import List NArith ZArith Bool Lia ZifyBool ZifyNat ZifyN.
From Verif Require Import Bits Huffman Inflate HuffmanProofs.
From Verif Require EngineRefineBits.
From Verif Require Import Base EngineTables Engine EngineRefineSpec EngineCompleteSpecB.
From Verif Require Import EngineRefineSmallBase EngineRefineSmallCodes EngineRefineSmallSort
                          EngineRefineSmallShort EngineRefineSmallClc EngineRefineSmallLong
                          EngineRefineSmallDist EngineCompleteSmall.
Import ListNotations.
Open Scope N_scope.

(* ---------------------------------------------------------------- the counting sort is stable:
   the slot of a symbol within the segment of its length is its rank among the symbols of
   that length *)
Lemma gs_sort_pos : forall codes n count ct cl ctt pan, codes_ok codes n count ->
  (forall k, 1 <= k <= 16 -> aget ct k = ctv codes n k) ->
  gs_sort codes n ct = (cl, ctt, pan) ->
  forall x k, 1 <= x <= 15 -> ctv codes n x <= k < ctv codes n (x + 1) ->
    k = ctv codes n x + cnt_upto codes x (N.to_nat (aget cl k)).
Proof.
  intros codes n count ct cl ctt pan OK Hct HS.
  pose proof (ck_n _ _ _ OK) as Hn.
  assert (Hbound : forall j x, j <= n -> 1 <= x <= 15 ->
            ctv codes n x + cnt_upto codes x (N.to_nat j) <= ctv codes n (x + 1)).
  { intros j x Hj Hx. rewrite ctv_step by lia.
    pose proof (cnt_upto_mono codes x (N.to_nat j) (N.to_nat n) ltac:(lia)). lia. }
  unfold gs_sort in HS.
  match type of HS with forN 0 n ?f ?s = _ =>
    pose proof (forN_ind _ (fun j (st : arr * arr * bool) =>
      let '(cl, ctt, pan) := st in
      (forall x, 1 <= x <= 15 -> aget ctt x = ctv codes n x + cnt_upto codes x (N.to_nat j)) /\
      (forall x k, 1 <= x <= 15 -> ctv codes n x <= k < aget ctt x ->
         k = ctv codes n x + cnt_upto codes x (N.to_nat (aget cl k)))) f 0 n s ltac:(lia)) as HI
  end.
  rewrite HS in HI. destruct HI as (I2 & I3).
  - split.
    + intros x Hx. change (N.to_nat 0) with 0%nat. cbn [cnt_upto]. rewrite Hct by lia. lia.
    + intros x k Hx Hk. rewrite Hct in Hk by lia. lia.
  - intros j [[cl1 ctt1] pan1] Hj (J2 & J3).
    fold (cL codes j).
    destruct (N.eqb_spec (cL codes j) 0) as [E0|E0].
    + split.
      * intros x Hx. rewrite cnt_upto_succ, (J2 x Hx).
        destruct (N.eqb_spec (cL codes j) x); lia.
      * exact J3.
    + set (len := cL codes j) in *.
      assert (Hlen : 1 <= len <= 15) by (pose proof (ck_len _ _ _ OK j ltac:(lia)) as H; fold len in H; lia).
      pose proof (J2 len Hlen) as Hins.
      pose proof (Hbound (j + 1) len ltac:(lia) Hlen) as Hb1.
      rewrite cnt_upto_succ in Hb1. fold len in Hb1. rewrite N.eqb_refl in Hb1.
      pose proof (ctv_le_n codes n (len + 1)) as Hb2.
      destruct (N.leb_spec 32 (aget ctt1 len)) as [E32|E32]; [lia|].
      assert (Hsep : forall x k, 1 <= x <= 15 -> x <> len -> ctv codes n x <= k < aget ctt1 x ->
                k <> aget ctt1 len).
      { intros x k Hx Hne Hk.
        pose proof (Hbound j x ltac:(lia) Hx) as Hb3. rewrite <- (J2 x Hx) in Hb3.
        destruct (N.lt_ge_cases x len) as [Hlt|Hge].
        - pose proof (ctv_mono codes n (x + 1) len ltac:(lia) ltac:(lia)). lia.
        - pose proof (ctv_mono codes n (len + 1) x ltac:(lia) ltac:(lia)). lia. }
      split.
      * intros x Hx. rewrite cnt_upto_succ. fold len. rewrite aget_aset.
        destruct (N.eqb_spec x len) as [->|Hne].
        -- rewrite N.eqb_refl. lia.
        -- rewrite (J2 x Hx). destruct (N.eqb_spec len x); lia.
      * intros x k Hx Hk. rewrite aget_aset in Hk.
        destruct (N.eqb_spec x len) as [->|Hne].
        -- rewrite aget_aset. destruct (N.eqb_spec k (aget ctt1 len)) as [->|Hk2].
           ++ exact Hins.
           ++ apply J3; [exact Hx|lia].
        -- rewrite aget_aset_other by (apply (Hsep x k Hx Hne Hk)). apply J3; assumption.
  - intros x k Hx Hk. apply I3; [exact Hx|]. rewrite (I2 x Hx), <- ctv_step by lia. exact Hk.
Qed.

(* ---------------------------------------------------------------- small facts *)
Lemma max_position : forall (f : N -> bool) (n : nat) p0, p0 < N.of_nat n -> f p0 = true ->
  exists p, p0 <= p < N.of_nat n /\ f p = true /\ forall p', p < p' < N.of_nat n -> f p' = false.
Proof.
  intros f n. induction n as [|n IH]; intros p0 Hp0 Hf.
  - cbn in Hp0. lia.
  - destruct (f (N.of_nat n)) eqn:En.
    + exists (N.of_nat n). split; [lia|]. split; [exact En|]. intros p' Hp'. lia.
    + assert (Hp0' : p0 < N.of_nat n).
      { destruct (N.eq_dec p0 (N.of_nat n)) as [->|Hne]; [congruence|lia]. }
      destruct (IH p0 Hp0' Hf) as (p & Hp & Fp & Hmax).
      exists p. split; [lia|]. split; [exact Fp|].
      intros p' Hp'. destruct (N.eq_dec p' (N.of_nat n)) as [->|Hne]; [exact En|].
      apply Hmax. lia.
Qed.

Lemma rcode10_inj : forall a b, a < 1024 -> b < 1024 -> rcode 10 a = rcode 10 b -> a = b.
Proof.
  intros a b Ha Hb H. rewrite !rcode_rev in H.
  apply N_of_bits_inj in H; [|rewrite !rev_length, !bits_of_N_length; reflexivity].
  apply (f_equal (@rev bool)) in H. rewrite !rev_involutive in H.
  apply (f_equal N_of_bits) in H.
  rewrite !N_of_bits_of_N in H by (change (2 ^ N.of_nat 10) with 1024; assumption).
  exact H.
Qed.

Lemma rcode_low10 : forall (x : nat) C, (10 <= x)%nat ->
  rcode x C mod 1024 = rcode 10 (C / 2 ^ N.of_nat (x - 10)).
Proof.
  intros x C Hx. rewrite !rcode_rev.
  change 1024 with (2 ^ N.of_nat 10).
  rewrite N_of_bits_firstn_mod by (rewrite rev_length, bits_of_N_length; exact Hx).
  rewrite firstn_rev, bits_of_N_length.
  rewrite EngineRefineBits.skipn_bits_of_N by lia.
  replace (x - (x - 10))%nat with 10%nat by lia.
  rewrite N.shiftr_div_pow2. reflexivity.
Qed.

(* ---------------------------------------------------------------- canonical codes are left packed *)
Section Packed.
Variables (dl : lens) (codes : arr) (n : N) (count cl : arr).
Hypothesis HL : (length dl <= N.to_nat n)%nat.
Hypothesis HF : Forall (fun y => (y <= 15)%nat) dl.
Hypothesis HcL : forall i, i < n -> cL codes i = N.of_nat (nth (N.to_nat i) dl 0%nat).
Hypothesis HcR : forall i, i < n -> cR codes i = rcode (nth (N.to_nat i) dl 0%nat) (ccode dl (N.to_nat i)).
Hypothesis OK : codes_ok codes n count.
Hypothesis SO : sort_ok codes n cl.
Hypothesis SP : forall x k, 1 <= x <= 15 -> ctv codes n x <= k < ctv codes n (x + 1) ->
                k = ctv codes n x + cnt_upto codes x (N.to_nat (aget cl k)).

(* the measure of a code, in units of 2^-15 *)
Definition szc (s : N) : N := 2 ^ (15 - cL codes s).

(* cumulated measure of the first k codes of the sorted list *)
Fixpoint Mpos (k : nat) : N :=
  match k with O => 0 | S k' => Mpos k' + szc (aget cl (N.of_nat k')) end.
Definition MposN (k : N) : N := Mpos (N.to_nat k).

Lemma MposN_succ : forall k, MposN (k + 1) = MposN k + szc (aget cl k).
Proof.
  intros k. unfold MposN. replace (N.to_nat (k + 1)) with (S (N.to_nat k)) by lia.
  cbn [Mpos]. rewrite N2Nat.id. reflexivity.
Qed.

Lemma MposN_mono : forall a b, a <= b -> MposN a <= MposN b.
Proof.
  intros a b H. replace b with (a + N.of_nat (N.to_nat (b - a))) by lia.
  generalize (N.to_nat (b - a)) as d. induction d as [|d IH].
  - replace (a + N.of_nat 0) with a by lia. lia.
  - replace (a + N.of_nat (S d)) with (a + N.of_nat d + 1) by lia. rewrite MposN_succ. lia.
Qed.

Lemma seg_len : forall x k, 1 <= x <= 15 -> ctv codes n x <= k < ctv codes n (x + 1) ->
  aget cl k < n /\ cL codes (aget cl k) = x.
Proof.
  intros x k Hx Hk.
  apply (proj2 (sort_segment codes n count cl x (aget cl k) OK SO Hx)).
  exists k. split; [exact Hk|reflexivity].
Qed.

Lemma MposN_seg : forall x (d : nat), 1 <= x <= 15 ->
  ctv codes n x + N.of_nat d <= ctv codes n (x + 1) ->
  MposN (ctv codes n x + N.of_nat d) = MposN (ctv codes n x) + N.of_nat d * 2 ^ (15 - x).
Proof.
  intros x d Hx. induction d as [|d IH]; intros Hd.
  - replace (ctv codes n x + N.of_nat 0) with (ctv codes n x) by lia. lia.
  - replace (ctv codes n x + N.of_nat (S d)) with (ctv codes n x + N.of_nat d + 1) by lia.
    rewrite MposN_succ, IH by lia.
    destruct (seg_len x (ctv codes n x + N.of_nat d) Hx ltac:(lia)) as [_ E].
    unfold szc. rewrite E. lia.
Qed.

Lemma cnt_upto_dl : forall x (k : nat), 1 <= x -> N.of_nat k <= n ->
  cnt_upto codes x k = occ (firstn k dl) (N.to_nat x).
Proof.
  intros x k Hx Hk. apply cnt_upto_occ; [exact Hx|].
  intros i Hi. rewrite HcL by lia. rewrite Nat2N.id. reflexivity.
Qed.

Lemma cnt_upto_n : forall x, 1 <= x -> cnt_upto codes x (N.to_nat n) = cnt dl (N.to_nat x).
Proof.
  intros x Hx. rewrite cnt_upto_dl by lia. rewrite firstn_all2 by exact HL.
  unfold cnt. assert (E : Nat.eqb (N.to_nat x) 0 = false) by (apply Nat.eqb_neq; lia).
  rewrite E. reflexivity.
Qed.

Lemma MposN_ctv : forall x : nat, (S x <= 15)%nat ->
  MposN (ctv codes n (N.of_nat (S x))) = first_code dl (S x) * 2 ^ N.of_nat (15 - S x).
Proof.
  induction x as [|x IH]; intros Hx.
  - change (N.of_nat 1) with 1. rewrite ctv_1. cbn [first_code Nat.eqb]. reflexivity.
  - replace (N.of_nat (S (S x))) with (N.of_nat (S x) + 1) by lia.
    rewrite ctv_step by lia.
    replace (cnt_upto codes (N.of_nat (S x)) (N.to_nat n))
      with (N.of_nat (N.to_nat (cnt_upto codes (N.of_nat (S x)) (N.to_nat n)))) by lia.
    rewrite MposN_seg.
    + rewrite IH by lia. rewrite N2Nat.id. rewrite cnt_upto_n by lia. rewrite Nat2N.id.
      rewrite (first_code_S dl (S x)).
      replace (15 - N.of_nat (S x)) with (N.of_nat (15 - S x)) by lia.
      replace (15 - S x)%nat with (S (15 - S (S x))) by lia. rewrite pow2_S. lia.
    + lia.
    + rewrite N2Nat.id. rewrite <- ctv_step by lia. lia.
Qed.

Lemma MposN_total : MposN (ctv codes n 16) = kraft 15 dl.
Proof.
  change 16 with (N.of_nat 15 + 1). rewrite ctv_step by lia.
  replace (cnt_upto codes (N.of_nat 15) (N.to_nat n))
    with (N.of_nat (N.to_nat (cnt_upto codes (N.of_nat 15) (N.to_nat n)))) by lia.
  rewrite MposN_seg.
  - rewrite (MposN_ctv 14) by lia. rewrite N2Nat.id. rewrite cnt_upto_n by lia. rewrite Nat2N.id.
    change (15 - N.of_nat 15) with 0. change (N.of_nat (15 - 15)) with 0.
    rewrite <- (kraft_first_code 15 dl HF). change (2 ^ 0) with 1. lia.
  - lia.
  - rewrite N2Nat.id. rewrite <- ctv_step by lia. lia.
Qed.

(* position k of the sorted list holds the code with left-aligned value MposN k *)
Lemma MposN_val : forall x k, 1 <= x <= 15 -> ctv codes n x <= k < ctv codes n (x + 1) ->
  MposN k = ccode dl (N.to_nat (aget cl k)) * 2 ^ (15 - x).
Proof.
  intros x k Hx Hk. destruct (seg_len x k Hx Hk) as [Hs Ls].
  pose proof (SP x k Hx Hk) as Ek.
  rewrite (cnt_upto_dl x (N.to_nat (aget cl k))) in Ek by lia.
  assert (Enth : nth (N.to_nat (aget cl k)) dl 0%nat = N.to_nat x).
  { rewrite (HcL _ Hs) in Ls. lia. }
  unfold ccode. rewrite Enth.
  set (d := occ (firstn (N.to_nat (aget cl k)) dl) (N.to_nat x)) in *.
  rewrite Ek at 1.
  replace d with (N.of_nat (N.to_nat d)) at 1 by lia.
  rewrite MposN_seg by (try lia; rewrite N2Nat.id; lia).
  rewrite N2Nat.id.
  destruct (N.to_nat x) as [|x'] eqn:Ex; [lia|].
  replace x with (N.of_nat (S x')) by lia.
  rewrite (MposN_ctv x') by lia.
  replace (15 - N.of_nat (S x')) with (N.of_nat (15 - S x')) by lia. lia.
Qed.


(* ------------------------------------------------ long codes: 10-bit prefixes and 32-blocks *)
Hypothesis Hkraft : kraft 15 dl <= 32768.

Lemma long_pos : forall k, ctv codes n 11 <= k < ctv codes n 16 ->
  exists x, 11 <= x <= 15 /\ ctv codes n x <= k < ctv codes n (x + 1) /\
            aget cl k < n /\ cL codes (aget cl k) = x.
Proof.
  intros k Hk. destruct (so_in _ _ _ SO k ltac:(lia)) as (A & B & C).
  pose proof (ck_len _ _ _ OK _ A) as H15.
  exists (cL codes (aget cl k)). split; [|split; [exact C|split; [exact A|reflexivity]]].
  split; [|exact H15].
  destruct (N.le_gt_cases 11 (cL codes (aget cl k))) as [H|H]; [exact H|exfalso].
  pose proof (ctv_mono codes n (cL codes (aget cl k) + 1) 11 ltac:(lia) ltac:(lia)). lia.
Qed.

Lemma MposN_lt : forall k, k < ctv codes n 16 -> MposN k + szc (aget cl k) <= 32768.
Proof.
  intros k Hk. rewrite <- MposN_succ.
  pose proof (MposN_mono (k + 1) (ctv codes n 16) ltac:(lia)) as H. rewrite MposN_total in H. lia.
Qed.

Definition Pk (k : N) : N := MposN k / 32.

Lemma Pk_mono : forall a b, a <= b -> Pk a <= Pk b.
Proof. intros a b H. unfold Pk. apply N.div_le_mono; [lia|]. apply MposN_mono. exact H. Qed.

Lemma Pk_lt : forall k, k < ctv codes n 16 -> Pk k < 1024.
Proof.
  intros k Hk. unfold Pk. pose proof (MposN_lt k Hk) as H.
  pose proof (pow2_gt0 (15 - cL codes (aget cl k))) as Hp. unfold szc in H.
  apply N.div_lt_upper_bound; lia.
Qed.

Lemma pow_split_32 : forall x, 10 <= x <= 15 -> 2 ^ (15 - x) * 2 ^ (x - 10) = 32.
Proof.
  intros x Hx. rewrite <- N.pow_add_r. replace (15 - x + (x - 10)) with 5 by lia. reflexivity.
Qed.

Lemma long_fb : forall k, ctv codes n 11 <= k < ctv codes n 16 ->
  cR codes (aget cl k) mod 1024 = rcode 10 (Pk k).
Proof.
  intros k Hk. destruct (long_pos k Hk) as (x & Hx & Hseg & Hs & Ls).
  rewrite (HcR _ Hs).
  assert (Enth : nth (N.to_nat (aget cl k)) dl 0%nat = N.to_nat x).
  { rewrite (HcL _ Hs) in Ls. lia. }
  rewrite Enth. rewrite rcode_low10 by lia. f_equal.
  unfold Pk. rewrite (MposN_val x k ltac:(lia) Hseg).
  rewrite <- (pow_split_32 x ltac:(lia)).
  rewrite (N.mul_comm (ccode dl (N.to_nat (aget cl k)))).
  rewrite N.div_mul_cancel_l by apply pow2_ne0.
  replace (N.of_nat (N.to_nat x - 10)) with (x - 10) by lia. reflexivity.
Qed.

(* the interval of a long code lies inside its 32-block *)
Lemma long_block : forall k, ctv codes n 11 <= k < ctv codes n 16 ->
  MposN k + szc (aget cl k) <= 32 * (Pk k + 1).
Proof.
  intros k Hk. destruct (long_pos k Hk) as (x & Hx & Hseg & Hs & Ls).
  unfold Pk, szc. rewrite Ls. rewrite (MposN_val x k ltac:(lia) Hseg).
  set (C := ccode dl (N.to_nat (aget cl k))).
  pose proof (pow_split_32 x ltac:(lia)) as H32.
  set (z := 2 ^ (15 - x)) in *. set (w := 2 ^ (x - 10)) in *.
  assert (Hw : 0 < w) by apply pow2_gt0. assert (Hz : 0 < z) by apply pow2_gt0.
  rewrite <- H32.
  rewrite (N.mul_comm C z), N.div_mul_cancel_l by lia.
  pose proof (N.div_mod C w ltac:(lia)) as HD.
  pose proof (N.mod_lt C w ltac:(lia)) as HM.
  set (q := C / w) in *. set (r := C mod w) in *. nia.
Qed.

(* a run of codes of length >= m has measure at most (number of codes) * 2^(15-m) *)
Lemma run_measure : forall m b (d : nat), m <= 15 -> b + N.of_nat d <= ctv codes n 16 ->
  (forall k, b <= k < b + N.of_nat d -> m <= cL codes (aget cl k)) ->
  MposN (b + N.of_nat d) <= MposN b + N.of_nat d * 2 ^ (15 - m).
Proof.
  intros m b d Hm. induction d as [|d IH]; intros Hd Hk.
  - replace (b + N.of_nat 0) with b by lia. lia.
  - replace (b + N.of_nat (S d)) with (b + N.of_nat d + 1) by lia. rewrite MposN_succ.
    specialize (IH ltac:(lia) ltac:(intros k Hk'; apply Hk; lia)).
    specialize (Hk (b + N.of_nat d) ltac:(lia)).
    assert (szc (aget cl (b + N.of_nat d)) <= 2 ^ (15 - m)).
    { unfold szc. apply pow2_le_mono. lia. }
    lia.
Qed.

(* ------------------------------------------------ the long-code loop on a complete code *)
Variable fuel : nat.
Hypothesis Hfuel : 32 <= N.of_nat fuel.
Hypothesis Hcomplete : kraft 15 dl = 32768.

Local Notation SYM p := (sym codes n cl p).
Local Notation LLEN := (llen codes n).
Local Notation LSTART := (lstart codes n).
Local Notation MK cd s := (Mk codes n cd s).

Let W_sym_islong := sym_islong codes n cl n fuel SO (N.le_refl n) Hfuel.
Let W_sym_mono := sym_mono codes n count cl n fuel OK SO (N.le_refl n) Hfuel.
Let W_sym_inj := sym_inj codes n cl n fuel SO (N.le_refl n) Hfuel.
Let W_sym_surj := sym_surj codes n cl n fuel SO (N.le_refl n) Hfuel.
Let W_lstart_len := lstart_len codes n n fuel (N.le_refl n) Hfuel.
Let W_islong_facts := islong_facts codes n count n fuel OK (N.le_refl n) Hfuel.
Let W_cstate_len := cstate_len codes n count n fuel OK (N.le_refl n) Hfuel.
Let W_mk_code := mk_code codes n n fuel (N.le_refl n) Hfuel.
Let W_mk_ne := mk_ne codes n count n fuel OK (N.le_refl n) Hfuel.
Let W_Mk_dec := Mk_dec codes n n fuel (N.le_refl n) Hfuel.
Let W_unmarked_code := unmarked_code codes n n fuel (N.le_refl n) Hfuel.
Let W_marked_code := marked_code codes n count n fuel OK (N.le_refl n) Hfuel.
Let W_group_spec := group_spec codes n count cl n fuel OK SO (N.le_refl n) Hfuel.
Let W_fill_fold := fill_fold codes n count n fuel OK (N.le_refl n) Hfuel.

(* the length used for the group is the length of one of its collected members *)
Lemma group_spec2 : forall cd i fb, cstate codes n cd -> i < LLEN ->
  exists p, i <= p < LLEN /\
    fst (gs_group false cl cd LSTART LLEN i fb (hc_len (aget cd (SYM i)), [SYM i])) = cL codes (SYM p) /\
    In (SYM p) (snd (gs_group false cl cd LSTART LLEN i fb (hc_len (aget cd (SYM i)), [SYM i]))).
Proof.
  intros cd i fb CS Hi. unfold gs_group.
  match goal with |- exists p, _ /\ fst (forN _ _ ?f0 ?s0) = _ /\ _ =>
    apply (forN_ind (N * list N) (fun j (a : N * list N) =>
      exists p, i <= p < j /\ fst a = cL codes (SYM p) /\ In (SYM p) (snd a)) f0 (i + 1) LLEN s0)
  end.
  - lia.
  - exists i. cbn [fst snd]. split; [lia|]. split; [apply W_cstate_len; exact CS|left; reflexivity].
  - intros j [ml1 tl1] Hj (p & Hp & Ep & Ip). cbn [fst snd] in *.
    fold (SYM j).
    destruct (N.land (hc_code (aget cd (SYM j))) 1023 =? fb); cbn [fst snd].
    + exists j. split; [lia|]. split; [apply W_cstate_len; exact CS|left; reflexivity].
    + exists p. split; [lia|]. split; assumption.
Qed.

(* one iteration of the loop, started on an unmarked code *)
Lemma long_step_shape : forall short1 i sh lg cd lc,
  i < LLEN -> LInv codes n cl short1 i sh lg cd lc ->
  hc_code (aget cd (SYM i)) <> 65535 ->
  exists ml tl,
    (forall s, In s tl <-> s = SYM i \/
       exists j, i < j < LLEN /\ s = SYM j /\
                 N.land (hc_code (aget cd (SYM j))) 1023 = cR codes (SYM i) mod 1024) /\
    (exists p, i <= p < LLEN /\ ml = cL codes (SYM p) /\ In (SYM p) tl) /\
    11 <= ml <= 15 /\
    (80 < lc + 2 ^ (ml - 10) ->
     snd (gs_long_step fuel false cl n LSTART LLEN i (sh, lg, cd, lc, ENone)) = EInvalidBlock) /\
    (lc + 2 ^ (ml - 10) <= 80 ->
     exists sh' lg' cd',
       gs_long_step fuel false cl n LSTART LLEN i (sh, lg, cd, lc, ENone)
       = (sh', lg', cd', lc + 2 ^ (ml - 10), ENone) /\
       forall s, MK cd' s <-> MK cd s \/ In s tl).
Proof.
  intros short1 i sh lg cd lc Hi INV Em.
  pose proof W_lstart_len as HLL. pose proof (ck_n _ _ _ OK) as Hn30.
  pose proof (ctv_le_n codes n 16) as H16n.
  pose proof (li_codes _ _ _ _ _ _ _ _ _ INV) as CS.
  pose proof (W_sym_islong i Hi) as HLi.
  pose proof (W_unmarked_code cd (SYM i) CS Em) as Eli.
  pose proof (W_group_spec cd i (N.land (hc_code (aget cd (SYM i))) 1023) CS Hi) as HG.
  pose proof (group_spec2 cd i (N.land (hc_code (aget cd (SYM i))) 1023) CS Hi) as HG2.
  unfold gs_long_step. cbn [ierr_eqb negb]. cbv iota.
  destruct (N.leb_spec 32 (LSTART + i)) as [H32|_]; [lia|].
  fold (SYM i).
  destruct (N.eqb_spec (hc_code (aget cd (SYM i))) 65535) as [Em'|_]; [contradiction|].
  destruct (gs_group false cl cd LSTART LLEN i (N.land (hc_code (aget cd (SYM i))) 1023)
              (hc_len (aget cd (SYM i)), [SYM i])) as [ml tl].
  destruct HG as (ND & HIn & p & Hp & Eml & Hq).
  destruct HG2 as (p2 & Hp2 & Eml2 & Ip2). cbn [fst snd] in Eml2, Ip2.
  rewrite Eli in HIn. fold (cR codes (SYM i)) in HIn. rewrite land_1023 in HIn.
  rewrite Eli. fold (cR codes (SYM i)). rewrite land_1023.
  set (fb := cR codes (SYM i) mod 1024) in *.
  cbn [negb andb]. rewrite shiftl_1.
  pose proof (W_sym_islong p ltac:(lia)) as HLp.
  destruct (W_islong_facts _ HLp) as (Fp1 & _). destruct HLp as [_ Fp2].
  rewrite <- Eml in Fp1, Fp2.
  exists ml, tl. split; [exact HIn|]. split; [exists p2; split; [exact Hp2|split; assumption]|].
  split; [lia|].
  destruct (N.ltb_spec 80 (lc + 2 ^ (ml - 10))) as [H80|H80].
  { split; [intros _; reflexivity|intros H; lia]. }
  split; [intros H; lia|]. intros _.
  assert (K1 : forall s, In s tl -> islong codes n s /\ cL codes s <= ml).
  { intros s Hs. destruct (Hq s Hs) as (q & Hq1 & ->).
    split; [apply W_sym_islong; lia|]. rewrite Eml. apply W_sym_mono; lia. }
  rewrite frev_rev.
  destruct (W_fill_fold ml lc (rev tl) (forN lc (lc + 2 ^ (ml - 10)) (fun x t => aset t x 0) lg)
              cd (fun _ => False) ltac:(lia) H80) as (long2 & codes2 & EFold & C1 & C2 & C3 & C4).
  { apply NoDup_rev. exact ND. }
  { intros s Hs. apply in_rev in Hs. destruct (K1 s Hs) as [A B]. split; [exact A|].
    split; [|intros _; exact B].
    destruct (CS s) as [E|[E _]]; [left; exact E|right; exact E]. }
  { intros y Hy. rewrite zero_fill_spec.
    destruct (N.leb_spec lc (lc + y)); [|lia].
    destruct (N.ltb_spec (lc + y) (lc + 2 ^ (ml - 10))); [|lia]. cbn [andb].
    apply tspec_none. intros j []. }
  rewrite EFold.
  eexists. exists long2, codes2. split; [reflexivity|].
  intros s. split.
  - intros [E HL']. destruct (in_dec N.eq_dec s tl) as [Hs|Hs]; [right; exact Hs|].
    left. split; [|exact HL']. rewrite <- E. symmetry. apply C2.
    intros Hr. apply Hs. apply in_rev. exact Hr.
  - intros [[E HL']|Hs].
    + split; [|exact HL']. destruct (in_dec N.eq_dec s tl) as [Hs|Hs].
      * apply C1. apply in_rev in Hs. exact Hs.
      * rewrite C2; [exact E|]. intros Hr. apply Hs. apply in_rev. exact Hr.
    + split; [|apply (K1 s Hs)]. apply C1. apply in_rev in Hs. exact Hs.
Qed.

(* ------------------------------------------------ the potential: every unmarked code has a
   member of its group at a position >= lcl *)
Definition Pp (p : N) : N := Pk (LSTART + p).

Definition FitI (lc : N) (cd : arr) : Prop :=
  forall q, q < LLEN -> ~ MK cd (SYM q) -> exists q', q' < LLEN /\ Pp q' = Pp q /\ lc <= q'.

Lemma lpos : forall p, p < LLEN -> ctv codes n 11 <= LSTART + p < ctv codes n 16.
Proof. intros p Hp. pose proof W_lstart_len as H. unfold lstart in *. lia. Qed.

Lemma Pp_mono : forall p q, p <= q -> Pp p <= Pp q.
Proof. intros p q H. unfold Pp. apply Pk_mono. lia. Qed.

Lemma Pp_lt : forall p, p < LLEN -> Pp p < 1024.
Proof. intros p Hp. unfold Pp. apply Pk_lt. pose proof (lpos p Hp). lia. Qed.

Lemma sym_fb : forall p, p < LLEN -> cR codes (SYM p) mod 1024 = rcode 10 (Pp p).
Proof. intros p Hp. unfold sym, Pp. apply long_fb. apply lpos. exact Hp. Qed.

Lemma same_fb : forall p q, p < LLEN -> q < LLEN ->
  (cR codes (SYM p) mod 1024 = cR codes (SYM q) mod 1024 <-> Pp p = Pp q).
Proof.
  intros p q Hp Hq. rewrite (sym_fb p Hp), (sym_fb q Hq). split.
  - apply rcode10_inj; apply Pp_lt; assumption.
  - intros ->. reflexivity.
Qed.

Lemma fb_1023 : forall p, p < LLEN -> cR codes (SYM p) mod 1024 = 1023 -> Pp p = 1023.
Proof.
  intros p Hp H. rewrite (sym_fb p Hp) in H.
  apply rcode10_inj; [apply Pp_lt; exact Hp|lia|]. rewrite H. vm_compute. reflexivity.
Qed.

Lemma unmarked_R : forall cd s, cstate codes n cd -> ~ MK cd s -> hc_code (aget cd s) = cR codes s.
Proof.
  intros cd s CS HN. destruct (CS s) as [E|M]; [|contradiction]. rewrite E. reflexivity.
Qed.

Lemma fit_step : forall short1 i sh lg cd lc,
  i < LLEN -> LInv codes n cl short1 i sh lg cd lc -> FitI lc cd ->
  exists sh' lg' cd' lc',
    gs_long_step fuel false cl n LSTART LLEN i (sh, lg, cd, lc, ENone) = (sh', lg', cd', lc', ENone) /\
    FitI lc' cd'.
Proof.
  intros short1 i sh lg cd lc Hi INV FI.
  pose proof W_lstart_len as HLL. pose proof (ck_n _ _ _ OK) as Hn30.
  pose proof (ctv_le_n codes n 16) as H16n.
  pose proof (li_codes _ _ _ _ _ _ _ _ _ INV) as CS.
  destruct (N.eq_dec (hc_code (aget cd (SYM i))) 65535) as [Em|Em].
  { exists sh, lg, cd, lc. split; [|exact FI].
    unfold gs_long_step. cbn [ierr_eqb negb]. cbv iota.
    destruct (N.leb_spec 32 (LSTART + i)) as [H32|_]; [lia|].
    fold (SYM i). rewrite (proj2 (N.eqb_eq _ _) Em). reflexivity. }
  destruct (long_step_shape short1 i sh lg cd lc Hi INV Em)
    as (ml & tl & HIn & (p & Hp & Eml & Ip) & Hml & _ & HOK).
  assert (HNi : ~ MK cd (SYM i)).
  { intros [E _]. apply Em. rewrite E. apply W_mk_code. }
  destruct (FI i Hi HNi) as (q0 & Hq0 & Eq0 & Hlc0).
  assert (Hg32 : 2 ^ (ml - 10) <= 32).
  { change 32 with (2 ^ 5). apply pow2_le_mono. lia. }
  destruct (HOK ltac:(lia)) as (sh' & lg' & cd' & ES & K2).
  exists sh', lg', cd', (lc + 2 ^ (ml - 10)). split; [exact ES|].
  intros q Hq HNM.
  assert (HNq : ~ MK cd (SYM q)) by (intros M; apply HNM; apply K2; left; exact M).
  assert (HNt : ~ In (SYM q) tl) by (intros M; apply HNM; apply K2; right; exact M).
  assert (Hqi : i < q).
  { destruct (N.lt_trichotomy q i) as [Hlt|[->|Hgt]]; [|exfalso|exact Hgt].
    - exfalso. apply HNq. apply (li_done _ _ _ _ _ _ _ _ _ INV q Hlt).
    - apply HNt. apply HIn. left. reflexivity. }
  assert (HPne : Pp q <> Pp i).
  { intros E. apply HNt. apply HIn. right. exists q. split; [lia|]. split; [reflexivity|].
    rewrite (unmarked_R cd (SYM q) CS HNq), land_1023. apply same_fb; assumption. }
  pose proof (Pp_mono i q ltac:(lia)) as HPm.
  pose proof (Pp_lt q Hq) as HPq.
  (* the member whose length is used lies in the group of i *)
  assert (HPp : Pp p = Pp i).
  { apply HIn in Ip. destruct Ip as [E|(j & Hj & E & Efb)].
    - apply W_sym_inj in E; [subst p; reflexivity|lia|lia].
    - apply W_sym_inj in E; [subst p|lia|lia].
      destruct (W_Mk_dec cd (SYM j)) as [[EM _]|HNj].
      + exfalso. rewrite EM, W_mk_code in Efb. change (N.land 65535 1023) with 1023 in Efb.
        pose proof (fb_1023 i Hi (eq_sym Efb)). lia.
      + rewrite (unmarked_R cd (SYM j) CS HNj), land_1023 in Efb.
        apply same_fb; [lia|lia|exact Efb]. }
  (* last position of the group of i, last position of the group of q *)
  destruct (max_position (fun t => Pp t =? Pp i) (N.to_nat LLEN) i ltac:(lia) (N.eqb_refl _))
    as (e & He & Fe & Hemax).
  apply N.eqb_eq in Fe.
  destruct (max_position (fun t => Pp t =? Pp q) (N.to_nat LLEN) q ltac:(lia) (N.eqb_refl _))
    as (q' & Hq' & Fq' & Hq'max).
  apply N.eqb_eq in Fq'.
  assert (Hpe : p <= e).
  { destruct (N.le_gt_cases p e) as [H|H]; [exact H|exfalso].
    specialize (Hemax p ltac:(lia)). apply N.eqb_neq in Hemax. contradiction. }
  assert (Hq0e : q0 <= e).
  { destruct (N.le_gt_cases q0 e) as [H|H]; [exact H|exfalso].
    specialize (Hemax q0 ltac:(lia)). apply N.eqb_neq in Hemax. contradiction. }
  assert (Heq : e < q).
  { destruct (N.lt_ge_cases e q) as [H|H]; [exact H|exfalso].
    pose proof (Pp_mono q e H). lia. }
  set (me := cL codes (SYM e)).
  assert (Hmle : ml <= me) by (rewrite Eml; apply W_sym_mono; lia).
  pose proof (W_sym_islong e ltac:(lia)) as HLe.
  destruct (W_islong_facts _ HLe) as (Fe1 & _). destruct HLe as [_ Fe2]. fold me in Fe1, Fe2.
  (* measure between the two group ends *)
  assert (HA : MposN (LSTART + e + 1) <= 32 * (Pp i + 1)).
  { rewrite MposN_succ. rewrite <- Fe. unfold Pp. apply long_block. apply lpos. lia. }
  assert (HB : 32 * (Pp q + 1) <= MposN (LSTART + q' + 1)).
  { destruct (N.eq_dec (q' + 1) LLEN) as [Elast|Hnl].
    - replace (LSTART + q' + 1) with (ctv codes n 16) by lia.
      rewrite MposN_total, Hcomplete. lia.
    - assert (Hq1 : q' + 1 < LLEN) by lia.
      pose proof (Hq'max (q' + 1) ltac:(lia)) as Hne. apply N.eqb_neq in Hne.
      pose proof (Pp_mono q' (q' + 1) ltac:(lia)) as Hm1.
      assert (Hge : Pp q + 1 <= Pp (q' + 1)) by lia.
      unfold Pp at 2 in Hge. unfold Pk in Hge.
      replace (LSTART + (q' + 1)) with (LSTART + q' + 1) in Hge by lia.
      pose proof (N.mul_div_le (MposN (LSTART + q' + 1)) 32 ltac:(lia)) as Hd. nia. }
  pose proof (run_measure me (LSTART + e + 1) (N.to_nat (q' - e)) ltac:(lia) ltac:(lia)) as HT.
  replace (LSTART + e + 1 + N.of_nat (N.to_nat (q' - e))) with (LSTART + q' + 1) in HT by lia.
  specialize (HT ltac:(intros k Hk; replace k with (LSTART + (k - LSTART)) by lia;
                        fold (SYM (k - LSTART)); unfold me; apply W_sym_mono; lia)).
  rewrite N2Nat.id in HT.
  pose proof (pow_split_32 me ltac:(lia)) as H32.
  assert (Hcnt : 2 ^ (me - 10) <= q' - e).
  { pose proof (pow2_gt0 (15 - me)) as Hz.
    apply (N.mul_le_mono_pos_l _ _ (2 ^ (15 - me)) Hz). nia. }
  assert (Hsz : 2 ^ (ml - 10) <= 2 ^ (me - 10)) by (apply pow2_le_mono; lia).
  exists q'. split; [lia|]. split; [exact Fq'|]. lia.
Qed.

Lemma fit_loop : forall short1 long,
  snd (gs_long fuel false short1 long codes cl n LSTART LLEN) = ENone.
Proof.
  intros short1 long. unfold gs_long.
  assert (HI : let '(sh, lg, cd, lc, pan) :=
                 forN 0 LLEN (gs_long_step fuel false cl n LSTART LLEN) (short1, long, codes, 0, ENone) in
               pan = ENone /\ LInv codes n cl short1 LLEN sh lg cd lc /\ FitI lc cd).
  { apply (forN_ind (arr * arr * arr * N * ierr)
       (fun i (st : arr * arr * arr * N * ierr) =>
          let '(sh, lg, cd, lc, pan) := st in
          pan = ENone /\ LInv codes n cl short1 i sh lg cd lc /\ FitI lc cd)).
    - lia.
    - split; [reflexivity|]. split.
      + apply (LInv_init codes n count cl n fuel OK (N.le_refl n) Hfuel).
      + intros q Hq _. exists q. split; [exact Hq|]. split; [reflexivity|lia].
    - intros i [[[[sh1 lg1] cd1] lc1] pan1] Hi (-> & INV & FI).
      destruct (fit_step short1 i sh1 lg1 cd1 lc1 ltac:(lia) INV FI) as (sh' & lg' & cd' & lc' & ES & FI').
      rewrite ES. split; [reflexivity|]. split; [|exact FI'].
      apply (long_step_inv codes n count cl n fuel OK SO (N.le_refl n) Hfuel short1 i
               sh1 lg1 cd1 lc1 sh' lg' cd' lc' ltac:(lia) INV ES). }
  destruct (forN 0 LLEN (gs_long_step fuel false cl n LSTART LLEN) (short1, long, codes, 0, ENone))
    as [[[[sh lg] cd] lc] pan].
  cbn [snd]. exact (proj1 HI).
Qed.

End Packed.

(* ---------------------------------------------------------------- dist_fits_complete *)
Lemma gen_small_complete_fits : forall dl codes n count sh0 lg0,
  (length dl <= N.to_nat n)%nat -> Forall (fun y => (y <= 15)%nat) dl ->
  (forall i, i < n -> cL codes i = N.of_nat (nth (N.to_nat i) dl 0%nat)) ->
  (forall i, i < n -> cR codes i = rcode (nth (N.to_nat i) dl 0%nat) (ccode dl (N.to_nat i))) ->
  codes_ok codes n count -> kraft 15 dl = 32768 ->
  gerr (gen_small false sh0 lg0 codes n count n) = ENone.
Proof.
  intros dl codes n count sh0 lg0 HL HF HcL HcR OK HK.
  rewrite gen_small_eq.
  pose proof (gs_ct_spec codes n count OK) as Hct.
  set (ct := gs_ct count) in *. cbv zeta.
  destruct (N.eqb_spec (aget ct 16) 0) as [E16|E16]; [reflexivity|].
  destruct (gs_sort_spec codes n count ct OK Hct) as (cl & ctt & Es & SO).
  pose proof (gs_sort_pos codes n count ct cl ctt false OK Hct Es) as SP.
  rewrite Es. cbv beta iota.
  match goal with |- gerr (let '(_, _) := ?e in _) = _ => destruct e as [sh1 cs1] end.
  rewrite (Hct 11), (Hct 16) by lia.
  assert (Hsub : sub32 (ctv codes n 16) (ctv codes n 11) = llen codes n).
  { unfold sub32, subw, llen.
    pose proof (ctv_mono codes n 11 16 ltac:(lia) ltac:(lia)).
    destruct (N.leb_spec (ctv codes n 11) (ctv codes n 16)); [reflexivity|lia]. }
  rewrite Hsub. fold (lstart codes n).
  pose proof (fit_loop dl codes n count cl HL HF HcL HcR OK SO SP ltac:(lia) small_fuel small_fuel_32 HK
                sh1 lg0) as HFit.
  destruct (gs_long small_fuel false sh1 lg0 codes cl n (lstart codes n) (llen codes n))
    as [[[[sh2 lg2] cd2] lc2] pan2].
  exact HFit.
Qed.

Theorem dist_fits_complete : forall dl, (length dl <= 30)%nat ->
  Forall (fun x => (x <= 15)%nat) dl -> complete 15 dl = true -> dist_fits dl = true.
Proof.
  intros dl HL30 HF Hc.
  assert (HK : kraft 15 dl = 32768).
  { unfold complete in Hc. apply N.eqb_eq in Hc. rewrite Hc. reflexivity. }
  assert (Ho : oversubscribed 15 dl = false).
  { unfold oversubscribed. rewrite HK. reflexivity. }
  assert (HL : (length dl <= N.to_nat 30)%nat) by lia.
  pose proof (lens_in_canonical dl 286 30 HL HF) as Hin.
  rewrite (dist_fits_eq dl _ _ aempty aempty Hin Ho).
  destruct (dist_setCodes dl _ _ Hin Ho) as [_ C1].
  destruct Hin as (_ & _ & _ & Hcount).
  assert (Hcd : forall i, i < 30 ->
            aget (dist_codes (fst (setCodes (lens_huff 286 dl) 286 30 (lens_count dl)))) i
            = code_entry dl (N.to_nat i)).
  { intros i Hi. unfold dist_codes. rewrite copy_codes.
    destruct (N.ltb_spec i 30); [|lia]. apply C1. exact Hi. }
  destruct (codes_ok_of_lens dl _ 30 (lens_count dl) HL HF ltac:(lia) Ho Hcd Hcount)
    as (OK & HcL & HcR).
  rewrite (gen_small_complete_fits dl _ 30 _ aempty aempty HL HF HcL HcR OK HK). reflexivity.
Qed.

Print Assumptions dist_fits_complete.
