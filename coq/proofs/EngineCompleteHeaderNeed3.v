(* EngineCompleteHeaderNeed3.v -- exact versions of codeLenCodes_need / readLitDistLens_need:
   when the engine reports the end of its input (or readLitDistLens returns nil with a negative
   bit count), the reference on exactly the bits the engine holds stops with NeedInput (not
   Corrupt). *)
From Coq Require Import List NArith ZArith Bool Lia ZifyBool ZifyNat ZifyN.
From Verif Require Import Bits Huffman HuffmanSpec Inflate.
From Verif Require Import Base EngineTables Engine EngineRefineSpec EngineRefineBits EngineRefineBridge.
From Verif Require Import EngineRefineSpecNeed EngineCompleteSpecA EngineCompleteSpecF.
From Verif Require EngineCompleteHuffTrie.
From Verif Require Import EngineRefineHeaderBase EngineRefineHeaderDec EngineRefineHeaderArr
     EngineRefineHeaderClc EngineRefineHeaderRL EngineRefineHeaderNeed.
Import ListNotations.
Open Scope N_scope.

(* ---------------------------------------------------------------- codeLenCodes *)
Lemma read_clens_short : forall n l p, (length l < 3 * n)%nat ->
  read_clens n (mkbs l p) = HStop NeedInput.
Proof.
  induction n as [|n IH]; intros l p H; [lia|].
  cbn [read_clens].
  destruct (take 3 (mkbs l p)) as [[v [l' p']]|] eqn:E; [|reflexivity].
  pose proof (InflateMono.take_len 3 (mkbs l p)) as T. rewrite E in T.
  unfold InflateMono.blen in T. cbn [bl bp] in T.
  rewrite IH by lia. reflexivity.
Qed.

Lemma read_clens_long : forall n l p, (3 * n <= length l)%nat ->
  exists cl s1, read_clens n (mkbs l p) = HOk cl s1.
Proof.
  induction n as [|n IH]; intros l p H.
  - cbn [read_clens]. eexists. eexists. reflexivity.
  - cbn [read_clens].
    pose proof (take_firstn 3 l [] p ltac:(lia)) as T. rewrite !app_nil_r in T. rewrite T.
    destruct (IH (skipn 3 l) (p + N.of_nat 3) ltac:(rewrite skipn_length; lia)) as (cl & s1 & E).
    rewrite E. eexists. eexists. reflexivity.
Qed.

Theorem codeLenCodes_need3 : codeLenCodes_need3_statement.
Proof.
  intros Hgen s hclen p Hwf H0 Hl12 Hh Herr.
  destruct (Nat.lt_ge_cases (length (br_bits (rd s))) (3 * (N.to_nat hclen + 4))) as [Hs|Hl].
  - apply read_clens_short. exact Hs.
  - destruct (read_clens_long _ _ p Hl) as (cl & s1 & E).
    exfalso. exact (codeLenCodes_need Hgen s hclen p Hwf H0 Hl12 Hh Herr cl s1 E).
Qed.

(* ---------------------------------------------------------------- a code-length symbol that
   crosses the end of the real bits: the real bits are a proper prefix of the code word the
   zero-padded lookup matched, the reference needs input *)
Lemma clc_need3 : forall cl ct clcS clcL b0 b1 sym b2,
  mktrie 7 cl = Some ct -> clc_tab_ok cl clcS clcL -> br_wf b0 -> (0 <= r_len b0)%Z ->
  load_le15 b0 = Some b1 -> clc_decode clcS clcL b1 = Some (sym, b2) -> (r_len b2 < 0)%Z ->
  forall p, decode_sym ct (mkbs (br_bits b0 ++ []) p) = DNeed.
Proof.
  intros cl ct clcS clcL b0 b1 sym b2 Hmk Hok Hwf H0 Hld Hdec Hneg p.
  destruct (load_le15_bits b0 Hwf) as (b1' & L1 & L2 & L3 & L4 & L5).
  rewrite Hld in L1. injection L1 as <-.
  rewrite app_nil_r, <- L3.
  destruct (canon_match_dec (canon cl) (r_bits b1)) as [(d & len & c & Hin & Hm)|Hnone].
  - pose proof (clc_tab_len16 _ _ _ _ _ _ Hok Hin) as Hlen.
    pose proof (proj1 (Hok b1) d len c Hin Hm) as D. rewrite Hdec in D.
    assert (E2 : r_len b2 = r_len (br_drop b1 (N.of_nat len))) by congruence.
    rewrite br_drop_len in E2.
    destruct L4 as [Hin0|Hc]; [|lia].
    pose proof (br_bits_length b1) as LB. rewrite Hin0 in LB. cbn [length] in LB.
    unfold cw_match, rcode in Hm.
    assert (Hld' : br_loaded (Z.of_N (N.of_nat len)) b1) by (left; exact Hin0).
    rewrite (peek_bits b1 (N.of_nat len) L2 Hld'), Nat2N.id in Hm.
    apply N_of_bits_inj in Hm; [|rewrite padded_length, code_bits_length; reflexivity].
    unfold padded in Hm. rewrite firstn_app, (firstn_all2 (br_bits b1)) in Hm by lia.
    apply (EngineCompleteHuffTrie.canon_need 7 cl ct d len c (br_bits b1)
             (firstn (len - length (br_bits b1)) (repeat false len)) p Hmk Hin (eq_sym Hm)).
    intro Ez. apply (f_equal (@length bool)) in Ez.
    rewrite firstn_length, repeat_length in Ez. cbn [length] in Ez. lia.
  - pose proof (proj2 (Hok b1) Hnone) as D. rewrite Hdec in D.
    assert (E2 : b2 = b1) by congruence. subst b2. lia.
Qed.

(* ---------------------------------------------------------------- the reference needs input *)
Lemma read_lens_needdec : forall rf ct total acc s,
  decode_sym ct s = DNeed -> (total <> 0)%nat ->
  read_lens (S rf) ct total acc s = HStop NeedInput.
Proof.
  intros rf ct total acc s Hn Ht. destruct total as [|t]; [contradiction|].
  cbn [read_lens]. rewrite Hn. reflexivity.
Qed.

Lemma read_lens_notake3 : forall rf ct total acc s d s1 ebits base what,
  decode_sym ct s = DOk d s1 -> (16 <= d)%nat ->
  (if (d =? 16)%nat then (2%nat, 3%nat, hd_error acc)
   else if (d =? 17)%nat then (3%nat, 3%nat, Some 0%nat)
   else (7%nat, 11%nat, Some 0%nat)) = (ebits, base, what) ->
  take ebits s1 = None -> (total <> 0)%nat ->
  read_lens (S rf) ct total acc s = HStop NeedInput.
Proof.
  intros rf ct total acc s d s1 ebits base what Hd Hge Hsel Htk Ht.
  destruct total as [|t]; [contradiction|].
  cbn [read_lens]. rewrite Hd.
  destruct (Nat.ltb_spec d 16) as [Hc|_]; [lia|].
  rewrite Hsel, Htk. reflexivity.
Qed.

(* ---------------------------------------------------------------- the loop *)
Definition need3_concl (nlit ndist : nat) (ct : trie) (st : rlst) (L : list nat)
           (res : rlst * ierr) : Prop :=
  let '(st', err) := res in
  (err = EEndInput \/ (err = ENone /\ (r_len (rl_b st') < 0)%Z)) ->
  forall rf p, (nlit + ndist - length L <= rf)%nat ->
    read_lens rf ct (nlit + ndist - length L) (rev L) (mkbs (br_bits (rl_b st) ++ []) p)
    = HStop NeedInput.

Lemma need3_err : forall nlit ndist ct st L st' err,
  err <> EEndInput -> err <> ENone -> need3_concl nlit ndist ct st L (st', err).
Proof.
  intros nlit ndist ct st L st' err H1 H2. unfold need3_concl.
  intros [E|[E _]]; contradiction.
Qed.

Lemma need3_fail : forall nlit ndist ct st L res,
  (length L < nlit + ndist)%nat ->
  (forall rf p,
     read_lens (S rf) ct (nlit + ndist - length L) (rev L) (mkbs (br_bits (rl_b st) ++ []) p)
     = HStop NeedInput) ->
  need3_concl nlit ndist ct st L res.
Proof.
  intros nlit ndist ct st L [st' err] Hroom H. unfold need3_concl.
  intros _ rf p Hrf. destruct rf as [|rf]; [lia|]. apply H.
Qed.

Lemma need3_chain : forall nlit ndist ct st L st1 L1 res,
  need3_concl nlit ndist ct st1 L1 res ->
  (length L < length L1)%nat ->
  (forall rf p, exists pp,
     read_lens (S rf) ct (nlit + ndist - length L) (rev L) (mkbs (br_bits (rl_b st) ++ []) p)
     = read_lens rf ct (nlit + ndist - length L1) (rev L1) (mkbs (br_bits (rl_b st1) ++ []) pp)) ->
  (length L < nlit + ndist)%nat ->
  need3_concl nlit ndist ct st L res.
Proof.
  intros nlit ndist ct st L st1 L1 [st' err] R Hlen Hstep Hroom. unfold need3_concl in *.
  intros Hp rf p Hrf. destruct rf as [|rf]; [lia|].
  destruct (Hstep rf p) as [pp Hpp]. rewrite Hpp. apply (R Hp). lia.
Qed.

Lemma rl_need3 : forall nlit ndist cl ct clcS clcL,
  dims_ok nlit ndist -> mktrie 7 cl = Some ct -> clc_tab_ok cl clcS clcL ->
  forall fuel st L, br_wf (rl_b st) -> (0 <= r_len (rl_b st))%Z -> rl_inv nlit ndist st L ->
  need3_concl nlit ndist ct st L
    (rl_loop fuel clcS clcL (Z.of_nat nlit) (286 + Z.of_nat ndist)%Z st).
Proof.
  intros nlit ndist cl ct clcS clcL Hd Hmk Hok.
  induction fuel as [|f IH]; intros st L Hwf Hstart Hinv.
  { cbn [rl_loop]. apply need3_err; discriminate. }
  cbn [rl_loop].
  destruct (rl_inv_curr_lt _ _ _ _ Hd Hinv) as [Hlt Hle].
  pose proof Hd as [Hnl Hnd].
  destruct (Z.ltb_spec (rl_curr st) (286 + Z.of_nat ndist)) as [Hc|Hc].
  2: { match goal with |- context[if ?c then _ else _] => destruct c end.
       - apply need3_err; discriminate.
       - unfold need3_concl. intros [E|[_ Hn]]; [discriminate|lia]. }
  assert (Hroom : (length L < nlit + ndist)%nat) by (apply Hlt; exact Hc).
  destruct (clc_step cl ct clcS clcL (rl_b st) Hmk Hok Hwf)
    as (b1 & sym & b2 & L1 & D & W2 & Nneg & Hdec).
  rewrite L1, D.
  set (st0 := rl_set_b st b2).
  assert (Hinv0 : rl_inv nlit ndist st0 L) by exact Hinv.
  destruct (Z.ltb_spec (r_len b2) 0) as [Hneg|Hpos].
  { apply need3_fail; [exact Hroom|]. intros rf p.
    apply read_lens_needdec; [|lia].
    apply (clc_need3 cl ct clcS clcL (rl_b st) b1 sym b2 Hmk Hok Hwf Hstart L1 D Hneg). }
  destruct (Hdec Hpos) as [E511|(d & len & Esym & Hds)].
  { subst sym. cbn [N.ltb N.eqb N.compare Pos.compare Pos.compare_cont Pos.eqb orb].
    apply need3_err; discriminate. }
  destruct (N.ltb_spec sym 16) as [T1|T1].
  { (* a length *)
    subst sym.
    destruct (rl_put_ok nlit ndist st0 L d Hd Hinv0 Hroom ltac:(lia)) as (st1 & E1 & I1 & B1).
    rewrite E1.
    apply (need3_chain nlit ndist ct st L st1 (L ++ [d])).
    - apply IH; [rewrite B1; exact W2|rewrite B1; exact Hpos|exact I1].
    - rewrite app_length. cbn [length]. lia.
    - intros rf p. exists (p + N.of_nat len).
      rewrite (read_lens_lt16 rf ct (nlit + ndist - length L)%nat (rev L) _ d _ (Hds [] p) ltac:(lia) ltac:(lia)).
      rewrite B1. change (rl_b st0) with b2. rewrite rev_unit, app_length. cbn [length].
      replace (nlit + ndist - length L - 1)%nat with (nlit + ndist - (length L + 1))%nat by lia.
      reflexivity.
    - exact Hroom. }
  destruct (N.eqb_spec sym 16) as [T2|T2].
  { (* repeat the previous length *)
    assert (Ed : d = 16%nat) by lia. subst d. clear Esym.
    destruct (xbits_step b2 2 W2 Hpos ltac:(lia)) as (b3 & ret & b4 & X1 & X2 & X3 & X4).
    rewrite X1, X2.
    set (st2 := rl_set_b st0 b4).
    destruct (Z.ltb_spec (r_len b4) 0) as [Hn4|Hp4].
    { (* the two extra bits are not there *)
      apply need3_fail; [exact Hroom|]. intros rf p.
      apply (read_lens_notake3 rf ct _ (rev L) _ 16%nat _ 2%nat 3%nat (hd_error (rev L))
               (Hds [] p) ltac:(lia) eq_refl); [|lia].
      apply (xbits_need b2 2 b3 ret b4 W2 Hpos ltac:(lia) X1 X2 Hn4). }
    destruct (snoc_case L) as [->|(L0 & v & ->)].
    { rewrite (rl_inv_prev_nil nlit ndist st2 Hinv). rewrite orb_true_r.
      apply need3_err; discriminate. }
    destruct (rl_inv_prev nlit ndist st2 _ _ Hd Hinv) as [Hrep Hprev].
    destruct (Z.eqb_spec (rl_prev st2) (-1)) as [Hc'|_]; [contradiction|]. rewrite orb_false_r.
    rewrite Hrep.
    set (L := L0 ++ [v]) in *.
    assert (Hv : (v <= 15)%nat).
    { destruct Hinv as (_ & _ & (A1 & _)). rewrite Forall_forall in A1. apply A1.
      unfold L. apply in_or_app. right. left. reflexivity. }
    assert (Hinv2 : rl_inv nlit ndist st2 L) by exact Hinv.
    replace (Z.to_nat (Z.of_N (3 + ret))) with (3 + N.to_nat ret)%nat by lia.
    destruct (Nat.le_gt_cases (length L + (3 + N.to_nat ret)) (nlit + ndist)) as [Hfit|Hover].
    2: { match goal with |- need3_concl _ _ _ _ _ (if ?c then _ else _) =>
           assert (Ec : c = true); [|rewrite Ec] end.
         { destruct Hinv2 as (_ & (P1 & P2) & _).
           destruct P2 as [(Q1 & Q2 & Q3)|(Q1 & Q2 & Q3)]; rewrite Q2;
             (match goal with |- context[(?a <=? ?b)%Z] => destruct (Z.leb_spec a b) end);
             (match goal with |- context[(Z.of_nat nlit <? ?b)%Z] => destruct (Z.ltb_spec (Z.of_nat nlit) b) end);
             cbn [andb];
             (match goal with |- context[(?a <? ?b)%Z] => destruct (Z.ltb_spec a b) end);
             try reflexivity; lia. }
         apply need3_err; discriminate. }
    match goal with |- need3_concl _ _ _ _ _ (if ?c then _ else _) =>
      assert (Ec : c = false); [|rewrite Ec] end.
    { destruct Hinv2 as (_ & (P1 & P2) & _).
      destruct P2 as [(Q1 & Q2 & Q3)|(Q1 & Q2 & Q3)]; rewrite Q2;
        (match goal with |- context[(?a <=? ?b)%Z] => destruct (Z.leb_spec a b) end);
        (match goal with |- context[(Z.of_nat nlit <? ?b)%Z] => destruct (Z.ltb_spec (Z.of_nat nlit) b) end);
        cbn [andb];
        (match goal with |- context[(?a <? ?b)%Z] => destruct (Z.ltb_spec a b) end);
        try reflexivity; lia. }
    destruct (rl_rep_ok (3 + N.to_nat ret) nlit ndist st2 L v Hd Hinv2 Hfit Hv) as (st3 & E3 & I3 & B3).
    rewrite E3.
    apply (need3_chain nlit ndist ct st L st3 (L ++ repeat v (3 + N.to_nat ret))).
    - apply IH; [rewrite B3; exact X3|rewrite B3; exact Hp4|exact I3].
    - rewrite app_length, repeat_length. lia.
    - rewrite B3. change (rl_b st2) with b4. intros rf p. exists (p + N.of_nat len + 2).
      rewrite (read_lens_rep rf ct (nlit + ndist - length L)%nat (rev L) _ 16%nat _ 2%nat 3%nat
                 (hd_error (rev L)) ret _ v
                 (Hds [] p) ltac:(lia) eq_refl (X4 Hp4 [] (p + N.of_nat len))).
      + rewrite rev_app_distr, rev_repeat, app_length, repeat_length.
        replace (nlit + ndist - length L - (3 + N.to_nat ret))%nat
          with (nlit + ndist - (length L + (3 + N.to_nat ret)))%nat by lia.
        reflexivity.
      + unfold L. rewrite rev_unit. reflexivity.
      + lia.
      + lia.
    - exact Hroom. }
  destruct (N.eqb_spec sym 17) as [T3|T3]; [|destruct (N.eqb_spec sym 18) as [T4|T4]]; cbn [orb].
  3: { apply need3_err; discriminate. }
  { (* 3..10 zeros *)
    assert (Ed : d = 17%nat) by lia. subst d. clear Esym.
    destruct (xbits_step b2 3 W2 Hpos ltac:(lia)) as (b3 & ret & b4 & X1 & X2 & X3 & X4).
    rewrite X1, X2.
    destruct (Z.ltb_spec (r_len b4) 0) as [Hn4|Hp4].
    { apply need3_fail; [exact Hroom|]. intros rf p.
      apply (read_lens_notake3 rf ct _ (rev L) _ 17%nat _ 3%nat 3%nat (Some 0%nat)
               (Hds [] p) ltac:(lia) eq_refl); [|lia].
      apply (xbits_need b2 3 b3 ret b4 W2 Hpos ltac:(lia) X1 X2 Hn4). }
    pose proof (rl_zeros_state nlit ndist st0 L (Z.of_N (3 + ret)) b4 Hd Hinv0 ltac:(lia)) as Zs.
    cbv zeta in Zs. revert Zs.
    match goal with |- context[if ?c then _ else _] => destruct c end; intros [Zs1 Zs2].
    all: replace (Z.to_nat (Z.of_N (3 + ret))) with (3 + N.to_nat ret)%nat in Zs1, Zs2 by lia.
    all: destruct (Nat.le_gt_cases (length L + (3 + N.to_nat ret)) (nlit + ndist)) as [Hfit|Hover].
    all: try (match goal with |- need3_concl _ _ _ _ _ (rl_loop _ _ _ _ _ ?stx) =>
              destruct (rl_over2 f clcS clcL (Z.of_nat nlit) (286 + Z.of_nat ndist)%Z stx
                          (Zs2 Hover)) as (err & Er & Ene1 & Ene2); rewrite Er;
              apply need3_err; assumption end).
    all: match goal with |- need3_concl _ _ _ _ _ (rl_loop _ _ _ _ _ ?stx) =>
           apply (need3_chain nlit ndist ct st L stx (L ++ repeat 0%nat (3 + N.to_nat ret)));
           [apply IH; [exact X3|exact Hp4|exact (Zs1 Hfit)]
           |rewrite app_length, repeat_length; lia
           |
           |exact Hroom] end.
    all: cbn [rl_b]; intros rf p; exists (p + N.of_nat len + 3);
      rewrite (read_lens_rep rf ct (nlit + ndist - length L)%nat (rev L) _ 17%nat _ 3%nat 3%nat
                 (Some 0%nat) ret _ 0%nat
                 (Hds [] p) ltac:(lia) eq_refl (X4 Hp4 [] (p + N.of_nat len)) eq_refl ltac:(lia) ltac:(lia));
      rewrite rev_app_distr, rev_repeat, app_length, repeat_length;
      replace (nlit + ndist - length L - (3 + N.to_nat ret))%nat
          with (nlit + ndist - (length L + (3 + N.to_nat ret)))%nat by lia;
      reflexivity. }
  { (* 11..138 zeros *)
    assert (Ed : d = 18%nat) by lia. subst d. clear Esym.
    destruct (xbits_step b2 7 W2 Hpos ltac:(lia)) as (b3 & ret & b4 & X1 & X2 & X3 & X4).
    rewrite X1, X2.
    destruct (Z.ltb_spec (r_len b4) 0) as [Hn4|Hp4].
    { apply need3_fail; [exact Hroom|]. intros rf p.
      apply (read_lens_notake3 rf ct _ (rev L) _ 18%nat _ 7%nat 11%nat (Some 0%nat)
               (Hds [] p) ltac:(lia) eq_refl); [|lia].
      apply (xbits_need b2 7 b3 ret b4 W2 Hpos ltac:(lia) X1 X2 Hn4). }
    pose proof (rl_zeros_state nlit ndist st0 L (Z.of_N (11 + ret)) b4 Hd Hinv0 ltac:(lia)) as Zs.
    cbv zeta in Zs. revert Zs.
    match goal with |- context[if ?c then _ else _] => destruct c end; intros [Zs1 Zs2].
    all: replace (Z.to_nat (Z.of_N (11 + ret))) with (11 + N.to_nat ret)%nat in Zs1, Zs2 by lia.
    all: destruct (Nat.le_gt_cases (length L + (11 + N.to_nat ret)) (nlit + ndist)) as [Hfit|Hover].
    all: try (match goal with |- need3_concl _ _ _ _ _ (rl_loop _ _ _ _ _ ?stx) =>
              destruct (rl_over2 f clcS clcL (Z.of_nat nlit) (286 + Z.of_nat ndist)%Z stx
                          (Zs2 Hover)) as (err & Er & Ene1 & Ene2); rewrite Er;
              apply need3_err; assumption end).
    all: match goal with |- need3_concl _ _ _ _ _ (rl_loop _ _ _ _ _ ?stx) =>
           apply (need3_chain nlit ndist ct st L stx (L ++ repeat 0%nat (11 + N.to_nat ret)));
           [apply IH; [exact X3|exact Hp4|exact (Zs1 Hfit)]
           |rewrite app_length, repeat_length; lia
           |
           |exact Hroom] end.
    all: cbn [rl_b]; intros rf p; exists (p + N.of_nat len + 7);
      rewrite (read_lens_rep rf ct (nlit + ndist - length L)%nat (rev L) _ 18%nat _ 7%nat 11%nat
                 (Some 0%nat) ret _ 0%nat
                 (Hds [] p) ltac:(lia) eq_refl (X4 Hp4 [] (p + N.of_nat len)) eq_refl ltac:(lia) ltac:(lia));
      rewrite rev_app_distr, rev_repeat, app_length, repeat_length;
      replace (nlit + ndist - length L - (11 + N.to_nat ret))%nat
          with (nlit + ndist - (length L + (11 + N.to_nat ret)))%nat by lia;
      reflexivity. }
Qed.

(* ---------------------------------------------------------------- the theorem *)
Theorem readLitDistLens_need3 : readLitDistLens_need3_statement.
Proof.
  intros _ s hlit hdist clens ct p Hwf H0 Hhl Hhd _ _ _ Hmk Hok Zh Zl Zd Ze.
  unfold readLitDistLens.
  set (nlit := (N.to_nat hlit + 257)%nat).
  set (ndist := (N.to_nat hdist + 1)%nat).
  assert (Hd : dims_ok nlit ndist) by (unfold dims_ok, nlit, ndist; lia).
  replace (Z.of_N (litTableSize + hlit)) with (Z.of_nat nlit) by (unfold litTableSize, nlit; lia).
  replace (Z.of_N (litLen + hdist + 1)) with (286 + Z.of_nat ndist)%Z by (unfold litLen, ndist; lia).
  set (st0 := mkRL (rd s) (litAndDistHuff (dyn s)) (litCount (dyn s)) (distCount (dyn s))
                   (litExpandCount (dyn s)) 0%Z (-1)%Z false).
  assert (Hinv0 : rl_inv nlit ndist st0 []).
  { unfold rl_inv. cbn [st0 rl_curr rl_prev rl_inDist rl_h rl_lc rl_dc rl_ex length].
    split; [lia|]. split.
    - unfold rl_pos. split; [lia|]. left. split; [lia|]. split; reflexivity.
    - apply rl_arr_init; assumption. }
  pose proof (rl_need3 nlit ndist clens ct (clcShort (dyn s)) (clcLong (dyn s)) Hd Hmk Hok
                small_fuel st0 [] Hwf H0 Hinv0) as Nd.
  destruct (rl_loop small_fuel (clcShort (dyn s)) (clcLong (dyn s)) (Z.of_nat nlit)
                    (286 + Z.of_nat ndist)%Z st0) as [st' err].
  unfold need3_concl in Nd. cbn [rd set_rd].
  intros Hp. cbn zeta.
  specialize (Nd Hp (nlit + ndist)%nat p ltac:(cbn [length]; lia)).
  cbn [length rev] in Nd. rewrite Nat.sub_0_r in Nd. change (rl_b st0) with (rd s) in Nd.
  rewrite app_nil_r in Nd. exact Nd.
Qed.

Print Assumptions codeLenCodes_need3.
Print Assumptions readLitDistLens_need3.
