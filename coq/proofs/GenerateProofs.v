(* GenerateProofs.v — the code-length generator (WModel/Codes.v: generate) always yields a valid
   length vector (FinalSpec.generate_valid_statement), hence every block is encodable
   (FinalSpec.block_always_ok_statement).

   Structure:
     1. basics on nthN/updN
     2. phase 1 of code_lens: the parent array (whatever the comparisons decide)
     3. phase 2: depths of the internal nodes
     4. phase 3: leaf depths, Kraft sum exactly one
     5. code_lens
     6. the length limiter (enforce_max_len, spread_lengths)
     7. keys, sorting, scatter
     8. generate_valid, block_always_ok *)
From Verif Require Import FinalSpec.
From Verif Require Import HuffmanProofs.
From Coq Require Import Lia ZifyBool ZifyNat ZifyN Permutation.
Open Scope N_scope.

(* ------------------------------------------------------------------ *)
(* 1. basics                                                            *)

Lemma gp_updN_length : forall l i v, length (updN l i v) = length l.
Proof. intros l i v. unfold updN. apply upd_length. Qed.

Lemma gp_nthN_updN_same : forall l i v, (N.to_nat i < length l)%nat -> nthN (updN l i v) i = v.
Proof. intros l i v H. unfold nthN, updN. apply nth_upd_same. exact H. Qed.

Lemma gp_nthN_updN_other : forall l i j v, i <> j -> nthN (updN l i v) j = nthN l j.
Proof.
  intros l i j v H. unfold nthN, updN. apply nth_upd_other.
  intros E. apply H. apply N2Nat.inj. exact E.
Qed.

Lemma gp_incN_length : forall l i d, length (incN l i d) = length l.
Proof. intros. unfold incN. apply gp_updN_length. Qed.

Lemma gp_nthN_out : forall l i, (length l <= N.to_nat i)%nat -> nthN l i = 0.
Proof. intros l i H. unfold nthN. apply nth_overflow. exact H. Qed.

Lemma gp_updN_out : forall l i v, (length l <= N.to_nat i)%nat -> updN l i v = l.
Proof.
  intros l i v H. unfold updN, upd.
  rewrite skipn_all2 by exact H. rewrite firstn_all2 by exact H. apply app_nil_r.
Qed.

Ltac gp_split8 := split; [|split; [|split; [|split; [|split; [|split; [|split]]]]]].
Ltac gp_split4 := split; [|split; [|split]].

(* ------------------------------------------------------------------ *)
(* 2. phase 1                                                           *)

(* the state in the middle of the iteration that creates internal node k, after t children
   have been taken.  Positions above root hold parent indices. *)
Definition p1_mid (n : nat) (k : nat) (t : N) (w : list N) (root leaf : N) (ln : bool) : Prop :=
  length w = n /\
  N.of_nat k <= root /\ root < N.of_nat n /\
  (if ln then 0 else leaf + 1) + root + t = 2 * N.of_nat k + 1 /\
  (forall i, root < i -> i < N.of_nat n -> N.of_nat k <= nthN w i /\ nthN w i < i) /\
  (forall i, root + t < i -> i < N.of_nat n -> N.of_nat k < nthN w i) /\
  (forall i j, root < i -> i <= j -> j < N.of_nat n -> nthN w i <= nthN w j) /\
  (forall i, root < i -> i + 2 < N.of_nat n -> nthN w i + 1 <= nthN w (i + 2)).

Lemma gp_take_child : forall n k t w root leaf ln first w' root' leaf' ln',
  (1 <= k)%nat -> t <= 1 ->
  p1_mid n k t w root leaf ln ->
  take_child w (N.of_nat k) root leaf ln first = (w', root', leaf', ln') ->
  p1_mid n k (t + 1) w' root' leaf' ln'.
Proof.
  intros n k t w root leaf ln first w' root' leaf' ln' Hk Ht Hmid Htc.
  destruct Hmid as (Hlen & Hkr & Hrn & Hcnt & Hpar & Hstrict & Hmono & Hp3).
  unfold take_child in Htc.
  destruct (ln || ((N.of_nat k <? root) && (nthN w root <? nthN w leaf))) eqn:Ec.
  - (* an internal node becomes the child *)
    assert (Hlt : N.of_nat k < root).
    { destruct ln; [lia|]. cbn [orb] in Ec. apply andb_prop in Ec. destruct Ec as [Ec _].
      apply N.ltb_lt in Ec. exact Ec. }
    injection Htc as Ew Er El Eln. subst w' root' leaf' ln'.
    set (x := if first then nthN w root else nthN w (N.of_nat k) + nthN w root).
    assert (Hsame : forall i, root < i -> nthN (updN (updN w (N.of_nat k) x) root (N.of_nat k)) i = nthN w i).
    { intros i Hi. rewrite gp_nthN_updN_other by lia. rewrite gp_nthN_updN_other by lia. reflexivity. }
    assert (Hroot : nthN (updN (updN w (N.of_nat k) x) root (N.of_nat k)) root = N.of_nat k).
    { apply gp_nthN_updN_same. rewrite gp_updN_length. lia. }
    unfold p1_mid. gp_split8.
    + rewrite !gp_updN_length. exact Hlen.
    + lia.
    + lia.
    + lia.
    + intros i Hi Hin. destruct (N.eq_dec i root) as [E|E].
      * subst i. rewrite Hroot. lia.
      * rewrite Hsame by lia. apply Hpar; lia.
    + intros i Hi Hin. rewrite Hsame by lia. apply Hstrict; lia.
    + intros i j Hi Hij Hj.
      destruct (N.eq_dec i root) as [E|E].
      * subst i. rewrite Hroot.
        destruct (N.eq_dec j root) as [E2|E2].
        -- subst j. rewrite Hroot. lia.
        -- rewrite Hsame by lia. apply Hpar; lia.
      * rewrite !Hsame by lia. apply Hmono; lia.
    + intros i Hi Hin.
      destruct (N.eq_dec i root) as [E|E].
      * subst i. rewrite Hroot. rewrite Hsame by lia.
        assert (N.of_nat k < nthN w (root + 2)) by (apply Hstrict; lia). lia.
      * rewrite !Hsame by lia. apply Hp3; lia.
  - (* a leaf becomes the child *)
    destruct ln; [discriminate Ec|].
    set (x := if first then nthN w leaf else nthN w (N.of_nat k) + nthN w leaf) in Htc.
    assert (Hsame : forall i, root < i -> nthN (updN w (N.of_nat k) x) i = nthN w i).
    { intros i Hi. rewrite gp_nthN_updN_other by lia. reflexivity. }
    destruct (leaf =? 0) eqn:El0.
    + apply N.eqb_eq in El0. injection Htc as Ew Er El Eln. subst w' root' leaf' ln'.
      unfold p1_mid. gp_split8.
      * rewrite gp_updN_length. exact Hlen.
      * lia.
      * lia.
      * lia.
      * intros i Hi Hin. rewrite Hsame by lia. apply Hpar; lia.
      * intros i Hi Hin. rewrite Hsame by lia. apply Hstrict; lia.
      * intros i j Hi Hij Hj. rewrite !Hsame by lia. apply Hmono; lia.
      * intros i Hi Hin. rewrite !Hsame by lia. apply Hp3; lia.
    + apply N.eqb_neq in El0. injection Htc as Ew Er El Eln. subst w' root' leaf' ln'.
      unfold p1_mid. gp_split8.
      * rewrite gp_updN_length. exact Hlen.
      * lia.
      * lia.
      * lia.
      * intros i Hi Hin. rewrite Hsame by lia. apply Hpar; lia.
      * intros i Hi Hin. rewrite Hsame by lia. apply Hstrict; lia.
      * intros i j Hi Hij Hj. rewrite !Hsame by lia. apply Hmono; lia.
      * intros i Hi Hin. rewrite !Hsame by lia. apply Hp3; lia.
Qed.

(* the parent array: what phase 1 leaves at positions 2..n-1 *)
Definition par_ok (n : nat) (p : list N) : Prop :=
  length p = n /\
  (forall i, 2 <= i -> i < N.of_nat n -> 1 <= nthN p i /\ nthN p i < i) /\
  (forall i j, 2 <= i -> i <= j -> j < N.of_nat n -> nthN p i <= nthN p j) /\
  (forall i, 2 <= i -> i + 2 < N.of_nat n -> nthN p i + 1 <= nthN p (i + 2)).

Lemma gp_phase1 : forall n k w root leaf ln,
  (1 <= k)%nat -> p1_mid n k 0 w root leaf ln ->
  par_ok n (phase1 k w root leaf ln).
Proof.
  intros n k. induction k as [|k IH]; intros w root leaf ln Hk Hmid; [lia|].
  cbn [phase1].
  destruct (take_child w (N.of_nat (S k)) root leaf ln true) as [[[w1 root1] leaf1] ln1] eqn:E1.
  destruct (take_child w1 (N.of_nat (S k)) root1 leaf1 ln1 false) as [[[w2 root2] leaf2] ln2] eqn:E2.
  assert (H1 : p1_mid n (S k) (0 + 1) w1 root1 leaf1 ln1).
  { eapply gp_take_child; [| |exact Hmid|exact E1]; lia. }
  assert (H2 : p1_mid n (S k) (0 + 1 + 1) w2 root2 leaf2 ln2).
  { eapply gp_take_child; [| |exact H1|exact E2]; lia. }
  destruct H2 as (Hlen & Hkr & Hrn & Hcnt & Hpar & Hstrict & Hmono & Hp3).
  destruct k as [|k].
  - (* the last iteration: root = 1 *)
    cbn [phase1].
    assert (Hr : root2 = 1) by (destruct ln2; lia).
    subst root2. unfold par_ok. gp_split4.
    + exact Hlen.
    + intros i Hi Hin. assert (H := Hpar i ltac:(lia) ltac:(lia)). lia.
    + intros i j Hi Hij Hj. apply Hmono; lia.
    + intros i Hi Hin. apply Hp3; lia.
  - apply IH; [lia|].
    unfold p1_mid. gp_split8.
    + exact Hlen.
    + lia.
    + lia.
    + lia.
    + intros i Hi Hin. assert (H := Hpar i ltac:(lia) ltac:(lia)). lia.
    + intros i Hi Hin. assert (H := Hpar i ltac:(lia) ltac:(lia)). lia.
    + intros i j Hi Hij Hj. apply Hmono; lia.
    + intros i Hi Hin. apply Hp3; lia.
Qed.

Lemma gp_phase1_start : forall w, (2 <= length w)%nat ->
  par_ok (length w) (phase1 (length w - 1) w (lenN w - 1) (lenN w - 1) false).
Proof.
  intros w Hn. apply gp_phase1; [lia|].
  unfold p1_mid, lenN. gp_split8; intros; lia.
Qed.

(* ------------------------------------------------------------------ *)
(* 3. phase 2: depths of the internal nodes                             *)

Definition dep_ok (n : nat) (p w : list N) : Prop :=
  length w = n /\ nthN w 1 = 0 /\
  (forall i, 2 <= i -> i < N.of_nat n -> nthN w i = nthN w (nthN p i) + 1).

Lemma gp_phase2 : forall n p cnt m w,
  par_ok n p -> 2 <= m -> m + N.of_nat cnt = N.of_nat n ->
  length w = n -> nthN w 1 = 0 ->
  (forall i, 2 <= i -> i < m -> nthN w i = nthN w (nthN p i) + 1) ->
  (forall i, m <= i -> i < N.of_nat n -> nthN w i = nthN p i) ->
  dep_ok n p (phase2 (seqN m cnt) w).
Proof.
  intros n p cnt. induction cnt as [|cnt IH]; intros m w Hp Hm Hmn Hlen H1 Hlo Hhi.
  - cbn [seqN phase2]. unfold dep_ok. split; [exact Hlen|]. split; [exact H1|].
    intros i Hi Hin. apply Hlo; lia.
  - cbn [seqN phase2].
    destruct Hp as (Hpl & Hpr & Hpm & Hp3).
    assert (Hpm' : 1 <= nthN p m /\ nthN p m < m) by (apply Hpr; lia).
    assert (Hwm : nthN w m = nthN p m) by (apply Hhi; lia).
    apply IH.
    + unfold par_ok. gp_split4; assumption.
    + lia.
    + lia.
    + rewrite gp_updN_length. exact Hlen.
    + rewrite gp_nthN_updN_other by lia. exact H1.
    + intros i Hi Him.
      assert (Hpi : 1 <= nthN p i /\ nthN p i < i) by (apply Hpr; lia).
      destruct (N.eq_dec i m) as [E|E].
      * subst i. rewrite gp_nthN_updN_same by lia.
        rewrite gp_nthN_updN_other by lia. rewrite Hwm. reflexivity.
      * rewrite gp_nthN_updN_other by lia. rewrite gp_nthN_updN_other by lia.
        apply Hlo; lia.
    + intros i Hi Hin. rewrite gp_nthN_updN_other by lia. apply Hhi; lia.
Qed.

(* facts about the depths *)
Section Depths.
Variable n : nat.
Variable p w : list N.
Hypothesis Hpar : par_ok n p.
Hypothesis Hdep : dep_ok n p w.

Lemma gp_dep_mono_aux : forall (m : nat) i j, (N.to_nat j < m)%nat ->
  1 <= i -> i <= j -> j < N.of_nat n -> nthN w i <= nthN w j.
Proof.
  destruct Hpar as (Hpl & Hpr & Hpm & Hp3). destruct Hdep as (Hwl & Hw1 & Hw).
  induction m as [|m IH]; intros i j Hjm Hi Hij Hj; [lia|].
  destruct (N.eq_dec i j) as [E|E]; [subst; lia|].
  destruct (N.eq_dec i 1) as [E1|E1]; [subst i; rewrite Hw1; lia|].
  rewrite (Hw i) by lia. rewrite (Hw j) by lia.
  assert (Hpi : 1 <= nthN p i /\ nthN p i < i) by (apply Hpr; lia).
  assert (Hpj : 1 <= nthN p j /\ nthN p j < j) by (apply Hpr; lia).
  assert (Hpij : nthN p i <= nthN p j) by (apply Hpm; lia).
  assert (nthN w (nthN p i) <= nthN w (nthN p j)) by (apply IH; lia).
  lia.
Qed.

Lemma gp_dep_mono : forall i j, 1 <= i -> i <= j -> j < N.of_nat n -> nthN w i <= nthN w j.
Proof. intros i j. apply (gp_dep_mono_aux (S (N.to_nat j))). lia. Qed.

Lemma gp_dep_step : forall i, 1 <= i -> i + 1 < N.of_nat n -> nthN w (i + 1) <= nthN w i + 1.
Proof.
  intros i Hi Hin.
  destruct Hpar as (Hpl & Hpr & Hpm & Hp3). destruct Hdep as (Hwl & Hw1 & Hw).
  rewrite (Hw (i + 1)) by lia.
  assert (Hpi : 1 <= nthN p (i + 1) /\ nthN p (i + 1) < i + 1) by (apply Hpr; lia).
  assert (nthN w (nthN p (i + 1)) <= nthN w i) by (apply gp_dep_mono; lia).
  lia.
Qed.

Lemma gp_par_lower : forall (k : nat) b, 2 <= b -> b + 2 * N.of_nat k < N.of_nat n ->
  nthN p b + N.of_nat k <= nthN p (b + 2 * N.of_nat k).
Proof.
  destruct Hpar as (Hpl & Hpr & Hpm & Hp3).
  induction k as [|k IH]; intros b Hb Hbn.
  - replace (b + 2 * N.of_nat 0) with b by lia. lia.
  - replace (b + 2 * N.of_nat (S k)) with ((b + 2 * N.of_nat k) + 2) by lia.
    assert (H1 : nthN p b + N.of_nat k <= nthN p (b + 2 * N.of_nat k)) by (apply IH; lia).
    assert (H2 : nthN p (b + 2 * N.of_nat k) + 1 <= nthN p (b + 2 * N.of_nat k + 2))
      by (apply Hp3; lia).
    lia.
Qed.

(* capacity: a level holds at most twice as many internal nodes as the level above it *)
Lemma gp_dep_cap : forall a b d, 1 <= a -> a <= b -> b <= N.of_nat n ->
  (forall j, 1 <= j -> j < a -> nthN w j < d) ->
  (forall j, b <= j -> j < N.of_nat n -> d < nthN w j) ->
  forall i, b <= i -> i < N.of_nat n -> nthN w i = d + 1 -> i < b + 2 * (b - a).
Proof.
  intros a b d Ha Hab Hbn Hlo Hhi i Hbi Hin Hi.
  destruct Hpar as (Hpl & Hpr & Hpm & Hp3). destruct Hdep as (Hwl & Hw1 & Hw).
  destruct (N.ltb_spec i (b + 2 * (b - a))) as [Hlt|Hge]; [exact Hlt|exfalso].
  assert (Hi2 : 2 <= i).
  { destruct (N.eq_dec i 1) as [E|E]; [subst i; lia|]. lia. }
  (* the parent of any node of depth d+1 at or after b lies in [a, b) *)
  assert (Hrange : forall x, b <= x -> x < N.of_nat n -> nthN w x = d + 1 ->
                     a <= nthN p x /\ nthN p x < b).
  { intros x Hbx Hxn Hx.
    assert (Hx2 : 2 <= x).
    { destruct (N.eq_dec x 1) as [E|E]; [subst x; lia|]. lia. }
    assert (Hpx : 1 <= nthN p x /\ nthN p x < x) by (apply Hpr; lia).
    assert (Hwx : nthN w x = nthN w (nthN p x) + 1) by (apply Hw; lia).
    split.
    - destruct (N.ltb_spec (nthN p x) a) as [Hc|Hc]; [|exact Hc].
      assert (nthN w (nthN p x) < d) by (apply Hlo; lia). lia.
    - destruct (N.ltb_spec (nthN p x) b) as [Hc|Hc]; [exact Hc|].
      assert (d < nthN w (nthN p x)) by (apply Hhi; lia). lia. }
  assert (Hpi := Hrange i Hbi Hin Hi).
  (* the node at b has depth d+1 as well *)
  assert (Hwb : nthN w b = d + 1).
  { assert (d < nthN w b) by (apply Hhi; lia).
    assert (nthN w b <= nthN w i) by (apply gp_dep_mono; lia). lia. }
  assert (Hpb := Hrange b ltac:(lia) ltac:(lia) Hwb).
  assert (Hb2 : 2 <= b).
  { destruct (N.eq_dec b 1) as [E|E]; [subst b; lia|]. lia. }
  set (k := N.to_nat (b - a)).
  assert (Hk : nthN p b + N.of_nat k <= nthN p (b + 2 * N.of_nat k)) by (apply gp_par_lower; lia).
  assert (Hm : nthN p (b + 2 * N.of_nat k) <= nthN p i) by (apply Hpm; lia).
  lia.
Qed.

Lemma gp_dep_pos : forall i, 2 <= i -> i < N.of_nat n -> 1 <= nthN w i.
Proof.
  intros i Hi Hin. destruct Hdep as (Hwl & Hw1 & Hw). rewrite (Hw i) by lia. lia.
Qed.

End Depths.

(* ------------------------------------------------------------------ *)
(* 4. phase 3                                                           *)

(* Kraft sum of a list of lengths, scaled by 2^d *)
Definition KS (d : N) (l : list N) : N := sumN (map (fun x => 2 ^ (d - x)) l).

Lemma gp_sumN_app : forall a b, sumN (a ++ b) = sumN a + sumN b.
Proof. induction a as [|x a IH]; intros b; cbn [app sumN]; [reflexivity|]. rewrite IH. lia. Qed.

Lemma gp_KS_app : forall d a b, KS d (a ++ b) = KS d a + KS d b.
Proof. intros. unfold KS. rewrite map_app. apply gp_sumN_app. Qed.

Lemma gp_KS_repeat : forall d x k, KS d (repeat x k) = N.of_nat k * 2 ^ (d - x).
Proof.
  intros d x k. unfold KS. induction k as [|k IH].
  - cbn [repeat map sumN]. lia.
  - cbn [repeat map sumN]. rewrite IH. lia.
Qed.

Lemma gp_KS_scale : forall a b l, Forall (fun x => x <= a) l -> a <= b ->
  KS b l = 2 ^ (b - a) * KS a l.
Proof.
  intros a b l Hl Hab. unfold KS. induction Hl as [|x l Hx Hl IH].
  - cbn [map sumN]. lia.
  - cbn [map sumN]. rewrite IH.
    replace (b - x) with ((b - a) + (a - x)) by lia. rewrite N.pow_add_r. lia.
Qed.

Lemma gp_KS_succ : forall d l, Forall (fun x => x <= d) l -> KS (d + 1) l = 2 * KS d l.
Proof.
  intros d l Hl. rewrite (gp_KS_scale d (d + 1) l Hl) by lia.
  replace (d + 1 - d) with 1 by lia. reflexivity.
Qed.

Lemma gp_firstn_upd : forall (l : list N) a v, (a < length l)%nat ->
  firstn (S a) (upd a v l) = firstn a l ++ [v].
Proof.
  induction l as [|x l IH]; intros a v Ha; cbn [length] in Ha; [lia|].
  destruct a as [|a].
  - rewrite upd_0. reflexivity.
  - rewrite upd_S. cbn [firstn app]. f_equal. apply IH. lia.
Qed.

Lemma gp_last_repeat : forall (l : list N) x k d, last (l ++ repeat x (S k)) d = x.
Proof.
  intros l x k d. cbn [repeat]. rewrite repeat_cons. rewrite app_assoc. apply last_last.
Qed.

Lemma gp_count_internal : forall fuel w nn r depth u,
  nn <= N.of_nat fuel + r -> r <= nn ->
  exists r1, count_internal fuel w nn r depth u = (r1, u + (r1 - r)) /\
    r <= r1 /\ r1 <= nn /\
    (forall i, r <= i -> i < r1 -> nthN w i = depth) /\
    (r1 < nn -> nthN w r1 <> depth).
Proof.
  induction fuel as [|fuel IH]; intros w nn r depth u Hf Hr.
  - exists r. cbn [count_internal]. split; [f_equal; lia|].
    split; [lia|]. split; [lia|]. split; [intros; lia|]. intros; lia.
  - cbn [count_internal].
    destruct ((r <? nn) && (nthN w r =? depth)) eqn:Ec.
    + apply andb_prop in Ec. destruct Ec as [Ec1 Ec2].
      apply N.ltb_lt in Ec1. apply N.eqb_eq in Ec2.
      destruct (IH w nn (r + 1) depth (u + 1)) as (r1 & Heq & Hr1 & Hr1n & Hall & Hstop); [lia|lia|].
      exists r1. split; [rewrite Heq; f_equal; lia|].
      split; [lia|]. split; [lia|]. split; [|exact Hstop].
      intros i Hi Hi1. destruct (N.eq_dec i r) as [E|E]; [subst i; exact Ec2|].
      apply Hall; lia.
    + exists r. split; [f_equal; lia|].
      split; [lia|]. split; [lia|]. split; [intros; lia|].
      intros Hlt E. apply andb_false_iff in Ec. destruct Ec as [Ec|Ec].
      * apply N.ltb_ge in Ec. lia.
      * apply N.eqb_neq in Ec. contradiction.
Qed.

Lemma gp_assign_leaves : forall fuel w next avail used depth,
  used <= avail -> avail - used < N.of_nat fuel ->
  (N.to_nat (next + (avail - used)) <= length w)%nat ->
  exists w1, assign_leaves fuel w next avail used depth = (w1, next + (avail - used)) /\
    length w1 = length w /\
    firstn (N.to_nat (next + (avail - used))) w1 =
      firstn (N.to_nat next) w ++ repeat depth (N.to_nat (avail - used)) /\
    (forall i, next + (avail - used) <= i -> nthN w1 i = nthN w i).
Proof.
  induction fuel as [|fuel IH]; intros w next avail used depth Hua Hf Hlen; [lia|].
  cbn [assign_leaves]. destruct (used <? avail) eqn:Ec.
  - apply N.ltb_lt in Ec.
    destruct (IH (updN w next depth) (next + 1) (avail - 1) used depth) as (w1 & Heq & Hl & Hfst & Hrest).
    + lia.
    + lia.
    + rewrite gp_updN_length. lia.
    + exists w1. replace (next + (avail - used)) with (next + 1 + (avail - 1 - used)) by lia.
      split; [exact Heq|]. split; [rewrite Hl; apply gp_updN_length|]. split.
      * rewrite Hfst. replace (N.to_nat (next + 1)) with (S (N.to_nat next)) by lia.
        unfold updN. rewrite gp_firstn_upd by lia.
        replace (N.to_nat (avail - used)) with (S (N.to_nat (avail - 1 - used))) by lia.
        cbn [repeat]. rewrite <- app_assoc. reflexivity.
      * intros i Hi. rewrite Hrest by exact Hi. apply gp_nthN_updN_other. lia.
  - apply N.ltb_ge in Ec. exists w.
    replace (avail - used) with 0 by lia. rewrite N.add_0_r.
    split; [reflexivity|]. split; [reflexivity|]. split.
    + cbn [N.to_nat repeat]. rewrite app_nil_r. reflexivity.
    + intros; reflexivity.
Qed.

Section Phase3.
Variable n : nat.
Variable D : N -> N.
Hypothesis Hn : (2 <= n)%nat.
Hypothesis HD1 : D 1 = 0.
Hypothesis HDmono : forall i j, 1 <= i -> i <= j -> j < N.of_nat n -> D i <= D j.
Hypothesis HDstep : forall i, 1 <= i -> i + 1 < N.of_nat n -> D (i + 1) <= D i + 1.
Hypothesis HDpos : forall i, 2 <= i -> i < N.of_nat n -> 1 <= D i.
Hypothesis HDcap : forall a b d, 1 <= a -> a <= b -> b <= N.of_nat n ->
  (forall j, 1 <= j -> j < a -> D j < d) ->
  (forall j, b <= j -> j < N.of_nat n -> d < D j) ->
  forall i, b <= i -> i < N.of_nat n -> D i = d + 1 -> i < b + 2 * (b - a).

Definition p3_inv (w : list N) (avail depth root next : N) : Prop :=
  length w = n /\
  (forall i, root <= i -> i < N.of_nat n -> nthN w i = D i) /\
  next + avail = root /\ 1 <= root /\ root <= N.of_nat n /\
  (root < N.of_nat n -> D root = depth) /\
  (forall j, 1 <= j -> j < root -> D j < depth) /\
  (forall i, root <= i -> i < N.of_nat n -> D i = depth -> i < root + avail) /\
  Forall (fun x => 1 <= x /\ x <= depth) (firstn (N.to_nat next) w) /\
  Forall (fun x => x <= last (firstn (N.to_nat next) w) 0) (firstn (N.to_nat next) w) /\
  KS depth (firstn (N.to_nat next) w) + avail = 2 ^ depth.

Definition p3_post (L : list N) : Prop :=
  length L = n /\ Forall (fun x => 1 <= x) L /\ Forall (fun x => x <= last L 0) L /\
  exists d, Forall (fun x => x <= d) L /\ KS d L = 2 ^ d.

Lemma gp_phase3_step : forall w avail depth root next root1 used w1 next1,
  p3_inv w avail depth root next -> 0 < avail ->
  count_internal (length w) w (N.of_nat n) root depth 0 = (root1, used) ->
  assign_leaves (S (length w)) w next avail used depth = (w1, next1) ->
  p3_inv w1 (2 * used) (depth + 1) root1 next1 /\
  (root < N.of_nat n -> root < root1) /\ (root = N.of_nat n -> used = 0).
Proof.
  intros w avail depth root next root1 used w1 next1 Hinv Hav Hci Hal.
  destruct Hinv as (Hlen & Hw & Hna & Hr1 & Hrn & Hroot & Hlow & Hcap & Hrange & Hlast & Hks).
  destruct (gp_count_internal (length w) w (N.of_nat n) root depth 0) as
    (r1 & Hci' & Hrr1 & Hr1n & Hall & Hstop); [lia|lia|].
  rewrite Hci in Hci'. injection Hci' as Er Eu0. subst r1.
  assert (Eu : used = root1 - root) by lia. clear Eu0.
  (* the counted nodes have depth `depth` *)
  assert (HallD : forall i, root <= i -> i < root1 -> D i = depth).
  { intros i Hi Hi1. rewrite <- (Hw i) by lia. apply Hall; lia. }
  assert (HstopD : root1 < N.of_nat n -> D root1 <> depth).
  { intros Hlt. rewrite <- (Hw root1) by lia. apply Hstop. exact Hlt. }
  assert (Hgrow : root < N.of_nat n -> root < root1).
  { intros Hlt. destruct (N.eq_dec root1 root) as [E|E]; [|lia].
    exfalso. subst root1. apply HstopD; [exact Hlt|]. apply Hroot. exact Hlt. }
  assert (Hused : used <= avail).
  { destruct (N.eq_dec root1 root) as [E|E]; [lia|].
    assert (root1 - 1 < root + avail).
    { apply Hcap; [lia|lia|]. apply HallD; lia. }
    lia. }
  destruct (gp_assign_leaves (S (length w)) w next avail used depth) as
    (w1' & Hal' & Hl1 & Hfst & Hrest); [exact Hused|lia|lia|].
  rewrite Hal in Hal'. injection Hal' as Ew En. subst w1' next1.
  (* all nodes from root1 on are deeper *)
  assert (Hdeeper : forall j, root1 <= j -> j < N.of_nat n -> depth < D j).
  { intros j Hj Hjn.
    assert (Hr1lt : root1 < N.of_nat n) by lia.
    assert (root < root1) by (apply Hgrow; lia).
    assert (D (root1 - 1) = depth) by (apply HallD; lia).
    assert (D (root1 - 1) <= D root1) by (apply HDmono; lia).
    assert (D root1 <> depth) by (apply HstopD; lia).
    assert (D root1 <= D j) by (apply HDmono; lia).
    lia. }
  (* at depth 0 no leaf is assigned *)
  assert (Hd0 : depth = 0 -> avail - used = 0).
  { intros Ed.
    assert (Hroot1 : root = 1).
    { destruct (N.eq_dec root 1) as [E|E]; [exact E|].
      assert (D 1 < depth) by (apply Hlow; lia). lia. }
    assert (root < root1) by (apply Hgrow; lia). lia. }
  split; [|split; [exact Hgrow|intros; lia]].
  unfold p3_inv.
  split; [rewrite Hl1; exact Hlen|].
  split; [intros i Hi Hin; rewrite Hrest by lia; apply Hw; lia|].
  split; [lia|]. split; [lia|]. split; [lia|].
  split.
  { intros Hlt.
    assert (root < root1) by (apply Hgrow; lia).
    assert (D (root1 - 1) = depth) by (apply HallD; lia).
    assert (D (root1 - 1 + 1) <= D (root1 - 1) + 1) by (apply HDstep; lia).
    replace (root1 - 1 + 1) with root1 in * by lia.
    assert (depth < D root1) by (apply Hdeeper; lia).
    lia. }
  split.
  { intros j Hj Hjr. destruct (N.ltb_spec j root) as [Hc|Hc].
    - assert (D j < depth) by (apply Hlow; lia). lia.
    - rewrite HallD by lia. lia. }
  split.
  { intros i Hi Hin Hdi.
    replace (root1 + 2 * used) with (root1 + 2 * (root1 - root)) by lia.
    apply (HDcap root root1 depth); try lia; assumption. }
  rewrite Hfst.
  split.
  { apply Forall_app. split.
    - eapply Forall_impl; [|exact Hrange]. cbv beta. intros x Hx. lia.
    - apply Forall_forall. intros x Hx. assert (Hx' := Hx). apply repeat_spec in Hx'. subst x.
      destruct (N.eq_dec depth 0) as [E|E]; [|lia].
      exfalso. rewrite (Hd0 E) in Hx. cbn [N.to_nat repeat] in Hx. exact Hx. }
  split.
  { destruct (N.to_nat (avail - used)) as [|m] eqn:Em.
    - cbn [repeat]. rewrite app_nil_r. exact Hlast.
    - rewrite gp_last_repeat. apply Forall_app. split.
      + eapply Forall_impl; [|exact Hrange]. cbv beta. intros x Hx. lia.
      + apply Forall_forall. intros x Hx. apply repeat_spec in Hx. subst x. lia. }
  rewrite gp_KS_succ.
  - rewrite gp_KS_app, gp_KS_repeat. rewrite N.sub_diag. change (2 ^ 0) with 1.
    rewrite N.pow_add_r. change (2 ^ 1) with 2. lia.
  - apply Forall_app. split.
    + eapply Forall_impl; [|exact Hrange]. cbv beta. intros x Hx. lia.
    + apply Forall_forall. intros x Hx. apply repeat_spec in Hx. subst x. lia.
Qed.

Lemma gp_phase3_done : forall w depth root next,
  p3_inv w 0 depth root next -> p3_post w.
Proof.
  intros w depth root next Hinv.
  destruct Hinv as (Hlen & Hw & Hna & Hr1 & Hrn & Hroot & Hlow & Hcap & Hrange & Hlast & Hks).
  assert (Hrn' : root = N.of_nat n).
  { destruct (N.eq_dec root (N.of_nat n)) as [E|E]; [exact E|].
    assert (root < root + 0) by (apply Hcap; [lia|lia|apply Hroot; lia]). lia. }
  assert (Hfull : firstn (N.to_nat next) w = w) by (apply firstn_all2; lia).
  rewrite Hfull in *.
  unfold p3_post. split; [exact Hlen|]. split.
  - eapply Forall_impl; [|exact Hrange]. cbv beta. intros x Hx. lia.
  - split; [exact Hlast|]. exists depth. split.
    + eapply Forall_impl; [|exact Hrange]. cbv beta. intros x Hx. lia.
    + lia.
Qed.

Lemma gp_phase3_loop : forall fuel w avail depth root next,
  p3_inv w avail depth root next ->
  avail = 0 \/ N.of_nat n + 2 <= N.of_nat fuel + root ->
  p3_post (phase3 fuel w (N.of_nat n) avail depth root next).
Proof.
  induction fuel as [|fuel IH]; intros w avail depth root next Hinv Hf.
  - cbn [phase3]. destruct Hf as [Hf|Hf].
    + subst avail. eapply gp_phase3_done. exact Hinv.
    + exfalso. destruct Hinv as (_ & _ & _ & _ & Hrn & _). lia.
  - cbn [phase3]. destruct (0 <? avail) eqn:Ea.
    + apply N.ltb_lt in Ea.
      destruct (count_internal (length w) w (N.of_nat n) root depth 0) as [root1 used] eqn:Eci.
      destruct (assign_leaves (S (length w)) w next avail used depth) as [w1 next1] eqn:Eal.
      destruct (gp_phase3_step _ _ _ _ _ _ _ _ _ Hinv Ea Eci Eal) as (Hinv1 & Hgrow & Hend).
      apply IH; [exact Hinv1|].
      destruct Hf as [Hf|Hf]; [lia|].
      assert (Hrn : root <= N.of_nat n) by (destruct Hinv as (_ & _ & _ & _ & Hrn & _); exact Hrn).
      destruct (N.eq_dec root (N.of_nat n)) as [E|E].
      * left. rewrite (Hend E). reflexivity.
      * right. assert (root < root1) by (apply Hgrow; lia). lia.
    + apply N.ltb_ge in Ea. assert (avail = 0) by lia. subst avail.
      eapply gp_phase3_done. exact Hinv.
Qed.

Lemma gp_phase3 : forall w, length w = n ->
  (forall i, 1 <= i -> i < N.of_nat n -> nthN w i = D i) ->
  p3_post (phase3 (S (length w)) w (N.of_nat n) 1 0 1 0).
Proof.
  intros w Hlen Hw. apply gp_phase3_loop.
  - unfold p3_inv.
    split; [exact Hlen|]. split; [exact Hw|]. split; [lia|]. split; [lia|]. split; [lia|].
    split; [intros; exact HD1|].
    split; [intros; lia|].
    split.
    { intros i Hi Hin Hdi. destruct (N.eq_dec i 1) as [E|E]; [lia|]. exfalso.
      assert (1 <= D i) by (apply HDpos; lia). lia. }
    cbn [N.to_nat firstn]. split; [constructor|]. split; [constructor|].
    reflexivity.
  - right. lia.
Qed.

End Phase3.

(* ------------------------------------------------------------------ *)
(* 5. code_lens                                                         *)

Definition cl_post (n : nat) (L : list N) : Prop :=
  length L = n /\ Forall (fun x => 1 <= x) L /\ Forall (fun x => x <= last L 0) L /\
  (n = 1%nat -> L = [1]) /\
  exists d, Forall (fun x => x <= d) L /\ KS d L <= 2 ^ d /\ ((2 <= n)%nat -> KS d L = 2 ^ d).

Lemma gp_code_lens : forall w, (1 <= length w)%nat -> cl_post (length w) (code_lens w).
Proof.
  intros w Hn. destruct w as [|a [|b r]].
  - cbn [length] in Hn. lia.
  - cbn [code_lens length]. unfold cl_post.
    split; [reflexivity|]. split; [repeat constructor; lia|].
    split; [repeat constructor; cbn [last]; lia|].
    split; [reflexivity|].
    exists 1. split; [repeat constructor; lia|]. split; [|intros; lia].
    vm_compute. discriminate.
  - unfold code_lens. set (w0 := a :: b :: r).
    assert (Hn2 : (2 <= length w0)%nat) by (unfold w0; cbn [length]; lia).
    set (p := phase1 (length w0 - 1) w0 (lenN w0 - 1) (lenN w0 - 1) false).
    assert (Hp : par_ok (length w0) p) by (apply gp_phase1_start; exact Hn2).
    set (w2 := phase2 (seqN 2 (length w0 - 2)) (updN p 1 0)).
    assert (Hpl : length p = length w0) by (destruct Hp as (Hpl & _); exact Hpl).
    assert (Hd : dep_ok (length w0) p w2).
    { apply gp_phase2.
      - exact Hp.
      - lia.
      - lia.
      - rewrite gp_updN_length. exact Hpl.
      - apply gp_nthN_updN_same. lia.
      - intros i Hi Hi2. lia.
      - intros i Hi Hin. apply gp_nthN_updN_other. lia. }
    assert (Hw2l : length w2 = length w0) by (destruct Hd as (Hl & _); exact Hl).
    assert (Hpost : p3_post (length w0) (phase3 (S (length w2)) w2 (N.of_nat (length w0)) 1 0 1 0)).
    { apply (gp_phase3 (length w0) (nthN w2)).
      - exact Hn2.
      - destruct Hd as (_ & H1 & _). exact H1.
      - apply (gp_dep_mono (length w0) p w2 Hp Hd).
      - apply (gp_dep_step (length w0) p w2 Hp Hd).
      - apply (gp_dep_pos (length w0) p w2 Hd).
      - apply (gp_dep_cap (length w0) p w2 Hp Hd).
      - exact Hw2l.
      - intros; reflexivity. }
    rewrite Hw2l in Hpost. unfold lenN.
    destruct Hpost as (H1 & H2 & H3 & d & H4 & H5).
    unfold cl_post. split; [exact H1|]. split; [exact H2|]. split; [exact H3|].
    split; [intros; lia|].
    exists d. split; [exact H4|]. split; [lia|]. intros _. exact H5.
Qed.

(* ------------------------------------------------------------------ *)
(* 6. the length limiter                                                *)

(* weighted sum of the counts lc[a..a+m-1] *)
Definition wsum (f : nat -> N) (a m : nat) (lc : list N) : N :=
  sumN (map (fun i => nthN lc (N.of_nat i) * f i) (seq a m)).

Lemma gp_wsum_S : forall f a m lc,
  wsum f a (S m) lc = nthN lc (N.of_nat a) * f a + wsum f (S a) m lc.
Proof. intros. reflexivity. Qed.

Lemma gp_wsum_0 : forall f a lc, wsum f a 0 lc = 0.
Proof. intros. reflexivity. Qed.

Lemma gp_wsum_app : forall f a m1 m2 lc,
  wsum f a (m1 + m2) lc = wsum f a m1 lc + wsum f (a + m1) m2 lc.
Proof.
  intros. unfold wsum. rewrite seq_app, map_app. apply gp_sumN_app.
Qed.

Lemma gp_wsum_upd_out : forall f m a lc v x, (v < a \/ a + m <= v)%nat ->
  wsum f a m (updN lc (N.of_nat v) x) = wsum f a m lc.
Proof.
  intros f m. induction m as [|m IH]; intros a lc v x Hv; [reflexivity|].
  rewrite !gp_wsum_S. rewrite IH by lia. rewrite gp_nthN_updN_other by lia. reflexivity.
Qed.

Lemma gp_wsum_upd : forall f m a lc v x, (a <= v)%nat -> (v < a + m)%nat -> (v < length lc)%nat ->
  wsum f a m (updN lc (N.of_nat v) x) + nthN lc (N.of_nat v) * f v = wsum f a m lc + x * f v.
Proof.
  intros f m. induction m as [|m IH]; intros a lc v x Hav Hvm Hvl; [lia|].
  rewrite !gp_wsum_S. destruct (Nat.eq_dec a v) as [E|E].
  - subst v. rewrite gp_nthN_updN_same by lia. rewrite gp_wsum_upd_out by lia. lia.
  - rewrite gp_nthN_updN_other by lia.
    assert (H := IH (S a) lc v x ltac:(lia) ltac:(lia) Hvl). lia.
Qed.

Lemma gp_wsum_ext : forall f g m a lc, (forall i, (a <= i)%nat -> (i < a + m)%nat -> f i = g i) ->
  wsum f a m lc = wsum g a m lc.
Proof.
  intros f g m. induction m as [|m IH]; intros a lc H; [reflexivity|].
  rewrite !gp_wsum_S. rewrite (H a) by lia. rewrite (IH (S a)); [reflexivity|].
  intros i Hi Him. apply H; lia.
Qed.

Lemma gp_wsum_le : forall f g m a lc, (forall i, (a <= i)%nat -> (i < a + m)%nat -> f i <= g i) ->
  wsum f a m lc <= wsum g a m lc.
Proof.
  intros f g m. induction m as [|m IH]; intros a lc H; [rewrite !gp_wsum_0; lia|].
  rewrite !gp_wsum_S.
  assert (H1 : f a <= g a) by (apply H; lia).
  assert (H2 : wsum f (S a) m lc <= wsum g (S a) m lc) by (apply IH; intros i Hi Him; apply H; lia).
  assert (H3 : nthN lc (N.of_nat a) * f a <= nthN lc (N.of_nat a) * g a) by (apply N.mul_le_mono_l; exact H1).
  lia.
Qed.

Lemma gp_wsum_scale : forall c f m a lc, wsum (fun i => c * f i) a m lc = c * wsum f a m lc.
Proof.
  intros c f m. induction m as [|m IH]; intros a lc; [rewrite !gp_wsum_0; lia|].
  rewrite !gp_wsum_S. rewrite IH. lia.
Qed.

Lemma gp_wsum_zero : forall f m a lc, (forall i, (a <= i)%nat -> (i < a + m)%nat -> nthN lc (N.of_nat i) = 0) ->
  wsum f a m lc = 0.
Proof.
  intros f m. induction m as [|m IH]; intros a lc H; [reflexivity|].
  rewrite gp_wsum_S. rewrite (H a) by lia. rewrite IH; [lia|]. intros i Hi Him. apply H; lia.
Qed.

Lemma gp_wsum_term : forall f m a lc i, (a <= i)%nat -> (i < a + m)%nat ->
  nthN lc (N.of_nat i) * f i <= wsum f a m lc.
Proof.
  intros f m. induction m as [|m IH]; intros a lc i Hi Him; [lia|].
  rewrite gp_wsum_S. destruct (Nat.eq_dec a i) as [E|E].
  - subst i. lia.
  - assert (H := IH (S a) lc i ltac:(lia) ltac:(lia)). lia.
Qed.

Lemma gp_nth_firstn : forall (l : list N) k i d, (i < k)%nat -> nth i (firstn k l) d = nth i l d.
Proof.
  induction l as [|x l IH]; intros k i d H.
  - rewrite firstn_nil. reflexivity.
  - destruct k as [|k]; [lia|]. cbn [firstn]. destruct i as [|i]; [reflexivity|].
    cbn [nth]. apply IH. lia.
Qed.

Lemma gp_wsum_firstn : forall f m a k lc, (a + m <= k)%nat ->
  wsum f a m (firstn k lc) = wsum f a m lc.
Proof.
  intros f m. induction m as [|m IH]; intros a k lc H; [reflexivity|].
  rewrite !gp_wsum_S. rewrite IH by lia. f_equal. f_equal.
  unfold nthN. rewrite Nat2N.id. apply gp_nth_firstn. lia.
Qed.

Lemma gp_skipn_nth : forall (l : list N) a, (a < length l)%nat ->
  skipn a l = nth a l 0 :: skipn (S a) l.
Proof.
  induction l as [|x l IH]; intros a Ha; cbn [length] in Ha; [lia|].
  destruct a as [|a]; [reflexivity|]. cbn [skipn nth]. rewrite IH by lia. reflexivity.
Qed.

Lemma gp_sum_skipn : forall k a (l : list N), length l = (a + k)%nat ->
  sumN (skipn a l) = wsum (fun _ => 1) a k l.
Proof.
  induction k as [|k IH]; intros a l Hl.
  - rewrite skipn_all2 by lia. reflexivity.
  - rewrite gp_skipn_nth by lia. cbn [sumN]. rewrite gp_wsum_S. rewrite IH by lia.
    unfold nthN. rewrite Nat2N.id. lia.
Qed.

(* count_into *)
Lemma gp_nthN_repeat0 : forall k i, nthN (repeat 0 k) i = 0.
Proof.
  intros k i. unfold nthN. destruct (Nat.lt_ge_cases (N.to_nat i) k) as [H|H].
  - apply nth_repeat.
  - apply nth_overflow. rewrite repeat_length. exact H.
Qed.

Lemma gp_count_into_length : forall ws lc, length (count_into ws lc) = length lc.
Proof.
  induction ws as [|v r IH]; intros lc; cbn [count_into]; [reflexivity|].
  rewrite IH. apply gp_incN_length.
Qed.

Lemma gp_wsum_count_into : forall f m ws lc, length lc = S m ->
  Forall (fun x => 1 <= x /\ x <= N.of_nat m) ws ->
  wsum f 1 m (count_into ws lc) = wsum f 1 m lc + sumN (map (fun x => f (N.to_nat x)) ws).
Proof.
  intros f m ws. induction ws as [|v r IH]; intros lc Hl Hws.
  - cbn [count_into map sumN]. lia.
  - cbn [count_into map sumN]. inversion Hws as [|v' r' Hv Hr]; subst v' r'.
    rewrite IH; [|rewrite gp_incN_length; exact Hl|exact Hr].
    unfold incN. replace v with (N.of_nat (N.to_nat v)) at 1 2 by lia.
    assert (H := gp_wsum_upd f m 1%nat lc (N.to_nat v) (nthN lc (N.of_nat (N.to_nat v)) + 1)
                   ltac:(lia) ltac:(lia) ltac:(lia)).
    lia.
Qed.

(* the two sums we follow *)
Definition cnt_total (m : nat) (lc : list N) : N := wsum (fun _ => 1) 1 m lc.

Lemma gp_kraft_total_wsum : forall m lc,
  kraft_total m lc = wsum (fun i => 2 ^ N.of_nat (m - i)) 1 m lc.
Proof. intros. reflexivity. Qed.

(* move_one *)
Lemma gp_move_one : forall i lc,
  (exists j, (1 <= j)%nat /\ (j <= i)%nat /\ nthN lc (N.of_nat j) <> 0) ->
  exists j, (1 <= j)%nat /\ (j <= i)%nat /\ nthN lc (N.of_nat j) <> 0 /\
    move_one i lc = incN (updN lc (N.of_nat j) (nthN lc (N.of_nat j) - 1)) (N.of_nat j + 1) 2.
Proof.
  induction i as [|i IH]; intros lc Hex.
  - destruct Hex as (j & H1 & H2 & _). lia.
  - cbn [move_one]. destruct (negb (nthN lc (N.of_nat (S i)) =? 0)) eqn:Ec.
    + exists (S i). apply negb_true_iff in Ec. apply N.eqb_neq in Ec.
      split; [lia|]. split; [lia|]. split; [exact Ec|reflexivity].
    + apply negb_false_iff in Ec. apply N.eqb_eq in Ec.
      destruct (IH lc) as (j & H1 & H2 & H3 & H4).
      * destruct Hex as (j & H1 & H2 & H3). exists j. split; [exact H1|]. split; [|exact H3].
        destruct (Nat.eq_dec j (S i)) as [E|E]; [subst j; contradiction|lia].
      * exists j. split; [exact H1|]. split; [lia|]. split; [exact H3|exact H4].
Qed.

Lemma gp_wsum_nonzero : forall f m a lc, wsum f a m lc <> 0 ->
  exists j, (a <= j)%nat /\ (j < a + m)%nat /\ nthN lc (N.of_nat j) <> 0.
Proof.
  intros f m. induction m as [|m IH]; intros a lc H.
  - rewrite gp_wsum_0 in H. contradiction.
  - rewrite gp_wsum_S in H.
    destruct (N.eq_dec (nthN lc (N.of_nat a)) 0) as [E|E].
    + rewrite E in H. destruct (IH (S a) lc) as (j & H1 & H2 & H3); [lia|].
      exists j. split; [lia|]. split; [lia|exact H3].
    + exists a. split; [lia|]. split; [lia|exact E].
Qed.

(* the invariant of kraft_fix *)
Definition kf_inv (limit : nat) (n : N) (lc : list N) (E : N) : Prop :=
  length lc = S limit /\
  cnt_total limit lc = n /\
  kraft_total limit lc = 2 ^ N.of_nat limit + E /\
  (E = 0 \/ E < nthN lc (N.of_nat limit)).

Lemma gp_wsum_last : forall f m lc, wsum f 1 (S m) lc = wsum f 1 m lc + nthN lc (N.of_nat (S m)) * f (S m).
Proof.
  intros f m lc. replace (S m) with (m + 1)%nat at 1 by lia. rewrite gp_wsum_app.
  rewrite gp_wsum_S, gp_wsum_0. replace (1 + m)%nat with (S m) by lia. lia.
Qed.

Lemma gp_kraft_fix_step : forall limit n lc E,
  (1 <= limit)%nat -> n <= 2 ^ N.of_nat limit -> 1 <= E ->
  kf_inv limit n lc E ->
  kf_inv limit n (move_one (limit - 1)
                    (updN lc (N.of_nat limit) (nthN lc (N.of_nat limit) - 1))) (E - 1).
Proof.
  intros limit n lc E Hlim Hn HE (Hlen & Hcnt & Hkr & HEl).
  destruct HEl as [HEl|HEl]; [lia|].
  set (cl := nthN lc (N.of_nat limit)) in *.
  set (lcA := updN lc (N.of_nat limit) (cl - 1)).
  set (fk := fun i : nat => 2 ^ N.of_nat (limit - i)).
  assert (HlenA : length lcA = S limit) by (unfold lcA; rewrite gp_updN_length; exact Hlen).
  assert (HcntA : cnt_total limit lcA + 1 = n).
  { unfold cnt_total, lcA.
    assert (H := gp_wsum_upd (fun _ => 1) limit 1%nat lc limit (cl - 1) ltac:(lia) ltac:(lia) ltac:(lia)).
    cbv beta in H. fold cl in H. unfold cnt_total in Hcnt. lia. }
  assert (HkrA : kraft_total limit lcA + 1 = 2 ^ N.of_nat limit + E).
  { rewrite gp_kraft_total_wsum in *. fold fk in Hkr |- *. unfold lcA.
    assert (H := gp_wsum_upd fk limit 1%nat lc limit (cl - 1) ltac:(lia) ltac:(lia) ltac:(lia)).
    fold cl in H. assert (Hf : fk limit = 1) by (unfold fk; rewrite Nat.sub_diag; reflexivity).
    rewrite Hf in H. lia. }
  assert (HlA : nthN lcA (N.of_nat limit) = cl - 1).
  { unfold lcA. apply gp_nthN_updN_same. lia. }
  (* a shallower level is occupied *)
  assert (Hex : exists j, (1 <= j)%nat /\ (j <= limit - 1)%nat /\ nthN lcA (N.of_nat j) <> 0).
  { destruct (N.eq_dec (wsum (fun _ => 1) 1 (limit - 1) lcA) 0) as [Ez|Ez].
    - exfalso.
      assert (Hz : forall i, (1 <= i)%nat -> (i < 1 + (limit - 1))%nat -> nthN lcA (N.of_nat i) = 0).
      { intros i Hi Him.
        assert (Ht := gp_wsum_term (fun _ => 1) (limit - 1) 1%nat lcA i Hi Him).
        cbv beta in Ht. lia. }
      assert (Hk0 : wsum fk 1 (limit - 1) lcA = 0) by (apply gp_wsum_zero; exact Hz).
      destruct limit as [|l]; [lia|].
      replace (S l - 1)%nat with l in * by lia.
      unfold cnt_total in HcntA. rewrite gp_wsum_last in HcntA. rewrite Ez in HcntA.
      rewrite gp_kraft_total_wsum in HkrA. fold fk in HkrA. rewrite gp_wsum_last in HkrA.
      rewrite Hk0 in HkrA.
      assert (Hf : fk (S l) = 1) by (unfold fk; rewrite Nat.sub_diag; reflexivity).
      rewrite Hf in HkrA. lia.
    - destruct (gp_wsum_nonzero _ _ _ _ Ez) as (j & Hj1 & Hj2 & Hj3).
      exists j. split; [lia|]. split; [lia|exact Hj3]. }
  destruct (gp_move_one (limit - 1) lcA Hex) as (j & Hj1 & Hj2 & Hj3 & Hmv).
  rewrite Hmv. clear Hmv Hex.
  set (cj := nthN lcA (N.of_nat j)) in *.
  set (lcB := updN lcA (N.of_nat j) (cj - 1)).
  assert (HlenB : length lcB = S limit) by (unfold lcB; rewrite gp_updN_length; exact HlenA).
  replace (N.of_nat j + 1) with (N.of_nat (S j)) by lia.
  unfold incN. set (cj1 := nthN lcB (N.of_nat (S j))).
  set (lcC := updN lcB (N.of_nat (S j)) (cj1 + 2)).
  assert (HcntB : cnt_total limit lcB + 1 = cnt_total limit lcA).
  { unfold cnt_total, lcB.
    assert (H := gp_wsum_upd (fun _ => 1) limit 1%nat lcA j (cj - 1) ltac:(lia) ltac:(lia) ltac:(lia)).
    cbv beta in H. fold cj in H. lia. }
  assert (HcntC : cnt_total limit lcC = cnt_total limit lcB + 2).
  { unfold cnt_total, lcC.
    assert (H := gp_wsum_upd (fun _ => 1) limit 1%nat lcB (S j) (cj1 + 2) ltac:(lia) ltac:(lia) ltac:(lia)).
    cbv beta in H. fold cj1 in H. lia. }
  assert (Hfj : fk j = 2 * fk (S j)).
  { unfold fk. replace (limit - j)%nat with (S (limit - S j)) by lia. apply pow2_S. }
  assert (HkrB : kraft_total limit lcB + fk j = kraft_total limit lcA).
  { rewrite !gp_kraft_total_wsum. fold fk. unfold lcB.
    assert (H := gp_wsum_upd fk limit 1%nat lcA j (cj - 1) ltac:(lia) ltac:(lia) ltac:(lia)).
    fold cj in H.
    assert (Hcj : cj = (cj - 1) + 1) by lia.
    remember (cj - 1) as c' eqn:Ec'. rewrite Hcj in H. lia. }
  assert (HkrC : kraft_total limit lcC = kraft_total limit lcB + fk j).
  { rewrite !gp_kraft_total_wsum. fold fk. unfold lcC.
    assert (H := gp_wsum_upd fk limit 1%nat lcB (S j) (cj1 + 2) ltac:(lia) ltac:(lia) ltac:(lia)).
    fold cj1 in H. lia. }
  assert (HlC : cl - 1 <= nthN lcC (N.of_nat limit)).
  { assert (HlB : nthN lcB (N.of_nat limit) = cl - 1).
    { unfold lcB. rewrite gp_nthN_updN_other by lia. exact HlA. }
    unfold lcC. destruct (Nat.eq_dec (S j) limit) as [Ej|Ej].
    - rewrite Ej. rewrite gp_nthN_updN_same by lia. unfold cj1. rewrite Ej. lia.
    - rewrite gp_nthN_updN_other by lia. lia. }
  unfold kf_inv. split; [unfold lcC; rewrite gp_updN_length; exact HlenB|].
  split; [lia|]. split; [lia|]. right. lia.
Qed.

Lemma gp_kraft_fix : forall fuel limit n lc,
  (1 <= limit)%nat -> n <= 2 ^ N.of_nat limit ->
  kf_inv limit n lc (N.of_nat fuel) -> kf_inv limit n (kraft_fix fuel limit lc) 0.
Proof.
  induction fuel as [|fuel IH]; intros limit n lc Hlim Hn Hinv.
  - exact Hinv.
  - cbn [kraft_fix]. apply IH; [exact Hlim|exact Hn|].
    replace (N.of_nat fuel) with (N.of_nat (S fuel) - 1) by lia.
    apply gp_kraft_fix_step; [exact Hlim|exact Hn|lia|exact Hinv].
Qed.

Lemma gp_count_into_ge : forall ws lc i, nthN lc i <= nthN (count_into ws lc) i.
Proof.
  induction ws as [|v r IH]; intros lc i; cbn [count_into]; [lia|].
  assert (H := IH (incN lc v 1) i).
  assert (nthN lc i <= nthN (incN lc v 1) i); [|lia].
  unfold incN. destruct (N.eq_dec v i) as [E|E].
  - subst v. destruct (Nat.lt_ge_cases (N.to_nat i) (length lc)) as [Hl|Hl].
    + rewrite gp_nthN_updN_same by exact Hl. lia.
    + rewrite gp_updN_out by exact Hl. lia.
  - rewrite gp_nthN_updN_other by exact E. lia.
Qed.

Lemma gp_count_into_in : forall ws lc v, In v ws -> (N.to_nat v < length lc)%nat ->
  nthN lc v + 1 <= nthN (count_into ws lc) v.
Proof.
  induction ws as [|x r IH]; intros lc v Hin Hv; [destruct Hin|].
  cbn [count_into]. destruct (N.eq_dec x v) as [E|E].
  - subst x. assert (H := gp_count_into_ge r (incN lc v 1) v).
    unfold incN in H at 1. rewrite gp_nthN_updN_same in H by exact Hv. exact H.
  - destruct Hin as [Hin|Hin]; [contradiction|].
    assert (H := IH (incN lc x 1) v Hin). rewrite gp_incN_length in H.
    unfold incN in H at 1. rewrite gp_nthN_updN_other in H by exact E. apply H. exact Hv.
Qed.

Lemma gp_sum_ones : forall (l : list N), sumN (map (fun _ => 1) l) = N.of_nat (length l).
Proof. induction l as [|x l IH]; cbn [map sumN length]; [reflexivity|]. rewrite IH. lia. Qed.

Lemma gp_enforce_init : forall limit M w,
  (1 <= limit)%nat -> (limit < M)%nat ->
  Forall (fun x => 1 <= x /\ x <= N.of_nat M) w -> In (N.of_nat M) w ->
  KS (N.of_nat M) w = 2 ^ N.of_nat M ->
  let lc := count_into w (repeat 0 (S M)) in
  let lc1 := firstn (S limit) (updN lc (N.of_nat limit)
                                 (nthN lc (N.of_nat limit) + sumN (skipn (S limit) lc))) in
  exists E, kraft_total limit lc1 = 2 ^ N.of_nat limit + E /\ kf_inv limit (lenN w) lc1 E.
Proof.
  intros limit M w Hlim HM Hw HinM Hks lc lc1.
  assert (Hlen : length lc = S M) by (unfold lc; rewrite gp_count_into_length; apply repeat_length).
  assert (Hsum : forall f, wsum f 1 M lc = sumN (map (fun x => f (N.to_nat x)) w)).
  { intros f. unfold lc. rewrite gp_wsum_count_into; [|apply repeat_length|exact Hw].
    rewrite gp_wsum_zero; [lia|]. intros i _ _. apply gp_nthN_repeat0. }
  set (over := sumN (skipn (S limit) lc)) in *.
  assert (Hover : over = wsum (fun _ => 1) (S limit) (M - limit) lc).
  { unfold over. apply gp_sum_skipn. lia. }
  assert (Hsplit : forall f, wsum f 1 M lc = wsum f 1 limit lc + wsum f (S limit) (M - limit) lc).
  { intros f. replace M with (limit + (M - limit))%nat at 1 by lia. rewrite gp_wsum_app.
    reflexivity. }
  assert (Hlc1 : forall f, wsum f 1 limit lc1 = wsum f 1 limit lc + over * f limit).
  { intros f. unfold lc1. rewrite gp_wsum_firstn by lia.
    assert (H := gp_wsum_upd f limit 1%nat lc limit (nthN lc (N.of_nat limit) + over)
                   ltac:(lia) ltac:(lia) ltac:(lia)). lia. }
  assert (Hcnt : cnt_total limit lc1 = lenN w).
  { unfold cnt_total. rewrite Hlc1. rewrite Hover.
    assert (H := Hsplit (fun _ => 1)). rewrite Hsum in H. rewrite gp_sum_ones in H.
    unfold lenN. lia. }
  set (fk := fun i : nat => 2 ^ N.of_nat (limit - i)).
  set (fM := fun i : nat => 2 ^ N.of_nat (M - i)).
  set (A := wsum fk 1 limit lc).
  set (R := wsum fM (S limit) (M - limit) lc).
  set (q := 2 ^ N.of_nat (M - limit - 1)).
  assert (Hq : 0 < q) by apply pow2_pos.
  assert (HkM : 2 * q * A + R = 2 * q * 2 ^ N.of_nat limit).
  { assert (H := Hsplit fM). rewrite Hsum in H. fold R in H.
    assert (H1 : wsum fM 1 limit lc = 2 * q * A).
    { unfold A. rewrite <- gp_wsum_scale. apply gp_wsum_ext. intros i Hi Hil.
      unfold fM, fk, q. rewrite <- pow2_S. rewrite <- pow2_add. f_equal. lia. }
    rewrite H1 in H. rewrite <- H.
    assert (H2 : 2 * q * 2 ^ N.of_nat limit = 2 ^ N.of_nat M).
    { unfold q. rewrite <- pow2_S. rewrite <- pow2_add. f_equal. lia. }
    rewrite H2. rewrite <- Hks. unfold KS, fM. f_equal. apply map_ext_in.
    intros x Hx. rewrite Forall_forall in Hw. assert (Hx' := Hw x Hx). cbv beta in Hx'.
    f_equal. lia. }
  assert (HR1 : R <= q * over).
  { rewrite Hover. rewrite <- gp_wsum_scale. unfold R. apply gp_wsum_le.
    intros i Hi Hil. unfold fM, q. rewrite N.mul_1_r. apply N.pow_le_mono_r; lia. }
  assert (HR0 : 0 < R).
  { assert (H := gp_wsum_term fM (M - limit) (S limit) lc M ltac:(lia) ltac:(lia)). fold R in H.
    assert (Hf : fM M = 1) by (unfold fM; rewrite Nat.sub_diag; reflexivity).
    rewrite Hf in H.
    assert (Hc := gp_count_into_in w (repeat 0 (S M)) (N.of_nat M) HinM).
    rewrite repeat_length in Hc. fold lc in Hc. specialize (Hc ltac:(lia)). lia. }
  assert (HA : A < 2 ^ N.of_nat limit).
  { destruct (N.lt_ge_cases A (2 ^ N.of_nat limit)) as [Hc|Hc]; [exact Hc|exfalso].
    assert (2 * q * 2 ^ N.of_nat limit <= 2 * q * A) by (apply N.mul_le_mono_l; exact Hc). lia. }
  assert (HP : 2 ^ N.of_nat limit < A + over).
  { destruct (N.lt_ge_cases (2 ^ N.of_nat limit) (A + over)) as [Hc|Hc]; [exact Hc|exfalso].
    assert (H : 2 * q * (A + over) <= 2 * q * 2 ^ N.of_nat limit) by (apply N.mul_le_mono_l; exact Hc).
    rewrite N.mul_add_distr_l in H. lia. }
  assert (Hkr : kraft_total limit lc1 = A + over).
  { rewrite gp_kraft_total_wsum. fold fk. rewrite Hlc1. fold A.
    assert (Hf : fk limit = 1) by (unfold fk; rewrite Nat.sub_diag; reflexivity).
    rewrite Hf. lia. }
  exists (A + over - 2 ^ N.of_nat limit).
  split; [lia|].
  unfold kf_inv. split.
  { unfold lc1. rewrite firstn_length, gp_updN_length. lia. }
  split; [exact Hcnt|]. split; [lia|]. right.
  assert (Hl : nthN lc1 (N.of_nat limit) = nthN lc (N.of_nat limit) + over).
  { unfold lc1, nthN. rewrite gp_nth_firstn by lia.
    apply (gp_nthN_updN_same lc (N.of_nat limit)). lia. }
  lia.
Qed.

(* spread_lengths *)
Lemma gp_spread_gen : forall (L : N) lc m a,
  let S := flat_map (fun i => repeat (N.of_nat i) (N.to_nat (nthN lc (N.of_nat i)))) (seq a m) in
  N.of_nat (length S) = wsum (fun _ => 1) a m lc /\
  Forall (fun x => N.of_nat a <= x /\ x < N.of_nat (a + m)) S /\
  KS L S = wsum (fun i => 2 ^ (L - N.of_nat i)) a m lc.
Proof.
  intros L lc m. induction m as [|m IH]; intros a.
  - cbn [seq flat_map]. split; [reflexivity|]. split; [constructor|reflexivity].
  - cbn [seq flat_map]. destruct (IH (S a)) as (H1 & H2 & H3). cbv zeta.
    split; [|split].
    + rewrite app_length, repeat_length, gp_wsum_S. lia.
    + apply Forall_app. split.
      * apply Forall_forall. intros x Hx. apply repeat_spec in Hx. subst x. lia.
      * eapply Forall_impl; [|exact H2]. cbv beta. intros x Hx. lia.
    + rewrite gp_KS_app, gp_KS_repeat, gp_wsum_S. rewrite H3. lia.
Qed.

Lemma gp_spread : forall limit lc,
  N.of_nat (length (spread_lengths limit lc)) = cnt_total limit lc /\
  Forall (fun x => 1 <= x /\ x <= N.of_nat limit) (spread_lengths limit lc) /\
  KS (N.of_nat limit) (spread_lengths limit lc) = kraft_total limit lc.
Proof.
  intros limit lc. destruct (gp_spread_gen (N.of_nat limit) lc limit 1) as (H1 & H2 & H3).
  split; [exact H1|]. split.
  - eapply Forall_impl; [|exact H2]. cbv beta. intros x Hx. lia.
  - unfold spread_lengths. rewrite H3. rewrite gp_kraft_total_wsum.
    apply gp_wsum_ext. intros i Hi Hil. f_equal. lia.
Qed.

Lemma gp_last_in : forall (l : list N) d, l <> [] -> In (last l d) l.
Proof.
  intros l d Hl. rewrite (app_removelast_last d Hl) at 2. apply in_or_app. right. left. reflexivity.
Qed.

(* the limiter as a whole *)
Lemma gp_limiter : forall limit n w,
  cl_post n w -> (1 <= limit)%nat -> N.of_nat limit < last w 0 ->
  N.of_nat n <= 2 ^ N.of_nat limit ->
  let lc := count_into w (repeat 0 (S (N.to_nat (last w 0)))) in
  let S := spread_lengths limit (enforce_max_len limit lc) in
  length S = n /\ Forall (fun x => 1 <= x /\ x <= N.of_nat limit) S /\
  KS (N.of_nat limit) S = 2 ^ N.of_nat limit.
Proof.
  intros limit n w Hpost Hlim Hlast Hn lc S.
  destruct Hpost as (Hlen & Hpos & Hmax & Hone & d & Hd & _ & Hks).
  assert (Hn2 : (2 <= n)%nat).
  { destruct n as [|[|n]]; [| |lia].
    - destruct w; [cbn [last] in Hlast; lia|discriminate Hlen].
    - rewrite (Hone eq_refl) in Hlast. cbn [last] in Hlast. lia. }
  specialize (Hks Hn2).
  assert (Hne : w <> []) by (intros E; subst w; cbn [length] in Hlen; lia).
  assert (HinM : In (last w 0) w) by (apply gp_last_in; exact Hne).
  set (M := N.to_nat (last w 0)) in *.
  assert (HM : N.of_nat M = last w 0) by (unfold M; lia).
  assert (HMd : last w 0 <= d) by (rewrite Forall_forall in Hd; apply Hd; exact HinM).
  assert (HksM : KS (N.of_nat M) w = 2 ^ N.of_nat M).
  { rewrite HM. rewrite (gp_KS_scale (last w 0) d w Hmax HMd) in Hks.
    replace d with ((d - last w 0) + last w 0) in Hks at 2 by lia.
    rewrite N.pow_add_r in Hks. apply N.mul_cancel_l in Hks; [exact Hks|].
    apply N.pow_nonzero. discriminate. }
  assert (Hw : Forall (fun x => 1 <= x /\ x <= N.of_nat M) w).
  { rewrite HM. rewrite Forall_forall in *. intros x Hx. split; [apply Hpos|apply Hmax]; exact Hx. }
  rewrite <- HM in HinM.
  destruct (gp_enforce_init limit M w Hlim ltac:(lia) Hw HinM HksM) as (E & HE & Hinv).
  fold lc in HE, Hinv.
  assert (Hfin : kf_inv limit (lenN w) (enforce_max_len limit lc) 0).
  { unfold enforce_max_len. rewrite HE.
    replace (2 ^ N.of_nat limit + E - 2 ^ N.of_nat limit) with E by lia.
    apply gp_kraft_fix; [exact Hlim|unfold lenN; rewrite Hlen; exact Hn|].
    rewrite N2Nat.id. exact Hinv. }
  destruct Hfin as (_ & Hc & Hk & _).
  destruct (gp_spread limit (enforce_max_len limit lc)) as (H1 & H2 & H3).
  fold S in H1, H2, H3.
  split; [unfold lenN in Hc; lia|]. split; [exact H2|]. rewrite H3, Hk. lia.
Qed.
(* ------------------------------------------------------------------ *)
(* 7. keys, sorting, scatter                                            *)

Lemma gp_insert_desc_perm : forall k l, Permutation (insert_desc k l) (k :: l).
Proof.
  intros k l. induction l as [|x r IH]; cbn [insert_desc]; [apply Permutation_refl|].
  destruct (x <? k); [apply Permutation_refl|].
  eapply Permutation_trans; [apply perm_skip; exact IH|apply perm_swap].
Qed.

Lemma gp_sort_desc_perm : forall l, Permutation (sort_desc l) l.
Proof.
  induction l as [|x r IH]; [apply Permutation_refl|].
  unfold sort_desc. cbn [fold_right]. fold (sort_desc r).
  eapply Permutation_trans; [apply gp_insert_desc_perm|]. apply perm_skip. exact IH.
Qed.

(* the keys of a histogram whose first symbol is a *)
Definition keys_from (a : N) (hist : list N) : list N :=
  flat_map (fun '(i, v) => if v =? 0 then [] else [(v mod two16) * two16 + i])
           (combine (seqN a (length hist)) hist).

Lemma gp_keys_cons : forall a v r,
  keys_from a (v :: r) = (if v =? 0 then [] else [(v mod two16) * two16 + a]) ++ keys_from (a + 1) r.
Proof. intros. reflexivity. Qed.

Lemma gp_keys_length : forall hist a, length (keys_from a hist) = used_symbols hist.
Proof.
  induction hist as [|v r IH]; intros a; [reflexivity|].
  rewrite gp_keys_cons, app_length, IH. unfold used_symbols. cbn [filter].
  destruct (v =? 0); reflexivity.
Qed.

Lemma gp_key_mod : forall v a, a < two16 -> ((v mod two16) * two16 + a) mod two16 = a.
Proof.
  intros v a Ha. rewrite N.add_comm. rewrite N.mod_add by discriminate.
  apply N.mod_small. exact Ha.
Qed.

Lemma gp_keys_range : forall hist a x, a + N.of_nat (length hist) <= two16 ->
  In x (map (fun k => k mod two16) (keys_from a hist)) -> a <= x /\ x < a + N.of_nat (length hist).
Proof.
  induction hist as [|v r IH]; intros a x Hb Hx; [destruct Hx|].
  rewrite gp_keys_cons, map_app in Hx. cbn [length] in *. apply in_app_or in Hx. destruct Hx as [Hx|Hx].
  - destruct (v =? 0); [destruct Hx|]. cbn [map In] in Hx. destruct Hx as [Hx|[]].
    subst x. rewrite gp_key_mod by lia. lia.
  - apply IH in Hx; lia.
Qed.

Lemma gp_keys_nodup : forall hist a, a + N.of_nat (length hist) <= two16 ->
  NoDup (map (fun k => k mod two16) (keys_from a hist)).
Proof.
  induction hist as [|v r IH]; intros a Hb; [constructor|].
  rewrite gp_keys_cons, map_app. cbn [length] in Hb.
  assert (Hr : NoDup (map (fun k => k mod two16) (keys_from (a + 1) r))) by (apply IH; lia).
  destruct (v =? 0); [exact Hr|]. cbn [map app]. constructor; [|exact Hr].
  intros Hin. apply gp_keys_range in Hin; [|lia].
  rewrite gp_key_mod in Hin by lia. lia.
Qed.

Lemma gp_keys_cover : forall hist a i, a + N.of_nat (length hist) <= two16 ->
  nthN hist i <> 0 -> In (a + i) (map (fun k => k mod two16) (keys_from a hist)).
Proof.
  induction hist as [|v r IH]; intros a i Hb Hi.
  - exfalso. apply Hi. unfold nthN. destruct (N.to_nat i); reflexivity.
  - rewrite gp_keys_cons, map_app. cbn [length] in Hb. apply in_or_app.
    destruct (N.eq_dec i 0) as [E|E].
    + subst i. left. change (nthN (v :: r) 0) with v in Hi.
      apply N.eqb_neq in Hi. rewrite Hi. cbn [map]. left.
      rewrite gp_key_mod by lia. lia.
    + right. replace (a + i) with (a + 1 + (i - 1)) by lia. apply IH; [lia|].
      unfold nthN in *. replace (N.to_nat i) with (S (N.to_nat (i - 1))) in Hi by lia.
      exact Hi.
Qed.

(* scatter_lens *)
Lemma gp_scatter_length : forall lits lens acc, length (scatter_lens lits lens acc) = length acc.
Proof.
  induction lits as [|s ls IH]; intros lens acc; [reflexivity|].
  destruct lens as [|v vs]; [reflexivity|]. cbn [scatter_lens]. rewrite IH. apply gp_updN_length.
Qed.

Lemma gp_scatter_notin : forall lits lens acc s, ~ In s lits ->
  nthN (scatter_lens lits lens acc) s = nthN acc s.
Proof.
  induction lits as [|s0 ls IH]; intros lens acc s Hs; [reflexivity|].
  destruct lens as [|v vs]; [reflexivity|]. cbn [scatter_lens].
  rewrite IH by (intros H; apply Hs; right; exact H).
  apply gp_nthN_updN_other. intros E. apply Hs. left. exact E.
Qed.

Lemma gp_Forall_upd : forall (P : N -> Prop) l i v, Forall P l -> P v -> Forall P (upd i v l).
Proof.
  intros P l. induction l as [|x l IH]; intros i v Hl Hv.
  - rewrite upd_nil. constructor.
  - inversion Hl as [|x' l' Hx Hl']; subst x' l'. destruct i as [|i].
    + rewrite upd_0. constructor; assumption.
    + rewrite upd_S. constructor; [exact Hx|]. apply IH; assumption.
Qed.

Lemma gp_scatter_Forall : forall (P : N -> Prop) lits lens acc,
  Forall P acc -> Forall P lens -> Forall P (scatter_lens lits lens acc).
Proof.
  intros P lits. induction lits as [|s ls IH]; intros lens acc Ha Hl; [exact Ha|].
  destruct lens as [|v vs]; [exact Ha|]. cbn [scatter_lens].
  inversion Hl as [|v' vs' Hv Hvs]; subst v' vs'.
  apply IH; [|exact Hvs]. unfold updN. apply gp_Forall_upd; assumption.
Qed.

Lemma gp_scatter_in : forall lits lens acc s, length lits = length lens -> In s lits ->
  (N.to_nat s < length acc)%nat -> In (nthN (scatter_lens lits lens acc) s) lens.
Proof.
  induction lits as [|s0 ls IH]; intros lens acc s Hlen Hin Hs; [destruct Hin|].
  destruct lens as [|v vs]; [discriminate Hlen|]. cbn [scatter_lens]. cbn [length] in Hlen.
  destruct (in_dec N.eq_dec s ls) as [Hi|Hi].
  - right. apply IH; [lia|exact Hi|rewrite gp_updN_length; exact Hs].
  - destruct Hin as [Hin|Hin]; [|contradiction]. subst s0.
    rewrite gp_scatter_notin by exact Hi. rewrite gp_nthN_updN_same by exact Hs. left. reflexivity.
Qed.

Lemma gp_scatter_overwrite : forall lits lens acc acc', length lits = length lens ->
  length acc = length acc' ->
  (forall s, ~ In s lits -> nthN acc s = nthN acc' s) ->
  scatter_lens lits lens acc = scatter_lens lits lens acc'.
Proof.
  induction lits as [|s0 ls IH]; intros lens acc acc' Hlen Hacc Hout.
  - cbn [scatter_lens]. apply (nth_ext acc acc' 0 0 Hacc). intros i Hi.
    assert (H := Hout (N.of_nat i) ltac:(intros [])). unfold nthN in H. rewrite Nat2N.id in H. exact H.
  - destruct lens as [|v vs]; [discriminate Hlen|]. cbn [scatter_lens]. cbn [length] in Hlen.
    apply IH; [lia|rewrite !gp_updN_length; exact Hacc|].
    intros s Hs. destruct (N.eq_dec s0 s) as [E|E].
    + subst s0. destruct (Nat.lt_ge_cases (N.to_nat s) (length acc)) as [Hl|Hl].
      * rewrite !gp_nthN_updN_same by lia. reflexivity.
      * rewrite !gp_nthN_out by (rewrite gp_updN_length; lia). reflexivity.
    + rewrite !gp_nthN_updN_other by exact E. apply Hout. intros [H|H]; [contradiction|contradiction].
Qed.

(* Kraft sum of a length vector indexed by symbol *)
Definition kterm (m : nat) (x : N) : N :=
  if Nat.eqb (N.to_nat x) 0 then 0 else 2 ^ N.of_nat (m - N.to_nat x).

Lemma gp_kraft_upd : forall m l i v, (i < length l)%nat ->
  kraft m (map N.to_nat (upd i v l)) + kterm m (nth i l 0) = kraft m (map N.to_nat l) + kterm m v.
Proof.
  intros m l. induction l as [|x l IH]; intros i v Hi; cbn [length] in Hi; [lia|].
  destruct i as [|i].
  - rewrite upd_0. cbn [map kraft nth]. unfold kterm. lia.
  - rewrite upd_S. cbn [map kraft nth]. assert (H := IH i v ltac:(lia)). lia.
Qed.

Lemma gp_kraft_zeros : forall m k, kraft m (map N.to_nat (repeat 0 k)) = 0.
Proof. intros m k. induction k as [|k IH]; [reflexivity|]. cbn [repeat map kraft]. rewrite IH. reflexivity. Qed.

Lemma gp_scatter_kraft : forall m lits lens acc, NoDup lits ->
  (forall s, In s lits -> (N.to_nat s < length acc)%nat /\ nthN acc s = 0) ->
  length lits = length lens ->
  Forall (fun x => 1 <= x /\ x <= N.of_nat m) lens ->
  kraft m (map N.to_nat (scatter_lens lits lens acc)) =
    kraft m (map N.to_nat acc) + KS (N.of_nat m) lens.
Proof.
  intros m lits. induction lits as [|s ls IH]; intros lens acc Hnd Hacc Hlen Hl.
  - destruct lens; [|discriminate Hlen]. cbn [scatter_lens]. unfold KS. cbn [map sumN]. lia.
  - destruct lens as [|v vs]; [discriminate Hlen|]. cbn [scatter_lens]. cbn [length] in Hlen.
    inversion Hnd as [|s' ls' Hnotin Hnd']; subst s' ls'.
    inversion Hl as [|v' vs' Hv Hvs]; subst v' vs'.
    destruct (Hacc s ltac:(left; reflexivity)) as (Hs & Hs0).
    rewrite IH; [|exact Hnd'| |lia|exact Hvs].
    + assert (H := gp_kraft_upd m acc (N.to_nat s) v Hs). fold (updN acc s v) in H.
      unfold nthN in Hs0. rewrite Hs0 in H.
      assert (Hk0 : kterm m 0 = 0) by reflexivity. rewrite Hk0 in H.
      assert (Hkv : kterm m v = 2 ^ (N.of_nat m - v)).
      { unfold kterm. destruct (Nat.eqb_spec (N.to_nat v) 0) as [E|E]; [lia|]. f_equal. lia. }
      rewrite Hkv in H. unfold KS. cbn [map sumN]. fold (KS (N.of_nat m) vs). lia.
    + intros s' Hs'. destruct (Hacc s' ltac:(right; exact Hs')) as (H1 & H2).
      split; [rewrite gp_updN_length; exact H1|].
      rewrite gp_nthN_updN_other; [exact H2|]. intros E. subst s'. contradiction.
Qed.

Lemma gp_scatter_valid : forall limit hist lits lens, NoDup lits ->
  (forall s, In s lits -> (N.to_nat s < length hist)%nat) ->
  (forall i, nthN hist i <> 0 -> In i lits) ->
  length lits = length lens ->
  Forall (fun x => 1 <= x /\ x <= N.of_nat limit) lens ->
  KS (N.of_nat limit) lens <= 2 ^ N.of_nat limit ->
  lens_valid limit hist (scatter_lens lits lens (repeat 0 (length hist))).
Proof.
  intros limit hist lits lens Hnd Hrange Hcover Hlen Hl Hks.
  unfold lens_valid. split; [rewrite gp_scatter_length; apply repeat_length|].
  split.
  { apply gp_scatter_Forall.
    - apply Forall_forall. intros x Hx. apply repeat_spec in Hx. subst x. lia.
    - eapply Forall_impl; [|exact Hl]. cbv beta. intros x Hx. lia. }
  split.
  { unfold oversubscribed. apply N.ltb_ge.
    rewrite (gp_scatter_kraft limit lits lens); [|exact Hnd| |exact Hlen|exact Hl].
    - rewrite gp_kraft_zeros. lia.
    - intros s Hs. rewrite repeat_length. split; [apply Hrange; exact Hs|apply gp_nthN_repeat0]. }
  intros i Hi.
  assert (Hin : In i lits) by (apply Hcover; exact Hi).
  assert (H := gp_scatter_in lits lens (repeat 0 (length hist)) i Hlen Hin).
  rewrite repeat_length in H. specialize (H (Hrange i Hin)).
  rewrite Forall_forall in Hl. apply Hl in H. lia.
Qed.

(* ------------------------------------------------------------------ *)
(* 8. generate_valid, block_always_ok                                   *)

Lemma gp_cl_post_kraft : forall n w L, cl_post n w -> (1 <= n)%nat -> last w 0 <= L ->
  KS L w <= 2 ^ L.
Proof.
  intros n w L Hpost Hn HL.
  destruct Hpost as (Hlen & Hpos & Hmax & Hone & d & Hd & Hks & _).
  assert (Hne : w <> []) by (intros E; subst w; cbn [length] in Hlen; lia).
  assert (HinM : In (last w 0) w) by (apply gp_last_in; exact Hne).
  set (m := last w 0) in *.
  assert (Hmd : m <= d) by (rewrite Forall_forall in Hd; apply Hd; exact HinM).
  assert (Hm : KS m w <= 2 ^ m).
  { rewrite (gp_KS_scale m d w Hmax Hmd) in Hks.
    replace d with ((d - m) + m) in Hks at 2 by lia.
    rewrite N.pow_add_r in Hks. apply N.mul_le_mono_pos_l in Hks; [exact Hks|].
    apply N.neq_0_lt_0. apply N.pow_nonzero. discriminate. }
  rewrite (gp_KS_scale m L w Hmax HL).
  replace L with ((L - m) + m) at 2 by lia. rewrite N.pow_add_r.
  apply N.mul_le_mono_l. exact Hm.
Qed.

Lemma gp_generate_eq : forall limit hist,
  generate limit hist =
  let keys := sort_desc (keys_from 0 hist) in
  let lits := map (fun k => k mod two16) keys in
  let w := code_lens (map (fun k => k / two16) keys) in
  let zero := repeat 0 (length hist) in
  if last w 0 <=? N.of_nat limit then scatter_lens lits w zero
  else scatter_lens lits
         (spread_lengths limit
            (enforce_max_len limit (count_into w (repeat 0 (S (N.to_nat (last w 0)))))))
         (scatter_lens lits w zero).
Proof. intros. reflexivity. Qed.

Lemma gp_of_nat_lt : forall a b : nat, (a < b)%nat -> N.of_nat a < N.of_nat b.
Proof. intros a b H. lia. Qed.

Local Set Warnings "-abstract-large-number".
Lemma gp_big : N.of_nat 65536 = two16.
Proof. vm_compute. reflexivity. Qed.

Theorem generate_valid : generate_valid_statement.
Proof.
  unfold generate_valid_statement. intros limit hist Hlim Hused Hlen.
  rewrite gp_generate_eq. cbv zeta.
  set (keys := sort_desc (keys_from 0 hist)).
  set (lits := map (fun k => k mod two16) keys).
  set (ws := map (fun k => k / two16) keys).
  set (w := code_lens ws).
  assert (Hperm : Permutation lits (map (fun k => k mod two16) (keys_from 0 hist))).
  { unfold lits, keys. apply Permutation_map. apply gp_sort_desc_perm. }
  assert (Hb : 0 + N.of_nat (length hist) <= two16).
  { apply gp_of_nat_lt in Hlen. rewrite gp_big in Hlen. lia. }
  clear Hlen.
  assert (Hnd : NoDup lits).
  { apply (Permutation_NoDup (Permutation_sym Hperm)). apply gp_keys_nodup. exact Hb. }
  assert (Hrange : forall s, In s lits -> (N.to_nat s < length hist)%nat).
  { intros s Hs. apply (Permutation_in _ Hperm) in Hs. apply gp_keys_range in Hs; [lia|exact Hb]. }
  assert (Hcover : forall i, nthN hist i <> 0 -> In i lits).
  { intros i Hi. apply (Permutation_in _ (Permutation_sym Hperm)).
    assert (H := gp_keys_cover hist 0 i Hb Hi). rewrite N.add_0_l in H. exact H. }
  assert (Hklen : length keys = used_symbols hist).
  { unfold keys. rewrite (Permutation_length (gp_sort_desc_perm _)). apply gp_keys_length. }
  assert (Hllen : length lits = used_symbols hist) by (unfold lits; rewrite map_length; exact Hklen).
  assert (Hwslen : length ws = used_symbols hist) by (unfold ws; rewrite map_length; exact Hklen).
  destruct (Nat.eq_dec (used_symbols hist) 0) as [Ez|Ez].
  - (* no symbol is used *)
    assert (Ews : ws = []) by (destruct ws; [reflexivity|cbn [length] in Hwslen; lia]).
    assert (Ew : w = []) by (unfold w; rewrite Ews; reflexivity).
    rewrite Ew. cbn [last].
    assert (Hle : (0 <=? N.of_nat limit) = true) by (apply N.leb_le; lia).
    rewrite Hle. apply gp_scatter_valid.
    + exact Hnd.
    + exact Hrange.
    + exact Hcover.
    + rewrite Hllen, Ez. reflexivity.
    + constructor.
    + unfold KS. cbn [map sumN]. lia.
  - assert (Hpost : cl_post (length ws) w) by (apply gp_code_lens; lia).
    assert (Hwlen : length w = length ws) by (destruct Hpost as (H & _); exact H).
    destruct (last w 0 <=? N.of_nat limit) eqn:Emax.
    + apply N.leb_le in Emax. apply gp_scatter_valid.
      * exact Hnd.
      * exact Hrange.
      * exact Hcover.
      * lia.
      * destruct Hpost as (_ & Hpos & Hmax & _). rewrite Forall_forall in *.
        intros x Hx. assert (H1 := Hpos x Hx). assert (H2 := Hmax x Hx). cbv beta in H1, H2. lia.
      * apply (gp_cl_post_kraft (length ws) w); [exact Hpost|lia|exact Emax].
    + apply N.leb_gt in Emax.
      destruct (gp_limiter limit (length ws) w Hpost ltac:(lia) Emax ltac:(rewrite Hwslen; exact Hused))
        as (Hs1 & Hs2 & Hs3).
      set (sp := spread_lengths limit
                   (enforce_max_len limit (count_into w (repeat 0 (S (N.to_nat (last w 0))))))) in *.
      rewrite (gp_scatter_overwrite lits sp _ (repeat 0 (length hist))).
      * apply gp_scatter_valid.
        -- exact Hnd.
        -- exact Hrange.
        -- exact Hcover.
        -- lia.
        -- exact Hs2.
        -- lia.
      * lia.
      * apply gp_scatter_length.
      * intros s Hs. apply gp_scatter_notin. exact Hs.
Qed.

Print Assumptions generate_valid.

(* histogram sizes *)
Lemma gp_used_le : forall hist, (used_symbols hist <= length hist)%nat.
Proof.
  intros hist. unfold used_symbols. induction hist as [|v r IH]; [cbn [filter length]; lia|].
  cbn [filter]. destruct (negb (v =? 0)); cbn [length]; lia.
Qed.

Lemma gp_lt_of_nat : forall a b : nat, N.of_nat a < N.of_nat b -> (a < b)%nat.
Proof. intros a b H. lia. Qed.

Lemma gp_generate_len : forall limit hist, (1 <= limit <= 15)%nat ->
  N.of_nat (length hist) <= 2 ^ N.of_nat limit ->
  lens_valid limit hist (generate limit hist).
Proof.
  intros limit hist Hlim Hl. apply generate_valid; [exact Hlim| |].
  - assert (H := gp_used_le hist). lia.
  - apply gp_lt_of_nat. rewrite gp_big.
    assert (H : 2 ^ N.of_nat limit <= 2 ^ 15) by (apply N.pow_le_mono_r; lia).
    change (2 ^ 15) with 32768 in H. unfold two16. lia.
Qed.

Lemma gp_tok_counts_length : forall ts lc dc lc' dc',
  fold_left (fun '(lc, dc) t =>
               match t with
               | TLit b => (incN lc b 1, dc)
               | TMatch len dist => (incN lc (len + 254) 1, incN dc (fst (dist_symbol dist)) 1)
               end) ts (lc, dc) = (lc', dc') ->
  length lc' = length lc /\ length dc' = length dc.
Proof.
  induction ts as [|t r IH]; intros lc dc lc' dc' H.
  - cbn [fold_left] in H. injection H as H1 H2. subst. split; reflexivity.
  - cbn [fold_left] in H. destruct t as [b|len dist].
    + apply IH in H. rewrite gp_incN_length in H. exact H.
    + apply IH in H. rewrite !gp_incN_length in H. exact H.
Qed.

Lemma gp_fold_incN_length : forall (A : Type) (g : A -> N) (l : list A) h,
  length (fold_left (fun h x => incN h (g x) 1) l h) = length h.
Proof.
  intros A g l. induction l as [|x r IH]; intros h; [reflexivity|].
  cbn [fold_left]. rewrite IH. apply gp_incN_length.
Qed.

Lemma gp_reduce_counts_length : forall h, length h = 513%nat -> length (reduce_counts h) = 286%nat.
Proof.
  intros h Hh. unfold reduce_counts. rewrite gp_updN_length, !app_length, firstn_length.
  unfold group_sums. cbn [length]. lia.
Qed.

Lemma gp_cl_hist_length : forall a b, length (cl_hist a b) = 19%nat.
Proof.
  intros a b. unfold cl_hist.
  rewrite (gp_fold_incN_length (N * N) (fun it => fst it)). apply repeat_length.
Qed.

Lemma gp_pow15 : N.of_nat 286 <= 2 ^ N.of_nat 15 /\ N.of_nat 30 <= 2 ^ N.of_nat 15 /\
                 N.of_nat 19 <= 2 ^ N.of_nat 7.
Proof. vm_compute. repeat split; discriminate. Qed.

Theorem block_always_ok : block_always_ok_statement.
Proof.
  unfold block_always_ok_statement. destruct gp_pow15 as (P1 & P2 & P3). split.
  - intros ts _. unfold block_ok, block_lens.
    destruct (tok_counts ts) as [lc dc] eqn:E.
    unfold tok_counts in E. apply gp_tok_counts_length in E. rewrite !repeat_length in E.
    destruct E as (E1 & E2).
    assert (Hr := gp_reduce_counts_length lc E1).
    split; [|split].
    + apply gp_generate_len; [lia|rewrite Hr; exact P1].
    + apply gp_generate_len; [lia|rewrite E2; exact P2].
    + apply gp_generate_len; [lia|rewrite gp_cl_hist_length; exact P3].
  - intros data _. unfold hblock_ok, hblock_lens. cbv zeta.
    assert (Hr : length (reduce_counts (fold_left (fun h x => incN h x 1) data (repeat 0 513))) = 286%nat).
    { apply gp_reduce_counts_length.
      rewrite (gp_fold_incN_length N (fun x => x)). apply repeat_length. }
    split.
    + apply gp_generate_len; [lia|rewrite Hr; exact P1].
    + apply gp_generate_len; [lia|rewrite gp_cl_hist_length; exact P3].
Qed.

Print Assumptions block_always_ok.
