(* GenerateProofs.v — the code-length generator (WModel/Codes.v: generate) always yields a valid
   length vector (FinalSpec.generate_valid_statement), hence every block is encodable
   (FinalSpec.block_always_ok_statement).

   Structure:
     1. basics on nthN/updN
     2. phase 1 of code_lens: the parent array (whatever the comparisons decide)
     3. phase 2: depths of the internal nodes
     4. phase 3: leaf depths, Kraft sum exactly one
     5. code_lens
     6. the length limiter (enforce_max_len, spread_lengths)
     7. keys, sorting, scatter
     8. generate_valid, block_always_ok *)
From Verif Require Import FinalSpec.
From Verif Require Import HuffmanProofs.
From Coq Require Import Lia ZifyBool ZifyNat ZifyN Permutation.
Open Scope N_scope.

(* ------------------------------------------------------------------ *)
(* 1. basics                                                            *)

Lemma gp_updN_length : forall l i v, length (updN l i v) = length l.
Proof. intros l i v. unfold updN. apply upd_length. Qed.

Lemma gp_nthN_updN_same : forall l i v, (N.to_nat i < length l)%nat -> nthN (updN l i v) i = v.
Proof. intros l i v H. unfold nthN, updN. apply nth_upd_same. exact H. Qed.

Lemma gp_nthN_updN_other : forall l i j v, i <> j -> nthN (updN l i v) j = nthN l j.
Proof.
  intros l i j v H. unfold nthN, updN. apply nth_upd_other.
  intros E. apply H. apply N2Nat.inj. exact E.
Qed.

Lemma gp_incN_length : forall l i d, length (incN l i d) = length l.
Proof. intros. unfold incN. apply gp_updN_length. Qed.

Lemma gp_nthN_out : forall l i, (length l <= N.to_nat i)%nat -> nthN l i = 0.
Proof. intros l i H. unfold nthN. apply nth_overflow. exact H. Qed.

Lemma gp_updN_out : forall l i v, (length l <= N.to_nat i)%nat -> updN l i v = l.
Proof.
  intros l i v H. unfold updN, upd.
  rewrite skipn_all2 by exact H. rewrite firstn_all2 by exact H. apply app_nil_r.
Qed.

Ltac gp_split8 := split; [|split; [|split; [|split; [|split; [|split; [|split]]]]]].
Ltac gp_split4 := split; [|split; [|split]].

(* ------------------------------------------------------------------ *)
(* 2. phase 1                                                           *)

(* the state in the middle of the iteration that creates internal node k, after t children
   have been taken.  Positions above root hold parent indices. *)
Definition p1_mid (n : nat) (k : nat) (t : N) (w : list N) (root leaf : N) (ln : bool) : Prop :=
  length w = n /\
  N.of_nat k <= root /\ root < N.of_nat n /\
  (if ln then 0 else leaf + 1) + root + t = 2 * N.of_nat k + 1 /\
  (forall i, root < i -> i < N.of_nat n -> N.of_nat k <= nthN w i /\ nthN w i < i) /\
  (forall i, root + t < i -> i < N.of_nat n -> N.of_nat k < nthN w i) /\
  (forall i j, root < i -> i <= j -> j < N.of_nat n -> nthN w i <= nthN w j) /\
  (forall i, root < i -> i + 2 < N.of_nat n -> nthN w i + 1 <= nthN w (i + 2)).

Lemma gp_take_child : forall n k t w root leaf ln first w' root' leaf' ln',
  (1 <= k)%nat -> t <= 1 ->
  p1_mid n k t w root leaf ln ->
  take_child w (N.of_nat k) root leaf ln first = (w', root', leaf', ln') ->
  p1_mid n k (t + 1) w' root' leaf' ln'.
Proof.
  intros n k t w root leaf ln first w' root' leaf' ln' Hk Ht Hmid Htc.
  destruct Hmid as (Hlen & Hkr & Hrn & Hcnt & Hpar & Hstrict & Hmono & Hp3).
  unfold take_child in Htc.
  destruct (ln || ((N.of_nat k <? root) && (nthN w root <? nthN w leaf))) eqn:Ec.
  - (* an internal node becomes the child *)
    assert (Hlt : N.of_nat k < root).
    { destruct ln; [lia|]. cbn [orb] in Ec. apply andb_prop in Ec. destruct Ec as [Ec _].
      apply N.ltb_lt in Ec. exact Ec. }
    injection Htc as Ew Er El Eln. subst w' root' leaf' ln'.
    set (x := if first then nthN w root else nthN w (N.of_nat k) + nthN w root).
    assert (Hsame : forall i, root < i -> nthN (updN (updN w (N.of_nat k) x) root (N.of_nat k)) i = nthN w i).
    { intros i Hi. rewrite gp_nthN_updN_other by lia. rewrite gp_nthN_updN_other by lia. reflexivity. }
    assert (Hroot : nthN (updN (updN w (N.of_nat k) x) root (N.of_nat k)) root = N.of_nat k).
    { apply gp_nthN_updN_same. rewrite gp_updN_length. lia. }
    unfold p1_mid. gp_split8.
    + rewrite !gp_updN_length. exact Hlen.
    + lia.
    + lia.
    + lia.
    + intros i Hi Hin. destruct (N.eq_dec i root) as [E|E].
      * subst i. rewrite Hroot. lia.
      * rewrite Hsame by lia. apply Hpar; lia.
    + intros i Hi Hin. rewrite Hsame by lia. apply Hstrict; lia.
    + intros i j Hi Hij Hj.
      destruct (N.eq_dec i root) as [E|E].
      * subst i. rewrite Hroot.
        destruct (N.eq_dec j root) as [E2|E2].
        -- subst j. rewrite Hroot. lia.
        -- rewrite Hsame by lia. apply Hpar; lia.
      * rewrite !Hsame by lia. apply Hmono; lia.
    + intros i Hi Hin.
      destruct (N.eq_dec i root) as [E|E].
      * subst i. rewrite Hroot. rewrite Hsame by lia.
        assert (N.of_nat k < nthN w (root + 2)) by (apply Hstrict; lia). lia.
      * rewrite !Hsame by lia. apply Hp3; lia.
  - (* a leaf becomes the child *)
    destruct ln; [discriminate Ec|].
    set (x := if first then nthN w leaf else nthN w (N.of_nat k) + nthN w leaf) in Htc.
    assert (Hsame : forall i, root < i -> nthN (updN w (N.of_nat k) x) i = nthN w i).
    { intros i Hi. rewrite gp_nthN_updN_other by lia. reflexivity. }
    destruct (leaf =? 0) eqn:El0.
    + apply N.eqb_eq in El0. injection Htc as Ew Er El Eln. subst w' root' leaf' ln'.
      unfold p1_mid. gp_split8.
      * rewrite gp_updN_length. exact Hlen.
      * lia.
      * lia.
      * lia.
      * intros i Hi Hin. rewrite Hsame by lia. apply Hpar; lia.
      * intros i Hi Hin. rewrite Hsame by lia. apply Hstrict; lia.
      * intros i j Hi Hij Hj. rewrite !Hsame by lia. apply Hmono; lia.
      * intros i Hi Hin. rewrite !Hsame by lia. apply Hp3; lia.
    + apply N.eqb_neq in El0. injection Htc as Ew Er El Eln. subst w' root' leaf' ln'.
      unfold p1_mid. gp_split8.
      * rewrite gp_updN_length. exact Hlen.
      * lia.
      * lia.
      * lia.
      * intros i Hi Hin. rewrite Hsame by lia. apply Hpar; lia.
      * intros i Hi Hin. rewrite Hsame by lia. apply Hstrict; lia.
      * intros i j Hi Hij Hj. rewrite !Hsame by lia. apply Hmono; lia.
      * intros i Hi Hin. rewrite !Hsame by lia. apply Hp3; lia.
Qed.

(* the parent array: what phase 1 leaves at positions 2..n-1 *)
Definition par_ok (n : nat) (p : list N) : Prop :=
  length p = n /\
  (forall i, 2 <= i -> i < N.of_nat n -> 1 <= nthN p i /\ nthN p i < i) /\
  (forall i j, 2 <= i -> i <= j -> j < N.of_nat n -> nthN p i <= nthN p j) /\
  (forall i, 2 <= i -> i + 2 < N.of_nat n -> nthN p i + 1 <= nthN p (i + 2)).

Lemma gp_phase1 : forall n k w root leaf ln,
  (1 <= k)%nat -> p1_mid n k 0 w root leaf ln ->
  par_ok n (phase1 k w root leaf ln).
Proof.
  intros n k. induction k as [|k IH]; intros w root leaf ln Hk Hmid; [lia|].
  cbn [phase1].
  destruct (take_child w (N.of_nat (S k)) root leaf ln true) as [[[w1 root1] leaf1] ln1] eqn:E1.
  destruct (take_child w1 (N.of_nat (S k)) root1 leaf1 ln1 false) as [[[w2 root2] leaf2] ln2] eqn:E2.
  assert (H1 : p1_mid n (S k) (0 + 1) w1 root1 leaf1 ln1).
  { eapply gp_take_child; [| |exact Hmid|exact E1]; lia. }
  assert (H2 : p1_mid n (S k) (0 + 1 + 1) w2 root2 leaf2 ln2).
  { eapply gp_take_child; [| |exact H1|exact E2]; lia. }
  destruct H2 as (Hlen & Hkr & Hrn & Hcnt & Hpar & Hstrict & Hmono & Hp3).
  destruct k as [|k].
  - (* the last iteration: root = 1 *)
    cbn [phase1].
    assert (Hr : root2 = 1) by (destruct ln2; lia).
    subst root2. unfold par_ok. gp_split4.
    + exact Hlen.
    + intros i Hi Hin. assert (H := Hpar i ltac:(lia) ltac:(lia)). lia.
    + intros i j Hi Hij Hj. apply Hmono; lia.
    + intros i Hi Hin. apply Hp3; lia.
  - apply IH; [lia|].
    unfold p1_mid. gp_split8.
    + exact Hlen.
    + lia.
    + lia.
    + lia.
    + intros i Hi Hin. assert (H := Hpar i ltac:(lia) ltac:(lia)). lia.
    + intros i Hi Hin. assert (H := Hpar i ltac:(lia) ltac:(lia)). lia.
    + intros i j Hi Hij Hj. apply Hmono; lia.
    + intros i Hi Hin. apply Hp3; lia.
Qed.

Lemma gp_phase1_start : forall w, (2 <= length w)%nat ->
  par_ok (length w) (phase1 (length w - 1) w (lenN w - 1) (lenN w - 1) false).
Proof.
  intros w Hn. apply gp_phase1; [lia|].
  unfold p1_mid, lenN. gp_split8; intros; lia.
Qed.

(* ------------------------------------------------------------------ *)
(* 3. phase 2: depths of the internal nodes                             *)

Definition dep_ok (n : nat) (p w : list N) : Prop :=
  length w = n /\ nthN w 1 = 0 /\
  (forall i, 2 <= i -> i < N.of_nat n -> nthN w i = nthN w (nthN p i) + 1).

Lemma gp_phase2 : forall n p cnt m w,
  par_ok n p -> 2 <= m -> m + N.of_nat cnt = N.of_nat n ->
  length w = n -> nthN w 1 = 0 ->
  (forall i, 2 <= i -> i < m -> nthN w i = nthN w (nthN p i) + 1) ->
  (forall i, m <= i -> i < N.of_nat n -> nthN w i = nthN p i) ->
  dep_ok n p (phase2 (seqN m cnt) w).
Proof.
  intros n p cnt. induction cnt as [|cnt IH]; intros m w Hp Hm Hmn Hlen H1 Hlo Hhi.
  - cbn [seqN phase2]. unfold dep_ok. split; [exact Hlen|]. split; [exact H1|].
    intros i Hi Hin. apply Hlo; lia.
  - cbn [seqN phase2].
    destruct Hp as (Hpl & Hpr & Hpm & Hp3).
    assert (Hpm' : 1 <= nthN p m /\ nthN p m < m) by (apply Hpr; lia).
    assert (Hwm : nthN w m = nthN p m) by (apply Hhi; lia).
    apply IH.
    + unfold par_ok. gp_split4; assumption.
    + lia.
    + lia.
    + rewrite gp_updN_length. exact Hlen.
    + rewrite gp_nthN_updN_other by lia. exact H1.
    + intros i Hi Him.
      assert (Hpi : 1 <= nthN p i /\ nthN p i < i) by (apply Hpr; lia).
      destruct (N.eq_dec i m) as [E|E].
      * subst i. rewrite gp_nthN_updN_same by lia.
        rewrite gp_nthN_updN_other by lia. rewrite Hwm. reflexivity.
      * rewrite gp_nthN_updN_other by lia. rewrite gp_nthN_updN_other by lia.
        apply Hlo; lia.
    + intros i Hi Hin. rewrite gp_nthN_updN_other by lia. apply Hhi; lia.
Qed.

(* facts about the depths *)
Section Depths.
Variable n : nat.
Variable p w : list N.
Hypothesis Hpar : par_ok n p.
Hypothesis Hdep : dep_ok n p w.

Lemma gp_dep_mono_aux : forall (m : nat) i j, (N.to_nat j < m)%nat ->
  1 <= i -> i <= j -> j < N.of_nat n -> nthN w i <= nthN w j.
Proof.
  destruct Hpar as (Hpl & Hpr & Hpm & Hp3). destruct Hdep as (Hwl & Hw1 & Hw).
  induction m as [|m IH]; intros i j Hjm Hi Hij Hj; [lia|].
  destruct (N.eq_dec i j) as [E|E]; [subst; lia|].
  destruct (N.eq_dec i 1) as [E1|E1]; [subst i; rewrite Hw1; lia|].
  rewrite (Hw i) by lia. rewrite (Hw j) by lia.
  assert (Hpi : 1 <= nthN p i /\ nthN p i < i) by (apply Hpr; lia).
  assert (Hpj : 1 <= nthN p j /\ nthN p j < j) by (apply Hpr; lia).
  assert (Hpij : nthN p i <= nthN p j) by (apply Hpm; lia).
  assert (nthN w (nthN p i) <= nthN w (nthN p j)) by (apply IH; lia).
  lia.
Qed.

Lemma gp_dep_mono : forall i j, 1 <= i -> i <= j -> j < N.of_nat n -> nthN w i <= nthN w j.
Proof. intros i j. apply (gp_dep_mono_aux (S (N.to_nat j))). lia. Qed.

Lemma gp_dep_step : forall i, 1 <= i -> i + 1 < N.of_nat n -> nthN w (i + 1) <= nthN w i + 1.
Proof.
  intros i Hi Hin.
  destruct Hpar as (Hpl & Hpr & Hpm & Hp3). destruct Hdep as (Hwl & Hw1 & Hw).
  rewrite (Hw (i + 1)) by lia.
  assert (Hpi : 1 <= nthN p (i + 1) /\ nthN p (i + 1) < i + 1) by (apply Hpr; lia).
  assert (nthN w (nthN p (i + 1)) <= nthN w i) by (apply gp_dep_mono; lia).
  lia.
Qed.

Lemma gp_par_lower : forall (k : nat) b, 2 <= b -> b + 2 * N.of_nat k < N.of_nat n ->
  nthN p b + N.of_nat k <= nthN p (b + 2 * N.of_nat k).
Proof.
  destruct Hpar as (Hpl & Hpr & Hpm & Hp3).
  induction k as [|k IH]; intros b Hb Hbn.
  - replace (b + 2 * N.of_nat 0) with b by lia. lia.
  - replace (b + 2 * N.of_nat (S k)) with ((b + 2 * N.of_nat k) + 2) by lia.
    assert (H1 : nthN p b + N.of_nat k <= nthN p (b + 2 * N.of_nat k)) by (apply IH; lia).
    assert (H2 : nthN p (b + 2 * N.of_nat k) + 1 <= nthN p (b + 2 * N.of_nat k + 2))
      by (apply Hp3; lia).
    lia.
Qed.

(* capacity: a level holds at most twice as many internal nodes as the level above it *)
Lemma gp_dep_cap : forall a b d, 1 <= a -> a <= b -> b <= N.of_nat n ->
  (forall j, 1 <= j -> j < a -> nthN w j < d) ->
  (forall j, b <= j -> j < N.of_nat n -> d < nthN w j) ->
  forall i, b <= i -> i < N.of_nat n -> nthN w i = d + 1 -> i < b + 2 * (b - a).
Proof.
  intros a b d Ha Hab Hbn Hlo Hhi i Hbi Hin Hi.
  destruct Hpar as (Hpl & Hpr & Hpm & Hp3). destruct Hdep as (Hwl & Hw1 & Hw).
  destruct (N.ltb_spec i (b + 2 * (b - a))) as [Hlt|Hge]; [exact Hlt|exfalso].
  assert (Hi2 : 2 <= i).
  { destruct (N.eq_dec i 1) as [E|E]; [subst i; lia|]. lia. }
  (* the parent of any node of depth d+1 at or after b lies in [a, b) *)
  assert (Hrange : forall x, b <= x -> x < N.of_nat n -> nthN w x = d + 1 ->
                     a <= nthN p x /\ nthN p x < b).
  { intros x Hbx Hxn Hx.
    assert (Hx2 : 2 <= x).
    { destruct (N.eq_dec x 1) as [E|E]; [subst x; lia|]. lia. }
    assert (Hpx : 1 <= nthN p x /\ nthN p x < x) by (apply Hpr; lia).
    assert (Hwx : nthN w x = nthN w (nthN p x) + 1) by (apply Hw; lia).
    split.
    - destruct (N.ltb_spec (nthN p x) a) as [Hc|Hc]; [|exact Hc].
      assert (nthN w (nthN p x) < d) by (apply Hlo; lia). lia.
    - destruct (N.ltb_spec (nthN p x) b) as [Hc|Hc]; [exact Hc|].
      assert (d < nthN w (nthN p x)) by (apply Hhi; lia). lia. }
  assert (Hpi := Hrange i Hbi Hin Hi).
  (* the node at b has depth d+1 as well *)
  assert (Hwb : nthN w b = d + 1).
  { assert (d < nthN w b) by (apply Hhi; lia).
    assert (nthN w b <= nthN w i) by (apply gp_dep_mono; lia). lia. }
  assert (Hpb := Hrange b ltac:(lia) ltac:(lia) Hwb).
  assert (Hb2 : 2 <= b).
  { destruct (N.eq_dec b 1) as [E|E]; [subst b; lia|]. lia. }
  set (k := N.to_nat (b - a)).
  assert (Hk : nthN p b + N.of_nat k <= nthN p (b + 2 * N.of_nat k)) by (apply gp_par_lower; lia).
  assert (Hm : nthN p (b + 2 * N.of_nat k) <= nthN p i) by (apply Hpm; lia).
  lia.
Qed.

Lemma gp_dep_pos : forall i, 2 <= i -> i < N.of_nat n -> 1 <= nthN w i.
Proof.
  intros i Hi Hin. destruct Hdep as (Hwl & Hw1 & Hw). rewrite (Hw i) by lia. lia.
Qed.

End Depths.

(* ------------------------------------------------------------------ *)
(* 4. phase 3                                                           *)

(* Kraft sum of a list of lengths, scaled by 2^d *)
Definition KS (d : N) (l : list N) : N := sumN (map (fun x => 2 ^ (d - x)) l).

Lemma gp_sumN_app : forall a b, sumN (a ++ b) = sumN a + sumN b.
Proof. induction a as [|x a IH]; intros b; cbn [app sumN]; [reflexivity|]. rewrite IH. lia. Qed.

Lemma gp_KS_app : forall d a b, KS d (a ++ b) = KS d a + KS d b.
Proof. intros. unfold KS. rewrite map_app. apply gp_sumN_app. Qed.

Lemma gp_KS_repeat : forall d x k, KS d (repeat x k) = N.of_nat k * 2 ^ (d - x).
Proof.
  intros d x k. unfold KS. induction k as [|k IH].
  - cbn [repeat map sumN]. lia.
  - cbn [repeat map sumN]. rewrite IH. lia.
Qed.

Lemma gp_KS_scale : forall a b l, Forall (fun x => x <= a) l -> a <= b ->
  KS b l = 2 ^ (b - a) * KS a l.
Proof.
  intros a b l Hl Hab. unfold KS. induction Hl as [|x l Hx Hl IH].
  - cbn [map sumN]. lia.
  - cbn [map sumN]. rewrite IH.
    replace (b - x) with ((b - a) + (a - x)) by lia. rewrite N.pow_add_r. lia.
Qed.

Lemma gp_KS_succ : forall d l, Forall (fun x => x <= d) l -> KS (d + 1) l = 2 * KS d l.
Proof.
  intros d l Hl. rewrite (gp_KS_scale d (d + 1) l Hl) by lia.
  replace (d + 1 - d) with 1 by lia. reflexivity.
Qed.

Lemma gp_firstn_upd : forall (l : list N) a v, (a < length l)%nat ->
  firstn (S a) (upd a v l) = firstn a l ++ [v].
Proof.
  induction l as [|x l IH]; intros a v Ha; cbn [length] in Ha; [lia|].
  destruct a as [|a].
  - rewrite upd_0. reflexivity.
  - rewrite upd_S. cbn [firstn app]. f_equal. apply IH. lia.
Qed.

Lemma gp_last_repeat : forall (l : list N) x k d, last (l ++ repeat x (S k)) d = x.
Proof.
  intros l x k d. cbn [repeat]. rewrite repeat_cons. rewrite app_assoc. apply last_last.
Qed.

Lemma gp_count_internal : forall fuel w nn r depth u,
  nn <= N.of_nat fuel + r -> r <= nn ->
  exists r1, count_internal fuel w nn r depth u = (r1, u + (r1 - r)) /\
    r <= r1 /\ r1 <= nn /\
    (forall i, r <= i -> i < r1 -> nthN w i = depth) /\
    (r1 < nn -> nthN w r1 <> depth).
Proof.
  induction fuel as [|fuel IH]; intros w nn r depth u Hf Hr.
  - exists r. cbn [count_internal]. split; [f_equal; lia|].
    split; [lia|]. split; [lia|]. split; [intros; lia|]. intros; lia.
  - cbn [count_internal].
    destruct ((r <? nn) && (nthN w r =? depth)) eqn:Ec.
    + apply andb_prop in Ec. destruct Ec as [Ec1 Ec2].
      apply N.ltb_lt in Ec1. apply N.eqb_eq in Ec2.
      destruct (IH w nn (r + 1) depth (u + 1)) as (r1 & Heq & Hr1 & Hr1n & Hall & Hstop); [lia|lia|].
      exists r1. split; [rewrite Heq; f_equal; lia|].
      split; [lia|]. split; [lia|]. split; [|exact Hstop].
      intros i Hi Hi1. destruct (N.eq_dec i r) as [E|E]; [subst i; exact Ec2|].
      apply Hall; lia.
    + exists r. split; [f_equal; lia|].
      split; [lia|]. split; [lia|]. split; [intros; lia|].
      intros Hlt E. apply andb_false_iff in Ec. destruct Ec as [Ec|Ec].
      * apply N.ltb_ge in Ec. lia.
      * apply N.eqb_neq in Ec. contradiction.
Qed.

Lemma gp_assign_leaves : forall fuel w next avail used depth,
  used <= avail -> avail - used < N.of_nat fuel ->
  (N.to_nat (next + (avail - used)) <= length w)%nat ->
  exists w1, assign_leaves fuel w next avail used depth = (w1, next + (avail - used)) /\
    length w1 = length w /\
    firstn (N.to_nat (next + (avail - used))) w1 =
      firstn (N.to_nat next) w ++ repeat depth (N.to_nat (avail - used)) /\
    (forall i, next + (avail - used) <= i -> nthN w1 i = nthN w i).
Proof.
  induction fuel as [|fuel IH]; intros w next avail used depth Hua Hf Hlen; [lia|].
  cbn [assign_leaves]. destruct (used <? avail) eqn:Ec.
  - apply N.ltb_lt in Ec.
    destruct (IH (updN w next depth) (next + 1) (avail - 1) used depth) as (w1 & Heq & Hl & Hfst & Hrest).
    + lia.
    + lia.
    + rewrite gp_updN_length. lia.
    + exists w1. replace (next + (avail - used)) with (next + 1 + (avail - 1 - used)) by lia.
      split; [exact Heq|]. split; [rewrite Hl; apply gp_updN_length|]. split.
      * rewrite Hfst. replace (N.to_nat (next + 1)) with (S (N.to_nat next)) by lia.
        unfold updN. rewrite gp_firstn_upd by lia.
        replace (N.to_nat (avail - used)) with (S (N.to_nat (avail - 1 - used))) by lia.
        cbn [repeat]. rewrite <- app_assoc. reflexivity.
      * intros i Hi. rewrite Hrest by exact Hi. apply gp_nthN_updN_other. lia.
  - apply N.ltb_ge in Ec. exists w.
    replace (avail - used) with 0 by lia. rewrite N.add_0_r.
    split; [reflexivity|]. split; [reflexivity|]. split.
    + cbn [N.to_nat repeat]. rewrite app_nil_r. reflexivity.
    + intros; reflexivity.
Qed.

Section Phase3.
Variable n : nat.
Variable D : N -> N.
Hypothesis Hn : (2 <= n)%nat.
Hypothesis HD1 : D 1 = 0.
Hypothesis HDmono : forall i j, 1 <= i -> i <= j -> j < N.of_nat n -> D i <= D j.
Hypothesis HDstep : forall i, 1 <= i -> i + 1 < N.of_nat n -> D (i + 1) <= D i + 1.
Hypothesis HDpos : forall i, 2 <= i -> i < N.of_nat n -> 1 <= D i.
Hypothesis HDcap : forall a b d, 1 <= a -> a <= b -> b <= N.of_nat n ->
  (forall j, 1 <= j -> j < a -> D j < d) ->
  (forall j, b <= j -> j < N.of_nat n -> d < D j) ->
  forall i, b <= i -> i < N.of_nat n -> D i = d + 1 -> i < b + 2 * (b - a).

Definition p3_inv (w : list N) (avail depth root next : N) : Prop :=
  length w = n /\
  (forall i, root <= i -> i < N.of_nat n -> nthN w i = D i) /\
  next + avail = root /\ 1 <= root /\ root <= N.of_nat n /\
  (root < N.of_nat n -> D root = depth) /\
  (forall j, 1 <= j -> j < root -> D j < depth) /\
  (forall i, root <= i -> i < N.of_nat n -> D i = depth -> i < root + avail) /\
  Forall (fun x => 1 <= x /\ x <= depth) (firstn (N.to_nat next) w) /\
  Forall (fun x => x <= last (firstn (N.to_nat next) w) 0) (firstn (N.to_nat next) w) /\
  KS depth (firstn (N.to_nat next) w) + avail = 2 ^ depth.

Definition p3_post (L : list N) : Prop :=
  length L = n /\ Forall (fun x => 1 <= x) L /\ Forall (fun x => x <= last L 0) L /\
  exists d, Forall (fun x => x <= d) L /\ KS d L = 2 ^ d.

Lemma gp_phase3_step : forall w avail depth root next root1 used w1 next1,
  p3_inv w avail depth root next -> 0 < avail ->
  count_internal (length w) w (N.of_nat n) root depth 0 = (root1, used) ->
  assign_leaves (S (length w)) w next avail used depth = (w1, next1) ->
  p3_inv w1 (2 * used) (depth + 1) root1 next1 /\
  (root < N.of_nat n -> root < root1) /\ (root = N.of_nat n -> used = 0).
Proof.
  intros w avail depth root next root1 used w1 next1 Hinv Hav Hci Hal.
  destruct Hinv as (Hlen & Hw & Hna & Hr1 & Hrn & Hroot & Hlow & Hcap & Hrange & Hlast & Hks).
  destruct (gp_count_internal (length w) w (N.of_nat n) root depth 0) as
    (r1 & Hci' & Hrr1 & Hr1n & Hall & Hstop); [lia|lia|].
  rewrite Hci in Hci'. injection Hci' as Er Eu0. subst r1.
  assert (Eu : used = root1 - root) by lia. clear Eu0.
  (* the counted nodes have depth `depth` *)
  assert (HallD : forall i, root <= i -> i < root1 -> D i = depth).
  { intros i Hi Hi1. rewrite <- (Hw i) by lia. apply Hall; lia. }
  assert (HstopD : root1 < N.of_nat n -> D root1 <> depth).
  { intros Hlt. rewrite <- (Hw root1) by lia. apply Hstop. exact Hlt. }
  assert (Hgrow : root < N.of_nat n -> root < root1).
  { intros Hlt. destruct (N.eq_dec root1 root) as [E|E]; [|lia].
    exfalso. subst root1. apply HstopD; [exact Hlt|]. apply Hroot. exact Hlt. }
  assert (Hused : used <= avail).
  { destruct (N.eq_dec root1 root) as [E|E]; [lia|].
    assert (root1 - 1 < root + avail).
    { apply Hcap; [lia|lia|]. apply HallD; lia. }
    lia. }
  destruct (gp_assign_leaves (S (length w)) w next avail used depth) as
    (w1' & Hal' & Hl1 & Hfst & Hrest); [exact Hused|lia|lia|].
  rewrite Hal in Hal'. injection Hal' as Ew En. subst w1' next1.
  (* all nodes from root1 on are deeper *)
  assert (Hdeeper : forall j, root1 <= j -> j < N.of_nat n -> depth < D j).
  { intros j Hj Hjn.
    assert (Hr1lt : root1 < N.of_nat n) by lia.
    assert (root < root1) by (apply Hgrow; lia).
    assert (D (root1 - 1) = depth) by (apply HallD; lia).
    assert (D (root1 - 1) <= D root1) by (apply HDmono; lia).
    assert (D root1 <> depth) by (apply HstopD; lia).
    assert (D root1 <= D j) by (apply HDmono; lia).
    lia. }
  (* at depth 0 no leaf is assigned *)
  assert (Hd0 : depth = 0 -> avail - used = 0).
  { intros Ed.
    assert (Hroot1 : root = 1).
    { destruct (N.eq_dec root 1) as [E|E]; [exact E|].
      assert (D 1 < depth) by (apply Hlow; lia). lia. }
    assert (root < root1) by (apply Hgrow; lia). lia. }
  split; [|split; [exact Hgrow|intros; lia]].
  unfold p3_inv.
  split; [rewrite Hl1; exact Hlen|].
  split; [intros i Hi Hin; rewrite Hrest by lia; apply Hw; lia|].
  split; [lia|]. split; [lia|]. split; [lia|].
  split.
  { intros Hlt.
    assert (root < root1) by (apply Hgrow; lia).
    assert (D (root1 - 1) = depth) by (apply HallD; lia).
    assert (D (root1 - 1 + 1) <= D (root1 - 1) + 1) by (apply HDstep; lia).
    replace (root1 - 1 + 1) with root1 in * by lia.
    assert (depth < D root1) by (apply Hdeeper; lia).
    lia. }
  split.
  { intros j Hj Hjr. destruct (N.ltb_spec j root) as [Hc|Hc].
    - assert (D j < depth) by (apply Hlow; lia). lia.
    - rewrite HallD by lia. lia. }
  split.
  { intros i Hi Hin Hdi.
    replace (root1 + 2 * used) with (root1 + 2 * (root1 - root)) by lia.
    apply (HDcap root root1 depth); try lia; assumption. }
  rewrite Hfst.
  split.
  { apply Forall_app. split.
    - eapply Forall_impl; [|exact Hrange]. cbv beta. intros x Hx. lia.
    - apply Forall_forall. intros x Hx. assert (Hx' := Hx). apply repeat_spec in Hx'. subst x.
      destruct (N.eq_dec depth 0) as [E|E]; [|lia].
      exfalso. rewrite (Hd0 E) in Hx. cbn [N.to_nat repeat] in Hx. exact Hx. }
  split.
  { destruct (N.to_nat (avail - used)) as [|m] eqn:Em.
    - cbn [repeat]. rewrite app_nil_r. exact Hlast.
    - rewrite gp_last_repeat. apply Forall_app. split.
      + eapply Forall_impl; [|exact Hrange]. cbv beta. intros x Hx. lia.
      + apply Forall_forall. intros x Hx. apply repeat_spec in Hx. subst x. lia. }
  rewrite gp_KS_succ.
  - rewrite gp_KS_app, gp_KS_repeat. rewrite N.sub_diag. change (2 ^ 0) with 1.
    rewrite N.pow_add_r. change (2 ^ 1) with 2. lia.
  - apply Forall_app. split.
    + eapply Forall_impl; [|exact Hrange]. cbv beta. intros x Hx. lia.
    + apply Forall_forall. intros x Hx. apply repeat_spec in Hx. subst x. lia.
Qed.

Lemma gp_phase3_done : forall w depth root next,
  p3_inv w 0 depth root next -> p3_post w.
Proof.
  intros w depth root next Hinv.
  destruct Hinv as (Hlen & Hw & Hna & Hr1 & Hrn & Hroot & Hlow & Hcap & Hrange & Hlast & Hks).
  assert (Hrn' : root = N.of_nat n).
  { destruct (N.eq_dec root (N.of_nat n)) as [E|E]; [exact E|].
    assert (root < root + 0) by (apply Hcap; [lia|lia|apply Hroot; lia]). lia. }
  assert (Hfull : firstn (N.to_nat next) w = w) by (apply firstn_all2; lia).
  rewrite Hfull in *.
  unfold p3_post. split; [exact Hlen|]. split.
  - eapply Forall_impl; [|exact Hrange]. cbv beta. intros x Hx. lia.
  - split; [exact Hlast|]. exists depth. split.
    + eapply Forall_impl; [|exact Hrange]. cbv beta. intros x Hx. lia.
    + lia.
Qed.

Lemma gp_phase3_loop : forall fuel w avail depth root next,
  p3_inv w avail depth root next ->
  avail = 0 \/ N.of_nat n + 2 <= N.of_nat fuel + root ->
  p3_post (phase3 fuel w (N.of_nat n) avail depth root next).
Proof.
  induction fuel as [|fuel IH]; intros w avail depth root next Hinv Hf.
  - cbn [phase3]. destruct Hf as [Hf|Hf].
    + subst avail. eapply gp_phase3_done. exact Hinv.
    + exfalso. destruct Hinv as (_ & _ & _ & _ & Hrn & _). lia.
  - cbn [phase3]. destruct (0 <? avail) eqn:Ea.
    + apply N.ltb_lt in Ea.
      destruct (count_internal (length w) w (N.of_nat n) root depth 0) as [root1 used] eqn:Eci.
      destruct (assign_leaves (S (length w)) w next avail used depth) as [w1 next1] eqn:Eal.
      destruct (gp_phase3_step _ _ _ _ _ _ _ _ _ Hinv Ea Eci Eal) as (Hinv1 & Hgrow & Hend).
      apply IH; [exact Hinv1|].
      destruct Hf as [Hf|Hf]; [lia|].
      assert (Hrn : root <= N.of_nat n) by (destruct Hinv as (_ & _ & _ & _ & Hrn & _); exact Hrn).
      destruct (N.eq_dec root (N.of_nat n)) as [E|E].
      * left. rewrite (Hend E). reflexivity.
      * right. assert (root < root1) by (apply Hgrow; lia). lia.
    + apply N.ltb_ge in Ea. assert (avail = 0) by lia. subst avail.
      eapply gp_phase3_done. exact Hinv.
Qed.

Lemma gp_phase3 : forall w, length w = n ->
  (forall i, 1 <= i -> i < N.of_nat n -> nthN w i = D i) ->
  p3_post (phase3 (S (length w)) w (N.of_nat n) 1 0 1 0).
Proof.
  intros w Hlen Hw. apply gp_phase3_loop.
  - unfold p3_inv.
    split; [exact Hlen|]. split; [exact Hw|]. split; [lia|]. split; [lia|]. split; [lia|].
    split; [intros; exact HD1|].
    split; [intros; lia|].
    split.
    { intros i Hi Hin Hdi. destruct (N.eq_dec i 1) as [E|E]; [lia|]. exfalso.
      assert (1 <= D i) by (apply HDpos; lia). lia. }
    cbn [N.to_nat firstn]. split; [constructor|]. split; [constructor|].
    reflexivity.
  - right. lia.
Qed.

End Phase3.

(* ------------------------------------------------------------------ *)
(* 5. code_lens                                                         *)

Definition cl_post (n : nat) (L : list N) : Prop :=
  length L = n /\ Forall (fun x => 1 <= x) L /\ Forall (fun x => x <= last L 0) L /\
  (n = 1%nat -> L = [1]) /\
  exists d, Forall (fun x => x <= d) L /\ KS d L <= 2 ^ d /\ ((2 <= n)%nat -> KS d L = 2 ^ d).

Lemma gp_code_lens : forall w, (1 <= length w)%nat -> cl_post (length w) (code_lens w).
Proof.
  intros w Hn. destruct w as [|a [|b r]].
  - cbn [length] in Hn. lia.
  - cbn [code_lens length]. unfold cl_post.
    split; [reflexivity|]. split; [repeat constructor; lia|].
    split; [repeat constructor; cbn [last]; lia|].
    split; [reflexivity|].
    exists 1. split; [repeat constructor; lia|]. split; [|intros; lia].
    vm_compute. discriminate.
  - unfold code_lens. set (w0 := a :: b :: r).
    assert (Hn2 : (2 <= length w0)%nat) by (unfold w0; cbn [length]; lia).
    set (p := phase1 (length w0 - 1) w0 (lenN w0 - 1) (lenN w0 - 1) false).
    assert (Hp : par_ok (length w0) p) by (apply gp_phase1_start; exact Hn2).
    set (w2 := phase2 (seqN 2 (length w0 - 2)) (updN p 1 0)).
    assert (Hpl : length p = length w0) by (destruct Hp as (Hpl & _); exact Hpl).
    assert (Hd : dep_ok (length w0) p w2).
    { apply gp_phase2.
      - exact Hp.
      - lia.
      - lia.
      - rewrite gp_updN_length. exact Hpl.
      - apply gp_nthN_updN_same. lia.
      - intros i Hi Hi2. lia.
      - intros i Hi Hin. apply gp_nthN_updN_other. lia. }
    assert (Hw2l : length w2 = length w0) by (destruct Hd as (Hl & _); exact Hl).
    assert (Hpost : p3_post (length w0) (phase3 (S (length w2)) w2 (N.of_nat (length w0)) 1 0 1 0)).
    { apply (gp_phase3 (length w0) (nthN w2)).
      - exact Hn2.
      - destruct Hd as (_ & H1 & _). exact H1.
      - apply (gp_dep_mono (length w0) p w2 Hp Hd).
      - apply (gp_dep_step (length w0) p w2 Hp Hd).
      - apply (gp_dep_pos (length w0) p w2 Hd).
      - apply (gp_dep_cap (length w0) p w2 Hp Hd).
      - exact Hw2l.
      - intros; reflexivity. }
    rewrite Hw2l in Hpost. unfold lenN.
    destruct Hpost as (H1 & H2 & H3 & d & H4 & H5).
    unfold cl_post. split; [exact H1|]. split; [exact H2|]. split; [exact H3|].
    split; [intros; lia|].
    exists d. split; [exact H4|]. split; [lia|]. intros _. exact H5.
Qed.
