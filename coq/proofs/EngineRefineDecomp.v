(* EngineRefineDecomp.v -- T1: the multi-block loop decomp_loop (+ the overflow flush of
   decomperss) of RModel/Engine.v against the small-step presentation of the reference.

   NOTE (missing fact, now proved).  The five premises of decomp_refine_statement do not
   suffice as they stand: readHeader_refine_body says nothing about the state when
   readHeader returns an error code other than ENone / EEndInput, but EOutputOverflow is
   "non fatal" (isError = false), so the statement asks for st_sim after it.  The missing fact
       readHeader_no_overflow : forall s, snd (readHeader s) <> EOutputOverflow
   is true (that code is produced only by the block decoders) and is proved by code analysis
   in EngineRefineDecompErr.v.  decomp_refine_partial has it as an explicit premise;
   decomp_refine_final / decomp_refine use the proved fact.

   decomp_refine_final takes the decodeHuffman premise in the form that is proved
   (EngineRefineSpecBlock3.decodeHuffman_refine3_statement) and concludes
   EngineRefineSpecFinal.decomp_body. *)
From Coq Require Import List NArith ZArith Bool Relations Lia ZifyBool ZifyNat ZifyN.
From Verif Require Import Bits Huffman HuffmanSpec Inflate InflateSpec InflateMono.
From Verif Require Import Base EngineTables Engine EngineRefineSpec EngineRefineSpecBlock
     EngineRefineSpecBlock2 EngineRefineSpecBlock3 EngineRefineSpecHdr EngineRefineSpecNeed EngineRefineSpecReach
     EngineRefineSpecBuf EngineRefineSpecTop EngineRefineSpecFinal EngineRefineBits.
From Verif Require Import EngineRefineReach EngineRefineDecompErr.
Import ListNotations.
Open Scope N_scope.

Definition rstar : rcfg -> rcfg -> Prop := clos_refl_trans rcfg rstep.

(* ---------------------------------------------------------------- flush_ov *)
Lemma flush_ov_id s h i : ov s = ov0 -> flush_ov s h i = (s, h, i).
Proof.
  intros H. unfold flush_ov. rewrite H. cbn [ov0 writeOverflowLen N.eqb negb].
  rewrite H. reflexivity.
Qed.

Lemma flush_ov_same s h i s2 h2 i2 :
  flush_ov s h i = (s2, h2, i2) -> i2 = i -> s2 = s /\ h2 = h.
Proof.
  unfold flush_ov.
  destruct (writeOverflowLen (ov s) =? 0) eqn:E1; cbn [negb].
  - destruct (copyOverflowLength (ov s) =? 0) eqn:E2; cbn [negb]; intros X Hi.
    + pose proof (f_equal (fun x => fst (fst x)) X) as X1.
      pose proof (f_equal (fun x => snd (fst x)) X) as X2. cbn [fst snd] in X1, X2.
      subst. split; reflexivity.
    + exfalso. apply (f_equal snd) in X. cbn [snd] in X. apply N.eqb_neq in E2. lia.
  - cbn [set_wov set_ov ov copyOverflowLength].
    apply N.eqb_neq in E1.
    destruct (copyOverflowLength (ov s) =? 0) eqn:E2; cbn [negb]; intros X Hi;
      exfalso; apply (f_equal snd) in X; cbn [snd] in X; lia.
Qed.

(* ---------------------------------------------------------------- small facts *)
Lemma mkbs_eta B : mkbs (bl B) (bp B) = B.
Proof. destruct B; reflexivity. Qed.

Lemma take1_bit s v r : take 1 s = Some (v, r) -> v = 0 \/ v = 1.
Proof.
  intros H. pose proof (take_lt 1 s) as L. rewrite H in L.
  change (2 ^ N.of_nat 1) with 2 in L. lia.
Qed.

Lemma lrd_rd s : headerBuffer s = [] -> headerBuffered s = 0 -> lrd s = rd s.
Proof.
  intros H1 H2. unfold lrd. rewrite H1, H2. cbn [app N.add].
  destruct (rd s); reflexivity.
Qed.

Lemma lbits_rd s : headerBuffer s = [] -> headerBuffered s = 0 -> lbits s = br_bits (rd s).
Proof. intros H1 H2. unfold lbits. rewrite lrd_rd by assumption. reflexivity. Qed.

Lemma qbytes_le a b :
  br_wf (rd a) -> br_wf (rd b) -> (0 <= r_len (rd a))%Z -> (0 <= r_len (rd b))%Z ->
  (length (br_bits (rd a)) <= length (br_bits (rd b)))%nat ->
  qbytes a <= qbytes b.
Proof.
  intros [Wa _] [Wb _] Ha Hb L. rewrite !br_bits_length in L.
  unfold qbytes. rewrite Wa, Wb.
  rewrite !Z.quot_div_nonneg by lia.
  pose proof (Z.div_mod (r_len (rd a)) 8 ltac:(lia)) as Da.
  pose proof (Z.mod_pos_bound (r_len (rd a)) 8 ltac:(lia)) as Ma.
  pose proof (Z.div_mod (r_len (rd b)) 8 ltac:(lia)) as Db.
  pose proof (Z.mod_pos_bound (r_len (rd b)) 8 ltac:(lia)) as Mb.
  lia.
Qed.

(* ---------------------------------------------------------------- runs of the reference *)
Lemma rstar_sfx c c' : rstar c c' -> sfx (cfg_bs c) (cfg_bs c').
Proof.
  intros H. induction H as [x y H | x | x y z H1 IH1 H2 IH2].
  - apply rstep_sfx; exact H.
  - apply sfx_refl.
  - eapply sfx_trans; eassumption.
Qed.

Lemma rstar_len c c' : rstar c c' -> (length (bl (cfg_bs c')) <= length (bl (cfg_bs c)))%nat.
Proof.
  intros H. destruct (rstar_sfx _ _ H) as [v [Hv _]]. rewrite Hv, app_length. lia.
Qed.

Lemma sync_upd_rout bf len st s : rout (sync_upd bf len st s) = rout st.
Proof. unfold sync_upd. destruct ((len =? 0) && (bf =? 0)); reflexivity. Qed.
Lemma sync_upd_olen bf len st s : olen (sync_upd bf len st s) = olen st.
Proof. unfold sync_upd. destruct ((len =? 0) && (bf =? 0)); reflexivity. Qed.
Lemma sync_upd_oavail bf len st s : oavail (sync_upd bf len st s) = oavail st.
Proof. unfold sync_upd. destruct ((len =? 0) && (bf =? 0)); reflexivity. Qed.

Lemma win_rel_sync out w bf len st s : win_rel out w st -> win_rel out w (sync_upd bf len st s).
Proof.
  unfold win_rel. rewrite sync_upd_rout, sync_upd_olen, sync_upd_oavail. intros H; exact H.
Qed.

Lemma rstep_rout c c' : rstep c c' -> exists v, rout (cfg_st c') = v ++ rout (cfg_st c).
Proof.
  intros H. destruct H as
    [st s bf s1 s2 lt dt E1 E2 EF
    |st s bf s1 s2 lt dt s3 E1 E2 ED
    |st s bf s1 s2 len s4 nlen s5 E1 E2 E3 E4 E5
    |bf lt dt st s st' s' ES
    |bf lt dt st s st' s' ES
    |bf len n st s b s1 Hn E8
    |bf len st s]; cbn [cfg_st]; try (exists []; reflexivity).
  - destruct (sym1_len' lt dt st s) as [[G _] _]. rewrite ES in G. exact G.
  - rewrite next_st. destruct (sym1_len' lt dt st s) as [[G _] _]. rewrite ES in G. exact G.
  - exists [b]. reflexivity.
  - rewrite next_st, sync_upd_rout. exists []. reflexivity.
Qed.

Lemma rstar_rout c c' : rstar c c' -> exists v, rout (cfg_st c') = v ++ rout (cfg_st c).
Proof.
  intros H. induction H as [x y H | x | x y z H1 IH1 H2 IH2].
  - apply rstep_rout; exact H.
  - exists []. reflexivity.
  - destruct IH1 as [v1 E1]. destruct IH2 as [v2 E2]. exists (v2 ++ v1).
    rewrite E2, E1, app_assoc. reflexivity.
Qed.

Lemma sym_run_rstar bf lt dt st s st' s' b :
  sym_run lt dt st s st' s' b ->
  rstar (CHuff bf lt dt st s) (if b then next_block bf st' s' else CHuff bf lt dt st' s').
Proof.
  intros H. induction H as [st s | st s st1 s1 st2 s2 b E H IH | st s st1 s1 E].
  - apply rt_refl.
  - eapply rt_trans; [apply rt_step, rs_sym; exact E | exact IH].
  - apply rt_step, rs_eob. exact E.
Qed.

Lemma stored_rstar bf len : forall k n st B st' B',
  N.of_nat k <= n -> stored k st B = (st', B', true) ->
  rstar (CStored bf len n st B) (CStored bf len (n - N.of_nat k) st' B') /\
  olen st' = olen st + N.of_nat k.
Proof.
  induction k as [|k IH]; intros n st B st' B' Hk E; cbn [stored] in E.
  - injection E as E1 E2; subst. replace (n - N.of_nat 0) with n by lia.
    split; [apply rt_refl | lia].
  - destruct (take 8 B) as [[b B1]|] eqn:E8; [|discriminate].
    apply (IH (n - 1)) in E; [|lia]. destruct E as [R L]. split.
    + eapply rt_trans; [apply rt_step, rs_byte; [lia | exact E8]|].
      replace (n - N.of_nat (S k)) with (n - 1 - N.of_nat k) by lia. exact R.
    + rewrite L. unfold push; cbn [olen]. lia.
Qed.

(* ---------------------------------------------------------------- decomp_loop, one iteration *)
Definition loop_body (f : nat) (s : inflate) (out : arr) (idx : N) : inflate * arr * N * ierr :=
  let '(s, out, idx, err) :=
    if phase s =? phaseLitBlock then decodeLiteralBlock s out idx
    else decodeHuffman s out idx in
  match err with
  | ENone => decomp_loop f s out idx
  | _ => (s, out, idx, err)
  end.

Lemma dl_end f s out w : phase s = phaseStreamEnd -> decomp_loop (S f) s out w = (s, out, w, ENone).
Proof. intros H. cbn [decomp_loop]. rewrite H. reflexivity. Qed.

Lemma dl_block f s out w :
  phase s = phaseNewBlock \/ phase s = phaseDecodingHeader ->
  decomp_loop (S f) s out w =
  let '(s1, err) := readHeader s in
  match err with
  | ENone => loop_body f s1 out w
  | _ => (s1, out, w, err)
  end.
Proof. intros [H|H]; cbn [decomp_loop]; rewrite H; reflexivity. Qed.

Lemma dl_body f s out w :
  phase s = phaseHeaderDecoded \/ phase s = phaseLitBlock ->
  decomp_loop (S f) s out w = loop_body f s out w.
Proof.
  intros H.
  assert (E1 : (phase s =? phaseStreamEnd) = false) by (destruct H as [H|H]; rewrite H; reflexivity).
  assert (E2 : (phase s =? phaseNewBlock) || (phase s =? phaseDecodingHeader) = false)
    by (destruct H as [H|H]; rewrite H; reflexivity).
  cbn [decomp_loop]. rewrite E1, E2. reflexivity.
Qed.

Definition blockish (c : rcfg) : Prop :=
  match c with CHuff _ _ _ _ _ | CStored _ _ _ _ _ => True | _ => False end.

Section Decomp.
Hypothesis HRH : readHeader_refine_body.
Hypothesis HRN : readHeader_need_body.
Hypothesis HDH : decodeHuffman_refine3_statement.
Hypothesis HLB : decodeLiteralBlock_refine_statement.
Hypothesis HRI : reach_inv_statement.
Hypothesis HNO : forall s, snd (readHeader s) <> EOutputOverflow.
Variable data : list N.
Variable u : list N.
Local Notation U := (bits_of_bytes u).

(* what the statement says about a result of the loop, with the output claim in terms of olen *)
Definition loop_post (s : inflate) (w : N) (c : rcfg) (r : inflate * arr * N * ierr) : Prop :=
  let '(s', out', w', err) := r in
  let '(s2, out2, w2) := flush_ov s' out' w' in
  exists c',
    rstar c c' /\ win_rel out2 w2 (cfg_st c') /\ w <= w2 /\ w2 <= outLen + 261 /\
    olen (cfg_st c') = olen (cfg_st c) + (w2 - w) /\
    inputNil s2 = inputNil s /\
    (err <> EPanic -> err <> EFuel -> isError err = false ->
       st_sim s2 c' U /\
       qbytes s2 <= qbytes s /\
       (err = ENone \/ err = EEndInput \/ err = EOutputOverflow) /\
       (err = ENone -> phase s2 = phaseStreamEnd) /\
       (phase s2 = phaseDecodingHeader ->
          err = EEndInput /\ r_in (rd s2) = [] /\ r_inlen (rd s2) = 0)).

(* what a block decoder call gives *)
Definition blk_post (s : inflate) (w : N) (c : rcfg) (r : inflate * arr * N * ierr) : Prop :=
  let '(s', out', w', err) := r in
  let '(s2, out2, w2) := flush_ov s' out' w' in
  exists c',
    rstar c c' /\ win_rel out2 w2 (cfg_st c') /\
    olen (cfg_st c') = olen (cfg_st c) + (w2 - w) /\
    w <= w' /\ w' <= outLen /\ w' <= w2 /\ w2 <= outLen + 261 /\
    inputNil s2 = inputNil s /\
    (err = ENone -> s2 = s' /\ out2 = out' /\ w2 = w') /\
    (err <> EPanic -> err <> EFuel -> isError err = false ->
       st_sim s2 c' U /\
       qbytes s2 <= qbytes s /\
       (err = ENone \/ err = EEndInput \/ err = EOutputOverflow) /\
       phase s2 <> phaseDecodingHeader).

Lemma loop_post_trans s w c s1 w1 c1 r :
  rstar c c1 -> olen (cfg_st c1) = olen (cfg_st c) + (w1 - w) -> w <= w1 ->
  inputNil s1 = inputNil s -> qbytes s1 <= qbytes s ->
  loop_post s1 w1 c1 r -> loop_post s w c r.
Proof.
  destruct r as [[[s' out'] w'] err]. unfold loop_post.
  destruct (flush_ov s' out' w') as [[s2 out2] w2].
  intros R L W I Q [c' [R' [WR [W1 [W2 [L' [I' NF]]]]]]].
  exists c'. split; [eapply rt_trans; eassumption|]. split; [exact WR|].
  split; [lia|]. split; [exact W2|]. split; [lia|]. split; [congruence|].
  intros A B C. destruct (NF A B C) as [S1 [Q1 [T [P1 P2]]]].
  split; [exact S1|]. split; [lia|]. split; [exact T|]. split; [exact P1 | exact P2].
Qed.

Lemma loop_post_ret s s1 out w c err :
  ov s1 = ov0 -> inputNil s1 = inputNil s -> win_rel out w (cfg_st c) -> w <= outLen ->
  (err <> EPanic -> err <> EFuel -> isError err = false ->
     st_sim s1 c U /\ qbytes s1 <= qbytes s /\
     (err = ENone \/ err = EEndInput \/ err = EOutputOverflow) /\
     (err = ENone -> phase s1 = phaseStreamEnd) /\
     (phase s1 = phaseDecodingHeader ->
        err = EEndInput /\ r_in (rd s1) = [] /\ r_inlen (rd s1) = 0)) ->
  loop_post s w c (s1, out, w, err).
Proof.
  intros OV I WR WL NF. unfold loop_post. rewrite (flush_ov_id _ _ _ OV).
  exists c. split; [apply rt_refl|]. split; [exact WR|]. split; [lia|].
  split; [unfold outLen in *; lia|]. split; [lia|]. split; [exact I | exact NF].
Qed.

(* ---------------------------------------------------------------- readHeader *)
Lemma hdr_align st S0 s :
  reach data (CBlock st S0) -> (0 <= r_len (rd s))%Z -> bl S0 = lbits s ++ U ->
  ((Z.of_N (bp S0) + r_len (rd s)) mod 8 = 0)%Z.
Proof.
  intros R NN BL.
  destruct (HRI data _ R) as [_ [_ [_ [[pre [E1 E2]] _]]]]. cbn [cfg_bs] in E1, E2.
  pose proof (f_equal (@length bool) E1) as L.
  rewrite bits_of_bytes_length, app_length, BL, app_length in L. unfold lbits in L.
  rewrite br_bits_length, bits_of_bytes_length in L. cbn [lrd r_len r_in] in L.
  rewrite E2. apply Z.mod_divide; [lia|].
  exists (Z.of_nat (length data) - Z.of_nat (length (headerBuffer s ++ r_in (rd s)))
          - Z.of_nat (length u))%Z.
  unfold byte in *. lia.
Qed.

Lemma hdr_step st S0 s :
  reach data (CBlock st S0) -> st_sim s (CBlock st S0) U ->
  let '(s1, e1) := readHeader s in
  inputNil s1 = inputNil s /\ ov s1 = ov0 /\ e1 <> EOutputOverflow /\
  (e1 = ENone ->
     qbytes s1 <= qbytes s /\
     exists c1, rstep (CBlock st S0) c1 /\ cfg_st c1 = st /\ st_sim s1 c1 U /\ blockish c1) /\
  (e1 = EEndInput ->
     st_sim s1 (CBlock st S0) U /\ qbytes s1 <= qbytes s /\ phase s1 = phaseDecodingHeader /\
     r_in (rd s1) = [] /\ r_inlen (rd s1) = 0).
Proof.
  intros R [OV [PH [OK [OKS [ND BL]]]]].
  assert (AL : ((Z.of_N (bp S0) + r_len (rd s)) mod 8 = 0)%Z).
  { destruct OK as [_ [NN _]]. eapply hdr_align; eassumption. }
  pose proof (HRH s U (bp S0) OK OKS AL) as X.
  pose proof (HRN s (bp S0) OK OKS AL ND) as Y.
  pose proof (HNO s) as Z.
  destruct (readHeader s) as [s1 e1]. cbn [snd] in Z.
  destruct X as [[F1 [F2 F3]] [XN XE]]. destruct Y as [YE YN].
  split; [exact F1|]. split; [congruence|]. split; [exact Z|]. split.
  - intros ->. destruct (XN eq_refl) as [W1 [NN1 [HB1 [HBD1 HR]]]].
    split; [apply YN; reflexivity|].
    rewrite <- BL, mkbs_eta in HR.
    destruct HR as [bf [s1' [bt [s2 [T1 [T2 [BF D]]]]]]].
    pose proof (take1_bit _ _ _ T1) as BFB.
    assert (OV1 : ov s1 = ov0) by congruence.
    destruct D as [[-> [P [lt [dt [FT [TF B2]]]]]]
                  | [[-> [P [lt [dt [s3 [DH [TF B2]]]]]]]
                  | [-> [P [len [s4 [nlen [s5 [T3 [T4 [LN [LBL [B2 M8]]]]]]]]]]]]].
    + exists (CHuff bf lt dt st s2). split; [eapply rs_fixed; eassumption|].
      split; [reflexivity|]. split; [|exact I]. unfold st_sim.
      repeat match goal with |- _ /\ _ => split end; assumption.
    + exists (CHuff bf lt dt st s3). split; [eapply rs_dyn; eassumption|].
      split; [reflexivity|]. split; [|exact I]. unfold st_sim.
      repeat match goal with |- _ /\ _ => split end; assumption.
    + exists (CStored bf len len st s5). split; [eapply rs_stored; eassumption|].
      split; [reflexivity|]. split; [|exact I]. unfold st_sim.
      repeat match goal with |- _ /\ _ => split end; assumption.
  - intros ->. destruct (XE eq_refl) as [OK1 [OKS1 [P1 [LB1 [RI [RL [RB RLEN]]]]]]].
    split.
    + unfold st_sim. split; [congruence|]. split; [right; exact P1|]. split; [exact OK1|].
      split; [exact OKS1|]. split; [apply YE; reflexivity|]. rewrite LB1. exact BL.
    + split; [|split; [exact P1|split; [exact RI|exact RL]]].
      unfold qbytes. rewrite RLEN, RL. lia.
Qed.

(* ---------------------------------------------------------------- the state after a block *)
Lemma sim_next s bf st' bs' :
  ov s = ov0 -> bfinal s = bf -> 
  phase s = (if bf =? 1 then phaseStreamEnd else phaseNewBlock) ->
  br_wf (rd s) -> (0 <= r_len (rd s))%Z -> headerBuffer s = [] -> headerBuffered s = 0 ->
  bl bs' = br_bits (rd s) ++ U ->
  st_sim s (next_block bf st' bs') U.
Proof.
  intros OV BF PH WF NN HB HBD BL. unfold next_block.
  destruct (bf =? 1) eqn:EB; unfold st_sim.
  - split; [exact OV|]. split; [exact PH|]. split; [exact WF|]. split; [exact NN|].
    split; [exact HB | exact BL].
  - split; [exact OV|]. split; [left; exact PH|].
    split.
    { unfold hdr_ok. rewrite (lrd_rd s HB HBD). split; [exact WF|]. split; [exact NN|].
      rewrite HB, HBD. split; [reflexivity|]. split; [lia|]. split; [left; exact PH|].
      intros _. reflexivity. }
    split; [unfold hdr_ok_staged; rewrite PH; discriminate|].
    split; [unfold hdr_need; rewrite PH; discriminate|].
    rewrite (lbits_rd s HB HBD). exact BL.
Qed.

(* ---------------------------------------------------------------- decodeHuffman *)
Lemma huff_step bf lt dt st S0 s out w :
  st_sim s (CHuff bf lt dt st S0) U -> win_rel out w st -> w <= outLen ->
  blk_post s w (CHuff bf lt dt st S0) (decodeHuffman s out w).
Proof.
  intros [OV [PH [BF [BFB [TF [WF [NN [HB [HBD BL]]]]]]]]] WR WL.
  assert (BFS : bfinal s = 0 \/ bfinal s = 1) by (rewrite BF; exact BFB).
  assert (WO0 : writeOverflowLen (ov s) = 0) by (rewrite OV; reflexivity).
  assert (WL0 : writeOverflowLits (ov s) = 0) by (rewrite OV; reflexivity).
  pose proof (HDH s out w lt dt st U (bp S0) WF NN PH BFS WO0 WL0 TF WR WL) as X.
  unfold blk_post. destruct (decodeHuffman s out w) as [[[s' out'] w'] err].
  destruct (flush_ov s' out' w') as [[s2 out2] w2] eqn:FL.
  destruct X as [st' [bs' [ended [RUN [WR2 [OL [W1 [W2 [W3 [W4 [WO [SS1 [LB1 [SS2 [RD2 [PH2
                 [LB2 [OV2 NF]]]]]]]]]]]]]]]]]].
  rewrite <- BL, mkbs_eta in RUN. apply (sym_run_rstar bf) in RUN.
  set (c' := if ended then next_block bf st' bs' else CHuff bf lt dt st' bs') in *.
  assert (CS : cfg_st c' = st') by (unfold c'; destruct ended; [apply next_st | reflexivity]).
  assert (CB : cfg_bs c' = bs') by (unfold c'; destruct ended; [apply next_bs | reflexivity]).
  destruct SS1 as [I1 [TB1 [BF1 [HBD1 [HB1 _]]]]]. destruct SS2 as [I2 [TB2 [BF2 [HBD2 [HB2 _]]]]].
  exists c'. split; [exact RUN|]. rewrite CS. split; [exact WR2|]. cbn [cfg_st].
  split; [exact OL|]. split; [exact W1|]. split; [exact W2|]. split; [exact W3|].
  split; [exact W4|]. split; [congruence|]. split.
  - intros ->. assert (E : w2 = w').
    { destruct (N.lt_ge_cases w' w2) as [Hlt|Hge]; [|lia].
      destruct (WO Hlt) as [Q|[Q|[Q|Q]]]; discriminate. }
    destruct (flush_ov_same _ _ _ _ _ _ FL E) as [E1 E2]. auto.
  - intros A B C. destruct (NF A B C) as [WF' [NN' [BL' [PH' [EN [EE [TRI EO]]]]]]].
    assert (WF2 : br_wf (rd s2)) by (rewrite RD2; exact WF').
    assert (NN2 : (0 <= r_len (rd s2))%Z) by (rewrite RD2; exact NN').
    assert (BL2 : bl bs' = br_bits (rd s2) ++ U) by (rewrite RD2; exact BL').
    assert (HB' : headerBuffer s2 = []) by congruence.
    assert (HBD' : headerBuffered s2 = 0) by congruence.
    assert (BF' : bfinal s2 = bf) by congruence.
    split; [|split; [|split; [exact TRI|]]].
    + unfold c'. destruct ended.
      * apply sim_next; try assumption. rewrite PH2, PH', BF. reflexivity.
      * unfold st_sim. split; [exact OV2|]. split; [rewrite PH2; exact PH'|].
        split; [exact BF'|]. split; [exact BFB|]. split; [rewrite TB2, TB1; exact TF|].
        repeat match goal with |- _ /\ _ => split end; assumption.
    + apply qbytes_le; try assumption.
      pose proof (rstar_len _ _ RUN) as L. rewrite CB in L. cbn [cfg_bs] in L.
      rewrite BL2, BL, !app_length in L. lia.
    + rewrite PH2, PH'. destruct ended; [destruct (bfinal s =? 1)|]; discriminate.
Qed.

(* ---------------------------------------------------------------- decodeLiteralBlock *)
Lemma stored_step bf len n st S0 s out w :
  reach data (CStored bf len n st S0) ->
  st_sim s (CStored bf len n st S0) U -> win_rel out w st -> w <= outLen ->
  blk_post s w (CStored bf len n st S0) (decodeLiteralBlock s out w).
Proof.
  intros R [OV [PH [BF [BFB [LBL [WF [NN [M8 [HB [HBD BL]]]]]]]]]] WR WL.
  destruct (HRI data _ R) as [_ [_ [_ [_ [NL [L64 _]]]]]].
  assert (BFS : bfinal s = 0 \/ bfinal s = 1) by (rewrite BF; exact BFB).
  assert (LT : litBlockLength s < 65536) by (rewrite LBL; lia).
  pose proof (HLB s out w st U (bp S0) WF NN M8 PH BFS WR WL LT) as X.
  unfold blk_post. destruct (decodeLiteralBlock s out w) as [[[s' out'] w'] err].
  destruct X as [k [st' [bs' [KL [LB' [W' [WL' [ST [WR' [SS [OV' [E5 NF]]]]]]]]]]]].
  assert (OV1 : ov s' = ov0) by congruence.
  rewrite (flush_ov_id _ _ _ OV1).
  rewrite <- BL, mkbs_eta in ST. rewrite LBL in KL, LB'.
  destruct (stored_rstar bf len (N.to_nat k) n st S0 st' bs' ltac:(lia) ST) as [RS OL].
  rewrite N2Nat.id in RS, OL.
  destruct SS as [I1 [TB1 [BF1 [HBD1 [HB1 _]]]]].
  assert (HB' : headerBuffer s' = []) by congruence.
  assert (HBD' : headerBuffered s' = 0) by congruence.
  assert (BF' : bfinal s' = bf) by congruence.
  assert (QB : br_wf (rd s') -> (0 <= r_len (rd s'))%Z -> bl bs' = br_bits (rd s') ++ U ->
               qbytes s' <= qbytes s).
  { intros WF' NN' BL'. apply qbytes_le; try assumption.
    pose proof (rstar_len _ _ RS) as L. cbn [cfg_bs] in L.
    rewrite BL', BL, !app_length in L. lia. }
  (* the block is not complete *)
  assert (NE : err <> ENone ->
    exists c',
      rstar (CStored bf len n st S0) c' /\ win_rel out' w' (cfg_st c') /\
      olen (cfg_st c') = olen (cfg_st (CStored bf len n st S0)) + (w' - w) /\
      w <= w' /\ w' <= outLen /\ w' <= w' /\ w' <= outLen + 261 /\
      inputNil s' = inputNil s /\
      (err = ENone -> s' = s' /\ out' = out' /\ w' = w') /\
      (err <> EPanic -> err <> EFuel -> isError err = false ->
         st_sim s' c' U /\ qbytes s' <= qbytes s /\
         (err = ENone \/ err = EEndInput \/ err = EOutputOverflow) /\
         phase s' <> phaseDecodingHeader)).
  { intros N0. exists (CStored bf len (n - k) st' bs'). cbn [cfg_st].
    split; [exact RS|]. split; [exact WR'|]. split; [lia|]. split; [lia|].
    split; [exact WL'|]. split; [lia|]. split; [unfold outLen in *; lia|].
    split; [exact I1|]. split; [intros; contradiction|].
    intros A B C. destruct (NF A B) as [WF' [NN' [M8' [BL' [EN [ENN [EE EO]]]]]]].
    split.
    { unfold st_sim. split; [exact OV1|]. split; [apply ENN; exact N0|].
      repeat match goal with |- _ /\ _ => split end; assumption. }
    split; [apply QB; assumption|].
    split.
    { destruct E5 as [Q|[Q|[Q|[Q|Q]]]]; try contradiction; auto. }
    rewrite (ENN N0). discriminate. }
  destruct err; try (apply NE; discriminate).
  (* ENone: the block is complete *)
  destruct (NF ltac:(discriminate) ltac:(discriminate)) as [WF' [NN' [M8' [BL' [EN _]]]]].
  destruct (EN eq_refl) as [KN PH'].
  replace (n - k) with 0 in RS by lia.
  exists (next_block bf (sync_upd bf len st' bs') bs'). rewrite next_st, sync_upd_olen.
  cbn [cfg_st].
  split; [eapply rt_trans; [exact RS | apply rt_step, rs_stored_end]|].
  split; [apply win_rel_sync; exact WR'|]. split; [lia|]. split; [lia|].
  split; [exact WL'|]. split; [lia|]. split; [unfold outLen in *; lia|].
  split; [exact I1|]. split; [auto|].
  intros _ _ _. split; [|split; [apply QB; assumption|split; [auto|]]].
  - apply sim_next; try assumption. rewrite PH', BF. reflexivity.
  - rewrite PH'. destruct (bfinal s =? 1); discriminate.
Qed.

(* ---------------------------------------------------------------- the loop *)
Definition P (f : nat) : Prop :=
  forall s out w c,
    reach data c -> st_sim s c U -> win_rel out w (cfg_st c) -> w <= outLen ->
    loop_post s w c (decomp_loop f s out w).

Lemma blk_loop f s w c r :
  P f -> reach data c -> blk_post s w c r ->
  loop_post s w c
    (let '(s', out', w', err) := r in
     match err with
     | ENone => decomp_loop f s' out' w'
     | _ => (s', out', w', err)
     end).
Proof.
  intros IH R B. destruct r as [[[s' out'] w'] err]. unfold blk_post in B.
  destruct (flush_ov s' out' w') as [[s2 out2] w2] eqn:FL.
  destruct B as [c' [RS [WR [OL [W1 [W2 [W3 [W4 [IN [EN NF]]]]]]]]]].
  assert (NE : err <> ENone -> loop_post s w c (s', out', w', err)).
  { intros N0. unfold loop_post. rewrite FL. exists c'.
    split; [exact RS|]. split; [exact WR|]. split; [lia|]. split; [exact W4|].
    split; [exact OL|]. split; [exact IN|].
    intros A B C. destruct (NF A B C) as [SIM [Q [T PD]]].
    split; [exact SIM|]. split; [exact Q|]. split; [exact T|].
    split; intros; contradiction. }
  destruct err; try (apply NE; discriminate).
  destruct (EN eq_refl) as [E1 [E2 E3]]. subst s2 out2 w2.
  destruct (NF ltac:(discriminate) ltac:(discriminate) eq_refl) as [SIM [Q _]].
  apply (loop_post_trans s w c s' w' c'); try assumption.
  apply IH; try assumption.
  eapply rt_trans; [exact R | exact RS].
Qed.

Lemma body_ok f s out w c :
  P f -> reach data c -> st_sim s c U -> win_rel out w (cfg_st c) -> w <= outLen ->
  blockish c -> loop_post s w c (loop_body f s out w).
Proof.
  intros IH R SIM WR WL B. unfold loop_body.
  destruct c as [st S0 | bf lt dt st S0 | bf len n st S0 | st S0]; try contradiction;
    cbn [cfg_st] in WR.
  - assert (PH : phase s = phaseHeaderDecoded) by (destruct SIM as [_ [PH _]]; exact PH).
    rewrite PH. change (phaseHeaderDecoded =? phaseLitBlock) with false. cbv iota.
    apply (blk_loop f s w _ (decodeHuffman s out w)); [exact IH | exact R|].
    apply huff_step; assumption.
  - assert (PH : phase s = phaseLitBlock) by (destruct SIM as [_ [PH _]]; exact PH).
    rewrite PH. change (phaseLitBlock =? phaseLitBlock) with true. cbv iota.
    apply (blk_loop f s w _ (decodeLiteralBlock s out w)); [exact IH | exact R|].
    apply stored_step; assumption.
Qed.

Lemma loop_ok : forall f, P f.
Proof.
  induction f as [|f IH]; intros s out w c R SIM WR WL.
  - cbn [decomp_loop]. apply loop_post_ret; try assumption; try reflexivity.
    + destruct SIM as [OV _]; exact OV.
    + intros _ A. contradiction.
  - destruct c as [st S0 | bf lt dt st S0 | bf len n st S0 | st S0].
    + (* block boundary: readHeader *)
      assert (PH : phase s = phaseNewBlock \/ phase s = phaseDecodingHeader)
        by (destruct SIM as [_ [PH _]]; exact PH).
      rewrite (dl_block f s out w PH).
      pose proof (hdr_step st S0 s R SIM) as X.
      destruct (readHeader s) as [s1 e1].
      destruct X as [I1 [OV1 [NO [XN XE]]]].
      destruct e1.
      * destruct (XN eq_refl) as [Q [c1 [RS [CS [SIM1 B1]]]]].
        apply (loop_post_trans s w _ s1 w c1); try assumption.
        -- apply rt_step; exact RS.
        -- rewrite CS. cbn [cfg_st]. lia.
        -- lia.
        -- apply body_ok; try assumption.
           ++ eapply rt_trans; [exact R | apply rt_step; exact RS].
           ++ rewrite CS. exact WR.
      * destruct (XE eq_refl) as [SIM1 [Q [P1 [RI RL]]]].
        apply loop_post_ret; try assumption.
        intros _ _ _. split; [exact SIM1|]. split; [exact Q|]. split; [auto|].
        split; [discriminate|]. intros _. auto.
      * contradiction.
      * apply loop_post_ret; try assumption. intros _ _ A. discriminate.
      * apply loop_post_ret; try assumption. intros _ _ A. discriminate.
      * apply loop_post_ret; try assumption. intros _ _ A. discriminate.
      * apply loop_post_ret; try assumption. intros A. contradiction.
      * apply loop_post_ret; try assumption. intros _ A. contradiction.
    + assert (PH : phase s = phaseHeaderDecoded) by (destruct SIM as [_ [PH _]]; exact PH).
      rewrite (dl_body f s out w (or_introl PH)).
      apply body_ok; try assumption. exact I.
    + assert (PH : phase s = phaseLitBlock) by (destruct SIM as [_ [PH _]]; exact PH).
      rewrite (dl_body f s out w (or_intror PH)).
      apply body_ok; try assumption. exact I.
    + assert (PH : phase s = phaseStreamEnd) by (destruct SIM as [_ [PH _]]; exact PH).
      rewrite (dl_end f s out w PH).
      apply loop_post_ret; try assumption; try reflexivity.
      * destruct SIM as [OV _]; exact OV.
      * intros _ _ _. split; [exact SIM|]. split; [lia|]. split; [auto|].
        split; [intros _; exact PH|]. rewrite PH. discriminate.
Qed.

End Decomp.

(* ---------------------------------------------------------------- the theorems *)
(* with the missing fact about readHeader as an explicit premise *)
Theorem decomp_refine_partial :
  readHeader_refine_body -> readHeader_need_body ->
  decodeHuffman_refine3_statement -> decodeLiteralBlock_refine_statement ->
  reach_inv_statement ->
  (forall s, snd (readHeader s) <> EOutputOverflow) ->
  decomp_body.
Proof.
  intros HRH HRN HDH HLB HRI HNO data fuel s out w c u FA R SIM WR WL.
  pose proof (loop_ok HRH HRN HDH HLB HRI HNO data u fuel s out w c R SIM WR WL) as X.
  unfold loop_post in X.
  destruct (decomp_loop fuel s out w) as [[[s' out'] w'] err].
  destruct (flush_ov s' out' w') as [[s2 out2] w2].
  destruct X as [c' [RS [WR' [W1 [W2 [OL [IN NF]]]]]]].
  assert (R' : reach data c') by (eapply rt_trans; [exact R | exact RS]).
  exists c'. split; [exact R'|]. split; [exact WR'|]. split; [exact W1|]. split; [exact W2|].
  split; [|split; [exact IN | exact NF]].
  destruct (rstar_rout _ _ RS) as [v E]. exists v. split; [exact E|].
  destruct (HRI data c R) as [_ [L1 _]]. destruct (HRI data c' R') as [_ [L2 _]].
  cbv zeta in L1, L2. rewrite E, app_length in L2. lia.
Qed.

(* the form asked for: the decodeHuffman premise as it is proved (refine3) *)
Theorem decomp_refine_final :
  readHeader_refine_body -> readHeader_need_body ->
  decodeHuffman_refine3_statement -> decodeLiteralBlock_refine_statement ->
  reach_inv_statement ->
  decomp_body.
Proof.
  intros HRH HRN HDH HLB HRI.
  exact (decomp_refine_partial HRH HRN HDH HLB HRI readHeader_no_overflow).
Qed.

(* the statement of EngineRefineSpecTop.v (its decodeHuffman premise, refine2, is stronger
   than refine3) *)
Theorem decomp_refine : decomp_refine_statement.
Proof.
  intros HRH HRN HDH2 HLB HRI.
  apply (decomp_refine_final HRH HRN); try assumption.
  intros s out w lt dt st e p A B C D E _ F G H.
  exact (HDH2 s out w lt dt st e p A B C D E F G H).
Qed.

Theorem decomperss_flush : decomperss_flush_statement.
Proof.
  intros f. unfold decomperss, flush_ov.
  destruct (decomp_loop big_fuel (state f) (hist f) (writePos f)) as [[[s h] idx] err].
  destruct (negb (writeOverflowLen (ov s) =? 0)); cbv beta iota zeta;
    match goal with |- context [if ?b then _ else _] => destruct b end; reflexivity.
Qed.

Print Assumptions decomp_refine_partial.
Print Assumptions decomp_refine_final.
Print Assumptions decomp_refine.
Print Assumptions decomperss_flush.
