(* EngineRefineDecomp.v -- T1: the multi-block loop decomp_loop (+ the overflow flush of
   decomperss) of RModel/Engine.v against the small-step presentation of the reference.

   NOTE (missing fact).  decomp_refine_statement is proved here from its five premises PLUS
   one more fact about readHeader:
       readHeader_no_overflow : forall s, snd (readHeader s) <> EOutputOverflow.
   readHeader_refine_body says nothing about the state when readHeader returns an error code
   other than ENone / EEndInput, but EOutputOverflow is "non fatal" (isError = false), so the
   statement asks for st_sim after it.  The fact is true (EOutputOverflow is produced only by
   the block decoders) and is proved by code analysis in EngineRefineDecompErr.v; the
   theorem with the fact as an explicit premise is decomp_refine_partial. *)
From Coq Require Import List NArith ZArith Bool Relations Lia ZifyBool ZifyNat ZifyN.
From Verif Require Import Bits Huffman HuffmanSpec Inflate InflateSpec InflateMono.
From Verif Require Import Base EngineTables Engine EngineRefineSpec EngineRefineSpecBlock
     EngineRefineSpecBlock2 EngineRefineSpecHdr EngineRefineSpecNeed EngineRefineSpecReach
     EngineRefineSpecBuf EngineRefineSpecTop EngineRefineBits.
From Verif Require Import EngineRefineReach.
Import ListNotations.
Open Scope N_scope.

Definition rstar : rcfg -> rcfg -> Prop := clos_refl_trans rcfg rstep.

(* ---------------------------------------------------------------- flush_ov *)
Lemma flush_ov_id s h i : ov s = ov0 -> flush_ov s h i = (s, h, i).
Proof.
  intros H. unfold flush_ov. rewrite H. cbn [ov0 writeOverflowLen N.eqb negb].
  rewrite H. reflexivity.
Qed.

Lemma flush_ov_same s h i s2 h2 i2 :
  flush_ov s h i = (s2, h2, i2) -> i2 = i -> s2 = s /\ h2 = h.
Proof.
  unfold flush_ov.
  destruct (writeOverflowLen (ov s) =? 0) eqn:E1; cbn [negb].
  - destruct (copyOverflowLength (ov s) =? 0) eqn:E2; cbn [negb]; intros X Hi;
      injection X as X1 X2 X3; subst.
    + split; reflexivity.
    + apply N.eqb_neq in E2. lia.
  - cbn [set_wov set_ov ov copyOverflowLength].
    destruct (copyOverflowLength (ov s) =? 0) eqn:E2; cbn [negb]; intros X Hi;
      injection X as X1 X2 X3; subst; apply N.eqb_neq in E1; lia.
Qed.

(* ---------------------------------------------------------------- small facts *)
Lemma mkbs_eta S : mkbs (bl S) (bp S) = S.
Proof. destruct S; reflexivity. Qed.

Lemma take1_bit s v r : take 1 s = Some (v, r) -> v = 0 \/ v = 1.
Proof.
  intros H. pose proof (take_lt 1 s) as L. rewrite H in L.
  change (2 ^ N.of_nat 1) with 2 in L. lia.
Qed.

Lemma lrd_rd s : headerBuffer s = [] -> headerBuffered s = 0 -> lrd s = rd s.
Proof.
  intros H1 H2. unfold lrd. rewrite H1, H2. cbn [app N.add].
  destruct (rd s); reflexivity.
Qed.

Lemma lbits_rd s : headerBuffer s = [] -> headerBuffered s = 0 -> lbits s = br_bits (rd s).
Proof. intros H1 H2. unfold lbits. rewrite lrd_rd by assumption. reflexivity. Qed.

Lemma qbytes_le a b :
  br_wf (rd a) -> br_wf (rd b) -> (0 <= r_len (rd a))%Z -> (0 <= r_len (rd b))%Z ->
  (length (br_bits (rd a)) <= length (br_bits (rd b)))%nat ->
  qbytes a <= qbytes b.
Proof.
  intros [Wa _] [Wb _] Ha Hb L. rewrite !br_bits_length in L.
  unfold qbytes. rewrite Wa, Wb.
  rewrite !Z.quot_div_nonneg by lia.
  pose proof (Z.div_mod (r_len (rd a)) 8 ltac:(lia)) as Da.
  pose proof (Z.mod_pos_bound (r_len (rd a)) 8 ltac:(lia)) as Ma.
  pose proof (Z.div_mod (r_len (rd b)) 8 ltac:(lia)) as Db.
  pose proof (Z.mod_pos_bound (r_len (rd b)) 8 ltac:(lia)) as Mb.
  lia.
Qed.

(* ---------------------------------------------------------------- runs of the reference *)
Lemma rstar_sfx c c' : rstar c c' -> sfx (cfg_bs c) (cfg_bs c').
Proof.
  intros H. induction H as [x y H | x | x y z H1 IH1 H2 IH2].
  - apply rstep_sfx; exact H.
  - apply sfx_refl.
  - eapply sfx_trans; eassumption.
Qed.

Lemma rstar_len c c' : rstar c c' -> (length (bl (cfg_bs c')) <= length (bl (cfg_bs c)))%nat.
Proof.
  intros H. destruct (rstar_sfx _ _ H) as [v [Hv _]]. rewrite Hv, app_length. lia.
Qed.

Lemma sync_upd_rout bf len st s : rout (sync_upd bf len st s) = rout st.
Proof. unfold sync_upd. destruct ((len =? 0) && (bf =? 0)); reflexivity. Qed.
Lemma sync_upd_olen bf len st s : olen (sync_upd bf len st s) = olen st.
Proof. unfold sync_upd. destruct ((len =? 0) && (bf =? 0)); reflexivity. Qed.
Lemma sync_upd_oavail bf len st s : oavail (sync_upd bf len st s) = oavail st.
Proof. unfold sync_upd. destruct ((len =? 0) && (bf =? 0)); reflexivity. Qed.

Lemma win_rel_sync out w bf len st s : win_rel out w st -> win_rel out w (sync_upd bf len st s).
Proof.
  unfold win_rel. rewrite sync_upd_rout, sync_upd_olen, sync_upd_oavail. intros H; exact H.
Qed.

Lemma rstep_rout c c' : rstep c c' -> exists v, rout (cfg_st c') = v ++ rout (cfg_st c).
Proof.
  intros H. destruct H as
    [st s bf s1 s2 lt dt E1 E2 EF
    |st s bf s1 s2 lt dt s3 E1 E2 ED
    |st s bf s1 s2 len s4 nlen s5 E1 E2 E3 E4 E5
    |bf lt dt st s st' s' ES
    |bf lt dt st s st' s' ES
    |bf len n st s b s1 Hn E8
    |bf len st s]; cbn [cfg_st]; try (exists []; reflexivity).
  - destruct (sym1_len' lt dt st s) as [[G _] _]. rewrite ES in G. exact G.
  - rewrite next_st. destruct (sym1_len' lt dt st s) as [[G _] _]. rewrite ES in G. exact G.
  - exists [b]. reflexivity.
  - rewrite next_st, sync_upd_rout. exists []. reflexivity.
Qed.

Lemma rstar_rout c c' : rstar c c' -> exists v, rout (cfg_st c') = v ++ rout (cfg_st c).
Proof.
  intros H. induction H as [x y H | x | x y z H1 IH1 H2 IH2].
  - apply rstep_rout; exact H.
  - exists []. reflexivity.
  - destruct IH1 as [v1 E1]. destruct IH2 as [v2 E2]. exists (v2 ++ v1).
    rewrite E2, E1, app_assoc. reflexivity.
Qed.

Lemma sym_run_rstar bf lt dt st s st' s' b :
  sym_run lt dt st s st' s' b ->
  rstar (CHuff bf lt dt st s) (if b then next_block bf st' s' else CHuff bf lt dt st' s').
Proof.
  intros H. induction H as [st s | st s st1 s1 st2 s2 b E H IH | st s st1 s1 E].
  - apply rt_refl.
  - eapply rt_trans; [apply rt_step, rs_sym; exact E | exact IH].
  - apply rt_step, rs_eob. exact E.
Qed.

Lemma stored_rstar bf len : forall k n st S st' S',
  N.of_nat k <= n -> stored k st S = (st', S', true) ->
  rstar (CStored bf len n st S) (CStored bf len (n - N.of_nat k) st' S') /\
  olen st' = olen st + N.of_nat k.
Proof.
  induction k as [|k IH]; intros n st S st' S' Hk E; cbn [stored] in E.
  - injection E as E1 E2; subst. replace (n - N.of_nat 0) with n by lia.
    split; [apply rt_refl | lia].
  - destruct (take 8 S) as [[b S1]|] eqn:E8; [|discriminate].
    apply (IH (n - 1)) in E; [|lia]. destruct E as [R L]. split.
    + eapply rt_trans; [apply rt_step, rs_byte; [lia | exact E8]|].
      replace (n - N.of_nat (S k)) with (n - 1 - N.of_nat k) by lia. exact R.
    + rewrite L. unfold push; cbn [olen]. lia.
Qed.
