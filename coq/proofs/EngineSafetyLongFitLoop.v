(* EngineSafetyLongFitLoop.v -- Part B of the proof of LongCodesFit (see EngineSafetyLongFitDefs.v):

     Theorem groups_bound : groups_statement.

   The loop elc_loop of encodeLongCodes never reports an index out of range if the 2^(len-12) of the
   long codes are dominated by a weight function B over the 4096 group keys whose sum is <= 1264
   (with the quirk of the key 4095 = low 12 bits of invalidCodeValue: every 2^(len-12) <= V and
   V <= B 4095 as soon as a long code has the key 4095).

   Proof: loop invariant Inv over (short, long, huff, lcl, pan) at iteration i:
     pan = false; huffinv (lengths unchanged, entries < 2^32); the code of every entry is the
     original one or invalidCodeValue; an entry at a position k < n is marked iff its ORIGINAL key
     is among the keys of the positions below i (procb); lcl <= sum over the keys processed so far
     of B.  No injectivity of codeList is needed. *)
From Verif Require Import Engine EngineTables.
From Verif Require Import Base EngineSafetyBase EngineSafetyBits EngineSafetyInv.
From Coq Require Import List NArith ZArith Bool Lia ZifyBool ZifyNat ZifyN.
From Verif Require Import EngineSafetyLongFitDefs.
From Verif Require Import EngineSafetyLitLen.
Import ListNotations.
Open Scope N_scope.

(* ---------------------------------------------------------------- sumN *)
Lemma sumN_le : forall n f h, (forall x, x < N.of_nat n -> f x <= h x) -> sumN n f <= sumN n h.
Proof.
  induction n as [|n IH]; intros f h H.
  - cbn [sumN]. lia.
  - cbn [sumN]. pose proof (IH f h ltac:(intros x Hx; apply H; lia)) as H1.
    pose proof (H (N.of_nat n) ltac:(lia)) as H2. lia.
Qed.

Lemma sumN_add1 : forall n (p : N -> bool) (B : N -> N) g, p g = false ->
  sumN n (fun x => if p x || (g =? x) then B x else 0) =
  sumN n (fun x => if p x then B x else 0) + (if g <? N.of_nat n then B g else 0).
Proof.
  induction n as [|n IH]; intros p B g Hp.
  - cbn [sumN]. destruct (g <? N.of_nat 0) eqn:E; [lia|reflexivity].
  - cbn [sumN]. rewrite (IH p B g Hp).
    destruct (N.eq_dec g (N.of_nat n)) as [Heq|Hne].
    + rewrite <- Heq. rewrite Hp, N.eqb_refl. cbn [orb].
      destruct (g <? g) eqn:E1; [lia|].
      destruct (g <? N.of_nat (S n)) eqn:E2; [lia|lia].
    + assert (E : (g =? N.of_nat n) = false) by lia. rewrite E, orb_false_r.
      destruct (g <? N.of_nat n) eqn:E1; destruct (g <? N.of_nat (S n)) eqn:E2; lia.
Qed.

(* ---------------------------------------------------------------- huffCode facts *)
Lemma hc_code_setcode_inv : forall v,
  hc_code (hc_setcode v invalidCodeValue) = invalidCodeValue.
Proof.
  intros v. unfold hc_code, hc_setcode, invalidCodeValue.
  rewrite N.land_lor_distr_l, <- N.land_assoc.
  change (N.land 4278190080 16777215) with 0.
  change (N.land (N.land 16777215 16777215) 16777215) with 16777215.
  rewrite N.land_0_r. apply N.lor_0_l.
Qed.

Lemma inv_key : N.land invalidCodeValue 4095 = 4095.
Proof. reflexivity. Qed.

Lemma In_frev : forall (A : Type) (x : A) l, In x (frev l) <-> In x l.
Proof.
  intros A x l. unfold frev. rewrite rev_append_rev, app_nil_r. symmetry. apply in_rev.
Qed.

(* ---------------------------------------------------------------- local copies
   (the versions of EngineSafetyLitLen.v live in Section Gen and carry its hypotheses) *)
Lemma lf_setcode_lt : forall v c, hc_setcode v c < 4294967296.
Proof.
  intros v c. unfold hc_setcode. change 4294967296 with (2 ^ 32). apply lor_lt_pow2.
  - pose proof (land_le_r v 4278190080) as H. change (2 ^ 32) with 4294967296. lia.
  - pose proof (land_le_r c 16777215) as H. change (2 ^ 32) with 4294967296. lia.
Qed.

Lemma lf_setcode_len : forall v c, v < 4294967296 -> hc_len (hc_setcode v c) = hc_len v.
Proof.
  intros v c Hv. unfold hc_len, hc_setcode. apply N.bits_inj. intro n.
  rewrite !N.shiftr_spec by lia. rewrite N.lor_spec, !N.land_spec.
  change 16777215 with (N.ones 24). rewrite N.ones_spec_high by lia.
  rewrite andb_false_r, orb_false_r.
  change 4278190080 with (N.shiftl (N.ones 8) 24).
  rewrite N.shiftl_spec_high by lia. replace (n + 24 - 24) with n by lia.
  destruct (N.lt_ge_cases n 8) as [Hlt|Hge].
  - rewrite N.ones_spec_low by exact Hlt. apply andb_true_r.
  - rewrite N.ones_spec_high by exact Hge. rewrite andb_false_r.
    symmetry. apply (testbit_small v 32); [exact Hv|lia].
Qed.

Lemma lf_huffinv_mark : forall d huff x,
  huffinv d huff -> huffinv d (aset huff x (hc_setcode (aget huff x) invalidCodeValue)).
Proof.
  intros d huff x Hh y. rewrite aget_aset. destruct (y =? x) eqn:E.
  - assert (Hyx : y = x) by lia. subst y. destruct (Hh x) as [H1 H2].
    split; [apply lf_setcode_lt|]. rewrite lf_setcode_len by exact H1. exact H2.
  - apply Hh.
Qed.

Lemma lf_long_fill_pan : forall fuel bound wrap base lim minInc entry long longBits pan long' pan',
  base + lim <= bound ->
  long_fill fuel bound wrap long base longBits lim minInc entry pan = (long', pan') ->
  pan' = pan.
Proof.
  induction fuel as [|f IH];
    intros bound wrap base lim minInc entry long longBits pan long' pan' Hb H.
  - cbn [long_fill] in H. apply pair_equal_spec in H. destruct H as [_ H]. symmetry. exact H.
  - cbn [long_fill] in H. destruct (longBits <? lim) eqn:E1.
    2:{ apply pair_equal_spec in H. destruct H as [_ H]. symmetry. exact H. }
    destruct (bound <=? base + longBits) eqn:E2; [lia|].
    apply IH in H; [exact H|exact Hb].
Qed.

Lemma lf_shl32_1 : forall k, k < 32 -> shl32 1 k = 2 ^ k.
Proof.
  intros k Hk. unfold shl32. destruct (32 <=? k) eqn:E; [lia|].
  rewrite N.shiftl_1_l. apply u32_small. change 4294967296 with (2 ^ 32).
  apply N.pow_lt_mono_r; lia.
Qed.

(* ---------------------------------------------------------------- names *)
(* index at the k-th position of the long codes *)
Definition tpos (d : dynHdr) (k : N) : N := aget (codeList d) (aget (litCount d) 13 + k).
(* original group key of index x *)
Definition fbE (d : dynHdr) (x : N) : N := N.land (hc_code (aget (litAndDistHuff d) x)) 4095.
(* number of long codes *)
Definition nlong (d : dynHdr) : N := aget (litCount d) 22 - aget (litCount d) 13.
(* g is the original key of a position below m *)
Fixpoint procb (d : dynHdr) (m : nat) (g : N) : bool :=
  match m with
  | O => false
  | S k => procb d k g || (fbE d (tpos d (N.of_nat k)) =? g)
  end.

Lemma procb_lt : forall d m k, k < N.of_nat m -> procb d m (fbE d (tpos d k)) = true.
Proof.
  intros d. induction m as [|m IH]; intros k Hk; [lia|].
  cbn [procb]. destruct (N.eq_dec k (N.of_nat m)) as [Heq|Hne].
  - rewrite <- Heq. rewrite N.eqb_refl. apply orb_true_r.
  - rewrite IH by lia. reflexivity.
Qed.

Lemma procb_succ : forall d i g,
  procb d (N.to_nat (i + 1)) g = procb d (N.to_nat i) g || (fbE d (tpos d i) =? g).
Proof.
  intros d i g. replace (N.to_nat (i + 1)) with (S (N.to_nat i)) by lia.
  cbn [procb]. rewrite N2Nat.id. reflexivity.
Qed.

(* ---------------------------------------------------------------- the scan *)
Lemma scan_spec : forall d huff F i m ml0 li,
  i + 1 <= m ->
  (fun (k : N) (r : N * list N) =>
     (forall x, In x (snd r) <->
        x = li \/ exists j, i < j < k /\ tpos d j = x /\
                            N.land (hc_code (aget huff (tpos d j))) 4095 = F) /\
     (fst r = ml0 \/
      exists j, i < j < k /\ N.land (hc_code (aget huff (tpos d j))) 4095 = F /\
                fst r = hc_len (aget huff (tpos d j))))
    m (forN (i + 1) m (elc_scan d huff F) (ml0, [li])).
Proof.
  intros d huff F i m ml0 li Hm.
  apply forN_ind; [exact Hm| |].
  - cbn [fst snd]. split; [|left; reflexivity].
    intros x. split.
    + intros [Hx|[]]. left. symmetry. exact Hx.
    + intros [Hx|(j & Hj & _)]; [left; symmetry; exact Hx|lia].
  - intros k [ml tl] Hk [Hin Hml]. cbn [fst snd] in Hin, Hml. unfold elc_scan.
    change (aget (codeList d) (aget (litCount d) 13 + k)) with (tpos d k).
    destruct (N.land (hc_code (aget huff (tpos d k))) 4095 =? F) eqn:E.
    + cbn [fst snd]. split.
      * intros x. split.
        -- intros [Hx|Hx].
           ++ right. exists k. split; [lia|]. split; [exact Hx|lia].
           ++ apply Hin in Hx. destruct Hx as [Hx|(j & Hj & Hx)]; [left; exact Hx|].
              right. exists j. split; [lia|exact Hx].
        -- intros [Hx|(j & Hj & Ht & Hf)].
           ++ right. apply Hin. left. exact Hx.
           ++ destruct (N.eq_dec j k) as [Hjk|Hjk].
              ** left. rewrite <- Hjk. exact Ht.
              ** right. apply Hin. right. exists j. split; [lia|]. split; [exact Ht|exact Hf].
      * right. exists k. split; [lia|]. split; [lia|reflexivity].
    + cbn [fst snd]. split.
      * intros x. split.
        -- intros Hx. apply Hin in Hx. destruct Hx as [Hx|(j & Hj & Hx)]; [left; exact Hx|].
           right. exists j. split; [lia|exact Hx].
        -- intros [Hx|(j & Hj & Ht & Hf)].
           ++ apply Hin. left. exact Hx.
           ++ destruct (N.eq_dec j k) as [Hjk|Hjk].
              ** exfalso. rewrite Hjk in Hf. lia.
              ** apply Hin. right. exists j. split; [lia|]. split; [exact Ht|exact Hf].
      * destruct Hml as [Hml|(j & Hj & Hf & Hml)]; [left; exact Hml|].
        right. exists j. split; [lia|]. split; [exact Hf|exact Hml].
Qed.

(* ---------------------------------------------------------------- the fold (any fuel) *)
Lemma fold_spec : forall d fuel lcl grp temp long huff pan long' huff' pan',
  lcl + grp <= 1264 ->
  fold_left (elc_fold fuel lcl grp) temp (long, huff, pan) = (long', huff', pan') ->
  pan' = pan /\
  (huffinv d huff -> huffinv d huff') /\
  (forall x, hc_code (aget huff' x) = hc_code (aget huff x) \/
             hc_code (aget huff' x) = invalidCodeValue) /\
  (forall x, In x temp -> hc_code (aget huff' x) = invalidCodeValue) /\
  (forall x, ~ In x temp -> aget huff' x = aget huff x).
Proof.
  intros d fuel lcl grp temp. induction temp as [|y r IH];
    intros long huff pan long' huff' pan' Hg H.
  - cbn [fold_left] in H. apply pair_equal_spec in H. destruct H as [H H3].
    apply pair_equal_spec in H. destruct H as [H1 H2]. subst huff' pan'.
    split; [reflexivity|]. split; [auto|]. split; [intros x; left; reflexivity|].
    split; [intros x []|]. intros x _. reflexivity.
  - cbn [fold_left] in H. unfold elc_fold at 2 in H.
    match type of H with context [long_fill ?a ?b ?c ?dd ?e ?f ?g ?hh ?i ?j] =>
      destruct (long_fill a b c dd e f g hh i j) as [long1 pan1] eqn:EL end.
    apply IH in H; [|exact Hg].
    destruct H as (H1 & H2 & H3 & H4 & H5).
    pose proof (lf_long_fill_pan _ _ _ _ _ _ _ _ _ _ _ _ Hg EL) as Hp.
    split; [congruence|].
    split; [intro Hh; apply H2; apply lf_huffinv_mark; exact Hh|].
    assert (Hy : hc_code (aget huff' y) = invalidCodeValue).
    { destruct (H3 y) as [Hc|Hc]; [|exact Hc]. rewrite Hc, aget_aset_same.
      apply hc_code_setcode_inv. }
    split; [|split].
    + intros x. destruct (N.eq_dec x y) as [Hxy|Hxy].
      * right. rewrite Hxy. exact Hy.
      * destruct (H3 x) as [Hc|Hc]; [left|right; exact Hc].
        rewrite Hc, aget_aset_other by exact Hxy. reflexivity.
    + intros x [Hx|Hx]; [rewrite <- Hx; exact Hy|apply H4; exact Hx].
    + intros x Hx. rewrite H5 by (intro Hc; apply Hx; right; exact Hc).
      apply aget_aset_other. intro Hc. apply Hx. left. symmetry. exact Hc.
Qed.

(* ---------------------------------------------------------------- the loop invariant *)
Section Loop.
Variable d : dynHdr.
Variable B : N -> N.
Variable V : N.
Hypothesis HS : litlen_sorted d.
Hypothesis HB : forall k, k < nlong d ->
  hc_code (aget (litAndDistHuff d) (tpos d k)) < 1048576 /\
  2 ^ (hc_len (aget (litAndDistHuff d) (tpos d k)) - 12) <= B (fbE d (tpos d k)) /\
  2 ^ (hc_len (aget (litAndDistHuff d) (tpos d k)) - 12) <= V /\
  (fbE d (tpos d k) = 4095 -> V <= B 4095).
(* the number of keys is abstract in the section: the unary numeral 4096%nat in the context makes
   every tactic slow *)
Variable KN : nat.
Hypothesis HKN : N.of_nat KN = 4096.
Hypothesis HSum : sumN KN B <= 1264.

Definition psum (i : N) : N := sumN KN (fun g => if procb d (N.to_nat i) g then B g else 0).

Definition Inv (i : N) (st : arr * arr * arr * N * bool) : Prop :=
  let '(_, _, huff, lcl, pan) := st in
  pan = false /\ huffinv d huff /\
  (forall x, hc_code (aget huff x) = hc_code (aget (litAndDistHuff d) x) \/
             hc_code (aget huff x) = invalidCodeValue) /\
  (forall k, k < nlong d ->
     (hc_code (aget huff (tpos d k)) = invalidCodeValue <->
      procb d (N.to_nat i) (fbE d (tpos d k)) = true)) /\
  lcl <= psum i.

Lemma lc13_22 : aget (litCount d) 13 <= aget (litCount d) 22.
Proof. apply (lc_mono d HS); lia. Qed.

Lemma pos_ok : forall k, k < nlong d ->
  tpos d k < 514 /\ 13 <= hc_len (aget (litAndDistHuff d) (tpos d k)) <= 21.
Proof.
  intros k Hk. unfold nlong in Hk. pose proof lc13_22 as H1.
  destruct (bucket_ex d HS 13 22 (aget (litCount d) 13 + k) ltac:(lia) ltac:(lia) ltac:(lia))
    as (L & HL & _ & Hc & Hlen).
  unfold tpos. split; [exact Hc|]. rewrite Hlen. lia.
Qed.

Lemma psum_le : forall i, psum i <= 1264.
Proof.
  intros i. unfold psum. apply N.le_trans with (sumN KN B); [|exact HSum].
  apply sumN_le. intros x _. destruct (procb d (N.to_nat i) x); lia.
Qed.

Lemma psum_mono : forall i, psum i <= psum (i + 1).
Proof.
  intros i. unfold psum. apply sumN_le. intros x _. rewrite procb_succ.
  destruct (procb d (N.to_nat i) x); cbn [orb]; [lia|].
  destruct (fbE d (tpos d i) =? x); lia.
Qed.

Lemma psum_new : forall i, procb d (N.to_nat i) (fbE d (tpos d i)) = false ->
  psum (i + 1) = psum i + B (fbE d (tpos d i)).
Proof.
  intros i Hn. unfold psum.
  assert (Hg : fbE d (tpos d i) < 4096).
  { unfold fbE. pose proof (land_le_r (hc_code (aget (litAndDistHuff d) (tpos d i))) 4095). lia. }
  pose proof (sumN_add1 KN (procb d (N.to_nat i)) B (fbE d (tpos d i)) Hn) as H.
  rewrite HKN in H.
  destruct (fbE d (tpos d i) <? 4096) eqn:E; [|lia].
  rewrite <- H. clear H.
  assert (L1 : forall n f h, (forall x, f x = h x) -> sumN n f = sumN n h).
  { induction n as [|n IH]; intros f h Hfh; [reflexivity|].
    cbn [sumN]. rewrite (IH f h Hfh), Hfh. reflexivity. }
  apply L1. intros x. rewrite procb_succ. reflexivity.
Qed.

Lemma inv_ne : forall k, k < nlong d ->
  hc_code (aget (litAndDistHuff d) (tpos d k)) <> invalidCodeValue.
Proof.
  intros k Hk. destruct (HB k Hk) as [H _]. unfold invalidCodeValue. lia.
Qed.

(* the weight of the entry at position j, as currently seen, is below B g when its current key is g
   = the original key of position i, position i being unmarked *)
Lemma grp_le : forall huff i j,
  i < nlong d -> j < nlong d ->
  huffinv d huff ->
  (forall x, hc_code (aget huff x) = hc_code (aget (litAndDistHuff d) x) \/
             hc_code (aget huff x) = invalidCodeValue) ->
  N.land (hc_code (aget huff (tpos d j))) 4095 = fbE d (tpos d i) ->
  2 ^ (hc_len (aget huff (tpos d j)) - 12) <= B (fbE d (tpos d i)).
Proof.
  intros huff i j Hi Hj Hh Hc Hk.
  destruct (Hh (tpos d j)) as [_ Hlen]. rewrite Hlen.
  destruct (HB j Hj) as (_ & B1 & B2 & _).
  destruct (Hc (tpos d j)) as [Hcj|Hcj].
  - rewrite Hcj in Hk. change (N.land (hc_code (aget (litAndDistHuff d) (tpos d j))) 4095)
      with (fbE d (tpos d j)) in Hk. rewrite <- Hk. exact B1.
  - rewrite Hcj, inv_key in Hk. destruct (HB i Hi) as (_ & _ & _ & B4).
    rewrite <- Hk in *. specialize (B4 eq_refl). lia.
Qed.

Lemma step_inv : forall i st, i < nlong d -> Inv i st -> Inv (i + 1) (elc_step d (nlong d) i st).
Proof.
  intros i [[[[short long] huff] lcl] pan] Hi (Hp & Hh & Hc & Hm & Hl). subst pan.
  pose proof lc13_22 as H1322. pose proof (lc_le_514 d HS 22 ltac:(lia)) as H22.
  pose proof (psum_le (i + 1)) as Hsum1. pose proof (psum_mono i) as Hmono.
  unfold elc_step. cbv beta iota.
  destruct (516 <=? aget (litCount d) 13 + i) eqn:E1; [unfold nlong in Hi; exfalso; lia|].
  cbv zeta.
  change (aget (codeList d) (aget (litCount d) 13 + i)) with (tpos d i).
  destruct (Hh (tpos d i)) as [_ Hleni].
  destruct (pos_ok i Hi) as [_ Hli].
  destruct (hc_code (aget huff (tpos d i)) =? invalidCodeValue) eqn:E2.
  { (* skipped *)
    assert (Hmk : procb d (N.to_nat i) (fbE d (tpos d i)) = true) by (apply (Hm i Hi); lia).
    unfold Inv. split; [reflexivity|]. split; [exact Hh|]. split; [exact Hc|].
    split; [|lia].
    intros k Hk. rewrite procb_succ. rewrite (Hm k Hk).
    destruct (procb d (N.to_nat i) (fbE d (tpos d k))) eqn:Ek; cbn [orb].
    - split; auto.
    - destruct (fbE d (tpos d i) =? fbE d (tpos d k)) eqn:Eg.
      + assert (Hg : fbE d (tpos d i) = fbE d (tpos d k)) by lia. congruence.
      + split; auto. }
  assert (Hnm : hc_code (aget huff (tpos d i)) <> invalidCodeValue) by lia. clear E2.
  assert (Hci : hc_code (aget huff (tpos d i)) = hc_code (aget (litAndDistHuff d) (tpos d i))).
  { destruct (Hc (tpos d i)) as [H|H]; [exact H|contradiction]. }
  rewrite Hci.
  change (N.land (hc_code (aget (litAndDistHuff d) (tpos d i))) 4095) with (fbE d (tpos d i)).
  assert (Hnew : procb d (N.to_nat i) (fbE d (tpos d i)) = false).
  { destruct (procb d (N.to_nat i) (fbE d (tpos d i))) eqn:E; [|reflexivity].
    exfalso. apply Hnm. apply (Hm i Hi). exact E. }
  pose proof (psum_new i Hnew) as Hps.
  pose proof (scan_spec d huff (fbE d (tpos d i)) i (nlong d)
                (hc_len (aget huff (tpos d i))) (tpos d i) ltac:(lia)) as SS.
  cbv beta in SS.
  destruct (forN (i + 1) (nlong d) (elc_scan d huff (fbE d (tpos d i)))
                 (hc_len (aget huff (tpos d i)), [tpos d i])) as [maxLen tempRev] eqn:ES.
  cbn [fst snd] in SS. destruct SS as [SIn SMl].
  assert (Hml : 13 <= maxLen <= 21 /\ 2 ^ (maxLen - 12) <= B (fbE d (tpos d i))).
  { destruct SMl as [Hml|(j & Hj & Hf & Hml)].
    - rewrite Hml, Hleni. split; [exact Hli|]. destruct (HB i Hi) as (_ & B1 & _). exact B1.
    - rewrite Hml. split.
      + destruct (Hh (tpos d j)) as [_ Hlenj]. rewrite Hlenj.
        destruct (pos_ok j ltac:(lia)) as [_ Hlj]. exact Hlj.
      + apply grp_le; [exact Hi|lia|exact Hh|exact Hc|exact Hf]. }
  destruct Hml as [Hml Hgrp].
  rewrite lf_shl32_1 by lia.
  destruct (1264 <? lcl + 2 ^ (maxLen - 12)) eqn:E3; [exfalso; lia|].
  match goal with |- context [fold_left ?f ?l ?a] =>
    destruct (fold_left f l a) as [[long2 huff2] pan2] eqn:EF end.
  apply (fold_spec d) in EF; [|lia].
  destruct EF as (F1 & F2 & F3 & F4 & F5).
  unfold Inv. split; [exact F1|]. split; [apply F2; exact Hh|].
  split.
  { intros x. destruct (F3 x) as [H|H]; [|right; exact H]. rewrite H. apply Hc. }
  split.
  2:{ rewrite u32_small by lia. lia. }
  intros k Hk. rewrite procb_succ. split.
  - intros Hmk.
    destruct (procb d (N.to_nat i) (fbE d (tpos d k))) eqn:Ek; cbn [orb]; [reflexivity|].
    assert (Hnk : hc_code (aget huff (tpos d k)) <> invalidCodeValue).
    { intro Hx. apply (Hm k Hk) in Hx. congruence. }
    assert (Hin : In (tpos d k) (frev tempRev)).
    { destruct (in_dec N.eq_dec (tpos d k) (frev tempRev)) as [Hin|Hnin]; [exact Hin|].
      exfalso. apply Hnk. rewrite <- (F5 _ Hnin). exact Hmk. }
    apply (proj1 (In_frev _ _ _)) in Hin. apply (proj1 (SIn _)) in Hin.
    destruct Hin as [Hin|(j & Hj & Ht & Hf)].
    + rewrite Hin. apply N.eqb_refl.
    + rewrite Ht in Hf. destruct (Hc (tpos d k)) as [Hck|Hck]; [|contradiction].
      rewrite Hck in Hf.
      change (N.land (hc_code (aget (litAndDistHuff d) (tpos d k))) 4095)
        with (fbE d (tpos d k)) in Hf. rewrite Hf. apply N.eqb_refl.
  - intros Hor.
    destruct (N.eq_dec (hc_code (aget huff (tpos d k))) invalidCodeValue) as [Hmk|Hnk].
    { destruct (F3 (tpos d k)) as [H|H]; [rewrite H; exact Hmk|exact H]. }
    assert (Ek : procb d (N.to_nat i) (fbE d (tpos d k)) = false).
    { destruct (procb d (N.to_nat i) (fbE d (tpos d k))) eqn:E; [|reflexivity].
      exfalso. apply Hnk. apply (Hm k Hk). exact E. }
    rewrite Ek in Hor. cbn [orb] in Hor.
    assert (Hg : fbE d (tpos d i) = fbE d (tpos d k)) by lia. clear Hor.
    destruct (Hc (tpos d k)) as [Hck|Hck]; [|contradiction].
    apply F4. apply (proj2 (In_frev _ _ _)). apply (proj2 (SIn _)).
    destruct (N.lt_trichotomy k i) as [Hlt|[Heq|Hgt]].
    + exfalso. pose proof (procb_lt d (N.to_nat i) k ltac:(lia)) as Hp. congruence.
    + left. rewrite Heq. reflexivity.
    + right. exists k. split; [lia|]. split; [reflexivity|]. rewrite Hck. symmetry. exact Hg.
Qed.

Lemma loop_fit : long_groups_fit d.
Proof.
  intros short long.
  destruct (elc_loop short long d (aget (litCount d) 22)) as [[[[s1 l1] h1] c1] p1] eqn:E.
  rewrite elc_loop_step_eq in E.
  rewrite sub32_le in E by exact lc13_22.
  change (aget (litCount d) 22 - aget (litCount d) 13) with (nlong d) in E.
  assert (G : Inv (nlong d)
                (forN 0 (nlong d) (elc_step d (nlong d)) (short, long, litAndDistHuff d, 0, false))).
  { apply (forN_ind _ Inv); [lia| |].
    - unfold Inv. split; [reflexivity|]. split; [apply huffinv_init; exact HS|].
      split; [intros x; left; reflexivity|]. split; [|lia].
      intros k Hk. change (N.to_nat 0) with O. cbn [procb]. split.
      + intro H. exfalso. exact (inv_ne k Hk H).
      + intro H. discriminate H.
    - intros j x Hj Hx. apply step_inv; [lia|exact Hx]. }
  rewrite E in G. unfold Inv in G. destruct G as [G _]. exact G.
Qed.

End Loop.

Theorem groups_bound : groups_statement.
Proof.
  unfold groups_statement. intros d B V HS HB HSum.
  apply (loop_fit d B V HS) with (KN := 4096%nat); [|reflexivity|exact HSum].
  intros k Hk. exact (HB k Hk).
Qed.

Print Assumptions groups_bound.
