(* EngineRefineSmallSort.v -- gen_small, first part: the start offsets ct and the counting
   sort of the used symbols by code length. *)
From Coq Require Import List NArith ZArith Bool Lia ZifyBool ZifyNat ZifyN.
From Verif Require Import Bits Huffman Inflate HuffmanProofs.
From Verif Require Import Base EngineTables Engine EngineRefineSpec.
From Verif Require Import EngineRefineSmallBase EngineRefineSmallCodes.
Import ListNotations.
Open Scope N_scope.

(* number of i < k with a non-zero length < x *)
Fixpoint cnt_lt (codes : arr) (x : N) (k : nat) : N :=
  match k with
  | O => 0
  | S k' => cnt_lt codes x k' +
            (if negb (cL codes (N.of_nat k') =? 0) && (cL codes (N.of_nat k') <? x) then 1 else 0)
  end.

Definition ctv (codes : arr) (n : N) (x : N) : N := cnt_lt codes x (N.to_nat n).

Lemma cnt_lt_1 : forall codes k, cnt_lt codes 1 k = 0.
Proof.
  intros codes k. induction k as [|k IH]; [reflexivity|].
  cbn [cnt_lt]. rewrite IH.
  destruct (N.eqb_spec (cL codes (N.of_nat k)) 0); cbn [negb andb]; [reflexivity|].
  destruct (N.ltb_spec (cL codes (N.of_nat k)) 1); [lia|reflexivity].
Qed.

Lemma cnt_lt_S : forall codes x k, 1 <= x ->
  cnt_lt codes (x + 1) k = cnt_lt codes x k + cnt_upto codes x k.
Proof.
  intros codes x k Hx. induction k as [|k IH]; [reflexivity|].
  cbn [cnt_lt cnt_upto]. rewrite IH.
  destruct (N.eqb_spec (cL codes (N.of_nat k)) 0) as [E0|E0]; cbn [negb andb].
  - destruct (N.eqb_spec (cL codes (N.of_nat k)) x); lia.
  - destruct (N.ltb_spec (cL codes (N.of_nat k)) (x + 1));
      destruct (N.ltb_spec (cL codes (N.of_nat k)) x);
      destruct (N.eqb_spec (cL codes (N.of_nat k)) x); lia.
Qed.

Lemma cnt_lt_le : forall codes x k, cnt_lt codes x k <= N.of_nat k.
Proof.
  intros codes x k. induction k as [|k IH]; [cbn; lia|].
  cbn [cnt_lt].
  destruct (negb (cL codes (N.of_nat k) =? 0) && (cL codes (N.of_nat k) <? x)); lia.
Qed.

Lemma cnt_upto_mono : forall codes x k1 k2, (k1 <= k2)%nat -> cnt_upto codes x k1 <= cnt_upto codes x k2.
Proof.
  intros codes x k1 k2 H. induction H as [|k2 H IH]; [lia|]. cbn [cnt_upto]. lia.
Qed.

Lemma cnt_upto_succ : forall codes x j,
  cnt_upto codes x (N.to_nat (j + 1)) = cnt_upto codes x (N.to_nat j) + (if cL codes j =? x then 1 else 0).
Proof.
  intros codes x j. replace (N.to_nat (j + 1)) with (S (N.to_nat j)) by lia.
  cbn [cnt_upto]. rewrite N2Nat.id. reflexivity.
Qed.

Lemma ctv_1 : forall codes n, ctv codes n 1 = 0.
Proof. intros. apply cnt_lt_1. Qed.

Lemma ctv_step : forall codes n x, 1 <= x ->
  ctv codes n (x + 1) = ctv codes n x + cnt_upto codes x (N.to_nat n).
Proof. intros. apply cnt_lt_S. assumption. Qed.

Lemma ctv_mono1 : forall codes n x, 1 <= x -> ctv codes n x <= ctv codes n (x + 1).
Proof. intros codes n x Hx. rewrite ctv_step by exact Hx. lia. Qed.

Lemma ctv_mono : forall codes n x y, 1 <= x -> x <= y -> ctv codes n x <= ctv codes n y.
Proof.
  intros codes n x y Hx Hxy.
  replace y with (x + N.of_nat (N.to_nat (y - x))) by lia.
  generalize (N.to_nat (y - x)) as d. induction d as [|d IH].
  - replace (x + N.of_nat 0) with x by lia. lia.
  - replace (x + N.of_nat (S d)) with ((x + N.of_nat d) + 1) by lia.
    pose proof (ctv_mono1 codes n (x + N.of_nat d) ltac:(lia)). lia.
Qed.

Lemma ctv_le_n : forall codes n x, ctv codes n x <= n.
Proof. intros codes n x. unfold ctv. pose proof (cnt_lt_le codes x (N.to_nat n)). lia. Qed.

(* every position below ct[16] lies in the segment of exactly one length *)
Lemma ctv_segment : forall codes n k, k < ctv codes n 16 ->
  exists x, 1 <= x <= 15 /\ ctv codes n x <= k < ctv codes n (x + 1).
Proof.
  intros codes n k.
  assert (H : forall m : nat, (m <= 15)%nat -> k < ctv codes n (1 + N.of_nat m) ->
            exists x, 1 <= x <= 15 /\ ctv codes n x <= k < ctv codes n (x + 1)).
  { induction m as [|m IH]; intros Hm Hk.
    - change (1 + N.of_nat 0) with 1 in Hk. rewrite ctv_1 in Hk. lia.
    - destruct (N.lt_ge_cases k (ctv codes n (1 + N.of_nat m))) as [Hlt|Hge].
      + apply IH; [lia|exact Hlt].
      + exists (1 + N.of_nat m). split; [lia|].
        replace (1 + N.of_nat m + 1) with (1 + N.of_nat (S m)) by lia. lia. }
  intros Hk. apply (H 15%nat); [lia|exact Hk].
Qed.

(* ---------------------------------------------------------------- ct *)
Lemma gs_ct_spec : forall codes n count, codes_ok codes n count ->
  forall k, 1 <= k <= 16 -> aget (gs_ct count) k = ctv codes n k.
Proof.
  intros codes n count OK. unfold gs_ct.
  assert (H : forall k, 1 <= k < 17 ->
     aget (forN 2 17 (fun i c => aset c i (u32 (aget c (i - 1) + aget count (i - 1)))) aempty) k
     = ctv codes n k).
  { apply (forN_ind arr (fun j c => forall k, 1 <= k < j -> aget c k = ctv codes n k)); [lia| |].
    - intros k Hk. assert (k = 1) by lia. subst k. rewrite aget_empty, ctv_1. reflexivity.
    - intros j c Hj IH k Hk. rewrite aget_aset.
      destruct (N.eqb_spec k j) as [->|Hne]; [|apply IH; lia].
      rewrite (IH (j - 1)) by lia. rewrite (ck_count _ _ _ OK (j - 1)) by lia.
      rewrite <- ctv_step by lia. replace (j - 1 + 1) with j by lia.
      apply u32_small. pose proof (ctv_le_n codes n j). pose proof (ck_n _ _ _ OK). lia. }
  intros k Hk. apply H. lia.
Qed.

(* ---------------------------------------------------------------- the counting sort *)
Record sort_ok (codes : arr) (n : N) (cl : arr) : Prop := {
  so_in : forall k, k < ctv codes n 16 ->
          aget cl k < n /\ cL codes (aget cl k) <> 0 /\
          ctv codes n (cL codes (aget cl k)) <= k < ctv codes n (cL codes (aget cl k) + 1);
  so_surj : forall i, i < n -> cL codes i <> 0 -> exists k, k < ctv codes n 16 /\ aget cl k = i;
  so_inj : forall k1 k2, k1 < ctv codes n 16 -> k2 < ctv codes n 16 ->
           aget cl k1 = aget cl k2 -> k1 = k2
}.

Lemma gs_sort_spec : forall codes n count ct, codes_ok codes n count ->
  (forall k, 1 <= k <= 16 -> aget ct k = ctv codes n k) ->
  exists cl ctt, gs_sort codes n ct = (cl, ctt, false) /\ sort_ok codes n cl.
Proof.
  intros codes n count ct OK Hct. unfold gs_sort.
  pose proof (ck_n _ _ _ OK) as Hn.
  match goal with |- exists cl ctt, forN 0 n ?f ?s = _ /\ _ =>
    pose proof (forN_ind _ (fun j (st : arr * arr * bool) =>
      let '(cl, ctt, pan) := st in
      pan = false /\
      (forall x, 1 <= x <= 15 -> aget ctt x = ctv codes n x + cnt_upto codes x (N.to_nat j)) /\
      (forall x k, 1 <= x <= 15 -> ctv codes n x <= k < aget ctt x ->
         aget cl k < j /\ cL codes (aget cl k) = x) /\
      (forall i, i < j -> cL codes i <> 0 ->
         exists k, ctv codes n (cL codes i) <= k < aget ctt (cL codes i) /\ aget cl k = i) /\
      (forall x x' k k', 1 <= x <= 15 -> 1 <= x' <= 15 ->
         ctv codes n x <= k < aget ctt x -> ctv codes n x' <= k' < aget ctt x' ->
         aget cl k = aget cl k' -> k = k')) f 0 n s) as HI;
    destruct (forN 0 n f s) as [[cl ctt] pan]
  end.
  assert (Hbound : forall j x, j <= n -> 1 <= x <= 15 ->
            ctv codes n x + cnt_upto codes x (N.to_nat j) <= ctv codes n (x + 1)).
  { intros j x Hj Hx. rewrite ctv_step by lia.
    pose proof (cnt_upto_mono codes x (N.to_nat j) (N.to_nat n) ltac:(lia)). lia. }
  destruct HI as (I1 & I2 & I3 & I4 & I5).
  - lia.
  - split; [reflexivity|]. split; [|split; [|split]].
    + intros x Hx. change (N.to_nat 0) with 0%nat. cbn [cnt_upto]. rewrite Hct by lia. lia.
    + intros x k Hx Hk. rewrite Hct in Hk by lia. lia.
    + intros i Hi. lia.
    + intros x x' k k' Hx Hx' Hk. rewrite Hct in Hk by lia. lia.
  - intros j [[cl1 ctt1] pan1] Hj (J1 & J2 & J3 & J4 & J5).
    fold (cL codes j).
    destruct (N.eqb_spec (cL codes j) 0) as [E0|E0].
    + split; [exact J1|]. split; [|split; [|split]].
      * intros x Hx. rewrite cnt_upto_succ, (J2 x Hx).
        destruct (N.eqb_spec (cL codes j) x); lia.
      * intros x k Hx Hk. destruct (J3 x k Hx Hk) as [A B]. split; [lia|exact B].
      * intros i Hi Li. destruct (N.eq_dec i j) as [->|Hne]; [contradiction|].
        apply J4; [lia|exact Li].
      * exact J5.
    + set (len := cL codes j) in *.
      assert (Hlen : 1 <= len <= 15) by (pose proof (ck_len _ _ _ OK j ltac:(lia)); fold len in H; lia).
      pose proof (J2 len Hlen) as Hins.
      pose proof (Hbound (j + 1) len ltac:(lia) Hlen) as Hb1.
      rewrite cnt_upto_succ in Hb1. fold len in Hb1. rewrite N.eqb_refl in Hb1.
      pose proof (ctv_le_n codes n (len + 1)) as Hb2.
      destruct (N.leb_spec 32 (aget ctt1 len)) as [E32|E32]; [lia|].
      assert (Hsep : forall x k, 1 <= x <= 15 -> x <> len -> ctv codes n x <= k < aget ctt1 x ->
                k <> aget ctt1 len).
      { intros x k Hx Hne Hk.
        pose proof (Hbound j x ltac:(lia) Hx) as Hb3. rewrite <- (J2 x Hx) in Hb3.
        destruct (N.lt_ge_cases x len) as [Hlt|Hge].
        - pose proof (ctv_mono codes n (x + 1) len ltac:(lia) ltac:(lia)). lia.
        - pose proof (ctv_mono codes n (len + 1) x ltac:(lia) ltac:(lia)). lia. }
      split; [exact J1|]. split; [|split; [|split]].
      * intros x Hx. rewrite cnt_upto_succ. fold len. rewrite aget_aset.
        destruct (N.eqb_spec x len) as [->|Hne].
        -- rewrite N.eqb_refl. lia.
        -- rewrite (J2 x Hx). destruct (N.eqb_spec len x); lia.
      * intros x k Hx Hk. rewrite aget_aset in Hk.
        destruct (N.eqb_spec x len) as [->|Hne].
        -- rewrite aget_aset. destruct (N.eqb_spec k (aget ctt1 len)) as [->|Hk2].
           ++ split; [lia|reflexivity].
           ++ destruct (J3 len k Hx ltac:(lia)) as [A B]. split; [lia|exact B].
        -- rewrite aget_aset_other by (apply (Hsep x k Hx Hne Hk)).
           destruct (J3 x k Hx Hk) as [A B]. split; [lia|exact B].
      * intros i Hi Li. destruct (N.eq_dec i j) as [->|Hne].
        -- exists (aget ctt1 len). fold len. rewrite !aget_aset_same. split; [lia|reflexivity].
        -- destruct (J4 i ltac:(lia) Li) as (k & Hk & Ek).
           exists k. pose proof (ck_len _ _ _ OK i ltac:(lia)) as Hli.
           rewrite (aget_aset ctt1). destruct (N.eqb_spec (cL codes i) len) as [He|Hne2].
           ++ rewrite aget_aset_other by (rewrite He in Hk; lia). split; [rewrite He in Hk |- *; lia|exact Ek].
           ++ rewrite aget_aset_other by (apply (Hsep (cL codes i) k); [lia|exact Hne2|exact Hk]).
              split; [exact Hk|exact Ek].
      * assert (Hnew : forall x k, 1 <= x <= 15 ->
                  ctv codes n x <= k < aget (aset ctt1 len (aget ctt1 len + 1)) x ->
                  (k = aget ctt1 len /\ x = len /\ aget (aset cl1 (aget ctt1 len) j) k = j) \/
                  (k <> aget ctt1 len /\ ctv codes n x <= k < aget ctt1 x /\
                   aget (aset cl1 (aget ctt1 len) j) k = aget cl1 k /\ aget cl1 k < j)).
        { intros x k Hx Hk. rewrite aget_aset in Hk.
          destruct (N.eqb_spec x len) as [->|Hne].
          - destruct (N.eq_dec k (aget ctt1 len)) as [->|Hk2].
            + left. rewrite aget_aset_same. auto.
            + right. rewrite aget_aset_other by exact Hk2.
              destruct (J3 len k Hx ltac:(lia)) as [A B]. repeat split; try lia.
          - right. pose proof (Hsep x k Hx Hne Hk) as Hk2.
            rewrite aget_aset_other by exact Hk2.
            destruct (J3 x k Hx Hk) as [A B]. repeat split; try lia. }
        intros x x' k k' Hx Hx' Hk Hk' HE.
        destruct (Hnew x k Hx Hk) as [(A1 & A2 & A3)|(A1 & A2 & A3 & A4)];
          destruct (Hnew x' k' Hx' Hk') as [(B1 & B2 & B3)|(B1 & B2 & B3 & B4)].
        -- lia.
        -- rewrite A3, B3 in HE. lia.
        -- rewrite A3, B3 in HE. lia.
        -- rewrite A3, B3 in HE. apply (J5 x x' k k' Hx Hx' A2 B2 HE).
  - exists cl, ctt. subst pan. split; [reflexivity|].
    assert (Hctt : forall x, 1 <= x <= 15 -> aget ctt x = ctv codes n (x + 1)).
    { intros x Hx. rewrite (I2 x Hx), ctv_step by lia. reflexivity. }
    constructor.
    + intros k Hk. destruct (ctv_segment codes n k Hk) as (x & Hx & Hkx).
      destruct (I3 x k Hx ltac:(rewrite Hctt by lia; lia)) as [A B].
      rewrite B. split; [exact A|]. split; [lia|exact Hkx].
    + intros i Hi Li. destruct (I4 i Hi Li) as (k & Hk & Ek).
      pose proof (ck_len _ _ _ OK i Hi) as Hli.
      exists k. split; [|exact Ek]. rewrite Hctt in Hk by lia.
      pose proof (ctv_mono codes n (cL codes i + 1) 16 ltac:(lia) ltac:(lia)). lia.
    + intros k1 k2 Hk1 Hk2 HE.
      destruct (ctv_segment codes n k1 Hk1) as (x1 & Hx1 & Hkx1).
      destruct (ctv_segment codes n k2 Hk2) as (x2 & Hx2 & Hkx2).
      apply (I5 x1 x2 k1 k2 Hx1 Hx2); [rewrite Hctt by lia; lia|rewrite Hctt by lia; lia|exact HE].
Qed.

(* consequences *)
Lemma sort_len_mono : forall codes n count cl k1 k2, codes_ok codes n count -> sort_ok codes n cl ->
  k1 <= k2 -> k2 < ctv codes n 16 -> cL codes (aget cl k1) <= cL codes (aget cl k2).
Proof.
  intros codes n count cl k1 k2 OK SO H12 H2.
  destruct (so_in _ _ _ SO k1 ltac:(lia)) as (A1 & B1 & C1).
  destruct (so_in _ _ _ SO k2 H2) as (A2 & B2 & C2).
  destruct (N.le_gt_cases (cL codes (aget cl k1)) (cL codes (aget cl k2))) as [Hle|Hgt]; [exact Hle|].
  exfalso.
  pose proof (ctv_mono codes n (cL codes (aget cl k2) + 1) (cL codes (aget cl k1)) ltac:(lia) ltac:(lia)).
  lia.
Qed.

(* the symbols of length x are exactly the entries of segment x *)
Lemma sort_segment : forall codes n count cl x i, codes_ok codes n count -> sort_ok codes n cl ->
  1 <= x <= 15 ->
  ((i < n /\ cL codes i = x) <->
   exists k, ctv codes n x <= k < ctv codes n (x + 1) /\ aget cl k = i).
Proof.
  intros codes n count cl x i OK SO Hx. split.
  - intros [Hi Li]. destruct (so_surj _ _ _ SO i Hi ltac:(lia)) as (k & Hk & Ek).
    exists k. split; [|exact Ek].
    destruct (so_in _ _ _ SO k Hk) as (A & B & C). rewrite Ek, Li in C. exact C.
  - intros (k & Hk & Ek).
    assert (Hk16 : k < ctv codes n 16).
    { pose proof (ctv_mono codes n (x + 1) 16 ltac:(lia) ltac:(lia)). lia. }
    destruct (so_in _ _ _ SO k Hk16) as (A & B & C). rewrite Ek in *.
    split; [exact A|].
    pose proof (ck_len _ _ _ OK i A) as Hli.
    destruct (N.lt_trichotomy (cL codes i) x) as [Hlt|[He|Hgt]]; [|exact He|]; exfalso.
    + pose proof (ctv_mono codes n (cL codes i + 1) x ltac:(lia) ltac:(lia)). lia.
    + pose proof (ctv_mono codes n (x + 1) (cL codes i) ltac:(lia) ltac:(lia)). lia.
Qed.
