(* EngineCompleteGlue2.v -- setupDynamicHeader_refine_body2 (RModel/EngineCompleteSpecD.v): the
   refinement statement of setupDynamicHeader with the facts about the two length vectors
   (lens_good) carried through.  Same proof as proofs/EngineRefineGlue.v (sdh_mid_ok). *)
From Coq Require Import List NArith ZArith Bool Lia ZifyBool ZifyNat ZifyN.
From Verif Require Import Bits Huffman HuffmanSpec Inflate.
From Verif Require Import Base EngineTables Engine EngineRefineSpec EngineCompleteSpecD
     EngineRefineBits EngineRefineBridge EngineRefineGlue.
From Verif Require HuffmanProofs.
Import ListNotations.
Open Scope N_scope.

Lemma sdh_mid_ok2 :
  gen_clc_statement -> gen_dist_statement -> gen_litlen_statement ->
  codeLenCodes_refine_statement -> readLitDistLens_refine_statement ->
  forall s ms e p,
    br_wf (rd s) -> br_loaded 57 (rd s) ->
    arr_zero (litAndDistHuff (dyn s)) -> arr_zero (litCount (dyn s)) ->
    arr_zero (distCount (dyn s)) -> arr_zero (litExpandCount (dyn s)) ->
    let '(s', err) := sdh_mid s ms in
    br_wf (rd s') /\ same_frame s s' /\
    (err = ENone ->
       (0 <= r_len (rd s'))%Z /\ phase s' = phaseHeaderDecoded /\
       exists ll dl lt dt p',
         dyn_header (mkbs (br_bits (rd s) ++ e) p) = HOk (lt, dt) (mkbs (br_bits (rd s') ++ e) p') /\
         mktrie 15 ll = Some lt /\ mktrie 15 dl = Some dt /\
         lit_tab_ok ll (tb s') /\ dist_tab_ok dl (tb s') /\ lens_good ll dl).
Proof.
  intros Hclc Hdist Hlit Hclcr Hrl s ms e p Hwf Hld Z1 Z2 Z3 Z4.
  unfold sdh_mid.
  destruct (r_len (rd s) <? 14)%Z eqn:E14.
  { split; [exact Hwf|]. split; [apply same_frame_refl|discriminate]. }
  destruct (next_bits (rd s) 5) as [hlit b1] eqn:N1.
  destruct (next_bits_facts (rd s) 5 e p Hwf ltac:(lia) hlit b1 N1) as (W1 & T1 & R1 & I1 & V1).
  destruct (next_bits b1 5) as [hdist b2] eqn:N2.
  destruct (next_bits_facts b1 5 e (p + 5) W1 ltac:(lia) hdist b2 N2) as (W2 & T2 & R2 & I2 & V2).
  destruct (next_bits b2 4) as [hclen b3] eqn:N3.
  destruct (next_bits_facts b2 4 e (p + 5 + 5) W2 ltac:(lia) hclen b3 N3) as (W3 & T3 & R3 & I3 & V3).
  change (N.to_nat 5) with 5%nat in T1, T2. change (N.to_nat 4) with 4%nat in T3.
  change (2 ^ 5) with 32 in V1, V2. change (2 ^ 4) with 16 in V3.
  cbv zeta.
  assert (FR2 : same_frame s (set_rd s b3)) by (unfold same_frame; repeat split; reflexivity).
  destruct ((29 <? hlit) || (29 <? hdist) || (15 <? hclen)) eqn:Eb.
  { split; [exact W3|]. split; [exact FR2|discriminate]. }
  apply orb_false_iff in Eb. destruct Eb as [Eb Eb3].
  pose proof Eb as Eb12.
  apply orb_false_iff in Eb. destruct Eb as [Eb1 Eb2].
  set (s2 := set_rd s b3) in *.
  assert (C1 : br_wf (rd s2)) by exact W3.
  assert (C2 : (0 <= r_len (rd s2))%Z) by (change (rd s2) with b3; lia).
  assert (C3 : br_loaded 12 (rd s2)).
  { change (rd s2) with b3. destruct Hld as [Hl|Hl]; [left; rewrite I3, I2, I1; exact Hl|right; lia]. }
  assert (C4 : hclen <= 15) by lia.
  pose proof (Hclcr Hclc s2 hclen e (p + 5 + 5 + 4) C1 C2 C3 C4) as C.
  destruct (codeLenCodes s2 hclen) as [s3 err3] eqn:E3.
  destruct C as (CW & CF & CT & CP & CA1 & CA2 & CA3 & CA4 & CE).
  assert (FR3 : same_frame s s3) by (eapply same_frame_trans; [exact FR2|exact CF]).
  destruct err3.
  2-8: (split; [exact CW|split; [exact FR3|discriminate]]).
  destruct (CE eq_refl) as (C0 & cl & Crc & CE2). cbv zeta in CE2. destruct CE2 as (Cov & Ctab).
  change (rd s2) with b3 in Crc.
  assert (Hcl7 : Forall (fun x => (x <= 7)%nat) (scatter clen_order cl (repeat 0%nat 19))).
  { apply scatter_Forall.
    - eapply read_clens_le7. exact Crc.
    - apply Forall_forall. intros x Hx. apply repeat_spec in Hx. lia. }
  destruct (HuffmanProofs.kraft_sufficient 7%nat _ ltac:(lia) Hcl7 Cov) as [ct Hct].
  assert (ZZ1 : arr_zero (litAndDistHuff (dyn s3))) by (intros i; rewrite CA1; apply Z1).
  assert (ZZ2 : arr_zero (litCount (dyn s3))) by (intros i; rewrite CA2; apply Z2).
  assert (ZZ3 : arr_zero (distCount (dyn s3))) by (intros i; rewrite CA3; apply Z3).
  assert (ZZ4 : arr_zero (litExpandCount (dyn s3))) by (intros i; rewrite CA4; apply Z4).
  assert (Hhl : hlit <= 29) by lia.
  assert (Hhd : hdist <= 29) by lia.
  pose proof (Hrl s3 hlit hdist _ ct e (p + 5 + 5 + 4 + 3 * (hclen + 4)) CW C0 Hhl Hhd Hct Ctab
                  ZZ1 ZZ2 ZZ3 ZZ4) as R.
  destruct (readLitDistLens s3 hdist hlit) as [s4 err4] eqn:E4.
  destruct R as (RW & RF & RT & RP & RE).
  assert (FR4 : same_frame s s4) by (eapply same_frame_trans; [exact FR3|exact RF]).
  destruct err4.
  2-8: (split; [exact RW|split; [exact FR4|discriminate]]).
  destruct (r_len (rd s4) <? 0)%Z eqn:Eneg.
  { split; [exact RW|]. split; [exact FR4|discriminate]. }
  specialize (RE eq_refl ltac:(lia)). cbv zeta in RE.
  destruct RE as (all & p' & Rrl & Rlen & Rnz & Rll & Rdl).
  pose proof (sdh_tail_ok Hdist Hlit _ _ s4 ms Rll Rdl) as TT.
  destruct (sdh_tail s4 ms) as [s5 err5] eqn:E5.
  destruct TT as (TR & TF & TE).
  split; [rewrite TR; exact RW|].
  split; [eapply same_frame_trans; [exact FR4|exact TF]|].
  intros Herr. destruct (TE Herr) as (TP & To1 & To2 & Tl & Td).
  split; [rewrite TR; lia|]. split; [exact TP|].
  destruct Rll as ((_ & Fll & _) & _). destruct Rdl as (_ & Fdl & _).
  destruct (HuffmanProofs.kraft_sufficient 15%nat _ ltac:(lia) Fll To1) as [lt Hlt].
  destruct (HuffmanProofs.kraft_sufficient 15%nat _ ltac:(lia) Fdl To2) as [dt Hdt].
  eexists _, _, lt, dt, p'.
  split; [|split; [exact Hlt|split; [exact Hdt|split; [exact Tl|split; [exact Td|]]]]].
  2:{ unfold lens_good. split; [exact Fll|]. split; [exact Fdl|]. split.
      - left. rewrite firstn_length. lia.
      - rewrite skipn_length, Rlen. lia. }
  unfold dyn_header. rewrite T1, T2, T3, Eb12, Crc. cbv zeta. rewrite Hct, Rrl.
  destruct (Nat.eqb_spec (nth 256 (firstn (N.to_nat hlit + 257) all) 0%nat) 0%nat) as [Hz|Hz];
    [contradiction|].
  rewrite Hlt, Hdt. rewrite TR. reflexivity.
Qed.


Theorem setupDynamicHeader_refine2 :
  gen_clc_statement -> gen_dist_statement -> gen_litlen_statement ->
  codeLenCodes_refine_statement -> readLitDistLens_refine_statement ->
  setupDynamicHeader_refine_body2.
Proof.
  intros Hclc Hdist Hlit Hclcr Hrl s e p Hwf H0.
  rewrite sdh_eq.
  set (s0 := sdh_start s).
  assert (FR0 : same_frame s s0) by (unfold same_frame; repeat split; reflexivity).
  assert (Hwf0 : br_wf (rd s0)) by exact Hwf.
  unfold loadBits.
  destruct (load_lt57_bits (rd s0) Hwf0) as (b1 & L1 & L2 & L3 & L4 & L5).
  rewrite L1.
  assert (FR1 : same_frame s (set_rd s0 b1)) by (unfold same_frame; repeat split; reflexivity).
  pose proof (sdh_mid_ok2 Hclc Hdist Hlit Hclcr Hrl (set_rd s0 b1) (sdh_multisym s0) e p L2 L4
                arr_zero_empty arr_zero_empty arr_zero_empty arr_zero_empty) as M.
  destruct (sdh_mid (set_rd s0 b1) (sdh_multisym s0)) as [s' err] eqn:Em.
  destruct M as (M1 & M2 & M3).
  split; [exact M1|].
  split; [eapply same_frame_trans; [exact FR1|exact M2]|].
  intros Herr.
  destruct (M3 Herr) as (M4 & M5 & ll & dl & lt & dt & p' & M6 & M7 & M8 & M9 & M10 & M11).
  split; [exact M4|]. split; [exact M5|].
  exists ll, dl, lt, dt, p'.
  split; [|split; [exact M7|split; [exact M8|split; [exact M9|split; [exact M10|exact M11]]]]].
  change (rd (set_rd s0 b1)) with b1 in M6. rewrite L3 in M6. exact M6.
Qed.

Print Assumptions setupDynamicHeader_refine2.
