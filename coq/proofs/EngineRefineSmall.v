(* EngineRefineSmall.v -- milestone M2 of the engine refinement: the small Huffman tables.
   gen_clc  (EngineRefineSmallClc.v):  setCodes + gen_small true  (GenerateForHeader) decode
                                       exactly the canonical code-length code.
   gen_dist (EngineRefineSmallDist.v): setCodes + gen_small false (genForDists) decode exactly
                                       the canonical distance code, from any previous table
                                       contents.
   Build order: EngineRefineSmallBase, Codes, Sort, Short, Clc, Long, Dist, this file. *)
From Verif Require Import EngineRefineSpec.
From Verif Require Export EngineRefineSmallClc EngineRefineSmallDist.

Check (gen_clc : gen_clc_statement).
Check (gen_dist : gen_dist_statement).
Print Assumptions gen_clc.
Print Assumptions gen_dist.
