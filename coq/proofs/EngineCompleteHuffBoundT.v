(* EngineCompleteHuffBound.v -- completeness side of M5, layer 3:
   - entry_bits_bound: one literal/length table entry drops at most 35 bits (derived from
     lit_tab_ok alone: entries with more than one symbol come from the short table, whose
     result depends on 12 bits only, and a literal has one code word);
   - need_entry: a table entry whose words end beyond the real bits: the reference runs over
     the whole symbols and then needs input. *)
From Coq Require Import List NArith ZArith Bool Lia ZifyBool ZifyNat ZifyN.
From Verif Require Import Bits Huffman HuffmanSpec Inflate InflateSpec InflateMono.
From Verif Require Import Base EngineTables Engine EngineRefineSpec EngineRefineSpecBlock
                          EngineRefineBits EngineRefineBridge.
From Verif Require HuffmanProofs SymbolsProofs EngineFacts.
From Verif Require Import EngineRefineHuffBase EngineRefineHuffSyms.
From Verif Require Import EngineCompleteSpecA EngineCompleteHuffTrie EngineCompleteHuffPad.
Import ListNotations.
Open Scope N_scope.

Ltac Zify.zify_post_hook ::= Z.div_mod_to_equations.

(* ---------------------------------------------------------------- the short table looks at
   12 bits *)
Lemma br_drop_inj : forall b k k', br_drop b k = br_drop b k' -> k = k'.
Proof.
  intros b k k' H. apply (f_equal r_len) in H. unfold br_drop in H. cbn [r_len] in H. lia.
Qed.

Lemma litlen_short_low12 : forall t b b' k c l,
  N.land (r_bits b') 4095 = N.land (r_bits b) 4095 ->
  litlen_decode t b = Some (br_drop b k, c, l) -> c <> 1 ->
  litlen_decode t b' = Some (br_drop b' k, c, l).
Proof.
  intros t b b' k c l Hlow H Hc. unfold litlen_decode in *. rewrite Hlow.
  set (nextSym := aget (litShort t) (N.land (r_bits b) 4095)) in *.
  destruct (N.land nextSym largeFlagBit =? 0).
  - cbv zeta in H |- *. injection H as H1 H2 H3. apply br_drop_inj in H1.
    rewrite H1, H2, H3. reflexivity.
  - cbv zeta in H.
    destruct (1264 <=? N.land nextSym largeShortSymMask
                       + N.shiftr (N.land (u32 (r_bits b)) (ones32 (N.shiftr nextSym 26))) 12);
      [discriminate|].
    injection H as _ H2 _. congruence.
Qed.

Lemma lit_word_unique : forall ll a la va la' va',
  In (a, la, va) (xcodes ll) -> In (a, la', va') (xcodes ll) -> a < 256 -> la = la' /\ va = va'.
Proof.
  intros ll a la va la' va' H H' Ha.
  destruct (xcodes_inv _ _ _ _ H) as (s0 & len0 & c & Hc & [(H1 & E1 & -> & ->)|(H1 & base & eb & x & Hn & Hx & E1 & _)]).
  2:{ destruct (len_table_bounds _ _ _ Hn) as (B1 & _). lia. }
  destruct (xcodes_inv _ _ _ _ H') as (s0' & len0' & c' & Hc' & [(H1' & E1' & -> & ->)|(H1' & base & eb & x & Hn & Hx & E1' & _)]).
  2:{ destruct (len_table_bounds _ _ _ Hn) as (B1 & _). lia. }
  assert (s0' = s0) by lia. subst s0'.
  destruct (canon_sym_unique ll s0 len0 c len0' c' Hc Hc') as [-> ->]. auto.
Qed.

Lemma testbit12_low : forall v, N.testbit (N.land v 4095) 12 = false.
Proof.
  intros v. apply N.testbit_false. change 4095 with (N.ones 12). rewrite N.land_ones.
  change (2 ^ 12) with 4096. lia.
Qed.
Lemma testbit12_high : forall v, N.testbit (N.land v 4095 + 4096) 12 = true.
Proof.
