(* EngineTop.v — the engine theorems put together: soundness (EngineRefineFinal.erun_sound), safety
   (EngineSafetyFinal.erun_safe) and completeness / error kinds / progress
   (EngineCompleteFinal.erun_complete_std, erun_kinds3), with the `no_fatal` premise of the latter
   discharged by the former.  Standing conditions: byte values < 256, non-empty deliveries, and the
   two bounds under which the model's fuel is adequate (bufio size <= 90000, total source length
   <= 262141 bytes; beyond them the MODEL may answer RStuck, which says nothing about the code). *)
From Coq Require Import List NArith ZArith Bool Lia.
From Verif Require Import Bits Huffman Inflate InflateSpec InflateMono.
From Verif Require Import Base EngineTables Engine EngineRefineSpecTop EngineRefineFinal
     EngineSafetyBuf EngineSafetyFinal EngineCompleteSpecB EngineCompleteSpecC EngineCompleteSpecF
     EngineCompleteSpecG EngineCompleteFinal EngineCorollaries.
Import ListNotations.
Open Scope N_scope.

Definition in_model_bounds (bufsize : N) (cs : list (list N)) : Prop :=
  bufsize <= 90000 /\ src_total cs <= 262141.

Lemma chunks_bytes_ok : forall cs : list (list N),
  Forall (fun x => x < 256) (concat cs) -> Forall (Forall (fun b => b < 256)) cs.
Proof.
  induction cs as [|c cs IH]; intros H; [constructor|].
  cbn [concat] in H. apply Forall_app in H. destruct H as [H1 H2].
  constructor; [exact H1 | exact (IH H2)].
Qed.

(* no Read of the engine ever panics (a Go bounds check, slice or shift fault made explicit in the
   model) or gets stuck (a loop of the model out of fuel) *)
Theorem engine_no_panic : forall data cs bufsize t reads,
  bytes_ok data -> concat cs = data -> in_model_bounds bufsize cs ->
  no_fatal (fst (erun_ext bufsize cs t reads)).
Proof.
  intros data cs bufsize t reads Hb Hc [B1 B2]. subst data.
  exact (erun_safe bufsize cs t reads B1 B2 (chunks_bytes_ok cs Hb)).
Qed.

(* C02, both halves: a complete stream whose dynamic blocks have distance codes that are complete
   (or have no code word longer than 10 bits: the one-code and empty cases) -- every stream a
   conforming compressor writes -- read with enough positive-size Reads: some Read reports io.EOF,
   the bytes handed out are exactly the reference output, and exactly the stream's bytes are
   consumed; whatever the delivery schedule, buffer size and Read sizes *)
Theorem engine_valid_stream_decoded : forall data cs bufsize t reads,
  bytes_ok data -> cut_of cs data -> in_model_bounds bufsize cs ->
  status (Inflate.inflate [] data) = Done -> std_stream data -> enough_reads data reads ->
  In REOF (map snd (fst (erun_ext bufsize cs t reads))) /\
  results_bytes (fst (erun_ext bufsize cs t reads)) = out (Inflate.inflate [] data) /\
  snd (erun_ext bufsize cs t reads) = (bitpos (Inflate.inflate [] data) + 7) / 8.
Proof.
  intros data cs bufsize t reads Hb [Hc Hne] HB Hd Hs He.
  pose proof (engine_no_panic data cs bufsize t reads Hb Hc HB) as Hnf.
  pose proof (erun_complete_std data cs bufsize t reads Hb Hc Hne Hd Hs He) as H.
  destruct (erun_ext bufsize cs t reads) as [l n]; cbn [fst snd] in *. exact (H Hnf).
Qed.

(* C03 / C15, the verdict: with enough Reads the run ends with exactly one of io.EOF,
   io.ErrUnexpectedEOF, the source's error or CorruptInputError, and which one is determined by the
   reference inflater's verdict on the delivered bytes and by how the source ended *)
Theorem engine_verdict : forall data cs bufsize t reads,
  bytes_ok data -> cut_of cs data -> in_model_bounds bufsize cs -> enough_reads data reads ->
  let l := fst (erun_ext bufsize cs t reads) in
  exists bytes r, last l ([], ROk) = (bytes, r) /\ l <> [] /\
    (r = REOF \/ r = RUnexpectedEOF \/ r = RSrcErr \/ exists o, r = RCorrupt o) /\
    (status (Inflate.inflate [] data) = Done -> strict data -> r = REOF) /\
    (r = REOF -> status (Inflate.inflate [] data) = Done) /\
    (status (Inflate.inflate [] data) = Corrupt -> exists o, r = RCorrupt o) /\
    (r = RUnexpectedEOF -> t = TEOF /\ status (Inflate.inflate [] data) = NeedInput) /\
    (r = RSrcErr -> t = TErr /\ status (Inflate.inflate [] data) = NeedInput) /\
    (r = RUnexpectedEOF \/ r = RSrcErr ->
       exists z, out (Inflate.inflate [] data) = results_bytes l ++ z /\ (length z <= 2)%nat).
Proof.
  intros data cs bufsize t reads Hb [Hc Hne] HB He l.
  pose proof (engine_no_panic data cs bufsize t reads Hb Hc HB) as Hnf.
  pose proof (erun_kinds3 data cs bufsize t reads Hb Hc Hne He) as H.
  unfold l. destruct (erun_ext bufsize cs t reads) as [l0 n]; cbn [fst snd] in *. exact (H Hnf).
Qed.

(* C04, full: two runs over the same content (any two schedules, buffer sizes, Read-size lists
   that are long enough) of a stream as in engine_valid_stream_decoded hand out the same bytes, both
   end in io.EOF and both consume the same number of source bytes *)
Theorem engine_schedule_independent_full : forall data cs1 cs2 b1 b2 t1 t2 reads1 reads2,
  bytes_ok data -> cut_of cs1 data -> cut_of cs2 data ->
  in_model_bounds b1 cs1 -> in_model_bounds b2 cs2 ->
  status (Inflate.inflate [] data) = Done -> std_stream data ->
  enough_reads data reads1 -> enough_reads data reads2 ->
  results_bytes (fst (erun_ext b1 cs1 t1 reads1)) = results_bytes (fst (erun_ext b2 cs2 t2 reads2)) /\
  snd (erun_ext b1 cs1 t1 reads1) = snd (erun_ext b2 cs2 t2 reads2) /\
  In REOF (map snd (fst (erun_ext b1 cs1 t1 reads1))) /\ In REOF (map snd (fst (erun_ext b2 cs2 t2 reads2))).
Proof.
  intros data cs1 cs2 b1 b2 t1 t2 reads1 reads2 Hb H1 H2 B1 B2 Hd Hs E1 E2.
  destruct (engine_valid_stream_decoded data cs1 b1 t1 reads1 Hb H1 B1 Hd Hs E1) as [A1 [A2 A3]].
  destruct (engine_valid_stream_decoded data cs2 b2 t2 reads2 Hb H2 B2 Hd Hs E2) as [C1 [C2 C3]].
  repeat split; try assumption; congruence.
Qed.

(* C11, progress: when the source has delivered `data` and then ends or fails, everything the
   reference decodes from `data` except at most its last 2 bytes (the literals at the front of one
   rolled-back multi-symbol table entry) has been handed out before the Read that reports the
   source's state; at a sync-flush point or the end of a block nothing is withheld by that
   mechanism, since the block's last symbol has been decoded *)
Theorem engine_progress : forall data cs bufsize t reads,
  bytes_ok data -> cut_of cs data -> in_model_bounds bufsize cs -> enough_reads data reads ->
  let l := fst (erun_ext bufsize cs t reads) in
  (snd (last l ([], ROk)) = RUnexpectedEOF \/ snd (last l ([], ROk)) = RSrcErr) ->
  exists z, out (Inflate.inflate [] data) = results_bytes l ++ z /\ (length z <= 2)%nat.
Proof.
  intros data cs bufsize t reads Hb Hc HB He l Hr.
  destruct (engine_verdict data cs bufsize t reads Hb Hc HB He) as [bytes [r [Hl [_ [_ [_ [_ [_ [_ [_ Hp]]]]]]]]]].
  fold l in Hl. rewrite Hl in Hr. cbn [snd] in Hr. exact (Hp Hr).
Qed.

(* the bound on the source, in terms of the data *)
Lemma src_total_concat : forall cs : list (list N), src_total cs = N.of_nat (length (concat cs)).
Proof.
  induction cs as [|c cs IH]; [reflexivity|].
  cbn [src_total concat]. rewrite app_length, Nat2N.inj_add, IH. reflexivity.
Qed.
Lemma in_model_bounds_data : forall bufsize cs data,
  concat cs = data -> bufsize <= 90000 -> N.of_nat (length data) <= 262141 -> in_model_bounds bufsize cs.
Proof. intros bufsize cs data Hc B1 B2. split; [exact B1|]. rewrite src_total_concat, Hc. exact B2. Qed.
