(* EngineRefineTopBase.v -- helper lemmas for the step / Read / erun composition:
   history slices, window relation, bit-reader input extension, step cut into pieces. *)
From Coq Require Import List NArith ZArith Bool Lia ZifyBool ZifyNat ZifyN Relations.
From Verif Require Import Bits Huffman Inflate InflateSpec InflateMono.
From Verif Require Import Base EngineTables Engine EngineRefineSpec EngineRefineSpecBlock
     EngineRefineSpecHdr EngineRefineSpecReach EngineRefineSpecBuf EngineRefineSpecNeed
     EngineRefineSpecBlock2 EngineRefineSpecTop EngineRefineSpecFinal EngineRefineBits.
Import ListNotations.
Open Scope N_scope.

(* ---------------------------------------------------------------- arrays *)
Lemma tb_succ_pos_inj : forall i j, N.succ_pos i = N.succ_pos j -> i = j.
Proof. intros i j H. apply N.succ_inj. rewrite <- !N.succ_pos_spec. now rewrite H. Qed.

Lemma tb_aget_aset : forall a i v j, aget (aset a i v) j = if j =? i then v else aget a j.
Proof.
  intros a i v j. unfold aget, aset. destruct (N.eqb_spec j i) as [Heq|Hne].
  - subst j. now rewrite PositiveMap.gss.
  - rewrite PositiveMap.gso; auto. intro H; apply Hne, tb_succ_pos_inj, H.
Qed.

Lemma tb_iterN_ind : forall (St : Type) (P : N -> St -> Prop) (f : N -> St -> St) n i s,
  P i s ->
  (forall j x, i <= j < i + N.of_nat n -> P j x -> P (j + 1) (f j x)) ->
  P (i + N.of_nat n) (iterN n i f s).
Proof.
  intros St P f n. induction n as [|k IH]; intros i s H0 Hstep.
  - cbn [iterN]. replace (i + N.of_nat 0) with i by lia. exact H0.
  - cbn [iterN]. replace (i + N.of_nat (S k)) with ((i + 1) + N.of_nat k) by lia.
    apply IH.
    + apply Hstep; [lia|exact H0].
    + intros j x Hj Hx. apply Hstep; [lia|exact Hx].
Qed.

Lemma tb_forN_ind : forall (St : Type) (P : N -> St -> Prop) (f : N -> St -> St) lo hi s,
  lo <= hi -> P lo s ->
  (forall j x, lo <= j < hi -> P j x -> P (j + 1) (f j x)) ->
  P hi (forN lo hi f s).
Proof.
  intros St P f lo hi s Hle H0 Hstep. unfold forN.
  replace hi with (lo + N.of_nat (N.to_nat (hi - lo))) at 1 by lia.
  apply tb_iterN_ind; [exact H0|].
  intros j x Hj Hx. apply Hstep; [lia|exact Hx].
Qed.

(* ---------------------------------------------------------------- history slices *)
Lemma hist_slice_length : forall n h p, length (hist_slice n h p) = n.
Proof. induction n as [|n IH]; intros h p; cbn [hist_slice length]; [reflexivity|now rewrite IH]. Qed.

Lemma hist_slice_nth : forall n h p j, (j < n)%nat ->
  nth j (hist_slice n h p) 0 = aget h (p + N.of_nat j).
Proof.
  induction n as [|n IH]; intros h p j Hj; [lia|].
  cbn [hist_slice]. destruct j as [|j]; cbn [nth].
  - f_equal. lia.
  - rewrite IH by lia. f_equal. lia.
Qed.

Lemma hist_slice_app : forall a b h p,
  hist_slice (a + b) h p = hist_slice a h p ++ hist_slice b h (p + N.of_nat a).
Proof.
  induction a as [|a IH]; intros b h p.
  - cbn [hist_slice app Nat.add]. f_equal. lia.
  - cbn [hist_slice app Nat.add]. f_equal. rewrite IH. f_equal. f_equal. lia.
Qed.

Lemma hist_slice_ext : forall n h h' p,
  (forall j, (j < n)%nat -> aget h (p + N.of_nat j) = aget h' (p + N.of_nat j)) ->
  hist_slice n h p = hist_slice n h' p.
Proof.
  intros n h h' p H. apply (nth_ext _ _ 0 0).
  - rewrite !hist_slice_length. reflexivity.
  - intros j Hj. rewrite hist_slice_length in Hj. rewrite !hist_slice_nth by exact Hj. apply H; exact Hj.
Qed.

(* the part of the window produced since position w *)
Lemma win_pending : forall (w : N) (st : ostate) out2 w2 st2 v,
  win_rel out2 w2 st2 -> rout st2 = v ++ rout st ->
  N.of_nat (length v) = w2 - w -> w <= w2 ->
  hist_slice (N.to_nat (w2 - w)) out2 w = rev v.
Proof.
  intros w st out2 w2 st2 v (W1 & W2 & W3 & W4 & W5) Hv Hlen Hle.
  apply (nth_ext _ _ 0 0).
  - rewrite hist_slice_length, rev_length. lia.
  - intros j Hj. rewrite hist_slice_length in Hj.
    rewrite hist_slice_nth by exact Hj.
    rewrite rev_nth by lia.
    specialize (W5 (w2 - 1 - (w + N.of_nat j)) ltac:(lia)).
    replace (w2 - 1 - (w2 - 1 - (w + N.of_nat j))) with (w + N.of_nat j) in W5 by lia.
    rewrite W5, Hv. rewrite app_nth1 by lia. f_equal. lia.
Qed.

Lemma frev_app_rev : forall (A : Type) (v l : list A), frev (v ++ l) = frev l ++ rev v.
Proof. intros A v l. rewrite !frev_rev. apply rev_app_distr. Qed.

(* sliding the window: the last 32 KiB move to the front *)
Lemma win_slide : forall h w st, win_rel h w st -> 65536 <= w ->
  win_rel (forN 0 historySize (fun i h => aset h i (aget h (w - historySize + i))) h) historySize st.
Proof.
  intros h w st (W1 & W2 & W3 & W4 & W5) Hw. unfold historySize.
  set (h' := forN 0 32768 (fun i h0 => aset h0 i (aget h0 (w - 32768 + i))) h).
  assert (H : forall k, k < 32768 -> aget h' k = aget h (w - 32768 + k)).
  { assert (HP : (forall k, k < 32768 -> aget h' k = aget h (w - 32768 + k)) /\
                 (forall k, 32768 <= k -> aget h' k = aget h k)).
    { unfold h'.
      apply (tb_forN_ind arr (fun n x => (forall k, k < n -> aget x k = aget h (w - 32768 + k)) /\
                                         (forall k, n <= k -> aget x k = aget h k))).
      - lia.
      - split; [intros k Hk; lia|intros; reflexivity].
      - intros j x Hj [I1 I2]. split.
        + intros k Hk. rewrite tb_aget_aset. destruct (N.eqb_spec k j) as [->|Hne].
          * apply I2. lia.
          * apply I1. lia.
        + intros k Hk. rewrite tb_aget_aset. destruct (N.eqb_spec k j) as [->|Hne]; [lia|].
          apply I2. lia. }
    exact (proj1 HP). }
  unfold win_rel. split; [exact W1|]. split; [exact W2|]. split; [lia|]. split; [right; lia|].
  intros i Hi. rewrite H by lia.
  replace (w - 32768 + (32768 - 1 - i)) with (w - 1 - i) by lia. apply W5. lia.
Qed.

(* ---------------------------------------------------------------- bit reader: more input *)
Lemma br_bits_extend : forall bits len inp ilen ilen' more,
  br_bits (mkBR bits len (inp ++ more) ilen') = br_bits (mkBR bits len inp ilen) ++ bits_of_bytes more.
Proof.
  intros. unfold br_bits. cbn [r_bits r_len r_in]. rewrite bits_of_bytes_app, app_assoc. reflexivity.
Qed.

Lemma br_wf_extend : forall bits len inp ilen more,
  br_wf (mkBR bits len inp ilen) -> (0 <= len)%Z -> Forall (fun x => x < 256) more ->
  br_wf (mkBR bits len (inp ++ more) (ilen + N.of_nat (length more))).
Proof.
  intros bits len inp ilen more (W1 & W2 & W3 & W4 & W5) H0 Hm.
  cbn [r_bits r_len r_in r_inlen] in *.
  unfold br_wf. cbn [r_bits r_len r_in r_inlen].
  split; [rewrite app_length; lia|]. split; [exact W2|]. split; [intros; lia|].
  split; [apply Forall_app; split; assumption|].
  intros i Hi. rewrite (br_bits_extend bits len inp ilen).
  specialize (W5 i Hi).
  destruct (Nat.ltb_spec (N.to_nat i) (length (br_bits (mkBR bits len inp ilen)))) as [Hlt|Hge].
  - rewrite app_nth1 by exact Hlt. exact W5.
  - rewrite nth_overflow in W5 by exact Hge. discriminate.
Qed.

(* ---------------------------------------------------------------- step, cut into pieces *)
(* the "if state.input == nil" block (reached with input nil) *)
Definition step_attach (f : decompressor) : decompressor * option rres :=
  if (r_len (rd (state f)) <? 0)%Z then (f, Some RPanic)
  else
    let held := Z.to_N (Z.quot (r_len (rd (state f))) 8) in
    let f := mkD (state f) (writePos f) (readPos f) (hist f) (rBuf f) (derr f) (peekSize f)
                 false (haveBits f) in
    let r0 : decompressor * option rres :=
      if (bBuffered (rBuf f) <=? held) && negb (haveBits f) then
        match bPeek (rBuf f) (held + 1) with
        | None => (f, Some RStuck)
        | Some (_, _, e, rb) =>
          let f := mkD (state f) (writePos f) (readPos f) (hist f) rb (derr f) (peekSize f)
                       (eof f) (haveBits f) in
          match e with
          | Some BSrc => (f, Some RSrcErr)
          | Some BNoProgress => (f, Some RNoProgress)
          | Some BEOF =>
            (mkD (state f) (writePos f) (readPos f) (hist f) (rBuf f) (derr f) (peekSize f)
                 true (haveBits f), None)
          | _ => (f, None)
          end
        end
      else (f, None) in
    match r0 with
    | (f, Some e) => (f, Some e)
    | (f, None) =>
      match bPeek (rBuf f) (bBuffered (rBuf f)) with
      | None => (f, Some RStuck)
      | Some (bytes, n, _, rb) =>
        if n <? held then (f, Some RPanic)
        else
          let s := state f in
          let s := set_inputNil (set_rd s (br_set_in (rd s) (skipn (N.to_nat held) bytes)
                                                     (n - held))) false in
          (mkD s (writePos f) (readPos f) (hist f) rb (derr f) n (eof f) (haveBits f), None)
      end
    end.

Definition step_slide (f : decompressor) : decompressor :=
  let readPos1 := writePos f in
  let '(h, readPos1, writePos1) :=
    if historySize * 2 <=? readPos1 then
      (forN 0 historySize (fun i h => aset h i (aget h (readPos1 - historySize + i))) (hist f),
       historySize, historySize)
    else (hist f, readPos1, writePos f) in
  mkD (state f) writePos1 readPos1 h (rBuf f) (derr f) (peekSize f) (eof f) (haveBits f).

Definition step_tail (f : decompressor) (e : ierr) : decompressor * option rres :=
  match e with
  | EPanic => (f, Some RPanic)
  | EFuel => (f, Some RStuck)
  | _ =>
    if isError e || (ierr_eqb e EEndInput && eof f) then
      match step_discard_at (held_nonneg f) f with
      | None => (f, Some RStuck)
      | Some (Some be, f) => (f, Some (rres_of_berror be))
      | Some (None, f) =>
        if ierr_eqb e EEndInput then (f, Some RUnexpectedEOF)
        else (f, Some (RCorrupt (roffset (state f))))
      end
    else
      let '(f, ret) :=
        if phase (state f) =? phaseStreamEnd
        then (set_state f (set_phase (state f) phaseFinish), Some REOF)
        else (f, None) in
      if (r_inlen (rd (state f)) =? 0) || (phase (state f) =? phaseFinish) then
        match step_discard f with
        | None => (f, Some RStuck)
        | Some (Some be, f) => (f, Some (rres_of_berror be))
        | Some (None, f) => (f, ret)
        end
      else (f, ret)
  end.

Definition step_decode (f : decompressor) : decompressor * ierr :=
  let startInputSize := Z.of_N (r_inlen (rd (state f))) in
  let startBitsLen := r_len (rd (state f)) in
  let '(f, e) := decomperss f in
  let f := set_state f (rOffset (state f) startInputSize startBitsLen) in
  let f := mkD (state f) (writePos f) (readPos f) (hist f) (rBuf f) (derr f) (peekSize f) (eof f)
               (negb (ierr_eqb e EEndInput)) in
  (f, e).

Lemma step_eq : forall f,
  step f =
  if phase (state f) =? phaseFinish then (f, Some REOF)
  else
    match (if inputNil (state f) then step_attach f else (f, None)) with
    | (f, Some e) => (f, Some e)
    | (f, None) =>
      let '(f, e) := step_decode (step_slide f) in step_tail f e
    end.
Proof.
  intros f. unfold step, step_attach, step_slide, step_tail, step_decode.
  destruct (phase (state f) =? phaseFinish); [reflexivity|].
  destruct (inputNil (state f)).
  - destruct (r_len (rd (state f)) <? 0)%Z; [reflexivity|].
    match goal with |- match ?X with _ => _ end = match ?Y with _ => _ end => change Y with X; destruct X as [f1 [e1|]] end;
      [reflexivity|].
    destruct (historySize * 2 <=? writePos f1);
      (destruct (decomperss _) as [f3 e]; destruct e; reflexivity).
  - destruct (historySize * 2 <=? writePos f);
      (destruct (decomperss _) as [f3 e]; destruct e; reflexivity).
Qed.
