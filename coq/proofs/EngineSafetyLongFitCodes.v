(* EngineSafetyLongFitCodes.v -- Part A of the proof of LongCodesFit: what
   setAndExpandLitLenHuffCode stores in litAndDistHuff.  Every entry of non-zero length is the
   (bit-reversed, expanded) canonical code of a symbol; the code is not over-subscribed.

   Main result: codes_desc : codes_statement (EngineSafetyLongFitDefs.v). *)
From Verif Require Import Engine EngineTables.
From Verif Require Import Base EngineSafetyBase EngineSafetyBits EngineSafetyInv.
From Coq Require Import List NArith ZArith Bool Lia ZifyBool ZifyNat ZifyN.
From Verif Require Import EngineSafetyLongFitDefs EngineSafetyExpand.
Import ListNotations.
Open Scope N_scope.

(* ---------------------------------------------------------------- small arithmetic *)
Lemma u16_idem : forall x, u16 (u16 x) = u16 x.
Proof.
  intros x. unfold u16. rewrite <- N.land_assoc. rewrite N.land_diag. reflexivity.
Qed.

Lemma bitReverse2_u16 : forall c l, bitReverse2 (u16 c) l = bitReverse2 c l.
Proof. intros c l. unfold bitReverse2. rewrite u16_idem. reflexivity. Qed.

Lemma shl32_one : forall x, x < 2147483648 -> shl32 (u32 x) 1 = 2 * x.
Proof.
  intros x Hx. unfold shl32. destruct (32 <=? 1) eqn:E; [lia|].
  rewrite (u32_small x) by lia. rewrite N.shiftl_mul_pow2. change (2 ^ 1) with 2.
  rewrite u32_small by lia. lia.
Qed.

Lemma shl32_small : forall x l, x < 32 -> l <= 15 -> shl32 x l = N.shiftl x l.
Proof.
  intros x l Hx Hl. unfold shl32. destruct (32 <=? l) eqn:E; [lia|].
  apply u32_small.
  assert (H2 : N.shiftl x l < 2 ^ (5 + l)).
  { apply shiftl_lt_pow2. change (2 ^ 5) with 32. exact Hx. }
  assert (H3 : 2 ^ (5 + l) <= 2 ^ 20) by (apply N.pow_le_mono_r; lia).
  change (2 ^ 20) with 1048576 in H3. lia.
Qed.

Lemma count_len_le : forall h b n l, count_len h b n l <= N.of_nat n.
Proof.
  intros h b n l. induction n as [|k IH]; [cbn [count_len]; lia|].
  cbn [count_len]. destruct (hc_len (aget h (b + N.of_nat k)) =? l); lia.
Qed.

(* ---------------------------------------------------------------- fcode *)
Lemma fcode_SS : forall h k,
  fcode h (S (S k)) = 2 * (fcode h (S k) + count_len h 0 286 (N.of_nat (S k))).
Proof. intros h k. reflexivity. Qed.

Lemma fcode_0 : forall h, fcode h 0 = 0.
Proof. intros h. reflexivity. Qed.

Lemma fcode_1 : forall h, fcode h 1 = 0.
Proof. intros h. reflexivity. Qed.

Lemma fcode_succ : forall h i, 1 <= i ->
  fcode h (N.to_nat (i + 1)) = 2 * (fcode h (N.to_nat i) + count_len h 0 286 i).
Proof.
  intros h i Hi. replace (N.to_nat (i + 1)) with (S (N.to_nat i)) by lia.
  destruct (N.to_nat i) as [|k] eqn:E; [lia|].
  rewrite fcode_SS. rewrite <- E. rewrite N2Nat.id. reflexivity.
Qed.

Lemma fcode_bound : forall h k, fcode h k + 572 <= 572 * 2 ^ N.of_nat k.
Proof.
  intros h k. induction k as [|k IH].
  - rewrite fcode_0. change (2 ^ N.of_nat 0) with 1. lia.
  - destruct k as [|k'].
    + rewrite fcode_1. change (2 ^ N.of_nat 1) with 2. lia.
    + rewrite fcode_SS.
      pose proof (count_len_le h 0 286 (N.of_nat (S k'))) as Hc.
      change (N.of_nat 286) with 286 in Hc.
      replace (N.of_nat (S (S k'))) with (N.succ (N.of_nat (S k'))) by lia.
      rewrite N.pow_succ_r'.
      revert IH Hc. generalize (fcode h (S k')). generalize (2 ^ N.of_nat (S k')).
      generalize (count_len h 0 286 (N.of_nat (S k'))). intros c p f IH Hc. lia.
Qed.

Lemma fcode_le : forall h i, i <= 15 -> fcode h (N.to_nat i) <= 18743296.
Proof.
  intros h i Hi. pose proof (fcode_bound h (N.to_nat i)) as Hb. rewrite N2Nat.id in Hb.
  assert (Hp : 2 ^ i <= 2 ^ 15) by (apply N.pow_le_mono_r; lia).
  change (2 ^ 15) with 32768 in Hp.
  revert Hb Hp. generalize (2 ^ i). generalize (fcode h (N.to_nat i)). intros f p Hb Hp. lia.
Qed.

(* ---------------------------------------------------------------- the first prefix loop: nextCode *)
Definition ps1nc_inv (h : arr) (i : N) (st : arr * arr * N * N) : Prop :=
  let '(ex, nc, ct, ctmp) := st in
  forall j, 1 <= j <= i -> aget nc j = fcode h (N.to_nat j).

Lemma ps_loop1_nc : forall h lc ex nc ctmp ex1 nc1 ct1 ctmp1,
  (forall l, 1 <= l <= 15 -> aget lc l = count_len h 0 286 l) ->
  aget nc 1 = 0 ->
  ps_loop1 lc ex nc ctmp = (ex1, nc1, ct1, ctmp1) ->
  forall j, 1 <= j <= 15 -> aget nc1 j = fcode h (N.to_nat j).
Proof.
  intros h lc ex nc ctmp ex1 nc1 ct1 ctmp1 Hlc Hnc1 Heq.
  assert (Hinv : ps1nc_inv h 15 (ps_loop1 lc ex nc ctmp)).
  { unfold ps_loop1. apply (forN_ind _ (ps1nc_inv h)).
    - lia.
    - unfold ps1nc_inv. intros j Hj. replace j with 1 by lia. rewrite Hnc1.
      change (N.to_nat 1) with 1%nat. rewrite fcode_1. reflexivity.
    - intros i st Hi Hst. destruct st as [[[ex' nc'] ct] ctmp'].
      unfold ps1nc_inv in Hst. cbv beta iota zeta. unfold ps1nc_inv.
      intros j Hj. rewrite aget_aset.
      destruct (N.eqb_spec j (i + 1)) as [->|Hne].
      + rewrite (Hst i) by lia. rewrite (Hlc i) by lia.
        rewrite fcode_succ by lia.
        pose proof (fcode_le h i ltac:(lia)) as Hf.
        pose proof (count_len_le h 0 286 i) as Hc. change (N.of_nat 286) with 286 in Hc.
        apply shl32_one. lia.
      + apply Hst. lia. }
  rewrite Heq in Hinv. unfold ps1nc_inv in Hinv. exact Hinv.
Qed.

(* ---------------------------------------------------------------- calcCodeForLit: the values *)
Section Calc.
  (* F l: the value of nextCode[l] before the loop *)
  Variable F : N -> N.
  Variable huff : arr.

  (* the entry stored for the literal i *)
  Definition Wlit (i : N) : N :=
    hc_set (bitReverse2 (F (hc_len (aget huff i)) +
                         count_len huff 0 (N.to_nat i) (hc_len (aget huff i)))
                        (hc_len (aget huff i)))
           (hc_len (aget huff i)).

  Definition calc2_inv (j : N) (st : arr * arr * arr * arr * bool) : Prop :=
    let '(hf, cl, ex, nc, pan) := st in
    pan = false ->
    (forall l, 1 <= l <= 15 -> aget nc l = F l + count_len huff 0 (N.to_nat j) l) /\
    (forall i, i < j -> hc_len (aget huff i) <> 0 -> aget hf i = Wlit i) /\
    (forall i, j <= i \/ hc_len (aget huff i) = 0 -> aget hf i = aget huff i).

  Lemma calc2_spec : forall cl ex nc,
    (forall i, i < 257 -> hc_len (aget huff i) <= 15) ->
    (forall l, 1 <= l <= 15 -> aget nc l = F l) ->
    (forall l, F l + 257 < 4294967296) ->
    calc2_inv 257 (calcCodeForLit huff cl ex nc).
  Proof.
    intros cl ex nc H15 Hnc HF. unfold calcCodeForLit.
    apply (forN_ind _ calc2_inv).
    - unfold litSymbolsSize. lia.
    - unfold calc2_inv. intros _. change (N.to_nat 0) with O. cbn [count_len].
      split; [|split].
      + intros l Hl. rewrite (Hnc l Hl). lia.
      + intros i Hi. lia.
      + intros i _. reflexivity.
    - intros j x Hj Hx. unfold litSymbolsSize in Hj.
      destruct x as [[[[hf cl'] ex'] nc'] pan].
      unfold calc2_inv in Hx. cbv beta iota zeta.
      destruct pan.
      { (* already panicked: the flag stays set *)
        destruct (hc_len (aget hf j) =? 0).
        - unfold calc2_inv. intros Hc. discriminate Hc.
        - destruct (516 <=? aget ex' (hc_len (aget hf j))).
          + unfold calc2_inv. intros Hc. discriminate Hc.
          + unfold calc2_inv. intros Hc. discriminate Hc. }
      destruct (Hx eq_refl) as (Hncj & Hlo & Hhi). clear Hx.
      rewrite (Hhi j) by (left; lia).
      assert (Hcnt : forall L, count_len huff 0 (N.to_nat (j + 1)) L =
                count_len huff 0 (N.to_nat j) L + (if hc_len (aget huff j) =? L then 1 else 0)).
      { intros L. rewrite count_len_succ. reflexivity. }
      pose proof (H15 j (proj2 Hj)) as Hl15.
      assert (HW : Wlit j = hc_set (bitReverse2 (F (hc_len (aget huff j)) +
                         count_len huff 0 (N.to_nat j) (hc_len (aget huff j)))
                        (hc_len (aget huff j))) (hc_len (aget huff j))) by reflexivity.
      set (l := hc_len (aget huff j)) in *.
      destruct (N.eqb_spec l 0) as [Hl0|Hl0].
      + unfold calc2_inv. intros _. split; [|split].
        * intros L HL. rewrite Hcnt, (Hncj L HL). destruct (N.eqb_spec l L); lia.
        * intros i Hi Hli. apply Hlo; [|exact Hli].
          destruct (N.eq_dec i j) as [->|Hne]; [|lia]. fold l in Hli. contradiction.
        * intros i Hi. apply Hhi. destruct Hi as [Hi|Hi]; [left; lia|right; exact Hi].
      + destruct (516 <=? aget ex' l).
        { unfold calc2_inv. intros Hc. discriminate Hc. }
        unfold calc2_inv. intros _. split; [|split].
        * intros L HL. rewrite aget_aset, Hcnt.
          destruct (N.eqb_spec L l) as [->|Hne].
          -- rewrite N.eqb_refl. rewrite (Hncj l HL).
             pose proof (count_len_le huff 0 (N.to_nat j) l) as Hc.
             pose proof (HF l) as HFl.
             rewrite u32_small by lia. lia.
          -- destruct (N.eqb_spec l L); [congruence|]. rewrite (Hncj L HL). lia.
        * intros i Hi Hli. rewrite aget_aset.
          destruct (N.eqb_spec i j) as [->|Hne].
          -- rewrite bitReverse2_u16. rewrite (Hncj l) by lia. rewrite HW. reflexivity.
          -- apply Hlo; [lia|exact Hli].
        * intros i Hi. assert (Hne : i <> j).
          { intros ->. destruct Hi as [Hi|Hi]; [lia|]. fold l in Hi. contradiction. }
          rewrite aget_aset_other by exact Hne. apply Hhi.
          destruct Hi as [Hi|Hi]; [left; lia|right; exact Hi].
  Qed.
End Calc.

(* ---------------------------------------------------------------- expandLenCodes: the values *)
Section Expand.
  (* G l: the value of nextCode[l] before the loop *)
  Variable G : N -> N.
  Variable lh : arr.
  Variable hf0 : arr.

  (* the entry stored for the expansion x of the length symbol 257 + m *)
  Definition Vlen (m x : N) : N :=
    hc_set (N.lor (bitReverse2 (G (hc_len (aget lh m)) +
                                count_len lh 0 (N.to_nat m) (hc_len (aget lh m)))
                               (hc_len (aget lh m)))
                  (N.shiftl x (hc_len (aget lh m))))
           (hc_len (aget lh m) + aget rfc_len_extra m).

  Definition hf_ok (n : N) (hf : arr) : Prop :=
    forall t, aget hf t = aget hf0 t \/
      exists m x, m < n /\ x < xw m /\ hc_len (aget lh m) <> 0 /\ aget hf t = Vlen m x.

  Definition exp2_inv (n : N) (st : arr * arr * arr * arr * N * bool) : Prop :=
    let '(hf, cl, ex, nc, xi, pan) := st in
    (forall l, 1 <= l <= 15 -> aget nc l = G l + count_len lh 0 (N.to_nat n) l) /\
    hf_ok n hf.

  Lemma hf_ok_weaken : forall n n' hf, n <= n' -> hf_ok n hf -> hf_ok n' hf.
  Proof.
    intros n n' hf Hn H t. destruct (H t) as [Heq|(m & x & Hm & Hx & Hl & Hv)].
    - left. exact Heq.
    - right. exists m, x. split; [lia|]. split; [exact Hx|]. split; [exact Hl|exact Hv].
  Qed.

  Lemma exp2_spec : forall cl ex nc hf' cl' ex' nc' pan',
    (forall i, i < 29 -> hc_len (aget lh i) <= 15) ->
    (forall l, 1 <= l <= 15 -> aget nc l = G l) ->
    (forall l, G l + 29 < 4294967296) ->
    expandLenCodes hf0 cl ex nc lh = (hf', cl', ex', nc', pan') ->
    hf_ok 29 hf'.
  Proof.
    intros cl ex nc hf' cl' ex' nc' pan' H15 Hnc HG Heq. unfold expandLenCodes in Heq.
    match type of Heq with context [forN 0 29 ?f ?s] =>
      assert (Hinv : exp2_inv 29 (forN 0 29 f s)) end.
    { apply (forN_ind _ exp2_inv).
      - lia.
      - unfold exp2_inv. change (N.to_nat 0) with O. cbn [count_len]. split.
        + intros l Hl. rewrite (Hnc l Hl). lia.
        + intros t. left. reflexivity.
      - intros n st Hn Hst. destruct st as [[[[[hf cl1] ex1] nc1] xi] pan].
        unfold exp2_inv in Hst. destruct Hst as (Hncn & Hhf).
        cbv beta iota zeta.
        destruct (len_extra_facts n (proj2 Hn)) as (He5 & Hxw & Hpow).
        pose proof (H15 n (proj2 Hn)) as Hl15.
        assert (Hcnt : forall L, count_len lh 0 (N.to_nat (n + 1)) L =
                  count_len lh 0 (N.to_nat n) L + (if hc_len (aget lh n) =? L then 1 else 0)).
        { intros L. rewrite count_len_succ. rewrite N.add_0_l. reflexivity. }
        fold (xw n).
        assert (HV : forall x, Vlen n x =
                  hc_set (N.lor (bitReverse2 (G (hc_len (aget lh n)) +
                                count_len lh 0 (N.to_nat n) (hc_len (aget lh n)))
                               (hc_len (aget lh n)))
                  (N.shiftl x (hc_len (aget lh n))))
                  (hc_len (aget lh n) + aget rfc_len_extra n)) by (intros x; reflexivity).
        set (e := aget rfc_len_extra n) in *.
        set (l := hc_len (aget lh n)) in *.
        destruct (N.eqb_spec l 0) as [Hl0|Hl0].
        + unfold exp2_inv. split.
          * intros L HL. rewrite Hcnt, (Hncn L HL). destruct (N.eqb_spec l L); lia.
          * apply (hf_ok_weaken n); [lia|exact Hhf].
        + match goal with |- context [forN 0 (xw n) ?f ?s] =>
            assert (Hin : (fun a : arr * arr * bool => hf_ok (n + 1) (fst (fst a)))
                            (forN 0 (xw n) f s)) end.
          { apply forN_inv.
            - cbn [fst]. apply (hf_ok_weaken n); [lia|exact Hhf].
            - intros x a Hx Ha. destruct a as [[hf2 cl2] pan2]. cbn [fst] in Ha.
              cbv beta iota zeta.
              destruct ((516 <=? aget ex1 (l + e) + x) || (514 <=? xi + x)).
              + cbn [fst]. exact Ha.
              + cbn [fst]. intros t. rewrite aget_aset.
                destruct (N.eqb_spec t (xi + x)) as [->|Hne].
                * right. exists n, x. split; [lia|]. split; [lia|]. split; [exact Hl0|].
                  rewrite bitReverse2_u16. rewrite (Hncn l) by lia.
                  rewrite shl32_small by lia. rewrite HV. reflexivity.
                * apply Ha. }
          cbv beta in Hin.
          destruct (forN 0 (xw n) _ _) as [[hf2 cl2] pan2]. cbn [fst] in Hin.
          unfold exp2_inv. split; [|exact Hin].
          intros L HL. rewrite aget_aset, Hcnt.
          destruct (N.eqb_spec L l) as [->|Hne].
          * rewrite N.eqb_refl. rewrite (Hncn l HL).
            pose proof (count_len_le lh 0 (N.to_nat n) l) as Hc.
            pose proof (HG l) as HGl.
            rewrite u32_small by lia. lia.
          * destruct (N.eqb_spec l L); [congruence|]. rewrite (Hncn L HL). lia. }
    destruct (forN 0 29 _ _) as [[[[[hf1 cl1] ex1] nc1] xi] pan].
    unfold exp2_inv in Hinv. destruct Hinv as [_ Hhf].
    apply pair_equal_spec in Heq. destruct Heq as [Heq _].
    apply pair_equal_spec in Heq. destruct Heq as [Heq _].
    apply pair_equal_spec in Heq. destruct Heq as [Heq _].
    apply pair_equal_spec in Heq. destruct Heq as [Heq _].
    subst hf'. exact Hhf.
  Qed.
End Expand.

(* ---------------------------------------------------------------- counting through lenHuff *)
Lemma count_len_shift : forall h lh l k,
  (forall i, i < 29 -> aget lh i = aget h (257 + i)) ->
  (k <= 29)%nat -> count_len lh 0 k l = count_len h 257 k l.
Proof.
  intros h lh l k Hlh. induction k as [|k IH]; intros Hk; [reflexivity|].
  cbn [count_len]. rewrite IH by lia. rewrite N.add_0_l. rewrite (Hlh (N.of_nat k)) by lia.
  reflexivity.
Qed.

(* ---------------------------------------------------------------- assembly *)
Theorem codes_desc : codes_statement.
Proof.
  unfold codes_statement. intros d d1 Hpost H. cbv zeta.
  rewrite setAndExpand_eq in H.
  remember (litAndDistHuff d) as h eqn:Hh.
  remember (litCount d) as lc eqn:Hlc0.
  destruct Hpost as (Hok & Hlc & _ & _).
  assert (Hlh : forall i, i < 29 ->
            aget (forN 0 29 (fun i t => aset t i (aget h (litSymbolsSize + i))) (lenHuffCodes d)) i =
            aget h (257 + i)).
  { intros i Hi.
    pose proof (forN_aset_get (fun i => aget h (litSymbolsSize + i)) 0 29 (lenHuffCodes d) i
                  ltac:(lia)) as Hg.
    cbv beta in Hg. rewrite Hg.
    replace ((0 <=? i) && (i <? 29)) with true by lia. reflexivity. }
  remember (forN 0 29 (fun i t => aset t i (aget h (litSymbolsSize + i))) (lenHuffCodes d))
    as lh eqn:Hlhdef.
  destruct (ps_loop1 lc (aset (aset (litExpandCount d) 0 0) 1 0) (aset (aset (nextCode d) 0 0) 1 0)
                     (aget (litExpandCount d) 1)) as [[[ex1 nc1] ct1] ctmp1] eqn:E1.
  pose proof (ps_loop1_nc h lc _ _ _ _ _ _ _ Hlc (aget_aset_same _ _ _) E1) as Hnc1.
  destruct (ps_loop2 ex1 ct1 (u32 (aget lc 15 + ctmp1))) as [[ex2 ct2] ctmp2].
  pose proof (fcode_le h 15 ltac:(lia)) as Hf15. change (N.to_nat 15) with 15%nat in Hf15.
  pose proof (count_len_le h 0 286 15) as Hc15. change (N.of_nat 286) with 286 in Hc15.
  destruct (32768 <? u32 (aget nc1 15 + aget lc 15)) eqn:Emx.
  { apply pair_equal_spec in H. destruct H as [_ H]. discriminate H. }
  rewrite (Hnc1 15) in Emx by lia. rewrite (Hlc 15) in Emx by lia.
  change (N.to_nat 15) with 15%nat in Emx.
  rewrite u32_small in Emx by lia. apply N.ltb_ge in Emx.
  split; [exact Emx|].
  cbv zeta in H.
  assert (Hh1 : forall j, aget (forN litSymbolsSize litLenElems (fun i t => aset t i 0) h) j =
                  if (257 <=? j) && (j <? 514) then 0 else aget h j).
  { intros j. apply (forN_aset_get (fun _ => 0)). unfold litSymbolsSize, litLenElems. lia. }
  remember (forN litSymbolsSize litLenElems (fun i t => aset t i 0) h) as huff1 eqn:Hhuff1.
  remember (forN 0 maxLitLenCount (fun i t => aset t i (aget ex2 i)) lc) as lc' eqn:Hlc'def.
  assert (Hlow : forall i, i < 257 -> aget huff1 i = aget h i).
  { intros i Hi. rewrite Hh1. replace ((257 <=? i) && (i <? 514)) with false by lia. reflexivity. }
  assert (HcntA : forall L k, (k <= 257)%nat -> count_len huff1 0 k L = count_len h 0 k L).
  { intros L k Hk. apply count_len_ext. intros i Hi. apply Hlow. lia. }
  set (F := fun l : N => fcode h (N.to_nat l)).
  assert (HFb : forall l, 1 <= l <= 15 -> F l <= 18743296).
  { intros l Hl. unfold F. apply fcode_le. lia. }
  (* calcCodeForLit *)
  destruct (calcCodeForLit huff1 (codeList d) ex2 nc1) as [[[[hf2 cl2] ex3] nc2] pan1] eqn:Ec.
  destruct (expandLenCodes hf2 cl2 ex3 nc2 lh) as [[[[hf3 cl3] ex4] nc3] pan2] eqn:Ee.
  apply pair_equal_spec in H. destruct H as [Hd He].
  destruct pan1; [cbn [orb] in He; discriminate He|]. clear He.
  subst d1. cbn [litAndDistHuff].
  (* F is only relevant on 1..15: use a clipped version to get the global bounds *)
  set (F' := fun l : N => if (1 <=? l) && (l <=? 15) then F l else 0).
  assert (HF'b : forall l, F' l <= 18743296).
  { intros l. unfold F'. destruct ((1 <=? l) && (l <=? 15)) eqn:El; [apply HFb; lia|lia]. }
  assert (HF'eq : forall l, 1 <= l <= 15 -> F' l = F l).
  { intros l Hl. unfold F'. replace ((1 <=? l) && (l <=? 15)) with true by lia. reflexivity. }
  pose proof (calc2_spec F' huff1 (codeList d) ex2 nc1) as Hc.
  rewrite Ec in Hc. unfold calc2_inv in Hc.
  destruct Hc as (Hnc2 & Hlit & Hkeep); [| | | reflexivity|].
  { intros i Hi. rewrite (Hlow i Hi). apply Hok. }
  { intros l Hl. rewrite (HF'eq l Hl). unfold F. apply Hnc1. exact Hl. }
  { intros l. pose proof (HF'b l). lia. }
  change (N.to_nat 257) with 257%nat in Hnc2.
  (* expandLenCodes *)
  set (G := fun l : N => F' l + count_len huff1 0 257 l).
  pose proof (exp2_spec G lh hf2 cl2 ex3 nc2 hf3 cl3 ex4 nc3 pan2) as Hexp.
  assert (Hexp' : hf_ok G lh hf2 29 hf3).
  { apply Hexp.
    - intros i Hi. rewrite (Hlh i Hi). apply Hok.
    - intros l Hl. unfold G. apply Hnc2. exact Hl.
    - intros l. unfold G. pose proof (HF'b l). pose proof (count_len_le huff1 0 257 l) as Hcl.
      change (N.of_nat 257) with 257 in Hcl. lia.
    - exact Ee. }
  clear Hexp.
  intros t Ht Hnz0.
  destruct (Hexp' t) as [Heq|(m & x & Hm & Hx & Hl0 & Hv)].
  - (* not written by expandLenCodes *)
    rewrite Heq in Hnz0. rewrite Heq.
    destruct (N.lt_ge_cases t 257) as [Ht257|Ht257].
    + destruct (N.eq_dec (hc_len (aget huff1 t)) 0) as [Hz|Hnz].
      { rewrite (Hkeep t) in Hnz0 by (right; exact Hz). contradiction. }
      exists t, 0.
      assert (Hse : sym_extra t = 0).
      { unfold sym_extra. replace (t <? 257) with true by lia. reflexivity. }
      split; [lia|]. split; [rewrite Hse; change (2 ^ 0) with 1; lia|].
      split; [unfold Hlen; rewrite <- (Hlow t Ht257); exact Hnz|].
      rewrite (Hlit t Ht257 Hnz). unfold Wlit, xentry, ccode. rewrite Hse. unfold Hlen.
      rewrite (Hlow t Ht257).
      pose proof (Hok t) as [_ Ht15]. rewrite (Hlow t Ht257) in Hnz.
      rewrite HF'eq by lia. unfold F.
      rewrite HcntA by lia.
      rewrite N.shiftl_0_l, N.lor_0_r, N.add_0_r. reflexivity.
    + rewrite (Hkeep t) in Hnz0 by (left; lia). rewrite Hh1 in Hnz0.
      replace ((257 <=? t) && (t <? 514)) with true in Hnz0 by lia.
      change (hc_len 0) with 0 in Hnz0. contradiction.
  - (* an expanded length symbol *)
    exists (257 + m), x.
    assert (Hse : sym_extra (257 + m) = aget rfc_len_extra m).
    { unfold sym_extra. replace (257 + m <? 257) with false by lia.
      replace (257 + m - 257) with m by lia. reflexivity. }
    destruct (len_extra_facts m Hm) as (_ & _ & Hpow).
    split; [lia|]. split; [rewrite Hse, <- Hpow; exact Hx|].
    split; [unfold Hlen; rewrite <- (Hlh m Hm); exact Hl0|].
    rewrite Hv. unfold Vlen, xentry, ccode. rewrite Hse. unfold Hlen.
    rewrite (Hlh m Hm).
    pose proof (Hok (257 + m)) as [_ Hm15]. rewrite (Hlh m Hm) in Hl0.
    set (l := hc_len (aget h (257 + m))) in *.
    unfold G. rewrite HF'eq by lia. unfold F.
    rewrite HcntA by lia.
    rewrite (count_len_shift h lh l (N.to_nat m) Hlh) by lia.
    replace (N.to_nat (257 + m)) with (257 + N.to_nat m)%nat by lia.
    rewrite (count_len_split h l 257 (N.to_nat m)). change (N.of_nat 257) with 257.
    rewrite N.add_assoc. reflexivity.
Qed.

Print Assumptions codes_desc.
