(* EngineRefineLitLenSort.v -- the counting sort of setAndExpandLitLenHuffCode
   (calcCodeForLit + expandLenCodes of RModel/Engine.v): after sae_tail, codeList holds the indices
   of all extended codes sorted by expanded length, each with its extended code word in
   litAndDistHuff (xsorted of EngineRefineLitLenDefs.v).

   Main result: sae_tail_sorted.  First part: EngineRefineLitLenSortBase.v. *)
From Coq Require Import List NArith ZArith Bool Lia ZifyBool ZifyNat ZifyN.
From Verif Require Import Bits Huffman Inflate.
From Verif Require Import Base EngineTables Engine EngineRefineSpec.
From Verif Require Import EngineRefineLitLenBase EngineRefineLitLenDefs EngineRefineLitLenCode.
From Verif Require Import EngineRefineLitLenSortBase.
From Verif Require HuffmanProofs.
Import ListNotations.
Open Scope N_scope.

(* ---------------------------------------------------------------- expandLenCodes, outer loop *)
(* filled slots of the class L after calcCodeForLit and the length symbols below k *)
Definition fillB (ll : lens) (k : nat) (L : N) : N :=
  bsum (litem ll L) 257 + bsum (xitem ll L) k.

Lemma fillB_0 : forall ll L, fillB ll 0 L = bsum (litem ll L) 257.
Proof. intros. unfold fillB. change (bsum (xitem ll L) 0) with 0. lia. Qed.

Lemma fillB_S : forall ll k L, fillB ll (S k) L = fillB ll k L + xitem ll L k.
Proof. intros. unfold fillB. rewrite (bsum_S (xitem ll L) k). lia. Qed.

Lemma fillB_Ecount : forall ll k L, (k <= 29)%nat -> fillB ll k L <= Ecount ll L.
Proof. intros ll k L Hk. unfold fillB. apply fillB_le. exact Hk. Qed.

Lemma fillB_29 : forall ll L, fillB ll 29 L = Ecount ll L.
Proof. intros. unfold fillB, Ecount. reflexivity. Qed.

(* the extended code word number x of the length symbol 257 + k *)
Definition xval (ll : lens) (k : nat) (x : N) : N :=
  rcode (nth (257 + k) ll 0%nat) (cw ll (257 + k)) + x * 2 ^ N.of_nat (nth (257 + k) ll 0%nat).

Lemma xin_idx_mk : forall ll k x, (k < 29)%nat -> x < xw k -> nth (257 + k) ll 0%nat <> 0%nat ->
  xin_idx ll (xbase k + x)
    (N.to_nat (N.of_nat (nth (257 + k) ll 0%nat) + aget rfc_len_extra (N.of_nat k))) (xval ll k x).
Proof.
  intros ll k x Hk Hx Hn. right. exists k, x.
  split; [exact Hk|]. split; [exact Hx|]. split; [reflexivity|]. split; [exact Hn|].
  split; [lia|reflexivity].
Qed.

Lemma xin_idx_uniq : forall ll k x len val, (k < 29)%nat -> x < xw k ->
  xin_idx ll (xbase k + x) len val ->
  len = N.to_nat (N.of_nat (nth (257 + k) ll 0%nat) + aget rfc_len_extra (N.of_nat k)) /\
  val = xval ll k x.
Proof.
  intros ll k x len val Hk Hx H. destruct (xin_idx_len ll k x len val Hk Hx H) as (_ & H1 & H2).
  split; [lia|exact H2].
Qed.

Lemma xcode_eq : forall ll k x l c, (k < 29)%nat -> x < xw k -> l = nth (257 + k) ll 0%nat ->
  (l <= 15)%nat -> c = rcode l (cw ll (257 + k)) ->
  N.lor c (shl32 x (N.of_nat l)) = xval ll k x.
Proof.
  intros ll k x l c Hk Hx Hl Hl15 Hc. subst c. unfold xval. rewrite <- Hl.
  destruct (len_extra_facts k Hk) as (_ & Hxw & _).
  rewrite (shl32_small x (N.of_nat l) 5) by (try lia; change (2 ^ 5) with 32; lia).
  rewrite lor_shiftl_add by apply rcode_lt. reflexivity.
Qed.

(* the flag of the inner loop is never reset *)
Lemma inner_flag : forall (v : N -> N) ins base n hf cl pan0 hf2 cl2,
  forN 0 n (fun extra (a : arr * arr * bool) =>
         let '(huff, cl, pan) := a in
         if (516 <=? ins + extra) || (514 <=? base + extra) then (huff, cl, true)
         else (aset huff (base + extra) (v extra), aset cl (ins + extra) (base + extra), pan))
         (hf, cl, pan0) = (hf2, cl2, false) -> pan0 = false.
Proof.
  intros v ins base n hf cl pan0 hf2 cl2 H.
  destruct pan0; [|reflexivity]. exfalso.
  assert (Hs : snd (forN 0 n (fun extra (a : arr * arr * bool) =>
         let '(huff, cl, pan) := a in
         if (516 <=? ins + extra) || (514 <=? base + extra) then (huff, cl, true)
         else (aset huff (base + extra) (v extra), aset cl (ins + extra) (base + extra), pan))
         (hf, cl, true)) = true).
  { apply (forN_inv _ (fun a : arr * arr * bool => snd a = true)); [reflexivity|].
    intros j [[a1 a2] a3] _ Ha. cbn [snd] in Ha. subst a3.
    destruct ((516 <=? ins + j) || (514 <=? base + j)); reflexivity. }
  rewrite H in Hs. cbn [snd] in Hs. discriminate Hs.
Qed.

Lemma inner_spec' : forall ll (v val : N -> N) fill L ins base n hf cl pan0 hf2 cl2,
  forN 0 n (fun extra (a : arr * arr * bool) =>
       let '(huff, cl, pan) := a in
       if (516 <=? ins + extra) || (514 <=? base + extra) then (huff, cl, true)
       else (aset huff (base + extra) (v extra), aset cl (ins + extra) (base + extra), pan))
       (hf, cl, pan0) = (hf2, cl2, false) ->
  placed ll base fill hf cl -> L <= 21 -> ins = Soff ll L + fill L ->
  fill L + n <= Ecount ll L ->
  (forall L', L' <= 21 -> fill L' <= Ecount ll L') ->
  (forall x, x < n ->
     v x = hc_set (val x) L /\ xin_idx ll (base + x) (N.to_nat L) (val x) /\
     (forall len' val', xin_idx ll (base + x) len' val' -> len' = N.to_nat L /\ val' = val x)) ->
  placed ll (base + n) (fun L' => fill L' + (if L' =? L then n else 0)) hf2 cl2.
Proof.
  intros ll v val fill L ins base n hf cl pan0 hf2 cl2 Et Hpl HL Hins HfL Hfill Hv.
  pose proof (inner_spec ll v val fill L ins base n hf cl pan0 (fun _ => Hpl) HL Hins HfL Hfill Hv)
    as Hin.
  rewrite Et in Hin. unfold inner_inv in Hin. apply Hin. reflexivity.
Qed.

Definition expand_loop (huff cl ex nc lh : arr) : arr * arr * arr * arr * N * bool :=
  forN 0 29 (fun lenSym (st : arr * arr * arr * arr * N * bool) =>
    let '(huff, cl, ex, nc, expandsIdx, pan) := st in
    let extraCount := aget rfc_len_extra lenSym in
    let lenSize := N.shiftl 1 extraCount in
    let codeLen := hc_len (aget lh lenSym) in
    if codeLen =? 0 then (huff, cl, ex, nc, expandsIdx + lenSize, pan)
    else
      let code := bitReverse2 (u16 (aget nc codeLen)) codeLen in
      let expandLen := codeLen + extraCount in
      let nc := aset nc codeLen (u32 (aget nc codeLen + 1)) in
      let ins := aget ex expandLen in
      let ex := aset ex expandLen (u16 (ins + lenSize)) in
      let '(huff, cl, pan) :=
        forN 0 lenSize (fun extra (a : arr * arr * bool) =>
          let '(huff, cl, pan) := a in
          if (516 <=? ins + extra) || (514 <=? expandsIdx + extra) then (huff, cl, true)
          else (aset huff (expandsIdx + extra)
                     (hc_set (N.lor code (shl32 extra codeLen)) expandLen),
                aset cl (ins + extra) (expandsIdx + extra), pan))
          (huff, cl, pan) in
      (huff, cl, ex, nc, expandsIdx + lenSize, pan))
    (huff, cl, ex, nc, litSymbolsSize, false).

Lemma expandLenCodes_eq : forall huff cl ex nc lh,
  expandLenCodes huff cl ex nc lh =
  let '(huff, cl, ex, nc, _, pan) := expand_loop huff cl ex nc lh in (huff, cl, ex, nc, pan).
Proof. reflexivity. Qed.

Definition expand_inv (ll : lens) (n : N) (st : arr * arr * arr * arr * N * bool) : Prop :=
  let '(hf, cl, ex, nc, xi, pan) := st in
  xi = xbase (N.to_nat n) /\
  (pan = false ->
   placed ll xi (fillB ll (N.to_nat n)) hf cl /\
   (forall L, L <= 21 -> aget ex L = Soff ll L + fillB ll (N.to_nat n) L) /\
   (forall b, (1 <= b <= 15)%nat ->
      aget nc (N.of_nat b) =
      first_code ll b + HuffmanProofs.occ (firstn (257 + N.to_nat n) ll) b)).

Lemma expand_loop_spec : forall ll huff cl ex nc lh,
  Forall (fun x => (x <= 15)%nat) ll -> oversubscribed 15 ll = false ->
  (forall k, k < 29 -> aget lh k = hc_set 0 (N.of_nat (nth (257 + N.to_nat k) ll 0%nat))) ->
  placed ll 257 (fun L => bsum (litem ll L) 257) huff cl ->
  (forall L, L <= 21 -> aget ex L = Soff ll L + bsum (litem ll L) 257) ->
  (forall b, (1 <= b <= 15)%nat ->
     aget nc (N.of_nat b) = first_code ll b + HuffmanProofs.occ (firstn 257 ll) b) ->
  expand_inv ll 29 (expand_loop huff cl ex nc lh).
Proof.
  intros ll huff cl ex nc lh HF Hov Hlh Hpl Hex Hnc. unfold expand_loop.
  apply (forN_ind _ (expand_inv ll)).
  - lia.
  - unfold expand_inv, litSymbolsSize. change (N.to_nat 0) with O.
    split; [reflexivity|]. intros _. rewrite Nat.add_0_r.
    change (xbase 0) with 257. split; [|split].
    + apply (placed_weaken ll 257 _ _ _ _ _ Hpl); [lia| |intros; lia].
      intros L _. apply fillB_0.
    + intros L HL. rewrite (Hex L HL). rewrite fillB_0. reflexivity.
    + exact Hnc.
  - intros n st Hn Hst. destruct st as [[[[[hf cl'] ex'] nc'] xi] pan].
    unfold expand_inv in Hst. destruct Hst as [Hxi Hst]. cbv beta iota zeta.
    remember (N.to_nat n) as k eqn:Hk.
    assert (Hnk : n = N.of_nat k) by lia.
    assert (Hk29 : (k < 29)%nat) by lia.
    rewrite N.shiftl_1_l. rewrite (Hlh n) by lia. rewrite <- Hk.
    pose proof (nth_le15 ll (257 + k) HF) as Hl15.
    rewrite hc_len_set by lia.
    destruct (len_extra_facts k Hk29) as (He5 & Hxw & Hx514).
    replace (2 ^ aget rfc_len_extra n) with (xw k) by (unfold xw; rewrite Hnk; reflexivity).
    assert (He : aget rfc_len_extra n = aget rfc_len_extra (N.of_nat k)) by (rewrite Hnk; reflexivity).
    rewrite He. clear He.
    remember (aget rfc_len_extra (N.of_nat k)) as e eqn:Hedef.
    remember (nth (257 + k) ll 0%nat) as l eqn:Hldef.
    pose proof (xbase_succ k) as Hxs.
    assert (HSk : N.to_nat (n + 1) = S k) by lia.
    destruct (N.eqb_spec (N.of_nat l) 0) as [Hl0|Hl0].
    + (* unused length symbol *)
      assert (Hl : nth (257 + k) ll 0%nat = 0%nat) by lia.
      unfold expand_inv. rewrite HSk.
      split; [lia|]. intros Hp. destruct (Hst Hp) as (Hpl' & Hex' & Hnc'). clear Hst.
      split; [|split].
      * apply (placed_weaken ll xi _ _ _ _ _ Hpl'); [lia| |].
        -- intros L _. rewrite fillB_S. rewrite (xitem_zero ll L k Hl). lia.
        -- intros idx len val Hidx Hx.
           assert (Hidx' : idx = xbase k + (idx - xbase k)) by lia.
           rewrite Hidx' in Hx.
           destruct (xin_idx_len ll k (idx - xbase k) len val Hk29 ltac:(lia) Hx) as [Hn' _].
           apply Hn'. exact Hl.
      * intros L HL. rewrite fillB_S. rewrite (xitem_zero ll L k Hl). rewrite (Hex' L HL). lia.
      * intros b Hb. rewrite (Hnc' b Hb). replace (257 + S k)%nat with (S (257 + k)) by lia.
        rewrite occ_firstn_S by lia. rewrite Hl. destruct (Nat.eqb_spec 0 b); lia.
    + (* used length symbol *)
      assert (Hl : nth (257 + k) ll 0%nat <> 0%nat) by lia.
      assert (Hl115 : (1 <= l <= 15)%nat) by lia.
      assert (HL : N.of_nat l + e <= 21) by lia.
      assert (Hit : forall L, xitem ll L k = if L =? N.of_nat l + e then xw k else 0).
      { intros L. rewrite Hldef, Hedef. apply xitem_eq. exact Hl. }
      assert (HfL : fillB ll k (N.of_nat l + e) + xw k <= Ecount ll (N.of_nat l + e)).
      { pose proof (fillB_Ecount ll (S k) (N.of_nat l + e) ltac:(lia)) as H1.
        rewrite fillB_S, Hit, N.eqb_refl in H1. exact H1. }
      assert (Hfill : forall L', L' <= 21 -> fillB ll k L' <= Ecount ll L').
      { intros L' _. apply fillB_Ecount. lia. }
      pose proof (cw_lt ll (257 + k) HF Hov Hl) as Hcwlt. rewrite <- Hldef in Hcwlt.
      assert (Hp15 : 2 ^ N.of_nat l <= 2 ^ 15) by (apply N.pow_le_mono_r; lia).
      change (2 ^ 15) with 32768 in Hp15.
      remember (bitReverse2 (u16 (aget nc' (N.of_nat l))) (N.of_nat l)) as code eqn:Hcodedef.
      remember (aget ex' (N.of_nat l + e)) as ins eqn:Hinsdef.
      match goal with |- context [forN 0 (xw k) ?f ?s] =>
        destruct (forN 0 (xw k) f s) as [[hf2 cl2] pan2] eqn:Et end.
      unfold expand_inv. rewrite HSk.
      split; [lia|]. intros Hp. rewrite Hp in Et.
      pose proof (inner_flag _ _ _ _ _ _ _ _ _ Et) as Hp0.
      destruct (Hst Hp0) as (Hpl' & Hex' & Hnc'). clear Hst.
      assert (Hins : ins = Soff ll (N.of_nat l + e) + fillB ll k (N.of_nat l + e)).
      { rewrite Hinsdef. apply Hex'. exact HL. }
      assert (Hcw : aget nc' (N.of_nat l) = cw ll (257 + k)).
      { rewrite (Hnc' l Hl115). unfold cw. rewrite <- Hldef. reflexivity. }
      assert (Hcode : code = rcode l (cw ll (257 + k))).
      { rewrite Hcodedef, Hcw. rewrite bitReverse2_rcode by (try exact Hcwlt; lia).
        rewrite Nat2N.id. reflexivity. }
      assert (Hitems : forall x, x < xw k ->
         hc_set (N.lor code (shl32 x (N.of_nat l))) (N.of_nat l + e) =
         hc_set (xval ll k x) (N.of_nat l + e) /\
         xin_idx ll (xi + x) (N.to_nat (N.of_nat l + e)) (xval ll k x) /\
         (forall len' val', xin_idx ll (xi + x) len' val' ->
            len' = N.to_nat (N.of_nat l + e) /\ val' = xval ll k x)).
      { intros x Hx. rewrite Hxi, Hldef, Hedef. split; [|split].
        - f_equal. apply (xcode_eq ll k x _ _ Hk29 Hx eq_refl).
          + rewrite <- Hldef. lia.
          + rewrite <- Hldef. exact Hcode.
        - apply xin_idx_mk; assumption.
        - intros len' val' Hx'. apply xin_idx_uniq; assumption. }
      pose proof (inner_spec' ll _ (xval ll k) (fillB ll k) (N.of_nat l + e) ins xi (xw k)
                    hf cl' pan hf2 cl2 Et Hpl' HL Hins HfL Hfill Hitems) as Hin.
      clear Hitems Et.
      assert (Hsb : ins + xw k <= 514).
      { pose proof (Soff_succ ll (N.of_nat l + e)) as S1.
        pose proof (Soff_mono ll (N.of_nat l + e + 1) 22 ltac:(lia)) as M.
        pose proof (Soff_22 ll). lia. }
      split; [|split].
      * apply (placed_weaken ll _ _ _ _ _ _ Hin); [lia| |intros; lia].
        intros L' _. rewrite fillB_S. rewrite Hit. reflexivity.
      * intros L' HL'. rewrite fillB_S. rewrite Hit. rewrite aget_aset.
        destruct (N.eqb_spec L' (N.of_nat l + e)) as [->|Hne].
        -- rewrite u16_small by lia. rewrite Hins. lia.
        -- rewrite (Hex' L' HL'). lia.
      * intros b Hb. rewrite aget_aset. replace (257 + S k)%nat with (S (257 + k)) by lia.
        rewrite occ_firstn_S by lia. rewrite <- Hldef.
        destruct (N.eqb_spec (N.of_nat b) (N.of_nat l)) as [Heq|Hne].
        -- assert (Hbl : b = l) by lia. rewrite Hbl, Nat.eqb_refl.
           rewrite Hcw. rewrite u32_small by lia. unfold cw. rewrite <- Hldef. lia.
        -- destruct (Nat.eqb_spec l b); [lia|]. rewrite (Hnc' b Hb). lia.
Qed.

(* ---------------------------------------------------------------- assembly *)
Lemma sae_lc_get : forall ll ex nc lc0 L, ps_post ll ex nc -> L <= 22 ->
  aget (forN 0 maxLitLenCount (fun i t => aset t i (aget ex i)) lc0) L = Soff ll L.
Proof.
  intros ll ex nc lc0 L Hps HL.
  rewrite (forN_aset_get (fun i => aget ex i)) by (unfold maxLitLenCount; lia).
  unfold maxLitLenCount. replace ((0 <=? L) && (L <? 23)) with true by lia.
  apply (proj1 Hps). exact HL.
Qed.

Lemma sae_lh_get : forall ll h cnt lh0 k, lens_in ll 0 286 h cnt -> k < 29 ->
  aget (forN 0 29 (fun i t => aset t i (aget h (litSymbolsSize + i))) lh0) k =
  hc_set 0 (N.of_nat (nth (257 + N.to_nat k) ll 0%nat)).
Proof.
  intros ll h cnt lh0 k (_ & _ & Hh & _) Hk.
  rewrite (forN_aset_get (fun i => aget h (litSymbolsSize + i))) by lia.
  replace ((0 <=? k) && (k <? 29)) with true by lia. unfold litSymbolsSize.
  replace (257 + k) with (0 + (257 + k)) by lia. rewrite Hh by lia.
  f_equal. f_equal. f_equal. lia.
Qed.

Lemma sae_huff_get : forall ll h cnt i, lens_in ll 0 286 h cnt -> i < 257 ->
  aget (forN litSymbolsSize litLenElems (fun i t => aset t i 0) h) i =
  hc_set 0 (N.of_nat (nth (N.to_nat i) ll 0%nat)).
Proof.
  intros ll h cnt i (_ & _ & Hh & _) Hi.
  rewrite (forN_aset_get (fun _ => 0)) by (unfold litSymbolsSize, litLenElems; lia).
  unfold litSymbolsSize, litLenElems. replace ((257 <=? i) && (i <? 514)) with false by lia.
  replace i with (0 + i) at 1 by lia. apply Hh. lia.
Qed.

(* the two loops together *)
Lemma sort_loops : forall ll huff1 cl ex nc lh hf2 cl2 ex3 nc2 hf3 cl3 ex4 nc3,
  Forall (fun x => (x <= 15)%nat) ll -> oversubscribed 15 ll = false ->
  (forall i, i < 257 -> aget huff1 i = hc_set 0 (N.of_nat (nth (N.to_nat i) ll 0%nat))) ->
  (forall k, k < 29 -> aget lh k = hc_set 0 (N.of_nat (nth (257 + N.to_nat k) ll 0%nat))) ->
  ps_post ll ex nc ->
  calcCodeForLit huff1 cl ex nc = (hf2, cl2, ex3, nc2, false) ->
  expandLenCodes hf2 cl2 ex3 nc2 lh = (hf3, cl3, ex4, nc3, false) ->
  placed ll 514 (Ecount ll) hf3 cl3.
Proof.
  intros ll huff1 cl ex nc lh hf2 cl2 ex3 nc2 hf3 cl3 ex4 nc3 HF Hov Hh1 Hlh Hps Ec Ee.
  pose proof (calc_spec ll huff1 cl ex nc HF Hov Hh1 Hps) as Hc.
  rewrite Ec in Hc. unfold calc_inv in Hc. destruct (Hc eq_refl) as (Hpl & Hex3 & Hnc2 & _). clear Hc.
  assert (E257 : N.to_nat 257 = 257%nat) by reflexivity.
  rewrite E257 in Hpl, Hnc2.
  assert (Hex3' : forall L, L <= 21 -> aget ex3 L = Soff ll L + bsum (litem ll L) 257)
    by (intros L HL; rewrite <- E257; apply Hex3, HL).
  pose proof (expand_loop_spec ll hf2 cl2 ex3 nc2 lh HF Hov Hlh Hpl Hex3' Hnc2) as He.
  rewrite expandLenCodes_eq in Ee.
  destruct (expand_loop hf2 cl2 ex3 nc2 lh) as [[[[[hf3' cl3'] ex4'] nc3'] xi] pan2].
  injection Ee as -> -> _ _ ->.
  unfold expand_inv in He. destruct He as [Hxi He].
  destruct (He eq_refl) as (Hpl3 & _). clear He.
  assert (E29 : N.to_nat 29 = 29%nat) by reflexivity.
  rewrite E29 in Hxi, Hpl3. rewrite xbase_29 in Hxi. subst xi.
  apply (placed_weaken ll 514 514 _ _ _ _ Hpl3); [lia| |intros; lia].
  intros L _. symmetry. apply fillB_29.
Qed.

Lemma xsorted_of_placed : forall ll xc hf cl lc d1,
  Forall (fun x => (x <= 15)%nat) ll -> xc_char ll xc ->
  placed ll 514 (Ecount ll) hf cl ->
  (forall L, L <= 22 -> aget lc L = Soff ll L) ->
  litAndDistHuff d1 = hf -> codeList d1 = cl -> litCount d1 = lc ->
  xsorted xc d1.
Proof.
  intros ll xc hf cl3 lc' d1 HF Hxc (P1 & P2 & P3) Hlc' Hd1 Hd2 Hd3.
  assert (Hslot : forall L k, L < 22 -> Soff ll L <= k < Soff ll L + Ecount ll L ->
                    inslot ll (Ecount ll) L k).
  { intros L k HL Hk. split; [lia|exact Hk]. }
  unfold xsorted. rewrite Hd1, Hd2, Hd3. cbv zeta.
  split; [rewrite Hlc' by lia; apply Soff_0|].
  split; [intros L HL; rewrite !Hlc' by lia; apply Soff_mono; lia|].
  split; [rewrite Hlc' by lia; apply Soff_22|].
  split; [|split].
  - intros L k HL Hk. rewrite !Hlc' in Hk by lia. rewrite Soff_succ in Hk.
    destruct (P1 L k (Hslot L k HL Hk)) as (Hlt & val & Hx & Hv).
    split; [exact Hlt|]. exists val. split; [exact Hv|].
    apply Hxc. exists (aget cl3 k). split; [reflexivity|exact Hx].
  - intros s len val Hin. apply Hxc in Hin. destruct Hin as (idx & Hs & Hx).
    destruct (xin_idx_bounds ll idx len val HF Hx) as [Hidx Hl20].
    destruct (P2 idx len val Hidx Hx) as (k & [HL Hk] & Hk1 & Hk2).
    exists k. rewrite !Hlc' by lia. rewrite Soff_succ.
    split; [exact Hk|]. rewrite Hk1. split; [symmetry; exact Hs|exact Hk2].
  - intros k k' Hk Hk' Heq. rewrite Hlc' in Hk, Hk' by lia.
    assert (E22 : 22 = N.of_nat 22) by reflexivity.
    rewrite E22 in Hk, Hk'.
    destruct (class_of ll k 22 Hk) as (L & HL & HkL).
    destruct (class_of ll k' 22 Hk') as (L' & HL' & HkL').
    apply (P3 L k L' k'); [apply Hslot; [lia|exact HkL]|apply Hslot; [lia|exact HkL']|exact Heq].
Qed.

(* sae_tail unfolded by an equation (unfolding it by conversion in a hypothesis makes the
   kernel evaluate the loops at Qed) *)
Lemma sae_tail_unf : forall d ex nc, sae_tail d ex nc =
  let lc := forN 0 maxLitLenCount (fun i t => aset t i (aget ex i)) (litCount d) in
  let lenHuff := forN 0 29 (fun i t => aset t i (aget (litAndDistHuff d) (litSymbolsSize + i)))
                      (lenHuffCodes d) in
  let huff := forN litSymbolsSize litLenElems (fun i t => aset t i 0) (litAndDistHuff d) in
  let '(huff, cl, ex, nc, pan1) := calcCodeForLit huff (codeList d) ex nc in
  let '(huff, cl, ex, nc, pan2) := expandLenCodes huff cl ex nc lenHuff in
  (mkDyn huff (clcShort d) (clcLong d) cl lc (distCount d) ex nc lenHuff,
   if pan1 || pan2 then EPanic else ENone).
Proof. reflexivity. Qed.

Theorem sae_tail_sorted : forall ll xc d ex nc d1,
  lens_in ll 0 286 (litAndDistHuff d) (litCount d) ->
  ps_post ll ex nc -> oversubscribed 15 ll = false -> xc_char ll xc ->
  sae_tail d ex nc = (d1, ENone) ->
  xsorted xc d1.
Proof.
  intros ll xc d ex nc d1 Hin Hps Hov Hxc H.
  pose proof (fun L => sae_lc_get ll ex nc (litCount d) L Hps) as Hlc'.
  pose proof (fun k => sae_lh_get ll _ _ (lenHuffCodes d) k Hin) as Hlh.
  pose proof (fun i => sae_huff_get ll _ _ i Hin) as Hh1.
  destruct Hin as (Hlen & HF & Hh & _).
  rewrite sae_tail_unf in H. cbv zeta in H.
  set (lc' := forN 0 maxLitLenCount _ (litCount d)) in *.
  set (lh := forN 0 29 _ (lenHuffCodes d)) in *.
  set (huff1 := forN litSymbolsSize litLenElems _ (litAndDistHuff d)) in *.
  clearbody lc' lh huff1.
  destruct (calcCodeForLit huff1 (codeList d) ex nc) as [[[[hf2 cl2] ex3] nc2] pan1] eqn:Ec.
  destruct (expandLenCodes hf2 cl2 ex3 nc2 lh) as [[[[hf3 cl3] ex4] nc3] pan2] eqn:Ee.
  injection H as Hd Hp.
  destruct pan1; [discriminate Hp|]. destruct pan2; [discriminate Hp|]. clear Hp.
  pose proof (sort_loops ll huff1 (codeList d) ex nc lh hf2 cl2 ex3 nc2 hf3 cl3 ex4 nc3
              HF Hov Hh1 Hlh Hps Ec Ee) as Hpl.
  apply (xsorted_of_placed ll xc hf3 cl3 lc' d1 HF Hxc Hpl Hlc'); subst d1; reflexivity.
Qed.

Print Assumptions sae_tail_sorted.
