(* EngineSafetyFinal.v -- the safety theorem of EngineSafety.v with its hypotheses discharged as
   far as they are proved:
     HeaderRestartMonotone  is proved (EngineSafetyRestart.header_restart_monotone);
     LongCodesFit           remains a hypothesis here unless EngineSafetyLongFit.v proves it
                            (see that file for what is established). *)
From Verif Require Import Engine EngineTables.
From Verif Require Import Base EngineSafetyBuf EngineSafetyHeader EngineSafety EngineSafetyRestart.
From Coq Require Import List NArith ZArith Bool.
Import ListNotations.
Open Scope N_scope.

(* Memory safety and termination of the decoder model, assuming only that the long-code groups of
   every accepted literal/length code fit longCodeLookup[1264]. *)
Theorem erun_no_panic_if_long_codes_fit :
  LongCodesFit ->
  forall bufsize chunks term reads,
    bufsize <= 90000 -> src_total chunks <= 262141 ->
    Forall (Forall (fun b => b < 256)) chunks ->
    Forall (fun br => snd br <> RPanic /\ snd br <> RStuck) (erun bufsize chunks term reads).
Proof.
  intros HLF. exact (erun_no_panic HLF header_restart_monotone).
Qed.

Print Assumptions erun_no_panic_if_long_codes_fit.
