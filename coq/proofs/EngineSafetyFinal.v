(* EngineSafetyFinal.v -- the safety theorem of EngineSafety.v with both of its hypotheses
   discharged:
     HeaderRestartMonotone  proved in EngineSafetyRestart.v   (header_restart_monotone)
     LongCodesFit           proved in EngineSafetyLongFit.v   (long_codes_fit)

   erun_safe: for every bufio size up to 90000, every source that delivers at most 262141 bytes
   (values < 256) in any chunking and ends with EOF or an error, and every sequence of Read calls
   (any buffer sizes), no Read of the decoder model RModel/Engine.v ends with RPanic (a Go
   bounds check / slice check / negative shift would fail) or RStuck (a loop of the model ran out
   of fuel).  The two numeric side conditions are needed for the fuel of the model (witnesses of
   RStuck without them are described in EngineSafety.v); the byte condition is needed because
   the model's 64-bit load is an arithmetic sum (EngineSafetyRestartCex.v). *)
From Verif Require Import Engine EngineTables.
From Verif Require Import Base EngineSafetyBuf EngineSafetyHeader EngineSafety EngineSafetyRestart
  EngineSafetyLongFit.
From Coq Require Import List NArith ZArith Bool.
Import ListNotations.
Open Scope N_scope.

(* with the long-code hypothesis kept explicit *)
Theorem erun_no_panic_if_long_codes_fit :
  LongCodesFit ->
  forall bufsize chunks term reads,
    bufsize <= 90000 -> src_total chunks <= 262141 ->
    Forall (Forall (fun b => b < 256)) chunks ->
    Forall (fun br => snd br <> RPanic /\ snd br <> RStuck) (erun bufsize chunks term reads).
Proof.
  intros HLF. exact (erun_no_panic HLF header_restart_monotone).
Qed.

(* unconditional *)
Theorem erun_safe :
  forall bufsize chunks term reads,
    bufsize <= 90000 -> src_total chunks <= 262141 ->
    Forall (Forall (fun b => b < 256)) chunks ->
    Forall (fun br => snd br <> RPanic /\ snd br <> RStuck) (erun bufsize chunks term reads).
Proof.
  exact (erun_no_panic long_codes_fit header_restart_monotone).
Qed.

(* the statement of the task, with the two fuel side conditions added *)
Corollary erun_no_panic_task :
  forall bufsize chunks term reads,
    16 <= bufsize -> bufsize <= 90000 -> src_total chunks <= 262141 ->
    Forall (Forall (fun b => b < 256)) chunks ->
    Forall (fun br => snd br <> RPanic /\ snd br <> RStuck) (erun bufsize chunks term reads).
Proof.
  intros bufsize chunks term reads _. apply erun_safe.
Qed.

Print Assumptions erun_no_panic_if_long_codes_fit.
Print Assumptions erun_safe.
