(* RenderProofs.v — layers A (bit buffer) and B (block rendering) of WModel/CodecSpec.v.

   Historical note.  An earlier encode_block_statement had no premise on the tokens beyond
   block_ok ts, and was false: block_ok constrains code lengths only, and a match distance far
   outside the format (its symbol is outside the 30-entry distance table, so it is not even
   counted in the histogram) has more than 64 extra bits; write_bits then leaves more than 64
   bits in the accumulator and, for a last block, bb_flush_last (9 bytes at most) drops bits.
   Counterexample (vm_compute):  ts := [TMatch 3 (2^200+1)],  block_ok_b ts = true,
     encode_block false ts false bb_empty : length (bb_acc b') = 99   (> 64)
     encode_block false ts true  bb_empty : 264 bits rendered, pad8 (block_bits ts true) has 296.
   CodecSpec.v now defines tok_fits (a match distance has at most 64 extra bits) and
   encode_block_statement carries the premise  Forall tok_fits ts;  it follows from
   tok_ok/toks_ok with a window W <= 2^64 (toks_ok_fits below), so from the LZ77 contract. *)
From Verif Require Import CodecSpec.
From Verif Require Import HuffmanProofs.
From Coq Require Import ZArith Lia ZifyBool ZifyNat ZifyN.
Open Scope N_scope.

Ltac Zify.zify_post_hook ::= Z.div_mod_to_equations.

Notation lt256 := (fun x : N => x < 256).

(* ------------------------------------------------------------------ *)
(* validity checks                                                      *)

Lemma combine_nz : forall counts lens,
  length lens = length counts ->
  forallb (fun '(c, l) => (c =? 0) || negb (l =? 0)) (combine counts lens) = true ->
  forall n, nth n counts 0 <> 0 -> nth n lens 0 <> 0.
Proof.
  induction counts as [|c cs IH]; intros lens Hl Hf n Hn.
  - destruct n; cbn [nth] in Hn; congruence.
  - destruct lens as [|l ls]; [discriminate|].
    cbn [combine forallb] in Hf. apply andb_true_iff in Hf as [Hc Hr].
    destruct n as [|n]; cbn [nth] in *.
    + apply orb_true_iff in Hc as [Hc|Hc].
      * apply N.eqb_eq in Hc. congruence.
      * apply negb_true_iff in Hc. apply N.eqb_neq in Hc. exact Hc.
    + apply (IH ls); [cbn [length] in Hl; lia | exact Hr | exact Hn].
Qed.

Theorem lens_valid_b_sound : lens_valid_b_sound_statement.
Proof.
  intros maxl counts lens H. unfold lens_valid_b in H.
  apply andb_true_iff in H as [H H4].
  apply andb_true_iff in H as [H H3].
  apply andb_true_iff in H as [H1 H2].
  apply Nat.eqb_eq in H1.
  split; [exact H1|]. split; [|split].
  - apply Forall_forall. intros x Hx.
    rewrite forallb_forall in H2. apply H2 in Hx. apply N.leb_le in Hx. exact Hx.
  - apply negb_true_iff in H3. exact H3.
  - intros i. unfold nthN. apply combine_nz; assumption.
Qed.

Theorem event_ok_b_sound : event_ok_b_sound_statement.
Proof.
  intros e H. destruct e as [ts last | d final | | ]; cbn [event_ok event_ok_b] in *.
  - unfold block_ok, block_ok_b in *.
    destruct (tok_counts ts) as [lc dc]. destruct (block_lens ts) as [ll dl].
    apply andb_true_iff in H as [H H3]. apply andb_true_iff in H as [H1 H2].
    split; [|split]; apply lens_valid_b_sound; assumption.
  - apply andb_true_iff in H as [H Hd].
    unfold hblock_ok, hblock_ok_b in *. cbv zeta in *.
    apply andb_true_iff in H as [H1 H2].
    split; [split; apply lens_valid_b_sound; assumption|].
    apply Forall_forall. intros x Hx. rewrite forallb_forall in Hd.
    apply Hd in Hx. apply N.ltb_lt in Hx. exact Hx.
  - exact I.
  - exact I.
Qed.

(* ------------------------------------------------------------------ *)
(* bits and bytes                                                       *)

Lemma bits_of_bytes_app : forall a b, bits_of_bytes (a ++ b) = bits_of_bytes a ++ bits_of_bytes b.
Proof. intros a b. unfold bits_of_bytes. apply flat_map_app. Qed.

Lemma bits_of_bytes_cons : forall x r, bits_of_bytes (x :: r) = bits_of_N 8 x ++ bits_of_bytes r.
Proof. intros. reflexivity. Qed.

Lemma bits_of_bytes_length : forall l, length (bits_of_bytes l) = (8 * length l)%nat.
Proof.
  induction l as [|x r IH].
  - reflexivity.
  - rewrite bits_of_bytes_cons, app_length, bits_of_N_length, IH. cbn [length]. lia.
Qed.

Lemma bits_of_N_0 : forall n, bits_of_N n 0 = repeat false n.
Proof.
  induction n as [|n IH]; cbn [bits_of_N repeat]; [reflexivity|].
  change (N.odd 0) with false. change (N.div2 0) with 0. rewrite IH. reflexivity.
Qed.

Lemma bits_N_of_bits : forall l n, (length l <= n)%nat ->
  bits_of_N n (N_of_bits l) = l ++ repeat false (n - length l).
Proof.
  induction l as [|b r IH]; intros n Hn.
  - cbn [N_of_bits length app]. rewrite bits_of_N_0. f_equal. lia.
  - destruct n as [|n]; [cbn [length] in Hn; lia|].
    cbn [N_of_bits length bits_of_N]. cbn [length] in Hn.
    assert (Ho : N.odd ((if b then 1 else 0) + 2 * N_of_bits r) = b).
    { destruct b, (N_of_bits r) as [|p]; reflexivity. }
    assert (Hd : N.div2 ((if b then 1 else 0) + 2 * N_of_bits r) = N_of_bits r).
    { destruct b, (N_of_bits r) as [|p]; reflexivity. }
    rewrite Ho, Hd, IH by lia.
    replace (S n - S (length r))%nat with (n - length r)%nat by lia. reflexivity.
Qed.

Lemma pad8_mult : forall l, (length l mod 8 = 0)%nat -> pad8 l = l.
Proof. intros l H. unfold pad8. rewrite H. cbn. apply app_nil_r. Qed.

Lemma pad8_app : forall a b, (length a mod 8 = 0)%nat -> pad8 (a ++ b) = a ++ pad8 b.
Proof.
  intros a b H. unfold pad8. rewrite app_length, <- app_assoc.
  replace ((length a + length b) mod 8)%nat with (length b mod 8)%nat by lia. reflexivity.
Qed.

Lemma pad8_short : forall l, (0 < length l <= 8)%nat -> pad8 l = l ++ repeat false (8 - length l).
Proof.
  intros l H. unfold pad8. f_equal. f_equal. lia.
Qed.

Lemma pad8_bytes : forall x y, pad8 (bits_of_bytes x ++ y) = bits_of_bytes x ++ pad8 y.
Proof. intros x y. apply pad8_app. rewrite bits_of_bytes_length. lia. Qed.

Lemma pack_S : forall n l, l <> [] ->
  bytes_of_bits_fuel (S n) l = N_of_bits (firstn 8 l) :: bytes_of_bits_fuel n (skipn 8 l).
Proof. intros n l H. destruct l; [congruence | reflexivity]. Qed.

Lemma pack_nil : forall n, bytes_of_bits_fuel n [] = [].
Proof. destruct n; reflexivity. Qed.

Lemma push_bytes_eq : forall n l out, push_bytes n l out = rev (bytes_of_bits_fuel n l) ++ out.
Proof.
  induction n as [|n IH]; intros l out.
  - reflexivity.
  - destruct l as [|b l'].
    + reflexivity.
    + rewrite pack_S by discriminate.
      change (push_bytes (S n) (b :: l') out)
        with (push_bytes n (skipn 8 (b :: l')) (N_of_bits (firstn 8 (b :: l')) :: out)).
      rewrite IH. cbn [rev]. rewrite <- app_assoc. reflexivity.
Qed.

Lemma pack_bits : forall n l, (length l <= 8 * n)%nat ->
  bits_of_bytes (bytes_of_bits_fuel n l) = pad8 l.
Proof.
  induction n as [|n IH]; intros l H.
  - destruct l; [reflexivity | cbn [length] in H; lia].
  - destruct l as [|b l']; [reflexivity|].
    rewrite pack_S by discriminate.
    remember (b :: l') as l eqn:El.
    assert (Hpos : (0 < length l)%nat) by (subst l; cbn [length]; lia).
    rewrite bits_of_bytes_cons, IH by (rewrite skipn_length; lia).
    rewrite bits_N_of_bits by (rewrite firstn_length; lia).
    destruct (Nat.le_gt_cases 8 (length l)) as [Hge|Hlt].
    + rewrite firstn_length, Nat.min_l by exact Hge.
      cbn [Nat.sub repeat]. rewrite app_nil_r.
      rewrite <- (firstn_skipn 8 l) at 3.
      rewrite pad8_app; [reflexivity|].
      rewrite firstn_length, Nat.min_l by exact Hge. reflexivity.
    + rewrite firstn_all2 by lia. rewrite skipn_all2 by lia.
      change (pad8 []) with (@nil bool). rewrite app_nil_r.
      symmetry. apply pad8_short. lia.
Qed.

Lemma pack_lt : forall n l, Forall lt256 (bytes_of_bits_fuel n l).
Proof.
  induction n as [|n IH]; intros l.
  - constructor.
  - destruct l as [|b l']; [constructor|].
    rewrite pack_S by discriminate. constructor; [|apply IH].
    pose proof (N_of_bits_lt (firstn 8 (b :: l'))) as Hlt.
    assert (Hp : 2 ^ N.of_nat (length (firstn 8 (b :: l'))) <= 2 ^ 8).
    { apply N.pow_le_mono_r; [discriminate|]. rewrite firstn_length. lia. }
    change (2 ^ 8) with 256 in Hp. lia.
Qed.

Lemma push_bits_pad : forall n l out, (length l <= 8 * n)%nat ->
  bits_of_bytes (rev (push_bytes n l out)) = bits_of_bytes (rev out) ++ pad8 l.
Proof.
  intros n l out H.
  rewrite push_bytes_eq, rev_app_distr, rev_involutive, bits_of_bytes_app, pack_bits by exact H.
  reflexivity.
Qed.

Lemma push_bits : forall n l out, length l = (8 * n)%nat ->
  bits_of_bytes (rev (push_bytes n l out)) = bits_of_bytes (rev out) ++ l.
Proof.
  intros n l out H. rewrite push_bits_pad by lia. rewrite pad8_mult; [reflexivity|].
  rewrite H. lia.
Qed.

Lemma push_lt : forall n l out, Forall lt256 out -> Forall lt256 (push_bytes n l out).
Proof.
  intros n l out H. rewrite push_bytes_eq. apply Forall_app. split; [|exact H].
  apply Forall_rev. apply pack_lt.
Qed.

(* ------------------------------------------------------------------ *)
(* A: the bit buffer                                                    *)

Lemma bb_bits_nil : forall acc, bb_bits (mkbb [] acc) = acc.
Proof. reflexivity. Qed.

Lemma write_bits_bits : forall b l, bb_bits (write_bits b l) = bb_bits b ++ l.
Proof.
  intros b l. unfold write_bits, bb_bits. cbv zeta.
  destruct (64 <? length (bb_acc b ++ l))%nat eqn:E; cbn [bb_out bb_acc].
  - apply Nat.ltb_lt in E.
    rewrite (push_bits 8) by (rewrite firstn_length; lia).
    rewrite <- !app_assoc. rewrite firstn_skipn. reflexivity.
  - rewrite app_assoc. reflexivity.
Qed.

Lemma write_bits_inv : forall b l, bb_inv b -> (length l <= 64)%nat -> bb_inv (write_bits b l).
Proof.
  intros b l [Ha Ho] Hl. unfold write_bits, bb_inv. cbv zeta.
  destruct (64 <? length (bb_acc b ++ l))%nat eqn:E; cbn [bb_out bb_acc].
  - split; [|apply push_lt; exact Ho].
    rewrite skipn_length, app_length. lia.
  - apply Nat.ltb_ge in E. split; [exact E | exact Ho].
Qed.

Lemma bb_sync_bits : forall b, bb_bits (bb_sync b) = bb_bits b.
Proof.
  intros b. unfold bb_sync, bb_bits. cbv zeta. cbn [bb_out bb_acc].
  rewrite (push_bits (length (bb_acc b) / 8)) by (rewrite firstn_length; lia).
  rewrite <- app_assoc, firstn_skipn. reflexivity.
Qed.

Lemma bb_sync_acc : forall b, (length (bb_acc (bb_sync b)) < 8)%nat.
Proof.
  intros b. unfold bb_sync. cbv zeta. cbn [bb_acc]. rewrite skipn_length. lia.
Qed.

Lemma bb_sync_out : forall b, Forall lt256 (bb_out b) -> Forall lt256 (bb_out (bb_sync b)).
Proof. intros b H. unfold bb_sync. cbv zeta. cbn [bb_out]. apply push_lt. exact H. Qed.

Lemma bb_sync_inv : forall b, Forall lt256 (bb_out b) -> bb_inv (bb_sync b).
Proof.
  intros b H. split; [|apply bb_sync_out; exact H].
  pose proof (bb_sync_acc b). lia.
Qed.

Lemma bb_flush_bits : forall b, (length (bb_acc b) <= 72)%nat ->
  bb_bits (bb_flush_last b) = pad8 (bb_bits b).
Proof.
  intros b H. unfold bb_flush_last, bb_bits. cbn [bb_out bb_acc].
  rewrite push_bits_pad by lia. rewrite app_nil_r, pad8_bytes. reflexivity.
Qed.

Lemma bb_flush_inv : forall b, Forall lt256 (bb_out b) -> bb_inv (bb_flush_last b).
Proof.
  intros b H. unfold bb_flush_last, bb_inv. cbn [bb_out bb_acc length].
  split; [lia | apply push_lt; exact H].
Qed.

Lemma bb_take_bits : forall b, bits_of_bytes (frev (bb_out b)) ++ bb_acc b = bb_bits b.
Proof. intros b. rewrite frev_rev. reflexivity. Qed.

Lemma bb_take_lt : forall b, Forall lt256 (bb_out b) -> Forall lt256 (frev (bb_out b)).
Proof. intros b H. rewrite frev_rev. apply Forall_rev. exact H. Qed.

Theorem bitbuf_ok : bitbuf_statement.
Proof.
  unfold bitbuf_statement. repeat split.
  - apply write_bits_inv; assumption.
  - apply write_bits_inv; assumption.
  - apply write_bits_bits.
  - destruct H as [Ha Ho]. pose proof (bb_sync_acc b). lia.
  - apply bb_sync_out. apply H.
  - apply bb_sync_bits.
  - apply bb_sync_acc.
  - cbn. lia.
  - apply bb_flush_inv. apply H.
  - apply bb_flush_bits. destruct H as [Ha Ho]. lia.
  - cbn [bb_take fst]. apply bb_take_bits.
  - cbn [bb_take fst]. apply bb_take_lt. apply H.
  - cbn. lia.
  - cbv zeta. unfold bb_empty_block. cbn [bb_out].
    repeat (constructor; [reflexivity|]).
    apply bb_flush_inv. apply write_bits_inv; [exact H|]. rewrite bits_of_N_length. cbn. lia.
  - cbv zeta. unfold bb_empty_block.
    set (w := write_num b (if final then 1 else 0) 3).
    assert (Hw : bb_inv w).
    { apply write_bits_inv; [exact H|]. rewrite bits_of_N_length. cbn. lia. }
    assert (Hwb : bb_bits w = bb_bits b ++ [final; false; false]).
    { unfold w, write_num. rewrite write_bits_bits. destruct final; reflexivity. }
    assert (Hf : bb_bits (bb_flush_last w) = pad8 (bb_bits w)).
    { apply bb_flush_bits. destruct Hw as [Hw _]. lia. }
    rewrite Hwb in Hf. rewrite <- Hf.
    assert (Ha : bb_acc (bb_flush_last w) = []) by reflexivity.
    remember (bb_flush_last w) as b1 eqn:Eb1.
    unfold bb_bits. cbn [bb_out bb_acc rev]. rewrite Ha, !app_nil_r, <- !app_assoc.
    rewrite bits_of_bytes_app. reflexivity.
Qed.

(* ------------------------------------------------------------------ *)
(* functions that only append bits                                      *)

Definition writer (f : bitbuf -> bitbuf) (l : list bool) : Prop :=
  forall b, bb_inv b -> bb_inv (f b) /\ bb_bits (f b) = bb_bits b ++ l.
Definition is_writer (f : bitbuf -> bitbuf) : Prop := exists l, writer f l.

Lemma writer_wb : forall l, (length l <= 64)%nat -> writer (fun b => write_bits b l) l.
Proof.
  intros l Hl b Hb. split; [apply write_bits_inv; assumption | apply write_bits_bits].
Qed.

Lemma writer_num : forall c n, n <= 64 ->
  writer (fun b => write_num b c n) (bits_of_N (N.to_nat n) c).
Proof.
  intros c n Hn. unfold write_num. apply writer_wb. rewrite bits_of_N_length. lia.
Qed.

Lemma writer_comp : forall f g lf lg, writer f lf -> writer g lg ->
  writer (fun b => g (f b)) (lf ++ lg).
Proof.
  intros f g lf lg Hf Hg b Hb.
  destruct (Hf b Hb) as [Hi He]. destruct (Hg (f b) Hi) as [Hi2 He2].
  split; [exact Hi2|]. rewrite He2, He, app_assoc. reflexivity.
Qed.

Lemma isw_id : is_writer (fun b => b).
Proof. exists []. intros b Hb. split; [exact Hb | rewrite app_nil_r; reflexivity]. Qed.

Lemma isw_bits_after : forall F l, is_writer F -> (length l <= 64)%nat ->
  is_writer (fun b => write_bits (F b) l).
Proof.
  intros F l [lf HF] Hl. exists (lf ++ l).
  exact (writer_comp F (fun b => write_bits b l) lf l HF (writer_wb l Hl)).
Qed.

Lemma isw_num_after : forall F c n, is_writer F -> n <= 64 ->
  is_writer (fun b => write_num (F b) c n).
Proof.
  intros F c n [lf HF] Hn. exists (lf ++ bits_of_N (N.to_nat n) c).
  exact (writer_comp F (fun b => write_num b c n) lf _ HF (writer_num c n Hn)).
Qed.

Lemma isw_fold : forall A (step : bitbuf -> A -> bitbuf) (xs : list A),
  (forall x, In x xs -> is_writer (fun b => step b x)) ->
  is_writer (fun b => fold_left step xs b).
Proof.
  intros A step xs. induction xs as [|x r IH]; intros H.
  - exact isw_id.
  - destruct (H x (or_introl eq_refl)) as [l1 H1].
    destruct IH as [l2 H2]; [intros y Hy; apply H; right; exact Hy|].
    exists (l1 ++ l2). cbn [fold_left].
    exact (writer_comp (fun b => step b x) (fun b => fold_left step r b) l1 l2 H1 H2).
Qed.

Lemma isw_fold_after : forall A (step : bitbuf -> A -> bitbuf) (xs : list A) F,
  is_writer F ->
  (forall x, In x xs -> is_writer (fun b => step b x)) ->
  is_writer (fun b => fold_left step xs (F b)).
Proof.
  intros A step xs F [lf HF] H. destruct (isw_fold A step xs H) as [l2 H2].
  exists (lf ++ l2). exact (writer_comp F (fun b => fold_left step xs b) lf l2 HF H2).
Qed.

(* ------------------------------------------------------------------ *)
(* lengths of the generated code words                                  *)

Lemma assign_all_fst : forall l nc s, fst (nth s (assign_all l nc) (0, 0)) = nth s l 0.
Proof.
  induction l as [|x r IH]; intros nc s; cbn [assign_all].
  - destruct s; reflexivity.
  - destruct (x =? 0) eqn:E.
    + apply N.eqb_eq in E. subst x. destruct s as [|s]; cbn [nth fst]; [reflexivity | apply IH].
    + destruct s as [|s]; cbn [nth fst]; [reflexivity | apply IH].
Qed.

Lemma sym_word_length : forall lens s,
  length (sym_word (gen_codes lens) s) = N.to_nat (nthN lens s).
Proof.
  intros lens s. unfold sym_word, code_word, gen_codes.
  rewrite code_bits_length, assign_all_fst. reflexivity.
Qed.

Lemma nthN_le : forall lens m s, Forall (fun x => x <= m) lens -> nthN lens s <= m.
Proof.
  intros lens m s H. unfold nthN.
  destruct (nth_in_or_default (N.to_nat s) lens 0) as [Hin|Hd].
  - rewrite Forall_forall in H. apply H. exact Hin.
  - rewrite Hd. lia.
Qed.

Lemma sym_word_le : forall lens m s, Forall (fun x => x <= N.of_nat m) lens ->
  (length (sym_word (gen_codes lens) s) <= m)%nat.
Proof.
  intros lens m s H. rewrite sym_word_length. pose proof (nthN_le lens _ s H). lia.
Qed.

Lemma lens_valid_le : forall m counts lens, lens_valid m counts lens ->
  Forall (fun x => x <= N.of_nat m) lens.
Proof. intros m counts lens [_ [H _]]. exact H. Qed.

(* ------------------------------------------------------------------ *)
(* the header                                                           *)

Lemma cl_extra_bits_le : forall s, cl_extra_bits s <= 7.
Proof.
  intros s. unfold cl_extra_bits.
  destruct (s =? 16); [lia|]. destruct (s =? 17); [lia|]. destruct (s =? 18); lia.
Qed.

Lemma write_header_writer : forall ll dl final,
  Forall (fun x => x <= N.of_nat 7) (generate 7 (cl_hist ll dl)) ->
  is_writer (write_header ll dl final).
Proof.
  intros ll dl final H7. unfold cl_hist, cl_data in H7. cbv zeta in H7.
  unfold write_header. cbv zeta.
  assert (Hstep : forall cll,
    Forall (fun x => x <= N.of_nat 7) cll -> forall it : N * N,
    is_writer (fun bb =>
      if 16 <=? fst it
      then write_num (write_bits bb (code_word (nth (N.to_nat (fst it)) (gen_codes cll) (0, 0))))
                     (snd it) (cl_extra_bits (fst it))
      else write_bits bb (code_word (nth (N.to_nat (fst it)) (gen_codes cll) (0, 0))))).
  { intros cll Hc it.
    assert (Hw : (length (code_word (nth (N.to_nat (fst it)) (gen_codes cll) (0%N, 0%N))) <= 64)%nat).
    { pose proof (sym_word_le cll 7 (fst it) Hc) as Hs. unfold sym_word in Hs. lia. }
    destruct (16 <=? fst it).
    - apply isw_num_after; [apply isw_bits_after; [exact isw_id | exact Hw]|].
      pose proof (cl_extra_bits_le (fst it)). lia.
    - apply isw_bits_after; [exact isw_id | exact Hw]. }
  destruct (used_count dl =? 0) eqn:E.
  - apply isw_fold_after.
    + apply isw_fold_after.
      * repeat (apply isw_num_after; [|lia]). exact isw_id.
      * intros s _. apply isw_num_after; [exact isw_id | lia].
    + intros it _. apply (Hstep _ H7 it).
  - apply isw_fold_after.
    + apply isw_fold_after.
      * repeat (apply isw_num_after; [|lia]). exact isw_id.
      * intros s _. apply isw_num_after; [exact isw_id | lia].
    + intros it _. apply (Hstep _ H7 it).
Qed.

Lemma write_header_bits : forall ll dl final b,
  Forall (fun x => x <= N.of_nat 7) (generate 7 (cl_hist ll dl)) -> bb_inv b ->
  bb_inv (write_header ll dl final b) /\
  bb_bits (write_header ll dl final b) = bb_bits b ++ header_bits ll dl final.
Proof.
  intros ll dl final b H7 Hb.
  destruct (write_header_writer ll dl final H7) as [l W].
  assert (He : header_bits ll dl final = l).
  { unfold header_bits. destruct (W bb_empty) as [_ He].
    - split; [cbn; lia | constructor].
    - rewrite He. reflexivity. }
  rewrite He. apply W. exact Hb.
Qed.

(* ------------------------------------------------------------------ *)
(* tokens                                                               *)

Lemma len_symbol_extra : forall len, snd (fst (len_symbol len)) <= 5.
Proof.
  intros len. unfold len_symbol. cbv zeta.
  repeat match goal with |- context [if ?c then _ else _] => destruct c end;
    cbn [fst snd]; lia.
Qed.

Definition tokW (lcodes dcodes : list (N * N)) (t : tok) : Prop :=
  writer (fun b => write_token lcodes dcodes b t) (token_bits lcodes dcodes t).

Lemma write_token_writer : forall litlens distlens t,
  Forall (fun x => x <= N.of_nat 15) litlens -> Forall (fun x => x <= N.of_nat 15) distlens ->
  tok_fits t -> tokW (gen_codes litlens) (gen_codes distlens) t.
Proof.
  intros litlens distlens t Hl Hd Ht. unfold tokW.
  destruct t as [x | len dist]; cbn [write_token token_bits].
  - apply writer_wb. pose proof (sym_word_le litlens 15 x Hl). lia.
  - pose proof (len_symbol_extra len) as Hlb.
    destruct (len_symbol len) as [[ls lb] lv]. cbn [fst snd] in Hlb.
    cbn [tok_fits] in Ht.
    destruct (dist_symbol dist) as [ds dv]. cbn [fst] in Ht.
    assert (H1 : (length (sym_word (gen_codes litlens) ls ++ bits_of_N (N.to_nat lb) lv) <= 64)%nat).
    { rewrite app_length, bits_of_N_length. pose proof (sym_word_le litlens 15 ls Hl). lia. }
    assert (H2 : (length (sym_word (gen_codes distlens) ds) <= 64)%nat).
    { pose proof (sym_word_le distlens 15 ds Hd). lia. }
    pose proof (writer_comp _ _ _ _
                  (writer_comp _ _ _ _ (writer_wb _ H1) (writer_wb _ H2))
                  (writer_num dv (dist_extra_bits ds) Ht)) as W.
    intros b Hb. destruct (W b Hb) as [Hi He]. cbv beta in Hi, He.
    split; [exact Hi|]. rewrite He, <- !app_assoc. reflexivity.
Qed.

Lemma encode_tokens_spec : forall lc dc lim ts b,
  bb_inv b -> Forall (tokW lc dc) ts ->
  forall rest b1, encode_tokens lc dc lim ts b = (rest, b1) ->
  bb_inv b1 /\ (ts <> [] -> (length rest < length ts)%nat) /\ Forall (tokW lc dc) rest /\
  bb_bits b1 ++ flat_map (token_bits lc dc) rest = bb_bits b ++ flat_map (token_bits lc dc) ts.
Proof.
  intros lc dc lim ts. induction ts as [|t r IH]; intros b Hb HP rest b1 E.
  - cbn [encode_tokens] in E. inversion E; subst.
    split; [exact Hb|]. split; [congruence|]. split; [constructor | reflexivity].
  - cbn [encode_tokens] in E.
    inversion HP as [|t0 r0 Ht Hr]; subst.
    destruct (Ht b Hb) as [Hi He].
    destruct (lim <=? bb_idx (write_token lc dc b t)).
    + inversion E; subst. split; [exact Hi|].
      split; [intros _; cbn [length]; lia|]. split; [exact Hr|].
      rewrite He. cbn [flat_map]. rewrite <- app_assoc. reflexivity.
    + destruct (IH _ Hi Hr rest b1 E) as [Hi1 [Hlen [HP1 Hb1]]].
      split; [exact Hi1|]. split.
      * intros _. cbn [length]. destruct r as [|t' r']; [|specialize (Hlen ltac:(discriminate)); lia].
        cbn [encode_tokens] in E. inversion E; subst. cbn [length]. lia.
      * split; [exact HP1|]. rewrite Hb1, He. cbn [flat_map]. rewrite <- app_assoc. reflexivity.
Qed.

(* ------------------------------------------------------------------ *)
(* the rounds, generically in the per-round packer                      *)

Section Rounds.
  Variable T : Type.
  Variable enc : list T -> bitbuf -> list T * bitbuf.
  Variable bitsof : list T -> list bool.
  Variable P : list T -> Prop.
  Variable last : bool.

  Hypothesis bitsof_nil : bitsof [] = [].
  Hypothesis enc_spec : forall ts b, ts <> [] -> bb_inv b -> P ts ->
    forall rest b1, enc ts b = (rest, b1) ->
    bb_inv b1 /\ (length rest < length ts)%nat /\ P rest /\
    bb_bits b1 ++ bitsof rest = bb_bits b ++ bitsof ts.

  Fixpoint grounds (fuel : nat) (ts : list T) (b : bitbuf) (chunks : list (list N))
    : list (list N) * bitbuf :=
    match fuel with
    | O => (chunks, b)
    | S f =>
      match ts with
      | [] => (chunks, b)
      | _ =>
        let '(rest, b1) := enc ts b in
        let b2 := match rest with [] => if last then bb_flush_last b1 else b1 | _ => b1 end in
        let '(chunk, b3) := bb_take b2 in
        grounds f rest b3 (chunks ++ [chunk])
      end
    end.

  Lemma grounds_nil : forall fuel b chunks, grounds fuel [] b chunks = (chunks, b).
  Proof. destruct fuel; reflexivity. Qed.

  Lemma grounds_S : forall fuel t r b chunks rest b1, enc (t :: r) b = (rest, b1) ->
    grounds (S fuel) (t :: r) b chunks =
    let b2 := match rest with [] => if last then bb_flush_last b1 else b1 | _ => b1 end in
    grounds fuel rest (mkbb [] (bb_acc b2)) (chunks ++ [frev (bb_out b2)]).
  Proof. intros fuel t r b chunks rest b1 E. cbn [grounds]. rewrite E. reflexivity. Qed.

  Definition fin (l : list bool) : list bool := if last then pad8 l else l.

  Lemma chunk_bits : forall chunks b rest,
    bits_of_bytes (concat (chunks ++ [frev (bb_out b)])) ++ bb_acc b ++ rest =
    bits_of_bytes (concat chunks) ++ bb_bits b ++ rest.
  Proof.
    intros chunks b rest. rewrite concat_app, bits_of_bytes_app. cbn [concat].
    rewrite app_nil_r, <- (bb_take_bits b), <- !app_assoc. reflexivity.
  Qed.

  Lemma grounds_spec : forall fuel ts b chunks,
    (length ts <= fuel)%nat -> ts <> [] -> P ts -> bb_inv b ->
    Forall (Forall lt256) chunks ->
    forall chunks' b', grounds fuel ts b chunks = (chunks', b') ->
    bits_of_bytes (concat chunks') ++ bb_acc b'
      = fin (bits_of_bytes (concat chunks) ++ bb_bits b ++ bitsof ts) /\
    bb_out b' = [] /\ (length (bb_acc b') <= 64)%nat /\ (last = true -> bb_acc b' = []) /\
    Forall (Forall lt256) chunks'.
  Proof.
    induction fuel as [|fuel IH]; intros ts b chunks Hlen Hne HP Hb Hch chunks' b' E.
    - destruct ts; [congruence | cbn [length] in Hlen; lia].
    - destruct ts as [|t r]; [congruence|].
      destruct (enc (t :: r) b) as [rest b1] eqn:Eenc.
      rewrite (grounds_S fuel t r b chunks rest b1 Eenc) in E. cbv zeta in E.
      destruct (enc_spec (t :: r) b Hne Hb HP rest b1 Eenc) as [Hi1 [Hl1 [HP1 Hb1]]].
      destruct rest as [|t' r'].
      + rewrite grounds_nil in E. rewrite bitsof_nil, app_nil_r in Hb1.
        unfold fin. destruct last eqn:Elast.
        * assert (Hf : bb_bits (bb_flush_last b1) = pad8 (bb_bits b1)).
          { apply bb_flush_bits. destruct Hi1 as [Ha _]. lia. }
          assert (Ha : bb_acc (bb_flush_last b1) = []) by reflexivity.
          pose proof (bb_flush_inv b1 (proj2 Hi1)) as Hfi.
          remember (bb_flush_last b1) as bf eqn:Ebf. clear Ebf.
          inversion E; subst chunks' b'. clear E. cbn [bb_out bb_acc].
          split.
          { pose proof (chunk_bits chunks bf []) as Hc.
            rewrite !app_nil_r in Hc. rewrite Ha, app_nil_r. rewrite Ha, app_nil_r in Hc.
            rewrite Hc, Hf, Hb1, pad8_bytes. reflexivity. }
          split; [reflexivity|]. split; [rewrite Ha; cbn [length]; lia|].
          split; [intros _; exact Ha|].
          apply Forall_app. split; [exact Hch|]. constructor; [|constructor].
          apply bb_take_lt. apply Hfi.
        * inversion E; subst chunks' b'. clear E. cbn [bb_out bb_acc].
          split.
          { pose proof (chunk_bits chunks b1 []) as Hc. rewrite !app_nil_r in Hc.
            rewrite Hc, Hb1. reflexivity. }
          split; [reflexivity|]. split; [apply Hi1|]. split; [discriminate|].
          apply Forall_app. split; [exact Hch|]. constructor; [|constructor].
          apply bb_take_lt. apply Hi1.
      + apply IH in E.
        * rewrite bb_bits_nil, chunk_bits, Hb1 in E. exact E.
        * lia.
        * discriminate.
        * exact HP1.
        * split; [apply Hi1 | constructor].
        * apply Forall_app. split; [exact Hch|]. constructor; [|constructor].
          apply bb_take_lt. apply Hi1.
  Qed.
End Rounds.

(* ------------------------------------------------------------------ *)
(* B: dynamic blocks                                                    *)

Lemma encode_rounds_eq : forall fuel sync lc dc last ts b chunks,
  encode_rounds fuel sync lc dc last ts b chunks =
  grounds tok (fun ts b => encode_tokens lc dc out_limit ts (if sync then bb_sync b else b))
          last fuel ts b chunks.
Proof.
  induction fuel as [|fuel IH]; intros sync lc dc last ts b chunks.
  - reflexivity.
  - destruct ts as [|t r]; [reflexivity|].
    cbn [encode_rounds grounds].
    destruct (encode_tokens lc dc out_limit (t :: r) (if sync then bb_sync b else b)) as [rest b1].
    unfold bb_take. apply IH.
Qed.

Lemma enc_tokens_round_spec : forall (sync : bool) lc dc ts b,
  ts <> [] -> bb_inv b -> Forall (tokW lc dc) ts ->
  forall rest b1,
  encode_tokens lc dc out_limit ts (if sync then bb_sync b else b) = (rest, b1) ->
  bb_inv b1 /\ (length rest < length ts)%nat /\ Forall (tokW lc dc) rest /\
  bb_bits b1 ++ flat_map (token_bits lc dc) rest = bb_bits b ++ flat_map (token_bits lc dc) ts.
Proof.
  intros sync lc dc ts b Hne Hb HP rest b1 E.
  assert (Hb0 : bb_inv (if sync then bb_sync b else b)).
  { destruct sync; [apply bb_sync_inv; apply Hb | exact Hb]. }
  assert (He0 : bb_bits (if sync then bb_sync b else b) = bb_bits b).
  { destruct sync; [apply bb_sync_bits | reflexivity]. }
  destruct (encode_tokens_spec lc dc out_limit ts _ Hb0 HP rest b1 E) as [Hi [Hl [HP1 Hbits]]].
  rewrite He0 in Hbits. auto.
Qed.

Theorem encode_block_ok : encode_block_statement.
Proof.
  intros sync ts last b Hacc Hok Hfits.
  destruct (encode_block sync ts last b) as [chunks b'] eqn:E.
  unfold encode_block in E. unfold block_ok, block_lens in Hok. unfold block_bits, block_lens.
  destruct (tok_counts ts) as [lc dc]. cbv zeta in E.
  destruct Hok as [H1 [H2 H3]].
  apply lens_valid_le in H1. apply lens_valid_le in H2. apply lens_valid_le in H3.
  set (ll := generate 15 (reduce_counts lc)) in *. set (dl := generate 15 dc) in *.
  assert (Hb0 : bb_inv (mkbb [] (bb_acc b))) by (split; [exact Hacc | constructor]).
  destruct (write_header_bits ll dl last _ H3 Hb0) as [Hi He].
  rewrite encode_rounds_eq in E.
  apply (grounds_spec tok _ (flat_map (token_bits (gen_codes ll) (gen_codes dl)))
                      (Forall (tokW (gen_codes ll) (gen_codes dl))) last eq_refl
                      (enc_tokens_round_spec sync (gen_codes ll) (gen_codes dl))) in E.
  - destruct E as [E1 [E2 [E3 [E4 E5]]]].
    split; [|auto].
    rewrite E1, He, bb_bits_nil, flat_map_app. cbn [flat_map token_bits concat].
    change (bits_of_bytes []) with (@nil bool). cbn [app]. rewrite app_nil_r.
    unfold fin. rewrite <- !app_assoc. reflexivity.
  - rewrite app_length. cbn [length]. lia.
  - destruct ts; discriminate.
  - apply Forall_app. split.
    + eapply Forall_impl; [|exact Hfits]. intros t Ht. apply write_token_writer; assumption.
    + constructor; [|constructor]. apply write_token_writer; [assumption | assumption | exact I].
  - exact Hi.
  - constructor.
Qed.

(* tok_fits follows from the validity of tokens (LZ77Spec.tok_ok) for any window <= 2^64 *)
Lemma dist_extra_bits_bound : forall d, d <= 2 ^ 64 -> dist_extra_bits (fst (dist_symbol d)) <= 64.
Proof.
  intros d Hd. unfold dist_symbol.
  destruct (d <=? 2) eqn:E2; cbn [fst]; unfold dist_extra_bits.
  - apply N.leb_le in E2. destruct (d - 1 <? 4) eqn:E4; [lia|]. apply N.ltb_ge in E4. lia.
  - apply N.leb_gt in E2. cbv zeta.
    set (d' := d - 1). set (nb := N.size d' - 2).
    assert (Hd' : 2 <= d' < 2 ^ 64) by (unfold d'; lia).
    assert (Hs : N.size d' = N.succ (N.log2 d')) by (apply N.size_log2; lia).
    assert (Hl1 : 1 <= N.log2 d').
    { change 1 with (N.log2 2). apply N.log2_le_mono. lia. }
    assert (Hl2 : N.log2 d' < 64) by (apply N.log2_lt_pow2; lia).
    assert (Hsh : N.shiftr d' nb < 4).
    { rewrite N.shiftr_div_pow2. apply N.div_lt_upper_bound.
      - apply N.pow_nonzero. discriminate.
      - pose proof (N.size_gt d') as Hg.
        replace (N.size d') with (nb + 2) in Hg by (unfold nb; lia).
        rewrite N.pow_add_r in Hg. change (2 ^ 2) with 4 in Hg. lia. }
    assert (Hnb : nb <= 62) by (unfold nb; lia).
    destruct (N.shiftr d' nb + 2 * nb <? 4); [lia|].
    assert (Hdiv : (N.shiftr d' nb + 2 * nb) / 2 <= nb + 1).
    { apply N.lt_succ_r. apply N.div_lt_upper_bound; lia. }
    lia.
Qed.

Lemma toks_ok_fits : forall W ts before, W <= 2 ^ 64 -> toks_ok W before ts -> Forall tok_fits ts.
Proof.
  intros W ts. induction ts as [|t r IH]; intros before HW H.
  - constructor.
  - cbn [toks_ok] in H. destruct H as [Ht Hr]. constructor; [|apply (IH _ HW Hr)].
    destruct t as [x | len dist]; cbn [tok_fits]; [exact I|].
    cbn [tok_ok] in Ht. apply dist_extra_bits_bound. lia.
Qed.

(* ------------------------------------------------------------------ *)
(* B: Huffman-only blocks                                               *)

Definition hbits (lc : list (N * N)) (data : list N) : list bool :=
  match data with
  | [] => []
  | _ => flat_map (sym_word lc) data ++ sym_word lc 256
  end.

Lemma fold_app_words : forall lc data acc,
  fold_left (fun a x => a ++ sym_word lc x) data acc = acc ++ flat_map (sym_word lc) data.
Proof.
  intros lc data. induction data as [|x r IH]; intros acc; cbn [fold_left flat_map].
  - rewrite app_nil_r. reflexivity.
  - rewrite IH, app_assoc. reflexivity.
Qed.

(* bb_sync on a buffer given by its fields *)
Lemma sync_mk : forall out acc, Forall lt256 out ->
  let bs := bb_sync (mkbb out acc) in
  bb_bits bs = bits_of_bytes (rev out) ++ acc /\ (length (bb_acc bs) < 8)%nat /\
  Forall lt256 (bb_out bs).
Proof.
  intros out acc Ho bs. split; [|split].
  - unfold bs. rewrite bb_sync_bits. reflexivity.
  - apply bb_sync_acc.
  - apply bb_sync_out. exact Ho.
Qed.

Definition ebytes_tail (lc : list (N * N)) (data : list N) (b : bitbuf) : list N * bitbuf :=
  let acc := fold_left (fun a x => a ++ sym_word lc x) data (bb_acc b) in
  let b1 := bb_sync (mkbb (bb_out b) acc) in
  ([], mkbb (bb_out b1) (bb_acc b1 ++ sym_word lc 256)).

Lemma ebytes_tail_spec : forall lc data b,
  (length (sym_word lc 256) <= 56)%nat -> Forall lt256 (bb_out b) ->
  forall rest b1, ebytes_tail lc data b = (rest, b1) ->
  rest = [] /\ bb_inv b1 /\
  bb_bits b1 = bb_bits b ++ flat_map (sym_word lc) data ++ sym_word lc 256.
Proof.
  intros lc data b H256 Ho rest b1 E. unfold ebytes_tail in E. cbv zeta in E.
  destruct (sync_mk (bb_out b) (fold_left (fun a x => a ++ sym_word lc x) data (bb_acc b)) Ho)
    as [Hs1 [Hs2 Hs3]].
  remember (bb_sync (mkbb (bb_out b) (fold_left (fun a x => a ++ sym_word lc x) data (bb_acc b))))
    as bs eqn:Ebs. clear Ebs.
  inversion E; subst rest b1. clear E.
  split; [reflexivity|]. split.
  - split; cbn [bb_out bb_acc]; [rewrite app_length; lia | exact Hs3].
  - unfold bb_bits in *. cbn [bb_out bb_acc]. rewrite app_assoc, Hs1, fold_app_words.
    rewrite <- !app_assoc. reflexivity.
Qed.

Lemma encode_bytes_4 : forall lc x y z w r b,
  encode_bytes lc (x :: y :: z :: w :: r) b =
  let acc := bb_acc b ++ sym_word lc x ++ sym_word lc y ++ sym_word lc z in
  let b1 := bb_sync (mkbb (bb_out b) acc) in
  if hlimit <=? bb_idx b1 then (w :: r, b1) else encode_bytes lc (w :: r) b1.
Proof. reflexivity. Qed.

Lemma encode_bytes_spec : forall lc, (length (sym_word lc 256) <= 56)%nat ->
  forall n data b, (length data <= n)%nat -> Forall lt256 (bb_out b) ->
  forall rest b1, encode_bytes lc data b = (rest, b1) ->
  bb_inv b1 /\ (data <> [] -> (length rest < length data)%nat) /\
  bb_bits b1 ++ hbits lc rest = bb_bits b ++ flat_map (sym_word lc) data ++ sym_word lc 256.
Proof.
  intros lc H256.
  assert (Htail : forall data b, Forall lt256 (bb_out b) ->
    forall rest b1, ebytes_tail lc data b = (rest, b1) ->
    bb_inv b1 /\ (data <> [] -> (length rest < length data)%nat) /\
    bb_bits b1 ++ hbits lc rest = bb_bits b ++ flat_map (sym_word lc) data ++ sym_word lc 256).
  { intros data b Ho rest b1 E.
    destruct (ebytes_tail_spec lc data b H256 Ho rest b1 E) as [Hr [Hi Hb]]. subst rest.
    split; [exact Hi|]. split.
    - intros Hne. destruct data; [congruence | cbn [length]; lia].
    - cbn [hbits]. rewrite app_nil_r. exact Hb. }
  induction n as [|n IH]; intros data b Hlen Ho rest b1 E.
  - destruct data; [|cbn [length] in Hlen; lia].
    change (encode_bytes lc [] b) with (ebytes_tail lc [] b) in E. apply (Htail _ _ Ho _ _ E).
  - destruct data as [|x [|y [|z [|w r]]]].
    + change (encode_bytes lc [] b) with (ebytes_tail lc [] b) in E. apply (Htail _ _ Ho _ _ E).
    + change (encode_bytes lc [x] b) with (ebytes_tail lc [x] b) in E. apply (Htail _ _ Ho _ _ E).
    + change (encode_bytes lc [x; y] b) with (ebytes_tail lc [x; y] b) in E.
      apply (Htail _ _ Ho _ _ E).
    + change (encode_bytes lc [x; y; z] b) with (ebytes_tail lc [x; y; z] b) in E.
      apply (Htail _ _ Ho _ _ E).
    + rewrite encode_bytes_4 in E. cbv zeta in E.
      destruct (sync_mk (bb_out b)
                  (bb_acc b ++ sym_word lc x ++ sym_word lc y ++ sym_word lc z) Ho)
        as [Hs1 [Hs2 Hs3]].
      remember (bb_sync (mkbb (bb_out b)
                  (bb_acc b ++ sym_word lc x ++ sym_word lc y ++ sym_word lc z)))
        as bs eqn:Ebs. clear Ebs.
      assert (Hbs : bb_bits bs = bb_bits b ++ sym_word lc x ++ sym_word lc y ++ sym_word lc z).
      { rewrite Hs1. unfold bb_bits. rewrite <- app_assoc. reflexivity. }
      destruct (hlimit <=? bb_idx bs).
      * inversion E; subst rest b1. clear E.
        split; [split; [lia | exact Hs3]|]. split; [intros _; cbn [length]; lia|].
        rewrite Hbs. cbn [hbits flat_map]. rewrite <- !app_assoc. reflexivity.
      * apply IH in E; [|cbn [length] in *; lia | exact Hs3].
        destruct E as [Hi [Hl Hb]]. split; [exact Hi|]. split.
        { intros _. specialize (Hl ltac:(discriminate)). cbn [length] in *. lia. }
        rewrite Hb, Hbs. cbn [flat_map]. rewrite <- !app_assoc. reflexivity.
Qed.

Lemma hencode_rounds_eq : forall fuel lc final data b chunks,
  hencode_rounds fuel lc final data b chunks =
  grounds N (fun d b => encode_bytes lc d (bb_sync b)) final fuel data b chunks.
Proof.
  induction fuel as [|fuel IH]; intros lc final data b chunks.
  - reflexivity.
  - destruct data as [|x r]; [reflexivity|].
    cbn [hencode_rounds grounds].
    destruct (encode_bytes lc (x :: r) (bb_sync b)) as [rest b1].
    unfold bb_take. apply IH.
Qed.

Lemma enc_bytes_round_spec : forall lc, (length (sym_word lc 256) <= 56)%nat ->
  forall data b, data <> [] -> bb_inv b -> True ->
  forall rest b1, encode_bytes lc data (bb_sync b) = (rest, b1) ->
  bb_inv b1 /\ (length rest < length data)%nat /\ True /\
  bb_bits b1 ++ hbits lc rest = bb_bits b ++ hbits lc data.
Proof.
  intros lc H256 data b Hne Hb _ rest b1 E.
  destruct (encode_bytes_spec lc H256 (length data) data (bb_sync b) (le_n _)
              (bb_sync_out b (proj2 Hb)) rest b1 E) as [Hi [Hl Hbits]].
  split; [exact Hi|]. split; [apply Hl; exact Hne|]. split; [exact I|].
  rewrite Hbits, bb_sync_bits. destruct data; [congruence | reflexivity].
Qed.

Theorem hencode_block_ok : hencode_block_statement.
Proof.
  intros data final b Hacc Hout Hne Hok Hdata.
  destruct (hencode_block data final b) as [chunks b'] eqn:E.
  unfold hencode_block in E. cbv zeta in E.
  unfold hblock_ok in Hok. cbv zeta in Hok. unfold hblock_bits. cbv zeta.
  unfold hblock_lens in *.
  set (ll := generate 15 (reduce_counts (fold_left (fun h x => incN h x 1) data (repeat 0 513)))) in *.
  destruct Hok as [H1 H2]. apply lens_valid_le in H1. apply lens_valid_le in H2.
  assert (Hb0 : bb_inv b) by (split; [exact Hacc | rewrite Hout; constructor]).
  destruct (write_header_bits ll (repeat 0 30) final b H2 Hb0) as [Hi He].
  assert (H256 : (length (sym_word (gen_codes ll) 256) <= 56)%nat).
  { pose proof (sym_word_le ll 15 256 H1). lia. }
  rewrite hencode_rounds_eq in E.
  apply (grounds_spec N _ (hbits (gen_codes ll)) (fun _ => True) final eq_refl
                      (enc_bytes_round_spec (gen_codes ll) H256)) in E.
  - destruct E as [E1 [E2 [E3 [E4 E5]]]].
    split; [|auto].
    rewrite E1, He. cbn [concat]. change (bits_of_bytes []) with (@nil bool). cbn [app].
    assert (Hbb : bb_bits b = bb_acc b) by (unfold bb_bits; rewrite Hout; reflexivity).
    rewrite Hbb. destruct data as [|x r]; [congruence|]. cbn [hbits].
    unfold fin. rewrite <- !app_assoc. reflexivity.
  - lia.
  - exact Hne.
  - exact I.
  - exact Hi.
  - constructor.
Qed.

Print Assumptions lens_valid_b_sound.
Print Assumptions event_ok_b_sound.
Print Assumptions bitbuf_ok.
Print Assumptions encode_block_ok.
Print Assumptions hencode_block_ok.
Print Assumptions toks_ok_fits.
