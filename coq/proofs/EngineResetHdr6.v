(* EngineResetHdr6.v -- Reset-equivalence proof: from setupDynamicHeader to readHeader.
   Given the two-run statement for setupDynamicHeader, tryDecodeHeader and readHeader on two
   states with the same live part give the same error, states with the same live part, and
   tables with equal lookups whenever the phase becomes HeaderDecoded. *)
From Coq Require Import List NArith ZArith Bool Lia ZifyBool ZifyNat ZifyN.
From Verif Require Import Base Engine EngineTables EngineSafetyBase EngineResetDefs.
Import ListNotations.
Open Scope N_scope.

Definition setupDynamicHeader_sim_statement : Prop :=
  forall s1 s2 s1' e1 s2' e2,
    core s1 = core s2 ->
    setupDynamicHeader s1 = (s1', e1) -> setupDynamicHeader s2 = (s2', e2) ->
    e1 = e2 /\ core s1' = core s2' /\ ov s1' = ov s1 /\
    (e1 = ENone -> phase s1' = phaseHeaderDecoded /\ lookups_eq (tb s1') (tb s2')) /\
    (e1 <> ENone -> phase s1' = phase s1).

Ltac sproj :=
  cbn [rd inputNil ov tb phase bfinal litBlockLength headerBuffered headerBuffer dyn roffset
       set_rd set_inputNil set_ov set_tb set_phase set_bfinal set_litBlockLength set_header
       set_dyn set_roffset set_dyn_huff set_dyn_counts
       litAndDistHuff clcShort clcLong codeList litCount distCount litExpandCount nextCode lenHuffCodes
       litShort litLong distShort distLong
       r_bits r_len r_in r_inlen br_set_bits br_set_len br_set_in] in *.

(* replace s1 by "s2 with other tables and scratch" *)
Ltac split_state s1 s2 Hc t1 d1 :=
  let Hs := fresh "Hs" in
  pose proof (core_eq_ex s1 s2 Hc) as Hs;
  set (t1 := tb s1) in Hs; set (d1 := dyn s1) in Hs; clearbody t1 d1; subst s1; clear Hc.

Definition hdr_concl (s1 s2 s1' s2' : inflate) (e1 e2 : ierr) : Prop :=
  e1 = e2 /\ core s1' = core s2' /\ ov s1' = ov s1 /\
  (phase s1' = phaseHeaderDecoded -> lookups_eq (tb s1') (tb s2')).

Ltac pinj H := apply pair_equal_spec in H; destruct H as [<- <-].

Ltac fin_ph Hph :=
  unfold hdr_concl; sproj; split; [reflexivity|]; split; [reflexivity|]; split; [reflexivity|];
  let Hcx := fresh "Hcx" in intros Hcx; try contradiction; try discriminate Hcx.

Section Hdr.
  Hypothesis SDH : setupDynamicHeader_sim_statement.

  Lemma tryDecodeHeader_sim : forall s1 s2 s1' e1 s2' e2,
    core s1 = core s2 -> phase s1 <> phaseHeaderDecoded ->
    tryDecodeHeader s1 = (s1', e1) -> tryDecodeHeader s2 = (s2', e2) ->
    hdr_concl s1 s2 s1' s2' e1 e2.
  Proof.
    intros s1 s2 s1' e1 s2' e2 Hc Hph H1 H2.
    split_state s1 s2 Hc t1 d1.
    destruct s2 as [r i o t2 p bf lbl hbd hb d2 ro]. sproj.
    unfold tryDecodeHeader, readBits, loadBits in H1, H2. sproj.
    destruct (load_lt57 r) as [b1|].
    2:{ pinj H1. pinj H2. fin_ph Hph. }
    unfold next_bits in H1, H2. sproj.
    destruct (load_lt57 (br_drop b1 1)) as [b2|].
    2:{ pinj H1. pinj H2. fin_ph Hph. }
    sproj.
    destruct (r_len (br_drop b2 2) <? 0)%Z.
    { pinj H1. pinj H2. fin_ph Hph. }
    destruct (N.land (r_bits b2) (N.ones 2) =? 0).
    { (* stored block *)
      unfold prepareForLitBlock, loadBits in H1, H2. sproj.
      destruct (load_lt57 (br_drop b2 2)) as [b3|].
      2:{ pinj H1. pinj H2. fin_ph Hph. }
      sproj.
      destruct (r_len b3 <? 0)%Z.
      { pinj H1. pinj H2. fin_ph Hph. }
      cbv zeta in H1, H2.
      destruct (u8 (Z.to_N (r_len b3) / 8) <? 4).
      { pinj H1. pinj H2. fin_ph Hph. }
      match type of H1 with (if ?c then _ else _) = _ => destruct c end.
      { pinj H1. pinj H2. fin_ph Hph. }
      match type of H1 with (let '(_, _) := ?c in _) = _ => destruct c as [bl bits] end.
      pinj H1. pinj H2. fin_ph Hph. }
    destruct (N.land (r_bits b2) (N.ones 2) =? 1).
    { (* static *)
      unfold setupStaticHeader in H1, H2. sproj.
      pinj H1. pinj H2. fin_ph Hph. apply lookups_eq_refl. }
    destruct (N.land (r_bits b2) (N.ones 2) =? 2).
    { (* dynamic *)
      match type of H1 with setupDynamicHeader ?S1 = _ =>
        match type of H2 with setupDynamicHeader ?S2 = _ =>
          destruct (SDH S1 S2 s1' e1 s2' e2 eq_refl H1 H2) as (A1 & A2 & A3 & A4 & A5)
        end end.
      unfold hdr_concl. sproj. split; [exact A1|]. split; [exact A2|]. split; [exact A3|].
      intros Hp. destruct e1.
      - apply (A4 eq_refl).
      - exfalso. apply Hph. rewrite <- Hp. symmetry. apply A5. discriminate.
      - exfalso. apply Hph. rewrite <- Hp. symmetry. apply A5. discriminate.
      - exfalso. apply Hph. rewrite <- Hp. symmetry. apply A5. discriminate.
      - exfalso. apply Hph. rewrite <- Hp. symmetry. apply A5. discriminate.
      - exfalso. apply Hph. rewrite <- Hp. symmetry. apply A5. discriminate.
      - exfalso. apply Hph. rewrite <- Hp. symmetry. apply A5. discriminate.
      - exfalso. apply Hph. rewrite <- Hp. symmetry. apply A5. discriminate. }
    pinj H1. pinj H2. fin_ph Hph.
  Qed.

  Lemma readHeader_sim : readHeader_sim_statement.
  Proof.
    intros s1 s2 s1' e1 s2' e2 Hc Hph H1 H2.
    assert (Hph3 : phase s1 <> phaseHeaderDecoded) by (destruct Hph as [Hp | Hp]; rewrite Hp; discriminate).
    clear Hph.
    split_state s1 s2 Hc t1 d1.
    destruct s2 as [r i o t2 p bf lbl hbd hb d2 ro]. sproj.
    unfold readHeader in H1, H2. sproj.
    match type of H1 with context [tryDecodeHeader ?X1] => set (S1 := X1) in * end.
    match type of H2 with context [tryDecodeHeader ?X2] => set (S2 := X2) in * end.
    assert (HcS : core S1 = core S2) by (unfold S1, S2; destruct (p =? phaseDecodingHeader); reflexivity).
    assert (HpS : phase S1 <> phaseHeaderDecoded)
      by (unfold S1; destruct (p =? phaseDecodingHeader); exact Hph3).
    assert (HoS : ov S1 = o) by (unfold S1; destruct (p =? phaseDecodingHeader); reflexivity).
    destruct (tryDecodeHeader S1) as [s1y e1y] eqn:T1.
    destruct (tryDecodeHeader S2) as [s2y e2y] eqn:T2.
    destruct (tryDecodeHeader_sim S1 S2 s1y e1y s2y e2y HcS HpS T1 T2) as (A1 & A2 & A3 & A4).
    subst e2y. rewrite HoS in A3. clear T1 T2 HcS HpS HoS. clearbody S1 S2.
    split_state s1y s2y A2 t1y d1y.
    destruct s2y as [ry iy oy t2y py bfy lbly hbdy hby d2y roy]. sproj. subst oy.
    assert (Fin : forall X1 X2 e,
              core X1 = core X2 -> ov X1 = o ->
              (phase X1 = phaseHeaderDecoded -> tb X1 = t1y /\ tb X2 = t2y /\ py = phaseHeaderDecoded) ->
              (X1, e) = (s1', e1) -> (X2, e) = (s2', e2) ->
              e1 = e2 /\ core s1' = core s2' /\ ov s1' = o /\
              (phase s1' = phaseHeaderDecoded -> lookups_eq (tb s1') (tb s2'))).
    { intros X1 X2 e F1 F2 F3 G1 G2. pinj G1. pinj G2.
      split; [reflexivity|]. split; [exact F1|]. split; [exact F2|].
      intros Hp. destruct (F3 Hp) as (Q1 & Q2 & Q3). rewrite Q1, Q2. apply A4. exact Q3. }
    destruct e1y.
    all: try (destruct (_ && _) in H1, H2).
    all: try (apply (Fin _ _ _) with (4 := H1) (5 := H2);
              [ destruct (p =? phaseDecodingHeader); reflexivity
              | destruct (p =? phaseDecodingHeader); reflexivity
              | sproj; destruct (p =? phaseDecodingHeader); sproj; intros Hp;
                first [ split; [reflexivity|split; [reflexivity|exact Hp]]
                      | exfalso; unfold phaseDecodingHeader, phaseHeaderDecoded in Hp; lia ] ]).
  Qed.
End Hdr.
