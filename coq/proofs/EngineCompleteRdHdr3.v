(* EngineCompleteRdHdr3.v -- exact end-of-input facts for block headers: when tryDecodeHeader /
   readHeader report EEndInput, the reference, on exactly the bits held, stops at the block
   header with NeedInput (statements in RModel/EngineCompleteSpecF.v). *)
From Coq Require Import List NArith ZArith Bool Lia ZifyBool ZifyNat ZifyN.
From Verif Require Import Bits Huffman HuffmanSpec Inflate InflateSpec InflateMono.
From Verif Require Import Base EngineTables Engine EngineRefineSpec EngineRefineSpecBlock
  EngineRefineSpecHdr EngineRefineSpecNeed EngineRefineSpecReach EngineRefineSpecTop
  EngineCompleteSpecA EngineCompleteSpecB EngineCompleteSpecD EngineCompleteSpecF
  EngineRefineBits EngineRefineBridge.
From Verif Require Import EngineRefineRdHdrA EngineRefineRdHdrB EngineRefineRdHdrNeed.
Import ListNotations.
Open Scope N_scope.

(* ---------------------------------------------------------------- prepareForLitBlock reports
   the end of input only with fewer than 32 bits in all *)
Lemma prepareForLitBlock_short : forall s,
  br_wf (rd s) -> (0 <= r_len (rd s))%Z ->
  snd (prepareForLitBlock s) = EEndInput ->
  (length (br_bits (rd s)) < 32)%nat.
Proof.
  intros s Hwf H0 H.
  unfold prepareForLitBlock, loadBits in H.
  destruct (load_lt57_bits (rd s) Hwf) as (b1 & L1 & W1 & Eb & L4 & Hle).
  rewrite L1 in H. cbv zeta in H. cbn [rd set_rd] in H.
  destruct (r_len b1 <? 0)%Z eqn:En; [cbn [snd] in H; discriminate|].
  set (n1 := Z.to_N (r_len b1)) in *.
  destruct (u8 (n1 / 8) <? 4) eqn:E4.
  2: { match type of H with context [if negb ?c then _ else _] => destruct (negb c) end;
       [cbn [snd] in H; discriminate|].
       match type of H with context [if ?c then _ else _] => destruct c end;
       cbn [snd] in H; discriminate. }
  clear H.
  pose proof W1 as (_ & W64 & _).
  assert (Hn1 : Z.of_N n1 = r_len b1) by (unfold n1; lia).
  assert (Hu8 : u8 (n1 / 8) = n1 / 8).
  { unfold u8. change 255 with (N.ones 8). rewrite N.land_ones. apply N.mod_small.
    change (2 ^ 8) with 256. zify. Z.div_mod_to_equations. lia. }
  rewrite Hu8 in E4.
  assert (H32 : n1 < 32) by (zify; Z.div_mod_to_equations; lia).
  destruct L4 as [Hin|L4]; [|lia].
  rewrite <- Eb, br_bits_length, Hin. cbn [length]. lia.
Qed.

Lemma stored_block_short : forall bf st S s2,
  (InflateMono.blen s2 < 32)%nat -> stored_block bf st S s2 = SStop st S NeedInput.
Proof.
  intros bf st S s2 H. unfold stored_block. cbv zeta.
  pose proof (align_blen s2) as Ha.
  pose proof (take_len 16 (align s2)) as L1.
  destruct (take 16 (align s2)) as [[len s4]|]; [|reflexivity].
  destruct L1 as [L1 _].
  rewrite (take_short 16 s4) by lia. reflexivity.
Qed.

Local Opaque setupDynamicHeader prepareForLitBlock.

(* ---------------------------------------------------------------- tryDecodeHeader *)
Theorem tryDecodeHeader_need3 : setupDynamicHeader_need3_body -> tryDecodeHeader_need3_body.
Proof.
  intros HDN s p Hwf H0 Hal Herr st.
  unfold tryDecodeHeader in Herr. unfold block1.
  destruct (readBits_need s 1 p Hwf H0 ltac:(lia) Hal) as (v & bA & RA & WA & TA & TAn).
  rewrite RA in Herr. cbv beta iota zeta in Herr.
  change (N.to_nat 1) with 1%nat in TA, TAn.
  destruct (Z.ltb_spec (r_len bA) 0) as [HnA|HpA]; [rewrite (TAn HnA); reflexivity|].
  destruct (TA HpA) as [T1 Hal1]. rewrite T1.
  set (sB := set_bfinal (set_rd s bA) v) in *.
  assert (EBrd : rd sB = bA) by reflexivity.
  destruct (readBits_need sB 2 (p + 1) ltac:(rewrite EBrd; exact WA) ltac:(rewrite EBrd; exact HpA)
              ltac:(lia) ltac:(rewrite EBrd; exact Hal1)) as (bt & bC & RC & WC & TC & TCn).
  rewrite EBrd in TC, TCn. change (N.to_nat 2) with 2%nat in TC, TCn.
  rewrite RC in Herr. cbv beta iota zeta in Herr.
  set (sC := set_rd sB bC) in *.
  assert (ECrd : rd sC = bC) by reflexivity. rewrite ECrd in Herr.
  destruct (Z.ltb_spec (r_len bC) 0) as [HnC|HpC]; [rewrite (TCn HnC); reflexivity|].
  destruct (TC HpC) as [T2 Hal2]. rewrite T2.
  unfold block_body.
  destruct (bt =? 0) eqn:E0.
  { apply stored_block_short. unfold InflateMono.blen. cbn [bl].
    apply (prepareForLitBlock_short sC WC HpC Herr). }
  destruct (bt =? 1) eqn:E1; [cbn [snd] in Herr; discriminate|].
  destruct (bt =? 2) eqn:E2; [|cbn [snd] in Herr; discriminate].
  pose proof (HDN sC (p + 1 + 2) WC HpC Herr) as X. change (rd sC) with bC in X.
  rewrite X. reflexivity.
Qed.

Print Assumptions tryDecodeHeader_need3.

(* ---------------------------------------------------------------- ref_need pins a header failure *)
Lemma ref_need_not_parses : forall S, ref_need S -> ~ hdr_parses S.
Proof.
  intros S HN (bf & s1 & bt & s2 & T1 & T2 & Hc).
  pose proof (HN (mkost [] 0 0 0 [])) as H. set (st := mkost [] 0 0 0 []) in *.
  unfold block1 in H. rewrite T1, T2 in H.
  pose proof (take_len 1 S) as L1. rewrite T1 in L1. destruct L1 as [L1 _].
  pose proof (take_len 2 s1) as L2. rewrite T2 in L2. destruct L2 as [L2 _].
  unfold block_body in H.
  destruct Hc as [->|[(-> & r & s3 & DH)|(-> & len & s4 & nlen & s5 & A1 & A2)]];
    cbn [N.eqb Pos.eqb] in H.
  - destruct fixed_tries_some as (lt & dt & EF & _). rewrite EF in H.
    destruct (huff_len bf lt dt st s2) as [_ Ha]. rewrite H in Ha. cbn [bs_of] in Ha.
    unfold after in Ha. lia.
  - rewrite DH in H. destruct r as [lt dt].
    pose proof (dyn_header_len s2) as L3. rewrite DH in L3. cbn [hlen] in L3.
    destruct (huff_len bf lt dt st s3) as [_ Ha]. rewrite H in Ha. cbn [bs_of] in Ha.
    unfold after in Ha, L3. lia.
  - unfold stored_block in H. cbv zeta in H. rewrite A1, A2 in H.
    pose proof (take_len 16 (align s2)) as L3. rewrite A1 in L3. destruct L3 as [L3 _].
    pose proof (take_len 16 s4) as L4. rewrite A2 in L4. destruct L4 as [L4 _].
    pose proof (align_blen s2) as La.
    destruct (negb (len + nlen =? 65535)); [discriminate|].
    pose proof (stored_len (N.to_nat len) st s5) as Ls.
    destruct (stored (N.to_nat len) st s5) as [[st' s6] full]. destruct Ls as [_ Ls].
    destruct (negb full).
    + inversion H; subst. unfold after in Ls. lia.
    + unfold close in H. destruct (bf =? 1); discriminate.
Qed.

(* ---------------------------------------------------------------- readHeader *)
Local Opaque tryDecodeHeader.

Definition nd3_instance (p : N) (r : inflate * ierr) : Prop :=
  let '(s', err) := r in err = EEndInput -> hdr_need3 s' p.

Lemma nd3_vacuous : forall p s' err, err <> EEndInput -> nd3_instance p (s', err).
Proof. intros p s' err N1 E. congruence. Qed.

Lemma nd3_end_input : forall s p s3,
  hdr_ok s ->
  N.min (maxHdrSize - headerBuffered s) (r_inlen (rd s)) = r_inlen (rd s) ->
  ref_need (mkbs (lbits s) p) ->
  nd3_instance p
    (set_phase
       (set_rd (set_header s3 (headerBuffered s + N.min (maxHdrSize - headerBuffered s) (r_inlen (rd s)))
                  (headerBuffer s ++ firstn (N.to_nat (N.min (maxHdrSize - headerBuffered s) (r_inlen (rd s))))
                                            (r_in (rd s))))
               (mkBR (r_bits (rd s)) (r_len (rd s)) [] 0))
       phaseDecodingHeader, EEndInput).
Proof.
  intros s p s3 Hok Emin Hnp. rewrite Emin.
  pose proof Hok as (WL & H0 & Ehb & Hhb & Hph & Hnb).
  pose proof WL as (L1 & _). unfold lrd in L1. cbn [r_in r_inlen] in L1.
  rewrite app_length in L1.
  assert (Efn : firstn (N.to_nat (r_inlen (rd s))) (r_in (rd s)) = r_in (rd s)).
  { apply firstn_all2. lia. }
  rewrite Efn. unfold nd3_instance. intros _ _.
  unfold hbits. cbn [rd headerBuffer set_phase set_rd set_header r_bits r_len].
  exact Hnp.
Qed.

Lemma readHeader_need3_end : forall s p,
  tryDecodeHeader_need3_body -> header_bound_statement ->
  hdr_ok s -> hdr_ok_staged s -> ((Z.of_N p + r_len (rd s)) mod 8 = 0)%Z ->
  nd3_instance p (readHeader s).
Proof.
  intros s p TN HB Hok HS Hal.
  pose proof Hok as (WL & H0 & Ehb & Hhb & [HphN|HphD] & Hnb).
  - (* not staged *)
    specialize (Hnb HphN).
    assert (Ehb0 : headerBuffered s = 0) by (rewrite Ehb, Hnb; reflexivity).
    assert (Elrd : lrd s = rd s).
    { unfold lrd. rewrite Hnb, Ehb0. cbn [app]. rewrite N.add_0_l. destruct (rd s); reflexivity. }
    assert (Wf : br_wf (rd s)) by (rewrite <- Elrd; exact WL).
    assert (Elb : lbits s = br_bits (rd s)) by (unfold lbits; rewrite Elrd; reflexivity).
    unfold readHeader. rewrite HphN. change (phaseNewBlock =? phaseDecodingHeader) with false.
    cbv beta iota zeta. cbn [andb].
    destruct (tryDecodeHeader s) as [s2 err] eqn:ET.
    destruct err; try (apply nd3_vacuous; discriminate).
    pose proof (HB s s2 Wf H0 ET) as Hb.
    apply nd3_end_input; [exact Hok| |].
    + rewrite Ehb0. unfold maxHdrSize. lia.
    + rewrite Elb. apply (TN s p Wf H0 Hal). rewrite ET. reflexivity.
  - (* staged *)
    specialize (HS HphD).
    pose proof WL as (L1 & _ & _ & L4 & _). unfold lrd in L1, L4. cbn [r_in r_inlen] in L1, L4.
    rewrite app_length in L1.
    apply Forall_app in L4. destruct L4 as [Fh Fi].
    unfold readHeader. rewrite HphD. change (phaseDecodingHeader =? phaseDecodingHeader) with true.
    cbv beta iota zeta. cbn [andb].
    set (c := N.min (maxHdrSize - headerBuffered s) (r_inlen (rd s))).
    set (fin := firstn (N.to_nat c) (r_in (rd s))).
    assert (Hc : c <= r_inlen (rd s)) by (unfold c; lia).
    assert (Lfin : length fin = N.to_nat c) by (unfold fin; apply firstn_length_le; lia).
    assert (Ffin : Forall (fun x => x < 256) fin) by (apply Forall_firstn'; exact Fi).
    set (s1 := set_rd s (br_set_in (rd s) (headerBuffer s ++ fin) (c + headerBuffered s))).
    assert (W1 : br_wf (rd s1)).
    { pose proof (br_wf_app_in _ fin HS H0 Ffin) as X. cbn zeta in X. cbn [r_bits r_len r_in r_inlen] in X.
      replace (headerBuffered s + N.of_nat (length fin)) with (c + headerBuffered s) in X by lia.
      exact (proj1 X). }
    destruct (tryDecodeHeader s1) as [s2 err] eqn:ET.
    destruct err; try (apply nd3_vacuous; discriminate);
      (match goal with |- context [if ?c then _ else _] => destruct c end;
       [apply nd3_vacuous; discriminate|]);
      try (apply nd3_vacuous; discriminate).
    pose proof (HB s1 s2 W1 H0 ET) as Hb.
    change (r_inlen (rd s1)) with (c + headerBuffered s) in Hb.
    assert (Emin : c = r_inlen (rd s)) by (unfold c, maxHdrSize in *; lia).
    apply nd3_end_input; [exact Hok|exact Emin|].
    assert (Elb : lbits s = br_bits (rd s1)).
    { unfold lbits, lrd, br_bits, s1. cbn [rd set_rd br_set_in r_bits r_len r_in].
      unfold fin. rewrite firstn_all2 by lia. reflexivity. }
    rewrite Elb. apply (TN s1 p W1 H0 Hal). rewrite ET. reflexivity.
Qed.

Theorem readHeader_need3 :
  tryDecodeHeader_need3_body ->
  tryDecodeHeader_refine_statement -> header_bound_statement ->
  setupDynamicHeader_refine_body -> prepareForLitBlock_refine_statement ->
  static_lit_tab_ok_statement -> static_dist_tab_ok_statement ->
  readHeader_need3_body.
Proof.
  intros TN3 HT HB HD HP HSL HSD s p Hok HS Hal HN3.
  assert (TN : tryDecodeHeader_need_body).
  { intros s0 p0 W0 H00 Hal0 He. apply ref_need_not_parses. apply TN3; assumption. }
  assert (HN : hdr_need s p).
  { intros Hph. apply ref_need_not_parses. apply HN3. exact Hph. }
  pose proof (readHeader_need TN HT HB HD HP HSL HSD s p Hok HS Hal HN) as Q.
  pose proof (readHeader_need3_end s p TN3 HB Hok HS Hal) as E.
  unfold nd3_instance in E.
  destruct (readHeader s) as [s' err]. destruct Q as [_ Q]. split; [exact E|exact Q].
Qed.

Print Assumptions readHeader_need3.
