(* EngineSafetyRestartCex.v -- HeaderRestartMonotone as ORIGINALLY stated in EngineSafetyHeader.v
   (without byte bounds; restated below as HeaderRestartMonotone_unbounded) is FALSE:
   the model's input is a list of N and nothing bounded the "bytes" by 256.  With a byte value
   >= 256 the 64-bit load path of load_raw (le64: an arithmetic sum) and the byte-wise path
   (load_bytes: a bitwise or) put different bits into the bit buffer.  Run A below (8 input
   bytes: first load on the 64-bit path) sees code length 4 for clc symbol 11, parses on and runs
   out of input (EEndInput); the restarted run B on the first 7 bytes (byte-wise path) sees code
   length 2, finds the clc code over-subscribed and stops with EInvalidBlock with one staged
   byte still unloaded: r_inlen = 1 > 0 = |X|. *)
From Verif Require Import Engine EngineTables.
From Verif Require Import Base EngineSafetyBase EngineSafetyBits EngineSafetyInv.
From Verif Require Import EngineSafetyHeader.
From Coq Require Import List NArith ZArith Bool Lia ZifyBool ZifyNat ZifyN.
Import ListNotations.
Open Scope N_scope.

(* the original statement *)
Definition HeaderRestartMonotone_unbounded : Prop :=
  forall s s2, hdr_pre s -> tryDecodeHeader s = (s2, EEndInput) ->
  forall n X s', dyn s' = dyn s2 -> tb s' = tb s2 ->
    rd s' = mkBR (r_bits (rd s)) (r_len (rd s)) (firstn n (r_in (rd s)) ++ X)
                 (N.of_nat (length (firstn n (r_in (rd s)))) + N.of_nat (length X)) ->
    restart_ok s' X.

Definition cex_bits : N := 2^2 + 2^13 + 2^14 + 2^15 + 2^23 + 2^27 + 2^29 + 2^30.
Definition cex_in : list N := [256; 85; 85; 85; 85; 85; 85; 85].
Definition cex_sA : inflate := set_rd inflate0 (mkBR cex_bits 40%Z cex_in 8).
Definition cex_sB : inflate :=
  set_rd (fst (tryDecodeHeader cex_sA))
         (mkBR cex_bits 40%Z (firstn 7 cex_in ++ [])
               (N.of_nat (length (firstn 7 cex_in)) + N.of_nat (length (@nil N)))).

Lemma cex_runA : snd (tryDecodeHeader cex_sA) = EEndInput.
Proof. vm_compute. reflexivity. Qed.

Lemma cex_runB : snd (tryDecodeHeader cex_sB) = EInvalidBlock /\
                 r_inlen (rd (fst (tryDecodeHeader cex_sB))) = 1.
Proof. vm_compute. split; reflexivity. Qed.

Lemma cex_pre : hdr_pre cex_sA.
Proof.
  unfold hdr_pre, cex_sA. cbn [rd set_rd dyn tb inflate0].
  split; [unfold br_inv; cbn [r_in r_inlen r_len cex_in length]; split; [reflexivity|split; [lia|intros; lia]]|].
  split; [cbn [r_len]; lia|].
  split; [unfold clc_ok, dyn0; cbn [clcShort]; apply all_entries_empty; exact clc_entry_ok_0|].
  exact tabs_ok2_empty.
Qed.

Lemma cex_sB_fields : forall s2 br, dyn (set_rd s2 br) = dyn s2 /\ tb (set_rd s2 br) = tb s2 /\ rd (set_rd s2 br) = br.
Proof. intros. split; [reflexivity|split; reflexivity]. Qed.

Theorem HeaderRestartMonotone_false : ~ HeaderRestartMonotone_unbounded.
Proof.
  intros H.
  pose proof (H cex_sA (fst (tryDecodeHeader cex_sA)) cex_pre) as H1.
  assert (E : tryDecodeHeader cex_sA = (fst (tryDecodeHeader cex_sA), EEndInput)).
  { rewrite <- cex_runA. destruct (tryDecodeHeader cex_sA); reflexivity. }
  specialize (H1 E 7%nat [] cex_sB).
  destruct (cex_sB_fields (fst (tryDecodeHeader cex_sA))
              (mkBR cex_bits 40%Z (firstn 7 cex_in ++ [])
                    (N.of_nat (length (firstn 7 cex_in)) + N.of_nat (length (@nil N))))) as (F1 & F2 & F3).
  fold cex_sB in F1, F2, F3.
  specialize (H1 F1 F2 F3).
  destruct H1 as [H1 _]. destruct cex_runB as [_ HB]. rewrite HB in H1. cbn [length] in H1. lia.
Qed.

Print Assumptions HeaderRestartMonotone_false.
