(* GzEngineHdr.v -- GzEngineSpec section C: readHeader (GzEngine.gzReadHeader) against the
   specification-level parser Containers.gz_parse_header, conditional on the section-B facts
   (bufio ReadByte, io.ReadFull on the abstract stream; proofs/GzEngineBuf.v) and on the
   running-CRC law.

   Layers: readString_loop against read_cstring (same fuel), gzReadString, the five pieces of
   readHeader (rh_extra, rh_name/rh_comment via rh_str, rh_hcrc, rh_finish), each with a
   postcondition on the abstract stream (adv), then the composition through rh_bind against the
   staged view of gz_parse_header of proofs/ContainersProofs.v (p_extra, p_str, p_crc,
   parse_tail, parse_staged). *)
From Coq Require Import List NArith ZArith Bool Lia.
From Verif Require Import Bits Huffman Inflate InflateSpec.
From Verif Require Import Containers ContainersSpec ContainersProofs.
From Verif Require Import Base Engine EngineReset EngineRefineSpecBuf EngineRefineSpecReach
     EngineRefineSpecTop EngineRefineSpecFinal EngineRefineRun GzEngine GzEngineSpec.
Import ListNotations.
Open Scope N_scope.

(* ---------------------------------------------------------------- small facts *)
Lemma frev_rev_h : forall A (l : list A), frev l = rev l.
Proof. intros. unfold frev. rewrite rev_append_rev. apply app_nil_r. Qed.

Lemma lenN_app_h : forall A (a b : list A), lenN (a ++ b) = lenN a + lenN b.
Proof. intros. unfold lenN. rewrite app_length. lia. Qed.

Lemma lenN_nil_h : forall A, lenN (@nil A) = 0.
Proof. reflexivity. Qed.

Lemma crc32_update_nil : forall c, crc32_update c [] = c.
Proof.
  intros c. unfold crc32_update. cbn [fold_left].
  rewrite N.lxor_assoc, N.lxor_nilpotent, N.lxor_0_r. reflexivity.
Qed.

Lemma u16_mod : forall x, u16 x = x mod 65536.
Proof.
  intros x. unfold u16. change mask16 with (N.ones 16). rewrite N.land_ones. reflexivity.
Qed.

Lemma latin1_id : forall l, existsb (fun c => 127 <? c) l = false -> latin1_to_utf8 l = l.
Proof.
  induction l as [|x l IH]; intros H; [reflexivity|].
  cbn [existsb] in H. apply orb_false_iff in H. destruct H as [H1 H2].
  unfold latin1_to_utf8 in *. cbn [flat_map].
  assert (E : (x <? 128) = true).
  { apply N.ltb_lt. apply N.ltb_ge in H1. lia. }
  rewrite E. cbn [app]. now rewrite IH.
Qed.

Lemma firstn_pre : forall (A : Type) (pre r : list A),
  firstn (length (pre ++ r) - length r) (pre ++ r) = pre.
Proof.
  intros. rewrite app_length.
  replace (length pre + length r - length r)%nat with (length pre) by lia.
  apply firstn_len_app.
Qed.

Lemma of_le2_lt : forall a b, a < 256 -> b < 256 -> of_le [a; b] < 65536.
Proof. intros a b Ha Hb. unfold of_le. cbn [fold_right]. lia. Qed.

Lemma gnil_true : forall e, gnil e = true -> e = GR ROk.
Proof. intros [[]| | | | |]; cbn; intros; congruence. Qed.

Lemma gnil_false : forall e, e <> GR ROk -> gnil e = false.
Proof. intros [[]| | | | |]; cbn; intros; congruence. Qed.

(* ---------------------------------------------------------------- io.ReadFull, repackaged *)
Lemma rf_spec : ioReadFull_spec_statement ->
  forall b n, buf_ok b -> n < 262144 ->
  forall bytes r b', ioReadFull b n = (bytes, r, b') ->
    buf_ok b' /\ bstream b = bytes ++ bstream b' /\ consumed b' = consumed b + lenN bytes /\
    bsize b' = bsize b /\ term b' = term b /\
    (r = ROk /\ length bytes = N.to_nat n \/
     (r = REOF \/ r = RUnexpectedEOF \/ r = RSrcErr) /\ (length bytes < N.to_nat n)%nat /\
     bstream b' = [] /\ (r = REOF -> bytes = [])).
Proof.
  intros HRF b n Hok Hn bytes r b' E.
  pose proof (HRF b n Hok Hn) as H. rewrite E in H.
  destruct H as (H1 & H2 & H3 & H4 & H5 & H6 & H7 & H8 & H9 & _).
  repeat (split; [assumption|]).
  destruct H6 as [->|H6].
  - left. split; [reflexivity|]. specialize (H7 eq_refl). unfold lenN in H7. lia.
  - right. assert (Hne : r <> ROk) by (destruct H6 as [->|[->| ->]]; discriminate).
    destruct (H8 Hne) as [Hl Hnil]. unfold lenN in Hl.
    split; [assumption|]. split; [lia|]. split; [assumption|].
    intros Hr. apply (H9 Hr).
Qed.

(* ---------------------------------------------------------------- the frame of one step *)
(* z' is z after `used` was taken off the stream; everything but the digest is kept *)
Definition adv (z z' : gzreader) (used : list N) : Prop :=
  buf_ok (z_r z') /\ bstream (z_r z) = used ++ bstream (z_r z') /\
  consumed (z_r z') = consumed (z_r z) + lenN used /\
  bsize (z_r z') = bsize (z_r z) /\ term (z_r z') = term (z_r z) /\
  z_multistream z' = z_multistream z /\ z_err z' = z_err z /\ z_hdr z' = z_hdr z /\
  z_size z' = z_size z /\ z_dec z' = z_dec z.

Lemma adv_refl : forall z, buf_ok (z_r z) -> adv z z [].
Proof.
  intros z H. unfold adv. rewrite lenN_nil_h, N.add_0_r. cbn [app].
  split; [assumption|]. repeat split; auto.
Qed.

Lemma adv_trans : forall z z' z'' u v, adv z z' u -> adv z' z'' v -> adv z z'' (u ++ v).
Proof.
  unfold adv. intros z z' z'' u v (A1 & A2 & A3 & A4 & A5 & A6 & A7 & A8 & A9 & A10)
    (B1 & B2 & B3 & B4 & B5 & B6 & B7 & B8 & B9 & B10).
  split; [assumption|]. split; [rewrite A2, B2; apply app_assoc|].
  split; [rewrite B3, A3, lenN_app_h; lia|].
  repeat split; congruence.
Qed.

Lemma adv_set_r : forall z b used, buf_ok b -> bstream (z_r z) = used ++ bstream b ->
  consumed b = consumed (z_r z) + lenN used -> bsize b = bsize (z_r z) -> term b = term (z_r z) ->
  adv z (gz_set_r z b) used.
Proof. intros. unfold adv. cbn. split; [assumption|]. repeat split; auto. Qed.

Lemma adv_set_digest : forall z z' u v, adv z z' u -> adv z (gz_set_digest z' v) u.
Proof.
  intros z z' u v H. unfold adv in *.
  cbn [z_r z_multistream z_err z_hdr z_size z_dec gz_set_digest]. exact H.
Qed.

Lemma adv_of_set_digest : forall z z' u v, adv z z' u -> adv (gz_set_digest z v) z' u.
Proof.
  intros z z' u v H. unfold adv in *.
  cbn [z_r z_multistream z_err z_hdr z_size z_dec gz_set_digest]. exact H.
Qed.

Lemma rf_adv : ioReadFull_spec_statement ->
  forall z n, buf_ok (z_r z) -> n < 262144 ->
  forall bytes r b', ioReadFull (z_r z) n = (bytes, r, b') ->
    adv z (gz_set_r z b') bytes /\
    (r = ROk /\ length bytes = N.to_nat n \/
     (r = REOF \/ r = RUnexpectedEOF \/ r = RSrcErr) /\ (length bytes < N.to_nat n)%nat /\
     bstream b' = [] /\ (r = REOF -> bytes = [])).
Proof.
  intros HRF z n Hok Hn bytes r b' E.
  destruct (rf_spec HRF _ _ Hok Hn _ _ _ E) as (H1 & H2 & H3 & H4 & H5 & H6).
  split; [apply adv_set_r; assumption|exact H6].
Qed.

Local Opaque crc32_update.

Definition no_bad (e : gres) : Prop := e <> GR REOF /\ e <> GR RStuck /\ e <> GR RPanic.

Lemma no_bad_noEOF : forall r, r = REOF \/ r = RUnexpectedEOF \/ r = RSrcErr ->
  no_bad (noEOF (GR r)) /\ noEOF (GR r) <> GR ROk.
Proof. intros r [->|[->| ->]]; cbn; unfold no_bad; repeat split; discriminate. Qed.

(* ---------------------------------------------------------------- readString *)
Lemma readString_loop_spec : bReadByte_spec_statement ->
  forall fuel b acc nc, buf_ok b ->
  forall b' r e, readString_loop fuel b acc nc = (b', r, e) ->
  exists used,
    buf_ok b' /\ bstream b = used ++ bstream b' /\ consumed b' = consumed b + lenN used /\
    bsize b' = bsize b /\ term b' = term b /\
    match r with
    | Some (raw, nc') =>
      e = GR ROk /\
      exists raw0, raw = rev acc ++ raw0 /\ used = raw0 ++ [0] /\
        read_cstring fuel (bstream b) acc = Some (Some (raw, bstream b')) /\
        nc' = nc || existsb (fun c => 127 <? c) raw0
    | None =>
      (e = GzErrHeader /\ read_cstring fuel (bstream b) acc = Some None) \/
      ((e = GR REOF \/ e = GR RSrcErr) /\ read_cstring fuel (bstream b) acc = None)
    end.
Proof.
  intros HB. induction fuel as [|k IH]; intros b acc nc Hok b' r e H.
  - cbn [readString_loop] in H. inversion H; subst. exists [].
    rewrite lenN_nil_h, N.add_0_r. cbn [app]. do 5 (split; [auto|]).
    left. split; reflexivity.
  - cbn [readString_loop] in H.
    destruct (HB b Hok) as (oc & e0 & b1 & E & Hok1 & Hsz & Htm & Hnone & Hsome).
    rewrite E in H. destruct e0 as [x|].
    + assert (H' : (b1, @None (list N * bool), GR (rres_of_berror x)) = (b', r, e))
        by (destruct oc; exact H).
      inversion H'; subst. clear H H'.
      destruct (Hsome x eq_refl) as (S0 & S1 & Hc & Hx).
      exists []. rewrite lenN_nil_h, N.add_0_r, S0, S1. cbn [app].
      do 5 (split; [auto|]). right. split; [|reflexivity].
      rewrite Hx. destruct (term b); cbn; auto.
    + destruct (Hnone eq_refl) as (c & -> & Hs & Hc). cbv zeta in H.
      destruct (c =? 0) eqn:Ec.
      * apply N.eqb_eq in Ec. subst c. inversion H; subst. clear H.
        exists [0]. split; [assumption|]. split; [exact Hs|]. split; [exact Hc|].
        split; [assumption|]. split; [assumption|]. split; [reflexivity|].
        exists []. rewrite app_nil_r, frev_rev_h. repeat split.
        rewrite Hs. reflexivity.
      * destruct (IH b1 (c :: acc) (nc || (127 <? c)) Hok1 b' r e H)
          as (used & I1 & I2 & I3 & I4 & I5 & I6).
        exists (c :: used). split; [assumption|]. split; [rewrite Hs, I2; reflexivity|].
        split.
        { rewrite I3, Hc. change (c :: used) with ([c] ++ used). rewrite lenN_app_h.
          change (lenN [c]) with 1. lia. }
        split; [congruence|]. split; [congruence|].
        destruct r as [[raw nc']|].
        -- destruct I6 as (-> & raw0 & R1 & R2 & R3 & R4). split; [reflexivity|].
           exists (c :: raw0). cbn [rev] in R1. rewrite <- app_assoc in R1. cbn [app] in R1.
           split; [assumption|]. split; [rewrite R2; reflexivity|].
           split.
           ++ rewrite Hs. cbn [read_cstring]. rewrite Ec. exact R3.
           ++ rewrite R4. cbn [existsb]. now rewrite orb_assoc.
        -- rewrite Hs. cbn [read_cstring]. rewrite Ec. exact I6.
Qed.

Lemma p_str_true : forall r, p_str true r =
  match read_cstring 512 r (@nil N) with
  | None => inr CUnexpectedEOF | Some None => inr CHeader | Some (Some (s, r')) => inl (s, r')
  end.
Proof. reflexivity. Qed.

Lemma gzReadString_spec : bReadByte_spec_statement ->
  forall z, buf_ok (z_r z) ->
  forall z' s e, gzReadString z = (z', s, e) ->
  exists used, adv z z' used /\
    (e = GR ROk ->
       z_digest z' = crc32_update (z_digest z) used /\
       exists raw, p_str true (bstream (z_r z)) = inl (raw, bstream (z_r z')) /\
                   s = latin1_to_utf8 raw) /\
    (e <> GR ROk -> exists c, p_str true (bstream (z_r z)) = inr c) /\
    (e = GR ROk \/ e = GzErrHeader \/ e = GR REOF \/ e = GR RSrcErr).
Proof.
  intros HB z Hok z' s e H. unfold gzReadString in H.
  destruct (readString_loop 512 (z_r z) [] false) as [[b r] e1] eqn:E.
  destruct (readString_loop_spec HB _ _ _ _ Hok _ _ _ E) as (used & I1 & I2 & I3 & I4 & I5 & I6).
  exists used. destruct r as [[raw nc']|].
  - destruct I6 as (-> & raw0 & R1 & R2 & R3 & R4). cbn [rev app] in R1. subst raw0.
    inversion H; subst. clear H.
    split; [apply (adv_set_r z b); assumption|].
    split.
    + intros _. split; [reflexivity|]. exists raw. cbn [z_r gz_set_digest gz_set_r].
      split.
      * rewrite p_str_true, R3. reflexivity.
      * cbn [orb]. destruct (existsb (fun c => 127 <? c) raw) eqn:Ex; [reflexivity|].
        symmetry. apply latin1_id. exact Ex.
    + split; [intros C; exfalso; apply C; reflexivity|]. left. reflexivity.
  - inversion H; subst. clear H.
    split; [apply (adv_set_r z b); assumption|].
    destruct I6 as [[-> R]|[He R]].
    + split; [discriminate|]. split.
      * intros _. exists CHeader. rewrite p_str_true, R. reflexivity.
      * right. left. reflexivity.
    + split; [destruct He as [->| ->]; discriminate|]. split.
      * intros _. exists CUnexpectedEOF. rewrite p_str_true, R. reflexivity.
      * right. right. exact He.
Qed.

(* rh_name and rh_comment are one function *)
Definition rh_str (flag : bool) (set : gzheader -> list N -> gzheader) (z : gzreader)
  (hdr : gzheader) : rh_res :=
  if flag then
    let '(z, s, e) := gzReadString z in
    if gnil e then (z, set hdr s, GR ROk) else (z, hdr, noEOF e)
  else (z, hdr, GR ROk).

Lemma rh_name_str : forall flg z hdr,
  rh_name flg z hdr = rh_str (N.testbit flg 3) h_set_name z hdr.
Proof. reflexivity. Qed.
Lemma rh_comment_str : forall flg z hdr,
  rh_comment flg z hdr = rh_str (N.testbit flg 4) h_set_comment z hdr.
Proof. reflexivity. Qed.

Lemma rh_str_spec : bReadByte_spec_statement ->
  forall flag set z hdr, buf_ok (z_r z) ->
  forall z' hdr' e, rh_str flag set z hdr = (z', hdr', e) ->
  exists used, adv z z' used /\
    (e = GR ROk ->
       z_digest z' = crc32_update (z_digest z) used /\
       exists fld, p_str flag (bstream (z_r z)) = inl (fld, bstream (z_r z')) /\
         hdr' = (if flag then set hdr (latin1_to_utf8 fld) else hdr) /\
         (flag = false -> fld = [])) /\
    (e <> GR ROk -> exists c, p_str flag (bstream (z_r z)) = inr c) /\
    no_bad e.
Proof.
  intros HB flag set z hdr Hok z' hdr' e H. unfold rh_str in H. destruct flag.
  - destruct (gzReadString z) as [[z1 s] e1] eqn:E.
    destruct (gzReadString_spec HB z Hok _ _ _ E) as (used & A & S1 & S2 & S3).
    exists used. destruct (gnil e1) eqn:G.
    + apply gnil_true in G. subst e1. inversion H; subst. clear H.
      split; [assumption|]. destruct (S1 eq_refl) as (D & raw & P & ->).
      split.
      * intros _. split; [assumption|]. exists raw. repeat split; auto. discriminate.
      * split; [intros C; exfalso; apply C; reflexivity|].
        unfold no_bad. repeat split; discriminate.
    + inversion H; subst. clear H. split; [assumption|].
      assert (Hne : e1 <> GR ROk) by (intros ->; discriminate).
      destruct S3 as [->|[->|[->| ->]]]; try (exfalso; apply Hne; reflexivity);
        (split; [discriminate|]); (split; [intros _; apply S2; assumption|]);
        unfold no_bad; cbn; repeat split; discriminate.
  - inversion H; subst. clear H. exists []. split; [apply adv_refl; assumption|].
    split.
    + intros _. rewrite crc32_update_nil. split; [reflexivity|]. exists []. auto.
    + split; [intros C; exfalso; apply C; reflexivity|].
      unfold no_bad. repeat split; discriminate.
Qed.

(* ---------------------------------------------------------------- FEXTRA *)
Lemma p_extra_short : forall r0, (length r0 < 2)%nat -> p_extra true r0 = inr CUnexpectedEOF.
Proof.
  intros r0 H. unfold p_extra. apply Nat.ltb_lt in H. rewrite H. reflexivity.
Qed.

Lemma p_extra_short2 : forall a b data, (length data < N.to_nat (of_le [a; b]))%nat ->
  p_extra true (a :: b :: data) = inr CUnexpectedEOF.
Proof.
  intros a b data H. unfold p_extra. cbn [length firstn skipn].
  change (S (S (length data)) <? 2)%nat with false. cbn iota. cbv zeta.
  apply Nat.ltb_lt in H. rewrite H. reflexivity.
Qed.

Lemma of_le_len2_lt : forall buf, length buf = 2%nat -> bytes_ok buf -> of_le buf < 65536.
Proof.
  intros buf Hl Hb. destruct buf as [|a [|b0 [|? ?]]]; try discriminate Hl.
  inversion Hb as [|? ? Ha Hb']; subst. inversion Hb' as [|? ? Hb0 _]; subst.
  apply of_le2_lt; assumption.
Qed.

Lemma p_extra_full2 : forall buf e Y, length buf = 2%nat -> N.to_nat (of_le buf) = length e ->
  p_extra true (buf ++ e ++ Y) = inl (e, Y).
Proof.
  intros buf e Y Hl H. destruct buf as [|a [|b0 [|? ?]]]; try discriminate Hl.
  cbn [app]. apply p_extra_gen. exact H.
Qed.

Lemma p_extra_short2' : forall buf data, length buf = 2%nat ->
  (length data < N.to_nat (of_le buf))%nat -> p_extra true (buf ++ data) = inr CUnexpectedEOF.
Proof.
  intros buf data Hl H. destruct buf as [|a [|b0 [|? ?]]]; try discriminate Hl.
  cbn [app]. apply p_extra_short2. exact H.
Qed.

Lemma rh_extra_spec : ioReadFull_spec_statement -> crc32_update_app_statement ->
  forall flg z hdr, buf_ok (z_r z) -> bytes_ok (bstream (z_r z)) ->
  forall z' hdr' e, rh_extra flg z hdr = (z', hdr', e) ->
  exists used, adv z z' used /\
    (e = GR ROk ->
       z_digest z' = crc32_update (z_digest z) used /\
       exists fld, p_extra (N.testbit flg 2) (bstream (z_r z)) = inl (fld, bstream (z_r z')) /\
         hdr' = (if N.testbit flg 2 then h_set_extra hdr fld else hdr) /\
         (N.testbit flg 2 = false -> fld = [])) /\
    (e <> GR ROk -> exists c, p_extra (N.testbit flg 2) (bstream (z_r z)) = inr c) /\
    no_bad e.
Proof.
  intros HRF HCRC flg z hdr Hok Hby z' hdr' e H. unfold rh_extra in H.
  change flagExtra with 2 in H. destruct (N.testbit flg 2).
  - destruct (ioReadFull (z_r z) 2) as [[buf e1] b1] eqn:E1.
    destruct (rf_adv HRF z 2 Hok eq_refl _ _ _ E1) as (A1 & Hr1).
    assert (Hs1 : bstream (z_r z) = buf ++ bstream b1) by apply A1.
    destruct Hr1 as [[-> Hlen]|(Hr & Hlt & Hnil & _)].
    + (* two length bytes *)
      change (N.to_nat 2) with 2%nat in Hlen.
      assert (Hbb : bytes_ok buf).
      { rewrite Hs1 in Hby. apply Forall_app in Hby. apply Hby. }
      pose proof (of_le_len2_lt buf Hlen Hbb) as Hn.
      cbv zeta in H.
      set (z1 := gz_set_digest (gz_set_r z b1) (crc32_update (z_digest (gz_set_r z b1)) buf)) in *.
      assert (A1' : adv z z1 buf) by (apply adv_set_digest; exact A1).
      assert (Hd1 : z_digest z1 = crc32_update (z_digest z) buf) by reflexivity.
      assert (Hb1 : bstream (z_r z1) = bstream b1) by reflexivity.
      clearbody z1.
      destruct (ioReadFull (z_r z1) (of_le buf)) as [[data e2] b2] eqn:E2.
      destruct (rf_adv HRF z1 (of_le buf) (proj1 A1') (N.lt_trans _ 65536 262144 Hn eq_refl)
                  _ _ _ E2) as (A2 & Hr2).
      assert (Hs2 : bstream (z_r z1) = data ++ bstream b2) by apply A2.
      pose proof (adv_trans _ _ _ _ _ A1' A2) as A.
      exists (buf ++ data).
      destruct Hr2 as [[-> Hlen2]|(Hr2 & Hlt2 & Hnil2 & _)].
      * inversion H; subst. clear H. split; [apply adv_set_digest; exact A|].
        split.
        -- intros _. split.
           ++ cbn [z_digest gz_set_digest gz_set_r]. rewrite Hd1. apply HCRC.
           ++ exists data. cbn [z_r gz_set_digest gz_set_r].
              split; [|split; [reflexivity|discriminate]].
              rewrite Hs1, <- Hb1, Hs2. apply p_extra_full2; [exact Hlen|]. symmetry. exact Hlen2.
        -- split; [intros C; exfalso; apply C; reflexivity|].
           unfold no_bad. repeat split; discriminate.
      * destruct (no_bad_noEOF e2 Hr2) as [NB NE].
        assert (H' : (gz_set_r z1 b2, hdr, noEOF (GR e2)) = (z', hdr', e)).
        { destruct Hr2 as [->|[->| ->]]; exact H. }
        inversion H'; subst. clear H H'.
        split; [exact A|]. split; [intros C; exfalso; apply NE; exact C|].
        split; [|exact NB]. intros _. exists CUnexpectedEOF.
        rewrite Hs1, <- Hb1, Hs2, Hnil2, app_nil_r. apply p_extra_short2'; assumption.
    + destruct (no_bad_noEOF e1 Hr) as [NB NE].
      assert (H' : (gz_set_r z b1, hdr, noEOF (GR e1)) = (z', hdr', e)).
      { destruct Hr as [->|[->| ->]]; exact H. }
      inversion H'; subst. clear H H'.
      exists buf. split; [exact A1|]. split; [intros C; exfalso; apply NE; exact C|].
      split; [|exact NB]. intros _. exists CUnexpectedEOF.
      rewrite Hs1, Hnil, app_nil_r. apply p_extra_short. exact Hlt.
  - inversion H; subst. clear H. exists []. split; [apply adv_refl; assumption|].
    split.
    + intros _. rewrite crc32_update_nil. split; [reflexivity|]. exists []. auto.
    + split; [intros C; exfalso; apply C; reflexivity|].
      unfold no_bad. repeat split; discriminate.
Qed.

(* ---------------------------------------------------------------- FHCRC *)
Lemma firstn_len_app' : forall (A : Type) n (a b : list A), length a = n -> firstn n (a ++ b) = a.
Proof. intros; subst; apply firstn_len_app. Qed.
Lemma skipn_len_app' : forall (A : Type) n (a b : list A), length a = n -> skipn n (a ++ b) = b.
Proof. intros; subst; apply skipn_len_app. Qed.

Lemma rh_hcrc_spec : ioReadFull_spec_statement ->
  forall flg z hdr, buf_ok (z_r z) ->
  forall z' hdr' e, rh_hcrc flg z hdr = (z', hdr', e) ->
  exists used, adv z z' used /\ z_digest z' = z_digest z /\
    (e = GR ROk -> hdr' = hdr /\
       if N.testbit flg 1
       then (length (bstream (z_r z)) <? 2)%nat = false /\
            (of_le (firstn 2 (bstream (z_r z))) =? z_digest z mod 65536) = true /\
            bstream (z_r z') = skipn 2 (bstream (z_r z))
       else bstream (z_r z') = bstream (z_r z)) /\
    (e <> GR ROk -> N.testbit flg 1 = true /\
       ((length (bstream (z_r z)) <? 2)%nat = true \/
        (of_le (firstn 2 (bstream (z_r z))) =? z_digest z mod 65536) = false)) /\
    no_bad e.
Proof.
  intros HRF flg z hdr Hok z' hdr' e H. unfold rh_hcrc in H.
  change flagHdrCrc with 1 in H. destruct (N.testbit flg 1).
  - destruct (ioReadFull (z_r z) 2) as [[buf e1] b1] eqn:E1.
    destruct (rf_adv HRF z 2 Hok eq_refl _ _ _ E1) as (A1 & Hr1).
    assert (Hs1 : bstream (z_r z) = buf ++ bstream b1) by apply A1.
    exists buf.
    destruct Hr1 as [[-> Hlen]|(Hr & Hlt & Hnil & _)].
    + change (N.to_nat 2) with 2%nat in Hlen. cbv zeta in H.
      change (z_digest (gz_set_r z b1)) with (z_digest z) in H. rewrite u16_mod in H.
      assert (Hf : firstn 2 (bstream (z_r z)) = buf) by (rewrite Hs1; apply firstn_len_app'; exact Hlen).
      assert (Hk : skipn 2 (bstream (z_r z)) = bstream b1) by (rewrite Hs1; apply skipn_len_app'; exact Hlen).
      assert (Hl : (length (bstream (z_r z)) <? 2)%nat = false).
      { apply Nat.ltb_ge. rewrite Hs1, app_length. lia. }
      rewrite Hf.
      destruct (of_le buf =? z_digest z mod 65536) eqn:Eq; inversion H; subst; clear H.
      * split; [exact A1|]. split; [reflexivity|].
        split; [intros _; split; [reflexivity|]; repeat split; auto|].
        split; [intros C; exfalso; apply C; reflexivity|].
        unfold no_bad. repeat split; discriminate.
      * split; [exact A1|]. split; [reflexivity|].
        split; [discriminate|].
        split; [intros _; split; [reflexivity|right; reflexivity]|].
        unfold no_bad. repeat split; discriminate.
    + destruct (no_bad_noEOF e1 Hr) as [NB NE].
      assert (H' : (gz_set_r z b1, hdr, noEOF (GR e1)) = (z', hdr', e)).
      { destruct Hr as [->|[->| ->]]; exact H. }
      inversion H'; subst. clear H H'.
      split; [exact A1|]. split; [reflexivity|].
      split; [intros C; exfalso; apply NE; exact C|].
      split; [|exact NB]. intros _. split; [reflexivity|]. left.
      apply Nat.ltb_lt. rewrite Hs1, Hnil, app_nil_r. exact Hlt.
  - inversion H; subst. clear H. exists []. split; [apply adv_refl; assumption|].
    split; [reflexivity|].
    split; [intros _; split; reflexivity|].
    split; [intros C; exfalso; apply C; reflexivity|].
    unfold no_bad. repeat split; discriminate.
Qed.

(* ---------------------------------------------------------------- the spec parser, staged *)
Lemma parse_hdr10 : forall (buf r0 : list N), length buf = 10%nat ->
  gz_parse_header (buf ++ r0) =
  if negb ((nthN buf 0 =? 31) && (nthN buf 1 =? 139) && (nthN buf 2 =? 8)) then HP_err CHeader
  else parse_tail (buf ++ r0) (nthN buf 3) (of_le (firstn 4 (skipn 4 buf)))
                  (nthN buf 8) (nthN buf 9) r0.
Proof.
  intros buf r0 H. rewrite parse_staged.
  do 10 (destruct buf as [|? buf]; [discriminate H|]). destruct buf; [|discriminate H].
  reflexivity.
Qed.

Lemma parse_short : forall s, (length s < 10)%nat -> exists c, gz_parse_header s = HP_err c.
Proof.
  intros s H. rewrite parse_staged. destruct s as [|x s]; [eexists; reflexivity|].
  apply Nat.ltb_lt in H. rewrite H. eexists; reflexivity.
Qed.

Lemma p_crc_pre : forall b (pre r3 : list N) mt xfl os ex nm cm,
  p_crc b (pre ++ r3) mt xfl os ex nm cm r3 =
  if b then
    if (length r3 <? 2)%nat then HP_err CUnexpectedEOF else
    if of_le (firstn 2 r3) =? crc32 pre mod 65536
    then HP_ok (mkgh mt xfl os ex nm cm true) (skipn 2 r3)
    else HP_err CHeader
  else HP_ok (mkgh mt xfl os ex nm cm false) r3.
Proof. intros. unfold p_crc. cbv zeta. rewrite firstn_pre. reflexivity. Qed.

(* ---------------------------------------------------------------- rh_bind *)
Lemma rh_bind_ok : forall z hdr f, rh_bind (z, hdr, GR ROk) f = f z hdr.
Proof. reflexivity. Qed.
Lemma rh_bind_err : forall z hdr e f, gnil e = false -> rh_bind (z, hdr, e) f = (z, hdr, e).
Proof. intros z hdr e f H. unfold rh_bind. rewrite H. reflexivity. Qed.

(* ---------------------------------------------------------------- the postcondition *)
Definition rh_post (z : gzreader) (res : rh_res) : Prop :=
  let s := bstream (z_r z) in
  let '(z', hdr, e) := res in
    buf_ok (z_r z') /\
    (exists used, s = used ++ bstream (z_r z') /\
                  consumed (z_r z') = consumed (z_r z) + lenN used) /\
    bsize (z_r z') = bsize (z_r z) /\ term (z_r z') = term (z_r z) /\
    z_multistream z' = z_multistream z /\ z_err z' = z_err z /\ z_hdr z' = z_hdr z /\
    z_size z' = z_size z /\
    (e = GR ROk ->
       exists h rest,
         gz_parse_header s = HP_ok h rest /\ bstream (z_r z') = rest /\ hdr_matches hdr h /\
         z_digest z' = 0 /\
         z_dec z' = Some (match z_dec z with
                          | None => newReader_on (z_r z')
                          | Some d => dReset d (z_r z')
                          end)) /\
    (e <> GR ROk -> z_dec z' = z_dec z /\ forall h rest, gz_parse_header s <> HP_ok h rest) /\
    (e = GR REOF -> s = []) /\
    (e <> GR RStuck /\ e <> GR RPanic).

Lemma post_err : forall z z' hdr e used, adv z z' used ->
  (exists c, gz_parse_header (bstream (z_r z)) = HP_err c) ->
  e <> GR ROk -> no_bad e -> rh_post z (z', hdr, e).
Proof.
  intros z z' hdr e used (A1 & A2 & A3 & A4 & A5 & A6 & A7 & A8 & A9 & A10) [c Hc] NE (N1 & N2 & N3).
  unfold rh_post. cbv zeta.
  split; [assumption|]. split; [exists used; split; assumption|].
  do 6 (split; [assumption|]).
  split; [intros C; exfalso; apply NE; exact C|].
  split; [intros _; split; [assumption|]; intros h rest; rewrite Hc; discriminate|].
  split; [intros C; exfalso; apply N1; exact C|].
  split; assumption.
Qed.

Lemma post_eof : forall z z' hdr used, adv z z' used -> bstream (z_r z) = [] ->
  rh_post z (z', hdr, GR REOF).
Proof.
  intros z z' hdr used (A1 & A2 & A3 & A4 & A5 & A6 & A7 & A8 & A9 & A10) Hnil.
  unfold rh_post. cbv zeta.
  split; [assumption|]. split; [exists used; split; assumption|].
  do 6 (split; [assumption|]).
  split; [discriminate|].
  split; [intros _; split; [assumption|]; intros h rest; rewrite Hnil; discriminate|].
  split; [intros _; assumption|].
  split; discriminate.
Qed.

Lemma post_ok : forall z z' hdr used h, adv z z' used ->
  gz_parse_header (bstream (z_r z)) = HP_ok h (bstream (z_r z')) -> hdr_matches hdr h ->
  rh_post z (rh_finish z' hdr).
Proof.
  intros z z' hdr used h (A1 & A2 & A3 & A4 & A5 & A6 & A7 & A8 & A9 & A10) Hp Hm.
  unfold rh_post, rh_finish. cbv zeta.
  cbn [z_r z_multistream z_err z_hdr z_size z_dec z_digest gz_set_dec gz_set_digest].
  split; [assumption|]. split; [exists used; split; assumption|].
  do 6 (split; [assumption|]).
  split.
  - intros _. exists h, (bstream (z_r z')). repeat (split; [auto|]). rewrite A10. reflexivity.
  - split; [intros C; exfalso; apply C; reflexivity|].
    split; [discriminate|]. split; discriminate.
Qed.

(* ---------------------------------------------------------------- readHeader *)
Lemma gzReadHeader_post :
  bReadByte_spec_statement -> ioReadFull_spec_statement -> crc32_update_app_statement ->
  forall z, buf_ok (z_r z) -> bytes_ok (bstream (z_r z)) -> rh_post z (gzReadHeader z).
Proof.
  intros HB HRF HCRC z Hok Hby.
  unfold gzReadHeader.
  destruct (ioReadFull (z_r z) 10) as [[buf e0] b0] eqn:E0.
  destruct (rf_adv HRF z 10 Hok eq_refl _ _ _ E0) as (A0 & Hr0).
  assert (Hs0 : bstream (z_r z) = buf ++ bstream b0) by apply A0.
  destruct Hr0 as [[-> Hlen]|(Hr & Hlt & Hnil & Heof)].
  2:{ (* the fixed part is short *)
    change (N.to_nat 10) with 10%nat in Hlt.
    assert (Hsb : bstream (z_r z) = buf) by (rewrite Hs0, Hnil; apply app_nil_r).
    destruct Hr as [->|[->| ->]]; cbv zeta.
    - apply (post_eof z _ _ buf A0). rewrite Hsb. apply Heof. reflexivity.
    - apply (post_err z _ _ _ buf A0).
      + rewrite Hsb. apply parse_short. exact Hlt.
      + discriminate.
      + unfold no_bad. repeat split; discriminate.
    - apply (post_err z _ _ _ buf A0).
      + rewrite Hsb. apply parse_short. exact Hlt.
      + discriminate.
      + unfold no_bad. repeat split; discriminate. }
  change (N.to_nat 10) with 10%nat in Hlen. cbv zeta.
  pose proof (parse_hdr10 buf (bstream b0) Hlen) as Hparse. rewrite <- Hs0 in Hparse.
  destruct (negb ((nthN buf 0 =? 31) && (nthN buf 1 =? 139) && (nthN buf 2 =? 8))) eqn:Emagic.
  { apply (post_err z _ _ _ buf A0).
    - rewrite Hparse. eexists; reflexivity.
    - discriminate.
    - unfold no_bad. repeat split; discriminate. }
  set (flg := nthN buf 3) in *.
  set (mt := of_le (firstn 4 (skipn 4 buf))) in *.
  set (xfl := nthN buf 8) in *. set (os := nthN buf 9) in *.
  set (hdr1 := mkHdr [] None mt [] os).
  set (z1 := gz_set_digest (gz_set_r z b0) (crc32 buf)).
  assert (A0' : adv z z1 buf) by (apply adv_set_digest; exact A0).
  assert (Hd1 : z_digest z1 = crc32 buf) by reflexivity.
  assert (Hb1 : bstream b0 = bstream (z_r z1)) by reflexivity.
  clearbody z1. rewrite Hb1 in Hparse, Hs0.
  assert (Hby1 : bytes_ok (bstream (z_r z1))).
  { rewrite Hs0 in Hby. apply Forall_app in Hby. apply Hby. }
  clear E0 Hb1 A0 Hby.
  unfold parse_tail in Hparse.
  (* FEXTRA *)
  destruct (rh_extra flg z1 hdr1) as [[z2 hdr2] e2] eqn:E2.
  destruct (rh_extra_spec HRF HCRC flg z1 hdr1 (proj1 A0') Hby1 _ _ _ E2) as (u1 & A1 & S1 & F1 & NB1).
  pose proof (adv_trans _ _ _ _ _ A0' A1) as A01.
  destruct (gnil e2) eqn:G2.
  2:{ rewrite !rh_bind_err by exact G2.
      assert (NE : e2 <> GR ROk) by (intros ->; discriminate).
      apply (post_err z _ _ _ _ A01); [|exact NE|exact NB1].
      rewrite Hparse. destruct (F1 NE) as [c ->]. eexists; reflexivity. }
  apply gnil_true in G2. subst e2. rewrite rh_bind_ok.
  destruct (S1 eq_refl) as (D2 & extra & P1 & Hh2 & Hx2). clear S1 F1 NB1 E2.
  rewrite P1 in Hparse.
  (* FNAME *)
  rewrite rh_name_str.
  destruct (rh_str (N.testbit flg 3) h_set_name z2 hdr2) as [[z3 hdr3] e3] eqn:E3.
  destruct (rh_str_spec HB _ _ z2 hdr2 (proj1 A1) _ _ _ E3) as (u2 & A2 & S2 & F2 & NB2).
  pose proof (adv_trans _ _ _ _ _ A01 A2) as A02.
  destruct (gnil e3) eqn:G3.
  2:{ rewrite !rh_bind_err by exact G3.
      assert (NE : e3 <> GR ROk) by (intros ->; discriminate).
      apply (post_err z _ _ _ _ A02); [|exact NE|exact NB2].
      rewrite Hparse. destruct (F2 NE) as [c ->]. eexists; reflexivity. }
  apply gnil_true in G3. subst e3. rewrite rh_bind_ok.
  destruct (S2 eq_refl) as (D3 & name & P2 & Hh3 & Hx3). clear S2 F2 NB2 E3.
  rewrite P2 in Hparse.
  (* FCOMMENT *)
  rewrite rh_comment_str.
  destruct (rh_str (N.testbit flg 4) h_set_comment z3 hdr3) as [[z4 hdr4] e4] eqn:E4.
  destruct (rh_str_spec HB _ _ z3 hdr3 (proj1 A2) _ _ _ E4) as (u3 & A3 & S3 & F3 & NB3).
  pose proof (adv_trans _ _ _ _ _ A02 A3) as A03.
  destruct (gnil e4) eqn:G4.
  2:{ rewrite !rh_bind_err by exact G4.
      assert (NE : e4 <> GR ROk) by (intros ->; discriminate).
      apply (post_err z _ _ _ _ A03); [|exact NE|exact NB3].
      rewrite Hparse. destruct (F3 NE) as [c ->]. eexists; reflexivity. }
  apply gnil_true in G4. subst e4. rewrite rh_bind_ok.
  destruct (S3 eq_refl) as (D4 & comment & P3 & Hh4 & Hx4). clear S3 F3 NB3 E4.
  rewrite P3 in Hparse.
  (* the digest so far is the CRC-32 of everything consumed *)
  assert (Hs3 : bstream (z_r z) = (((buf ++ u1) ++ u2) ++ u3) ++ bstream (z_r z4)) by apply A03.
  assert (Hdig : z_digest z4 = crc32 (((buf ++ u1) ++ u2) ++ u3)).
  { rewrite D4, D3, D2, Hd1. unfold crc32. rewrite !HCRC, !app_assoc. reflexivity. }
  rewrite Hs3 in Hparse at 2. rewrite p_crc_pre in Hparse. rewrite <- Hdig in Hparse.
  (* FHCRC *)
  destruct (rh_hcrc flg z4 hdr4) as [[z5 hdr5] e5] eqn:E5.
  destruct (rh_hcrc_spec HRF flg z4 hdr4 (proj1 A3) _ _ _ E5) as (u4 & A4 & D5 & S4 & F4 & NB4).
  pose proof (adv_trans _ _ _ _ _ A03 A4) as A04.
  destruct (gnil e5) eqn:G5.
  2:{ rewrite !rh_bind_err by exact G5.
      assert (NE : e5 <> GR ROk) by (intros ->; discriminate).
      apply (post_err z _ _ _ _ A04); [|exact NE|exact NB4].
      rewrite Hparse. destruct (F4 NE) as [-> [->|Hc]]; [eexists; reflexivity|].
      destruct (length (bstream (z_r z4)) <? 2)%nat; [eexists; reflexivity|].
      rewrite Hc. eexists; reflexivity. }
  apply gnil_true in G5. subst e5. rewrite rh_bind_ok.
  destruct (S4 eq_refl) as (-> & S5). clear S4 F4 NB4 E5.
  (* the Header *)
  assert (Hm : forall hc, hdr_matches hdr4 (mkgh mt xfl os extra name comment hc)).
  { intros hc. subst hdr4 hdr3 hdr2. unfold hdr_matches, hdr1.
    destruct (N.testbit flg 2); [|rewrite (Hx2 eq_refl)];
    (destruct (N.testbit flg 3); [|rewrite (Hx3 eq_refl)]);
    (destruct (N.testbit flg 4); [|rewrite (Hx4 eq_refl)]);
    cbn; repeat split; reflexivity. }
  destruct (N.testbit flg 1).
  - destruct S5 as (L1 & L2 & L3). rewrite L1, L2 in Hparse. rewrite <- L3 in Hparse.
    apply (post_ok z z5 hdr4 _ _ A04 Hparse (Hm true)).
  - rewrite <- S5 in Hparse.
    apply (post_ok z z5 hdr4 _ _ A04 Hparse (Hm false)).
Qed.

Theorem gzReadHeader_spec_from :
  bReadByte_spec_statement -> ioReadFull_spec_statement -> crc32_update_app_statement ->
  gzReadHeader_spec_statement.
Proof.
  intros HB HRF HCRC z Hok Hby.
  pose proof (gzReadHeader_post HB HRF HCRC z Hok Hby) as M.
  destruct (gzReadHeader z) as [[z' hdr] e]. exact M.
Qed.

Print Assumptions gzReadHeader_spec_from.
