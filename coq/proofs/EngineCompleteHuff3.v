(* EngineCompleteHuff3.v -- completeness side of M5, exact end-of-input fact
   (decodeHuffman_outcome3_body of RModel/EngineCompleteSpecF.v): when decodeHuffman reports
   the end of the input, the reference -- on exactly the engine's bits -- needs input after at
   most 2 bytes more than the engine wrote (the leading literals of the one rolled-back table
   entry).  Same proof skeleton as EngineCompleteHuffInner/Main, carrying the byte count. *)
From Coq Require Import List NArith ZArith Bool Lia ZifyBool ZifyNat ZifyN.
From Verif Require Import Bits Huffman HuffmanSpec Inflate InflateSpec InflateMono.
From Verif Require Import Base EngineTables Engine EngineRefineSpec EngineRefineSpecBlock
                          EngineRefineBits EngineRefineBridge.
From Verif Require HuffmanProofs SymbolsProofs EngineFacts EngineCompletePad.
From Verif Require Import EngineRefineHuffBase EngineRefineHuffSyms EngineRefineHuffDist
                          EngineRefineHuffInner EngineRefineHuffOuter.
From Verif Require Import EngineCompleteSpecA EngineCompleteSpecD EngineCompleteSpecF.
From Verif Require Import EngineCompleteHuffTrie EngineCompleteHuffPad EngineCompleteHuffInner
                          EngineCompleteHuffBound EngineCompleteHuffMain.
Import ListNotations.
Open Scope N_scope.

Lemma pushes_olen : forall l st, olen (pushes l st) = olen st + N.of_nat (length l).
Proof.
  induction l as [|x l IH]; intros st.
  - cbn [pushes fold_left length]. lia.
  - change (pushes (x :: l) st) with (pushes l (push (fst x) st)). rewrite IH.
    cbn [push olen length]. lia.
Qed.

(* ---------------------------------------------------------------- the inner loop *)
(* n = number of pending symbols: the roll-back happens at a length symbol, which is the last
   one, so fewer than n literals are stepped over *)
Definition Extra3 (lt dt : trie) (e : list bool) (n : N) (st : ostate) (bs0 : bs) (r : hres) : Prop :=
  match r with
  | HCont _ _ _ _ => True
  | HFin _ _ _ _ err =>
    err = EEndInput -> e = [] ->
    exists st2 bs2, sym_run lt dt st bs0 st2 bs2 false /\
      (exists a b, sym1 lt dt st2 bs2 = SStop a b NeedInput) /\ olen st2 + 1 <= olen st + n
  end.

Lemma Extra3_prepend : forall lt dt e n n1 st bs0 st1 bs1 r,
  sym_run lt dt st bs0 st1 bs1 false -> olen st1 + n1 <= olen st + n ->
  Extra3 lt dt e n1 st1 bs1 r -> Extra3 lt dt e n st bs0 r.
Proof.
  intros lt dt e n n1 st bs0 st1 bs1 r R Hn H. destruct r as [|s' b' out' w' err]; [exact I|].
  cbn [Extra3] in *. intros He Hnil. destruct (H He Hnil) as (st2 & bs2 & R2 & Hs & Hc).
  exists st2, bs2. split; [eapply sym_run_trans; eassumption|]. split; [exact Hs|lia].
Qed.

Ltac triv3 := cbn [Extra3]; intros Hx; discriminate Hx.

Lemma huff_inner_extra3 : canon_pad_statement ->
  forall L0 D ll dl lt dt e bT wT fuel s b out w pend st bs0 n,
  n = N.of_nat (length pend) ->
  mktrie 15 ll = Some lt -> mktrie 15 dl = Some dt -> Forall (fun x => (x <= 15)%nat) dl ->
  dist_tab_ok dl (tb s) ->
  Inv L0 D s out w st (N.of_nat (length pend)) (pack_syms pend) -> w <= outLen ->
  br_wf b -> (0 <= r_len b)%Z -> lits_then_any pend -> (length pend <= 3)%nat ->
  pend_ok (xcodes ll) (bl bs0) pend (br_bits b ++ e) ->
  Extra3 lt dt e n st bs0
        (huff_inner fuel s b out w (N.of_nat (length pend)) (pack_syms pend) bT wT).
Proof.
  intros CP L0 D ll dl lt dt e bT wT.
  induction fuel as [|f IH]; intros s b out w pend st bs0 n Hn Hlt Hdt Hdl Htab HInv Hw Hwf H0 Hlta Hlen Hp.
  { cbn [huff_inner]. triv3. }
  rewrite huff_inner_S.
  destruct pend as [|[a la] rest].
  { cbn [length N.of_nat N.eqb Extra3]. exact I. }
  pose proof Hp as Hp0.
  cbn [pend_ok] in Hp. destruct Hp as (val & l' & Hin & Hbl & Hp).
  destruct bs0 as [l p]. cbn [bl] in Hbl, Hp0. subst l.
  destruct (xcode_sem ll lt dt a la val l' p st Hlt Hin) as (Ha512 & Slit & Send & Slen).
  cbv zeta in Slit, Send, Slen.
  set (bsA := mkbs (bits_of_N la val ++ l') p) in *.
  set (bs1 := mkbs l' (p + N.of_nat la)) in *.
  destruct (N.eqb_spec (N.of_nat (length ((a, la) :: rest))) 0) as [Hz|_]; [cbn [length] in Hz; lia|].
  destruct HInv as (C1 & C2 & HI).
  destruct rest as [|[a2 la2] rest2].
  - (* ---------------- a single pending symbol *)
    cbn [length pack_syms] in *. change (N.of_nat 1) with 1 in *.
    replace (a + 256 * 0) with a in * by lia.
    cbv zeta. rewrite (land_ffff a), N.mod_small by lia.
    change (1 <? 1) with false. rewrite orb_false_r.
    cbn [pend_ok] in Hp.
    destruct (N.ltb_spec a 256) as [Hlit|Hnl].
    + destruct HI as [(A & B & W)|(_ & _ & _ & Hbig & _)]; [|lia].
      destruct (N.eqb_spec w outLen) as [Hfull|Hroom].
      * change (8 * (1 - 1)) with 0. rewrite N.shiftr_0_r.
        destruct (N.ltb_spec a 256) as [_|Hge]; [|lia]. triv3.
      * rewrite land_255, N.mod_small by lia.
        change (1 - 1) with (N.of_nat (@length (N * nat) [])).
        replace (N.shiftr a 8) with (pack_syms []) by (cbn [pack_syms]; rewrite shiftr_8; symmetry; apply N.div_small; exact Hlit).
        apply (Extra3_prepend lt dt e n 0 st bsA (push a st) bs1).
        -- apply sym_run_one. apply Slit. exact Hlit.
        -- cbn [push olen]. lia.
        -- apply IH; [reflexivity|exact Hlt|exact Hdt|exact Hdl|exact Htab| | |exact Hwf|exact H0|exact I| |exact Hp].
           ++ split; [exact C1|]. split; [exact C2|]. left. split; [exact A|]. split; [exact B|].
              apply winD_push. exact W.
           ++ unfold outLen in *. lia.
           ++ cbn [length]. lia.
    + destruct (N.eqb_spec a 256) as [H256|Hn256].
      * change (1 - 1) with 0. rewrite huff_inner_0. destruct f as [|f']; [triv3|exact I].
      * unfold maxLitLenSym. destruct (N.leb_spec a 512) as [_|Hgt]; [|lia].
        subst l'.
        pose proof (len_branch_out CP L0 D dl dt
                     (fun s b out w => huff_inner f s b out w (1 - 1) (N.shiftr a 8) bT wT)
                     s bT wT out w (a - 254) b st bsA 1 a Hdt Hdl Htab
                     (conj C1 (conj C2 HI)) Hw Hwf H0) as HL.
        cbv zeta in HL.
        pose proof (Slen ltac:(lia)) as Hs1. unfold bs1 in Hs1.
        destruct HL as [(Er & Hnl20 & Hneed)|[(b' & err & Er & Herr & Hcor)|(s' & b' & out' & w' & [Er|Er])]];
          rewrite Er.
        -- cbn [Extra3]. intros _ ->. exists st, bsA. split; [apply sr_refl|].
           split; [exists st, bsA; rewrite Hs1; apply Hneed|]. lia.
        -- cbn [Extra3]. intros Hx. rewrite Hx in Herr. discriminate.
        -- triv3.
        -- cbv beta. change (1 - 1) with 0. rewrite huff_inner_0. destruct f as [|f']; [triv3|exact I].
  - (* ---------------- several pending symbols *)
    set (rest := (a2, la2) :: rest2) in *.
    assert (Hlta' : a < 256 /\ lits_then_any rest) by exact Hlta.
    destruct Hlta' as [Hlit Hltr].
    assert (Hnl : pack_syms ((a, la) :: rest) = a + 256 * pack_syms rest) by reflexivity.
    assert (Hr1 : 1 <= N.of_nat (length rest)) by (unfold rest; cbn [length]; lia).
    destruct HI as [(A & B & W)|(_ & _ & Hbad & _)]; [|cbn [length] in Hbad; lia].
    cbv zeta.
    destruct (N.ltb_spec 1 (N.of_nat (length ((a, la) :: rest)))) as [_|Hle]; [|cbn [length] in Hle; lia].
    rewrite orb_true_r.
    destruct (N.eqb_spec w outLen) as [Hfull|Hroom].
    + destruct (lits_then_any_split ((a, la) :: rest) ltac:(discriminate) Hlta) as (lits & [X lX] & Epend & Flits).
      assert (Hll : length ((a, la) :: rest) = S (length lits)).
      { rewrite Epend, app_length. cbn [length]. lia. }
      assert (Hsh : N.shiftr (pack_syms ((a, la) :: rest)) (8 * (N.of_nat (length ((a, la) :: rest)) - 1)) = X).
      { rewrite Hll. replace (N.of_nat (S (length lits)) - 1) with (N.of_nat (length lits)) by lia.
        rewrite Epend, pack_app_shift by exact Flits. cbn [pack_syms]. lia. }
      rewrite Hsh.
      destruct (N.ltb_spec X 256) as [HXlit|HXnl]; [triv3|].
      rewrite park2, C1, C2.
      destruct (N.eqb_spec X 256) as [HX256|HXn256]; [triv3|].
      cbn [bl] in Hp0. rewrite Epend in Hp0.
      destruct (pend_ok_app _ _ _ _ _ Hp0) as (m & Pm1 & Pm2).
      destruct (run_lits ll lt dt lits _ m p st Hlt Flits Pm1) as (p' & Rl). fold bsA in Rl.
      cbn [pend_ok] in Pm2. destruct Pm2 as (valX & lx & HinX & -> & ->).
      set (o2 := mkOV (pack_syms ((a, la) :: rest)) (N.of_nat (length ((a, la) :: rest)) - 1) 0 0).
      set (s2 := upd s (phase s) o2).
      change 1 with (N.of_nat (length [(X, lX)])) at 1.
      replace X with (pack_syms [(X, lX)]) at 2 by (cbn [pack_syms]; lia).
      apply (Extra3_prepend lt dt e n 1 st bsA (pushes lits st) _ _ Rl).
      { rewrite pushes_olen. rewrite Hn, Hll. lia. }
      apply IH; [reflexivity|exact Hlt|exact Hdt|exact Hdl|exact Htab| |exact Hw|exact Hwf|exact H0|exact I| | ].
      * split; [reflexivity|]. split; [reflexivity|]. right.
        unfold s2, o2, upd. cbn [set_ov ov writeOverflowLen writeOverflowLits length].
        split; [cbn [length] in *; lia|]. split; [exact Hfull|]. split; [reflexivity|].
        split; [cbn [pack_syms]; lia|].
        apply (winD_arr4_lits' D out w st lits [(X, lX)] _ _ W).
        -- exact Flits.
        -- lia.
        -- rewrite Epend. reflexivity.
        -- unfold rest in *. cbn [length] in *. lia.
      * cbn [length]. lia.
      * cbn [pend_ok bl]. exists valX, (br_bits b ++ e). auto.
    + rewrite Hnl, pack_low, pack_shift8 by exact Hlit.
      replace (N.of_nat (length ((a, la) :: rest)) - 1) with (N.of_nat (length rest)) by (cbn [length]; lia).
      apply (Extra3_prepend lt dt e n (N.of_nat (length rest)) st bsA (push a st) bs1).
      * apply sym_run_one. apply Slit. exact Hlit.
      * cbn [push olen]. rewrite Hn. cbn [length]. lia.
      * apply IH; [reflexivity|exact Hlt|exact Hdt|exact Hdl|exact Htab| | |exact Hwf|exact H0|exact Hltr| |exact Hp].
        -- split; [exact C1|]. split; [exact C2|]. left. split; [exact A|]. split; [exact B|].
           apply winD_push. exact W.
        -- unfold outLen in *. lia.
        -- cbn [length] in Hlen. lia.
Qed.

(* ---------------------------------------------------------------- an entry that ends beyond
   the real bits, with the count *)
Lemma need_entry3 : forall ll lt dt syms b st p,
  mktrie 15 ll = Some lt -> lits_then_any syms -> xseq (xcodes ll) (r_bits b) syms ->
  br_wf b -> r_in b = [] -> (0 <= r_len b < Z.of_nat (syms_bits syms))%Z ->
  exists st2 bs2, sym_run lt dt st (mkbs (br_bits b) p) st2 bs2 false /\
                  (exists a c, sym1 lt dt st2 bs2 = SStop a c NeedInput) /\
                  olen st2 + 1 <= olen st + N.of_nat (length syms).
Proof.
  intros ll lt dt. induction syms as [|[s len] r IH]; intros b st p Hmk Hlta Hx Hwf Hex Hlen.
  - cbn [syms_bits fold_right] in Hlen. lia.
  - cbn [xseq] in Hx. destruct Hx as [(val & Hin & Hm) Hr].
    change (syms_bits ((s, len) :: r)) with (len + syms_bits r)%nat in Hlen.
    destruct (Z.ltb_spec (r_len b) (Z.of_nat len)) as [Hcross|Hwhole].
    + exists st, (mkbs (br_bits b) p). split; [apply sr_refl|]. split.
      * eexists _, _. apply (need_word ll lt dt s len val b st p Hmk Hin Hm Hwf Hex). lia.
      * cbn [length]. lia.
    + destruct r as [|y r'].
      { cbn [syms_bits fold_right] in Hlen. lia. }
      destruct Hlta as [Hs Hltr].
      destruct (br_drop_bits b (N.of_nat len) Hwf ltac:(lia)) as (D1 & _ & _).
      pose proof (stream_head b len Hwf Hwhole) as Hsh. unfold xmatch in Hm. rewrite Hm in Hsh.
      destruct (xcode_sem ll lt dt s len val (br_bits (br_drop b (N.of_nat len))) p st Hmk Hin) as (_ & S1 & _ & _).
      cbv zeta in S1. rewrite <- Hsh in S1.
      destruct (IH (br_drop b (N.of_nat len)) (push s st) (p + N.of_nat len) Hmk Hltr) as (st2 & bs2 & R & Hst & Hc).
      * unfold br_drop; cbn [r_bits]. exact Hr.
      * exact D1.
      * unfold br_drop; cbn [r_in]. exact Hex.
      * unfold br_drop; cbn [r_len]. lia.
      * exists st2, bs2. split; [eapply sr_step; [apply S1; exact Hs|exact R]|]. split; [exact Hst|].
        cbn [push olen] in Hc. cbn [length] in Hc |- *. lia.
Qed.

(* ---------------------------------------------------------------- the outer loop *)
Definition OExtra3 (lt dt : trie) (e : list bool) (st : ostate) (bs0 : bs) (w : N)
    (r : inflate * bitrd * arr * N * ierr) : Prop :=
  let '(s', b', out', w', err) := r in
  err = EEndInput -> e = [] ->
  exists st2 bs2, sym_run lt dt st bs0 st2 bs2 false /\
    (exists a c, sym1 lt dt st2 bs2 = SStop a c NeedInput) /\ olen st2 + w <= olen st + w' + 2.

Lemma OExtra3_prepend : forall lt dt e st bs0 w st1 bs1 w1 r,
  sym_run lt dt st bs0 st1 bs1 false -> olen st1 + w = olen st + w1 ->
  OExtra3 lt dt e st1 bs1 w1 r -> OExtra3 lt dt e st bs0 w r.
Proof.
  intros lt dt e st bs0 w st1 bs1 w1 [[[[s' b'] out'] w'] err] R Hc H. cbn [OExtra3] in *.
  intros He Hnil. destruct (H He Hnil) as (st2 & bs2 & R2 & Hs & Hc2).
  exists st2, bs2. split; [eapply sym_run_trans; eassumption|]. split; [exact Hs|lia].
Qed.

Lemma huff_outer_extra3 : canon_pad_statement ->
  forall L0 D ll dl lt dt e fuel s b out w st bs0,
  mktrie 15 ll = Some lt -> mktrie 15 dl = Some dt ->
  Forall (fun x => (x <= 15)%nat) ll -> Forall (fun x => (x <= 15)%nat) dl ->
  lit_tab_ok ll (tb s) -> dist_tab_ok dl (tb s) ->
  phase s = phaseHeaderDecoded -> ov s = mkOV L0 0 0 0 ->
  winD D out w st -> w <= outLen -> good_rd e b bs0 ->
  OExtra3 lt dt e st bs0 w (huff_outer fuel s b out w).
Proof.
  intros CP L0 D ll dl lt dt e.
  induction fuel as [|f IH]; intros s b out w st bs0 Hlt Hdt Hll Hdl Hlit Hdist Hph Hov W Hw (Hwf & H0 & Hbl).
  { cbn [huff_outer OExtra3]. intros Hx; discriminate Hx. }
  rewrite huff_outer_S. rewrite Hph. change (phaseHeaderDecoded =? phaseHeaderDecoded) with true. cbv iota.
  destruct (load_lt57_bits b Hwf) as (bT & LT & WfT & BitsT & LdT & LenT). rewrite LT.
  destruct (load_le15 bT) as [b1|] eqn:L1.
  2:{ cbn [OExtra3]. intros Hx; discriminate Hx. }
  pose proof (load_le15_loaded57 bT b1 WfT LdT L1) as Eb1. subst b1.
  destruct bs0 as [l0 p0]. cbn [bl] in Hbl. subst l0. rewrite <- BitsT.
  assert (HInv : forall sc nl, Inv L0 D s out w st sc nl).
  { intros sc nl. unfold Inv. rewrite Hov. cbn [copyOverflowLength copyOverflowDistance writeOverflowLen writeOverflowLits].
    split; [reflexivity|]. split; [reflexivity|]. left. auto. }
  assert (Hs_id : s = upd s (phase s) (mkOV L0 0 0 0)) by (rewrite <- Hov; symmetry; apply upd_id).
  destruct (Hlit bT) as [(syms & Hn & Hlta & Hx & Hdec)|(Hnone & cnt & lits & Hdec & Hcnt)]; rewrite Hdec.
  2:{ destruct Hcnt as [->|[-> Hbig]].
    - cbn [N.eqb OExtra3]. intros Hx; discriminate Hx.
    - change (1 =? 0) with false. cbv iota.
      destruct (Z.ltb_spec (r_len bT) 0) as [Hneg|_]; [lia|].
      rewrite (huff_inner_S 7). change (1 =? 0) with false. cbv iota zeta.
      change 65535 with 0xFFFF in *.
      destruct (N.ltb_spec (N.land lits 0xFFFF) 256) as [Hlt256|_]; [lia|].
      change (1 <? 1) with false. cbn [orb].
      destruct (N.eqb_spec (N.land lits 0xFFFF) 256) as [Heq|_]; [lia|].
      unfold maxLitLenSym. destruct (N.leb_spec (N.land lits 0xFFFF) 512) as [Hle|_]; [lia|].
      cbn [OExtra3]. intros Hx; discriminate Hx. }
  pose proof (entry_bits_bound ll (tb s) Hlit Hll bT syms Hn Hlta Hx Hdec) as HK.
  set (K := N.of_nat (syms_bits syms)) in *.
  set (b2 := br_drop bT K) in *.
  destruct (N.eqb_spec (N.of_nat (length syms)) 0) as [Hz|_]; [lia|].
  assert (Hr2 : r_len b2 = (r_len bT - Z.of_nat (syms_bits syms))%Z).
  { unfold b2, br_drop, K. cbn [r_len]. lia. }
  destruct (Z.ltb_spec (r_len b2) 0) as [Hneg|Hge].
  { cbn [OExtra3]. intros _ ->. rewrite app_nil_r.
    assert (HinT : r_in bT = []) by (destruct LdT as [E|E]; [exact E|lia]).
    destruct (need_entry3 ll lt dt syms bT st p0 Hlt Hlta Hx WfT HinT ltac:(lia)) as (st2 & bs2 & R & Hs & Hc).
    exists st2, bs2. split; [exact R|]. split; [exact Hs|]. lia. }
  assert (HKr : (Z.of_nat (syms_bits syms) <= r_len bT)%Z) by lia.
  destruct (br_drop_bits bT K WfT ltac:(unfold K; lia)) as (Wf2 & _ & _). fold b2 in Wf2.
  pose proof (xseq_pend (xcodes ll) e syms bT WfT HKr Hx) as Hp. fold K b2 in Hp.
  set (bs0 := mkbs (br_bits bT ++ e) p0) in *.
  pose proof (huff_inner_spec L0 D ll dl lt dt e bT w 8 s b2 out w syms st bs0 Hlt Hdt Hdist
               (HInv _ _) Hw ltac:(lia) Wf2 Hge Hlta ltac:(lia) Hp) as HP.
  pose proof (huff_inner_extra3 CP L0 D ll dl lt dt e bT w 8 s b2 out w syms st bs0 _ eq_refl Hlt Hdt Hdl Hdist
               (HInv _ _) Hw Wf2 Hge Hlta ltac:(lia) Hp) as HX.
  destruct (huff_inner 8 s b2 out w (N.of_nat (length syms)) (pack_syms syms) bT w)
    as [s1 b3 out1 w1|s1 b3 out1 w1 err]; cbn [Post Extra3] in HP, HX.
  - destruct HP as (st1 & bs1 & ended & R & Es1 & G1 & W1 & Hw1 & Hw1').
    destruct ended.
    + unfold ph_of in Es1.
      destruct f as [|f'].
      * cbn [huff_outer OExtra3]. intros Hx'; discriminate Hx'.
      * rewrite huff_outer_S.
        assert (Eph : phase s1 =? phaseHeaderDecoded = false).
        { rewrite Es1. unfold upd. cbn [set_ov set_phase phase]. apply eob_phase_not_hd. }
        rewrite Eph. cbn [OExtra3]. intros Hx'; discriminate Hx'.
    + unfold ph_of in Es1. rewrite <- Hs_id in Es1. subst s1.
      apply (OExtra3_prepend lt dt e st bs0 w st1 bs1 w1 _ R).
      * destruct W as [_ Wd]. destruct W1 as [_ Wd1]. lia.
      * apply IH; assumption.
  - cbn [OExtra3]. intros -> Hnil.
    destruct HP as [(_ & _ & -> & _)|(st' & bs' & ended & o' & _ & _ & _ & _ & _ & [(Hc & _)|[Hc|[Hc|Hc]]])];
      try discriminate Hc.
    destruct (HX eq_refl Hnil) as (st2 & bs2 & R & Hs & Hc).
    exists st2, bs2. split; [exact R|]. split; [exact Hs|]. lia.
Qed.

(* ---------------------------------------------------------------- the theorem *)
Theorem decodeHuffman_outcome3 : decodeHuffman_outcome3_body.
Proof.
  intros s out w lt dt st p Hwf H0 Hph Hbf Hov Htab Hwin Hw.
  pose proof (decodeHuffman_outcome2_body_holds s out w lt dt st p Hwf H0 Hph Hbf Hov Htab Hwin Hw) as H2.
  destruct Htab as (ll & dl & Hlt & Hdt & Hlit & Hdist & (Hll & Hdl & H286 & _)).
  set (s0 := set_cov s 0 0).
  assert (Es0 : s0 = upd s (phase s) (mkOV 0 0 0 0)).
  { unfold s0. rewrite set_cov_upd, Hov. reflexivity. }
  pose proof Hwin as (A1 & A2 & A3 & A4 & A5).
  set (D := olen st - w).
  assert (W : winD D out w st) by (split; [exact Hwin|unfold D; lia]).
  assert (Erd : rd s0 = rd s) by (rewrite Es0; reflexivity).
  assert (G : good_rd [] (rd s0) (mkbs (br_bits (rd s) ++ []) p)).
  { rewrite Erd. split; [exact Hwf|split; [exact H0|reflexivity]]. }
  assert (HX : OExtra3 lt dt [] st (mkbs (br_bits (rd s) ++ []) p) w (huff_outer big_fuel s0 (rd s0) out w)).
  { apply (huff_outer_extra3 EngineCompletePad.canon_pad 0 D ll dl lt dt [] big_fuel s0 (rd s0) out w st _ Hlt Hdt Hll Hdl);
      [rewrite Es0; exact Hlit|rewrite Es0; exact Hdist|rewrite Es0; exact Hph|rewrite Es0; reflexivity|exact W|exact Hw|exact G]. }
  assert (HO : OPost 0 D lt dt [] s0 st (mkbs (br_bits (rd s) ++ []) p) w (huff_outer big_fuel s0 (rd s0) out w)).
  { apply (huff_outer_spec 0 D ll dl lt dt [] big_fuel s0 (rd s0) out w st _ Hlt Hdt);
      [rewrite Es0; exact Hlit|rewrite Es0; exact Hdist|rewrite Es0; exact Hph|rewrite Es0; reflexivity|exact W|exact Hw|exact G]. }
  revert H2. unfold decodeHuffman. fold s0.
  destruct (huff_outer big_fuel s0 (rd s0) out w) as [[[[s1 b1] out1] w1] err].
  cbn [OExtra3 OPost] in HX, HO.
  destruct HO as (_ & _ & _ & _ & _ & _ & _ & _ & Hww & _).
  destruct (r_len b1 <? 0)%Z.
  - intros (C1 & C2 & C3). split; [|split; [exact C2|exact C3]].
    intros Hx. destruct err; discriminate Hx.
  - intros (C1 & C2 & C3). split; [|split; [exact C2|exact C3]].
    intros He. destruct (C1 He) as [Cin _]. split; [exact Cin|].
    destruct (HX He eq_refl) as (st2 & bs2 & R & Hs & Hc).
    rewrite app_nil_r in R. exists st2, bs2. split; [exact R|]. split; [exact Hs|]. lia.
Qed.

Print Assumptions decodeHuffman_outcome3.
