(* EngineResetHdr2.v -- Reset-equivalence proof, dynamic header, part 2: single-run facts about
   the code-length code (histogram invariant of clc_read3, without bit-reader hypotheses) and
   about the codes array gen_small returns, and the two-run lemma for codeLenCodes. *)
From Coq Require Import List NArith ZArith Bool Lia ZifyBool ZifyNat ZifyN.
From Verif Require Import Base Engine EngineTables EngineSafetyBase EngineSafetyBits EngineSafetyInv.
From Verif Require Import EngineResetDepSmall EngineResetDefs EngineResetHdr1 EngineResetSmallSim.
Import ListNotations.
Open Scope N_scope.

(* ---------------------------------------------------------------- clc_read3: histogram only *)
Lemma clc_loop_tab : forall lo hi b0 h0 c0 b h c,
  lo <= hi -> hi <= 19 ->
  forN lo hi clc_read3 (b0, h0, c0) = (b, h, c) ->
  tab_inv lo h0 c0 -> tab_inv hi h c.
Proof.
  intros lo hi b0 h0 c0 b h c Hlo Hhi H Ht.
  pose proof (forN_ind _ (fun j (st : bitrd * arr * arr) =>
     let '(b, h, c) := st in tab_inv j h c) clc_read3 lo hi (b0, h0, c0) Hlo) as HI.
  rewrite H in HI. apply HI; clear HI H.
  - exact Ht.
  - intros j [[b1 h1] c1] Hj (T1 & T2 & T3 & T4 & T5).
    unfold clc_read3, next_bits. cbv beta iota zeta.
    set (len := N.land (r_bits b1) (N.ones 3)).
    assert (Hlen : len < 8) by (apply (land_ones_lt (r_bits b1) 3)).
    set (p := aget codeLengthOrder j).
    assert (Hp : p < 19) by (apply clo_lt; lia).
    assert (Hp0 : aget h1 p = 0) by (apply T2; lia).
    assert (Hl : hc_len (hc_set 0 len) = len) by (apply hc_set_len; lia).
    unfold tab_inv. split; [|split; [|split; [|split]]].
    + intros q. rewrite aget_aset. destruct (q =? p); [|apply T1].
      split; [apply hc_set_lt|rewrite Hl; lia].
    + intros i Hi. rewrite aget_aset_other; [apply T2; lia|].
      intro E. apply clo_inj in E; lia.
    + intros l Hl1. rewrite ainc_delta, (T3 l Hl1).
      rewrite count_len_aset by (rewrite Hp0; change (hc_len 0) with 0; lia).
      rewrite Hl. replace (p <? N.of_nat 19) with true by lia. cbn [andb].
      destruct (N.eqb_spec l len); destruct (N.eqb_spec len l); lia.
    + intros l Hl8. rewrite ainc_delta, (T4 l Hl8). destruct (N.eqb_spec l len); lia.
    + pose proof (sum15_ainc c1 len). lia.
Qed.

(* the code-length code that codeLenCodes hands to gen_small satisfies small_pre *)
Lemma clc_small_pre : forall h3 c3 h4 bad,
  tab_inv 19 h3 c3 -> setCodes h3 0 19 c3 = (h4, bad) -> small_pre h4 c3 19.
Proof.
  intros h3 c3 h4 bad (T1 & T2 & T3 & T4 & T5) Esc.
  assert (Hh3 : huff_ok h3).
  { intros i. destruct (T1 i) as [X Y]. split; [exact X|lia]. }
  destruct (setCodes_spec _ _ _ _ _ _ Esc Hh3) as [Hh4 Hlen].
  unfold small_pre. split; [intros i; apply Hh4|]. split; [intros i; apply Hh4|].
  split; [|lia].
  intros l Hl. change (N.to_nat 19) with 19%nat.
  rewrite (count_len_ext h3 h4 0 19 l Hlen). apply T3. lia.
Qed.

(* ---------------------------------------------------------------- the codes array of gen_small *)
Lemma gs_fill_codes : forall fuel hdr ms lcl grp codes0 long codes pan sym,
  codes_ok codes0 codes ->
  codes_ok codes0 (snd (fst (gs_fill fuel hdr ms lcl grp (long, codes, pan) sym))).
Proof.
  intros fuel hdr ms lcl grp codes0 long codes pan sym Hc. unfold gs_fill. cbv zeta.
  match goal with |- context [long_fill ?a ?b ?c ?d ?e ?f ?g ?h ?i ?j] =>
    destruct (long_fill a b c d e f g h i j) as [l2 p2] end.
  cbn [fst snd]. intros x. rewrite aget_aset.
  destruct (N.eqb_spec x sym) as [->|Hne]; [|apply Hc].
  destruct (hc_setcode_spec (aget codes sym) 65535 (proj1 (Hc sym))) as [S1 S2].
  split; [exact S1|]. rewrite S2. apply Hc.
Qed.

Lemma gs_fill_fold_codes : forall fuel hdr ms lcl grp codes0 temp long codes pan,
  codes_ok codes0 codes ->
  codes_ok codes0 (snd (fst (fold_left (gs_fill fuel hdr ms lcl grp) temp (long, codes, pan)))).
Proof.
  intros fuel hdr ms lcl grp codes0 temp. induction temp as [|sym r IH]; intros long codes pan Hc.
  - exact Hc.
  - cbn [fold_left].
    pose proof (gs_fill_codes fuel hdr ms lcl grp codes0 long codes pan sym Hc) as H1.
    destruct (gs_fill fuel hdr ms lcl grp (long, codes, pan) sym) as [[l1 c1] p1].
    cbn [fst snd] in H1. apply IH, H1.
Qed.

Lemma gs_long_step_codes : forall fuel hdr cl ms lcs n i codes0 st,
  codes_ok codes0 (snd (fst (fst st))) ->
  codes_ok codes0 (snd (fst (fst (gs_long_step fuel hdr cl ms lcs n i st)))).
Proof.
  intros fuel hdr cl ms lcs n i codes0 [[[[short long] codes] lcl] pan] Hc. cbn [fst snd] in Hc.
  unfold gs_long_step.
  destruct (negb (ierr_eqb pan ENone)); [exact Hc|].
  destruct (32 <=? lcs + i); [exact Hc|].
  destruct (hc_code (aget codes (aget cl (lcs + i))) =? 65535); [exact Hc|].
  match goal with |- context [gs_group ?a ?b ?c ?d ?e ?f ?g ?h] =>
    destruct (gs_group a b c d e f g h) as [ml tempRev] end.
  cbv zeta.
  match goal with |- context [if ?c then (short, long, codes, lcl, EInvalidBlock) else _] =>
    destruct c; [exact Hc|] end.
  match goal with |- context [if ?c then (short, long, codes, lcl, EPanic) else _] =>
    destruct c; [exact Hc|] end.
  match goal with |- context [fold_left ?f ?l (?lg, codes, false)] =>
    pose proof (gs_fill_fold_codes fuel hdr ms lcl (N.shiftl 1 (ml - 10)) codes0 l lg codes false Hc) as HF;
    destruct (fold_left f l (lg, codes, false)) as [[long2 codes2] panb]
  end.
  cbn [fst snd] in HF |- *. exact HF.
Qed.

Lemma gen_small_codes_ok : forall hdr sh lg codes n count ms s l c' e,
  gen_small hdr sh lg codes n count ms = (s, l, c', e) ->
  (forall i, aget codes i < 4294967296) -> codes_ok codes c'.
Proof.
  intros hdr sh lg codes n count ms s l c' e H H32.
  assert (Hc0 : codes_ok codes codes) by (intros x; split; [apply H32|reflexivity]).
  rewrite gen_small_eq in H. cbv zeta in H.
  destruct (aget (gs_ct count) 16 =? 0).
  { inversion H; subst. exact Hc0. }
  destruct (gs_sort codes n (gs_ct count)) as [[cl ctt] pan0].
  destruct pan0.
  { inversion H; subst. exact Hc0. }
  match type of H with context [gs_short ?a ?b ?c ?d ?e ?f ?g ?h] =>
    destruct (gs_short a b c d e f g h) as [sh1 cs1] end.
  unfold gs_long in H.
  match type of H with context [forN 0 ?nn ?f ?s0] =>
    pose proof (forN_inv _ (fun st : arr * arr * arr * N * ierr => codes_ok codes (snd (fst (fst st))))
                  f 0 nn s0) as HI;
    destruct (forN 0 nn f s0) as [[[[sh2 lg2] cs2] lcl2] e2]
  end.
  inversion H; subst. cbn [fst snd] in HI. apply HI.
  - exact Hc0.
  - intros j x _ Hx. apply gs_long_step_codes. exact Hx.
Qed.

(* ---------------------------------------------------------------- codeLenCodes, two runs *)
(* dyn with a new code-length table *)
Definition with_clc (d : dynHdr) (sh lg : arr) : dynHdr :=
  mkDyn (litAndDistHuff d) sh lg (codeList d) (litCount d) (distCount d)
        (litExpandCount d) (nextCode d) (lenHuffCodes d).

Lemma set_rd_eta : forall s b, set_rd s b = set_dyn (set_rd s b) (dyn s).
Proof. intros s b. destruct s. reflexivity. Qed.

Lemma codeLenCodes_sim :
  forall s1 s2 hclen, rd s1 = rd s2 -> hclen <= 15 ->
  exists b' e d1' d2',
    codeLenCodes s1 hclen = (set_dyn (set_rd s1 b') d1', e) /\
    codeLenCodes s2 hclen = (set_dyn (set_rd s2 b') d2', e) /\
    (e = ENone -> exists sh1 lg1 sh2 lg2,
       d1' = with_clc (dyn s1) sh1 lg1 /\ d2' = with_clc (dyn s2) sh2 lg2 /\
       clc_eq sh1 lg1 sh2 lg2).
Proof.
  intros s1 s2 hclen Hrd Hh. unfold codeLenCodes. rewrite <- Hrd.
  destruct (forN 0 4 clc_read3 (rd s1, aempty, aempty)) as [[b1 h1] c1] eqn:E1.
  pose proof (clc_loop_tab 0 4 _ _ _ _ _ _ ltac:(lia) ltac:(lia) E1 tab_inv_empty) as T4.
  destruct (load_lt57 b1) as [b2|].
  2:{ exists b1, EPanic, (dyn s1), (dyn s2). rewrite <- !set_rd_eta.
      split; [reflexivity|]. split; [reflexivity|]. intros Hc; discriminate Hc. }
  destruct (forN 4 (hclen + 4) clc_read3 (b2, h1, c1)) as [[b3 h3] c3] eqn:E3.
  pose proof (clc_loop_tab 4 (hclen + 4) _ _ _ _ _ _ ltac:(lia) ltac:(lia) E3 T4) as T19.
  assert (T19' : tab_inv 19 h3 c3).
  { destruct T19 as (A1 & A2 & A3 & A4 & A5). unfold tab_inv.
    split; [exact A1|]. split; [intros i Hi; apply A2; lia|]. split; [exact A3|].
    split; [exact A4|lia]. }
  cbv zeta.
  destruct (r_len b3 <? 0)%Z.
  { exists b3, EEndInput, (dyn s1), (dyn s2). rewrite <- !set_rd_eta.
    split; [reflexivity|]. split; [reflexivity|]. intros Hc; discriminate Hc. }
  destruct (setCodes h3 0 19 c3) as [h4 bad] eqn:Esc.
  destruct bad.
  { exists b3, EInvalidBlock, (dyn s1), (dyn s2). rewrite <- !set_rd_eta.
    split; [reflexivity|]. split; [reflexivity|]. intros Hc; discriminate Hc. }
  pose proof (clc_small_pre h3 c3 h4 false T19' Esc) as Hpre.
  cbn [dyn set_rd].
  destruct (gen_small true (clcShort (dyn s1)) (clcLong (dyn s1)) h4 19 c3 19) as [[[sh1 lg1] cs1] e1] eqn:G1.
  destruct (gen_small true (clcShort (dyn s2)) (clcLong (dyn s2)) h4 19 c3 19) as [[[sh2 lg2] cs2] e2] eqn:G2.
  destruct (gen_small_sim _ _ _ _ _ _ _ _ _ _ _ _ _ _ _ _ _ Hpre ltac:(lia) G1 G2) as (Hc & He & Hrel).
  subst e2.
  exists b3, e1, (with_clc (dyn s1) sh1 lg1), (with_clc (dyn s2) sh2 lg2).
  split; [reflexivity|]. split; [reflexivity|].
  intros He1. exists sh1, lg1, sh2, lg2. split; [reflexivity|]. split; [reflexivity|].
  apply small_rel_clc, Hrel, He1.
Qed.
